module verif/harness

go 1.25

toolchain go1.25.5

require (
	github.com/bitly/go-simplejson v0.5.1
	github.com/ozontech/file.d v0.0.0
	github.com/ozontech/insane-json v0.1.9
	github.com/pierrec/lz4/v4 v4.1.25
	github.com/prometheus/client_golang v1.16.0
	github.com/rjeczalik/notify v0.9.3
	github.com/tidwall/gjson v1.18.0
	github.com/twmb/franz-go v1.20.7
	github.com/twmb/franz-go/pkg/kmsg v1.12.0
	go.uber.org/zap v1.27.0
	k8s.io/api v0.34.2
)

require (
	github.com/ClickHouse/ch-go v0.65.1 // indirect
	github.com/andybalholm/brotli v1.0.5 // indirect
	github.com/armon/go-radix v0.0.0-20180808171621-7fddfc383310 // indirect
	github.com/beorn7/perks v1.0.1 // indirect
	github.com/bmatcuk/doublestar/v4 v4.8.1 // indirect
	github.com/bufbuild/protocompile v0.13.0 // indirect
	github.com/cenkalti/backoff/v4 v4.3.0 // indirect
	github.com/cespare/xxhash/v2 v2.3.0 // indirect
	github.com/davecgh/go-spew v1.1.2-0.20180830191138-d8f796af33cc // indirect
	github.com/dgryski/go-rendezvous v0.0.0-20200823014737-9f7001d12a5f // indirect
	github.com/dominikbraun/graph v0.23.0 // indirect
	github.com/elliotchance/orderedmap/v2 v2.4.0 // indirect
	github.com/emicklei/go-restful/v3 v3.12.2 // indirect
	github.com/fxamacker/cbor/v2 v2.9.0 // indirect
	github.com/go-faster/city v1.0.1 // indirect
	github.com/go-faster/errors v0.7.1 // indirect
	github.com/go-faster/jx v1.1.0 // indirect
	github.com/go-jose/go-jose/v4 v4.1.1 // indirect
	github.com/go-logr/logr v1.4.2 // indirect
	github.com/go-logr/stdr v1.2.2 // indirect
	github.com/go-openapi/jsonpointer v0.21.0 // indirect
	github.com/go-openapi/jsonreference v0.20.2 // indirect
	github.com/go-openapi/swag v0.23.0 // indirect
	github.com/gogo/protobuf v1.3.2 // indirect
	github.com/golang/protobuf v1.5.4 // indirect
	github.com/google/gnostic-models v0.7.0 // indirect
	github.com/google/uuid v1.6.0 // indirect
	github.com/hashicorp/errwrap v1.1.0 // indirect
	github.com/hashicorp/go-cleanhttp v0.5.2 // indirect
	github.com/hashicorp/go-multierror v1.1.1 // indirect
	github.com/hashicorp/go-retryablehttp v0.7.8 // indirect
	github.com/hashicorp/go-rootcerts v1.0.2 // indirect
	github.com/hashicorp/go-secure-stdlib/parseutil v0.2.0 // indirect
	github.com/hashicorp/go-secure-stdlib/strutil v0.1.2 // indirect
	github.com/hashicorp/go-sockaddr v1.0.7 // indirect
	github.com/hashicorp/go-version v1.7.0 // indirect
	github.com/hashicorp/golang-lru/v2 v2.0.7 // indirect
	github.com/hashicorp/hcl v1.0.1-vault-7 // indirect
	github.com/hashicorp/vault/api v1.22.0 // indirect
	github.com/jackc/puddle/v2 v2.2.2 // indirect
	github.com/josharian/intern v1.0.0 // indirect
	github.com/json-iterator/go v1.1.12 // indirect
	github.com/klauspost/compress v1.18.4 // indirect
	github.com/mailru/easyjson v0.7.7 // indirect
	github.com/matttproud/golang_protobuf_extensions v1.0.4 // indirect
	github.com/mitchellh/mapstructure v1.5.0 // indirect
	github.com/modern-go/concurrent v0.0.0-20180306012644-bacd9c7ef1dd // indirect
	github.com/modern-go/reflect2 v1.0.3-0.20250322232337-35a7c28c31ee // indirect
	github.com/munnerz/goautoneg v0.0.0-20191010083416-a7dc8b61c822 // indirect
	github.com/pkg/errors v0.9.1 // indirect
	github.com/pmezard/go-difflib v1.0.1-0.20181226105442-5d4384ee4fb2 // indirect
	github.com/prometheus/client_model v0.3.0 // indirect
	github.com/prometheus/common v0.42.0 // indirect
	github.com/prometheus/procfs v0.10.1 // indirect
	github.com/redis/go-redis/v9 v9.8.0 // indirect
	github.com/ryanuber/go-glob v1.0.0 // indirect
	github.com/segmentio/asm v1.2.0 // indirect
	github.com/spf13/pflag v1.0.6 // indirect
	github.com/stretchr/testify v1.10.0 // indirect
	github.com/tidwall/match v1.1.1 // indirect
	github.com/tidwall/pretty v1.2.1 // indirect
	github.com/timtadh/data-structures v0.6.1 // indirect
	github.com/timtadh/lexmachine v0.2.3 // indirect
	github.com/twmb/franz-go/plugin/kzap v1.1.2 // indirect
	github.com/twmb/tlscfg v1.2.1 // indirect
	github.com/valyala/bytebufferpool v1.0.0 // indirect
	github.com/valyala/fasthttp v1.48.0 // indirect
	github.com/x448/float16 v0.8.4 // indirect
	go.opentelemetry.io/auto/sdk v1.1.0 // indirect
	go.opentelemetry.io/otel v1.34.0 // indirect
	go.opentelemetry.io/otel/metric v1.34.0 // indirect
	go.opentelemetry.io/otel/trace v1.34.0 // indirect
	go.uber.org/atomic v1.11.0 // indirect
	go.uber.org/multierr v1.11.0 // indirect
	go.yaml.in/yaml/v2 v2.4.2 // indirect
	go.yaml.in/yaml/v3 v3.0.4 // indirect
	golang.org/x/crypto v0.48.0 // indirect
	golang.org/x/net v0.49.0 // indirect
	golang.org/x/oauth2 v0.27.0 // indirect
	golang.org/x/sync v0.19.0 // indirect
	golang.org/x/sys v0.41.0 // indirect
	golang.org/x/term v0.40.0 // indirect
	golang.org/x/text v0.34.0 // indirect
	golang.org/x/time v0.12.0 // indirect
	google.golang.org/protobuf v1.36.5 // indirect
	gopkg.in/evanphx/json-patch.v4 v4.12.0 // indirect
	gopkg.in/inf.v0 v0.9.1 // indirect
	gopkg.in/yaml.v2 v2.4.0 // indirect
	gopkg.in/yaml.v3 v3.0.1 // indirect
	k8s.io/apimachinery v0.34.2 // indirect
	k8s.io/client-go v0.34.2 // indirect
	k8s.io/klog/v2 v2.130.1 // indirect
	k8s.io/kube-openapi v0.0.0-20250710124328-f3f2b991d03b // indirect
	k8s.io/utils v0.0.0-20250604170112-4c0f3b243397 // indirect
	sigs.k8s.io/json v0.0.0-20241014173422-cfa47c3a1cc8 // indirect
	sigs.k8s.io/randfill v1.0.0 // indirect
	sigs.k8s.io/structured-merge-diff/v6 v6.3.0 // indirect
	sigs.k8s.io/yaml v1.6.0 // indirect
)

replace github.com/ozontech/file.d => /repo
