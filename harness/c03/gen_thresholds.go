package main

// Generator families that cross scale / history thresholds of the file input (threshold audit items 23, 24, 26, 28).
// Every family has its own stream name; the model side is the unchanged c03 predicate (which = 0), extended only by the
// two world operations remove (3) and symlink (4, 5).

import (
	"fmt"

	"verif/harness/hmain"
	"verif/harness/hx"
)

func opRemove(name int) hx.Sx       { return hx.L(hx.I(3), hx.I(name)) }
func opGone(name int) hx.Sx         { return hx.L(hx.I(6), hx.I(name)) }
func opLink(link, target int) hx.Sx { return hx.L(hx.I(4), hx.I(link), hx.I(target)) }
func opLinkCollide(link, target, other int) hx.Sx {
	return hx.L(hx.I(5), hx.I(link), hx.I(target), hx.I(other))
}

// cfgX = cfgS + the optional items (workers watchChanges removeAfterMs maxEventSize cutOff k8sMeta)
type cfgOpt struct {
	persist, procs, join, outKind, asyncMs, maintMs, readBuf, antispam int
	workers, watch, removeAfterMs, maxEventSize, cutOff, k8sMeta       int
}

func (o cfgOpt) sx() hx.Sx {
	return hx.L(hx.I(o.persist), hx.I(o.procs), hx.I(o.join), hx.I(o.outKind), hx.I(o.asyncMs), hx.I(o.maintMs), hx.I(o.readBuf), hx.I(o.antispam),
		hx.I(o.workers), hx.I(o.watch), hx.I(o.removeAfterMs), hx.I(o.maxEventSize), hx.I(o.cutOff), hx.I(o.k8sMeta))
}

func genThresholds(c *hmain.Ctx, r *hx.Rng, add func(stream string, which int, cs hx.Sx, nontr bool)) {
	streams := []string{"a", "stderr", noStream, "x:y"}
	baseCfg := func() cfgOpt {
		return cfgOpt{persist: r.Intn(2), procs: 1 + 3*r.Intn(2), asyncMs: hx.Pick(r, []int{2, 10}), maintMs: 25}
	}
	lines := func(b *caseB, s string, n, padMax, delayEvery int) []hx.Sx {
		var ls []hx.Sx
		for i := 0; i < n; i++ {
			d := 0
			if delayEvery > 0 && i%delayEvery == 0 {
				d = r.Range(1, 10)
			}
			ls = append(ls, b.line(s, r.Intn(padMax+1), 0, d))
		}
		return ls
	}
	killMid := func(n int) (int, int) { return 2, r.Range(1, max(n, 1)) }

	// ---- item 23: ONE worker, several files with unterminated lines pending. worker.work keeps accumBuf / readBuf for all
	//      jobs it takes; with workers_count 2 and <= 2..4 files the assignment of files to workers was left to the scheduler.
	//      A tiny read buffer makes every line span several reads, the cut lines are completed by live appends, a kill
	//      lands in the middle. Exposes at plugin level what C06 `multi-job-*` exposes at worker level: a tail saved by
	//      alias, an accumulator that is not reset between jobs (the next file's first line starts with foreign bytes: it
	//      does not decode, the line is lost and its offset is never committed).
	for i := 0; i < 3*c.Scale; i++ {
		b := &caseB{}
		o := baseCfg()
		o.workers, o.readBuf = 1, hx.Pick(r, []int{16, 50, 200})
		nf := r.Range(3, 5)
		st := make([]string, nf)
		var down []hx.Sx
		total := 0
		for f := 0; f < nf; f++ {
			st[f] = hx.Pick(r, streams)
			n := r.Range(2, 5)
			total += n - 1
			down = append(down, opAppend(f, r.Range(1, 30), lines(b, st[f], n, 60, 3)...)) // the last line is cut: it stays in job.tail
		}
		var lives []hx.Sx
		for f := 0; f < nf; f++ { // complete the cut lines one file after the other, new cut lines behind them
			lives = append(lives, live(r.Intn(2), opAppend(f, r.Range(0, 20), lines(b, st[f], r.Range(1, 3), 40, 0)...)))
		}
		mode, arg := killMid(total)
		var down2 []hx.Sx
		for f := 0; f < nf; f++ {
			if r.Bool() {
				down2 = append(down2, opAppend(f, 0, lines(b, st[f], r.Range(1, 3), 40, 0)...))
			}
		}
		c.W.Count(fmt.Sprintf("one-worker-many-files: files=%d read_buffer_size=%d", nf, o.readBuf))
		add("one-worker-many-files", 0, mkCase(o.sx(),
			phaseS(down, 0, 0, 30000, lives...),
			phaseS(down2, mode, arg, 30000, live(0, opAppend(0, 0, lines(b, st[0], 1, 10, 0)...))),
			phaseS(nil, 0, 0, 150)), true)
	}

	// ---- item 24: files are created, rotated and removed WHILE file.d runs (every create / rename in the other streams
	//      happens while it is down). Covers addJob with isStarted (offsetsOpReset), the maintenance paths `newInode != inode`
	//      / deleteJobAndUnlock, the offsets snapshot after a job disappeared, the watcher's Create / Rename notifications.
	//      Exposes: a live-created file resumed from a stale offset of a recycled source id, a rotated file whose job is
	//      dropped with unread lines, a removed job that is still written to (or crashes) the next save.
	//      live-create (always): files appear while file.d runs, are appended to, a kill lands in between.
	for i := 0; i < 3*c.Scale; i++ {
		b := &caseB{}
		o := baseCfg()
		o.watch = r.Intn(2)
		s0, s1, s2 := hx.Pick(r, streams), hx.Pick(r, streams), hx.Pick(r, streams)
		down := []hx.Sx{opAppend(0, 0, lines(b, s0, r.Range(2, 5), 30, 3)...)}
		lives := []hx.Sx{
			live(r.Intn(3), opAppend(1, r.Range(0, 15), lines(b, s1, r.Range(1, 4), 30, 0)...)), // a file created while running
			live(r.Intn(2), opAppend(0, 0, lines(b, s0, r.Range(1, 3), 30, 0)...)),
			live(1, opAppend(2, 0, lines(b, s2, r.Range(1, 3), 30, 3)...)), // another one, at quiescence
			live(r.Intn(2), opAppend(1, 0, lines(b, s1, r.Range(1, 3), 30, 0)...)),
		}
		mode, arg := 0, 0
		if r.Bool() {
			mode, arg = 2, r.Range(3, 9)
		}
		c.W.Count(fmt.Sprintf("live-create: should_watch_file_changes=%d first phase kill mode=%d", o.watch, mode))
		add("live-create", 0, mkCase(o.sx(),
			phaseS(down, mode, arg, 30000, lives...),
			phaseS([]hx.Sx{opAppend(1, 0, lines(b, s1, 1, 10, 0)...)}, 0, 0, 150)), true)
	}
	//      live-rotate (KNOWN FINDING C03-live-rotate-stale-job, emitted once listed): logrotate by rename + a new file under
	//      the old name while file.d runs, the writer still appends to the rotated file. When the maintenance pass deletes the
	//      job of the renamed file (its old path now names another inode) while a notification for the same file waits for
	//      job.mu, the deleted job (file closed) is resumed and the worker ends in logger.Fatalf("... stat error: ... file
	//      already closed"): file.d exits. Timing decides (about one run in six under load). Judged with which = 2: the job
	//      that replaces a deleted one reads the file again from 0, so a line may be delivered twice in one run.
	rotateListed := knownListed("C03-live-rotate-stale-job")
	dropListed := knownListed("C03-live-rotate-job-dropped")
	for i := 0; rotateListed && i < 3*c.Scale; i++ {
		b := &caseB{}
		o := baseCfg()
		o.watch = r.Intn(2)
		s0, s1 := hx.Pick(r, streams), hx.Pick(r, streams)
		down := []hx.Sx{opAppend(0, 0, lines(b, s0, r.Range(2, 5), 30, 3)...)}
		lives := []hx.Sx{
			live(r.Intn(3), opAppend(1, r.Range(0, 15), lines(b, s1, r.Range(1, 4), 30, 0)...)),
			live(1, opRename(0, 10)), // logrotate: rename ...
			live(0, opAppend(0, 0, lines(b, s0, r.Range(1, 3), 30, 0)...)),          // ... and a new file under the old name
			live(r.Intn(2), opAppend(10, 0, lines(b, s0, r.Range(1, 2), 30, 0)...)), // the writer still holds the rotated file
			live(1, opAppend(1, 0, lines(b, s1, r.Range(1, 3), 30, 0)...)),
		}
		if r.Bool() { // a second rotation of the same name
			lives = append(lives, live(1, opRename(0, 20)), live(0, opAppend(0, 0, lines(b, s0, r.Range(1, 3), 30, 0)...)))
		}
		mode, arg := 0, 0
		if r.Bool() {
			mode, arg = 2, r.Range(3, 9)
		}
		// PROPOSED FINDING C03-live-rotate-job-dropped (notes/finding-C03-live-rotate-job-dropped.md): deleteJobAndUnlock marks
		// the job deleted and releases job.mu BEFORE it takes the job out of jp.jobs; a notification for the renamed file that
		// gets job.mu in between sees isDeleted, opens the file and calls addJob, which still finds the old entry ("job ... was
		// already created") and gives up - then the entry is deleted: the rotated file has NO job until the next start. With
		// should_watch_file_changes off nothing re-adds it, what the writer appends to the rotated file is delivered only after a
		// restart (about 2% of the runs of such a case). No line is lost over the runs (the predicate holds), but a run that
		// ends at quiescence has not delivered everything: the model reports Differ. Until known_findings.json lists the id
		// (= the coordinator has decided: repaired in /repo and recorded) the same history is killed AT quiescence by kill mode 2
		// (arg larger than any delivery count), i.e. judged as a killed run: every delivery must be predicted, the offsets file
		// sound, the process alive, nothing lost over all runs - only 'this run delivered everything' is not demanded.
		if mode == 0 && o.watch == 0 && !dropListed {
			mode, arg = 2, 1000
		}
		c.W.Count(fmt.Sprintf("live-rotate: should_watch_file_changes=%d first phase kill mode=%d", o.watch, mode))
		add("live-rotate", 2, mkCase(o.sx(),
			phaseS(down, mode, arg, 30000, lives...),
			phaseS([]hx.Sx{opAppend(0, 0, lines(b, s0, 1, 10, 0)...)}, 0, 0, 150)), true)
	}
	for i := 0; i < 2*c.Scale; i++ {
		b := &caseB{}
		o := baseCfg()
		s0, s1 := hx.Pick(r, streams), hx.Pick(r, streams)
		down := []hx.Sx{opAppend(0, 0, lines(b, s0, r.Range(2, 4), 30, 0)...), opAppend(1, 0, lines(b, s1, r.Range(2, 4), 30, 0)...)}
		lives := []hx.Sx{
			live(1, opRemove(0)), // everything of it was delivered: the job lingers until maintenance finds the file gone
			live(1, opAppend(1, 0, lines(b, s1, r.Range(1, 3), 30, 0)...)),
			live(r.Intn(2), opAppend(0, 0, lines(b, s0, r.Range(1, 3), 30, 0)...)), // the name comes back as a new file
		}
		down2 := []hx.Sx{opRemove(1), opAppend(2, 0, lines(b, s1, r.Range(1, 3), 30, 0)...)} // removed while down: its entry stays in the offsets file
		c.W.Count("live-remove: remove while running + remove while down")
		add("live-remove", 0, mkCase(o.sx(),
			phaseS(down, 0, 0, 30000, lives...),
			phaseS(down2, 0, 0, 30000, live(1, opAppend(1, 0, lines(b, s1, r.Range(1, 2), 30, 0)...))),
			phaseS(nil, 0, 0, 150)), true)
	}
	// a burst of more than 256 creations (watcher.go:74: the notify channel holds 256 events and the library drops what does
	// not fit): every file must be delivered at the latest after the restart; the run itself is not required to see all of
	// them (kill mode 2). Exposes: a crash on the overflow, a file that a restart does not pick up either.
	for i := 0; i < 1*c.Scale; i++ {
		b := &caseB{}
		o := baseCfg()
		nfiles := r.Range(280, 340)
		down := []hx.Sx{opAppend(0, 0, lines(b, "a", 2, 10, 0)...)} // (ids are given in decoding order: down before live)
		var lives []hx.Sx
		for f := 0; f < nfiles; f++ {
			lives = append(lives, live(0, opAppend(100+f, 0, b.line("a", r.Intn(10), 0, 0))))
		}
		c.W.Count(fmt.Sprintf("create-burst: files created in one burst >= %d", nfiles/20*20))
		add("create-burst", 0, mkCase(o.sx(),
			phaseS(down, 2, nfiles+2, 30000, lives...),
			phaseS(nil, 0, 0, 150)), true)
	}

	// ---- item 26: symlinked sources (the k8s layout: the watched directory holds symlinks, the log files live elsewhere and
	//      are rotated underneath). Covers sourceIDByStat with a symlink, addSymlink / refreshSymlink / maintenanceSymlinks,
	//      resume of a symlinked job from the offsets file. Exposes: a source id that changes between two starts (everything
	//      is read again — allowed — or the saved offsets of ANOTHER source are applied — a loss), a re-pointed symlink that is
	//      never followed, a rotated target whose unread lines are dropped with the job.
	for i := 0; i < 3*c.Scale; i++ {
		b := &caseB{}
		o := baseCfg()
		s0, s1 := hx.Pick(r, streams), hx.Pick(r, streams)
		down := []hx.Sx{
			opAppend(1000, 0, lines(b, s0, r.Range(2, 5), 30, 3)...), opLink(0, 1000),
			opAppend(1001, r.Range(0, 12), lines(b, s1, r.Range(2, 4), 30, 0)...), opLink(1, 1001),
		}
		mode, arg := killMid(4)
		down2 := []hx.Sx{opAppend(1001, 0, lines(b, s1, r.Range(1, 3), 30, 0)...)}
		lives2 := []hx.Sx{
			live(1, opAppend(1000, 0, lines(b, s0, r.Range(1, 3), 30, 0)...)),
			// rotation underneath the symlink, at quiescence (what was not read before the rotation is unreachable afterwards)
			live(1, opRemove(1000)), live(0, opAppend(1000, 0, lines(b, s0, r.Range(1, 3), 30, 0)...)),
			live(1, opAppend(1000, 0, lines(b, s0, r.Range(1, 2), 30, 0)...)),
		}
		if r.Bool() { // a symlink created while running
			lives2 = append(lives2, live(1, opAppend(1002, 0, lines(b, s1, r.Range(1, 3), 30, 0)...)), live(0, opLink(2, 1002)))
		}
		c.W.Count("symlink: two symlinked sources, kill, rotation behind the symlink while running")
		add("symlink", 0, mkCase(o.sx(),
			phaseS(down, mode, arg, 30000),
			phaseS(down2, 0, 0, 30000, lives2...),
			phaseS([]hx.Sx{opAppend(1000, 0, lines(b, s0, 1, 10, 0)...)}, 0, 0, 150)), true)
	}
	// KNOWN FINDING (emitted once listed): two symlinked files whose source ids coincide
	if knownListed("C03-symlink-sourceid-collision") {
		add("symlink-sourceid-collision", 0, witnessSymlinkCollision(), true)
	}
	// the k8s input's built-in meta templates on ordinary names: control, always run
	for i := 0; i < 1*c.Scale; i++ {
		b := &caseB{}
		o := baseCfg()
		o.k8sMeta = 1
		s0 := hx.Pick(r, streams)
		mode, arg := killMid(3)
		c.W.Count("k8s-meta: built-in k8s meta templates, names that are not in the kubelet format")
		add("k8s-meta", 0, mkCase(o.sx(),
			phaseS([]hx.Sx{opAppend(1000, 0, lines(b, s0, r.Range(3, 5), 30, 0)...), opLink(0, 1000), opAppend(1, 0, lines(b, s0, 2, 30, 0)...)}, mode, arg, 30000),
			phaseS([]hx.Sx{opAppend(1, 0, lines(b, s0, 2, 30, 0)...)}, 0, 0, 150)), true)
	}
	// REPAIRED (7ddecef, known_findings C03-k8s-meta-short-name = fixed): a watched file whose base name has fewer than 4
	// bytes used to panic the worker (meta.go sliced before it checked the length). Now NewK8sMetaInformation returns
	// "invalid filename: too short after removing extension" for it like for any other name that is not in the kubelet
	// format; worker.work logs "cannot parse meta info" and goes on with the zero metaInformation: the templates render
	// "<nil>" (k8sMetadata is nil, GetData yields nil values) and the lines are delivered like everybody else's. Always
	// run, must Agree: the directed witness + short names next to ordinary ones and behind a symlink, a kill in between.
	add("k8s-meta-short-name", 0, witnessK8sMetaShortName(), true)
	for i := 0; i < 2*c.Scale; i++ {
		b := &caseB{}
		o := baseCfg()
		o.k8sMeta = 1
		s0 := hx.Pick(r, streams)
		short1, short2 := 2000+r.Intn(26), 2026+r.Intn(26*26) // one letter; two letters
		down := []hx.Sx{opAppend(short1, 0, lines(b, s0, r.Range(2, 4), 30, 0)...), opAppend(0, 0, lines(b, s0, 2, 30, 0)...),
			opAppend(1000, r.Range(0, 10), lines(b, s0, r.Range(2, 3), 30, 0)...), opLink(short2, 1000)} // a short-named symlink
		mode, arg := killMid(5)
		down2 := []hx.Sx{opAppend(short1, 0, lines(b, s0, r.Range(1, 2), 30, 0)...), opAppend(1000, 0, lines(b, s0, 1, 30, 0)...)}
		c.W.Count("k8s-meta-short-name: base names of 1 and 2 bytes (file and symlink), kill, restart")
		add("k8s-meta-short-name", 0, mkCase(o.sx(),
			phaseS(down, mode, arg, 30000),
			phaseS(down2, 0, 0, 30000, live(1, opAppend(short1, 0, lines(b, s0, 1, 30, 0)...))),
			phaseS(nil, 0, 0, 150)), true)
	}

	// ---- item 28, modes: should_watch_file_changes, max_event_size (skip and cut_off) and remove_after combined with kill
	//      and restart. Lines over the limit are junk for the property (kind 3: undecodable; skipped by the worker, or cut
	//      and then rejected by the decoder) but they move the offsets of their neighbours.
	for i := 0; i < 3*c.Scale; i++ {
		b := &caseB{}
		o := baseCfg()
		o.watch = 1
		o.maxEventSize = hx.Pick(r, []int{200, 300})
		o.cutOff = i % 2
		o.readBuf = hx.Pick(r, []int{0, 64})
		s0 := hx.Pick(r, streams)
		mk := func(n int) []hx.Sx {
			var ls []hx.Sx
			for k := 0; k < n; k++ {
				ls = append(ls, b.line(s0, r.Intn(40), 0, 0))
				if r.Chance(1, 2) { // an over-limit line: max+1 .. 3*max bytes
					ls = append(ls, hx.L(hx.S(""), hx.I(o.maxEventSize+r.Range(1, 2*o.maxEventSize)), hx.I(3), hx.I(0)))
					b.nextID++
				}
			}
			return ls
		}
		mode, arg := killMid(4)
		c.W.Count(fmt.Sprintf("file-modes: should_watch_file_changes=1 max_event_size=%d cut_off=%d", o.maxEventSize, o.cutOff))
		add("file-modes", 0, mkCase(o.sx(),
			phaseS([]hx.Sx{opAppend(0, 0, mk(r.Range(3, 6))...)}, mode, arg, 30000, live(0, opAppend(0, 0, mk(2)...))),
			phaseS([]hx.Sx{opAppend(0, 0, mk(2)...)}, 0, 0, 30000, live(1, opAppend(0, 0, mk(2)...))),
			phaseS(nil, 0, 0, 150)), true)
	}
	// remove_after: control (always run) — the file is removed by file.d only after everything of it was committed and saved
	for i := 0; i < 1*c.Scale; i++ {
		b := &caseB{}
		o := baseCfg()
		o.persist, o.removeAfterMs, o.procs = 1, 100, 1
		s0 := hx.Pick(r, streams)
		c.W.Count("remove-after: remove_after=100ms, no kill before everything was committed")
		add("remove-after", 0, mkCase(o.sx(),
			phaseS([]hx.Sx{opAppend(0, 0, lines(b, s0, r.Range(2, 4), 30, 0)...),
				// the output needs 6 x 300 ms for file 1 (deliveries keep coming, so the harness does not take the pause for
				// quiescence): xtime's clock (1 s ticks) passes remove_after meanwhile, both files are removed while events
				// of file 1 are still in the pipeline — nothing kills the process before they are committed
				opAppend(1, 0, b.line(s0, 5, 0, 300), b.line(s0, 5, 0, 300), b.line(s0, 5, 0, 300), b.line(s0, 5, 0, 300), b.line(s0, 5, 0, 300), b.line(s0, 5, 0, 300))}, 0, 0, 30000),
			phaseS([]hx.Sx{opGone(0), opGone(1), opAppend(0, 0, lines(b, s0, 2, 10, 0)...)}, 0, 0, 150)), true) // the name comes back as a new file
	}
	if knownListed("C03-remove-after-uncommitted") {
		add("remove-after-uncommitted", 0, witnessRemoveAfterUncommitted(), true)
	}

	// ---- item 28, history depths: 2..3 truncations of one file, 2..3 rotations of one name, 4..6 kills
	for i := 0; i < 2*c.Scale; i++ {
		b := &caseB{}
		o := baseCfg()
		s0 := hx.Pick(r, streams)
		var phases []hx.Sx
		gen := 10
		nk := r.Range(4, 6)
		for k := 0; k < nk; k++ {
			var down []hx.Sx
			if k == 0 {
				down = append(down, opAppend(0, 0, lines(b, s0, r.Range(3, 5), 30, 3)...))
			} else {
				if r.Chance(2, 3) { // another rotation of the same name while down
					down = append(down, opRename(0, gen), opAppend(0, 0, lines(b, s0, r.Range(1, 3), 30, 0)...))
					gen += 10
				} else {
					down = append(down, opAppend(0, r.Range(0, 15), lines(b, s0, r.Range(1, 3), 30, 0)...))
				}
			}
			mode, arg := 2, r.Range(0, 4)
			if r.Chance(1, 3) {
				mode, arg = hx.Pick(r, []int{3, 4}), r.Range(1, 3)
			}
			phases = append(phases, phaseS(down, mode, arg, 30000))
		}
		c.W.Count(fmt.Sprintf("deep-history: kills=%d rotations of one name=%d", nk, gen/10-1))
		phases = append(phases, phaseS(nil, 0, 0, 150))
		add("deep-history", 0, mkCase(o.sx(), phases...), true)
	}
	for i := 0; i < 1*c.Scale; i++ { // 2..3 live truncations of one file, each detected (new content shorter than what was read)
		b := &caseB{}
		o := baseCfg()
		o.procs = 1
		s0 := hx.Pick(r, streams)
		nt := r.Range(2, 3)
		first := lines(b, s0, 4, 40, 0)
		for k := range first {
			first[k] = b0pad(first[k], 40)
		}
		var lives []hx.Sx
		for t := 0; t < nt; t++ {
			lives = append(lives, live(1, opTrunc(0, 0, b.line(s0, 0, 0, 0))))
			grow := lines(b, s0, r.Range(2, 3), 10, 0)
			for k := range grow {
				grow[k] = b0pad(grow[k], 30)
			}
			lives = append(lives, live(1, opAppend(0, 0, grow...)))
		}
		c.W.Count(fmt.Sprintf("deep-history: live truncations of one file=%d", nt))
		add("deep-history-truncate", 0, mkCase(o.sx(),
			phaseS([]hx.Sx{opAppend(0, 0, first...)}, 0, 0, 30000, lives...),
			phaseS(nil, 0, 0, 150)), true)
	}

	// ---- item 28, scale: more lines in flight than the pipeline holds (Capacity 32: the worker blocks inside In), lines
	//      larger than AvgEventSize 256 and than the read buffer, 20 files at once (jobsChan holds more than the 2 workers
	//      take), a kill in the middle of the backlog. Exposes: an offset committed for a line that was read but is still
	//      waiting for a pool slot, lost lines when the reader is parked, tail handling of 5 KB lines.
	for i := 0; i < 2*c.Scale; i++ {
		b := &caseB{}
		o := baseCfg()
		o.outKind = i % 2
		o.readBuf = hx.Pick(r, []int{0, 200})
		s0 := hx.Pick(r, streams)
		nlines := r.Range(120, 220)
		var ls []hx.Sx
		for k := 0; k < nlines; k++ {
			pad := r.Intn(60)
			if r.Chance(1, 10) {
				pad = r.Range(300, 5000)
			}
			d := 0
			if k%16 == 0 {
				d = r.Range(2, 8)
			}
			ls = append(ls, b.line(s0, pad, 0, d))
		}
		down := []hx.Sx{opAppend(0, r.Range(0, 30), ls...)}
		nf := r.Range(16, 24)
		for f := 1; f <= nf; f++ {
			down = append(down, opAppend(f, 0, lines(b, s0, r.Range(1, 3), 20, 0)...))
		}
		c.W.Count(fmt.Sprintf("backpressure: lines in one file >= %d, files=%d output=%d", nlines/40*40, nf+1, o.outKind))
		add("backpressure", 0, mkCase(o.sx(),
			phaseS(down, 2, r.Range(20, nlines), 30000),
			phaseS([]hx.Sx{opAppend(0, 0, lines(b, s0, 2, 10, 0)...)}, 0, 0, 150)), true)
	}
}

// b0pad adds `extra` bytes of padding to a line spec built by caseB.line
func b0pad(l hx.Sx, extra int) hx.Sx {
	it := hx.Items(l)
	return hx.L(it[0], hx.I(int(hx.Int(it[1]))+extra), it[2], it[3])
}

// ---- directed witnesses of the findings of this round (emitted only once known_findings.json lists them) ---------------

// two log files behind two symlinks whose 16-letter names make sourceIDByStat return the same id for both: the second
// job is never created ("job for a file ... was already created"), its lines are never delivered, not after a restart either
func witnessSymlinkCollision() hx.Sx {
	b := &caseB{}
	o := cfgOpt{persist: 1, procs: 1, asyncMs: 10, maintMs: 25}
	return mkCase(o.sx(),
		phaseS([]hx.Sx{
			opAppend(1000, 0, b.line("a", 0, 0, 0), b.line("a", 1, 0, 0)), opLink(0, 1000),
			opAppend(1001, 0, b.line("a", 2, 0, 0), b.line("a", 3, 0, 0)), opLinkCollide(1, 1001, 0)}, 0, 0, 30000),
		phaseS(nil, 0, 0, 150))
}

// logrotate while running (rename + new file under the old name, the writer keeps appending to the rotated file, a second
// rotation), should_watch_file_changes on: the case on which the stale-job race was first seen (seed 3). Timing-dependent.
func witnessLiveRotateStaleJob() hx.Sx {
	b := &caseB{}
	o := cfgOpt{persist: 1, procs: 1, asyncMs: 10, maintMs: 25, watch: 1}
	return mkCase(o.sx(),
		phaseS([]hx.Sx{opAppend(0, 0, b.line("a", 30, 0, 10), b.line("a", 8, 0, 0), b.line("a", 11, 0, 0), b.line("a", 22, 0, 4), b.line("a", 0, 0, 0))}, 0, 0, 30000,
			live(2, opAppend(1, 5, b.line(noStream, 10, 0, 0), b.line(noStream, 1, 0, 0), b.line(noStream, 8, 0, 0), b.line(noStream, 6, 0, 0))),
			live(1, opRename(0, 10)), live(0, opAppend(0, 0, b.line("a", 2, 0, 0))),
			live(1, opAppend(10, 0, b.line("a", 26, 0, 0), b.line("a", 7, 0, 0))),
			live(1, opAppend(1, 0, b.line(noStream, 20, 0, 0), b.line(noStream, 0, 0, 0), b.line(noStream, 7, 0, 0))),
			live(1, opRename(0, 20)), live(0, opAppend(0, 0, b.line("a", 10, 0, 0)))),
		phaseS([]hx.Sx{opAppend(0, 0, b.line("a", 7, 0, 0))}, 0, 0, 150))
}

// the k8s input's built-in meta templates + a file whose base name is shorter than 4 bytes: meta.NewK8sMetaInformation
// used to slice [lastSlash+1 : len-4] before it checked the length — the worker goroutine panicked, file.d died (again
// after a restart). Repaired by 7ddecef; the case must Agree now.
func witnessK8sMetaShortName() hx.Sx {
	b := &caseB{}
	o := cfgOpt{persist: 1, procs: 1, asyncMs: 10, maintMs: 25, k8sMeta: 1}
	return mkCase(o.sx(),
		phaseS([]hx.Sx{opAppend(0, 0, b.line("a", 0, 0, 0)), opAppend(2000, 0, b.line("a", 1, 0, 0))}, 0, 0, 30000),
		phaseS(nil, 0, 0, 150))
}

// remove_after + a slow output: the file is removed when it has been READ to the end for remove_after, whether or not its
// events were committed; a kill before the delivery loses them for good (the restart finds no file)
func witnessRemoveAfterUncommitted() hx.Sx {
	b := &caseB{}
	o := cfgOpt{persist: 1, procs: 1, asyncMs: 10, maintMs: 20, removeAfterMs: 100}
	return mkCase(o.sx(), // xtime's clock ticks once a second: the removal comes at most ~1.1 s after EOF; the kill 2.5 s after the first delivery
		phaseS([]hx.Sx{opAppend(0, 0, b.line("a", 0, 0, 4000), b.line("a", 1, 0, 0), b.line("a", 2, 0, 0))}, 1, 2500, 30000),
		phaseS(nil, 0, 0, 150))
}
