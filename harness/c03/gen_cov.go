package main

// Generator families of round 5 (coverage): behaviour of the anchored files that no C03 case executed (measured with the
// C03_COVDUMP aid of helper.go; the triage is in notes/coverage/C03-triage.md). The model side is the unchanged c03
// predicate: the new configuration items and name ranges only change WHERE the watched files live and HOW file.d is told
// to find them, not what is promised for them.

import (
	"fmt"

	"verif/harness/hmain"
	"verif/harness/hx"
)

// cfgX = cfgOpt + the items 14.. (paths front)
func (o cfgOpt) sxX(paths, front int) hx.Sx {
	it := hx.Items(o.sx())
	return hx.L(append(it, hx.I(paths), hx.I(front))...)
}

func genCoverage(c *hmain.Ctx, r *hx.Rng, multiWhich int, add func(stream string, which int, cs hx.Sx, nontr bool)) {
	streams := []string{"a", "stderr", noStream, "x:y"}
	baseCfg := func() cfgOpt {
		return cfgOpt{persist: r.Intn(2), procs: 1 + 3*r.Intn(2), asyncMs: hx.Pick(r, []int{2, 10}), maintMs: 25}
	}
	lines := func(b *caseB, s string, n, padMax, delayEvery int) []hx.Sx {
		var ls []hx.Sx
		for i := 0; i < n; i++ {
			d := 0
			if delayEvery > 0 && i%delayEvery == 0 {
				d = r.Range(1, 10)
			}
			ls = append(ls, b.line(s, r.Intn(padMax+1), 0, d))
		}
		return ls
	}

	// ---- truncation seen by the WRITE NOTIFICATION (should_watch_file_changes: refreshFile -> checkFileWasTruncated ->
	//      truncateJob). Every truncation family so far ran with notifications off: only the EOF check of the worker saw them.
	//      With and without an unterminated line in job.tail; the new content is shorter than what was read.
	// NOT scaled with c.Scale (3 cases in every tier) until the coordinator has decided on the proposed finding
	// C03-truncate-watch-stale-offset (notes/finding-C03-truncate-watch-stale-offset.md): with should_watch_file_changes the
	// notification goroutine's truncateJob can run between the worker's snapshot of job.curOffset and its Read; the first new
	// line is then delivered with event.Offset = old offset + length (and once more, correctly, after the worker's own EOF
	// check). Nothing is lost (the predicate holds), the model reports Differ (an offset no line has, a repeated id): about
	// one case in 180 at thorough load.
	for i := 0; i < 3; i++ {
		b := &caseB{}
		o := baseCfg()
		o.watch, o.procs = 1, 1
		s := hx.Pick(r, streams)
		cut := 0
		if i%2 == 0 {
			cut = r.Range(1, 25)
		}
		var first []hx.Sx
		for k := r.Range(2, 5); k > 0; k-- {
			first = append(first, b.line(s, 10+r.Intn(30), 0, 0))
		}
		_ = r.Intn(2) // (keeps the random sequence of the older cases)
		// the append WAITS until the line written by the truncation was delivered: a truncation followed at once by a
		// regrowth beyond the old read offset cannot be told from an append by any offset-based reader (copytruncate race) -
		// the property promises 'everything written after the truncation' only for a truncation the input had a chance to see
		lives := []hx.Sx{live(1, opTrunc(0, 0, b.line(s, 0, 0, 0))), live(1, opAppend(0, 0, b.line(s, 0, 0, 0), b.line(s, 3, 0, 0)))}
		if r.Bool() { // a second truncation of the same file, again below what was read
			lives = append(lives, live(1, opTrunc(0, 0, b.line(s, 0, 0, 0))), live(1, opAppend(0, r.Range(0, 10), b.line(s, 0, 0, 0), b.line(s, 8, 0, 0))))
		}
		c.W.Count(fmt.Sprintf("truncate-live-watch: unterminated tail at the truncation=%v", cut > 0))
		add("truncate-live-watch", 0, mkCase(o.sx(),
			phaseS([]hx.Sx{opAppend(0, cut, first...)}, 0, 0, 30000, lives...),
			phaseS([]hx.Sx{opAppend(0, 0, b.line(s, 2, 0, 0))}, 0, 0, 150)), true)
	}

	// ---- orderly shutdown (kill mode 5: SIGTERM -> Pipeline.Stop -> Plugin.Stop: nil jobs for the workers, jobProvider.stop
	//      with the final offsets save, watcher.stop) at quiescence and in the middle of the deliveries, then a restart with
	//      the offsets file it left, a kill, another restart. The shutdown is the one kill instant at which file.d itself
	//      decides what the offsets file says.
	for i := 0; i < 3*c.Scale; i++ {
		b := &caseB{}
		o := baseCfg()
		o.outKind = i % 2
		s0, s1 := hx.Pick(r, streams), hx.Pick(r, streams)
		n0 := r.Range(3, 7)
		arg := 0
		if i%3 != 0 {
			arg = r.Range(1, n0)
		}
		c.W.Count(fmt.Sprintf("graceful-stop: in the middle of the deliveries=%v output=%d persist=%d", arg > 0, o.outKind, o.persist))
		add("graceful-stop", 0, mkCase(o.sx(),
			phaseS([]hx.Sx{opAppend(0, r.Range(0, 12), lines(b, s0, n0, 30, 2)...), opAppend(1, 0, lines(b, s1, r.Range(1, 3), 30, 0)...)}, 5, arg, 30000,
				live(r.Intn(2), opAppend(1, 0, lines(b, s1, r.Range(1, 3), 20, 0)...))),
			phaseS([]hx.Sx{opAppend(0, 0, lines(b, s0, r.Range(1, 3), 30, 0)...)}, 2, r.Range(0, 3), 30000),
			phaseS([]hx.Sx{opAppend(1, 0, lines(b, s1, 1, 10, 0)...)}, 5, 0, 30000),
			phaseS(nil, 0, 0, 150)), true)
	}

	// ---- sub-directories ("All subdirectories also will be watched"): files two and three levels deep, a directory that
	//      appears while file.d runs (watcher.notify: stat.IsDir -> tryAddPath), a rotation INTO a sub-directory while down
	//      (same inode: the saved offsets must follow it), kill, restart.
	for i := 0; i < 3*c.Scale; i++ {
		b := &caseB{}
		o := baseCfg()
		o.watch = r.Intn(2)
		s0, s1 := hx.Pick(r, streams), hx.Pick(r, streams)
		d0, d1, d2 := 4000+r.Intn(100), 4600+r.Intn(100), 4200+r.Intn(100) // watch/d0/, watch/d1/e/, watch/d2/ (made while running)
		down := []hx.Sx{opAppend(d0, r.Range(0, 10), lines(b, s0, r.Range(2, 4), 30, 3)...), opAppend(d1, 0, lines(b, s1, r.Range(2, 4), 30, 0)...),
			opAppend(0, 0, lines(b, s0, 2, 20, 0)...)}
		lives := []hx.Sx{
			live(r.Intn(3), opAppend(d2, 0, lines(b, s1, r.Range(1, 3), 30, 0)...)), // new directory + new file
			live(1, opAppend(d0, 0, lines(b, s0, r.Range(1, 2), 30, 0)...)),
			live(r.Intn(2), opAppend(d2+1, r.Range(0, 8), lines(b, s1, r.Range(1, 3), 30, 0)...)), // second file in the new directory
			live(1, opAppend(4900+r.Intn(100), 0, lines(b, s0, r.Range(1, 2), 30, 0)...)),       // watch/d4/e/: two new levels at once
		}
		mode, arg := 2, r.Range(2, 8)
		down2 := []hx.Sx{opRename(0, 4300+r.Intn(100)), opAppend(0, 0, lines(b, s0, r.Range(1, 2), 20, 0)...), // rotated into watch/d3/
			opAppend(d1, 0, lines(b, s1, r.Range(1, 2), 30, 0)...)}
		c.W.Count(fmt.Sprintf("subdirs: should_watch_file_changes=%d", o.watch))
		add("subdirs", 0, mkCase(o.sx(),
			phaseS(down, mode, arg, 30000, lives...),
			// this run ends at quiescence: everything written during it must be delivered BY it, also the file in the directory
			// that appears while it runs (a watcher that misses new directories is covered up by the next start's scan otherwise)
			phaseS(down2, 0, 0, 30000, live(1, opAppend(d2, 0, lines(b, s1, 1, 10, 0)...)), live(1, opAppend(4400+r.Intn(100), 0, lines(b, s0, r.Range(1, 2), 20, 0)...))),
			phaseS(nil, 0, 0, 150)), true)
	}

	// ---- paths.include / paths.exclude (the current configuration format; every case so far used watching_dir): two base
	//      directories (the watcher watches their common parent recursively: commonPathPrefix), nested files, a file the exclude
	//      pattern names (junk only: nothing of it is promised and nothing of it can be told apart)
	for i := 0; i < 2*c.Scale; i++ {
		b := &caseB{}
		o := baseCfg()
		o.watch = i % 2
		s0, s1 := hx.Pick(r, streams), hx.Pick(r, streams)
		w2, sub := 5000+r.Intn(100), 4100+r.Intn(100)
		junk := func() hx.Sx { return b.line("", r.Range(3, 20), 3, 0) }
		down := []hx.Sx{opAppend(0, 0, lines(b, s0, r.Range(2, 4), 30, 3)...), opAppend(w2, r.Range(0, 9), lines(b, s1, r.Range(2, 4), 30, 0)...),
			opAppend(sub, 0, lines(b, s0, 2, 20, 0)...), opAppend(6000, 0, junk(), junk())}
		lives := []hx.Sx{live(r.Intn(2), opAppend(w2+1, 0, lines(b, s1, r.Range(1, 3), 30, 0)...)), // created in the second base directory
			live(1, opAppend(6001, 0, junk())), live(r.Intn(2), opAppend(w2, 0, lines(b, s1, r.Range(1, 2), 30, 0)...))}
		pm := 1
		if i%2 == 1 {
			pm = 3
		}
		c.W.Count(fmt.Sprintf("paths-include: two base directories + exclude pattern, second base behind a symlink=%v", pm == 3))
		add("paths-include", 0, mkCase(o.sxX(pm, 0),
			phaseS(down, 2, r.Range(2, 7), 30000, lives...),
			phaseS([]hx.Sx{opAppend(sub, 0, lines(b, s0, r.Range(1, 2), 20, 0)...), opAppend(w2+1, 0, lines(b, s1, 1, 20, 0)...)}, 0, 0, 150)), true)
	}
	//      the deprecated format with both patterns set (NewJobProvider: dir_pattern != "*"): only <watch>/d*/*.log is watched
	for i := 0; i < 1*c.Scale; i++ {
		b := &caseB{}
		o := baseCfg()
		s0 := hx.Pick(r, streams)
		f0, f1 := 4000+r.Intn(100), 4100+r.Intn(100)
		c.W.Count("paths-include: filename_pattern *.log + dir_pattern d*")
		add("dir-pattern", 0, mkCase(o.sxX(2, 0),
			phaseS([]hx.Sx{opAppend(f0, r.Range(0, 9), lines(b, s0, r.Range(2, 4), 30, 3)...), opAppend(f1, 0, lines(b, s0, 2, 30, 0)...)}, 2, r.Range(1, 4), 30000,
				live(r.Intn(2), opAppend(f0+1, 0, lines(b, s0, r.Range(1, 3), 30, 0)...))),
			phaseS([]hx.Sx{opAppend(f1, 0, lines(b, s0, r.Range(1, 2), 30, 0)...)}, 0, 0, 150)), true)
	}

	// ---- the k8s input in front of the file input (plugin/input/k8s/k8s.go Start: SuggestDecoder(CRI), built-in meta templates,
	//      then file.Plugin.Start) with lines in CRI format: the stream of a line is the CRI stream, two streams per file is the
	//      normal case, and with antispam on Pipeline.In drops a line whose offset is below the saved offset of ITS stream
	//      before it is decoded (the second implementation of the resume rule next to Plugin.PassEvent). Kill in the middle,
	//      restart, rotation by rename while down.
	for i := 0; i < 3*c.Scale; i++ {
		b := &caseB{cri: true}
		o := baseCfg()
		o.antispam = 1000
		multi := i%3 != 0
		st := func() string {
			if multi && r.Bool() {
				return "stderr"
			}
			return "stdout"
		}
		mk := func(n int) []hx.Sx {
			var ls []hx.Sx
			for k := 0; k < n; k++ {
				d := 0
				if r.Chance(1, 3) {
					d = r.Range(1, 12)
				}
				ls = append(ls, b.line(st(), r.Intn(40), 0, d))
				if r.Chance(1, 5) {
					ls = append(ls, b.line("", r.Range(0, 9), 3, 0)) // not CRI: "wrong cri format", dropped
				}
			}
			return ls
		}
		// two streams per file: the known defect C03-multi-stream-unsaved applies (a restart seeks to the minimum over the SAVED
		// streams only); known_findings.json matches it by the stream name "multi-stream-random", so these cases join that stream
		which, stream := 0, "k8s-cri"
		if multi {
			which, stream = multiWhich, "multi-stream-random"
		}
		// (the phases are built in the order they appear in the case: caseB numbers the lines as they are built and a line's
		// minimum length depends on the digits of its id - a second phase built first got lengths one byte short once the ids
		// passed 9, which the driver rejects as 'line N: length 70 < 71')
		ph1 := phaseS([]hx.Sx{opAppend(0, r.Range(0, 20), mk(r.Range(3, 7))...), opAppend(1, 0, mk(r.Range(1, 3))...)}, 2, r.Range(1, 6), 30000,
			live(r.Intn(2), opAppend(1, 0, mk(r.Range(1, 3))...)))
		down2 := []hx.Sx{opAppend(0, 0, mk(r.Range(1, 3))...)}
		if r.Bool() {
			down2 = []hx.Sx{opRename(0, 10), opAppend(0, 0, mk(r.Range(1, 3))...), opAppend(10, 0, mk(1)...)}
		}
		nst := 1
		if multi {
			nst = 2
		}
		c.W.Count(fmt.Sprintf("k8s-cri: streams per file=%d", nst))
		add(stream, which, mkCase(o.sxX(0, 1), ph1,
			phaseS(down2, 2, r.Range(0, 3), 30000),
			phaseS(nil, 0, 0, 150)), true)
	}

	// directed: BOTH streams of the file have a saved offset at the kill, the faster one far ahead: one stderr line is held by
	// the output (uncommitted), the next stderr line waits behind it and is never delivered, three stdout lines behind them are
	// delivered and committed (sync persistence). After the restart the two stderr lines lie below the saved stdout offset:
	// Pipeline.In's short-cut must look at THEIR stream's offset (the CRI twin of witnessAntispamEmptyStream)
	add("k8s-cri", 0, witnessCriTwoStreams(), true)
	for i := 0; i < 1*c.Scale; i++ {
		b := &caseB{cri: true}
		ls := []hx.Sx{b.line("stderr", r.Intn(8), 0, 0), b.line("stderr", r.Intn(8), 0, 300+r.Intn(200)), b.line("stderr", r.Intn(8), 0, 0)}
		n := r.Range(2, 4)
		for k := 0; k < n; k++ {
			ls = append(ls, b.line("stdout", r.Intn(8), 0, 0))
		}
		o := cfgOpt{persist: r.Intn(2), procs: 4, asyncMs: 5, maintMs: 25, antispam: 1000}
		add("k8s-cri", 0, mkCase(o.sxX(0, 1), phaseS([]hx.Sx{opAppend(0, 0, ls...)}, 2, 2+n, 30000), phaseS(nil, 0, 0, 150)), true)
	}

	// ---- compressed files (*.lz4: worker.go reads them through lz4.NewReader, offsets count decompressed bytes, a restart skips
	//      what was committed by READING it in whole buffers): complete files that appear while down and while running, a kill
	//      in the middle of the deliveries, restart. lz4 files are never appended to (the format of the input forbids it).
	for i := 0; i < 2*c.Scale; i++ {
		b := &caseB{}
		o := baseCfg()
		o.readBuf = hx.Pick(r, []int{0, 16, 50, 200})
		s0, s1 := hx.Pick(r, streams), hx.Pick(r, streams)
		z0, z1 := 3000+r.Intn(100), 3100+r.Intn(100)
		n0 := r.Range(4, 9)
		c.W.Count(fmt.Sprintf("lz4-files: read_buffer_size=%d", o.readBuf))
		add("lz4-files", 0, mkCase(o.sx(),
			phaseS([]hx.Sx{opAppend(z0, 0, lines(b, s0, n0, 40, 2)...), opAppend(0, 0, lines(b, s1, 2, 20, 0)...)}, 2, r.Range(1, n0), 30000,
				live(r.Intn(3), opAppend(z1, 0, lines(b, s1, r.Range(2, 5), 40, 3)...))),
			phaseS([]hx.Sx{opAppend(z1+1, 0, lines(b, s0, r.Range(1, 3), 30, 0)...)}, 2, r.Range(0, 3), 30000),
			phaseS(nil, 0, 0, 150)), true)
	}
	// directed: ONE lz4 file of 8 lines, killed after k = 1..7 delivered lines, every small read buffer: the restart has to skip
	// exactly what was committed - a skip loop that overshoots the saved offset by part of a buffer loses lines (seed C03 round
	// 5); the two random cases above hit that only by luck
	for _, rb := range []int{16, 50, 200} {
		for k := 1; k <= 7; k += 2 {
			b := &caseB{}
			o := baseCfg()
			o.readBuf = rb
			s0 := streams[(rb+k)%len(streams)]
			c.W.Count(fmt.Sprintf("lz4-resume-directed: read_buffer_size=%d", rb))
			add("lz4-files", 0, mkCase(o.sx(),
				phaseS([]hx.Sx{opAppend(3200+rb+k, 0, lines(b, s0, 8, 40, 0)...)}, 2, k, 30000),
				phaseS(nil, 0, 0, 150)), true)
		}
	}
}

func witnessCriTwoStreams() hx.Sx {
	b := &caseB{cri: true}
	o := cfgOpt{persist: 1, procs: 4, asyncMs: 10, maintMs: 25, antispam: 1000}
	return mkCase(o.sxX(0, 1),
		phaseS([]hx.Sx{opAppend(0, 0, b.line("stderr", 0, 0, 0), b.line("stderr", 0, 0, 500), b.line("stderr", 0, 0, 0),
			b.line("stdout", 0, 0, 0), b.line("stdout", 0, 0, 0), b.line("stdout", 0, 0, 0))}, 2, 5, 30000),
		phaseS(nil, 0, 0, 150))
}
