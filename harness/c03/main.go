package main

// C03 — the file input loses no line across kill and restart.
//
// One case = one temp dir ("world") and a list of phases. In every phase the parent first applies the
// "down" file operations (the process is not running), then starts the helper process (helper.go: REAL
// file input plugin + REAL pipeline + scripted output), optionally performs "live" file operations,
// and SIGKILLs the helper at the instant the phase prescribes. The next phase restarts it with the
// offsets file the killed process left behind.
//
//	case  = (cfg (phase ...))
//	cfg   = (persist procs join outkind asyncMs maintMs readBuf antispam)
//	        persist 0 async | 1 sync; procs 1 = one processor, else parallel; join 1 = real join action
//	        (field m, start /^S/, continue /^C/); outkind 0 = synchronous output, 1 = real Batcher
//	phase = ((op ...) (killmode arg evTimeoutMs) ((wait op) ...))
//	        killmode 0 run to quiescence, then kill | 1 kill arg ms after the first output record
//	                 2 kill as soon as arg events were delivered in this run
//	                 3 strace: SIGKILL on entering the arg-th rename of a thread | 4 same for fsync
//	        wait 1 = reach quiescence before the live op, 0 = apply it at once, 2 = as soon as one event was delivered
//	op    = (0 name (line ...) cut)   append lines to file <name> (created if missing); cut > 0: the last
//	                                  line is written only up to cut bytes, the rest precedes the next op on that file
//	      | (1 name newname)          rename (same inode)
//	      | (2 name (line ...) cut)   truncate to 0 and write the lines (same inode)
//	line  = (#stream len kind delayMs)  kind 2 = len empty lines, kind 3 = one undecodable line of len bytes (both dropped by the
//	                                  pipeline: In returns EventSeqIDError); else rendered as {"stream":..,"id":N,"d":delay,"m":"x"|"S","p":"pad"}\n of
//	                                  exactly len bytes; ids number the lines of the case in order of appearance
//	obs   = (run ...)   run = (status ((id offset) ...) ((fileident ((#stream off) ...)) ...))
//	        status 0 = alive until killed, 1 = the helper died by itself, 2 = harness problem;
//	        delivered pairs sorted; third item = the offsets file after the kill (file identity = creation order)
//
//	which = 0: full property (every complete line delivered at least once over all runs)
//	which = 1: the same, but a loss explained by the known multi-stream defect is tolerated (used only
//	           until known_findings.json lists C03-multi-stream-unsaved)

import (
	"bytes"
	"fmt"
	"os"
	"os/exec"
	"path/filepath"
	"sort"
	"strconv"
	"strings"
	"sync"
	"syscall"
	"time"

	"github.com/ozontech/file.d/logger"
	"go.uber.org/zap/zapcore"

	"verif/harness/hmain"
	"verif/harness/hx"
)

// ---- case decoding ---------------------------------------------------------------------------------
type lineSpec struct {
	stream string
	length int
	kind   int
	delay  int
	id     int
}
type fileOp struct {
	op    int
	name  int
	name2 int
	lines []lineSpec
	cut   int
}
type liveOp struct {
	wait int
	op   fileOp
}
type phase struct {
	down                         []fileOp
	killMode, killArg, evTimeout int
	live                         []liveOp
}

func decodeOp(v hx.Sx, nextID *int) fileOp {
	it := hx.Items(v)
	o := fileOp{op: int(hx.Int(it[0])), name: int(hx.Int(it[1]))}
	switch o.op {
	case 1:
		o.name2 = int(hx.Int(it[2]))
	default:
		for _, l := range hx.Items(it[2]) {
			li := hx.Items(l)
			o.lines = append(o.lines, lineSpec{stream: hx.Str(li[0]), length: int(hx.Int(li[1])), kind: int(hx.Int(li[2])), delay: int(hx.Int(li[3])), id: *nextID})
			*nextID++
		}
		o.cut = int(hx.Int(it[3]))
	}
	return o
}

func decodeCase(cs hx.Sx) (hx.Sx, []phase) {
	it := hx.Items(cs)
	var phases []phase
	id := 0
	for _, p := range hx.Items(it[1]) {
		pi := hx.Items(p)
		var ph phase
		for _, o := range hx.Items(pi[0]) {
			ph.down = append(ph.down, decodeOp(o, &id))
		}
		k := hx.Items(pi[1])
		ph.killMode, ph.killArg, ph.evTimeout = int(hx.Int(k[0])), int(hx.Int(k[1])), int(hx.Int(k[2]))
		for _, l := range hx.Items(pi[2]) {
			li := hx.Items(l)
			ph.live = append(ph.live, liveOp{wait: int(hx.Int(li[0])), op: decodeOp(li[1], &id)})
		}
		phases = append(phases, ph)
	}
	return it[0], phases
}

// ---- line rendering ----------------------------------------------------------------------------------
const noStream = "not_set" // pipeline.DefaultStreamName: the line carries no stream field

func lineHead(l lineSpec) string {
	m := "x"
	if l.kind == 1 {
		m = "S"
	}
	st := ""
	if l.stream != noStream {
		st = `"stream":"` + l.stream + `",`
	}
	return fmt.Sprintf(`{%s"id":%d,"d":%d,"m":"%s","p":"`, st, l.id, l.delay, m)
}

func minLen(l lineSpec) int {
	switch l.kind {
	case 2:
		return 1
	case 3:
		return 2
	}
	return len(lineHead(l)) + 3
}

func isJunk(kind int) bool { return kind == 2 || kind == 3 }

// kind 2 = filler: len empty lines ("\n"), which the pipeline drops (checkInputBytes); kind 3 = one line of len bytes
// the json decoder rejects — not lines of the property
func render(l lineSpec) ([]byte, bool) {
	if l.kind == 2 {
		return bytes.Repeat([]byte{'\n'}, l.length), l.length >= 1
	}
	if l.kind == 3 {
		if l.length < 2 {
			return nil, false
		}
		return append(bytes.Repeat([]byte{'!'}, l.length-1), '\n'), true
	}
	h := lineHead(l)
	pad := l.length - len(h) - 3
	if pad < 0 {
		return nil, false
	}
	return []byte(h + strings.Repeat("p", pad) + "\"}\n"), true
}

// ---- the world: real files + what the harness knows about them -----------------------------------------
type wline struct {
	id     int
	end    int64
	stream string
}
type wfile struct {
	ident int
	inode uint64
	lines []wline // complete lines of the current content
	size  int64
	pend  []byte // rest of a cut line, written before the next op on this file
	pendL *lineSpec
}
type world struct {
	dir    string
	byName map[int]*wfile
	files  []*wfile
	bad    string
}

func (w *world) path(name int) string {
	return filepath.Join(w.dir, "watch", fmt.Sprintf("f%d.log", name))
}

func appendBytes(path string, b []byte) error {
	f, err := os.OpenFile(path, os.O_APPEND|os.O_CREATE|os.O_WRONLY, 0o644)
	if err != nil {
		return err
	}
	_, err = f.Write(b)
	if e := f.Close(); err == nil {
		err = e
	}
	return err
}

// apply performs the operation on the real files and returns the lines that became complete by it.
func (w *world) apply(o fileOp) []wline {
	var fresh []wline
	f := w.byName[o.name]
	switch o.op {
	case 1:
		if f == nil || w.byName[o.name2] != nil {
			w.bad = "rename: bad names"
			return nil
		}
		if err := os.Rename(w.path(o.name), w.path(o.name2)); err != nil {
			w.bad = err.Error()
			return nil
		}
		delete(w.byName, o.name)
		w.byName[o.name2] = f
		return nil
	case 0, 2:
		var buf []byte
		if f == nil {
			f = &wfile{ident: len(w.files)}
			w.files = append(w.files, f)
			w.byName[o.name] = f
		}
		if o.op == 2 {
			if err := os.Truncate(w.path(o.name), 0); err != nil {
				w.bad = err.Error()
				return nil
			}
			f.lines, f.size, f.pend, f.pendL = nil, 0, nil, nil
		}
		pos := f.size
		if f.pendL != nil {
			buf = append(buf, f.pend...)
			pos += int64(len(f.pend))
			wl := wline{id: f.pendL.id, end: pos, stream: f.pendL.stream}
			f.lines = append(f.lines, wl)
			fresh = append(fresh, wl)
			f.pend, f.pendL = nil, nil
		}
		for i := range o.lines {
			l := o.lines[i]
			b, ok := render(l)
			if !ok {
				w.bad = fmt.Sprintf("line %d: length %d < %d", l.id, l.length, minLen(l))
				return nil
			}
			if isJunk(l.kind) {
				buf = append(buf, b...)
				pos += int64(len(b))
				continue
			}
			if i == len(o.lines)-1 && o.cut > 0 && o.cut < len(b) {
				buf = append(buf, b[:o.cut]...)
				pos += int64(o.cut)
				f.pend = b[o.cut:]
				f.pendL = &o.lines[i]
				break
			}
			buf = append(buf, b...)
			pos += int64(len(b))
			wl := wline{id: l.id, end: pos, stream: l.stream}
			f.lines = append(f.lines, wl)
			fresh = append(fresh, wl)
		}
		if err := appendBytes(w.path(o.name), buf); err != nil {
			w.bad = err.Error()
			return nil
		}
		f.size = pos
		if st, err := os.Stat(w.path(o.name)); err == nil {
			f.inode = st.Sys().(*syscall.Stat_t).Ino
			if st.Size() != f.size {
				w.bad = fmt.Sprintf("size %d != %d", st.Size(), f.size)
			}
		}
	default:
		w.bad = "unknown op"
	}
	return fresh
}

// ---- the offsets file as the parent reads it (same line format as offsetDB.parse) ------------------------
type snapshot map[uint64]map[string]int64 // inode -> stream -> offset

func parseOffsets(content string) (snapshot, bool) {
	snap := snapshot{}
	var cur map[string]int64
	for _, line := range strings.Split(content, "\n") {
		switch {
		case line == "":
		case strings.HasPrefix(line, "- file: "):
			cur = nil
		case strings.HasPrefix(line, "  inode: "):
			ino, err := strconv.ParseUint(line[len("  inode: "):], 10, 64)
			if err != nil {
				return nil, false
			}
			cur = map[string]int64{}
			snap[ino] = cur
		case strings.HasPrefix(line, "  source_id: "), strings.HasPrefix(line, "  last_read_timestamp: "), line == "  streams:":
		case strings.HasPrefix(line, "    "):
			pos := strings.LastIndexByte(line, ':')
			if pos < 4 || cur == nil || pos+2 > len(line) {
				return nil, false
			}
			off, err := strconv.ParseInt(line[pos+2:], 10, 64)
			if err != nil {
				return nil, false
			}
			cur[line[4:pos]] = off
		default:
			return nil, false
		}
	}
	return snap, true
}

func resume(lines []wline, saved map[string]int64) []wline {
	if saved == nil {
		return lines
	}
	seek := int64(1<<63 - 1)
	for _, o := range saved {
		if o < seek {
			seek = o
		}
	}
	var out []wline
	for _, l := range lines {
		if l.end <= seek {
			continue
		}
		if o, ok := saved[l.stream]; ok && l.end <= o {
			continue
		}
		out = append(out, l)
	}
	return out
}

// ---- one run of the helper ---------------------------------------------------------------------------
type delivered struct {
	id  int
	off int64
}

func readOut(path string) (ds []delivered, ready bool) {
	b, _ := os.ReadFile(path)
	for _, ln := range bytes.Split(b, []byte{'\n'}) {
		if len(ln) == 0 {
			continue
		}
		switch ln[0] {
		case 'R':
			ready = true
		case 'D':
			f := strings.Fields(string(ln))
			if len(f) == 3 {
				id, _ := strconv.Atoi(f[1])
				off, _ := strconv.ParseInt(f[2], 10, 64)
				ds = append(ds, delivered{id, off})
			}
		}
	}
	return ds, ready
}

var childSlots = make(chan struct{}, 10) // helper processes alive at one time

var (
	noteMu sync.Mutex
	notes  = map[string]int{}
)

func note(k string) { noteMu.Lock(); notes[k]++; noteMu.Unlock() }

// lower bound of the number of events in flight at a live truncation: lines of the old content that the output
// received only after the parent had truncated the file (they were read before: the bytes are gone afterwards)
type truncMark struct {
	old    map[int]bool // ids of the complete lines the truncation removed
	before map[int]bool // ids delivered when the truncation was applied
}

var inflightSeen sync.Map // case text -> []int (one entry per live truncation, in order)

func runPhase(w *world, cfgS hx.Sx, run int, ph phase, snapPrev snapshot, truncatedDown map[int]bool, marks *[]truncMark) hx.Sx {
	hc := decodeCfg(cfgS)
	outPath := filepath.Join(w.dir, fmt.Sprintf("out%d.log", run))
	exe, _ := os.Executable()
	args := []string{"c03helper", w.dir, strconv.Itoa(run), hx.String(cfgS), strconv.Itoa(ph.evTimeout)}
	var cmd *exec.Cmd
	if ph.killMode == 3 || ph.killMode == 4 {
		set := "renameat,renameat2,rename"
		if ph.killMode == 4 {
			set = "fsync"
		}
		sargs := []string{"-f", "-o", "/dev/null", "-e", "trace=" + set, "-e", fmt.Sprintf("inject=%s:signal=SIGKILL:when=%d", set, max(ph.killArg, 1)), exe}
		cmd = exec.Command("strace", append(sargs, args...)...)
	} else {
		cmd = exec.Command(exe, args...)
	}
	cmd.Env = append(os.Environ(), "LOG_LEVEL=fatal", "GOMAXPROCS=2")
	errf, _ := os.Create(filepath.Join(w.dir, fmt.Sprintf("child%d.err", run)))
	cmd.Stdout, cmd.Stderr = errf, errf
	cmd.SysProcAttr = &syscall.SysProcAttr{Setpgid: true}

	// what this run has to deliver, as far as the parent can tell (only used to decide how long to wait)
	expected := map[int]bool{}
	for _, f := range w.files {
		var saved map[string]int64
		if snapPrev != nil {
			saved = snapPrev[f.inode]
		}
		if saved != nil {
			seek := int64(1<<63 - 1)
			for _, o := range saved {
				seek = min(seek, o)
			}
			if seek > f.size || truncatedDown[f.ident] {
				saved = nil // the first EOF check detects the truncation: the file is read from 0
			}
		}
		for _, l := range resume(f.lines, saved) {
			expected[l.id] = true
		}
	}

	childSlots <- struct{}{}
	defer func() { <-childSlots }()
	if err := cmd.Start(); err != nil {
		errf.Close()
		return hx.L(hx.I(2), hx.L(), hx.L())
	}
	exited := make(chan struct{})
	go func() { _ = cmd.Wait(); close(exited) }()
	kill := func() {
		_ = syscall.Kill(-cmd.Process.Pid, syscall.SIGKILL)
		<-exited
	}

	status := 0
	start := time.Now()
	var firstOut time.Time
	lastGrowth := time.Now()
	lastN := -1
	liveIdx := 0
	stall := 1500 * time.Millisecond
	if hc.join == 1 || ph.evTimeout < 2000 {
		stall = 2200 * time.Millisecond
	}
	settle := 50 * time.Millisecond
	selfExit := false
loop:
	for {
		select {
		case <-exited:
			selfExit = true
			break loop
		default:
		}
		ds, ready := readOut(outPath)
		now := time.Now()
		if (len(ds) > 0 || ready) && firstOut.IsZero() {
			firstOut = now
		}
		n := len(ds)
		if ready {
			n++
		}
		if n != lastN {
			lastN, lastGrowth = n, now
		}
		quiet := func() bool {
			if !ready {
				return false
			}
			all := true
			got := map[int]bool{}
			for _, d := range ds {
				got[d.id] = true
			}
			for id := range expected {
				if !got[id] {
					all = false
					break
				}
			}
			if all {
				return now.Sub(lastGrowth) >= settle
			}
			return now.Sub(lastGrowth) >= stall
		}
		// live operations
		if liveIdx < len(ph.live) && ready {
			lo := ph.live[liveIdx]
			if lo.wait == 0 || (lo.wait == 2 && len(ds) >= 1) || (lo.wait == 1 && quiet()) {
				if lo.op.op == 2 {
					m := truncMark{old: map[int]bool{}, before: map[int]bool{}}
					if f := w.byName[lo.op.name]; f != nil {
						for _, l := range f.lines {
							m.old[l.id] = true
						}
					}
					for _, d := range ds {
						m.before[d.id] = true
					}
					*marks = append(*marks, m)
				}
				for _, l := range w.apply(lo.op) {
					expected[l.id] = true
				}
				liveIdx++
				lastGrowth = time.Now()
				continue
			}
		}
		switch ph.killMode {
		case 0:
			if liveIdx == len(ph.live) && quiet() {
				kill()
				break loop
			}
		case 1:
			if !firstOut.IsZero() && now.Sub(firstOut) >= time.Duration(ph.killArg)*time.Millisecond {
				kill()
				break loop
			}
		case 2:
			if len(ds) >= ph.killArg || (liveIdx == len(ph.live) && quiet()) {
				kill()
				break loop
			}
		default:
			if liveIdx == len(ph.live) && quiet() && now.Sub(lastGrowth) >= stall {
				kill()
				break loop
			}
		}
		if now.Sub(start) > 25*time.Second {
			kill()
			status = 2
			break loop
		}
		time.Sleep(time.Millisecond)
	}
	errf.Close()
	for ; liveIdx < len(ph.live); liveIdx++ { // killed before the operation was due: it happens while the process is down
		w.apply(ph.live[liveIdx].op)
	}
	if selfExit && !(ph.killMode == 3 || ph.killMode == 4) {
		status = 1
	}
	if ph.killMode == 3 || ph.killMode == 4 {
		if selfExit {
			note("strace: SIGKILL injected at the save syscall")
		} else {
			note("strace: fewer such syscalls than asked, killed at quiescence")
		}
	}
	if selfExit && (ph.killMode == 3 || ph.killMode == 4) {
		// killed by strace at the save syscall (expected) — anything else the helper printed is a crash
		if b, _ := os.ReadFile(filepath.Join(w.dir, fmt.Sprintf("child%d.err", run))); bytes.Contains(b, []byte("panic")) || bytes.Contains(b, []byte("fatal")) {
			status = 1
		}
	}
	ds, _ := readOut(outPath)
	sort.Slice(ds, func(a, b int) bool {
		if ds[a].id != ds[b].id {
			return ds[a].id < ds[b].id
		}
		return ds[a].off < ds[b].off
	})
	dl := make([]hx.Sx, len(ds))
	for i, d := range ds {
		dl[i] = hx.L(hx.I(d.id), hx.Z(d.off))
	}
	return hx.L(hx.I(status), hx.L(dl...))
}

func encodeSnapshot(w *world, snap snapshot) hx.Sx {
	type ent struct {
		ident int
		s     hx.Sx
	}
	var ents []ent
	for ino, streams := range snap {
		ident := -1
		for _, f := range w.files {
			if f.inode == ino {
				ident = f.ident
			}
		}
		names := make([]string, 0, len(streams))
		for s := range streams {
			names = append(names, s)
		}
		sort.Strings(names)
		var ss []hx.Sx
		for _, s := range names {
			ss = append(ss, hx.L(hx.S(s), hx.Z(streams[s])))
		}
		ents = append(ents, ent{ident, hx.L(hx.I(ident), hx.L(ss...))})
	}
	sort.Slice(ents, func(a, b int) bool { return ents[a].ident < ents[b].ident })
	out := make([]hx.Sx, len(ents))
	for i, e := range ents {
		out[i] = e.s
	}
	return hx.L(out...)
}

var (
	scratchOnce sync.Once
	scratchRoot string
	scratchMu   sync.Mutex
	scratchN    int
)

func scratch() string {
	scratchOnce.Do(func() {
		base := "/dev/shm"
		if st, err := os.Stat(base); err != nil || !st.IsDir() {
			base = os.TempDir()
		}
		scratchRoot, _ = os.MkdirTemp(base, "verif-c03-")
	})
	scratchMu.Lock()
	scratchN++
	d := filepath.Join(scratchRoot, strconv.Itoa(scratchN))
	scratchMu.Unlock()
	_ = os.MkdirAll(filepath.Join(d, "watch"), 0o755)
	return d
}

var keepDirs = os.Getenv("C03_KEEP") != ""

func exec03(which int, cs hx.Sx) hx.Sx {
	cfgS, phases := decodeCase(cs)
	w := &world{dir: scratch(), byName: map[int]*wfile{}}
	if !keepDirs {
		defer os.RemoveAll(w.dir)
	} else {
		fmt.Fprintln(os.Stderr, "dir:", w.dir)
	}
	var runs []hx.Sx
	var snapPrev snapshot
	for k, ph := range phases {
		truncDown := map[int]bool{}
		for _, o := range ph.down {
			if o.op == 2 {
				if f := w.byName[o.name]; f != nil {
					truncDown[f.ident] = true
				}
			}
			w.apply(o)
		}
		if w.bad != "" {
			return hx.L(hx.L(hx.I(2), hx.L(), hx.L(hx.L(hx.I(-2), hx.L(hx.L(hx.S(w.bad), hx.I(0)))))))
		}
		var marks []truncMark
		r := hx.Items(runPhase(w, cfgS, k, ph, snapPrev, truncDown, &marks))
		if len(marks) > 0 {
			got := map[int]bool{}
			for _, d := range hx.Items(r[1]) {
				got[int(hx.Int(hx.Items(d)[0]))] = true
			}
			var ns []int
			for _, m := range marks {
				n := 0
				for id := range m.old {
					if got[id] && !m.before[id] {
						n++
					}
				}
				ns = append(ns, n)
			}
			prev, _ := inflightSeen.Load(hx.String(cs))
			pv, _ := prev.([]int)
			inflightSeen.Store(hx.String(cs), append(pv, ns...))
		}
		content, err := os.ReadFile(filepath.Join(w.dir, "offsets.yaml"))
		snap := snapshot{}
		if err == nil {
			s, ok := parseOffsets(string(content))
			if !ok {
				r[0] = hx.I(2)
			} else {
				snap = s
			}
		}
		if w.bad != "" {
			r[0] = hx.I(2)
		}
		runs = append(runs, hx.L(r[0], r[1], encodeSnapshot(w, snap)))
		snapPrev = snap
	}
	return hx.L(runs...)
}

func main() {
	if len(os.Args) > 1 && os.Args[1] == "c03helper" {
		helperMain()
		return
	}
	if len(os.Args) > 1 && os.Args[1] == "c03print" { // prints the directed witnesses as corpus lines
		fmt.Printf("multi-stream-unsaved\t0\t%s\n", hx.String(witnessMultiStream()))
		fmt.Printf("truncate-tail\t0\t%s\n", hx.String(witnessTruncateTail()))
		fmt.Printf("truncate-inflight-multi-stream\t0\t%s\n", hx.String(witnessTruncInflight()))
		fmt.Printf("truncate-inflight-blank\t0\t%s\n", hx.String(witnessTruncInflightBlank()))
		fmt.Printf("truncate-inflight-single\t0\t%s\n", hx.String(witnessTruncInflightSingle()))
		fmt.Printf("antispam-empty-stream\t0\t%s\n", hx.String(witnessAntispamEmptyStream()))
		return
	}
	logger.Level.SetLevel(zapcore.FatalLevel)
	hmain.Run(&hmain.Prop{
		ID:   "C03",
		Rule: "non-trivial = at least one kill/restart cycle over a file with at least two complete lines",
		Gen:  gen03,
		Exec: exec03,
	})
	if scratchRoot != "" && !keepDirs {
		os.RemoveAll(scratchRoot)
	}
}
