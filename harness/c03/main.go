package main

// C03 — the file input loses no line across kill and restart.
//
// One case = one temp dir ("world") and a list of phases. In every phase the parent first applies the
// "down" file operations (the process is not running), then starts the helper process (helper.go: REAL
// file input plugin + REAL pipeline + scripted output), optionally performs "live" file operations,
// and SIGKILLs the helper at the instant the phase prescribes. The next phase restarts it with the
// offsets file the killed process left behind.
//
//	case  = (cfg (phase ...))
//	cfg   = (persist procs join outkind asyncMs maintMs readBuf antispam)
//	        persist 0 async | 1 sync; procs 1 = one processor, else parallel; join 1 = real join action
//	        (field m, start /^S/, continue /^C/); outkind 0 = synchronous output, 1 = real Batcher
//	phase = ((op ...) (killmode arg evTimeoutMs) ((wait op) ...))
//	        killmode 0 run to quiescence, then kill | 1 kill arg ms after the first output record
//	                 2 kill as soon as arg events were delivered in this run
//	                 3 strace: SIGKILL on entering the arg-th rename of a thread | 4 same for fsync
//	        wait 1 = reach quiescence before the live op, 0 = apply it at once, 2 = as soon as one event was delivered
//	op    = (0 name (line ...) cut)   append lines to file <name> (created if missing); cut > 0: the last
//	                                  line is written only up to cut bytes, the rest precedes the next op on that file
//	      | (1 name newname)          rename (same inode)
//	      | (2 name (line ...) cut)   truncate to 0 and write the lines (same inode)
//	      | (3 name)                  remove the file (unlink; a target >= 1000 is renamed to <path>.rotatedN instead, as kubelet
//	                                  rotates): it leaves the watched set, its lines are no longer promised from then on
//	      | (6 name)                  the same for a file that file.d itself was told to remove (remove_after): the harness
//	                                  records whether it is gone and removes it otherwise
//	      | (4 link target)           symlink <link> -> <target> (absolute), created or re-pointed
//	      | (5 link target other)     the same, but the link's NAME is computed so that the job of (link, target) gets the
//	                                  same source id as the job of symlink <other> (sourceIDByStat adds only the low 32 bits
//	                                  of the symlink hash to the inode)
//	names: 0..999 = <dir>/watch/f<n>.log; 1000..1999 = <dir>/targets/f<n>.log (outside the watched directory, reached
//	       through symlinks only); 2000..2999 = <dir>/watch/<1-2 letters> (a base name shorter than 4 bytes);
//	       3000..3999 = <dir>/watch/f<n>.lz4: every append writes one lz4 frame of the lines (offsets count decompressed bytes);
//	       4000..4499 = <dir>/watch/d<k>/f<n>.log, 4500..4999 = <dir>/watch/d<k>/e/f<n>.log (sub-directories, made on demand, also
//	       while file.d runs); 5000..5999 = <dir>/watch2/f<n>.log (second base directory of cfg paths = 1);
//	       6000..6999 = <dir>/watch/x<n>.log (matched by the exclude pattern of cfg paths = 1)
//	cfg items 8.. (optional, default 0): workers (0 = 2) watchChanges removeAfterMs maxEventSize cutOff k8sMeta paths front
//	        (paths, front: see helperCfg)
//	killmode 5 = SIGTERM (orderly shutdown: Pipeline.Stop) once arg events were delivered and, for arg = 0, quiescence is reached
//	line  = (#stream len kind delayMs)  kind 2 = len empty lines, kind 3 = one undecodable line of len bytes (both dropped by the
//	                                  pipeline: In returns EventSeqIDError); else rendered as {"stream":..,"id":N,"d":delay,"m":"x"|"S","p":"pad"}\n of
//	                                  exactly len bytes; ids number the lines of the case in order of appearance
//	obs   = (run ...)   run = (status ((id offset) ...) ((fileident ((#stream off) ...)) ...))
//	        status 0 = alive until killed, 1 = the helper died by itself, 2 = harness problem;
//	        delivered pairs sorted; third item = the offsets file after the kill (file identity = creation order)
//
//	which = 0: full property (every complete line delivered at least once over all runs)
//	which = 1: the same, but a loss explained by the known multi-stream defect is tolerated (used only
//	           until known_findings.json lists C03-multi-stream-unsaved)
//	which = 2: the full property; a line may be delivered more than once within one run (stream live-rotate)

import (
	"bytes"
	"fmt"
	"os"
	"os/exec"
	"path/filepath"
	"sort"
	"strconv"
	"strings"
	"sync"
	"syscall"
	"time"

	"github.com/ozontech/file.d/logger"
	"github.com/pierrec/lz4/v4"
	"go.uber.org/zap/zapcore"

	"verif/harness/hmain"
	"verif/harness/hx"
)

// ---- case decoding ---------------------------------------------------------------------------------
type lineSpec struct {
	stream string
	length int
	kind   int
	delay  int
	id     int
}
type fileOp struct {
	op    int
	name  int
	name2 int
	name3 int
	lines []lineSpec
	cut   int
}
type liveOp struct {
	wait int
	op   fileOp
}
type phase struct {
	down                         []fileOp
	killMode, killArg, evTimeout int
	live                         []liveOp
}

func decodeOp(v hx.Sx, nextID *int) fileOp {
	it := hx.Items(v)
	o := fileOp{op: int(hx.Int(it[0])), name: int(hx.Int(it[1]))}
	switch o.op {
	case 1, 4:
		o.name2 = int(hx.Int(it[2]))
	case 5:
		o.name2, o.name3 = int(hx.Int(it[2])), int(hx.Int(it[3]))
	case 3, 6:
	default:
		for _, l := range hx.Items(it[2]) {
			li := hx.Items(l)
			o.lines = append(o.lines, lineSpec{stream: hx.Str(li[0]), length: int(hx.Int(li[1])), kind: int(hx.Int(li[2])), delay: int(hx.Int(li[3])), id: *nextID})
			*nextID++
		}
		o.cut = int(hx.Int(it[3]))
	}
	return o
}

func decodeCase(cs hx.Sx) (hx.Sx, []phase) {
	it := hx.Items(cs)
	var phases []phase
	id := 0
	for _, p := range hx.Items(it[1]) {
		pi := hx.Items(p)
		var ph phase
		for _, o := range hx.Items(pi[0]) {
			ph.down = append(ph.down, decodeOp(o, &id))
		}
		k := hx.Items(pi[1])
		ph.killMode, ph.killArg, ph.evTimeout = int(hx.Int(k[0])), int(hx.Int(k[1])), int(hx.Int(k[2]))
		for _, l := range hx.Items(pi[2]) {
			li := hx.Items(l)
			ph.live = append(ph.live, liveOp{wait: int(hx.Int(li[0])), op: decodeOp(li[1], &id)})
		}
		phases = append(phases, ph)
	}
	return it[0], phases
}

// ---- line rendering ----------------------------------------------------------------------------------
const noStream = "not_set" // pipeline.DefaultStreamName: the line carries no stream field

// criMode: the lines of the case are rendered in CRI format ("<time> <stream> F <json>\n", cfg front = 1). One case is
// generated / executed at a time per goroutine, but cases run concurrently: the flag travels with caseB and world.
func lineHead(l lineSpec, cri bool) string {
	m := "x"
	if l.kind == 1 {
		m = "S"
	}
	if cri {
		return fmt.Sprintf(`2026-01-02T15:04:05.000000000Z %s F {"id":%d,"d":%d,"m":"%s","p":"`, l.stream, l.id, l.delay, m)
	}
	st := ""
	if l.stream != noStream {
		st = `"stream":"` + l.stream + `",`
	}
	return fmt.Sprintf(`{%s"id":%d,"d":%d,"m":"%s","p":"`, st, l.id, l.delay, m)
}

func minLen(l lineSpec, cri bool) int {
	switch l.kind {
	case 2:
		return 1
	case 3:
		return 2
	}
	return len(lineHead(l, cri)) + 3
}

func isJunk(kind int) bool { return kind == 2 || kind == 3 }

// kind 2 = filler: len empty lines ("\n"), which the pipeline drops (checkInputBytes); kind 3 = one line of len bytes
// the json decoder rejects — not lines of the property
func render(l lineSpec, cri bool) ([]byte, bool) {
	if l.kind == 2 {
		return bytes.Repeat([]byte{'\n'}, l.length), l.length >= 1
	}
	if l.kind == 3 {
		if l.length < 2 {
			return nil, false
		}
		return append(bytes.Repeat([]byte{'!'}, l.length-1), '\n'), true
	}
	h := lineHead(l, cri)
	pad := l.length - len(h) - 3
	if pad < 0 {
		return nil, false
	}
	return []byte(h + strings.Repeat("p", pad) + "\"}\n"), true
}

// ---- the world: real files + what the harness knows about them -----------------------------------------
type wline struct {
	id     int
	end    int64
	stream string
}
type wfile struct {
	ident   int
	inode   uint64
	removed bool
	lines   []wline // complete lines of the current content
	size    int64
	pend    []byte // rest of a cut line, written before the next op on this file
	pendL   *lineSpec
}
type world struct {
	dir      string
	byName   map[int]*wfile
	files    []*wfile
	bad      string
	linkPath map[int]string // op 5: the computed path of a link
	links    map[int]linkInfo
	rotated  int
	cri      bool // cfg front = 1
}

type linkInfo struct {
	path  string
	inode uint64 // of the target when the link was made
}

func (w *world) path(name int) string {
	if p, ok := w.linkPath[name]; ok {
		return p
	}
	switch {
	case name >= 6000 && name < 7000:
		return filepath.Join(w.dir, "watch", fmt.Sprintf("x%d.log", name))
	case name >= 5000 && name < 6000:
		return filepath.Join(w.dir, "watch2", fmt.Sprintf("f%d.log", name))
	case name >= 4500 && name < 5000:
		return filepath.Join(w.dir, "watch", fmt.Sprintf("d%d", (name-4500)/100), "e", fmt.Sprintf("f%d.log", name))
	case name >= 4000 && name < 4500:
		return filepath.Join(w.dir, "watch", fmt.Sprintf("d%d", (name-4000)/100), fmt.Sprintf("f%d.log", name))
	case name >= 3000 && name < 4000:
		return filepath.Join(w.dir, "watch", fmt.Sprintf("f%d.lz4", name))
	case name >= 2000 && name < 3000: // base name of 1..2 bytes, no extension
		n := name - 2000
		b := string(rune('a' + n%26))
		if n >= 26 {
			b += string(rune('a' + (n/26)%26))
		}
		return filepath.Join(w.dir, "watch", b)
	case name >= 1000 && name < 2000:
		return filepath.Join(w.dir, "targets", fmt.Sprintf("f%d.log", name))
	}
	return filepath.Join(w.dir, "watch", fmt.Sprintf("f%d.log", name))
}

// ---- sourceIDByStat (provider.go:475-487) as far as the harness needs it: the symlink's contribution to the source id
// is symHash & 0xffffffff, and modulo 2^32 every character step is h -> 4h - 1 + c*P. After 16 characters the start value
// (inode * K) has been shifted out, so the contribution depends on the LAST 16 characters of the symlink path only.
const symP = 8460724049

func symContribution(symlink string, inode uint64) uint32 {
	h := int64(inode) * 8922886018542929
	for _, c := range symlink {
		h <<= 2
		h -= 1
		h += int64(c) * symP
	}
	return uint32(uint64(h) & 0xffffffff)
}

// collidingBase returns a 16-letter base name such that inode2 + contribution(dir/base) == inode1 + contrib1 (mod 2^32 is
// enough: the harness' inodes are far below 2^32, so no carry is lost). The base is found digit by digit in base 4.
func collidingBase(inode1 uint64, contrib1 uint32, inode2 uint64) (string, bool) {
	want64 := int64(inode1) + int64(contrib1) - int64(inode2) // contribution the new name must have
	if want64 < 0 || want64 >= 1<<32 {
		return "", false
	}
	want := uint32(want64)
	// contribution of a 16-character suffix c0..c15: sum 4^(15-j) * (cj*P - 1)  (mod 2^32)
	pm := uint32(symP & 0xffffffff)
	zero, ca := uint32(0), uint32('a')
	for j := 0; j < 16; j++ {
		zero = zero*4 + (ca*pm - 1)
	}
	// inverse of P modulo 2^32 (P is odd)
	inv := pm
	for i := 0; i < 5; i++ {
		inv *= 2 - pm*inv
	}
	d := (want - zero) * inv // sum 4^(15-j) * delta_j, delta_j in 0..3
	b := make([]byte, 16)
	for j := 15; j >= 0; j-- {
		b[j] = 'a' + byte(d&3)
		d >>= 2
	}
	return string(b), true
}

func isLz4(name int) bool { return name >= 3000 && name < 4000 }

func lz4Frame(b []byte) []byte {
	var buf bytes.Buffer
	zw := lz4.NewWriter(&buf)
	_, _ = zw.Write(b)
	_ = zw.Close()
	return buf.Bytes()
}

func appendBytes(path string, b []byte) error {
	_ = os.MkdirAll(filepath.Dir(path), 0o755) // sub-directories appear with their first file
	f, err := os.OpenFile(path, os.O_APPEND|os.O_CREATE|os.O_WRONLY, 0o644)
	if err != nil {
		return err
	}
	_, err = f.Write(b)
	if e := f.Close(); err == nil {
		err = e
	}
	return err
}

// apply performs the operation on the real files and returns the lines that became complete by it.
func (w *world) apply(o fileOp) []wline {
	var fresh []wline
	f := w.byName[o.name]
	switch o.op {
	case 1:
		if f == nil || w.byName[o.name2] != nil {
			w.bad = "rename: bad names"
			return nil
		}
		_ = os.MkdirAll(filepath.Dir(w.path(o.name2)), 0o755)
		if err := os.Rename(w.path(o.name), w.path(o.name2)); err != nil {
			w.bad = err.Error()
			return nil
		}
		delete(w.byName, o.name)
		w.byName[o.name2] = f
		return nil
	case 3, 6:
		if f == nil {
			w.bad = "remove: no such file"
			return nil
		}
		var err error
		if o.op == 6 { // file.d was configured to remove the file (remove_after): record whether it did, make sure it is gone
			if _, serr := os.Lstat(w.path(o.name)); serr != nil {
				note("remove_after: the file was removed by file.d")
			} else {
				note("remove_after: the file was still there, removed by the harness")
				err = os.Remove(w.path(o.name))
			}
		} else if o.name >= 1000 && o.name < 2000 {
			// a target behind a symlink is rotated away the way kubelet does it: renamed to a name no symlink points to
			// (the inode stays alive for whoever holds it open); for the watched set this is a removal
			w.rotated++
			err = os.Rename(w.path(o.name), fmt.Sprintf("%s.rotated%d", w.path(o.name), w.rotated))
		} else {
			err = os.Remove(w.path(o.name))
		}
		if err != nil {
			w.bad = err.Error()
			return nil
		}
		f.removed = true
		f.pend, f.pendL = nil, nil
		delete(w.byName, o.name)
		return nil
	case 4, 5:
		t := w.byName[o.name2]
		if t == nil {
			w.bad = "symlink: no such target"
			return nil
		}
		if o.op == 5 {
			other, ok := w.links[o.name3]
			if !ok {
				w.bad = "symlink: no such other link"
				return nil
			}
			base, ok := collidingBase(other.inode, symContribution(other.path, other.inode), t.inode)
			if !ok {
				w.bad = "symlink: no colliding name"
				return nil
			}
			if w.linkPath == nil {
				w.linkPath = map[int]string{}
			}
			w.linkPath[o.name] = filepath.Join(w.dir, "watch", base)
		}
		lp := w.path(o.name)
		_ = os.Remove(lp)
		if err := os.Symlink(w.path(o.name2), lp); err != nil {
			w.bad = err.Error()
			return nil
		}
		if w.links == nil {
			w.links = map[int]linkInfo{}
		}
		w.links[o.name] = linkInfo{path: lp, inode: t.inode}
		return nil
	case 0, 2:
		var buf []byte
		if f == nil {
			f = &wfile{ident: len(w.files)}
			w.files = append(w.files, f)
			w.byName[o.name] = f
		}
		if o.op == 2 {
			if err := os.Truncate(w.path(o.name), 0); err != nil {
				w.bad = err.Error()
				return nil
			}
			f.lines, f.size, f.pend, f.pendL = nil, 0, nil, nil
		}
		pos := f.size
		if f.pendL != nil {
			buf = append(buf, f.pend...)
			pos += int64(len(f.pend))
			wl := wline{id: f.pendL.id, end: pos, stream: f.pendL.stream}
			f.lines = append(f.lines, wl)
			fresh = append(fresh, wl)
			f.pend, f.pendL = nil, nil
		}
		for i := range o.lines {
			l := o.lines[i]
			b, ok := render(l, w.cri)
			if !ok {
				w.bad = fmt.Sprintf("line %d: length %d < %d", l.id, l.length, minLen(l, w.cri))
				return nil
			}
			if isJunk(l.kind) {
				buf = append(buf, b...)
				pos += int64(len(b))
				continue
			}
			if i == len(o.lines)-1 && o.cut > 0 && o.cut < len(b) {
				buf = append(buf, b[:o.cut]...)
				pos += int64(o.cut)
				f.pend = b[o.cut:]
				f.pendL = &o.lines[i]
				break
			}
			buf = append(buf, b...)
			pos += int64(len(b))
			wl := wline{id: l.id, end: pos, stream: l.stream}
			f.lines = append(f.lines, wl)
			fresh = append(fresh, wl)
		}
		if isLz4(o.name) {
			if o.op == 2 || f.pendL != nil {
				w.bad = "lz4: no truncation, no cut lines"
				return nil
			}
			buf = lz4Frame(buf) // offsets (pos, the lines' ends) count the decompressed bytes
		}
		if err := appendBytes(w.path(o.name), buf); err != nil {
			w.bad = err.Error()
			return nil
		}
		f.size = pos
		if st, err := os.Stat(w.path(o.name)); err == nil {
			f.inode = st.Sys().(*syscall.Stat_t).Ino
			if st.Size() != f.size && !isLz4(o.name) {
				w.bad = fmt.Sprintf("size %d != %d", st.Size(), f.size)
			}
		}
	default:
		w.bad = "unknown op"
	}
	return fresh
}

// ---- the offsets file as the parent reads it (same line format as offsetDB.parse) ------------------------
type snapshot map[uint64]map[string]int64 // inode -> stream -> offset

func parseOffsets(content string) (snapshot, bool) {
	snap := snapshot{}
	var cur map[string]int64
	for _, line := range strings.Split(content, "\n") {
		switch {
		case line == "":
		case strings.HasPrefix(line, "- file: "):
			cur = nil
		case strings.HasPrefix(line, "  inode: "):
			ino, err := strconv.ParseUint(line[len("  inode: "):], 10, 64)
			if err != nil {
				return nil, false
			}
			cur = map[string]int64{}
			snap[ino] = cur
		case strings.HasPrefix(line, "  source_id: "), strings.HasPrefix(line, "  last_read_timestamp: "), line == "  streams:":
		case strings.HasPrefix(line, "    "):
			pos := strings.LastIndexByte(line, ':')
			if pos < 4 || cur == nil || pos+2 > len(line) {
				return nil, false
			}
			off, err := strconv.ParseInt(line[pos+2:], 10, 64)
			if err != nil {
				return nil, false
			}
			cur[line[4:pos]] = off
		default:
			return nil, false
		}
	}
	return snap, true
}

func resume(lines []wline, saved map[string]int64) []wline {
	if saved == nil {
		return lines
	}
	seek := int64(1<<63 - 1)
	for _, o := range saved {
		if o < seek {
			seek = o
		}
	}
	var out []wline
	for _, l := range lines {
		if l.end <= seek {
			continue
		}
		if o, ok := saved[l.stream]; ok && l.end <= o {
			continue
		}
		out = append(out, l)
	}
	return out
}

// ---- one run of the helper ---------------------------------------------------------------------------
type delivered struct {
	id  int
	off int64
}

func readOut(path string) (ds []delivered, ready bool) {
	b, _ := os.ReadFile(path)
	for _, ln := range bytes.Split(b, []byte{'\n'}) {
		if len(ln) == 0 {
			continue
		}
		switch ln[0] {
		case 'K': // k8s_pod meta value of a delivered event: statistics only
			if len(ln) > 2 {
				k8sSeen.Store(string(ln[2:]), true)
			}
		case 'R':
			ready = true
		case 'D':
			f := strings.Fields(string(ln))
			if len(f) == 3 {
				id, _ := strconv.Atoi(f[1])
				off, _ := strconv.ParseInt(f[2], 10, 64)
				ds = append(ds, delivered{id, off})
			}
		}
	}
	return ds, ready
}

var k8sSeen sync.Map // k8s_pod values seen on delivered events (k8s meta templates on)

var childSlots = make(chan struct{}, 10) // helper processes alive at one time

var (
	noteMu sync.Mutex
	notes  = map[string]int{}
)

func note(k string) { noteMu.Lock(); notes[k]++; noteMu.Unlock() }

// lower bound of the number of events in flight at a live truncation: lines of the old content that the output
// received only after the parent had truncated the file (they were read before: the bytes are gone afterwards)
type truncMark struct {
	old    map[int]bool // ids of the complete lines the truncation removed
	before map[int]bool // ids delivered when the truncation was applied
}

var inflightSeen sync.Map // case text -> []int (one entry per live truncation, in order)

func runPhase(w *world, cfgS hx.Sx, run int, ph phase, snapPrev snapshot, truncatedDown map[int]bool, marks *[]truncMark) hx.Sx {
	hc := decodeCfg(cfgS)
	outPath := filepath.Join(w.dir, fmt.Sprintf("out%d.log", run))
	exe, _ := os.Executable()
	args := []string{"c03helper", w.dir, strconv.Itoa(run), hx.String(cfgS), strconv.Itoa(ph.evTimeout)}
	var cmd *exec.Cmd
	if ph.killMode == 3 || ph.killMode == 4 {
		set := "renameat,renameat2,rename"
		if ph.killMode == 4 {
			set = "fsync"
		}
		sargs := []string{"-f", "-o", "/dev/null", "-e", "trace=" + set, "-e", fmt.Sprintf("inject=%s:signal=SIGKILL:when=%d", set, max(ph.killArg, 1)), exe}
		cmd = exec.Command("strace", append(sargs, args...)...)
	} else {
		cmd = exec.Command(exe, args...)
	}
	cmd.Env = append(os.Environ(), "LOG_LEVEL=fatal", "GOMAXPROCS=2")
	// (worker.go asks `lsof <file>` before it reads an lz4 file; the helper keeps the PATH of the check, so the real lsof
	// answers when it is installed: the watched directory "<dir>/watch/..." contains the letter w, which was taken for a
	// writer before /repo fix 353d84e, notes/finding-C06-lz4-being-written.md)
	errf, _ := os.Create(filepath.Join(w.dir, fmt.Sprintf("child%d.err", run)))
	cmd.Stdout, cmd.Stderr = errf, errf
	cmd.SysProcAttr = &syscall.SysProcAttr{Setpgid: true}

	// what this run has to deliver, as far as the parent can tell (only used to decide how long to wait)
	expected := map[int]bool{}
	for _, f := range w.files {
		if f.removed {
			continue
		}
		var saved map[string]int64
		if snapPrev != nil {
			saved = snapPrev[f.inode]
		}
		if saved != nil {
			seek := int64(1<<63 - 1)
			for _, o := range saved {
				seek = min(seek, o)
			}
			if seek > f.size || truncatedDown[f.ident] {
				saved = nil // the first EOF check detects the truncation: the file is read from 0
			}
		}
		for _, l := range resume(f.lines, saved) {
			expected[l.id] = true
		}
	}

	childSlots <- struct{}{}
	defer func() { <-childSlots }()
	if err := cmd.Start(); err != nil {
		errf.Close()
		return hx.L(hx.I(2), hx.L(), hx.L())
	}
	exited := make(chan struct{})
	go func() { _ = cmd.Wait(); close(exited) }()
	kill := func() {
		if os.Getenv("C03_COVDUMP") != "" { // measurement aid, see covDump in helper.go
			_ = syscall.Kill(cmd.Process.Pid, syscall.SIGUSR1)
			select {
			case <-exited:
			case <-time.After(2 * time.Second):
			}
		}
		_ = syscall.Kill(-cmd.Process.Pid, syscall.SIGKILL)
		<-exited
	}

	// kill mode 5: the orderly shutdown. SIGTERM, then up to 5 s for Pipeline.Stop to return and the helper to exit by itself
	stopped := false
	graceful := func() {
		_ = syscall.Kill(cmd.Process.Pid, syscall.SIGTERM)
		select {
		case <-exited:
			if b, _ := os.ReadFile(outPath); bytes.Contains(b, []byte("\nS\n")) {
				stopped = true
				note("graceful stop: Stop returned, the helper exited by itself")
			} else {
				note("graceful stop: the helper exited without finishing Stop")
				if b, _ := os.ReadFile(filepath.Join(w.dir, fmt.Sprintf("child%d.err", run))); len(bytes.TrimSpace(b)) == 0 {
					note("graceful stop: ... and printed nothing (no panic, no fatal: killed by the signal itself)")
				} else if bytes.Contains(b, []byte("panic")) {
					note("graceful stop: ... with a panic")
				}
			}
		case <-time.After(5 * time.Second):
			note("graceful stop: Stop did not return within 5 s, killed")
			kill()
			stopped = true // still a kill for the property
		}
	}

	status := 0
	start := time.Now()
	var firstOut time.Time
	lastGrowth := time.Now()
	lastN := -1
	liveIdx := 0
	stall := 1500 * time.Millisecond
	if hc.join == 1 || ph.evTimeout < 2000 {
		stall = 2200 * time.Millisecond
	}
	settle := 50 * time.Millisecond
	selfExit := false
loop:
	for {
		select {
		case <-exited:
			selfExit = true
			break loop
		default:
		}
		ds, ready := readOut(outPath)
		now := time.Now()
		if (len(ds) > 0 || ready) && firstOut.IsZero() {
			firstOut = now
		}
		n := len(ds)
		if ready {
			n++
		}
		if n != lastN {
			lastN, lastGrowth = n, now
		}
		quiet := func() bool {
			if !ready {
				return false
			}
			all := true
			got := map[int]bool{}
			for _, d := range ds {
				got[d.id] = true
			}
			for id := range expected {
				if !got[id] {
					all = false
					break
				}
			}
			if all {
				return now.Sub(lastGrowth) >= settle
			}
			return now.Sub(lastGrowth) >= stall
		}
		// live operations
		if liveIdx < len(ph.live) && ready {
			lo := ph.live[liveIdx]
			if lo.wait == 0 || (lo.wait == 2 && len(ds) >= 1) || (lo.wait == 1 && quiet()) {
				if lo.op.op == 2 {
					m := truncMark{old: map[int]bool{}, before: map[int]bool{}}
					if f := w.byName[lo.op.name]; f != nil {
						for _, l := range f.lines {
							m.old[l.id] = true
						}
					}
					for _, d := range ds {
						m.before[d.id] = true
					}
					*marks = append(*marks, m)
				}
				for _, l := range w.apply(lo.op) {
					expected[l.id] = true
				}
				liveIdx++
				lastGrowth = time.Now()
				continue
			}
		}
		switch ph.killMode {
		case 0:
			if liveIdx == len(ph.live) && quiet() {
				kill()
				break loop
			}
		case 1:
			if !firstOut.IsZero() && now.Sub(firstOut) >= time.Duration(ph.killArg)*time.Millisecond {
				kill()
				break loop
			}
		case 2:
			if len(ds) >= ph.killArg || (liveIdx == len(ph.live) && quiet()) {
				kill()
				break loop
			}
		case 5:
			if liveIdx == len(ph.live) && ((ph.killArg > 0 && len(ds) >= ph.killArg) || quiet()) {
				graceful()
				break loop
			}
		default:
			if liveIdx == len(ph.live) && quiet() && now.Sub(lastGrowth) >= stall {
				kill()
				break loop
			}
		}
		if now.Sub(start) > 25*time.Second {
			kill()
			status = 2
			break loop
		}
		time.Sleep(time.Millisecond)
	}
	errf.Close()
	for ; liveIdx < len(ph.live); liveIdx++ { // killed before the operation was due: it happens while the process is down
		w.apply(ph.live[liveIdx].op)
	}
	if selfExit && !(ph.killMode == 3 || ph.killMode == 4) {
		status = 1
	}
	if ph.killMode == 5 && !selfExit && !stopped {
		status = 1 // the helper died during the shutdown (panic / fatal inside Stop)
	}
	if ph.killMode == 3 || ph.killMode == 4 {
		if selfExit {
			note("strace: SIGKILL injected at the save syscall")
		} else {
			note("strace: fewer such syscalls than asked, killed at quiescence")
		}
	}
	if selfExit && (ph.killMode == 3 || ph.killMode == 4) {
		// killed by strace at the save syscall (expected) — anything else the helper printed is a crash
		if b, _ := os.ReadFile(filepath.Join(w.dir, fmt.Sprintf("child%d.err", run))); bytes.Contains(b, []byte("panic")) || bytes.Contains(b, []byte("fatal")) {
			status = 1
		}
	}
	ds, _ := readOut(outPath)
	sort.Slice(ds, func(a, b int) bool {
		if ds[a].id != ds[b].id {
			return ds[a].id < ds[b].id
		}
		return ds[a].off < ds[b].off
	})
	dl := make([]hx.Sx, len(ds))
	for i, d := range ds {
		dl[i] = hx.L(hx.I(d.id), hx.Z(d.off))
	}
	return hx.L(hx.I(status), hx.L(dl...))
}

func encodeSnapshot(w *world, snap snapshot) hx.Sx {
	type ent struct {
		ident int
		s     hx.Sx
	}
	var ents []ent
	for ino, streams := range snap {
		ident := -1
		for _, f := range w.files {
			if f.inode == ino {
				ident = f.ident
			}
		}
		names := make([]string, 0, len(streams))
		for s := range streams {
			names = append(names, s)
		}
		sort.Strings(names)
		var ss []hx.Sx
		for _, s := range names {
			ss = append(ss, hx.L(hx.S(s), hx.Z(streams[s])))
		}
		ents = append(ents, ent{ident, hx.L(hx.I(ident), hx.L(ss...))})
	}
	sort.Slice(ents, func(a, b int) bool { return ents[a].ident < ents[b].ident })
	out := make([]hx.Sx, len(ents))
	for i, e := range ents {
		out[i] = e.s
	}
	return hx.L(out...)
}

var (
	scratchOnce sync.Once
	scratchRoot string
	scratchMu   sync.Mutex
	scratchN    int
)

func scratch() string {
	scratchOnce.Do(func() {
		base := "/dev/shm"
		if st, err := os.Stat(base); err != nil || !st.IsDir() {
			base = os.TempDir()
		}
		scratchRoot, _ = os.MkdirTemp(base, "verif-c03-")
	})
	scratchMu.Lock()
	scratchN++
	d := filepath.Join(scratchRoot, strconv.Itoa(scratchN))
	scratchMu.Unlock()
	_ = os.MkdirAll(filepath.Join(d, "watch"), 0o755)
	_ = os.MkdirAll(filepath.Join(d, "targets"), 0o755)
	_ = os.MkdirAll(filepath.Join(d, "watch2"), 0o755)
	return d
}

var keepDirs = os.Getenv("C03_KEEP") != ""

func exec03(which int, cs hx.Sx) hx.Sx {
	cfgS, phases := decodeCase(cs)
	w := &world{dir: scratch(), byName: map[int]*wfile{}, cri: decodeCfg(cfgS).front == 1}
	if !keepDirs {
		defer os.RemoveAll(w.dir)
	} else {
		fmt.Fprintln(os.Stderr, "dir:", w.dir)
	}
	if decodeCfg(cfgS).paths == 3 { // the second base directory of paths.include is a symlink to the real directory
		_ = os.Remove(filepath.Join(w.dir, "watch2"))
		_ = os.MkdirAll(filepath.Join(w.dir, "real2"), 0o755)
		if err := os.Symlink(filepath.Join(w.dir, "real2"), filepath.Join(w.dir, "watch2")); err != nil {
			w.bad = err.Error()
		}
	}
	var runs []hx.Sx
	var snapPrev snapshot
	for k, ph := range phases {
		truncDown := map[int]bool{}
		for _, o := range ph.down {
			if o.op == 2 {
				if f := w.byName[o.name]; f != nil {
					truncDown[f.ident] = true
				}
			}
			w.apply(o)
		}
		if w.bad != "" {
			return hx.L(hx.L(hx.I(2), hx.L(), hx.L(hx.L(hx.I(-2), hx.L(hx.L(hx.S(w.bad), hx.I(0)))))))
		}
		var marks []truncMark
		r := hx.Items(runPhase(w, cfgS, k, ph, snapPrev, truncDown, &marks))
		if len(marks) > 0 {
			got := map[int]bool{}
			for _, d := range hx.Items(r[1]) {
				got[int(hx.Int(hx.Items(d)[0]))] = true
			}
			var ns []int
			for _, m := range marks {
				n := 0
				for id := range m.old {
					if got[id] && !m.before[id] {
						n++
					}
				}
				ns = append(ns, n)
			}
			prev, _ := inflightSeen.Load(hx.String(cs))
			pv, _ := prev.([]int)
			inflightSeen.Store(hx.String(cs), append(pv, ns...))
		}
		content, err := os.ReadFile(filepath.Join(w.dir, "offsets.yaml"))
		snap := snapshot{}
		if err == nil {
			s, ok := parseOffsets(string(content))
			if !ok {
				r[0] = hx.I(2)
			} else {
				snap = s
			}
		}
		if w.bad != "" {
			r[0] = hx.I(2)
		}
		runs = append(runs, hx.L(r[0], r[1], encodeSnapshot(w, snap)))
		snapPrev = snap
	}
	return hx.L(runs...)
}

func main() {
	if len(os.Args) > 1 && os.Args[1] == "c03helper" {
		helperMain()
		return
	}
	if len(os.Args) > 1 && os.Args[1] == "c03print" { // prints the directed witnesses as corpus lines
		fmt.Printf("multi-stream-unsaved\t0\t%s\n", hx.String(witnessMultiStream()))
		fmt.Printf("truncate-tail\t0\t%s\n", hx.String(witnessTruncateTail()))
		fmt.Printf("truncate-inflight-multi-stream\t0\t%s\n", hx.String(witnessTruncInflight()))
		fmt.Printf("truncate-inflight-blank\t0\t%s\n", hx.String(witnessTruncInflightBlank()))
		fmt.Printf("truncate-inflight-single\t0\t%s\n", hx.String(witnessTruncInflightSingle()))
		fmt.Printf("antispam-empty-stream\t0\t%s\n", hx.String(witnessAntispamEmptyStream()))
		fmt.Printf("live-rotate\t2\t%s\n", hx.String(witnessLiveRotateStaleJob()))
		fmt.Printf("symlink-sourceid-collision\t0\t%s\n", hx.String(witnessSymlinkCollision()))
		fmt.Printf("k8s-meta-short-name\t0\t%s\n", hx.String(witnessK8sMetaShortName()))
		fmt.Printf("remove-after-uncommitted\t0\t%s\n", hx.String(witnessRemoveAfterUncommitted()))
		return
	}
	logger.Level.SetLevel(zapcore.FatalLevel)
	hmain.Run(&hmain.Prop{
		ID:   "C03",
		Rule: "non-trivial = at least one kill/restart cycle over a file with at least two complete lines",
		Gen:  gen03,
		Exec: exec03,
	})
	if scratchRoot != "" && !keepDirs {
		os.RemoveAll(scratchRoot)
	}
}
