package main

import (
	"bytes"
	"fmt"
	"os"
	"path/filepath"
	"strings"
	"sync"

	"verif/harness/hmain"
	"verif/harness/hx"
)

// ---- case builders ------------------------------------------------------------------------------------
type caseB struct {
	nextID int
	cri    bool // the case runs with cfg front = 1: lines are rendered in CRI format
}

func (b *caseB) line(stream string, pad, kind, delay int) hx.Sx {
	l := lineSpec{stream: stream, kind: kind, delay: delay, id: b.nextID}
	b.nextID++
	return hx.L(hx.S(stream), hx.I(minLen(l, b.cri)+pad), hx.I(kind), hx.I(delay))
}

func opAppend(name int, cut int, lines ...hx.Sx) hx.Sx {
	return hx.L(hx.I(0), hx.I(name), hx.L(lines...), hx.I(cut))
}
func opRename(name, to int) hx.Sx { return hx.L(hx.I(1), hx.I(name), hx.I(to)) }
func opTrunc(name int, cut int, lines ...hx.Sx) hx.Sx {
	return hx.L(hx.I(2), hx.I(name), hx.L(lines...), hx.I(cut))
}
func live(wait int, op hx.Sx) hx.Sx { return hx.L(hx.I(wait), op) }
func phaseS(down []hx.Sx, mode, arg, evT int, lives ...hx.Sx) hx.Sx {
	return hx.L(hx.L(down...), hx.L(hx.I(mode), hx.I(arg), hx.I(evT)), hx.L(lives...))
}
func cfgS(persist, procs, join, outKind, asyncMs, maintMs, readBuf, antispam int) hx.Sx {
	return hx.L(hx.I(persist), hx.I(procs), hx.I(join), hx.I(outKind), hx.I(asyncMs), hx.I(maintMs), hx.I(readBuf), hx.I(antispam))
}
func mkCase(cfg hx.Sx, phases ...hx.Sx) hx.Sx { return hx.L(cfg, hx.L(phases...)) }

// the DESIGN §6 row 9 witness: one held line of stream b, three committed lines of stream a, sync persistence
func witnessMultiStream() hx.Sx {
	b := &caseB{}
	return mkCase(cfgS(1, 1, 1, 0, 20, 25, 0, 0),
		phaseS([]hx.Sx{opAppend(0, 0, b.line("b", 0, 1, 0), b.line("a", 1, 0, 0), b.line("a", 2, 0, 0), b.line("a", 3, 0, 0))}, 2, 3, 30000),
		phaseS(nil, 0, 0, 150))
}

// copytruncate while running, with an unterminated line in job.tail at the time of the truncation
func witnessTruncateTail() hx.Sx {
	b := &caseB{}
	return mkCase(cfgS(0, 1, 0, 0, 20, 25, 0, 0),
		phaseS([]hx.Sx{opAppend(0, 20, b.line("a", 5, 0, 0), b.line("a", 30, 0, 0))}, 0, 0, 30000,
			live(1, opTrunc(0, 0, b.line("a", 0, 0, 0))),
			live(1, opAppend(0, 0, b.line("a", 0, 0, 0)))))
}

// truncation while events of ANOTHER stream of the file are still in flight: the last line read belongs to stream b
// (per-stream SeqID 1), four older events of stream a (SeqIDs 1..4) are held up by a slow output
func witnessTruncInflight() hx.Sx {
	b := &caseB{}
	return mkCase(cfgS(0, 4, 0, 0, 10, 25, 0, 0),
		phaseS([]hx.Sx{opAppend(0, 0, b.line("a", 0, 0, 400), b.line("a", 0, 0, 0), b.line("a", 0, 0, 0), b.line("a", 0, 0, 0), b.line("b", 0, 0, 0))}, 0, 0, 30000,
			live(2, opTrunc(0, 0, b.line("a", 0, 0, 0)))),
		phaseS(nil, 0, 0, 150))
}

// the same with ONE stream, the file ending in an empty line: In returns EventSeqIDError (0) for it. FIXED (dfe641a,
// fixes/C03-truncate-inflight-blank-line.patch): the worker used to store that 0 in job.lastEventSeq, truncateJob then
// ignored nothing and the first new line hit "offset corruption"; now lastEventSeq stays 4 and the case must Agree
func witnessTruncInflightBlank() hx.Sx {
	b := &caseB{}
	return mkCase(cfgS(0, 4, 0, 0, 10, 25, 0, 0),
		phaseS([]hx.Sx{opAppend(0, 0, b.line("a", 0, 0, 400), b.line("a", 0, 0, 0), b.line("a", 0, 0, 0), b.line("a", 0, 0, 0), b.line("a", 0, 2, 0))}, 0, 0, 30000,
			live(2, opTrunc(0, 0, b.line("a", 0, 0, 0)))),
		phaseS(nil, 0, 0, 150))
}

// control: one stream, last line accepted — every event in flight has SeqID <= job.lastEventSeq and is ignored
func witnessTruncInflightSingle() hx.Sx {
	b := &caseB{}
	return mkCase(cfgS(0, 4, 0, 0, 10, 25, 0, 0),
		phaseS([]hx.Sx{opAppend(0, 0, b.line("a", 0, 0, 400), b.line("a", 0, 0, 0), b.line("a", 0, 0, 0), b.line("a", 0, 0, 0), b.line("a", 0, 0, 0))}, 0, 0, 30000,
			live(2, opTrunc(0, 0, b.line("a", 0, 0, 0)))),
		phaseS(nil, 0, 0, 150))
}

// antispam enabled (threshold 1000) + json decoder + a stream whose name is the empty string: Pipeline.In compares
// every line's offset with the saved offset of stream "" (row.Stream is empty for non-CRI decoders)
func witnessAntispamEmptyStream() hx.Sx {
	b := &caseB{}
	return mkCase(cfgS(1, 4, 0, 0, 10, 25, 0, 1000),
		phaseS([]hx.Sx{opAppend(0, 0, b.line("a", 0, 0, 0), b.line("a", 0, 0, 500), b.line("a", 0, 0, 0), b.line("", 0, 0, 0), b.line("", 0, 0, 0), b.line("", 0, 0, 0))}, 2, 5, 30000),
		phaseS(nil, 0, 0, 150))
}

type job struct {
	stream string
	which  int
	cs     hx.Sx
	nontr  bool
	obs    hx.Sx
}

func knownListed(id string) bool {
	if os.Getenv("C03_ASSUME_LISTED") != "" { // development aid: behave as if the findings were already listed
		return true
	}
	exe, _ := os.Executable()
	kf, err := os.ReadFile(filepath.Join(filepath.Dir(filepath.Dir(exe)), "known_findings.json"))
	return err == nil && bytes.Contains(kf, []byte(id))
}

func gen03(c *hmain.Ctx) {
	c.R = c.R.Fork()
	r := c.R
	listed := knownListed("C03-multi-stream-unsaved")
	multiWhich := 1
	if listed {
		multiWhich = 0
	}
	var jobs []*job
	only := os.Getenv("C03_ONLY") // development aid: run only the streams whose name contains this text
	add := func(stream string, which int, cs hx.Sx, nontr bool) {
		if only != "" && !strings.Contains(stream, only) {
			return
		}
		if os.Getenv("C03_GENCHECK") != "" { // development aid: check the generated case texts, execute nothing
			if why := genCheck(cs); why != "" {
				fmt.Fprintf(os.Stderr, "GENCHECK %s: %s\n", stream, why)
			}
			return
		}
		jobs = append(jobs, &job{stream: stream, which: which, cs: cs, nontr: nontr})
	}

	streamsPool := []string{"a", "b", "stderr", "", "x:y", noStream, "s p"}

	// ---- 1. kill points, exhaustive in the small scope: one file of 4 single-stream lines, both persistence
	//         modes, kill after exactly k deliveries (k = 0..4) and on entering the k-th rename / fsync (k = 1..4)
	for persist := 0; persist <= 1; persist++ {
		for mode := 2; mode <= 4; mode++ {
			for k := 0; k <= 4; k++ {
				if mode != 2 && k == 0 {
					continue
				}
				if c.Scale == 1 && persist == 0 && mode != 2 && k > 2 {
					continue // async: at most a few saves happen in such a short run
				}
				b := &caseB{}
				cs := mkCase(cfgS(persist, 1, 0, 0, 5, 25, 0, 0),
					phaseS([]hx.Sx{opAppend(0, 0, b.line("a", 0, 0, 3), b.line("a", 1, 0, 3), b.line("a", 2, 0, 3), b.line("a", 3, 0, 3))}, mode, k, 30000),
					phaseS(nil, 0, 0, 150))
				add("kill-points", 0, cs, true)
				c.W.Count(fmt.Sprintf("kill-points persist=%d mode=%d", persist, mode))
			}
		}
	}

	// ---- 2./3. random histories: single-stream and multi-stream files
	adversarial := false
	randomCase := func(multi bool) (hx.Sx, bool) {
		b := &caseB{}
		persist := r.Intn(2)
		procs := 1 + 3*r.Intn(2)
		outKind := 0
		if r.Chance(1, 3) {
			outKind = 1
		}
		readBuf := 0
		if r.Chance(1, 3) || adversarial {
			readBuf = hx.Pick(r, []int{16, 50, 200})
		}
		joinOn := 0
		if multi && r.Chance(1, 4) {
			joinOn = 1
		}
		cfg := cfgS(persist, procs, joinOn, outKind, hx.Pick(r, []int{2, 10, 40}), 25, readBuf, 0)
		nfiles := 1 + r.Intn(2)
		fileStreams := make([][]string, 3)
		for f := range fileStreams {
			if multi {
				n := 2 + r.Intn(2)
				for len(fileStreams[f]) < n {
					s := hx.Pick(r, streamsPool)
					dup := false
					for _, x := range fileStreams[f] {
						dup = dup || x == s
					}
					if !dup {
						fileStreams[f] = append(fileStreams[f], s)
					}
				}
			} else {
				fileStreams[f] = []string{hx.Pick(r, streamsPool)}
			}
		}
		pending := map[int]bool{} // file has a cut line
		mkLines := func(f, n int) []hx.Sx {
			var ls []hx.Sx
			for i := 0; i < n; i++ {
				kind := 0
				if joinOn == 1 && r.Chance(1, 5) {
					kind = 1
				}
				delay := 0
				if r.Chance(1, 3) {
					delay = r.Range(1, 12)
				}
				ls = append(ls, b.line(hx.Pick(r, fileStreams[f]), r.Intn(40), kind, delay))
				if adversarial && r.Chance(1, 3) { // empty / undecodable lines between the events (dropped by the pipeline)
					if r.Chance(1, 3) {
						ls = append(ls, b.line("", r.Range(0, 9), 3, 0))
					} else {
						ls = append(ls, b.line("", r.Range(0, 2), 2, 0))
					}
				}
			}
			return ls
		}
		mkAppend := func(f int) hx.Sx {
			n := r.Range(1, 6)
			cut := 0
			if r.Chance(1, 4) {
				cut = r.Range(1, 20)
			}
			pending[f] = cut > 0
			return opAppend(f, cut, mkLines(f, n)...)
		}
		nph := 2 + r.Intn(2)
		var phases []hx.Sx
		names := map[int]bool{}
		total := 0
		for k := 0; k < nph; k++ {
			var down []hx.Sx
			if k == 0 {
				for f := 0; f < nfiles; f++ {
					down = append(down, mkAppend(f))
					names[f] = true
				}
			} else {
				for f := 0; f < nfiles; f++ {
					switch r.Intn(4) {
					case 0:
						down = append(down, mkAppend(f))
					case 1: // rotation by rename + a new file under the old name
						if !names[f+10] {
							down = append(down, opRename(f, f+10))
							names[f+10] = true
							down = append(down, opAppend(f, 0, mkLines(f, r.Range(1, 3))...))
						}
					}
				}
			}
			last := k == nph-1
			mode, arg, evT := 0, 0, 150
			if !last {
				evT = 30000
				switch r.Intn(5) {
				case 0:
					mode, arg = 1, r.Range(0, 40)
				case 1, 2:
					mode, arg = 2, r.Range(0, 8)
				case 3:
					mode, arg = 3, r.Range(1, 4)
				default:
					mode, arg = 4, r.Range(1, 4)
				}
			}
			var lives []hx.Sx
			if r.Chance(1, 3) {
				lives = append(lives, live(r.Intn(2), mkAppend(r.Intn(nfiles))))
			}
			phases = append(phases, phaseS(down, mode, arg, evT, lives...))
		}
		total = b.nextID
		return mkCase(cfg, phases...), total >= 2
	}
	// adversarial: stream names with ':' / spaces / empty / absent field only, empty lines between events, tiny read
	// buffers (lines longer than the buffer), cut last lines
	adversarial = true
	saved := streamsPool
	streamsPool = []string{"", "x:y", noStream, "s p", ": 1", "a: 2"}
	for i := 0; i < 8*c.Scale; i++ {
		cs, nt := randomCase(false)
		add("adversarial", 0, cs, nt)
	}
	adversarial = false
	streamsPool = saved
	nSingle, nMulti := 18*c.Scale, 18*c.Scale
	for i := 0; i < nSingle; i++ {
		cs, nt := randomCase(false)
		add("single-stream", 0, cs, nt)
	}
	for i := 0; i < nMulti; i++ {
		cs, nt := randomCase(true)
		add("multi-stream-random", multiWhich, cs, nt)
	}

	// ---- 4. the known multi-stream defect, directed (only once it is listed; until then the witness is a
	//         comment in corpus/C03 and the random multi-stream cases run with the tolerant predicate)
	if listed {
		add("multi-stream-unsaved", 0, witnessMultiStream(), true)
	}

	// ---- 5. truncation: while running (with and without an unterminated line in job.tail) and while down
	for i := 0; i < 4*c.Scale; i++ {
		b := &caseB{}
		s := hx.Pick(r, streamsPool)
		cut := 0
		if i%2 == 0 {
			cut = r.Range(1, 25)
		}
		n1 := r.Range(2, 5)
		var first []hx.Sx
		for k := 0; k < n1; k++ {
			first = append(first, b.line(s, 10+r.Intn(30), 0, 0))
		}
		cs := mkCase(cfgS(r.Intn(2), 1, 0, 0, 10, 25, 0, 0),
			phaseS([]hx.Sx{opAppend(0, cut, first...)}, 0, 0, 30000,
				live(1, opTrunc(0, 0, b.line(s, 0, 0, 0))),
				live(1, opAppend(0, 0, b.line(s, 0, 0, 0), b.line(s, 3, 0, 0)))),
			phaseS(nil, 0, 0, 150))
		add("truncate-live", 0, cs, true)
	}
	for i := 0; i < 3*c.Scale; i++ {
		b := &caseB{}
		s := hx.Pick(r, streamsPool)
		cs := mkCase(cfgS(r.Intn(2), 1, 0, 0, 10, 25, 0, 0),
			phaseS([]hx.Sx{opAppend(0, 0, b.line(s, 20, 0, 0), b.line(s, 20, 0, 0), b.line(s, 20, 0, 0))}, 2, r.Range(1, 3), 30000),
			phaseS([]hx.Sx{opTrunc(0, 0, b.line(s, 0, 0, 0))}, 0, 0, 150,
				live(1, opAppend(0, 0, b.line(s, 0, 0, 0)))))
		add("truncate-down", 0, cs, true)
	}

	// ---- 6. truncation while events are still in flight. Control (always): one stream, last line accepted — every
	//         event in flight is covered by ignoreEventsLE. KNOWN FINDING (once listed): several streams, or the file
	//         ending in an empty line — the process dies with "offset corruption" (or the new line is skipped)
	for i := 0; i < 2*c.Scale; i++ {
		b := &caseB{}
		s := hx.Pick(r, streamsPool)
		var first []hx.Sx
		first = append(first, b.line(s, 0, 0, 300))
		for k := r.Range(2, 4); k > 0; k-- {
			first = append(first, b.line(s, r.Intn(10), 0, 0))
		}
		cs := mkCase(cfgS(r.Intn(2), 4, 0, 0, 10, 25, 0, 0),
			phaseS([]hx.Sx{opAppend(0, 0, first...)}, 0, 0, 30000, live(2, opTrunc(0, 0, b.line(s, 0, 0, 0)))),
			phaseS(nil, 0, 0, 150))
		add("truncate-inflight-single", 0, cs, true)
	}
	if knownListed("C03-truncate-inflight") {
		add("truncate-inflight", 0, witnessTruncInflight(), true)
	}
	// repaired (dfe641a): ONE stream, the file ends in an empty line — always run, must Agree (also in corpus/C03)
	add("truncate-inflight-blank", 0, witnessTruncInflightBlank(), true)

	// ---- 6b. ONE stream, empty / undecodable lines at random places (also as the last line of the old and of the new
	//          content), a live truncation while events are in flight: the first line is held by the output (synchronous
	//          output sleeping in Out, or the batcher's OutFn), the truncation is applied as soon as one event was delivered.
	//          In returns EventSeqIDError for the junk lines; the repaired worker keeps job.lastEventSeq, so every old event
	//          is ignored by Commit, nothing panics and every line written after the truncation is delivered.
	for i := 0; i < 10*c.Scale; i++ {
		b := &caseB{}
		s := hx.Pick(r, streamsPool)
		junk := func() hx.Sx {
			if r.Chance(1, 2) {
				return b.line(s, r.Range(0, 2), 2, 0) // 1..3 empty lines
			}
			return b.line(s, r.Range(0, 10), 3, 0) // one undecodable line of 2..12 bytes
		}
		content := func(n int, hold bool, lastJunk int) (ls []hx.Sx, njunk int) {
			if r.Chance(1, 5) {
				ls = append(ls, junk())
				njunk++
			}
			for k := 0; k < n; k++ {
				delay := 0
				switch {
				case hold && k == 0:
					delay = hx.Pick(r, []int{30, 80, 300})
				case hold && r.Chance(1, 2):
					delay = r.Range(1, 15)
				}
				pad := 0
				if hold {
					pad = r.Intn(12)
				}
				ls = append(ls, b.line(s, pad, 0, delay))
				if k < n-1 && r.Chance(1, 3) {
					ls = append(ls, junk())
					njunk++
				}
			}
			for k := 0; k < lastJunk; k++ {
				ls = append(ls, junk())
				njunk++
			}
			return ls, njunk
		}
		lastOld := 0
		if i%2 == 0 || r.Chance(1, 3) { // the trigger of the repaired defect: the last line read before the truncation is junk
			lastOld = r.Range(1, 2)
		}
		old, nj := content(r.Range(3, 7), true, lastOld)
		lastNew := 0
		if r.Chance(1, 3) {
			lastNew = 1
		}
		total := func(ls []hx.Sx) (n int64) {
			for _, l := range ls {
				n += hx.Int(hx.Items(l)[1])
			}
			return n
		}
		// the truncation is detected iff the new size is below what the reader consumed (the whole old content)
		mark := b.nextID
		fresh, nj2 := content(r.Range(1, 2), false, lastNew)
		for try := 0; total(fresh) >= total(old); try++ {
			b.nextID = mark
			if try < 4 {
				fresh, nj2 = content(1, false, lastNew)
			} else {
				fresh, nj2 = []hx.Sx{b.line(s, 0, 0, 0)}, 0
			}
		}
		lives := []hx.Sx{live(2, opTrunc(0, 0, fresh...))}
		if r.Chance(1, 2) {
			more, nj3 := content(r.Range(1, 3), false, r.Intn(2))
			nj2 += nj3
			lives = append(lives, live(1, opAppend(0, 0, more...)))
		}
		outKind := 0
		if r.Chance(1, 4) {
			outKind = 1
		}
		cs := mkCase(cfgS(r.Intn(2), 1+3*r.Intn(2), 0, outKind, hx.Pick(r, []int{2, 10}), 25, 0, 0),
			phaseS([]hx.Sx{opAppend(0, 0, old...)}, 0, 0, 30000, lives...),
			phaseS(nil, 0, 0, 150))
		add("truncate-inflight-junk", 0, cs, true)
		c.W.Count(fmt.Sprintf("truncate-inflight-junk: junk lines before the truncation=%d, last line read is junk=%v", min(nj, 3), lastOld > 0))
		c.W.Count(fmt.Sprintf("truncate-inflight-junk: junk lines after the truncation=%d output=%d", min(nj2, 3), outKind))
	}

	// ---- 7. antispam enabled + a stream named "" (fixed defect: In applied the saved offset of stream "" to every line)
	add("multi-stream-antispam", multiWhich, witnessAntispamEmptyStream(), true)
	for i := 0; i < 2*c.Scale; i++ {
		b := &caseB{}
		other := hx.Pick(r, []string{"a", "stderr", noStream})
		var ls []hx.Sx
		ls = append(ls, b.line(other, r.Intn(8), 0, 0), b.line(other, r.Intn(8), 0, 300+r.Intn(200)), b.line(other, r.Intn(8), 0, 0))
		n := r.Range(2, 4)
		for k := 0; k < n; k++ {
			ls = append(ls, b.line("", r.Intn(8), 0, 0))
		}
		cs := mkCase(cfgS(r.Intn(2), 4, 0, 0, 5, 25, 0, 1000),
			phaseS([]hx.Sx{opAppend(0, 0, ls...)}, 2, 2+n, 30000),
			phaseS(nil, 0, 0, 150))
		add("multi-stream-antispam", multiWhich, cs, true)
	}

	// ---- 8. scale / history thresholds (gen_thresholds.go)
	if os.Getenv("C03_SKIP_THRESHOLDS") == "" { // development aid: time the streams above alone
		genThresholds(c, r, add)
	}
	// ---- 9. round 5: behaviour of the anchored files no case reached (gen_cov.go)
	if os.Getenv("C03_SKIP_COV") == "" {
		genCoverage(c, r, multiWhich, add)
	}

	// ---- run: the cases are independent worlds; execute them concurrently, record them in order
	var wg sync.WaitGroup
	sem := make(chan struct{}, 12)
	for _, j := range jobs {
		wg.Add(1)
		sem <- struct{}{}
		go func(j *job) {
			defer wg.Done()
			defer func() { <-sem }()
			j.obs = exec03(j.which, j.cs)
		}(j)
	}
	wg.Wait()
	k8sSeen.Range(func(k, _ any) bool {
		c.W.Count("k8s meta templates: k8s_pod of delivered events = " + k.(string))
		return true
	})
	noteMu.Lock()
	for k, n := range notes {
		for i := 0; i < n; i++ {
			c.W.Count(k)
		}
	}
	noteMu.Unlock()
	for _, j := range jobs {
		if v, ok := inflightSeen.Load(hx.String(j.cs)); ok && strings.HasPrefix(j.stream, "truncate-inflight") {
			for _, n := range v.([]int) {
				c.W.Count(fmt.Sprintf("%s: events in flight at the live truncation=%d", j.stream, min(n, 6)))
			}
			inflightSeen.Delete(hx.String(j.cs))
		}
		c.W.Case(j.stream, j.which, j.cs, j.obs, j.nontr)
		runs := hx.Items(j.obs)
		_, phases := decodeCase(j.cs)
		for k, ro := range runs {
			it := hx.Items(ro)
			if len(it) < 3 || k >= len(phases) {
				continue
			}
			if phases[k].killMode == 0 {
				continue
			}
			nd, ns := len(hx.Items(it[1])), len(hx.Items(it[2]))
			switch {
			case nd == 0:
				c.W.Count("kill before the first delivery")
			case ns == 0:
				c.W.Count("kill after deliveries, nothing saved yet")
			default:
				c.W.Count("kill after deliveries, offsets saved")
			}
			c.W.Count(fmt.Sprintf("kill mode %d", phases[k].killMode))
		}
		c.W.Count(fmt.Sprintf("phases=%d", len(phases)))
	}
}

// genCheck: every line of a generated case must be renderable with the id it gets by its position in the case (caseB numbers
// the lines in the order they are BUILT; a generator that builds a later phase first gives a line the length of another id)
func genCheck(cs hx.Sx) string {
	cfg, phases := decodeCase(cs)
	cri := decodeCfg(cfg).front == 1
	chk := func(o fileOp) string {
		for _, l := range o.lines {
			if _, ok := render(l, cri); !ok {
				return fmt.Sprintf("line %d: length %d < %d", l.id, l.length, minLen(l, cri))
			}
		}
		return ""
	}
	for _, ph := range phases {
		for _, o := range ph.down {
			if w := chk(o); w != "" {
				return w
			}
		}
		for _, l := range ph.live {
			if w := chk(l.op); w != "" {
				return w
			}
		}
	}
	return ""
}
