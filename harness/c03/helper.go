package main

// Helper process of C03: this binary re-executed as "c03helper". It runs the REAL file input plugin
// inside a REAL pipeline (json decoder, stream field "stream", optional real join action, scripted
// output) on <dir>/watch with the offsets file <dir>/offsets.yaml, and never stops by itself: the parent
// SIGKILLs it (or strace does, on a save syscall). Every event the output receives is appended to
// <dir>/out<run>.log with one write(2) BEFORE it is committed ("D id offset"); "A id" follows after
// Commit returned (in sync persistence mode: after the offsets file was replaced).

import (
	"context"
	"fmt"
	"os"
	"os/signal"
	"path/filepath"
	"runtime/coverage"
	"strconv"
	"strings"
	"sync"
	"syscall"
	"time"

	"github.com/ozontech/file.d/cfg"
	"github.com/ozontech/file.d/logger"
	"github.com/ozontech/file.d/pipeline"
	"github.com/ozontech/file.d/plugin/action/join"
	filein "github.com/ozontech/file.d/plugin/input/file"
	k8sin "github.com/ozontech/file.d/plugin/input/k8s"
	k8smeta "github.com/ozontech/file.d/plugin/input/k8s/meta"
	"github.com/ozontech/file.d/test"
	"github.com/prometheus/client_golang/prometheus"
	"go.uber.org/zap"
	"go.uber.org/zap/zapcore"

	"verif/harness/hx"
)

type helperCfg struct {
	persist, procs, join, outKind, asyncMs, maintMs, readBuf, antispam int
	// optional items 8..: workers_count (0 = "2"), should_watch_file_changes, remove_after (ms), max_event_size,
	// cut_off_event_by_limit, k8s meta (the built-in meta templates of the k8s input: k8s_pod = {{ .pod_name }} ...)
	workers, watchChanges, removeAfterMs, maxEventSize, cutOff, k8sMeta int
	// items 14..: paths (0 = watching_dir; 1 = paths.include with two base directories + paths.exclude, 3 = the same with the
	// second base directory behind a symlink; 2 = the deprecated
	// filename_pattern "*.log" + dir_pattern "d*"), front (0 = file input + json decoder; 1 = the k8s input in front of it:
	// k8s.Plugin.Start -> SuggestDecoder(CRI) with decoder "auto", built-in k8s meta templates; lines are in CRI format)
	paths, front int
}

func decodeCfg(v hx.Sx) helperCfg {
	it := hx.Items(v)
	g := func(i int) int {
		if i < len(it) {
			return int(hx.Int(it[i]))
		}
		return 0
	}
	return helperCfg{persist: g(0), procs: g(1), join: g(2), outKind: g(3), asyncMs: g(4), maintMs: g(5), readBuf: g(6), antispam: g(7),
		workers: g(8), watchChanges: g(9), removeAfterMs: g(10), maxEventSize: g(11), cutOff: g(12), k8sMeta: g(13),
		paths: g(14), front: g(15)}
}

type scriptedOut struct {
	mu    sync.Mutex
	f     *os.File
	ctl   pipeline.OutputPluginController
	kind  int
	batch *pipeline.Batcher
	stop  context.CancelFunc
	k8s   bool
}

func (o *scriptedOut) rec(s string) {
	o.mu.Lock()
	_, _ = o.f.WriteString(s)
	o.mu.Unlock()
}

func evInt(e *pipeline.Event, f string) int {
	n := e.Root.Dig(f)
	if n == nil {
		// CRI decoder: the event is {log, time, stream}; the line's own JSON is the text of "log"
		if l := e.Root.Dig("log"); l != nil {
			txt := l.AsString()
			key := `"` + f + `":`
			if i := strings.Index(txt, key); i >= 0 {
				v := 0
				j := i + len(key)
				for ; j < len(txt) && txt[j] >= '0' && txt[j] <= '9'; j++ {
					v = v*10 + int(txt[j]-'0')
				}
				if j > i+len(key) {
					return v
				}
			}
		}
		return -1
	}
	return n.AsInt()
}

// k8sNote records the k8s_pod meta field of a delivered event ("K <value>"; the parent only counts the values)
func (o *scriptedOut) k8sNote(e *pipeline.Event) {
	if !o.k8s {
		return
	}
	v := "<absent>"
	if n := e.Root.Dig("k8s_pod"); n != nil {
		v = n.AsString()
	}
	o.rec("K " + v + "\n")
}

func (o *scriptedOut) Start(_ pipeline.AnyConfig, p *pipeline.OutputPluginParams) {
	o.ctl = p.Controller
	if o.kind == 1 {
		ctx, cancel := context.WithCancel(context.Background())
		o.stop = cancel
		o.batch = pipeline.NewBatcher(pipeline.BatcherOptions{
			PipelineName: p.PipelineName, OutputType: "verif", Controller: p.Controller,
			OutFn: func(_ *pipeline.WorkerData, b *pipeline.Batch) {
				d := 0
				b.ForEach(func(e *pipeline.Event) {
					o.k8sNote(e)
					o.rec(fmt.Sprintf("D %d %d\n", evInt(e, "id"), e.Offset))
					if x := evInt(e, "d"); x > d {
						d = x
					}
				})
				if d > 0 {
					time.Sleep(time.Duration(d) * time.Millisecond)
				}
			},
			Workers: 2, BatchSizeCount: 3, FlushTimeout: 15 * time.Millisecond, MetricCtl: p.MetricCtl,
		})
		o.batch.Start(ctx)
	}
}
func (o *scriptedOut) Stop() {}
func (o *scriptedOut) Out(e *pipeline.Event) {
	if o.kind == 1 {
		o.batch.Add(e)
		return
	}
	id := evInt(e, "id")
	o.k8sNote(e)
	o.rec(fmt.Sprintf("D %d %d\n", id, e.Offset))
	if d := evInt(e, "d"); d > 0 {
		time.Sleep(time.Duration(d) * time.Millisecond)
	}
	o.ctl.Commit(e)
	o.rec(fmt.Sprintf("A %d\n", id))
}

// c03helper <dir> <run> <cfg-sx> <eventTimeoutMs>
func helperMain() {
	if len(os.Args) < 6 {
		fmt.Fprintln(os.Stderr, "usage: c03helper dir run cfg evTimeoutMs")
		os.Exit(2)
	}
	logger.Level.SetLevel(zapcore.FatalLevel)
	covDump()
	dir, run := os.Args[2], os.Args[3]
	hc := decodeCfg(hx.MustParse(os.Args[4]))
	evTimeout := int(hx.Int(hx.MustParse(os.Args[5])))
	outf, err := os.OpenFile(filepath.Join(dir, "out"+run+".log"), os.O_APPEND|os.O_CREATE|os.O_WRONLY, 0o644)
	if err != nil {
		fmt.Fprintln(os.Stderr, err)
		os.Exit(2)
	}
	anti := -1
	if hc.antispam > 0 {
		anti = hc.antispam
	}
	settings := &pipeline.Settings{
		Capacity: 32, MaintenanceInterval: 5 * time.Second, EventTimeout: time.Duration(evTimeout) * time.Millisecond,
		Antispam: pipeline.AntispamSettings{Threshold: anti}, AvgEventSize: 256, MetaCacheSize: 8, StreamField: "stream", Decoder: "json",
		Metric:       &pipeline.MetricSettings{HoldDuration: time.Minute, MaxLabelValueLength: 100},
		MaxEventSize: hc.maxEventSize, CutOffEventByLimit: hc.cutOff == 1,
	}
	if hc.front == 1 {
		settings.Decoder = "auto" // the k8s input suggests CRI
	}
	// fatal messages only, on stderr (child<run>.err): zap's Fatal exits the process even through a Nop logger, and a silent
	// exit(1) cannot be told from anything else
	lvl := zapcore.FatalLevel
	if os.Getenv("C03_DEBUGLOG") != "" { // development aid: the plugin's and the pipeline's log in child<run>.err
		lvl = zapcore.DebugLevel
	}
	lg := zap.New(zapcore.NewCore(zapcore.NewConsoleEncoder(zap.NewDevelopmentEncoderConfig()), zapcore.Lock(os.Stderr), lvl))
	p := pipeline.New("c03", settings, prometheus.NewRegistry(), lg)
	if hc.procs <= 1 {
		p.DisableParallelism()
	}
	var input pipeline.AnyPlugin
	input, _ = filein.Factory()
	mode := "async"
	if hc.persist == 1 {
		mode = "sync"
	}
	config := &filein.Config{
		WatchingDir:         filepath.Join(dir, "watch"),
		OffsetsFile:         filepath.Join(dir, "offsets.yaml"),
		PersistenceMode:     mode,
		AsyncInterval:       cfg.Duration(fmt.Sprintf("%dms", max(hc.asyncMs, 1))),
		MaintenanceInterval: cfg.Duration(fmt.Sprintf("%dms", max(hc.maintMs, 1))),
		WorkersCount:        cfg.Expression(strconv.Itoa(max(hc.workers, 0))),
		ReadBufferSize:      hc.readBuf,
		ShouldWatchChanges:  hc.watchChanges == 1,
	}
	if hc.workers <= 0 {
		config.WorkersCount = "2"
	}
	if hc.removeAfterMs > 0 {
		config.RemoveAfter = cfg.Duration(fmt.Sprintf("%dms", hc.removeAfterMs))
	}
	if hc.k8sMeta == 1 {
		k8smeta.DisableMetaUpdates = true // no cluster: never ask the API server for pod data
		config.Meta = cfg.MetaTemplates{"k8s_pod": "{{ .pod_name }}", "k8s_namespace": "{{ .namespace }}",
			"k8s_container": "{{ .container_name }}", "k8s_container_id": "{{ .container_id }}"}
	}
	switch hc.paths {
	case 1, 3: // (3: the parent made <dir>/watch2 a symlink to <dir>/real2: watcher.start resolves the links of a base directory)
		// the current format: glob patterns. Two base directories (the watcher watches their common parent, the world
		// directory, recursively) and an exclude pattern; watching_dir is not used
		config.WatchingDir = ""
		config.Paths = filein.Paths{
			Include: []string{filepath.Join(dir, "watch", "**", "*.log"), filepath.Join(dir, "watch2", "*.log")},
			Exclude: []string{filepath.Join(dir, "watch", "**", "x*.log")},
		}
	case 2: // the deprecated format with both patterns set: only <watch>/d*/*.log is watched
		config.FilenamePattern = "*.log"
		config.DirPattern = "d*"
	}
	var anyCfg pipeline.AnyConfig = config
	typ := "file"
	if hc.front == 1 {
		k8smeta.DisableMetaUpdates = true // no cluster: never ask the API server for pod data
		input, _ = k8sin.Factory()
		config.Meta = cfg.MetaTemplates{"fname": "{{ .filename }}"}
		kc := &k8sin.Config{WatchingDir: config.WatchingDir, OffsetsFile: config.OffsetsFile, FileConfig: *config,
			K8sMeta: cfg.MetaTemplates{"pod_again": "{{ .pod_name }}"}}
		test.NewConfig(kc, map[string]int{"gomaxprocs": 2})
		anyCfg, typ = kc, "k8s"
	} else {
		test.NewConfig(config, map[string]int{"gomaxprocs": 2})
	}
	p.SetInput(&pipeline.InputPluginInfo{
		PluginStaticInfo:  &pipeline.PluginStaticInfo{Type: typ, Config: anyCfg},
		PluginRuntimeInfo: &pipeline.PluginRuntimeInfo{Plugin: input},
	})
	if hc.join == 1 {
		jc := &join.Config{Field: "m", Start: cfg.Regexp("/^S/"), Continue: cfg.Regexp("/^C/")}
		test.NewConfig(jc, nil)
		p.AddAction(&pipeline.ActionPluginStaticInfo{
			PluginStaticInfo: &pipeline.PluginStaticInfo{
				Type:    "join",
				Factory: func() (pipeline.AnyPlugin, pipeline.AnyConfig) { return &join.Plugin{}, jc },
				Config:  jc,
			},
			MetricName: "join",
			MatchMode:  pipeline.MatchModeAnd,
		})
	}
	out := &scriptedOut{f: outf, kind: hc.outKind, k8s: hc.k8sMeta == 1}
	p.SetOutput(&pipeline.OutputPluginInfo{
		PluginStaticInfo:  &pipeline.PluginStaticInfo{Type: "verifout"},
		PluginRuntimeInfo: &pipeline.PluginRuntimeInfo{Plugin: out},
	})
	// kill mode 5 of the parent: SIGTERM = the orderly shutdown (Pipeline.Stop -> input Stop: the workers get their nil jobs,
	// jobProvider.stop saves the last known offsets, the watcher is closed). "S" marks that Stop returned.
	// The handler is installed BEFORE the pipeline starts and "R" is written: the parent sends SIGTERM as soon as it has seen
	// "R" and enough "D" records, and on a loaded machine (thorough tier: 10 helpers + strace) this goroutine can be off the CPU
	// for longer than that between rec("R") and signal.Notify - the signal then had its default action (the process dies
	// without Stop, which the parent reports as 'the helper died by itself').
	term := make(chan os.Signal, 1)
	signal.Notify(term, syscall.SIGTERM)
	p.Start()
	out.rec("R\n")
	<-term
	p.Stop()
	out.rec("S\n")
	os.Exit(0)
}

// covDump is a measurement aid (coverage builds only, C03_COVDUMP=<dir>): coverage counters are written at a normal exit,
// which a SIGKILLed helper never reaches. With the variable set the parent sends SIGUSR1 just before the SIGKILL and the
// helper dumps its counters and exits at once (no Stop, no final offsets save: for the property this is still a kill).
func covDump() {
	d := os.Getenv("C03_COVDUMP")
	if d == "" {
		return
	}
	ch := make(chan os.Signal, 1)
	signal.Notify(ch, syscall.SIGUSR1)
	go func() {
		<-ch
		_ = coverage.WriteMetaDir(d)
		_ = coverage.WriteCountersDir(d)
		os.Exit(0)
	}()
}
