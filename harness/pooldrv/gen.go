package pooldrv

// Case generators of the event-pool component, shared by the POOL self-test binary and the
// harnesses of properties C05 and C04.

import (
	"fmt"
	"math/bits"
	"sync"
	"sync/atomic"

	"verif/harness/hmain"
	"verif/harness/hx"
)

type job struct {
	stream string
	which  int
	cs     hx.Sx
	obs    hx.Sx
}

func op(xs ...int) hx.Sx {
	out := make([]hx.Sx, len(xs))
	for i, x := range xs {
		out[i] = hx.I(x)
	}
	return hx.L(out...)
}

func mkCase(kind, capacity, interval int, gates []int, threads []hx.Sx) hx.Sx {
	return hx.L(hx.I(kind), hx.I(capacity), hx.I(interval), hx.List(gates, func(g int) hx.Sx { return hx.I(g) }), hx.L(threads...))
}

// LostWakeup: capacity 1, one holder, one getter parked between the availability check and Cond.Wait,
// the holder's back() (Dec + Broadcast) falls into that window, then the getter is released.
func LostWakeup(kind, interval int) hx.Sx {
	gate := 20
	if kind == 11 {
		gate = 21
	}
	holder := hx.L(op(0), op(4, 1), op(1), op(2, 2), op(5))
	getter := hx.L(op(2, 8), op(0), op(1))
	return mkCase(kind, 1, interval, []int{gate}, []hx.Sx{holder, getter})
}

// Phases of a heartbeat-lifecycle case (HbLifecycle).
const (
	PhIdle  = 0 // nothing held, nobody waits: the heartbeat ticks with waiters = 0, eventsAvailable = true
	PhFull  = 1 // every event held, nobody waits: waiters = 0, eventsAvailable = false
	PhPress = 2 // every event held, one getter asleep: waiters = 1, eventsAvailable = false (ordinary back-pressure)
	PhLost  = 3 // the lost wake-up: every back() falls between the getter's check and its Cond.Wait; only the heartbeat
	//             (waiters = 1, eventsAvailable = true) resumes the getter
)

// HbLifecycle: one controller goroutine (id 1) takes the pool through the given phases, each lasting ms[i] milliseconds (more than
// the heartbeat interval, so that the heartbeat ticks in every one of the four combinations of its two loads that the phases
// stand for), and ends with the lost wake-up schedule of LostWakeup: the pool has lived through back-pressure episodes and
// idle periods, and the heartbeat started in the first episode must still be there to repair the lost wake-up.  Every phase
// that needs a getter has its own goroutine (ids 2, 3, ...); only the getters of the lost-wake-up phases are parked at the gate.
// The goroutines are synchronised by the phase counter (ops 12 / 13), the waiter count (op 10) and the gate (ops 4 / 11 / 5),
// not by sleeping.  A heartbeat that returns (or slows down) under ANY of the four load combinations leaves the last getter
// asleep with capacity free: record 210, and 217 when it returned in the middle of an iteration.
func HbLifecycle(kind, capacity, interval int, phases []int, ms []int) hx.Sx {
	gate := 20
	if kind == 11 {
		gate = 21
	}
	phases = append(append([]int(nil), phases...), PhLost)
	ms = append(append([]int(nil), ms...), 0)
	gates := []hx.Sx{hx.I(gate)}
	var ctl []hx.Sx
	var getters []hx.Sx
	ph, parked, next := 0, 0, 2
	takeAll := func() {
		for k := 0; k < capacity; k++ {
			ctl = append(ctl, op(0))
		}
	}
	backAll := func() {
		for k := 0; k < capacity; k++ {
			ctl = append(ctl, op(1))
		}
	}
	for i, p := range phases {
		last := i == len(phases)-1
		switch p {
		case PhIdle:
			ctl = append(ctl, op(2, ms[i]))
		case PhFull:
			takeAll()
			ctl = append(ctl, op(2, ms[i]))
			backAll()
		case PhPress, PhLost:
			tid := next
			next++
			getters = append(getters, hx.L(op(13, ph+1), op(0), op(1), op(12, ph+2)))
			takeAll()
			ctl = append(ctl, op(12, ph+1))
			if p == PhPress {
				ctl = append(ctl, op(10, 1), op(2, ms[i]))
				backAll()
			} else {
				gates = append(gates, op(2, tid))
				parked++
				ctl = append(ctl, op(4, parked))
				backAll()
				ctl = append(ctl, op(2, 1))
				if last {
					ctl = append(ctl, op(5))
				} else {
					ctl = append(ctl, op(11))
				}
			}
			ctl = append(ctl, op(13, ph+2))
			ph += 2
		}
	}
	return hx.L(hx.I(kind), hx.I(capacity), hx.I(interval), hx.L(gates...), hx.L(append([]hx.Sx{hx.L(ctl...)}, getters...)...))
}

// Gen generates, runs and records the pool cases (sub-models 10 = low-memory, 11 = standard).
func Gen(c *hmain.Ctx) {
	r := c.R
	var jobs []*job
	add := func(stream string, kind int, cs hx.Sx) {
		jobs = append(jobs, &job{stream: stream, which: kind, cs: cs})
	}

	// 1. directed: the lost wake-up window of both pools (Appendix B, C04)
	for i := 0; i < 3*c.Scale; i++ {
		add("lost-wakeup", 10, LostWakeup(10, 30))
		add("lost-wakeup", 11, LostWakeup(11, 30))
	}
	// 1b. directed: a getter that is surely asleep (registered 15 ms ago) must be woken by back() itself,
	//     not by the heartbeat (400 ms): the mechanism "back() broadcasts" of C04
	for i := 0; i < 2*c.Scale; i++ {
		for _, kind := range []int{10, 11} {
			holder := hx.L(op(0), op(2, 20), op(1))
			getter := hx.L(op(2, 5), op(0), op(1))
			add("prompt-wakeup", kind, mkCase(kind, 1, 400, nil, []hx.Sx{holder, getter}))
		}
	}
	// 1c. directed: the heartbeat's life cycle.  The pool lives through back-pressure episodes, idle periods and periods in which
	//     it is full with nobody waiting - each longer than the wake-up interval - and then meets the lost wake-up: the heartbeat
	//     that get() started ONCE, in the first episode, must still tick (HbLifecycle).  The first phase is a back-pressure episode
	//     (it starts the heartbeat); the first few cases are the plain "episode, idle period, lost wake-up" of both pools
	for i := 0; i < 14*c.Scale; i++ {
		for _, kind := range []int{10, 11} {
			interval := r.Range(12, 18)
			dur := func() int { return interval + interval/3 + r.Intn(interval+interval/2) }
			capacity := 1
			if i >= 2 && r.Chance(1, 3) {
				capacity = r.Range(2, 3)
			}
			phases := []int{PhPress, PhIdle}
			if i >= 2 {
				phases = []int{[]int{PhPress, PhPress, PhLost}[r.Intn(3)]}
				rest := []int{PhIdle, PhFull, PhPress, PhLost, PhIdle}
				for k := r.Range(1, 4); k > 0; k-- {
					phases = append(phases, rest[r.Intn(len(rest))])
				}
			}
			ms := make([]int, len(phases))
			for k := range ms {
				ms[k] = dur()
			}
			add("heartbeat-lifecycle", kind, HbLifecycle(kind, capacity, interval, phases, ms))
		}
	}
	// 2. small scope, exhaustive over scripts (not over schedules): capacity 1..2, 2..3 goroutines,
	//    1..2 rounds of get/back each, with or without a pause while holding
	for _, kind := range []int{10, 11} {
		for capacity := 1; capacity <= 2; capacity++ {
			for n := 2; n <= 3; n++ {
				for rounds := 1; rounds <= 2; rounds++ {
					for hold := 0; hold <= 2; hold++ {
						var ths []hx.Sx
						for t := 0; t < n; t++ {
							var ops []hx.Sx
							for k := 0; k < rounds; k++ {
								ops = append(ops, op(0))
								switch hold {
								case 1:
									ops = append(ops, op(3, 3))
								case 2:
									ops = append(ops, op(6, 300*(t+1)))
								}
								ops = append(ops, op(1))
							}
							ths = append(ths, hx.L(ops...))
						}
						add("small-scope", kind, mkCase(kind, capacity, 30, nil, ths))
					}
				}
			}
		}
	}
	// 3. random: 2..8 goroutines, capacity 1..4, scripted holds; a goroutine may hold several events
	//    only as far as sum(maxHold-1) < capacity (no self-inflicted deadlock)
	randomCase := func(kind int, gates []int, releaser bool, noSleep bool) hx.Sx {
		capacity := r.Range(1, 4)
		n := r.Range(2, 8)
		spare := capacity - 1
		var ths []hx.Sx
		for t := 0; t < n; t++ {
			maxHold := 1
			if spare > 0 && r.Chance(1, 3) {
				extra := r.Range(1, spare)
				maxHold += extra
				spare -= extra
			}
			var ops []hx.Sx
			holding := 0
			steps := r.Range(2, 14)
			pause := func() {
				switch r.Intn(5) {
				case 0:
					if !noSleep {
						ops = append(ops, op(6, r.Range(1, 900)))
					}
				case 1:
					ops = append(ops, op(3, r.Range(1, 6)))
				case 2:
					if !noSleep && r.Chance(1, 6) {
						ops = append(ops, op(2, r.Range(1, 3)))
					}
				}
			}
			for k := 0; k < steps; k++ {
				if holding < maxHold && (holding == 0 || r.Bool()) {
					ops = append(ops, op(0))
					holding++
				} else {
					ops = append(ops, op(1))
					holding--
				}
				pause()
			}
			for ; holding > 0; holding-- {
				ops = append(ops, op(1))
			}
			ths = append(ths, hx.L(ops...))
		}
		if releaser {
			ths = append(ths, hx.L(op(4, 1), op(2, r.Range(0, 3)), op(5)))
		}
		return mkCase(kind, capacity, 30, gates, ths)
	}
	for i := 0; i < 4000*c.Scale; i++ {
		kind := 10 + i%2
		add("random", kind, randomCase(kind, nil, false, false))
	}
	// 4. random with goroutines parked inside the windows (check -> Wait, Inc -> capacity test,
	//    CAS won -> slot read) and released by an extra goroutine
	for i := 0; i < 1200*c.Scale; i++ {
		kind := 10 + i%2
		var gates []int
		if kind == 10 {
			gates = [][]int{{20}, {22}, {20, 22}}[r.Intn(3)]
		} else {
			gates = [][]int{{21}, {23}, {21, 23}}[r.Intn(3)]
		}
		add("gated", kind, randomCase(kind, gates, true, false))
	}
	// 5. adversarial: maximal contention, no pauses longer than a Gosched
	for i := 0; i < 1000*c.Scale; i++ {
		kind := 10 + i%2
		add("contention", kind, randomCase(kind, nil, false, true))
	}
	// 6. the low-memory pool's size classes (event.go: 33 sync.Pools, poolIndex = bits.Len(size); the other streams use the
	//    sizes 1..8, i.e. classes 1..4): every goroutine asks for its own size, drawn around the class boundaries 2^k - 1, 2^k,
	//    2^k + 1 up to 2^32 - 1 (class 32, the last one).  get() picks the class before the capacity test and back() picks it
	//    again from event.Size: a regression in poolIndex / syncPools (e.g. 32 pools, bits.Len32 of a truncated size, an index
	//    computed from a stale Size) panics with an index out of range or hands an event to the wrong class: 214 / LTS replay
	for i := 0; i < 300*c.Scale; i++ {
		cs := randomCase(10, nil, false, r.Bool())
		used := map[int]bool{}
		add("size-classes", 10, decorate(cs, 0, func(int) int {
			for {
				k := r.Range(0, 32)
				v := (1 << k) + r.Range(-1, 1)
				if k == 32 {
					v = 1<<32 - 1 - r.Intn(3)
				}
				if v >= 1 && v < 1<<32 && !used[v] {
					used[v] = true
					return v
				}
			}
		}, nil))
	}
	// 7. the standard pool's recycle thresholds (event.go resetEvent: Size > avgEventSize -> ReleaseBufMem, cap(Buf) > 4096 ->
	//    new 1 KiB Buf, node pool > 64 -> ReleasePoolMem; the other streams never touch the event and use avg 1024 with sizes
	//    1..8): avg 4 with goroutine sizes 1..8, and after most gets the holder uses the event as the pipeline stages do
	//    (op 9: grows Buf by 100 or 5000 bytes, decodes a 100-field object / a 3000-byte string into Root).  Every event get() returns
	//    is checked (Buf empty, Root decodes and reads back): a regression that resets only on one side of a threshold, or
	//    releases memory the Root still points into, shows as 214 (code 2 / 3 or a panic of the real code)
	for i := 0; i < 300*c.Scale; i++ {
		kind := 11 // three standard-pool cases, one low-memory case (which has no resetEvent: Event.reset only)
		if i%4 == 3 {
			kind = 10
		}
		cs := randomCase(kind, nil, false, r.Bool())
		add("recycle", kind, decorate(cs, []int{2, 4, 6}[r.Intn(3)], nil, func() int {
			if r.Chance(1, 4) {
				return 0
			}
			return r.Range(1, 15)
		}))
	}
	runJobs(c, jobs)
}

// decorate rewrites a case: avg > 0 adds the option (1 avg) to the gate list; size != nil gives goroutine t the id / size
// size(t) (op 8); dirty != nil puts (9 dirty()) behind every get (0 = none).
func decorate(cs hx.Sx, avg int, size func(t int) int, dirty func() int) hx.Sx {
	it := hx.Items(cs)
	gates := append([]hx.Sx(nil), hx.Items(it[3])...)
	if avg > 0 {
		gates = append(gates, op(1, avg))
	}
	var ths []hx.Sx
	for t, sc := range hx.Items(it[4]) {
		var ops []hx.Sx
		if size != nil {
			ops = append(ops, op(8, size(t)))
		}
		for _, o := range hx.Items(sc) {
			ops = append(ops, o)
			if dirty != nil && hx.Int(hx.Items(o)[0]) == 0 {
				if w := dirty(); w != 0 {
					ops = append(ops, op(9, w))
				}
			}
		}
		ths = append(ths, hx.L(ops...))
	}
	return hx.L(it[0], it[1], it[2], hx.L(gates...), hx.L(ths...))
}

// failed: the observation carries a stuck / timeout / panic record
func failed(obs hx.Sx) bool {
	for _, l := range hx.Items(obs) {
		switch hx.Int(hx.Items(l)[0]) {
		case LStuck, LTimeout, LPanic, LHbGone:
			return true
		}
	}
	return false
}

func runJobs(c *hmain.Ctx, jobs []*job) {
	sem := make(chan struct{}, 24)
	var wg sync.WaitGroup
	var bad atomic.Int64
	for _, j := range jobs {
		// fail fast: a wedged pool costs seconds per case; 30 failed cases are evidence enough
		if bad.Load() >= 30 {
			break
		}
		j := j
		wg.Add(1)
		sem <- struct{}{}
		go func() {
			defer wg.Done()
			defer func() { <-sem }()
			j.obs = RunCase(j.cs)
			if failed(j.obs) {
				bad.Add(1)
			}
		}()
	}
	wg.Wait()
	if bad.Load() >= 30 {
		c.W.Notes = append(c.W.Notes, "generation stopped early: 30 cases ended stuck / timed out / panicked")
	}
	for _, j := range jobs {
		if j.obs == nil {
			continue
		}
		n := len(hx.Items(j.obs))
		switch {
		case n < 30:
			c.W.Count("labels<30")
		case n < 100:
			c.W.Count("labels<100")
		case n < 300:
			c.W.Count("labels<300")
		default:
			c.W.Count("labels>=300")
		}
		slept := false
		for _, l := range hx.Items(j.obs) {
			k := hx.Int(hx.Items(l)[0])
			if k == 46 || k == 64 {
				slept = true
			}
		}
		if slept {
			c.W.Count("a goroutine reached Cond.Wait")
		}
		switch j.stream {
		case "size-classes":
			top := 0
			for _, sc := range hx.Items(hx.Items(j.cs)[4]) {
				if o := hx.Items(hx.Items(sc)[0]); hx.Int(o[0]) == 8 {
					top = max(top, bits.Len(uint(hx.Int(o[1]))))
				}
			}
			c.W.Count(fmt.Sprintf("pool: largest size class of the case %d..%d", top/8*8, top/8*8+7))
		case "recycle":
			c.W.Count(fmt.Sprintf("pool: recycle case on pool kind %d", j.which))
		case "heartbeat-lifecycle":
			// which of the four combinations (waiters > 0, eventsAvailable) the heartbeat of this case loaded
			w := int64(-1)
			seen := map[string]bool{}
			for _, l := range hx.Items(j.obs) {
				it := hx.Items(l)
				switch hx.Int(it[0]) {
				case 52, 77:
					w = hx.Int(it[1])
				case 53, 78:
					if w >= 0 {
						seen[fmt.Sprintf("pool: heartbeat ticked with waiters>0=%v eventsAvailable=%v", w > 0, hx.Int(it[1]) != 0)] = true
					}
					w = -1
				}
			}
			for k := range seen {
				c.W.Count(k)
			}
		}
		c.W.Case(j.stream, j.which, j.cs, j.obs, true)
	}
}

// Rule describes the pool cases for the evidence file.
const Rule = "pool cases: (pool kind, capacity, heartbeat interval, gate points, per-goroutine get/back/pause scripts) run on the real pool; observable = the label trace of the pool hooks + harness observations (get returned / back called / stuck / final counters)"
