// Package pooldrv drives the REAL event pools of /repo/pipeline (newEventPool, newLowMemoryEventPool,
// through pipeline/verif_export_pool.go) with 1..8 scripted goroutines and records the label trace of
// the pool hooks (pipeline/verif_pool_on.go) together with the harness' own observations.
// Cases may run concurrently in one process: labels are demultiplexed by pool pointer.
//
//	case  = (kind cap intervalMs gates threads)
//	  kind        10 = low-memory pool, 11 = standard pool        (= the `which` of the case line)
//	  cap         capacity >= 1
//	  intervalMs  wakeupInterval of the pool's heartbeat in milliseconds
//	  gates       (point ...)   gate points at which a goroutine is parked the first time it arrives
//	              (pipeline.VgLmBeforeWait 20, VgStdBeforeWait 21, VgLmAfterInc 22, VgStdAfterCas 23);
//	              a list item (1 avg) is not a gate: it sets the standard pool's avgEventSize (default 1024);
//	              a list item (2 tid) is not a gate either: only the goroutines named by such items are parked (default: all)
//	  threads     ((op ...) ...)   script of goroutine i (thread id i+1, passed to get() as `size`, unless op 8 says otherwise)
//	     op = (0)      get one event (blocks as the real pool blocks)
//	          (1)      back the oldest event this goroutine holds (no-op when it holds none)
//	          (2 ms)   sleep milliseconds
//	          (3 n)    runtime.Gosched n times
//	          (4 k)    wait until k goroutines are parked at a gate (gives up after 1 s)
//	          (5)      release every parked goroutine and stop parking
//	          (6 us)   sleep microseconds
//	          (7)      back the oldest held event a second time as well (double back: a misuse; only for self-tests)
//	          (8 size) only as the FIRST op: this goroutine's id, and the `size` it passes to get(), is `size` (distinct per
//	                   goroutine, 1 <= size < 2^32): the low-memory pool's 33 size classes (poolIndex = bits.Len(size))
//	          (9 what) use the newest held event as the pipeline stages do, so that back() meets resetEvent's thresholds:
//	                   what&1 append 5000 bytes to Buf (cap > 4096), what&2 decode an object of 100 fields into Root (node
//	                   pool > 64), what&4 decode a 3000-byte string into Root, what&8 append 100 bytes to Buf (the "keep the
//	                   buffer" side of the 4096 threshold).  A case with an op 9 or an avg option also
//	                   CHECKS every event get() returns: Buf empty, Root decodes and reads back this goroutine's id
//	                   (the harness main sets insane-json's StartNodePoolSize to the production value 16 so that the node-pool
//	                   threshold 64 has both outcomes: pipedrv.UseProductionNodePool)
//	          (10 k)   wait until the pool counts k waiters (slowWaiters >= k; gives up after 2 s)
//	          (11)     release the goroutines parked now and KEEP parking (op 5 ends it)
//	          (12 k)   announce phase k of the case (a counter shared by the goroutines of the case, never decreases)
//	          (13 k)   wait until phase k was announced (gives up after 3 s)
//
//	observed = ((kind a b c) ...)   kind < 200: the hook labels, in the order the operations took effect;
//	  200 tid eid   get returned (eid: object number in the standard pool, -1 in the low-memory pool)
//	  201 tid eid   back about to be called
//	  202 tid 0     back returned
//	  210 tid ms    STUCK: the goroutine has been inside get() for more than 20 heartbeat periods during
//	                which fewer than `cap` events were held
//	  211 0 0       harness rescue Broadcast (environment step; only after 210 / 215)
//	  212 tid eid   get returned an object that another holder still holds
//	  213 q inUse raw waiters held   end of case; q = 1 when every script finished and nothing is held
//	  214 tid c     c = 0: recovered panic of the real code; c = 2: get() returned an event whose Buf is not empty;
//	                c = 3: the Root of the event get() returned does not decode / read back (only in cases with op 9 / avg)
//	  215 n 0       the case did not finish within its deadline (n goroutines still running)
//	  216 tid ms    LATE WAKE-UP (only for intervalMs >= 200, i.e. the directed "prompt-wakeup" cases): get()
//	                returned more than half a heartbeat period after capacity became free, i.e. the
//	                goroutine was woken by the heartbeat and not by back()'s Broadcast
//	  217 kind 0    HEARTBEAT GONE: at the end of the case the heartbeat was in the middle of an iteration (its last label,
//	                `kind`, is not "iteration finished") and did not finish it within 250 ms although an iteration is a few
//	                atomic loads: the goroutine returned or blocked.  The end-of-case record 213 is written only after the
//	                iteration in progress, if any, has finished (or 217 was recorded)
package pooldrv

import (
	"fmt"
	"runtime"
	"strings"
	"sync"
	"sync/atomic"
	"time"

	"github.com/ozontech/file.d/pipeline"

	"verif/harness/hx"
)

const (
	LGetRet   = 200
	LBackCall = 201
	LBackRet  = 202
	LStuck    = 210
	LRescue   = 211
	LDup      = 212
	LFinal    = 213
	LPanic    = 214
	LTimeout  = 215
	LLateWake = 216
	LHbGone   = 217

	// StuckPeriods: a getter blocked for more than this many heartbeat periods with free capacity is stuck.
	StuckPeriods = 20
)

type label struct {
	kind int
	args []int64
}

type caseLog struct {
	mu       sync.Mutex
	labels   []label
	tickOpen int // kind of the heartbeat's last label when it is in the middle of an iteration, else 0
}

func (l *caseLog) add(kind int, args ...int64) {
	l.mu.Lock()
	l.labels = append(l.labels, label{kind, args})
	switch kind {
	case pipeline.VpLmTickW, pipeline.VpLmTickA, pipeline.VpLmTickFire, pipeline.VpStdTickW, pipeline.VpStdTickA, pipeline.VpStdTickFire:
		l.tickOpen = kind
	case pipeline.VpLmTickEnd, pipeline.VpStdTickEnd:
		l.tickOpen = 0
	}
	l.mu.Unlock()
}

func (l *caseLog) tickInProgress() int {
	l.mu.Lock()
	defer l.mu.Unlock()
	return l.tickOpen
}

type caseState struct {
	log  *caseLog
	gate func(point int, tid int64)
}

var (
	regMu     sync.RWMutex
	registry  = map[any]*caseState{}
	hooksOnce sync.Once
	wideJSON  = func() string {
		var sb strings.Builder
		sb.WriteString(`{"t":0`)
		for i := 0; i < 100; i++ {
			fmt.Fprintf(&sb, `,"k%d":%d`, i, i)
		}
		return sb.String() + "}"
	}()
	bigJSON = `{"t":0,"pad":"` + strings.Repeat("x", 3000) + `"}`
)

func installHooks() {
	hooksOnce.Do(func() {
		pipeline.SetVerifPoolHooks(func(kind int, obj any, a, b, c int64) {
			regMu.RLock()
			r := registry[obj]
			regMu.RUnlock()
			if r != nil {
				r.log.add(kind, a, b, c)
			}
		}, func(point int, obj any, a int64) {
			regMu.RLock()
			r := registry[obj]
			regMu.RUnlock()
			if r != nil && r.gate != nil {
				r.gate(point, a)
			}
		})
	})
}

// RunCase executes one case on the real pool and returns the observed label list.
func RunCase(cs hx.Sx) hx.Sx {
	installHooks()
	it := hx.Items(cs)
	kind := int(hx.Int(it[0]))
	capacity := int(hx.Int(it[1]))
	interval := time.Duration(hx.Int(it[2])) * time.Millisecond
	gatePoints := map[int]bool{}
	avg, recycle := 1024, false
	var parkOnly map[int64]bool
	for _, g := range hx.Items(it[3]) {
		if hx.IsList(g) {
			if o := hx.Items(g); len(o) == 2 && hx.Int(o[0]) == 1 && hx.Int(o[1]) > 0 {
				avg, recycle = int(hx.Int(o[1])), true
			} else if len(o) == 2 && hx.Int(o[0]) == 2 {
				if parkOnly == nil {
					parkOnly = map[int64]bool{}
				}
				parkOnly[hx.Int(o[1])] = true
			}
			continue
		}
		gatePoints[int(hx.Int(g))] = true
	}
	scripts := hx.Items(it[4])
	if capacity < 1 || interval <= 0 || (kind != 10 && kind != 11) || len(scripts) > 64 {
		return hx.L(hx.L(hx.I(LPanic), hx.I(0), hx.I(-1)))
	}
	// goroutine ids (= sizes): position + 1, or what op 8 says
	tids := make([]int64, len(scripts))
	index := map[int64]int{}
	for i, sc := range scripts {
		tids[i] = int64(i + 1)
		if ops := hx.Items(sc); len(ops) > 0 {
			if o := hx.Items(ops[0]); hx.Int(o[0]) == 8 {
				tids[i] = hx.Int(o[1])
			}
		}
		for _, op := range hx.Items(sc) {
			if hx.Int(hx.Items(op)[0]) == 9 {
				recycle = true
			}
		}
		if _, dup := index[tids[i]]; dup || tids[i] < 1 || tids[i] >= 1<<32 {
			return hx.L(hx.L(hx.I(LPanic), hx.I(0), hx.I(-1)))
		}
		index[tids[i]] = i
	}

	var pool pipeline.VerifPool
	if kind == 10 {
		pool = pipeline.VerifNewLowMemoryEventPool(capacity, interval)
	} else {
		pool = pipeline.VerifNewEventPool(capacity, avg, interval)
	}
	log := &caseLog{}
	st := &caseState{log: log}

	// harness-side accounting
	var hm sync.Mutex
	held := 0                              // events between "get returned" and "back returned"
	heldSet := map[*pipeline.Event]int64{} // between "get returned" and "back called"
	freeSince := time.Now()                // since when held < capacity (valid while held < capacity)
	type thr struct {
		inGet    bool
		since    time.Time
		parked   bool
		reported bool
		done     bool
	}
	threads := make([]*thr, len(scripts))
	for i := range threads {
		threads[i] = &thr{}
	}

	// gates
	var gm sync.Mutex
	parked := 0
	parking := len(gatePoints) > 0
	release := make(chan struct{})
	wasParked := map[int64]bool{}
	st.gate = func(point int, tid int64) {
		gm.Lock()
		if !parking || !gatePoints[point] || wasParked[tid] || (parkOnly != nil && !parkOnly[tid]) {
			gm.Unlock()
			return
		}
		wasParked[tid] = true
		parked++
		ch := release
		gm.Unlock()
		idx, known := index[tid]
		if !known {
			idx = -1
		}
		if idx >= 0 && idx < len(threads) {
			hm.Lock()
			threads[idx].parked = true
			hm.Unlock()
		}
		select {
		case <-ch:
		case <-time.After(1500 * time.Millisecond):
		}
		if idx >= 0 && idx < len(threads) {
			hm.Lock()
			threads[idx].parked = false
			threads[idx].since = time.Now()
			freeSince = time.Now() // a parked goroutine may hold the pool's mutex or a slot: the clock restarts
			hm.Unlock()
		}
	}
	releaseAll := func() {
		gm.Lock()
		if parking {
			parking = false
			close(release)
		}
		gm.Unlock()
	}
	releaseParked := func() {
		gm.Lock()
		if parking {
			close(release)
			release = make(chan struct{})
		}
		gm.Unlock()
	}
	var phase atomic.Int64

	regMu.Lock()
	registry[pool.Obj()] = st
	regMu.Unlock()
	defer func() {
		regMu.Lock()
		delete(registry, pool.Obj())
		regMu.Unlock()
	}()

	var wg sync.WaitGroup
	for i, sc := range scripts {
		tid := tids[i]
		ops := hx.Items(sc)
		t := threads[i]
		wg.Add(1)
		go func() {
			defer wg.Done()
			defer func() {
				if r := recover(); r != nil {
					log.add(LPanic, tid, 0)
				}
				hm.Lock()
				t.done = true
				t.inGet = false
				hm.Unlock()
			}()
			var mine []*pipeline.Event
			doBack := func(e *pipeline.Event, id int64) {
				hm.Lock()
				delete(heldSet, e)
				hm.Unlock()
				log.add(LBackCall, tid, id)
				pool.Back(e)
				hm.Lock()
				if held == capacity {
					freeSince = time.Now()
				}
				held--
				hm.Unlock()
				log.add(LBackRet, tid, 0)
			}
			for _, op := range ops {
				o := hx.Items(op)
				switch hx.Int(o[0]) {
				case 0:
					hm.Lock()
					t.inGet, t.since = true, time.Now()
					hm.Unlock()
					e := pool.Get(int(tid))
					id := int64(-1)
					if kind == 11 && e != nil {
						id = int64(e.SeqID)
					}
					hm.Lock()
					t.inGet = false
					if interval >= 200*time.Millisecond && !t.reported {
						from := t.since
						if freeSince.After(from) {
							from = freeSince
						}
						if d := time.Since(from); held < capacity && d > interval/2 {
							log.add(LLateWake, tid, d.Milliseconds())
						}
					}
					held++
					_, dup := heldSet[e]
					heldSet[e] = tid
					hm.Unlock()
					log.add(LGetRet, tid, id)
					if dup {
						log.add(LDup, tid, id)
					}
					if recycle && e != nil {
						// the event must be as good as new whatever its previous holder did to it
						if len(e.Buf) != 0 {
							log.add(LPanic, tid, 2)
						}
						if err := e.Root.DecodeString(fmt.Sprintf(`{"t":%d}`, tid)); err != nil || e.Root.Dig("t") == nil || int64(e.Root.Dig("t").AsInt()) != tid || len(e.Root.AsFields()) != 1 {
							log.add(LPanic, tid, 3)
						}
					}
					mine = append(mine, e)
				case 1, 7:
					if len(mine) == 0 {
						continue
					}
					e := mine[0]
					mine = mine[1:]
					id := int64(-1)
					if kind == 11 {
						id = int64(e.SeqID)
					}
					doBack(e, id)
					if hx.Int(o[0]) == 7 {
						hm.Lock()
						held++
						hm.Unlock()
						doBack(e, id)
					}
				case 2:
					time.Sleep(time.Duration(hx.Int(o[1])) * time.Millisecond)
				case 3:
					for k := int64(0); k < hx.Int(o[1]); k++ {
						runtime.Gosched()
					}
				case 4:
					deadline := time.Now().Add(time.Second)
					for time.Now().Before(deadline) {
						gm.Lock()
						n := parked
						gm.Unlock()
						if int64(n) >= hx.Int(o[1]) {
							break
						}
						time.Sleep(200 * time.Microsecond)
					}
				case 5:
					releaseAll()
				case 6:
					time.Sleep(time.Duration(hx.Int(o[1])) * time.Microsecond)
				case 10:
					for deadline := time.Now().Add(2 * time.Second); pool.Waiters() < hx.Int(o[1]) && time.Now().Before(deadline); {
						time.Sleep(100 * time.Microsecond)
					}
				case 11:
					releaseParked()
				case 12:
					for {
						cur := phase.Load()
						if cur >= hx.Int(o[1]) || phase.CompareAndSwap(cur, hx.Int(o[1])) {
							break
						}
					}
				case 13:
					for deadline := time.Now().Add(3 * time.Second); phase.Load() < hx.Int(o[1]) && time.Now().Before(deadline); {
						time.Sleep(100 * time.Microsecond)
					}
				case 9:
					if len(mine) == 0 {
						continue
					}
					e, what := mine[len(mine)-1], hx.Int(o[1])
					if what&1 != 0 {
						e.Buf = append(e.Buf, make([]byte, 5000)...)
					}
					if what&2 != 0 {
						_ = e.Root.DecodeString(wideJSON)
					}
					if what&4 != 0 {
						_ = e.Root.DecodeString(bigJSON)
					}
					if what&8 != 0 {
						e.Buf = append(e.Buf, make([]byte, 100)...)
					}
				}
			}
		}()
	}
	done := make(chan struct{})
	go func() { wg.Wait(); close(done) }()

	// monitor: stuck waiters, overall deadline
	limit := time.Duration(StuckPeriods) * interval
	deadline := time.Now().Add(2500*time.Millisecond + 2*limit)
	tick := time.NewTicker(interval / 3)
	defer tick.Stop()
	rescuing := false
	finished := false
	for !finished {
		select {
		case <-done:
			finished = true
		case now := <-tick.C:
			hm.Lock()
			anyParked := false
			for _, t := range threads {
				anyParked = anyParked || t.parked
			}
			if held < capacity && !anyParked {
				for i, t := range threads {
					if t.inGet && !t.parked && !t.reported {
						from := t.since
						if freeSince.After(from) {
							from = freeSince
						}
						if now.Sub(from) > limit {
							t.reported = true
							log.add(LStuck, tids[i], now.Sub(from).Milliseconds())
							rescuing = true
						}
					}
				}
			}
			hm.Unlock()
			if rescuing {
				log.add(LRescue, 0, 0)
				pool.Broadcast()
			}
			if now.After(deadline) {
				hm.Lock()
				n := 0
				for _, t := range threads {
					if !t.done {
						n++
					}
				}
				hm.Unlock()
				log.add(LTimeout, int64(n), 0)
				releaseAll()
				for k := 0; k < 50; k++ {
					log.add(LRescue, 0, 0)
					pool.Broadcast()
					select {
					case <-done:
						k = 50
					case <-time.After(10 * time.Millisecond):
					}
				}
				finished = true
			}
		}
	}
	releaseAll()
	hm.Lock()
	allDone := true
	for _, t := range threads {
		if !t.done {
			allDone = false
		}
	}
	h := held
	hm.Unlock()
	q := int64(0)
	if allDone && h == 0 {
		q = 1
	}
	// a heartbeat iteration is a few atomic loads: the one in progress, if any, finishes at once - unless the goroutine is gone
	for deadline := time.Now().Add(250 * time.Millisecond); log.tickInProgress() != 0; {
		if time.Now().After(deadline) {
			log.add(LHbGone, int64(log.tickInProgress()), 0)
			break
		}
		time.Sleep(50 * time.Microsecond)
	}
	log.add(LFinal, q, pool.InUse(), pool.RawInUse(), pool.Waiters(), int64(h))
	pool.Stop()

	log.mu.Lock()
	defer log.mu.Unlock()
	out := make([]hx.Sx, 0, len(log.labels))
	for _, l := range log.labels {
		items := []hx.Sx{hx.I(l.kind)}
		for _, a := range l.args {
			items = append(items, hx.Z(a))
		}
		out = append(out, hx.L(items...))
	}
	return hx.L(out...)
}
