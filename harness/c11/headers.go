package main

// which = 12 / 13: the request HEADERS and the META configuration as part of the case, in streams that judge BODY delivery
// (lines handed over = lines of the body, 200 only after all of them).  Everything ServeHTTP does in front of serveBulk
// sees the whole *http.Request: auth reads headers, newMetaInformation / GetData / the templates get the request itself.
// None of it may touch r.Body - whatever Content-Type (application/x-www-form-urlencoded and multipart/form-data are the
// ones for which net/http's ParseForm / FormValue / ParseMultipartForm / MultipartReader READ THE BODY), framing headers,
// query, or template set is configured.  Model: route_h in coq/Model/Http.v (headers, extra query, framing flag and the
// templates are arguments that reach only the meta handed over with the events, never the events or the status).
//
//	which = 12   the real ServeHTTP:     case = (cfg tmpls (hrequest ...))
//	             cfg      = the cfg of which = 9 (routed.go); its meta flag = 1 iff tmpls is not empty
//	             tmpls    = ((#name #template) ...)                 config.Meta, text/template sources
//	             hrequest = (request ((#hname #hvalue) ...) #xq fl)
//	                        request = the request of which = 9; the headers are ADDED to it in order; #xq = raw text
//	                        appended to the query; fl = 1: r.ContentLength / Content-Length = length of the body as sent,
//	                        2: r.ContentLength = -1 and TransferEncoding = [chunked], 0: as httptest.NewRequest leaves it
//	             obs      = (((event ...) status class #allow-origin nmeta) ...)
//	                        nmeta = number of meta keys handed over with the events of the request (0 = no event, -1 = the
//	                        In calls of one request disagree)
//	which = 13   the plugin's own listener: case = ((tls framing) tmpls (wrequest ...))
//	             wrequest = (gz piece (#write ...) ((#hname #hvalue) ...) #target odd)
//	                        gz / piece / writes as for which = 10; the header lines are sent as they are; odd = a framing
//	                        oddity that the net/http server accepts (c11Odd*)
//	             obs      = (((event ...) status nmeta) ...)
//
// Header names that the route model interprets or that the harness' framing sets itself are not part of a header set
// (the glue rejects them): Origin, Authorization, the auth header, the client-address headers, Content-Encoding, Host,
// Connection, Content-Length, Transfer-Encoding, Expect, Trailer.
//
// Templates never call a method of .request that reads the body by contract (FormValue, PostFormValue, ParseForm,
// ParseMultipartForm, MultipartReader, .Body.Read): that would be the configuration asking for the body to be consumed.
//
// Self-test (scratch worktree of /repo with the change + this harness + the extracted model; /repo untouched; quick tier,
// seed 1; none of the older streams reports any of them):
//
//	newMetaInformation takes params from r.ParseForm()/r.Form (seed C11-r5)   -> Violates: hdr-small 28/29, hdr-exhaustive 37/37,
//	                                                 hdr-random 32/120, wire-hdr-small 14/88, wire-hdr-random 18/40 (200, no event)
//	getUserIP falls back to r.FormValue("client_ip")                          -> Violates in all five streams (121 cases)
//	serveBulk calls r.ParseMultipartForm for multipart/form-data              -> Violates in all five streams (97 cases)
//	serveBulk answers 417 to a request with an Expect header                   -> Violates: wire-hdr-small 10, wire-hdr-random 3
//	authBearer falls back to r.FormValue("access_token") when the header is absent -> silent: the body is only consumed for
//	                                                 requests that are rejected anyway (no stream puts a secret into the query)

import (
	"fmt"
	"sort"
	"strings"
	"sync"

	"github.com/ozontech/file.d/cfg"

	"verif/harness/hmain"
	"verif/harness/hx"
)

const (
	c11OddNone     = 0
	c11OddExpect   = 1 // Expect: 100-continue, the client waits for the interim answer before it sends the body
	c11OddChunkExt = 2 // chunk extensions on every chunk-size line                      (chunked framing)
	c11OddTrailer  = 3 // a declared trailer after the last chunk                        (chunked framing)
	c11OddTECase   = 4 // "Transfer-Encoding: Chunked"                                   (chunked framing)
	c11OddTEAndCL  = 5 // Transfer-Encoding: chunked AND a (wrong) Content-Length: T-E wins (chunked framing)
	c11OddHTTP10   = 6 // an HTTP/1.0 request                                            (Content-Length framing)
	c11OddMax      = 6
)

// every documented template variable (login, remote_addr, request, params, request_uuid - README "Meta params"), fields
// and body-free methods of the request, the documented example, the `default` function, a template over other templates
var c11Tmpls = [][2]string{
	{"t_login", "{{ .login }}"},
	{"t_ip", "{{ .remote_addr }}"},
	{"t_uuid", "{{ .request_uuid }}"},
	{"t_params", "{{ .params }}"},
	{"t_q", `{{ index .params "q" }}`},
	{"t_pget", `{{ .params.Get "a" }}`},
	{"t_penc", `p={{ .params.Encode }}`},
	{"t_method", "{{ .request.Method }}"},
	{"t_path", "{{ .request.URL.Path }}"},
	{"t_rawq", "{{ .request.URL.RawQuery }}"},
	{"t_uq", `{{ .request.URL.Query.Get "q" }}`},
	{"t_host", "{{ .request.Host }}"},
	{"t_cl", "{{ .request.ContentLength }}"},
	{"t_te", "{{ .request.TransferEncoding }}"},
	{"t_proto", "{{ .request.Proto }}"},
	{"t_raddr", "{{ .request.RemoteAddr }}"},
	{"t_ruri", "{{ .request.RequestURI }}"},
	{"t_ua", `{{ index (index .request.Header "User-Agent") 0 }}`},
	{"t_ct", `{{ .request.Header.Get "Content-Type" }}`},
	{"t_hdrs", `{{ range $k, $v := .request.Header }}{{ $k }}={{ $v }};{{ end }}`},
	{"t_uagent", "{{ .request.UserAgent }}"},
	{"t_referer", "{{ .request.Referer }}"},
	{"t_cookies", `{{ range .request.Cookies }}{{ .Name }};{{ end }}`},
	{"t_form", "{{ .request.Form }}|{{ .request.PostForm }}"},
	{"t_default", `{{ default "anonymous" .login }}`},
	{"t_chain", "{{ .t_login }}@{{ .t_ip }}"},
	{"t_const", "constant"},
}

var c11CTs = []string{
	"",
	"application/json",
	"application/x-ndjson",
	"application/x-www-form-urlencoded",
	"application/x-www-form-urlencoded; charset=UTF-8",
	"APPLICATION/X-WWW-FORM-URLENCODED",
	"multipart/form-data; boundary=verifB",
	"multipart/form-data",
	"multipart/mixed; boundary=verifB",
	"text/plain",
	"text/plain; charset=utf-8",
	"application/octet-stream",
	"garbage;;;=",
	"application/x-www-form-urlencoded, text/plain",
}

var c11OtherHdrs = [][2]string{
	{"User-Agent", "curl/8.5.0"},
	{"Accept", "*/*"},
	{"Accept-Encoding", "gzip, deflate"},
	{"X-Request-Id", "7f3a-19"},
	{"Cookie", "sid=abc; theme=dark"},
	{"Referer", "http://example.com/page?x=1"},
	{"Content-Language", "en"},
	{"Content-Disposition", `form-data; name="f"`},
	{"X-Http-Method-Override", "PUT"},
	{"Content-Type", "application/x-www-form-urlencoded"}, // a second Content-Type line
	{"content-type", "application/json"},
	{"X-Empty", ""},
}

var c11FormBodies = []string{
	"a=1&b=2\nc=3&q=x",
	"a=1&b=2",
	`{"a":"1"}` + "\n" + `{"a":"2"}` + "\n" + `{"a":"3"}`,
	"--verifB\r\nContent-Disposition: form-data; name=\"f\"\r\n\r\nvalue\r\n--verifB--\r\n",
	"%zz=%\n&&==\n",
	"\n",
}

var c11XQs = []string{"", "a=1", "a=1&a=2&b=%20x", "env=prod&q=shadow", "%zz", "a=1&b", "flag"}

func c11TmplSx(tm [][2]string) hx.Sx {
	var out []hx.Sx
	for _, t := range tm {
		out = append(out, hx.L(hx.S(t[0]), hx.S(t[1])))
	}
	return hx.L(out...)
}

func c11TmplOf(s hx.Sx) cfg.MetaTemplates {
	tm := cfg.MetaTemplates{}
	for _, t := range hx.Items(s) {
		it := hx.Items(t)
		tm[hx.Str(it[0])] = hx.Str(it[1])
	}
	return tm
}

func c11HdrSx(hs [][2]string) hx.Sx {
	var out []hx.Sx
	for _, h := range hs {
		out = append(out, hx.L(hx.S(h[0]), hx.S(h[1])))
	}
	return hx.L(out...)
}

func c11NMeta(nm []int) int {
	if len(nm) == 0 {
		return 0
	}
	for _, k := range nm[1:] {
		if k != nm[0] {
			return -1
		}
	}
	return nm[0]
}

// ---- which = 12 -----------------------------------------------------------------------------------------------------

func c11ExecHRouted(cs hx.Sx) hx.Sx {
	top := hx.Items(cs)
	p, ctl := c11RoutePlugin(top[0], c11TmplOf(top[1]))
	var out []hx.Sx
	for _, hr := range hx.Items(top[2]) {
		it := hx.Items(hr)
		req := c11RouteBuild(it[0])
		for _, h := range hx.Items(it[1]) {
			hv := hx.Items(h)
			req.Header.Add(hx.Str(hv[0]), hx.Str(hv[1]))
		}
		if xq := hx.Str(it[2]); xq != "" {
			if req.URL.RawQuery != "" {
				req.URL.RawQuery += "&" + xq
			} else {
				req.URL.RawQuery = xq
			}
			req.RequestURI = req.URL.RequestURI()
		}
		switch hx.Int(it[3]) {
		case 1:
			n := 0
			for _, rd := range c11Reads(hx.Items(it[0])[8]) {
				n += len(rd.b)
			}
			req.ContentLength = int64(n)
			req.Header.Set("Content-Length", fmt.Sprint(n))
		case 2:
			req.ContentLength = -1
			req.TransferEncoding = []string{"chunked"}
		}
		evs, code, class, ao, _, nm := c11RouteServe(p, ctl, req)
		out = append(out, hx.L(hx.Bs(evs), hx.I(code), hx.I(class), hx.S(ao), hx.I(c11NMeta(nm))))
	}
	return hx.L(out...)
}

// ---- which = 13 -----------------------------------------------------------------------------------------------------

var c11HdrSrvs = map[string]*c11Srv{} // under c11SrvMu

func c11ExecHWire(cs hx.Sx) hx.Sx {
	top := hx.Items(cs)
	cf := hx.Items(top[0])
	tlsOn, framing := hx.Int(cf[0]) == 1, int(hx.Int(cf[1]))
	tm := c11TmplOf(top[1])
	reqs := hx.Items(top[2])
	c11SrvMu.Lock() // one case at a time
	defer c11SrvMu.Unlock()
	names := make([]string, 0, len(tm))
	for k, v := range tm {
		names = append(names, k+"\x00"+v)
	}
	sort.Strings(names)
	key := fmt.Sprint(tlsOn, "\x01", strings.Join(names, "\x01"))
	s := c11HdrSrvs[key]
	if s == nil {
		s = c11Listen(tlsOn, c11NewWireCtl(-1), tm)
		c11HdrSrvs[key] = s
	}
	s.ctl.mu.Lock()
	s.ctl.log, s.ctl.nmeta = nil, nil
	s.ctl.mu.Unlock()
	n := len(reqs)
	codes := make([]int, n)
	var wg sync.WaitGroup
	for i, rq := range reqs {
		it := hx.Items(rq)
		gz := hx.Int(it[0]) == 1
		pieces := c11WirePieces(gz, int(hx.Int(it[1])), hx.Items(it[2]))
		opt := c11WireOpt{target: hx.Str(it[4]), odd: int(hx.Int(it[5]))}
		for _, h := range hx.Items(it[3]) {
			hv := hx.Items(h)
			opt.headers = append(opt.headers, [2]string{hx.Str(hv[0]), hx.Str(hv[1])})
		}
		wg.Add(1)
		go func(i int) {
			defer wg.Done()
			codes[i] = c11WireDoX(s.addr, tlsOn, gz, framing, pieces, false, opt)
		}(i)
	}
	wg.Wait()
	s.ctl.mu.Lock()
	defer s.ctl.mu.Unlock()
	perReq := make([][][]byte, n)
	perNM := make([][]int, n)
	for j, e := range s.ctl.log {
		switch owner := c11WireOwner(e, n); {
		case owner >= 0:
			perReq[owner] = append(perReq[owner], e)
			perNM[owner] = append(perNM[owner], s.ctl.nmeta[j])
		case owner == -2:
			perReq[0] = append(perReq[0], []byte("MIXED-BYTES"))
		case owner == -3:
			perReq[0] = append(perReq[0], []byte("STALE-BYTES"))
		default:
			perReq[0] = append(perReq[0], []byte("UNATTRIBUTED"))
		}
	}
	out := make([]hx.Sx, n)
	for i := range out {
		out[i] = hx.L(hx.Bs(perReq[i]), hx.I(codes[i]), hx.I(c11NMeta(perNM[i])))
	}
	return hx.L(out...)
}

// ---- generators -----------------------------------------------------------------------------------------------------

func c11GenHeaders(c *hmain.Ctx) {
	r := c.R
	plain := c11RCfg{hdr: "Authorization"}
	withMeta := func(cf c11RCfg, tm [][2]string) c11RCfg {
		cf.meta = 0
		if len(tm) > 0 {
			cf.meta = 1
		}
		return cf
	}
	hreq := func(rq c11RReq, hs [][2]string, xq string, fl int) hx.Sx {
		return hx.L(rq.sx(), c11HdrSx(hs), hx.S(xq), hx.I(fl))
	}
	hcase := func(cf c11RCfg, tm [][2]string, reqs []hx.Sx) hx.Sx {
		return hx.L(withMeta(cf, tm).sx(), c11TmplSx(tm), hx.L(reqs...))
	}
	post := func(reads []hx.Sx, gz int, q string) c11RReq {
		return c11RReq{method: 0, path: "/", hsel: "Authorization", cred: hx.I(0),
			ips: [4][2]string{c11NoIP, c11NoIP, c11NoIP, {"10.9.8.7:4567", "1"}}, q: q, gz: gz, reads: reads}
	}
	split := func(b []byte) []hx.Sx {
		var reads []hx.Sx
		for len(b) > 0 {
			k := len(b)
			if r.Chance(1, 2) {
				k = 1 + r.Intn(len(b))
			}
			reads = append(reads, hx.B(b[:k]))
			b = b[k:]
		}
		return reads
	}
	ctHdr := func(ct string) [][2]string {
		if ct == "" {
			return nil
		}
		return [][2]string{{"Content-Type", ct}}
	}
	// the template sets: none, every template alone, all of them
	tsets := [][][2]string{nil}
	for _, t := range c11Tmpls {
		tsets = append(tsets, [][2]string{t})
	}
	tsets = append(tsets, c11Tmpls)

	// ---- hdr-small: every template set x every Content-Type x form / json / multipart / malformed bodies ----------------
	for _, tm := range tsets {
		var reqs []hx.Sx
		k := 0
		for _, ct := range c11CTs {
			for _, b := range c11FormBodies {
				gz := 0
				if k%7 == 6 {
					gz = 1
				}
				reqs = append(reqs, hreq(post(split([]byte(b)), gz, []string{"", "v", "a b"}[k%3]), ctHdr(ct), c11XQs[k%len(c11XQs)], k%3))
				k++
			}
		}
		c.Do("hdr-small", 12, hcase(plain, tm, reqs), true)
	}
	c.W.Count(fmt.Sprintf("hdr_template_sets_%d_content_types_%d", len(tsets), len(c11CTs)))

	// ---- hdr-exhaustive: all templates, a form Content-Type: every body over {a,&,\n,\r} up to length 4|5 x every chunking
	maxLen := 4
	if c.Tier == "thorough" {
		maxLen = 5
	}
	var batch []hx.Sx
	flush := func() {
		if len(batch) > 0 {
			c.Do("hdr-exhaustive", 12, hcase(plain, c11Tmpls, batch), true)
			batch = nil
		}
	}
	nb := 0
	var rec func(body []byte)
	rec = func(body []byte) {
		c11Chunkings(body, func(reads []hx.Sx, k int) {
			nb++
			ct := "application/x-www-form-urlencoded"
			if nb%5 == 0 {
				ct = "multipart/form-data; boundary=verifB"
			}
			batch = append(batch, hreq(post(reads, 0, "v"), ctHdr(ct), c11XQs[nb%len(c11XQs)], nb%3))
			if len(batch) >= 64 {
				flush()
			}
		})
		if len(body) < maxLen {
			for _, a := range []byte{'a', '&', '\n', '\r'} {
				rec(append(body[:len(body):len(body)], a))
			}
		}
	}
	rec(nil)
	flush()

	// ---- hdr-random: random routed configurations and histories, random template subsets and header sets -----------------
	randHdrs := func() [][2]string {
		var hs [][2]string
		if r.Chance(3, 4) {
			ct := hx.Pick(r, c11CTs)
			if r.Chance(1, 2) {
				ct = hx.Pick(r, c11CTs[3:8]) // the content types whose bodies net/http knows how to parse
			}
			hs = append(hs, ctHdr(ct)...)
		}
		for k := r.Intn(4); k > 0; k-- {
			hs = append(hs, hx.Pick(r, c11OtherHdrs))
		}
		r2 := r.Intn(len(hs) + 1)
		hs = append(hs[r2:len(hs):len(hs)], hs[:r2]...)
		return hs
	}
	randTmpls := func() [][2]string {
		if r.Chance(1, 4) {
			return nil
		}
		var tm [][2]string
		seen := map[string]bool{}
		for k := r.Range(1, 6); k > 0; k-- {
			t := hx.Pick(r, c11Tmpls)
			if !seen[t[0]] {
				seen[t[0]] = true
				tm = append(tm, t)
			}
		}
		return tm
	}
	for i := 0; i < 120*c.Scale; i++ {
		cf, rqs, ingest := c11RandRoute(r)
		tm := randTmpls()
		var reqs []hx.Sx
		for _, rq := range rqs {
			if r.Chance(1, 3) {
				rq.gz, rq.reads = c11RSplit(r, []byte(hx.Pick(r, c11FormBodies)))
			}
			reqs = append(reqs, hreq(rq, randHdrs(), hx.Pick(r, c11XQs), r.Intn(3)))
		}
		c.W.Count(fmt.Sprintf("hdr_random_templates_%d", len(tm)))
		c.Do("hdr-random", 12, hcase(cf, tm, reqs), ingest)
	}

	// ---- wire-hdr-small: the plugin's own listener: no template / all templates x both framings x every Content-Type,
	//      every framing oddity ---------------------------------------------------------------------------------------------
	wreq := func(gz, piece int, ws []hx.Sx, hs [][2]string, target string, odd int) hx.Sx {
		return hx.L(hx.I(gz), hx.I(piece), hx.L(ws...), c11HdrSx(hs), hx.S(target), hx.I(odd))
	}
	wcase := func(tlsOn, framing int, tm [][2]string, reqs ...hx.Sx) hx.Sx {
		return hx.L(hx.L(hx.I(tlsOn), hx.I(framing)), c11TmplSx(tm), hx.L(reqs...))
	}
	targets := []string{"/", "/?q=v", "/logger?env=prod", "/?a=1&a=2&b=%20x", "/?%zz", "/x/y?flag"}
	for _, tm := range [][][2]string{nil, c11Tmpls} {
		k := 0
		for framing := 0; framing <= 1; framing++ {
			for _, ct := range c11CTs {
				b := c11FormBodies[k%len(c11FormBodies)]
				c.Do("wire-hdr-small", 13, wcase(0, framing, tm, wreq(0, 0, split([]byte(b)), ctHdr(ct), targets[k%len(targets)], 0)), true)
				k++
			}
			for odd := 1; odd <= c11OddMax; odd++ {
				if framing == 0 && odd == c11OddHTTP10 || framing == 1 && odd != c11OddExpect && odd != c11OddHTTP10 {
					continue
				}
				for _, ct := range []string{"application/x-www-form-urlencoded", "application/json"} {
					c.Do("wire-hdr-small", 13, wcase(0, framing, tm, wreq(0, 0, split([]byte(c11FormBodies[0])), ctHdr(ct), "/?q=v", odd)), true)
				}
			}
		}
		// through ListenAndServeTLS
		c.Do("wire-hdr-small", 13, wcase(1, 0, tm, wreq(0, 0, split([]byte(c11FormBodies[0])), ctHdr(c11CTs[3]), "/?q=v", 0)), true)
		c.Do("wire-hdr-small", 13, wcase(1, 1, tm, wreq(1, 9, split([]byte(c11FormBodies[2])), ctHdr(c11CTs[6]), "/", c11OddExpect)), true)
	}

	// ---- wire-hdr-random: 1-3 connections at once, random headers / targets / oddities, a handful of template sets ----------
	wsets := [][][2]string{nil, c11Tmpls, c11Tmpls[3:7], {c11Tmpls[0], c11Tmpls[17], c11Tmpls[25]}, c11Tmpls[18:24], {c11Tmpls[2]}}
	for i := 0; i < 40*c.Scale; i++ {
		n := r.Range(1, 3)
		var reqs []hx.Sx
		for q := 0; q < n; q++ {
			var b []byte
			if n == 1 && r.Chance(1, 2) {
				b = []byte(hx.Pick(r, c11FormBodies))
			} else {
				// request q only uses the letter 'A'+q (attribution), every line holds one; shaped like a form
				for l := r.Intn(6); l > 0; l-- {
					for k := r.Range(1, 4); k > 0; k-- {
						b = append(b, 'A'+byte(q))
						if r.Chance(1, 3) {
							b = append(b, "=&%+;"[r.Intn(5)], 'A'+byte(q))
						}
					}
					if l > 1 || r.Chance(2, 3) {
						b = append(b, '\n')
					}
				}
			}
			gz := r.Intn(2) * r.Intn(2)
			odd := 0
			if r.Chance(1, 3) {
				odd = r.Range(1, c11OddMax)
			}
			reqs = append(reqs, wreq(gz, hx.Pick(r, []int{3, 64, 0}), split(b), randHdrs(), hx.Pick(r, targets), odd))
		}
		tlsOn := 0
		if r.Chance(1, 6) {
			tlsOn = 1
		}
		c.Do("wire-hdr-random", 13, wcase(tlsOn, r.Intn(2), hx.Pick(r, wsets), reqs...), true)
	}
}
