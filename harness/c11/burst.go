package main

// which = 14: BURSTS of requests on a FRESH plugin (empty free list of source ids).
//
//	case  = (rounds (phase ...))      phase = (request ...)      request = (#read ...)   (bytes only, at least one event)
//
// A round = a fresh plugin instance on which the phases run one after the other.  The n requests of a phase are built
// beforehand, spin on one flag and enter ServeHTTP at the same instant; the body of each blocks in its FIRST Read until
// all n requests of the phase are inside processBulk (= each of them holds its source id: n requests are LIVE at once);
// then the bodies are delivered as scripted and the phase ends when all are answered (their ids are back in the free
// list).  So the first phase allocates n FRESH ids at the same moment, a later phase of m requests pops min(m, high-water)
// recycled ids and allocates the rest fresh ("drained" / "mixed").  The case is repeated `rounds` times, each with a new
// instance (the window in which two allocations can overlap is a few instructions wide).
//
//	obs   = (round ...)    the DISTINCT round observations, in order of first appearance (one when the code is right)
//	round = (phaseobs ...)
//	phaseobs = ((status ...) (id ...) ((event ...) ...))
//	           status per request (request order); the source ids controller.In was called with, ascending; per source
//	           id the data of its In calls in arrival order - the groups ordered by their content, not by request: no
//	           event is attributed to a request by what it contains
//
// judged by the model (Model/Http.v burst_phase_ok): all answered 200, the ids are pairwise different, as many as there
// are requests, all below the high-water mark of simultaneously live requests of the instance, and the groups are, up
// to their order, exactly the newline splits of the bodies.
//
// Self-test (scratch worktree + copy of this harness, /repo untouched): seed C11-r6-source-id-alloc-unlocked (fresh id
// allocated after p.mu.Unlock()) -> Violates on 14 / 16 / 19 of the 34 burst cases (quick, seeds 1 / 2 / 3; n >= 3 is
// hit within a few hundred rounds, n = 2 rarely); smallest replay in corpus/C11/burst.case: a round of 3 requests with
// ids (0 1) and the lines of two bodies under one id.

import (
	"bytes"
	"fmt"
	"net/http"
	"net/http/httptest"
	"runtime"
	"sort"
	"sync"
	"sync/atomic"
	"time"

	"github.com/ozontech/file.d/pipeline"

	"verif/harness/hmain"
	"verif/harness/hx"
)

var c11BurstTimeouts int

const c11BurstMaxDistinct = 4

func c11BurstPhase(p http.Handler, ctl *c11Ctl, reqs []hx.Sx) hx.Sx {
	n := len(reqs)
	ctl.mu.Lock()
	ctl.events = map[pipeline.SourceID][][]byte{}
	ctl.log = nil
	ctl.mu.Unlock()

	var inFlight atomic.Int64
	allIn := make(chan struct{})
	var ready atomic.Int64
	var goFlag atomic.Bool
	codes := make([]int, n)
	var done sync.WaitGroup
	for i, rq := range reqs {
		body := &c11Body{reads: c11Reads(rq)}
		first := true
		body.gate = func() {
			if !first {
				return
			}
			first = false
			if inFlight.Add(1) == int64(n) {
				close(allIn)
			}
			select {
			case <-allIn:
			case <-time.After(10 * time.Second):
				c11BurstTimeouts++ // a request of the phase never reached its body: report what happened, never hang
			}
		}
		req := httptest.NewRequest(http.MethodPost, "/", nil)
		req.Body = body
		rec := httptest.NewRecorder()
		done.Add(1)
		go func(i int) {
			defer done.Done()
			defer func() {
				if recover() != nil {
					codes[i] = -1
				}
			}()
			ready.Add(1)
			for !goFlag.Load() {
				runtime.Gosched()
			}
			p.ServeHTTP(rec, req)
			codes[i] = rec.Code
		}(i)
	}
	for ready.Load() < int64(n) {
		runtime.Gosched()
	}
	goFlag.Store(true)
	done.Wait()

	sts := make([]hx.Sx, n)
	for i, c := range codes {
		sts[i] = hx.I(c)
	}
	ctl.mu.Lock()
	defer ctl.mu.Unlock()
	var ids []uint64
	var groups [][][]byte
	for id, evs := range ctl.events {
		ids = append(ids, uint64(id))
		groups = append(groups, evs)
	}
	sort.Slice(ids, func(a, b int) bool { return ids[a] < ids[b] })
	key := func(g [][]byte) []byte { return bytes.Join(g, []byte{0}) }
	sort.Slice(groups, func(a, b int) bool { return bytes.Compare(key(groups[a]), key(groups[b])) < 0 })
	idsx := make([]hx.Sx, len(ids))
	for i, id := range ids {
		idsx[i] = hx.U(id)
	}
	gsx := make([]hx.Sx, len(groups))
	for i, g := range groups {
		gsx[i] = hx.Bs(g)
	}
	return hx.L(hx.L(sts...), hx.L(idsx...), hx.L(gsx...))
}

func c11ExecBurst(cs hx.Sx) hx.Sx {
	top := hx.Items(cs)
	rounds := int(hx.Int(top[0]))
	phases := hx.Items(top[1])
	// real parallelism (the gated generator / cases run under GOMAXPROCS(1))
	defer runtime.GOMAXPROCS(runtime.GOMAXPROCS(c11ProcsAtStart))
	seen := map[string]bool{}
	var out []hx.Sx
	for r := 0; r < rounds; r++ {
		p, ctl := c11Plugin() // a FRESH instance: no source id has been handed out yet
		phs := make([]hx.Sx, len(phases))
		for i, ph := range phases {
			phs[i] = c11BurstPhase(p, ctl, hx.Items(ph))
		}
		o := hx.L(phs...)
		if k := hx.String(o); !seen[k] {
			seen[k] = true
			if len(out) < c11BurstMaxDistinct {
				out = append(out, o)
			}
		}
	}
	return hx.L(out...)
}

// ---- generator ----------------------------------------------------------------------------------------------------------

func c11GenBurst(c *hmain.Ctx) {
	r := c.R
	t0 := c11BurstTimeouts
	// request q of a phase: 1-3 lines "<letter><q>-<k>...", sometimes CRLF, sometimes an unterminated tail, cut into reads
	// inside the lines (carry-over buffer in use while the others run)
	mkReq := func(ph, q int) hx.Sx {
		var b []byte
		nl := r.Range(1, 3)
		tail := r.Bool()
		for k := 0; k < nl; k++ {
			b = append(b, []byte(fmt.Sprintf("%c%d.%d-%d", 'A'+byte(q%26), ph, q, k))...)
			b = append(b, bytes.Repeat([]byte{'a' + byte(q%26)}, r.Intn(20))...)
			if r.Chance(1, 8) {
				b = append(b, '\r')
			}
			if k < nl-1 || !tail {
				b = append(b, '\n')
			}
		}
		var reads []hx.Sx
		for len(b) > 0 {
			k := 1 + r.Intn(12)
			if r.Chance(1, 3) || k > len(b) {
				k = len(b)
			}
			reads = append(reads, hx.B(b[:k]))
			b = b[k:]
		}
		return hx.L(reads...)
	}
	mkCase := func(rounds int, sizes ...int) hx.Sx {
		phs := make([]hx.Sx, len(sizes))
		for i, n := range sizes {
			rs := make([]hx.Sx, n)
			for q := range rs {
				rs[q] = mkReq(i, q)
			}
			phs[i] = hx.L(rs...)
		}
		return hx.L(hx.I(rounds), hx.L(phs...))
	}
	rounds := 400 // a round of 2..32 requests costs 0.1-0.4 ms
	if c.Tier == "thorough" {
		rounds = 1500
	}
	sizes := []int{2, 3, 4, 6, 8, 12, 16, 24, 32}
	// burst-fresh: n first allocations at the same instant on an instance that has handed out nothing yet
	for _, n := range sizes {
		for k := 0; k < c.Scale; k++ {
			c.W.Count(fmt.Sprintf("burst_fresh_%d", n))
			c.Do("burst-fresh", 14, mkCase(rounds, n), true)
		}
	}
	// burst-drained: the same burst again after every id went back to the free list (all recycled), and a smaller one
	for _, n := range []int{2, 4, 8, 16, 32} {
		for k := 0; k < c.Scale; k++ {
			c.Do("burst-drained", 14, mkCase(rounds/2, n, n), true)
			c.Do("burst-drained", 14, mkCase(rounds/2, n, r.Range(1, n)), true)
		}
	}
	// burst-mixed: a burst larger than everything before it: some ids recycled, the others allocated fresh at the same time
	for k := 0; k < 6*c.Scale; k++ {
		n := hx.Pick(r, sizes[1:])
		m := r.Range(1, n-1)
		c.W.Count("burst_mixed")
		if r.Bool() {
			c.Do("burst-mixed", 14, mkCase(rounds/2, m, n), true)
		} else {
			c.Do("burst-mixed", 14, mkCase(rounds/2, m, n, r.Range(2, 32)), true)
		}
	}
	// burst-random: 1-4 phases of 1..32 requests
	for k := 0; k < 6*c.Scale; k++ {
		var sz []int
		for j := r.Range(1, 4); j > 0; j-- {
			sz = append(sz, r.Range(1, 32))
		}
		c.Do("burst-random", 14, mkCase(rounds/3, sz...), len(sz) > 1 || sz[0] > 1)
	}
	c.W.Dist["burst_barrier_timeouts"] += c11BurstTimeouts - t0
}
