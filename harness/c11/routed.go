package main

// which = 9: the request ROUTE in front of serveBulk — everything of ServeHTTP that decides whether a request is handed
// to processBulk at all and with which meta: CORS headers (prepareAllowedOrigins / getAllowedByOrigin), the OPTIONS
// preflight, auth (disabled / basic / bearer, auth.header override, authBasic / authBearer), meta templates
// (getUserIP / newMetaInformation / GetData / stringToUUID), emulate_mode (no / elasticsearch with the canned answers of
// elasticsearch.go) and serveBulk's method check.  Model: route / allow_origin / route_meta in coq/Model/Http.v.
//
//	case    = (cfg (request ...))                     the requests run one after another on ONE plugin started with cfg
//	cfg     = (mode strat #hdr ((#name #secret) ...) (#origin-pattern ...) hdrs meta)
//	request = (method #path #hsel cred #origin ((#cf v) (#xff v) (#xreal v) (#remote v)) #q gz (read ...))
//	obs     = (((event ...) status class #allow-origin (meta ...)) ...)
//
// Public API only (Factory / Start / ServeHTTP / PassEvent / Commit).  A panic of the handler is the status -1 (net/http
// would recover it and drop the connection).

import (
	"bytes"
	"encoding/base64"
	"fmt"
	"io"
	"net"
	"net/http"
	"net/http/httptest"
	"net/url"
	"sort"
	"strings"
	"sync"
	"time"

	"github.com/ozontech/file.d/cfg"
	"github.com/ozontech/file.d/decoder"
	"github.com/ozontech/file.d/metric"
	"github.com/ozontech/file.d/pipeline"
	"github.com/ozontech/file.d/pipeline/metadata"
	httpin "github.com/ozontech/file.d/plugin/input/http"
	"github.com/ozontech/file.d/test"
	"github.com/prometheus/client_golang/prometheus"
	"go.uber.org/zap"

	"verif/harness/hmain"
	"verif/harness/hx"
)

type c11RouteCtl struct {
	mu    sync.Mutex
	evs   [][]byte
	metas []string // canonical text of the meta of every In call
	ids   []pipeline.SourceID
	nmeta []int // number of meta keys of every In call
}

func c11MetaText(m metadata.MetaData) string {
	if len(m) == 0 {
		return ""
	}
	keys := make([]string, 0, len(m))
	for k := range m {
		keys = append(keys, k)
	}
	sort.Strings(keys)
	var sb strings.Builder
	for _, k := range keys {
		fmt.Fprintf(&sb, "%q=%q;", k, m[k])
	}
	return sb.String()
}

func (c *c11RouteCtl) In(id pipeline.SourceID, _ string, _ pipeline.Offsets, data []byte, _ bool, meta metadata.MetaData) uint64 {
	c.mu.Lock()
	c.evs = append(c.evs, append([]byte(nil), data...))
	c.metas = append(c.metas, c11MetaText(meta)+"\x00"+meta["m_login"]+"\x00"+meta["m_ip"]+"\x00"+meta["m_q"])
	c.ids = append(c.ids, id)
	c.nmeta = append(c.nmeta, len(meta))
	c.mu.Unlock()
	return 1
}
func (c *c11RouteCtl) UseSpread()                        {}
func (c *c11RouteCtl) DisableStreams()                   {}
func (c *c11RouteCtl) SuggestDecoder(decoder.Type)       {}
func (c *c11RouteCtl) IncReadOps()                       {}
func (c *c11RouteCtl) IncMaxEventSizeExceeded(...string) {}

var c11Methods = []string{http.MethodPost, http.MethodGet, http.MethodOptions, http.MethodPut, http.MethodDelete}

// c11StartPlugin starts a plugin with the given configuration (mutated by `set`) and controller
func c11StartPlugin(ctl pipeline.InputPluginController, logger *zap.Logger, set func(*httpin.Config)) *httpin.Plugin {
	pl, cf := httpin.Factory()
	config := cf.(*httpin.Config)
	config.Address = "off"
	set(config)
	test.NewConfig(config, map[string]int{"gomaxprocs": 4})
	params := &pipeline.InputPluginParams{
		PluginDefaultParams: pipeline.PluginDefaultParams{
			PipelineName:     "verif",
			PipelineSettings: &pipeline.Settings{AvgEventSize: 16, MetaCacheSize: 16},
			MetricCtl:        metric.NewCtl("verif", prometheus.NewRegistry(), time.Minute, 0),
		},
		Controller: ctl,
		Logger:     logger.Sugar(),
	}
	p := pl.(*httpin.Plugin)
	p.Start(config, params)
	return p
}

// c11RoutePlugin starts a plugin with the cfg of a routed case; tmpls = nil: the three fixed meta templates of which = 9
// (when the cfg asks for meta), otherwise the given ones
func c11RoutePlugin(cfsx hx.Sx, tmpls cfg.MetaTemplates) (*httpin.Plugin, *c11RouteCtl) {
	cf := hx.Items(cfsx)
	mode, strat, hdr := hx.Int(cf[0]), hx.Int(cf[1]), hx.Str(cf[2])
	secrets := map[string]string{}
	for _, s := range hx.Items(cf[3]) {
		it := hx.Items(s)
		secrets[hx.Str(it[0])] = hx.Str(it[1])
	}
	var origins []string
	for _, o := range hx.Items(cf[4]) {
		origins = append(origins, hx.Str(o))
	}
	hdrs, meta := hx.Int(cf[5]) == 1, hx.Int(cf[6]) == 1
	ctl := &c11RouteCtl{}
	p := c11StartPlugin(ctl, zap.NewNop(), func(c *httpin.Config) {
		c.EmulateMode = []string{"no", "elasticsearch"}[mode]
		c.Auth.Strategy = []string{"disabled", "basic", "bearer"}[strat]
		c.Auth.Header = hdr
		c.Auth.Secrets = secrets
		c.CORS.AllowedOrigins = origins
		if hdrs {
			c.CORS.AllowedHeaders = []string{"Content-Type", "X-Api-Key"}
			c.CORS.ExposedHeaders = []string{"X-Elastic-Product"}
		}
		switch {
		case tmpls != nil:
			c.Meta = tmpls
		case meta:
			c.Meta = cfg.MetaTemplates{
				"m_login": "{{ .login }}",
				"m_ip":    "{{ .remote_addr }}",
				"m_q":     `{{ index .params "q" }}`,
			}
		}
	})
	return p, ctl
}

func c11ExecRouted(cs hx.Sx) hx.Sx {
	top := hx.Items(cs)
	p, ctl := c11RoutePlugin(top[0], nil)
	var out []hx.Sx
	for _, rq := range hx.Items(top[1]) {
		evs, code, class, ao, metas, _ := c11RouteServe(p, ctl, c11RouteBuild(rq))
		var ms []hx.Sx
		if len(metas) > 0 && !strings.HasPrefix(metas[0], "\x00") {
			f := strings.Split(metas[0], "\x00")
			ms = []hx.Sx{hx.S(f[1]), hx.S(f[2]), hx.S(f[3])}
			for _, m := range metas[1:] {
				if m != metas[0] {
					ms = append(ms, hx.S("MIXED-META"))
					break
				}
			}
		}
		out = append(out, hx.L(hx.Bs(evs), hx.I(code), hx.I(class), hx.S(ao), hx.L(ms...)))
	}
	return hx.L(out...)
}

// c11RouteBuild makes the HTTP request of one routed request of a case (format in the head of this file)
func c11RouteBuild(rq hx.Sx) *http.Request {
	it := hx.Items(rq)
	method := c11Methods[hx.Int(it[0])]
	target := hx.Str(it[1])
	if q := hx.Str(it[6]); q != "" {
		target += "?q=" + url.QueryEscape(q)
	}
	req := httptest.NewRequest(method, target, nil)
	hsel := hx.Str(it[2])
	if cr := it[3]; hx.IsList(cr) && hsel != "" {
		ci := hx.Items(cr)
		switch hx.Int(ci[0]) {
		case 1:
			req.Header.Set(hsel, "Basic "+base64.StdEncoding.EncodeToString([]byte(hx.Str(ci[1])+":"+hx.Str(ci[2]))))
		case 2:
			req.Header.Set(hsel, "Bearer "+hx.Str(ci[1]))
		case 3:
			req.Header.Set(hsel, hx.Str(ci[1]))
		}
	}
	if o := hx.Str(it[4]); o != "" {
		req.Header.Set("Origin", o)
	}
	ips := hx.Items(it[5])
	for i, h := range []string{"CF-Connecting-IP", "X-Forwarded-For", "X-Real-IP"} {
		if v := hx.Str(hx.Items(ips[i])[0]); v != "" {
			req.Header.Set(h, v)
		}
	}
	req.RemoteAddr = hx.Str(hx.Items(ips[3])[0])
	reads := c11Reads(it[8])
	gz := hx.Int(it[7]) == 1
	if gz {
		req.Header.Set("Content-Encoding", "gzip")
		req.Body = io.NopCloser(bytes.NewReader(c11Gz(reads)))
	} else {
		req.Body = &c11Body{reads: reads}
	}
	return req
}

// c11RouteServe hands the request to the real ServeHTTP and collects what the controller was given for it: the events,
// the status (-1 = the handler panicked), the class of the canned answer, the Access-Control-Allow-Origin header, the
// canonical meta text and the number of meta keys of every In call
func c11RouteServe(p *httpin.Plugin, ctl *c11RouteCtl, req *http.Request) ([][]byte, int, int, string, []string, []int) {
	ctl.mu.Lock()
	ctl.evs, ctl.metas, ctl.ids, ctl.nmeta = nil, nil, nil, nil
	ctl.mu.Unlock()
	rec := httptest.NewRecorder()
	code := func() (code int) {
		defer func() {
			if recover() != nil {
				code = -1
			}
		}()
		p.ServeHTTP(rec, req)
		return rec.Code
	}()
	class := 0
	if code == 200 {
		b := rec.Body.Bytes()
		switch {
		case bytes.Contains(b, []byte(`"took"`)):
			class = 1
		case bytes.Contains(b, []byte(`"cluster_name"`)):
			class = 2
		case bytes.Contains(b, []byte(`"features"`)):
			class = 3
		case bytes.Contains(b, []byte(`"license"`)):
			class = 4
		case bytes.Equal(bytes.TrimSpace(b), []byte("{}")):
			class = 5
		case len(b) != 0:
			class = 9
		}
	}
	ctl.mu.Lock()
	evs := ctl.evs
	for j := 1; j < len(ctl.ids); j++ {
		if ctl.ids[j] != ctl.ids[0] {
			evs = append(evs, []byte("MIXED-SOURCE-IDS"))
			break
		}
	}
	metas, nmeta := ctl.metas, ctl.nmeta
	ctl.mu.Unlock()
	// the two remaining entry points of the input plugin interface: every event passes, Commit is a no-op
	if !p.PassEvent(nil) {
		evs = append(evs, []byte("PASSEVENT-FALSE"))
	}
	p.Commit(nil)
	return evs, code, class, rec.Header().Get("Access-Control-Allow-Origin"), metas, nmeta
}

// ---- generators -----------------------------------------------------------------------------------------------------

type c11RCfg struct {
	mode, strat int
	hdr         string
	secrets     [][2]string
	origins     []string
	hdrs, meta  int
}

func (c c11RCfg) sx() hx.Sx {
	var ss []hx.Sx
	for _, s := range c.secrets {
		ss = append(ss, hx.L(hx.S(s[0]), hx.S(s[1])))
	}
	return hx.L(hx.I(c.mode), hx.I(c.strat), hx.S(c.hdr), hx.L(ss...), hx.Ss(c.origins), hx.I(c.hdrs), hx.I(c.meta))
}

type c11RReq struct {
	method     int
	path, hsel string
	cred       hx.Sx
	origin     string
	ips        [4][2]string // text, "1"/"0"
	q          string
	gz         int
	reads      []hx.Sx
}

func (r c11RReq) sx() hx.Sx {
	var ips []hx.Sx
	for _, ip := range r.ips {
		v := 0
		if ip[1] == "1" {
			v = 1
		}
		ips = append(ips, hx.L(hx.S(ip[0]), hx.I(v)))
	}
	return hx.L(hx.I(r.method), hx.S(r.path), hx.S(r.hsel), r.cred, hx.S(r.origin), hx.L(ips...), hx.S(r.q), hx.I(r.gz), hx.L(r.reads...))
}

var (
	c11Paths = []string{"/", "/_bulk", "/_xpack", "/_license", "/_ilm/policy/x", "/_index_template/a", "/_template",
		"/_ingest/pipeline", "/_nodes", "/_nodes/http", "/other", "/_bulk/", "/_Bulk", "/x/_bulk", "/_ilm", "/_templat"}
	c11IPsGood   = []string{"10.1.2.3", "192.0.2.7", "8.8.8.8", "2001:db8::1"}
	c11IPsBad    = []string{"not-an-ip", "1.2.3", "1.1.1.1, 2.2.2.2", "300.1.1.1", "[::1]"}
	c11RemGood   = []string{"10.9.8.7:4567", "192.0.2.1:1234", "192.0.2.9"}
	c11RemBad    = []string{"[::1]:80", "", "2001:db8::1", "host:1", ":80"}
	c11Origins   = []string{"", "http://a.example.com", "https://example.com", "http://example.com", "http://x.example.org:8080", "HTTP://A.EXAMPLE.COM", "http://.example.com", "null"}
	c11OriginPat = []string{"*", "http://*.example.com", "https://example.com", "http://*", "*.org:8080", "", "http://*.example.com:80", "http://a.example.com"}
)

func c11IPOracle(c *hmain.Ctx) {
	host := func(s string) string {
		if strings.Contains(s, ":") {
			return strings.Split(s, ":")[0]
		}
		return s
	}
	ok := true
	for _, s := range c11IPsGood {
		ip := net.ParseIP(s)
		ok = ok && ip != nil && ip.String() == s
	}
	for _, s := range c11IPsBad {
		ok = ok && net.ParseIP(s) == nil
	}
	for _, s := range c11RemGood {
		ip := net.ParseIP(host(s))
		ok = ok && ip != nil && ip.String() == host(s)
	}
	for _, s := range c11RemBad {
		ok = ok && net.ParseIP(host(s)) == nil
	}
	c.W.Oracle("net.ParseIP accepts exactly the candidates flagged valid (and prints them back unchanged)", ok, "ip candidate tables of routed.go")
}

var (
	c11NoIP  = [2]string{"", "0"}
	c11HSels = []string{"Authorization", "X-Api-Key"}
)

// a small body in 1-3 reads; plain bodies sometimes with a read error
func c11RBody(r *hx.Rng) (int, []hx.Sx) {
	var b []byte
	for i := r.Intn(4); i > 0; i-- {
		for k := r.Intn(5); k > 0; k-- {
			b = append(b, "abc{}\r"[r.Intn(6)])
		}
		if i > 1 || r.Chance(2, 3) {
			b = append(b, '\n')
		}
	}
	return c11RSplit(r, b)
}

func c11RSplit(r *hx.Rng, b []byte) (int, []hx.Sx) {
	gz := 0
	if r.Chance(1, 5) {
		gz = 1
	}
	var reads []hx.Sx
	for len(b) > 0 {
		k := 1 + r.Intn(len(b))
		reads = append(reads, hx.B(b[:k]))
		b = b[k:]
		if gz == 0 && r.Chance(1, 12) {
			reads = append(reads, hx.I(0))
			break
		}
	}
	return gz, reads
}

// every credential shape for the secrets of cf
func c11RCreds(cf c11RCfg) []hx.Sx {
	out := []hx.Sx{hx.I(0)}
	users := [][2]string{{"nobody", ""}, {"nobody", "x"}, {"", ""}}
	for _, s := range cf.secrets {
		users = append(users, [2]string{s[0], s[1]}, [2]string{s[0], s[1] + "x"}, [2]string{s[0], ""}, [2]string{s[1], s[0]})
	}
	for _, u := range users {
		if !strings.Contains(u[0], ":") {
			out = append(out, hx.L(hx.I(1), hx.S(u[0]), hx.S(u[1])))
		}
		out = append(out, hx.L(hx.I(2), hx.S(u[1])), hx.L(hx.I(2), hx.S(u[0])))
		out = append(out, hx.L(hx.I(3), hx.S("bearer "+u[1])), hx.L(hx.I(3), hx.S("Bearer  "+u[1])), hx.L(hx.I(3), hx.S("Bearer"+u[1])), hx.L(hx.I(3), hx.S(u[1])))
	}
	return out
}

// c11RandRoute: a random configuration and a history of 3-8 requests for it (route-random, hdr-random); ingest = at least
// one of them is a POST on the bulk route of the mode
func c11RandRoute(r *hx.Rng) (c11RCfg, []c11RReq, bool) {
	hsels, noIP := c11HSels, c11NoIP
	body := func() (int, []hx.Sx) { return c11RBody(r) }
	creds := c11RCreds
	cf := c11RCfg{mode: r.Intn(2), strat: r.Intn(3), hdr: hx.Pick(r, hsels), hdrs: r.Intn(2), meta: r.Intn(2)}
	names := []string{"alice", "bob", "svc", "x", ""}
	vals := []string{"pw1", "tok-2", "s3cr3t", "", "a:b"}
	perm := r.Intn(len(vals))
	for k := r.Intn(4); k > 0; k-- {
		cf.secrets = append(cf.secrets, [2]string{names[k], vals[(k+perm)%len(vals)]})
	}
	for k := r.Intn(3); k > 0; k-- {
		cf.origins = append(cf.origins, hx.Pick(r, c11OriginPat))
	}
	cs := creds(cf)
	var reqs []c11RReq
	ingest := false
	for k := r.Range(3, 8); k > 0; k-- {
		gz, reads := body()
		rq := c11RReq{method: 0, path: hx.Pick(r, c11Paths), hsel: cf.hdr, cred: hx.Pick(r, cs), origin: hx.Pick(r, c11Origins),
			q: hx.Pick(r, []string{"", "", "v", "a b&c=d", "ü"}), gz: gz, reads: reads}
		if r.Chance(1, 4) {
			rq.method = r.Intn(len(c11Methods))
		}
		if r.Chance(1, 2) {
			rq.path = hx.Pick(r, []string{"/", "/_bulk"})
		}
		if r.Chance(1, 6) {
			rq.hsel = hx.Pick(r, hsels)
		}
		if len(cf.secrets) > 0 && r.Chance(1, 2) {
			s := hx.Pick(r, cf.secrets)
			if cf.strat == 2 {
				rq.cred = hx.L(hx.I(2), hx.S(s[1]))
			} else if !strings.Contains(s[0], ":") {
				rq.cred = hx.L(hx.I(1), hx.S(s[0]), hx.S(s[1]))
			}
		}
		for j := 0; j < 3; j++ {
			rq.ips[j] = noIP
			if r.Chance(1, 4) {
				rq.ips[j] = [2]string{hx.Pick(r, c11IPsGood), "1"}
			} else if r.Chance(1, 8) {
				rq.ips[j] = [2]string{hx.Pick(r, c11IPsBad), "0"}
			}
		}
		rq.ips[3] = [2]string{hx.Pick(r, c11RemGood), "1"}
		if r.Chance(1, 5) {
			rq.ips[3] = [2]string{hx.Pick(r, c11RemBad), "0"}
		}
		if rq.method == 0 && (cf.mode == 0 || rq.path == "/_bulk") {
			ingest = true
		}
		reqs = append(reqs, rq)
	}
	return cf, reqs, ingest
}

func c11GenRouted(c *hmain.Ctx) {
	r := c.R
	c11IPOracle(c)
	noIP := c11NoIP
	body := func() (int, []hx.Sx) { return c11RBody(r) }
	creds := c11RCreds
	hsels := c11HSels

	// ---- route-small: every (mode, strategy, auth header) x every path x every method, with good and bad credentials ----
	for mode := 0; mode <= 1; mode++ {
		for strat := 0; strat <= 2; strat++ {
			for _, hdr := range hsels {
				cf := c11RCfg{mode: mode, strat: strat, hdr: hdr, hdrs: mode, meta: 1,
					secrets: [][2]string{{"alice", "pw1"}, {"bob", "t:2"}, {"eve", ""}},
					origins: []string{"http://*.example.com", "https://example.com"}}
				good := hx.I(0)
				switch strat {
				case 1:
					good = hx.L(hx.I(1), hx.S("alice"), hx.S("pw1"))
				case 2:
					good = hx.L(hx.I(2), hx.S("t:2"))
				}
				// all paths x all methods with accepted credentials
				var reqs []hx.Sx
				for _, path := range c11Paths {
					for m := range c11Methods {
						gz, reads := body()
						reqs = append(reqs, c11RReq{method: m, path: path, hsel: hdr, cred: good, origin: hx.Pick(r, c11Origins),
							ips: [4][2]string{noIP, noIP, noIP, {"10.9.8.7:4567", "1"}}, gz: gz, reads: reads}.sx())
					}
				}
				c.Do("route-small", 9, hx.L(cf.sx(), hx.L(reqs...)), true)
				// all credentials x both carrying headers on the bulk route (and one non-bulk path), POST and OPTIONS
				reqs = nil
				for _, cr := range creds(cf) {
					for _, hs := range hsels {
						for _, pm := range [][2]int{{1, 0}, {0, 0}, {1, 2}} {
							gz, reads := body()
							reqs = append(reqs, c11RReq{method: pm[1], path: c11Paths[pm[0]], hsel: hs, cred: cr, origin: hx.Pick(r, c11Origins),
								ips: [4][2]string{noIP, noIP, noIP, {"192.0.2.1:1234", "1"}}, q: hx.Pick(r, []string{"", "v", "a b&c"}), gz: gz, reads: reads}.sx())
						}
					}
				}
				c.Do("route-small", 9, hx.L(cf.sx(), hx.L(reqs...)), true)
			}
		}
	}
	// CORS: every pattern set of size <= 2 x every origin; client address: every precedence of the four candidates
	for i, p1 := range c11OriginPat {
		for _, p2 := range append([]string{"-"}, c11OriginPat[i+1:]...) {
			cf := c11RCfg{hdr: "Authorization", origins: []string{p1}, meta: 1, hdrs: 1}
			if p2 != "-" {
				cf.origins = append(cf.origins, p2)
			}
			var reqs []hx.Sx
			for _, o := range c11Origins {
				var ips [4][2]string
				for k, tabs := range [][2][]string{{c11IPsGood, c11IPsBad}, {c11IPsGood, c11IPsBad}, {c11IPsGood, c11IPsBad}, {c11RemGood, c11RemBad}} {
					switch {
					case k < 3 && r.Chance(1, 2):
						ips[k] = noIP
					case r.Chance(2, 3):
						ips[k] = [2]string{hx.Pick(r, tabs[0]), "1"}
					default:
						ips[k] = [2]string{hx.Pick(r, tabs[1]), "0"}
					}
				}
				gz, reads := body()
				reqs = append(reqs, c11RReq{method: 0, path: "/", hsel: "Authorization", cred: hx.I(0), origin: o, ips: ips,
					q: hx.Pick(r, []string{"", "1", "x y"}), gz: gz, reads: reads}.sx())
			}
			c.Do("route-cors-ip", 9, hx.L(cf.sx(), hx.L(reqs...)), true)
		}
	}

	// ---- route-random -------------------------------------------------------------------------------------------------------
	for i := 0; i < 150*c.Scale; i++ {
		cf, rqs, ingest := c11RandRoute(r)
		var reqs []hx.Sx
		for _, rq := range rqs {
			reqs = append(reqs, rq.sx())
		}
		c.W.Count(fmt.Sprintf("route_mode_%d_strategy_%d", cf.mode, cf.strat))
		c.Do("route-random", 9, hx.L(cf.sx(), hx.L(reqs...)), ingest)
	}
}
