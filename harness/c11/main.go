package main

// C11 — HTTP input. Drives the real plugin (public API only: Factory/Start/ServeHTTP) with a body
// reader that yields a prescribed chunking / read error, and a recording InputPluginController.
//
//  which=0  case = (read ...)           read = #bytes | 0 (read error)      obs = ((event ...) status)
//  which=2  same, body gzip-compressed by the harness; case = the uncompressed single read
//  which=1  source-id pool: case = (op ...), op = -1 (a request starts) | k (k-th running request ends)
//                                                                            obs = (id of each start ...)
//  which=3  concurrent requests: case = (((read ...) ...) (order ...))      obs = (((event ...) status) ...)
//  which=4  gzip request history on one plugin (see c11ExecHistory)
//  which=5  as which=0, a read may also be (1 #bytes) = bytes returned together with io.EOF, or (2 #bytes) = bytes
//           returned together with a non-EOF error (thresholds.go)
//  which=6  gzip request history with failing bodies of every kind (thresholds.go)
//  which=7  phases of concurrent requests on one plugin: warm pools (thresholds.go)
//  which=8  scripted requests under a controller whose In blocks BEFORE it reads the bytes, pool poisoning (gated.go)
//  which=9  request histories on a plugin with auth / CORS / meta / elasticsearch-mode options (routed.go)
//  which=10 requests over the plugin's own listener, plain or TLS, chunked or Content-Length (wire.go)
//  which=11 Stop() with a request in flight on the plugin's own listener (wire.go)
//  which=12 routed request histories with arbitrary request headers and meta template sets (headers.go)
//  which=14 bursts of simultaneous requests on fresh plugin instances: source ids per burst (burst.go)
//  which=13 requests with arbitrary headers / framing oddities over the own listener of a plugin with meta templates (headers.go)

import (
	"bytes"
	"compress/gzip"
	"errors"
	"io"
	"net/http"
	"net/http/httptest"
	"sync"

	"github.com/ozontech/file.d/decoder"
	"github.com/ozontech/file.d/metric"
	"github.com/ozontech/file.d/pipeline"
	"github.com/ozontech/file.d/pipeline/metadata"
	httpin "github.com/ozontech/file.d/plugin/input/http"
	"github.com/ozontech/file.d/test"
	"github.com/prometheus/client_golang/prometheus"
	"go.uber.org/zap"

	"time"
	"verif/harness/hmain"
	"verif/harness/hx"
)

type c11Ctl struct {
	mu     sync.Mutex
	events map[pipeline.SourceID][][]byte
	log    [][]byte // data of every In call, in arrival order
	onIn   func(id pipeline.SourceID)
}

func (c *c11Ctl) In(id pipeline.SourceID, _ string, _ pipeline.Offsets, data []byte, _ bool, _ metadata.MetaData) uint64 {
	// the hook runs BEFORE the bytes are looked at: a request that a driver parks in here (hold / overlap of the
	// concurrent and history streams) is parked like in the real pipeline.In, which waits for a free event first and
	// copies `data` afterwards; what is recorded is what `data` holds when the gate opens
	c.mu.Lock()
	f := c.onIn
	c.mu.Unlock()
	if f != nil {
		f(id)
	}
	c.mu.Lock()
	c.events[id] = append(c.events[id], append([]byte(nil), data...))
	c.log = append(c.log, append([]byte(nil), data...))
	c.mu.Unlock()
	return 1
}
func (c *c11Ctl) UseSpread()                        {}
func (c *c11Ctl) DisableStreams()                   {}
func (c *c11Ctl) SuggestDecoder(decoder.Type)       {}
func (c *c11Ctl) IncReadOps()                       {}
func (c *c11Ctl) IncMaxEventSizeExceeded(...string) {}

func c11Plugin() (*httpin.Plugin, *c11Ctl) {
	pl, cf := httpin.Factory()
	config := cf.(*httpin.Config)
	config.Address = "off"
	test.NewConfig(config, map[string]int{"gomaxprocs": 4})
	ctl := &c11Ctl{events: map[pipeline.SourceID][][]byte{}}
	params := &pipeline.InputPluginParams{
		PluginDefaultParams: pipeline.PluginDefaultParams{
			PipelineName:     "verif",
			PipelineSettings: &pipeline.Settings{AvgEventSize: 16, MetaCacheSize: 16},
			MetricCtl:        metric.NewCtl("verif", prometheus.NewRegistry(), time.Minute, 0),
		},
		Controller: ctl,
		Logger:     zap.NewNop().Sugar(),
	}
	p := pl.(*httpin.Plugin)
	p.Start(config, params)
	return p, ctl
}

// scripted body: yields the reads of the case, one per Read call (a read longer than the
// caller's buffer is continued on the next call — the model is chunking-independent by theorem).
type c11Rd struct {
	b []byte
	k int // 0: (n, nil) | 1: (0, errC11) | 2: data, io.EOF with its last part | 3: data, errC11 with its last part
}

type c11Body struct {
	reads []c11Rd
	cur   []byte
	curK  int
	gate  func() // called before each scripted read is started
}

var errC11 = errors.New("scripted read error")

func (b *c11Body) Read(p []byte) (int, error) {
	if len(b.cur) == 0 {
		if b.gate != nil {
			b.gate()
		}
		if len(b.reads) == 0 {
			return 0, io.EOF
		}
		r := b.reads[0]
		b.reads = b.reads[1:]
		if r.k == 1 {
			return 0, errC11
		}
		if r.k >= 2 {
			b.reads = nil // data came with io.EOF / an error: the body has ended
		}
		if len(r.b) == 0 {
			switch r.k {
			case 2:
				return 0, io.EOF
			case 3:
				return 0, errC11
			}
			return 0, nil
		}
		b.cur, b.curK = r.b, r.k
	}
	n := copy(p, b.cur)
	b.cur = b.cur[n:]
	if len(b.cur) == 0 {
		switch b.curK {
		case 2:
			return n, io.EOF
		case 3:
			return n, errC11
		}
	}
	return n, nil
}
func (b *c11Body) Close() error { return nil }

func c11Reads(cs hx.Sx) []c11Rd {
	var reads []c11Rd
	for _, r := range hx.Items(cs) {
		switch {
		case hx.IsInt(r):
			reads = append(reads, c11Rd{k: 1})
		case hx.IsList(r):
			it := hx.Items(r)
			b := hx.Bytes(it[1])
			if b == nil {
				b = []byte{}
			}
			reads = append(reads, c11Rd{b: b, k: 1 + int(hx.Int(it[0]))})
		default:
			b := hx.Bytes(r)
			if b == nil {
				b = []byte{}
			}
			reads = append(reads, c11Rd{b: b})
		}
	}
	return reads
}

// gzip member holding the data of the reads
func c11Gz(reads []c11Rd) []byte {
	var zb bytes.Buffer
	zw := gzip.NewWriter(&zb)
	for _, r := range reads {
		zw.Write(r.b)
	}
	zw.Close()
	return zb.Bytes()
}

// a panic of the code under test is an observable (status -1), it must not take the harness down
func c11Serve(p *httpin.Plugin, body io.ReadCloser, gz bool) (code int) {
	defer func() {
		if recover() != nil {
			code = -1
		}
	}()
	req := httptest.NewRequest(http.MethodPost, "/", nil)
	req.Body = body
	if gz {
		req.Header.Set("Content-Encoding", "gzip")
	}
	rec := httptest.NewRecorder()
	p.ServeHTTP(rec, req)
	return rec.Code
}

func c11Obs(evs [][]byte, code int) hx.Sx { return hx.L(hx.Bs(evs), hx.I(code)) }

var (
	c11P  *httpin.Plugin
	c11C  *c11Ctl
	c11Mu sync.Mutex
)

func c11Exec(which int, cs hx.Sx) hx.Sx {
	switch which {
	case 0, 2, 5:
		// one shared plugin across sequential cases: buffers and source ids get reused between
		// requests, exactly the reuse pattern the property quantifies over
		c11Mu.Lock()
		defer c11Mu.Unlock()
		if c11P == nil {
			c11P, c11C = c11Plugin()
		}
		c11C.mu.Lock()
		c11C.events = map[pipeline.SourceID][][]byte{}
		c11C.log = nil
		c11C.mu.Unlock()
		reads := c11Reads(cs)
		var body io.ReadCloser = &c11Body{reads: reads}
		if which == 2 {
			body = io.NopCloser(bytes.NewReader(c11Gz(reads)))
		}
		code := c11Serve(c11P, body, which == 2)
		var evs [][]byte
		c11C.mu.Lock()
		if len(c11C.events) > 1 {
			evs = append(evs, []byte("MIXED-SOURCE-IDS"))
		}
		for _, e := range c11C.events {
			evs = append(evs, e...)
		}
		c11C.mu.Unlock()
		return c11Obs(evs, code)

	case 1:
		p, ctl := c11Plugin()
		type running struct {
			release chan struct{}
			done    chan struct{}
		}
		var run []*running
		var ids []hx.Sx
		for _, op := range hx.Items(cs) {
			k := int(hx.Int(op))
			if k < 0 {
				r := &running{release: make(chan struct{}), done: make(chan struct{})}
				seen := make(chan pipeline.SourceID, 1)
				first := true
				ctl.mu.Lock()
				ctl.onIn = func(id pipeline.SourceID) {
					if first {
						first = false
						seen <- id
					}
				}
				ctl.mu.Unlock()
				n := 0
				body := &c11Body{reads: []c11Rd{{b: []byte("x\n")}, {b: []byte("y\n")}}}
				body.gate = func() {
					n++
					if n == 2 {
						<-r.release
					}
				}
				go func() { c11Serve(p, body, false); close(r.done) }()
				ids = append(ids, hx.U(uint64(<-seen)))
				run = append(run, r)
			} else if k < len(run) {
				r := run[k]
				close(r.release)
				<-r.done
				run = append(run[:k:k], run[k+1:]...)
			}
		}
		for _, r := range run {
			close(r.release)
			<-r.done
		}
		return hx.L(ids...)

	case 3:
		p, ctl := c11Plugin()
		it := hx.Items(cs)
		return c11Concurrent(p, ctl, hx.Items(it[0]), hx.Items(it[1]), 0, -1)
	case 6:
		return c11ExecFaults(cs)
	case 7:
		return c11ExecPhases(cs)
	case 8:
		return c11ExecGated(cs)
	case 9:
		return c11ExecRouted(cs)
	case 10:
		return c11ExecWire(cs)
	case 11:
		return c11ExecStop(cs)
	case 12:
		return c11ExecHRouted(cs)
	case 13:
		return c11ExecHWire(cs)
	case 14:
		return c11ExecBurst(cs)
	}
	if which == 4 {
		return c11ExecHistory(cs)
	}
	panic("c11: unknown which")
}

// c11Concurrent serves the requests concurrently on p under the scripted interleaving of their reads.
// Request i only uses the letter 'A'+base+i (plus \r).  hold >= 0: that request is parked inside controller.In at its
// first event until every other request of the call has been answered.
func c11Concurrent(p *httpin.Plugin, ctl *c11Ctl, reqs, order []hx.Sx, base, hold int) hx.Sx {
	n := len(reqs)
	ctl.mu.Lock()
	ctl.log = nil
	ctl.events = map[pipeline.SourceID][][]byte{}
	ctl.mu.Unlock()
	// turn-taking: request i may start its next scripted read only when it is at the head of
	// `order` (entries naming finished or parked requests are skipped)
	var mu sync.Mutex
	cond := sync.NewCond(&mu)
	pos := 0
	finished := make([]bool, n)
	var parked bool
	advance := func() {
		for pos < len(order) {
			x := int(hx.Int(order[pos])) % n
			if !finished[x] && !(parked && x == hold) {
				break
			}
			pos++
		}
	}
	nfinished := 0
	holdState := 2 // 0: the held request did not reach In yet, 1: parked, 2: no parking (any more)
	if hold >= 0 && hold < n {
		holdState = 0
		// the held request is started before the others and runs alone until it is parked (see below), so the In
		// call that finds holdState == 0 is its own
		ctl.mu.Lock()
		ctl.onIn = func(pipeline.SourceID) {
			mu.Lock()
			if holdState == 0 {
				holdState, parked = 1, true
				cond.Broadcast()
				for nfinished < n-1 {
					cond.Wait()
				}
				holdState, parked = 2, false
			}
			mu.Unlock()
		}
		ctl.mu.Unlock()
		defer func() { ctl.mu.Lock(); ctl.onIn = nil; ctl.mu.Unlock() }()
	}
	codes := make([]int, n)
	var wg sync.WaitGroup
	start := func(i int) {
		body := &c11Body{reads: c11Reads(reqs[i])}
		body.gate = func() {
			mu.Lock()
			for {
				advance()
				if pos >= len(order) || int(hx.Int(order[pos]))%n == i {
					break
				}
				cond.Wait()
			}
			if pos < len(order) {
				pos++
			}
			cond.Broadcast()
			mu.Unlock()
		}
		wg.Add(1)
		go func() {
			defer wg.Done()
			codes[i] = c11Serve(p, body, false)
			mu.Lock()
			finished[i] = true
			nfinished++
			cond.Broadcast()
			mu.Unlock()
		}()
	}
	if hold >= 0 && hold < n {
		// the held request runs alone until it is parked in In (or done: a body without any event)
		mu.Lock()
		saved := order
		order = nil // no turn-taking while it runs alone
		mu.Unlock()
		start(hold)
		mu.Lock()
		for !finished[hold] && !parked {
			cond.Wait()
		}
		if holdState == 0 {
			holdState = 2 // it ended without any event: nobody is parked
		}
		order = saved
		mu.Unlock()
	}
	for i := 0; i < n; i++ {
		if i != hold {
			start(i)
		}
	}
	wg.Wait()
	// attribute every event to a request by content: request i only uses the letter 'A'+base+i (plus
	// \r), every line carries at least one letter, so a byte of another request inside an event
	// shows mixing. (Source ids are legitimately reused by requests that do not overlap.)
	ctl.mu.Lock()
	defer ctl.mu.Unlock()
	perReq := make([][][]byte, n)
	for _, e := range ctl.log {
		owner := -1
		for _, c := range e {
			if c >= 'A' && c <= 'Z' {
				o := int(c-'A') - base
				if o < 0 || o >= n {
					owner = -3 // a letter of an earlier phase: stale bytes out of a pooled buffer
					break
				}
				if owner == -1 {
					owner = o
				} else if owner != o {
					owner = -2
				}
			}
		}
		switch {
		case owner >= 0:
			perReq[owner] = append(perReq[owner], e)
		case owner == -2:
			perReq[0] = append(perReq[0], []byte("MIXED-BYTES"))
		case owner == -3:
			perReq[0] = append(perReq[0], []byte("STALE-BYTES"))
		default:
			perReq[0] = append(perReq[0], []byte("UNATTRIBUTED"))
		}
	}
	out := make([]hx.Sx, n)
	for i := range out {
		out[i] = c11Obs(perReq[i], codes[i])
	}
	return hx.L(out...)
}

// which = 4: a history of gzip requests on one plugin.  case = (request ...): request = (read ...) | 1 (bad gzip header).
// Requests run one after another, except the LAST TWO good ones, which overlap: the first of them is held inside
// controller.In at its first event until the other one was served completely.  Request i only uses the letter 'A'+i.
func c11ExecHistory(cs hx.Sx) hx.Sx {
	return c11History(hx.Items(cs), func(r hx.Sx) (io.ReadCloser, bool) {
		if hx.IsInt(r) {
			return io.NopCloser(bytes.NewReader([]byte("this is not a gzip stream\n"))), false
		}
		return io.NopCloser(bytes.NewReader(c11Gz(c11Reads(r)))), true
	})
}

// c11History serves the requests on one fresh plugin as described above; mk builds the (gzip) body of a request and
// says whether it is a good one (complete, answered 200).
func c11History(reqs []hx.Sx, mk func(r hx.Sx) (io.ReadCloser, bool)) hx.Sx {
	p, ctl := c11Plugin()
	n := len(reqs)
	bodies := make([]io.ReadCloser, n)
	// the two overlapping requests: the last two good ones
	var good []int
	for i, r := range reqs {
		var ok bool
		if bodies[i], ok = mk(r); ok {
			good = append(good, i)
		}
	}
	ovA, ovB := -1, -1
	if len(good) >= 2 {
		ovA, ovB = good[len(good)-2], good[len(good)-1]
	}
	codes := make([]int, n)
	for i := range reqs {
		switch {
		case i == ovA:
			held := make(chan struct{})
			release := make(chan struct{})
			first := true
			ctl.mu.Lock()
			ctl.onIn = func(pipeline.SourceID) {
				// only the goroutine of request A reaches this hook first (B has not started yet)
				if first {
					first = false
					close(held)
					<-release
				}
			}
			ctl.mu.Unlock()
			doneA := make(chan struct{})
			go func() { codes[ovA] = c11Serve(p, bodies[ovA], true); close(doneA) }()
			select {
			case <-held:
			case <-doneA: // no event at all (empty body, or the code under test lost them): nobody may be parked
				ctl.mu.Lock()
				ctl.onIn = nil
				ctl.mu.Unlock()
			}
			codes[ovB] = c11Serve(p, bodies[ovB], true)
			close(release)
			<-doneA
			ctl.mu.Lock()
			ctl.onIn = nil
			ctl.mu.Unlock()
		case i == ovB:
			// served inside the previous step
		default:
			codes[i] = c11Serve(p, bodies[i], true)
		}
	}
	ctl.mu.Lock()
	defer ctl.mu.Unlock()
	perReq := make([][][]byte, n)
	for _, e := range ctl.log {
		owner := -1
		for _, c := range e {
			if c >= 'A' && c < 'A'+byte(n) {
				if owner == -1 {
					owner = int(c - 'A')
				} else if owner != int(c-'A') {
					owner = -2
				}
			}
		}
		switch {
		case owner >= 0:
			perReq[owner] = append(perReq[owner], e)
		case owner == -2:
			perReq[0] = append(perReq[0], []byte("MIXED-BYTES"))
		default:
			perReq[0] = append(perReq[0], []byte("UNATTRIBUTED"))
		}
	}
	out := make([]hx.Sx, n)
	for i := range out {
		out[i] = c11Obs(perReq[i], codes[i])
	}
	return hx.L(out...)
}

func c11Chunkings(body []byte, f func(reads []hx.Sx, nchunks int)) {
	n := len(body)
	if n == 0 {
		f(nil, 0)
		return
	}
	for mask := 0; mask < 1<<(n-1); mask++ {
		var reads []hx.Sx
		st := 0
		for i := 1; i <= n; i++ {
			if i == n || mask&(1<<(i-1)) != 0 {
				reads = append(reads, hx.B(body[st:i]))
				st = i
			}
		}
		f(reads, len(reads))
	}
}

func c11Gen(c *hmain.Ctx) {
	alpha := []byte{'a', 'b', '\n', '\r'}
	maxLen := 6
	if c.Tier == "thorough" {
		maxLen = 8
	}
	// 1. exhaustive small scope: every body over {a,b,\n,\r} up to maxLen x every chunking
	var rec func(body []byte)
	rec = func(body []byte) {
		nl := bytes.IndexByte(body, '\n') >= 0
		c11Chunkings(body, func(reads []hx.Sx, k int) {
			c.Do("exhaustive", 0, hx.L(reads...), nl && k >= 2)
		})
		if len(body) < maxLen {
			for _, a := range alpha {
				rec(append(body[:len(body):len(body)], a))
			}
		}
	}
	rec(nil)
	c.W.Count("exhaustive_max_len_" + string(rune('0'+maxLen)))

	r := c.R
	randBody := func(maxLines, maxLine int) []byte {
		var b []byte
		lines := r.Intn(maxLines + 1)
		for i := 0; i < lines; i++ {
			ln := 0
			switch r.Intn(6) {
			case 0:
				ln = 0
			case 1:
				ln = r.Intn(4)
			case 2:
				ln = r.Intn(maxLine)
			default:
				ln = r.Intn(40)
			}
			for j := 0; j < ln; j++ {
				b = append(b, "abcdefgh{}\":, \r"[r.Intn(15)])
			}
			if i < lines-1 || r.Chance(2, 3) {
				if r.Chance(1, 5) {
					b = append(b, '\r')
				}
				b = append(b, '\n')
			}
		}
		return b
	}
	randSplit := func(b []byte, withErr bool) []hx.Sx {
		var reads []hx.Sx
		big := len(b) > 3000
		for len(b) > 0 {
			var k int
			switch r.Intn(4) {
			case 0:
				k = 1
			case 1:
				k = 1 + r.Intn(8)
			case 2:
				k = 1 + r.Intn(len(b))
			default:
				k = 1 + r.Intn(40000)
			}
			if big && k < 700 {
				k += 700 // the model's carry-over append is linear in the carry: keep it cheap on big bodies
			}
			if k > len(b) {
				k = len(b)
			}
			reads = append(reads, hx.B(b[:k]))
			b = b[k:]
			if r.Chance(1, 10) {
				reads = append(reads, hx.B(nil)) // an empty read (n == 0, err == nil)
			}
			if withErr && r.Chance(1, 6) {
				reads = append(reads, hx.I(0))
				withErr = false
			}
		}
		if withErr {
			reads = append(reads, hx.I(0))
		}
		return reads
	}
	// 2. random structured bodies, lines longer than the 16 KiB read buffer included
	for i := 0; i < 300*c.Scale; i++ {
		b := randBody(12, 40000)
		reads := randSplit(b, false)
		c.Do("random", 0, hx.L(reads...), len(reads) >= 2 && bytes.IndexByte(b, '\n') >= 0)
		if len(b) > 16*1024 {
			c.W.Count("body_gt_readbuf")
		}
	}
	// 3. read errors at arbitrary positions
	for i := 0; i < 300*c.Scale; i++ {
		b := randBody(8, 200)
		c.Do("read-error", 0, hx.L(randSplit(b, true)...), true)
	}
	// 4. gzip
	for i := 0; i < 200*c.Scale; i++ {
		b := randBody(10, 30000)
		c.Do("gzip", 2, hx.L(hx.B(b)), bytes.IndexByte(b, '\n') >= 0)
		var zb bytes.Buffer
		zw := gzip.NewWriter(&zb)
		zw.Write(b)
		zw.Close()
		zr, _ := gzip.NewReader(bytes.NewReader(zb.Bytes()))
		back, _ := io.ReadAll(zr)
		c.W.Oracle("gunzip(gzip b) = b", bytes.Equal(back, b), "round trip differs")
	}
	// 5. source-id pool scripts
	for i := 0; i < 150*c.Scale; i++ {
		var ops []hx.Sx
		live := 0
		for j := r.Range(1, 14); j > 0; j-- {
			if live == 0 || r.Chance(3, 5) {
				ops = append(ops, hx.I(-1))
				live++
			} else {
				ops = append(ops, hx.I(r.Intn(live)))
				live--
			}
		}
		c.Do("source-ids", 1, hx.L(ops...), len(ops) >= 3)
	}
	// 6. concurrent requests with disjoint alphabets under a scripted interleaving of their reads
	for i := 0; i < 150*c.Scale; i++ {
		n := r.Range(2, 6)
		var reqs []hx.Sx
		total := 0
		for q := 0; q < n; q++ {
			var b []byte
			lines := r.Intn(8)
			for j := 0; j < lines; j++ {
				for k := r.Range(1, 6); k > 0; k-- {
					b = append(b, 'A'+byte(q))
				}
				if r.Chance(1, 4) {
					b = append(b, '\r')
				}
				if j < lines-1 || r.Bool() {
					b = append(b, '\n')
				}
			}
			reads := randSplit(b, false)
			total += len(reads) + 1
			reqs = append(reqs, hx.L(reads...))
		}
		var order []hx.Sx
		for j := 0; j < total+4; j++ {
			order = append(order, hx.I(r.Intn(n)))
		}
		c.Do("concurrent", 3, hx.L(hx.L(reqs...), hx.L(order...)), true)
	}
	// 7. gzip request histories on one plugin: good requests, rejected ones (bad gzip header), then two overlapping
	//    requests with bodies larger than the read buffer: pooled readers / buffers must never be shared
	for i := 0; i < 24*c.Scale; i++ {
		var reqs []hx.Sx
		nreq := r.Range(3, 6)
		for j := 0; j < nreq; j++ {
			if j > 0 && j < nreq-2 && r.Chance(1, 2) {
				reqs = append(reqs, hx.I(1))
				continue
			}
			letter := byte('A' + j)
			var body []byte
			nl := r.Range(1, 40)
			if j >= nreq-2 {
				nl = r.Range(1500, 2500) // > 16 KiB
			}
			for k := 0; k < nl; k++ {
				body = append(body, bytes.Repeat([]byte{letter}, r.Range(1, 14))...)
				body = append(body, '\n')
			}
			if r.Bool() {
				body = append(body, letter) // unterminated last line
			}
			reqs = append(reqs, hx.L(hx.B(body)))
		}
		c.Do("gzip-history", 4, hx.L(reqs...), true)
	}
	// 8. streams that cross the 16 KiB / pool / reader-history thresholds (thresholds.go)
	c11GenThresholds(c)
	// 9. back-pressure: In blocks before it reads the bytes while other requests run / the pools are poisoned (gated.go)
	c11GenGated(c)
	// 10. the route in front of serveBulk: CORS / OPTIONS / auth strategies / meta templates / elasticsearch mode (routed.go)
	c11GenRouted(c)
	// 11. the plugin's own listener (listenHTTP, plain and TLS), real transport framing, Stop with a request in flight (wire.go)
	c11GenWire(c)
	// 12. request headers (Content-Type: form / multipart / ..., framing headers, Expect, Transfer-Encoding oddities) and meta
	//     template sets as part of the case, on ServeHTTP and on the plugin's own listener (headers.go)
	c11GenHeaders(c)
	// 13. bursts of simultaneous first allocations of source ids on fresh instances, after a drain, mixed (burst.go)
	c11GenBurst(c)
}

func main() {
	hmain.Run(&hmain.Prop{ID: "C11",
		Rule: "exhaustive: every body over {a,b,\\n,\\r} up to the tier's length x every chunking; random bodies/chunkings incl. reads > 16KiB, empty reads, read errors, gzip, source-id scripts, scripted concurrent requests, gzip request histories (good / rejected / two overlapping large requests on one plugin); reads returning data together with io.EOF / an error (exhaustive up to length 4|6 + random), newlines at the 16 KiB read-buffer boundary, phases of concurrent requests over warm pools, gzip histories with truncated / corrupted / multi-member / chunked bodies; requests parked inside a controller.In that blocks before reading its bytes (at every event of small bodies: unterminated tail / middle line, carry-over or read buffer) while other plain / gzip requests run, park too or every pooled buffer is poisoned, under GOMAXPROCS(1); routed histories: every emulate mode x auth strategy x auth header x path x method with accepted / rejected / malformed credentials, CORS pattern sets x origins, client-address precedence, meta templates; the plugin's own listener (plain / TLS, chunked / Content-Length, concurrent connections) and Stop() with a parked / aborted request in flight; request headers x meta template sets in body-judging streams: every Content-Type (form-urlencoded / multipart with and without boundary / json / ndjson / text / none / malformed) x no template / every documented template variable alone / all of them, every small body x chunking under a form Content-Type with all templates, random routed histories with random header sets, and over the own listener with Content-Length / chunked framing, Expect: 100-continue, chunk extensions, trailers, Transfer-Encoding oddities, HTTP/1.0; bursts of 2..32 requests released at the same instant on a fresh plugin instance (each blocks in its first Read until all hold a source id), repeated on hundreds of fresh instances, again after a drain and mixed recycled / fresh: source ids pairwise different and below the high-water mark, events per source id = the lines of one body. Non-trivial = body has a newline and >= 2 reads, or a read error / id script of >= 3 ops / concurrent case; distinct = distinct (sub-model, case) text.",
		Gen:  c11Gen, Exec: c11Exec})
}
