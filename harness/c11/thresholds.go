package main

// Streams that cross the scale / history thresholds of plugin/input/http/http.go (audit items 32, 33, 34):
//
//	exhaustive-eof-data, exhaustive-err-data, random-flagged-read   which=5   reads that return data WITH an error
//	boundary-16k, boundary-16k-random, long-then-short              which=0   readBufDefaultLen = 16 KiB exactly
//	warm-concurrent                                                 which=7   concurrency over warm buffer pools
//	gzip-faults, gzip-reject-first                                  which=6   failing gzip bodies, pooled failed readers

// Self-test (scratch copy of /repo + this harness + the extracted model, outside ./check; /repo itself untouched):
//
//	`if err == io.EOF { break }` in processBulk           -> exhaustive-eof-data, random-flagged-read (+ gzip streams)
//	non-EOF error ignored when n > 0                       -> exhaustive-err-data, random-flagged-read ONLY
//	handing over the n bytes before returning the error    -> silent (allowed: both readings accepted by the model glue)
//	CRLF dropped at the end of a FULL 16 KiB read          -> boundary-16k ONLY
//	newEventBuffs without [:0]                             -> exhaustive-eof-data, random-flagged-read (after an err-data case)
//	one shared readBuff / early Put of eventBuff           -> warm-concurrent (23/30 resp. 22/30 cases; `concurrent` 1/150 resp. 105/150)
//	readBuffs.Put twice                                    -> warm-concurrent + gzip histories, NOT `concurrent`
//	gzip.ErrChecksum / io.ErrUnexpectedEOF treated as EOF  -> gzip-faults, gzip-reject-first ONLY
//	Multistream(false)                                     -> gzip-faults, gzip-reject-first ONLY
//	putGzipReader(nil) on the acquire error path           -> gzip-reject-first, gzip-faults ONLY (status -1 = recovered panic)
import (
	"bytes"
	"fmt"
	"io"

	"verif/harness/hmain"
	"verif/harness/hx"
)

const c11ReadBuf = 16 * 1024 // readBufDefaultLen, http.go:86

// ---- which = 6 ------------------------------------------------------------------------------------------------
// case = (request ...), request =
//
//	1                 not a gzip stream                                               (fails)
//	(0 #body)         gzip(body) from a bytes.Reader                                  (good)
//	(3 #body k)       gzip(body), compressed bytes delivered |k| per Read; k < 0: the last
//	                  piece comes together with io.EOF                                (good)
//	(6 #b1 #b2)       gzip(b1) ++ gzip(b2): two members, one body                     (good)
//	(2 #body cut)     gzip(body)[:cut], cut clamped to a real truncation              (fails)
//	(4 #body cut k)   gzip(body)[:cut] k per Read, then a read error                  (fails)
//	(5 #body w)       gzip(body) with the CRC (w=0) / length (w=1) trailer corrupted  (fails)
//	(7 #body #junk)   gzip(body) ++ junk                                              (fails)
//
// Served like which=4: one after another on ONE plugin, the last two good ones overlapping.
func c11ExecFaults(cs hx.Sx) hx.Sx {
	return c11History(hx.Items(cs), c11FaultBody)
}

func c11GzOf(b []byte) []byte { return c11Gz([]c11Rd{{b: b}}) }

func c11Clamp(v, lo, hi int) int {
	if v > hi {
		v = hi
	}
	if v < lo {
		v = lo
	}
	return v
}

func c11Pieces(z []byte, k int) []c11Rd {
	if k < 1 {
		k = 1
	}
	var out []c11Rd
	for len(z) > 0 {
		n := k
		if n > len(z) {
			n = len(z)
		}
		out = append(out, c11Rd{b: z[:n]})
		z = z[n:]
	}
	return out
}

func c11FaultBody(r hx.Sx) (io.ReadCloser, bool) {
	if hx.IsInt(r) {
		return io.NopCloser(bytes.NewReader([]byte("this is not a gzip stream\n"))), false
	}
	it := hx.Items(r)
	z := c11GzOf(hx.Bytes(it[1]))
	switch hx.Int(it[0]) {
	case 0:
		return io.NopCloser(bytes.NewReader(z)), true
	case 3:
		k := int(hx.Int(it[2]))
		if k < 0 { // the last piece of the compressed stream arrives together with io.EOF
			ps := c11Pieces(z, -k)
			ps[len(ps)-1].k = 2
			return &c11Body{reads: ps}, true
		}
		return &c11Body{reads: c11Pieces(z, k)}, true
	case 6:
		z = append(z, c11GzOf(hx.Bytes(it[2]))...)
		return io.NopCloser(bytes.NewReader(z)), true
	case 2:
		cut := c11Clamp(int(hx.Int(it[2])), 0, len(z)-1)
		return io.NopCloser(bytes.NewReader(z[:cut])), false
	case 4:
		cut := c11Clamp(int(hx.Int(it[2])), 0, len(z))
		return &c11Body{reads: append(c11Pieces(z[:cut], int(hx.Int(it[3]))), c11Rd{k: 1})}, false
	case 5:
		if hx.Int(it[2]) == 0 {
			z[len(z)-8] ^= 0xff
		} else {
			z[len(z)-4] ^= 0xff
		}
		return io.NopCloser(bytes.NewReader(z)), false
	case 7:
		z = append(z, hx.Bytes(it[2])...)
		return io.NopCloser(bytes.NewReader(z)), false
	}
	panic("c11: unknown request kind " + hx.String(r))
}

// ---- which = 7 ------------------------------------------------------------------------------------------------
// case = (phase ...), phase = ((request ...) (order ...) hold): every phase is one which=3 run, all on ONE plugin, so
// the later phases find readBuffs / eventBuffs in the pools that earlier requests grew and left full of their bytes.
// The g-th request of the whole case only uses the letter 'A'+g.
func c11ExecPhases(cs hx.Sx) hx.Sx {
	p, ctl := c11Plugin()
	var out []hx.Sx
	base := 0
	for _, ph := range hx.Items(cs) {
		it := hx.Items(ph)
		reqs := hx.Items(it[0])
		out = append(out, c11Concurrent(p, ctl, reqs, hx.Items(it[1]), base, int(hx.Int(it[2]))))
		base += len(reqs)
	}
	return hx.L(out...)
}

// ---- generators -------------------------------------------------------------------------------------------------

func c11GenThresholds(c *hmain.Ctx) {
	r := c.R
	thorough := c.Tier == "thorough"

	// ---- item 32: (n > 0, io.EOF) and (n > 0, err) ---------------------------------------------------------------
	// processBulk (http.go:534-543) must hand over the n bytes that come with io.EOF.  net/http bodies return
	// (n, io.EOF) routinely; every other stream's reader ends with a separate (0, io.EOF).
	// Regression exposed: `if err == io.EOF { break }` (or testing err before using n) drops the last chunk: the
	// events lack the last lines and the answer is still 200 -> c11_pred false.  For (n > 0, non-EOF error) the answer
	// must not be 200 (a rewrite that ignores a non-EOF error when n > 0 would continue to the end and answer 200).
	alpha := []byte{'a', 'b', '\n', '\r'}
	maxLen := 4
	if thorough {
		maxLen = 6
	}
	var rec func(body []byte)
	rec = func(body []byte) {
		if len(body) > 0 {
			c11ChunkingsRaw(body, func(chunks [][]byte) {
				for tag := 1; tag <= 2; tag++ {
					reads := make([]hx.Sx, len(chunks))
					for i, ch := range chunks {
						reads[i] = hx.B(ch)
					}
					reads[len(reads)-1] = hx.L(hx.I(tag), hx.B(chunks[len(chunks)-1]))
					name := "exhaustive-eof-data"
					if tag == 2 {
						name = "exhaustive-err-data"
					}
					c.Do(name, 5, hx.L(reads...), bytes.IndexByte(body, '\n') >= 0)
				}
			})
		}
		if len(body) < maxLen {
			for _, a := range alpha {
				rec(append(body[:len(body):len(body)], a))
			}
		}
	}
	rec(nil)
	c.W.Count(fmt.Sprintf("flagged_exhaustive_max_len_%d", maxLen))

	split := func(b []byte) [][]byte {
		var out [][]byte
		big := len(b) > 3000
		for len(b) > 0 {
			var k int
			switch r.Intn(5) {
			case 0:
				k = 1
			case 1:
				k = 1 + r.Intn(8)
			case 2:
				k = 1 + r.Intn(len(b))
			case 3:
				k = c11ReadBuf - 1 + r.Intn(3)
			default:
				k = 1 + r.Intn(40000)
			}
			if big && k < 700 {
				k += 700 // the model's carry-over append is linear in the carry
			}
			if k > len(b) {
				k = len(b)
			}
			out = append(out, b[:k])
			b = b[k:]
		}
		return out
	}
	lines := func(letters string, nlines int, lineLen func() int, crlf bool) []byte {
		var b []byte
		for i := 0; i < nlines; i++ {
			for k := lineLen(); k > 0; k-- {
				b = append(b, letters[r.Intn(len(letters))])
			}
			if crlf && r.Chance(1, 4) {
				b = append(b, '\r')
			}
			if i < nlines-1 || r.Chance(2, 3) {
				b = append(b, '\n')
			}
		}
		return b
	}
	for i := 0; i < 200*c.Scale; i++ {
		maxLine := 60
		if r.Chance(1, 12) {
			maxLine = 40000
		}
		b := lines("abcdefgh{}\":, ", r.Intn(9), func() int {
			switch r.Intn(5) {
			case 0:
				return 0
			case 1:
				n := r.Intn(maxLine)
				maxLine = 60 // at most one long line: the case text must stay below the 128 KiB argv limit of --replay
				return n
			}
			return r.Intn(40)
		}, true)
		chunks := split(b)
		if len(chunks) == 0 {
			chunks = [][]byte{nil}
		}
		reads := make([]hx.Sx, 0, len(chunks)+2)
		for _, ch := range chunks {
			reads = append(reads, hx.B(ch))
			if r.Chance(1, 10) {
				reads = append(reads, hx.B(nil))
			}
		}
		if r.Chance(2, 3) {
			// the last read carries io.EOF (it may be an empty read: (0, io.EOF) spelled as a flagged read)
			j := len(reads) - 1
			reads[j] = hx.L(hx.I(1), reads[j])
			c.W.Count("flagged_eof_last_read")
			if len(hx.Bytes(hx.Items(reads[j])[1])) > c11ReadBuf {
				c.W.Count("flagged_eof_read_gt_readbuf")
			}
		} else {
			// some read of at most 16 KiB carries a non-EOF error; whatever follows it must never be asked for
			j := r.Intn(len(reads))
			for len(hx.Bytes(reads[j])) > c11ReadBuf {
				j = (j + 1) % len(reads)
				if j == 0 {
					reads = append([]hx.Sx{hx.B([]byte("x\n"))}, reads...)
				}
			}
			reads[j] = hx.L(hx.I(2), reads[j])
			if j < len(reads)-1 {
				c.W.Count("flagged_err_then_more_reads")
			} else {
				c.W.Count("flagged_err_last_read")
			}
		}
		c.Do("random-flagged-read", 5, hx.L(reads...), len(reads) >= 2 && bytes.IndexByte(b, '\n') >= 0)
	}

	// ---- item 34 (a): a newline / a CRLF / the end of the body exactly at the 16 KiB read-buffer boundary --------------
	// One scripted read longer than the plugin's buffer is cut by Read at exactly 16384 bytes, so with a line of L bytes
	// the '\n' is the last byte of a Read (L = 16383), the first byte of the next one (L = 16384) or the second one.
	// The cases run on the shared sequential plugin, so each one also is the long predecessor of a short request
	// (long-then-short: the pooled eventBuff has grown to > 16 KiB and still holds the long line).
	// Regression exposed: an off-by-one in processChunk's nlPos/pos bookkeeping at the end of readBuff[:n] (e.g.
	// `readBuff[nlPos:pos+1]`, or a carry-over of readBuff[nlPos:] taken before nlPos is advanced) splits or joins a
	// line only when the newline sits in the last / first cell of a read; newEventBuffs without [:0] shows in the short
	// request that follows.
	mkLine := func(n int, ch byte) []byte { return bytes.Repeat([]byte{ch}, n) }
	short := func() {
		b := lines("xyz", r.Range(1, 4), func() int { return r.Range(17, 40) }, true)
		var reads []hx.Sx
		for _, ch := range split(b) {
			reads = append(reads, hx.B(ch))
		}
		c.Do("long-then-short", 0, hx.L(reads...), len(reads) >= 2)
	}
	boundary := func(L, variant int) {
		var body []byte
		var reads []hx.Sx
		switch variant {
		case 0: // one scripted read
			body = append(append(mkLine(L, 'a'), '\n'), append(mkLine(20, 'b'), '\n')...)
			reads = []hx.Sx{hx.B(body)}
		case 1: // CRLF straddling the boundary, unterminated tail
			body = append(append(mkLine(L-1, 'a'), '\r', '\n'), mkLine(3, 'b')...)
			reads = []hx.Sx{hx.B(body)}
		case 2: // scripted reads of exactly the buffer size
			body = append(append(mkLine(L, 'a'), '\n'), append(mkLine(20, 'b'), '\n')...)
			for st := 0; st < len(body); st += c11ReadBuf {
				en := st + c11ReadBuf
				if en > len(body) {
					en = len(body)
				}
				reads = append(reads, hx.B(body[st:en]))
			}
		case 3: // the body ENDS at the boundary: the last line has no newline and fills the read exactly
			body = append([]byte("b\n"), mkLine(L-2, 'a')...)
			reads = []hx.Sx{hx.B(body)}
		}
		c.Do("boundary-16k", 0, hx.L(reads...), true)
		c.W.Count(fmt.Sprintf("boundary_L_%d", L))
		short()
	}
	for _, L := range []int{16382, 16383, 16384, 16385, 32767, 32768, 32769} {
		boundary(L, 0)
		if L < 20000 || thorough {
			boundary(L, 1)
			boundary(L, 2)
			boundary(L, 3)
		}
	}
	if thorough {
		for L := 16370; L <= 16400; L++ {
			boundary(L, r.Intn(4))
		}
		for L := 49150; L <= 49154; L++ {
			boundary(L, r.Intn(4))
		}
	}
	for i := 0; i < 6*c.Scale; i++ {
		// random: newlines only next to multiples of 16384, reads of 16383 / 16384 / 16385 bytes or one read
		m := r.Range(1, 3)
		body := mkLine(m*c11ReadBuf+r.Range(-2, 40), 'a')
		for j := 1; j <= m; j++ {
			for d := -2; d <= 1; d++ {
				if pos := j*c11ReadBuf + d; pos < len(body) && r.Chance(1, 3) {
					body[pos] = '\n'
					if pos > 0 && r.Chance(1, 4) {
						body[pos-1] = '\r'
					}
				}
			}
		}
		var reads []hx.Sx
		if r.Bool() {
			reads = []hx.Sx{hx.B(body)}
		} else {
			for b := body; len(b) > 0; {
				k := c11ReadBuf - 1 + r.Intn(3)
				if k > len(b) {
					k = len(b)
				}
				reads = append(reads, hx.B(b[:k]))
				b = b[k:]
			}
		}
		c.Do("boundary-16k-random", 0, hx.L(reads...), bytes.IndexByte(body, '\n') >= 0)
		short()
	}

	// ---- item 34 (b): concurrent requests over WARM pools, lines > AvgEventSize (16 B) and > 16 KiB ---------------------
	// 2-4 phases of 2-5 concurrent requests on one plugin; from the second phase on every newReadBuff / newEventBuffs
	// is served from the pools (http.go:351-363) with buffers that earlier requests grew and filled; in half of the
	// phases one request is parked inside controller.In (holding its read buffer and its grown event buffer) until the
	// others are done.
	// Regression exposed: a buffer put back into a pool while its request still uses it (Put before the last In, a Put
	// of the same buffer on two paths, a readBuff kept in a plugin field) hands one array to two live requests; with a
	// fresh plugin per case and lines that fit the initial 16-byte eventBuff ("concurrent" stream) the pools are empty
	// when the requests start and nothing ever grows.  Stale bytes (newEventBuffs without [:0]) show as letters of an
	// earlier phase.
	for i := 0; i < 30*c.Scale; i++ {
		nph := r.Range(2, 4)
		g := 0
		bigLeft := 0
		if r.Chance(1, 3) {
			bigLeft = 2
		}
		budget := 50000 // bytes of bodies per case: the case text (hex) must stay below the 128 KiB argv limit of --replay
		var phases []hx.Sx
		for ph := 0; ph < nph && g < 21; ph++ {
			n := r.Range(2, 5)
			var reqs []hx.Sx
			total := 0
			for q := 0; q < n; q++ {
				letter := string(rune('A' + g))
				g++
				b := lines(letter, r.Range(1, 6), func() (n int) {
					defer func() { budget -= n + 2 }()
					switch r.Intn(8) {
					case 0, 1:
						return r.Range(1, 16)
					case 2:
						if budget > 24000 {
							return r.Range(200, 3000)
						}
					case 3:
						if bigLeft > 0 && budget > 21000 {
							bigLeft--
							c.W.Count("warm_line_ge_16k")
							return hx.Pick(r, []int{c11ReadBuf - 1, c11ReadBuf, c11ReadBuf + 1, 20000})
						}
					}
					c.W.Count("warm_line_gt_avg_event_size")
					return r.Range(17, 80)
				}, true)
				var reads []hx.Sx
				for _, ch := range split(b) {
					reads = append(reads, hx.B(ch))
				}
				total += len(reads) + 1
				reqs = append(reqs, hx.L(reads...))
			}
			var order []hx.Sx
			for j := 0; j < total+4; j++ {
				order = append(order, hx.I(r.Intn(n)))
			}
			hold := -1
			if r.Bool() {
				hold = r.Intn(n)
				c.W.Count("warm_phase_with_parked_request")
			}
			phases = append(phases, hx.L(hx.L(reqs...), hx.L(order...), hx.I(hold)))
		}
		c.W.Count(fmt.Sprintf("warm_phases_%d", len(phases)))
		c.Do("warm-concurrent", 7, hx.L(phases...), true)
	}

	// ---- item 33: gzip failure histories ---------------------------------------------------------------------------------
	// Every way a gzip body can fail AFTER acquireGzipReader succeeded (truncated deflate data, truncated / wrong trailer,
	// junk after the member, a read error of the transport), so that `defer putGzipReader(zr)` (http.go:499-508) pools a
	// reader that stopped in the middle of a stream, followed by good requests that get exactly that reader back
	// (Reset), chunked delivery of the compressed bytes down to 1 byte, two-member bodies, and at the end two
	// overlapping good requests.  gzip-reject-first: the FIRST request of a fresh plugin is a failing one (empty pool:
	// the gzip.NewReader error path of acquireGzipReader, http.go:651-653, and a nil reader must not be pooled).
	// Regression exposed: pooling the reader on the error path of acquireGzipReader (a nil / half-reset *gzip.Reader is
	// then handed to the next request: panic or 400 for a good body); a Reset that is skipped for pooled readers
	// ("already initialised") makes the next good request continue the failed stream: wrong events or a 400; answering
	// 200 for a body whose trailer is missing or wrong (error of the final Read ignored because n > 0).
	fault := func(rejectFirst bool) hx.Sx {
		nreq := r.Range(4, 9)
		bigLeft := 0 // at most two bodies > 16 KiB per case: the case text must stay below the 128 KiB argv limit of --replay
		bigPair := r.Chance(1, 5)
		if !bigPair && r.Chance(1, 2) {
			bigLeft = 1
		}
		var reqs []hx.Sx
		for j := 0; j < nreq; j++ {
			letter := string(rune('A' + j))
			nl := r.Range(1, 40)
			if (j >= nreq-2 && bigPair) || (bigLeft > 0 && j < nreq-2 && r.Chance(1, 4)) {
				if j < nreq-2 {
					bigLeft--
				}
				nl = r.Range(2150, 2500) // > 16 KiB (lines of 1..14 letters + newline, 8.5 on average)
				c.W.Count("fault_body_gt_16k")
			}
			body := lines(letter, nl, func() int { return r.Range(1, 14) }, false)
			z := c11GzOf(body)
			good := j >= nreq-2 || r.Bool()
			if j == 0 && rejectFirst {
				good = false
			}
			var rq hx.Sx
			kind := 0
			if good {
				kind = hx.Pick(r, []int{0, 0, 3, 3, 6})
				switch kind {
				case 0:
					rq = hx.L(hx.I(0), hx.B(body))
				case 3:
					rq = hx.L(hx.I(3), hx.B(body), hx.I(hx.Pick(r, []int{1, 1, 2, 3, 5, 64, 4096, -1, -7, -4096})))
				case 6:
					cut := r.Intn(len(body) + 1)
					rq = hx.L(hx.I(6), hx.B(body[:cut]), hx.B(body[cut:]))
				}
			} else {
				kind = hx.Pick(r, []int{1, 2, 2, 2, 4, 4, 5, 7})
				switch kind {
				case 1:
					rq = hx.I(1)
				case 2:
					var cut int
					switch r.Intn(4) {
					case 0:
						cut = r.Intn(10) // inside the header: Reset / NewReader fails
						c.W.Count("fault_cut_in_header")
					case 1:
						cut = len(z) - 1 - r.Intn(8) // inside the 8-byte trailer: all data was inflated
						c.W.Count("fault_cut_in_trailer")
					default:
						cut = r.Range(10, len(z)-9)
						c.W.Count("fault_cut_in_deflate_data")
					}
					rq = hx.L(hx.I(2), hx.B(body), hx.I(cut))
				case 4:
					rq = hx.L(hx.I(4), hx.B(body), hx.I(r.Intn(len(z)+1)), hx.I(hx.Pick(r, []int{1, 7, 512, 100000})))
				case 5:
					rq = hx.L(hx.I(5), hx.B(body), hx.I(r.Intn(2)))
				case 7:
					rq = hx.L(hx.I(7), hx.B(body), hx.B(mkLine(r.Range(1, 20), 'z')))
				}
			}
			c.W.Count(fmt.Sprintf("fault_request_kind_%d", kind))
			reqs = append(reqs, rq)
		}
		return hx.L(reqs...)
	}
	for i := 0; i < 40*c.Scale; i++ {
		c.Do("gzip-faults", 6, fault(false), true)
	}
	for i := 0; i < 20*c.Scale; i++ {
		c.Do("gzip-reject-first", 6, fault(true), true)
	}
}

// every split of body (non-empty) into consecutive non-empty chunks
func c11ChunkingsRaw(body []byte, f func(chunks [][]byte)) {
	n := len(body)
	for mask := 0; mask < 1<<(n-1); mask++ {
		var chunks [][]byte
		st := 0
		for i := 1; i <= n; i++ {
			if i == n || mask&(1<<(i-1)) != 0 {
				chunks = append(chunks, body[st:i])
				st = i
			}
		}
		f(chunks)
	}
}
