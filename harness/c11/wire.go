package main

// which = 10 / 11: the plugin's OWN listener.  Start is given a real address, so listenHTTP runs http.Server.ListenAndServe
// (or ListenAndServeTLS with a certificate made by the harness) and the requests arrive over loopback TCP through the real
// net/http transport (chunked transfer encoding or Content-Length framing, the client's writes as they come).
//
//	which = 10   case = ((tls framing) (request ...)), request = (gz piece (#write ...))
//	             framing 0: chunked, one HTTP chunk per write; 1: Content-Length, one conn.Write per write.
//	             gz = 1: the gzip of the whole body is sent in pieces of `piece` bytes instead.
//	             Several requests are sent concurrently, each over its own connection; request i then only uses the letter
//	             'A'+i (plus \r \n) and events are attributed by content.       obs = (((event ...) status) ...)
//	which = 11   case = (gz park abort (#write ...)): a fresh plugin + listener; the request is parked inside
//	             controller.In at its park-th event, Stop() is called, 15 ms later the harness looks whether Stop has
//	             returned (early), releases the request, waits for the answer and for Stop, and dials the address again
//	             (refused).  abort = 1: the client closes the connection without ending the body (chunked, no last chunk).
//	             obs = ((event ...) status early refused), status 0 = no answer.
//
// The address: a port that was free a moment ago (listen on :0, close); Start has no way to report a failed listen but
// logger.Fatal, which the harness' logger turns into runtime.Goexit of the listenHTTP goroutine; whether it is OUR plugin
// that answers on the port is established by a probe request whose body the controller must see; otherwise another port.

import (
	"bufio"
	"bytes"
	"crypto/ecdsa"
	"crypto/elliptic"
	"crypto/rand"
	"crypto/tls"
	"crypto/x509"
	"crypto/x509/pkix"
	"encoding/pem"
	"fmt"
	"io"
	"math/big"
	"net"
	"net/http"
	"sync"
	"sync/atomic"
	"time"

	"github.com/ozontech/file.d/cfg"
	"github.com/ozontech/file.d/decoder"
	"github.com/ozontech/file.d/pipeline"
	"github.com/ozontech/file.d/pipeline/metadata"
	httpin "github.com/ozontech/file.d/plugin/input/http"
	"go.uber.org/zap"
	"go.uber.org/zap/zapcore"

	"verif/harness/hmain"
	"verif/harness/hx"
)

type c11WireCtl struct {
	mu      sync.Mutex
	log     [][]byte
	nmeta   []int // number of meta keys of the In call that produced log[i]
	probes  map[string]bool
	n       int
	parkAt  int // -1: never
	parked  chan struct{}
	release chan struct{}
}

func c11NewWireCtl(parkAt int) *c11WireCtl {
	return &c11WireCtl{probes: map[string]bool{}, parkAt: parkAt, parked: make(chan struct{}), release: make(chan struct{})}
}

func (c *c11WireCtl) In(_ pipeline.SourceID, _ string, _ pipeline.Offsets, data []byte, _ bool, meta metadata.MetaData) uint64 {
	if bytes.HasPrefix(data, []byte("probe-")) {
		c.mu.Lock()
		c.probes[string(data)] = true
		c.mu.Unlock()
		return 1
	}
	c.mu.Lock()
	k := c.n
	c.n++
	c.mu.Unlock()
	if k == c.parkAt {
		close(c.parked)
		<-c.release // back-pressure: nothing of `data` has been looked at yet
	}
	cp := append([]byte(nil), data...)
	c.mu.Lock()
	c.log = append(c.log, cp)
	c.nmeta = append(c.nmeta, len(meta))
	c.mu.Unlock()
	return 1
}
func (c *c11WireCtl) UseSpread()                        {}
func (c *c11WireCtl) DisableStreams()                   {}
func (c *c11WireCtl) SuggestDecoder(decoder.Type)       {}
func (c *c11WireCtl) IncReadOps()                       {}
func (c *c11WireCtl) IncMaxEventSizeExceeded(...string) {}

var (
	c11CertOnce           sync.Once
	c11CertPEM, c11KeyPEM string
	c11ProbeSeq           atomic.Int64
	c11WireRetries        int
)

func c11Cert() (string, string) {
	c11CertOnce.Do(func() {
		key, err := ecdsa.GenerateKey(elliptic.P256(), rand.Reader)
		if err != nil {
			panic(err)
		}
		tmpl := &x509.Certificate{SerialNumber: big.NewInt(1), Subject: pkix.Name{CommonName: "verif"},
			NotBefore: time.Now().Add(-time.Hour), NotAfter: time.Now().Add(24 * time.Hour),
			KeyUsage: x509.KeyUsageDigitalSignature, ExtKeyUsage: []x509.ExtKeyUsage{x509.ExtKeyUsageServerAuth},
			IPAddresses: []net.IP{net.ParseIP("127.0.0.1")}}
		der, err := x509.CreateCertificate(rand.Reader, tmpl, tmpl, &key.PublicKey, key)
		if err != nil {
			panic(err)
		}
		kb, err := x509.MarshalECPrivateKey(key)
		if err != nil {
			panic(err)
		}
		c11CertPEM = string(pem.EncodeToMemory(&pem.Block{Type: "CERTIFICATE", Bytes: der}))
		c11KeyPEM = string(pem.EncodeToMemory(&pem.Block{Type: "EC PRIVATE KEY", Bytes: kb}))
	})
	return c11CertPEM, c11KeyPEM
}

type c11Srv struct {
	p    *httpin.Plugin
	ctl  *c11WireCtl
	addr string
	tls  bool
}

func c11Dial(addr string, tlsOn bool) (net.Conn, error) {
	conn, err := net.DialTimeout("tcp", addr, 2*time.Second)
	if err != nil {
		return nil, err
	}
	conn.SetDeadline(time.Now().Add(15 * time.Second))
	if tlsOn {
		tc := tls.Client(conn, &tls.Config{InsecureSkipVerify: true}) // the harness' own throw-away certificate
		if err := tc.Handshake(); err != nil {
			conn.Close()
			return nil, err
		}
		return tc, nil
	}
	return conn, nil
}

// c11WireOpt: what a request of the header streams (which = 13, headers.go) adds to the plain POST / of which = 10
type c11WireOpt struct {
	target  string      // request target, "" = "/"
	headers [][2]string // extra header lines, sent as they are
	odd     int         // framing oddity the net/http server accepts (c11Odd* in headers.go); 0 = none
}

// c11WireDo sends one POST / over a new connection.  status 0 = no answer.
func c11WireDo(addr string, tlsOn, gz bool, framing int, pieces [][]byte, abort bool) int {
	return c11WireDoX(addr, tlsOn, gz, framing, pieces, abort, c11WireOpt{})
}

func c11WireDoX(addr string, tlsOn, gz bool, framing int, pieces [][]byte, abort bool, opt c11WireOpt) int {
	conn, err := c11Dial(addr, tlsOn)
	if err != nil {
		return 0
	}
	defer conn.Close()
	total := 0
	for _, p := range pieces {
		total += len(p)
	}
	target, proto := opt.target, "HTTP/1.1"
	if target == "" {
		target = "/"
	}
	odd := opt.odd
	if framing == 0 && odd == c11OddHTTP10 || framing != 0 && (odd == c11OddChunkExt || odd == c11OddTrailer || odd == c11OddTECase || odd == c11OddTEAndCL) {
		odd = 0 // does not apply to this framing
	}
	if odd == c11OddHTTP10 {
		proto = "HTTP/1.0"
	}
	hd := "POST " + target + " " + proto + "\r\nHost: verif\r\nConnection: close\r\n"
	for _, h := range opt.headers {
		hd += h[0] + ": " + h[1] + "\r\n"
	}
	if gz {
		hd += "Content-Encoding: gzip\r\n"
	}
	if odd == c11OddExpect {
		hd += "Expect: 100-continue\r\n"
	}
	if framing == 0 {
		switch odd {
		case c11OddTECase:
			hd += "Transfer-Encoding: Chunked\r\n"
		case c11OddTrailer:
			hd += "Trailer: X-Verif-Trailer\r\nTransfer-Encoding: chunked\r\n"
		case c11OddTEAndCL:
			hd += fmt.Sprintf("Content-Length: %d\r\nTransfer-Encoding: chunked\r\n", total+3)
		default:
			hd += "Transfer-Encoding: chunked\r\n"
		}
		hd += "\r\n"
	} else {
		n := total
		if abort {
			n += 7 // bytes that never come
		}
		hd += fmt.Sprintf("Content-Length: %d\r\n\r\n", n)
	}
	if _, err := conn.Write([]byte(hd)); err != nil {
		return 0
	}
	br := bufio.NewReader(conn)
	if odd == c11OddExpect {
		// a client that waits for the interim answer before it sends the body (the server sends it at the first Read of
		// the body); a final answer instead = the body is never sent
		resp, err := http.ReadResponse(br, nil)
		if err != nil {
			return 0
		}
		if resp.StatusCode != 100 {
			io.Copy(io.Discard, resp.Body)
			resp.Body.Close()
			return resp.StatusCode
		}
	}
	for _, p := range pieces {
		if len(p) == 0 {
			continue // a zero-length HTTP chunk would end the body
		}
		var w []byte
		if framing == 0 {
			if odd == c11OddChunkExt {
				w = append(w, fmt.Sprintf("%x;verif=1;q=\"a b\"\r\n", len(p))...)
			} else {
				w = append(w, fmt.Sprintf("%x\r\n", len(p))...)
			}
			w = append(w, p...)
			w = append(w, "\r\n"...)
		} else {
			w = p
		}
		if _, err := conn.Write(w); err != nil {
			return 0
		}
	}
	if abort {
		return 0
	}
	if framing == 0 {
		last := "0\r\n\r\n"
		if odd == c11OddTrailer {
			last = "0\r\nX-Verif-Trailer: a=1&b=2\r\n\r\n"
		}
		if _, err := conn.Write([]byte(last)); err != nil {
			return 0
		}
	}
	for {
		resp, err := http.ReadResponse(br, nil)
		if err != nil {
			return 0
		}
		if resp.StatusCode/100 == 1 {
			continue // an interim answer
		}
		io.Copy(io.Discard, resp.Body)
		resp.Body.Close()
		return resp.StatusCode
	}
}

// c11Listen starts a plugin that listens itself and makes sure it is the one that answers on the address
func c11Listen(tlsOn bool, ctl *c11WireCtl, meta cfg.MetaTemplates) *c11Srv {
	logger := zap.New(zapcore.NewNopCore(), zap.WithFatalHook(zapcore.WriteThenGoexit))
	for try := 0; try < 8; try++ {
		l, err := net.Listen("tcp", "127.0.0.1:0")
		if err != nil {
			panic("c11: loopback listen: " + err.Error())
		}
		addr := l.Addr().String()
		l.Close()
		p := c11StartPlugin(ctl, logger, func(c *httpin.Config) {
			c.Address = addr
			if len(meta) > 0 {
				c.Meta = meta
			}
			if tlsOn {
				c.CACert, c.PrivateKey = c11Cert()
			}
		})
		probe := fmt.Sprintf("probe-%d-%d", time.Now().UnixNano(), c11ProbeSeq.Add(1))
		deadline := time.Now().Add(10 * time.Second)
		for time.Now().Before(deadline) {
			if c11WireDo(addr, tlsOn, false, 1, [][]byte{[]byte(probe + "\n")}, false) == 200 {
				ctl.mu.Lock()
				ok := ctl.probes[probe]
				ctl.mu.Unlock()
				if ok {
					return &c11Srv{p: p, ctl: ctl, addr: addr, tls: tlsOn}
				}
				break // somebody else answers on this port
			}
			time.Sleep(2 * time.Millisecond)
		}
		c11WireRetries++ // the plugin is abandoned (its Stop would wait for a listener that never came up)
	}
	panic("c11: could not bring up the plugin's listener")
}

var (
	c11SrvMu sync.Mutex
	c11Srvs  [2]*c11Srv
)

func c11SharedSrv(tlsOn bool) *c11Srv {
	c11SrvMu.Lock()
	defer c11SrvMu.Unlock()
	k := 0
	if tlsOn {
		k = 1
	}
	if c11Srvs[k] == nil {
		c11Srvs[k] = c11Listen(tlsOn, c11NewWireCtl(-1), nil)
	}
	return c11Srvs[k]
}

func c11Concat(ws []hx.Sx) ([][]byte, []byte) {
	var ps [][]byte
	var all []byte
	for _, w := range ws {
		b := hx.Bytes(w)
		ps = append(ps, b)
		all = append(all, b...)
	}
	return ps, all
}

func c11WirePieces(gz bool, piece int, ws []hx.Sx) [][]byte {
	ps, all := c11Concat(ws)
	if !gz {
		return ps
	}
	z := c11GzOf(all)
	if piece < 1 {
		piece = len(z)
	}
	var out [][]byte
	for len(z) > 0 {
		k := piece
		if k > len(z) {
			k = len(z)
		}
		out = append(out, z[:k])
		z = z[k:]
	}
	return out
}

func c11ExecWire(cs hx.Sx) hx.Sx {
	top := hx.Items(cs)
	cf := hx.Items(top[0])
	tlsOn, framing := hx.Int(cf[0]) == 1, int(hx.Int(cf[1]))
	reqs := hx.Items(top[1])
	s := c11SharedSrv(tlsOn)
	c11SrvMu.Lock() // one case at a time on the shared listener
	defer c11SrvMu.Unlock()
	s.ctl.mu.Lock()
	s.ctl.log, s.ctl.nmeta = nil, nil
	s.ctl.mu.Unlock()
	n := len(reqs)
	codes := make([]int, n)
	var wg sync.WaitGroup
	for i, rq := range reqs {
		it := hx.Items(rq)
		gz := hx.Int(it[0]) == 1
		pieces := c11WirePieces(gz, int(hx.Int(it[1])), hx.Items(it[2]))
		wg.Add(1)
		go func(i int) {
			defer wg.Done()
			codes[i] = c11WireDo(s.addr, tlsOn, gz, framing, pieces, false)
		}(i)
	}
	wg.Wait()
	s.ctl.mu.Lock()
	defer s.ctl.mu.Unlock()
	perReq := make([][][]byte, n)
	for _, e := range s.ctl.log {
		switch owner := c11WireOwner(e, n); {
		case owner >= 0:
			perReq[owner] = append(perReq[owner], e)
		case owner == -2:
			perReq[0] = append(perReq[0], []byte("MIXED-BYTES"))
		case owner == -3:
			perReq[0] = append(perReq[0], []byte("STALE-BYTES"))
		default:
			perReq[0] = append(perReq[0], []byte("UNATTRIBUTED"))
		}
	}
	out := make([]hx.Sx, n)
	for i := range out {
		out[i] = c11Obs(perReq[i], codes[i])
	}
	return hx.L(out...)
}

// c11WireOwner: which of the n concurrent requests of a case an event belongs to (request i only uses the letter 'A'+i);
// -1 no letter at all, -2 letters of two requests, -3 a letter of no request of the case.  n = 1: everything is request 0's.
func c11WireOwner(e []byte, n int) int {
	if n == 1 {
		return 0
	}
	owner := -1
	for _, ch := range e {
		if ch >= 'A' && ch <= 'Z' {
			o := int(ch - 'A')
			switch {
			case o >= n:
				owner = -3
			case owner == -1:
				owner = o
			case owner != o && owner >= 0:
				owner = -2
			}
		}
	}
	return owner
}

func c11ExecStop(cs hx.Sx) hx.Sx {
	it := hx.Items(cs)
	gz, park, abort := hx.Int(it[0]) == 1, int(hx.Int(it[1])), hx.Int(it[2]) == 1
	ws := hx.Items(it[3])
	_, all := c11Concat(ws)
	pieces := c11WirePieces(gz, 5, ws)
	expect := c11NEvents([][]byte{all})
	if abort {
		expect = bytes.Count(all, []byte{'\n'}) // only complete lines are handed over before the read error
		if gz {
			expect = 0 // how far the decompressor gets is not known: do not count on the park
		}
	}
	ctl := c11NewWireCtl(park)
	s := c11Listen(false, ctl, nil)
	resp := make(chan int, 1)
	go func() { resp <- c11WireDo(s.addr, false, gz, 0, pieces, abort) }()
	status, answered, parked := 0, false, false
	if park >= 0 && park < expect {
		select {
		case <-ctl.parked:
			parked = true
		case <-time.After(10 * time.Second):
			status = -2
		}
	} else {
		select {
		case status = <-resp:
			answered = true
		case <-time.After(10 * time.Second):
			status = -2
		}
	}
	if abort && !parked && !gz {
		// nobody parks: give the handler the time to hand over the complete lines it was sent before Stop is called
		// (not needed for the verdict: any prefix of them is accepted; it only keeps the case from being vacuous)
		for t := 0; t < 100; t++ {
			ctl.mu.Lock()
			k := ctl.n
			ctl.mu.Unlock()
			if k >= expect {
				break
			}
			time.Sleep(2 * time.Millisecond)
		}
	}
	stopDone := make(chan struct{})
	go func() { s.p.Stop(); close(stopDone) }()
	early := 0
	if parked {
		select {
		case <-stopDone:
			early = 1
		case <-time.After(15 * time.Millisecond):
		}
	}
	close(ctl.release)
	if !answered && status != -2 {
		select {
		case status = <-resp:
		case <-time.After(10 * time.Second):
			status = -2
		}
	}
	select {
	case <-stopDone:
	case <-time.After(10 * time.Second):
		status = -3 // Stop hangs
	}
	refused := 0
	if conn, err := net.DialTimeout("tcp", s.addr, 500*time.Millisecond); err != nil {
		refused = 1
	} else {
		conn.Close()
	}
	ctl.mu.Lock()
	defer ctl.mu.Unlock()
	return hx.L(hx.Bs(ctl.log), hx.I(status), hx.I(early), hx.I(refused))
}

// ---- generators -----------------------------------------------------------------------------------------------------

func c11GenWire(c *hmain.Ctx) {
	r := c.R
	r0 := c11WireRetries
	line := func(letter byte, n int) []byte { return bytes.Repeat([]byte{letter}, n) }
	body := func(letter byte, lines int, long bool) []byte {
		var b []byte
		for i := 0; i < lines; i++ {
			n := r.Intn(30)
			if long && r.Chance(1, 3) {
				n = hx.Pick(r, []int{c11ReadBuf - 1, c11ReadBuf, c11ReadBuf + 1, 4096, 20000})
			}
			if letter == 0 {
				for k := 0; k < n; k++ {
					b = append(b, "abcdefgh{}\":, \r"[r.Intn(15)])
				}
			} else {
				if n == 0 {
					n = 1
				}
				b = append(b, line(letter, n)...)
			}
			if r.Chance(1, 6) {
				b = append(b, '\r')
			}
			if i < lines-1 || r.Chance(2, 3) {
				b = append(b, '\n')
			}
		}
		return b
	}
	split := func(b []byte) []hx.Sx {
		var ws []hx.Sx
		for len(b) > 0 {
			var k int
			switch r.Intn(4) {
			case 0:
				k = 1 + r.Intn(3)
			case 1:
				k = 1 + r.Intn(len(b))
			case 2:
				k = 1 + r.Intn(64)
			default:
				k = len(b)
			}
			if len(b) > 3000 && k < 900 {
				k += 900
			}
			if k > len(b) {
				k = len(b)
			}
			ws = append(ws, hx.B(b[:k]))
			b = b[k:]
			if r.Chance(1, 12) {
				ws = append(ws, hx.B(nil))
			}
		}
		return ws
	}
	req := func(gz, piece int, ws []hx.Sx) hx.Sx { return hx.L(hx.I(gz), hx.I(piece), hx.L(ws...)) }
	wcase := func(tlsOn, framing int, reqs ...hx.Sx) hx.Sx {
		return hx.L(hx.L(hx.I(tlsOn), hx.I(framing)), hx.L(reqs...))
	}

	// wire-small: every chunking of a few small bodies, both framings
	for _, b := range []string{"", "a", "\n", "a\nb", "ab\n\ncd", "a\r\nb\r\n", "\n\na"} {
		for framing := 0; framing <= 1; framing++ {
			if b == "" {
				c.Do("wire-small", 10, wcase(0, framing, req(0, 0, nil)), false)
				continue
			}
			c11ChunkingsRaw([]byte(b), func(chunks [][]byte) {
				c.Do("wire-small", 10, wcase(0, framing, req(0, 0, hx.Items(hx.Bs(chunks)))), len(chunks) >= 2)
			})
		}
	}
	// wire-random: plain / gzip, chunked / Content-Length, bodies beyond the read buffer
	for i := 0; i < 60*c.Scale; i++ {
		b := body(0, r.Intn(10), r.Chance(1, 4))
		gz := 0
		if r.Chance(1, 3) {
			gz = 1
		}
		c.Do("wire-random", 10, wcase(0, r.Intn(2), req(gz, hx.Pick(r, []int{1, 7, 100, 4096, 0}), split(b))), bytes.IndexByte(b, '\n') >= 0)
		if len(b) > c11ReadBuf {
			c.W.Count("wire_body_gt_readbuf")
		}
	}
	// wire-tls: the same through ListenAndServeTLS (TLS records are at most 16 KiB: the read buffer's size)
	for i := 0; i < 20*c.Scale; i++ {
		b := body(0, r.Intn(8), r.Chance(1, 3))
		c.Do("wire-tls", 10, wcase(1, r.Intn(2), req(r.Intn(2)*r.Intn(2), hx.Pick(r, []int{3, 500, 0}), split(b))), bytes.IndexByte(b, '\n') >= 0)
	}
	// wire-concurrent: 2-5 connections at once, disjoint alphabets
	for i := 0; i < 40*c.Scale; i++ {
		var reqs []hx.Sx
		for q := r.Range(2, 5); q > 0; q-- {
			b := body('A'+byte(len(reqs)), r.Range(1, 8), r.Chance(1, 5))
			reqs = append(reqs, req(r.Intn(2)*r.Intn(2), hx.Pick(r, []int{2, 50, 0}), split(b)))
		}
		tlsOn := 0
		if r.Chance(1, 6) {
			tlsOn = 1
		}
		c.Do("wire-concurrent", 10, wcase(tlsOn, r.Intn(2), reqs...), true)
	}
	// wire-stop: Stop() with the request in flight: parked at its first / a middle / its last event, completed or aborted
	scase := func(gz, park, abort int, ws []hx.Sx) hx.Sx {
		return hx.L(hx.I(gz), hx.I(park), hx.I(abort), hx.L(ws...))
	}
	ws := func(ss ...string) []hx.Sx {
		var out []hx.Sx
		for _, s := range ss {
			out = append(out, hx.S(s))
		}
		return out
	}
	c.Do("wire-stop", 11, scase(0, 0, 0, ws("a\nbb\n", "cc")), true)   // parked at the first event, completed
	c.Do("wire-stop", 11, scase(0, 2, 0, ws("a\nb", "b\nccc")), true)  // parked at the unterminated tail
	c.Do("wire-stop", 11, scase(0, 1, 1, ws("a\nbb\ncc\ndd")), true)   // parked in the middle, the client is gone
	c.Do("wire-stop", 11, scase(0, -1, 1, ws("a\nbb\ncc")), true)      // nobody parks: aborted request, then Stop
	c.Do("wire-stop", 11, scase(1, 0, 0, ws("a\nbb\n", "cc\n")), true) // gzip, parked at the first event
	c.Do("wire-stop", 11, scase(0, -1, 0, ws("a\nb\n")), true)         // Stop after a completed request
	for i := 0; i < 3*c.Scale; i++ {
		b := body(0, r.Range(1, 6), false)
		ne := c11NEvents([][]byte{b})
		abort, gz := r.Intn(2), 0
		if abort == 0 {
			gz = r.Intn(2)
		}
		park := -1
		if ne > 0 {
			park = r.Intn(ne)
		}
		c.Do("wire-stop", 11, scase(gz, park, abort, split(b)), true)
	}
	c.W.Dist["wire_listen_retries"] += c11WireRetries - r0
}
