package main

// which = 8: requests on ONE plugin under a controller whose In can BLOCK BEFORE IT LOOKS AT THE BYTES (back-pressure:
// the real pipeline.In waits in eventPool.get() and only afterwards decodes / copies `data`), driven by a fully
// sequential script.  At most one request runs at any moment; the others are parked inside In or not started / done, so
// every In call is attributed to its request by the driver (no attribution by content) and what a request "delivered"
// is what the controller reads AFTER the gate of that In call has been released.
//
//	case    = ((procs) (request ...) (step ...))
//	procs   = 1: the case runs under GOMAXPROCS(1) (restored afterwards): sync.Pool then has ONE per-P cache, a buffer
//	             that one request Puts is exactly what the next Get of another request returns;   0: the process' own
//	request = (gz (read ...) (park ...))
//	          gz = 0: plain body, the reads are scripted as for which = 0 (#bytes | 0 = read error)
//	          gz = 1: the body is the concatenation of one gzip member per read (compress/gzip hands the members to
//	                  processBulk one per Read, so a member that ends inside a line makes the request use its
//	                  carry-over buffer); no member = one empty member
//	          park = increasing indices k: the k-th In call (0-based) of the request parks before reading its bytes
//	step    = i >= 0: request i runs (is started / released) until it parks again or is answered
//	          -1    : POISON: every buffer that currently sits in one of the plugin's sync.Pools is overwritten over its
//	                  whole capacity with '!' (a free buffer may be scribbled over by anybody: a byte of it that shows
//	                  up in an event later is a use-after-Put)
//	          after the last step the requests are run to their end in index order
//	obs     = (((event ...) status) ...) per request
//
// Self-test (scratch worktree of /repo + a copy of this harness + the extracted model, /repo itself untouched), quick tier:
//
//	seed C11-r4 (both buffers Put right after EOF, before the unterminated tail is flushed)
//	        -> Violates on 255-275 cases per seed (seeds 1-3): gated-small 164/752, gated-tail 45-53/60, gated-random
//	           22-29/120, gated-gzip 14-17/40, gated-middle 2-4/60, the corpus witnesses, + warm-concurrent 0-5/30 (its
//	           parked request now also reads its bytes after the gate).  Smallest replay:
//	           gated-small  8  ((1) ((0 (#4141) (0))) (0 -1 0))  ->  (((#2121) 200))
//	a plugin-wide scratch buffer for joining carry-over + rest of the line (under a mutex, handed to In)
//	        -> gated-small 42, gated-middle 14, gated-random 10, gated-gzip 3, gated-tail 2 (+ warm-concurrent 17, concurrent 1)

import (
	"bytes"
	"fmt"
	"io"
	"reflect"
	"runtime"
	"sync"
	"time"
	"unsafe"

	"github.com/ozontech/file.d/decoder"
	"github.com/ozontech/file.d/metric"
	"github.com/ozontech/file.d/pipeline"
	"github.com/ozontech/file.d/pipeline/metadata"
	httpin "github.com/ozontech/file.d/plugin/input/http"
	"github.com/ozontech/file.d/test"
	"github.com/prometheus/client_golang/prometheus"
	"go.uber.org/zap"

	"verif/harness/hmain"
	"verif/harness/hx"
)

const c11Poison = '!'

var c11ProcsAtStart = runtime.GOMAXPROCS(0)

type c11GReq struct {
	gz      bool
	reads   []c11Rd
	parks   map[int]bool
	started bool
	done    bool
	timeout bool
	nIn     int
	evs     [][]byte
	ids     []pipeline.SourceID
	shared  bool // an In call carried the source id another live request was using
	code    int
	wake    chan struct{}
}

type c11GateCtl struct {
	mu   sync.Mutex
	cur  *c11GReq
	all  []*c11GReq
	sig  chan int // request -> driver: 0 = parked, 1 = answered
	sink *c11GReq // requests of the harness itself (poison fallback)
}

func (c *c11GateCtl) In(id pipeline.SourceID, _ string, _ pipeline.Offsets, data []byte, _ bool, _ metadata.MetaData) uint64 {
	c.mu.Lock()
	r := c.cur
	k := r.nIn
	r.nIn++
	park := r.parks[k]
	for _, q := range c.all {
		if q != r && q.started && !q.done && len(q.ids) > 0 && q.ids[len(q.ids)-1] == id {
			r.shared = true
		}
	}
	r.ids = append(r.ids, id)
	c.mu.Unlock()
	if park {
		c.sig <- 0
		<-r.wake // "waiting for a free event": nothing of `data` has been looked at yet
	}
	cp := append([]byte(nil), data...) // the bytes are consumed only now
	c.mu.Lock()
	r.evs = append(r.evs, cp)
	c.mu.Unlock()
	return 1
}
func (c *c11GateCtl) UseSpread()                        {}
func (c *c11GateCtl) DisableStreams()                   {}
func (c *c11GateCtl) SuggestDecoder(decoder.Type)       {}
func (c *c11GateCtl) IncReadOps()                       {}
func (c *c11GateCtl) IncMaxEventSizeExceeded(...string) {}

func c11GatePlugin() (*httpin.Plugin, *c11GateCtl) {
	pl, cf := httpin.Factory()
	config := cf.(*httpin.Config)
	config.Address = "off"
	test.NewConfig(config, map[string]int{"gomaxprocs": 4})
	ctl := &c11GateCtl{}
	params := &pipeline.InputPluginParams{
		PluginDefaultParams: pipeline.PluginDefaultParams{
			PipelineName:     "verif",
			PipelineSettings: &pipeline.Settings{AvgEventSize: 16, MetaCacheSize: 16},
			MetricCtl:        metric.NewCtl("verif", prometheus.NewRegistry(), time.Minute, 0),
		},
		Controller: ctl,
		Logger:     zap.NewNop().Sugar(),
	}
	p := pl.(*httpin.Plugin)
	p.Start(config, params)
	return p, ctl
}

// statistics of the poison steps (read by the generator)
var (
	c11PoisonPools   int // sync.Pool fields of the plugin reached by reflection (last poison step)
	c11PoisonBufs    int // buffers overwritten, all poison steps
	c11PoisonViaReq  int // poison steps that had to go through a request (no pool reachable)
	c11GateTimeouts  int
	c11PoolType      = reflect.TypeOf(sync.Pool{})
	c11PoisonPattern = bytes.Repeat([]byte{c11Poison}, 96)
)

// c11PoisonStep overwrites every []byte that sits in a sync.Pool of the plugin.  The pools are unexported fields; they
// are reached by reflection (every field of type sync.Pool / *sync.Pool of the Plugin struct, whatever its name), items
// that are not *[]byte / []byte go back untouched.  Everything is Put back in the order that restores the per-P cache
// (first Get = private slot = first Put; then the shared stack is rebuilt bottom-up).
func c11PoisonStep(p *httpin.Plugin, ctl *c11GateCtl) {
	v := reflect.ValueOf(p).Elem()
	pools := 0
	for i := 0; i < v.NumField(); i++ {
		f := v.Field(i)
		var pool *sync.Pool
		switch {
		case f.Type() == c11PoolType:
			pool = (*sync.Pool)(unsafe.Pointer(f.UnsafeAddr()))
		case f.Type() == reflect.PointerTo(c11PoolType) && !f.IsNil():
			pool = (*sync.Pool)(unsafe.Pointer(f.Pointer()))
		default:
			continue
		}
		pools++
		saveNew := pool.New
		pool.New = nil // Get must say "empty" instead of making new items
		var items []any
		for len(items) < 256 {
			x := pool.Get()
			if x == nil {
				break
			}
			items = append(items, x)
		}
		pool.New = saveNew
		for _, x := range items {
			var b []byte
			switch t := x.(type) {
			case *[]byte:
				if t != nil {
					b = *t
				}
			case []byte:
				b = t
			}
			if b = b[:cap(b)]; len(b) > 0 {
				for j := range b {
					b[j] = c11Poison
				}
				c11PoisonBufs++
			}
		}
		if len(items) > 0 {
			pool.Put(items[0])
			for j := len(items) - 1; j >= 1; j-- {
				pool.Put(items[j])
			}
		}
	}
	c11PoisonPools = pools
	if pools >= 2 {
		return
	}
	// fallback (the plugin keeps its buffers somewhere reflection does not find them): a request of the harness whose
	// carry-over and read buffer are filled with the pattern scribbles over the most recently released buffers
	c11PoisonViaReq++
	ctl.mu.Lock()
	save := ctl.cur
	ctl.cur = ctl.sink
	ctl.mu.Unlock()
	c11Serve(p, &c11Body{reads: []c11Rd{{b: c11PoisonPattern}, {b: c11PoisonPattern}, {b: []byte("\n")}}}, false)
	ctl.mu.Lock()
	ctl.cur = save
	ctl.mu.Unlock()
}

// one gzip member per read
func c11GzMembers(reads []c11Rd) []byte {
	if len(reads) == 0 {
		return c11Gz(nil)
	}
	var z []byte
	for _, r := range reads {
		z = append(z, c11Gz([]c11Rd{r})...)
	}
	return z
}

func c11ExecGated(cs hx.Sx) hx.Sx {
	top := hx.Items(cs)
	if cfg := hx.Items(top[0]); len(cfg) > 0 && hx.Int(cfg[0]) == 1 {
		defer runtime.GOMAXPROCS(runtime.GOMAXPROCS(1))
	} else {
		defer runtime.GOMAXPROCS(runtime.GOMAXPROCS(c11ProcsAtStart)) // also inside the generator's GOMAXPROCS(1) block
	}
	p, ctl := c11GatePlugin() // created under the case's GOMAXPROCS: its pools size their per-P caches on first use
	var reqs []*c11GReq
	for _, rq := range hx.Items(top[1]) {
		it := hx.Items(rq)
		r := &c11GReq{gz: hx.Int(it[0]) == 1, reads: c11Reads(it[1]), parks: map[int]bool{}, wake: make(chan struct{})}
		for _, k := range hx.Items(it[2]) {
			r.parks[int(hx.Int(k))] = true
		}
		reqs = append(reqs, r)
	}
	ctl.all = reqs
	ctl.sig = make(chan int, 2*len(reqs)+2)
	ctl.sink = &c11GReq{parks: map[int]bool{}}
	resume := func(r *c11GReq) {
		if r.done {
			return
		}
		ctl.mu.Lock()
		ctl.cur = r
		ctl.mu.Unlock()
		if !r.started {
			r.started = true
			var body io.ReadCloser = &c11Body{reads: r.reads}
			if r.gz {
				body = io.NopCloser(bytes.NewReader(c11GzMembers(r.reads)))
			}
			go func() {
				code := c11Serve(p, body, r.gz)
				ctl.mu.Lock()
				r.code = code
				ctl.mu.Unlock()
				ctl.sig <- 1
			}()
		} else {
			r.wake <- struct{}{}
		}
		select {
		case s := <-ctl.sig:
			if s == 1 {
				r.done = true
			}
		case <-time.After(20 * time.Second):
			// the code under test neither handed over an event nor answered: report it, never hang the harness
			r.done, r.timeout = true, true
			c11GateTimeouts++
		}
	}
	for _, st := range hx.Items(top[2]) {
		k := int(hx.Int(st))
		switch {
		case k == -1:
			c11PoisonStep(p, ctl)
		case k >= 0 && k < len(reqs):
			resume(reqs[k])
		}
	}
	for _, r := range reqs {
		for !r.done {
			resume(r)
		}
	}
	ctl.mu.Lock()
	defer ctl.mu.Unlock()
	out := make([]hx.Sx, len(reqs))
	for i, r := range reqs {
		evs := r.evs
		for j := 1; j < len(r.ids); j++ {
			if r.ids[j] != r.ids[0] {
				evs = append(evs, []byte("MIXED-SOURCE-IDS"))
				break
			}
		}
		if r.shared {
			evs = append(evs, []byte("SHARED-SOURCE-ID"))
		}
		code := r.code
		if r.timeout {
			code = -2
		}
		out[i] = c11Obs(evs, code)
	}
	return hx.L(out...)
}

// ---- generators ---------------------------------------------------------------------------------------------------

func c11NEvents(reads [][]byte) int {
	var b []byte
	for _, r := range reads {
		b = append(b, r...)
	}
	n := bytes.Count(b, []byte{'\n'})
	if len(b) > 0 && b[len(b)-1] != '\n' {
		n++
	}
	return n
}

func c11GReqSx(gz int, reads [][]byte, parks []int) hx.Sx {
	rs := make([]hx.Sx, len(reads))
	for i, r := range reads {
		rs[i] = hx.B(r)
	}
	ps := make([]hx.Sx, len(parks))
	for i, k := range parks {
		ps[i] = hx.I(k)
	}
	return hx.L(hx.I(gz), hx.L(rs...), hx.L(ps...))
}

func c11GCase(procs int, reqs []hx.Sx, steps []int) hx.Sx {
	ss := make([]hx.Sx, len(steps))
	for i, s := range steps {
		ss[i] = hx.I(s)
	}
	return hx.L(hx.L(hx.I(procs)), hx.L(reqs...), hx.L(ss...))
}

func c11Rep(ch byte, n int) string { return string(bytes.Repeat([]byte{ch}, n)) }

func c11Strs(ss ...string) [][]byte {
	out := make([][]byte, len(ss))
	for i, s := range ss {
		out[i] = []byte(s)
	}
	return out
}

func c11GenGated(c *hmain.Ctx) {
	r := c.R
	thorough := c.Tier == "thorough"
	// the per-case GOMAXPROCS(1) of Exec is a no-op inside this block (one stop-the-world here instead of two per case);
	// a --replay of a single case sets and restores it itself
	defer runtime.GOMAXPROCS(runtime.GOMAXPROCS(1))
	b0, v0, t0 := c11PoisonBufs, c11PoisonViaReq, c11GateTimeouts

	// ---- gated-small: small scope, enumerated --------------------------------------------------------------------------
	// request A (parked at EVERY one of its events in turn: an unterminated tail that lives in the carry-over buffer, a
	// tail grown beyond the initial 16 B, a middle line that is a sub-slice of the read buffer, a middle line joined in
	// the carry-over buffer) x request B (carry-over used / not used, shorter / equal / longer than A's, plain / gzip)
	// x what happens while A is parked (B runs to its end; the pools are poisoned; both; B parks too and either one is
	// released first).
	as := [][][]byte{
		c11Strs("A\nAA"),
		c11Strs("A\nA", "A"),
		c11Strs("AA"),
		c11Strs(c11Rep('A', 20)),
		c11Strs("A\nAA\nAAA\n"),
		c11Strs("A\nA", "A\nAAA\n"),
		c11Strs("AAAA\nAAAA\nAA", "AA\nAAAA"),
	}
	bs := [][][]byte{
		c11Strs("BB", "\nB\n"),
		c11Strs(c11Rep('B', 20), "BB\n"),
		c11Strs("B\n"),
		c11Strs("BBBB"),
		c11Strs("BBB", "BBB", "B\nBB"),
	}
	if thorough {
		as = append(as, c11Strs(c11Rep('A', 16)), c11Strs("AAA\n"+c11Rep('A', 17), c11Rep('A', 17)+"\nA"),
			c11Strs(c11Rep('A', c11ReadBuf-1)+"\nAAA", "AA\nA"))
		bs = append(bs, c11Strs(c11Rep('B', 16)), c11Strs("B\n"+c11Rep('B', 17), "B"), c11Strs(c11Rep('B', c11ReadBuf), "B\n"))
	}
	for _, a := range as {
		na := c11NEvents(a)
		for park := 0; park < na; park++ {
			for _, b := range bs {
				nb := c11NEvents(b)
				for gz := 0; gz <= 1; gz++ {
					ra := c11GReqSx(0, a, []int{park})
					rb := c11GReqSx(gz, b, nil)
					rbp := c11GReqSx(gz, b, []int{nb - 1})
					c.Do("gated-small", 8, c11GCase(1, []hx.Sx{ra, rb}, []int{0, 1, 0}), true)
					c.Do("gated-small", 8, c11GCase(1, []hx.Sx{ra, rb}, []int{0, 1, -1, 0}), true)
					c.Do("gated-small", 8, c11GCase(1, []hx.Sx{ra, rbp}, []int{0, 1, 0, 1}), true)
					c.Do("gated-small", 8, c11GCase(1, []hx.Sx{ra, rbp}, []int{0, 1, 1, 0}), true)
					if gz == 1 {
						// A gzip too (its members are its reads)
						c.Do("gated-small", 8, c11GCase(1, []hx.Sx{c11GReqSx(1, a, []int{park}), rb}, []int{0, 1, 0}), true)
					}
				}
			}
			// nobody else: the pools are poisoned while A is parked
			for gz := 0; gz <= 1; gz++ {
				c.Do("gated-small", 8, c11GCase(1, []hx.Sx{c11GReqSx(gz, a, []int{park})}, []int{0, -1, 0}), true)
			}
		}
	}

	// ---- random bodies ---------------------------------------------------------------------------------------------------
	body := func(letter byte, nlines int, lineLen func() int, tail bool) []byte {
		var b []byte
		for i := 0; i < nlines; i++ {
			b = append(b, bytes.Repeat([]byte{letter}, lineLen())...)
			if r.Chance(1, 6) {
				b = append(b, '\r')
			}
			if i < nlines-1 || !tail {
				b = append(b, '\n')
			}
		}
		return b
	}
	// a split that cuts inside lines (the transport splits the body mid-line: the carry-over buffer is used)
	split := func(b []byte, pieces int) [][]byte {
		var out [][]byte
		for len(b) > 0 {
			k := len(b)
			if pieces > 1 {
				switch r.Intn(3) {
				case 0:
					k = 1 + r.Intn(4)
				case 1:
					k = 1 + r.Intn(len(b))
				default:
					k = 1 + r.Intn(40)
				}
				if len(b) > 3000 && k < 700 {
					k += 700 // the model's carry-over append is linear in the carry
				}
				if k > len(b) {
					k = len(b)
				}
			}
			out = append(out, b[:k])
			b = b[k:]
			pieces--
		}
		return out
	}
	lineLen := func(big *int) func() int {
		return func() int {
			switch r.Intn(8) {
			case 0:
				return r.Range(1, 3)
			case 1, 2:
				return r.Range(1, 15) // fits the initial carry-over buffer (AvgEventSize = 16)
			case 3:
				return hx.Pick(r, []int{15, 16, 17})
			case 4:
				if *big > 0 {
					*big--
					c.W.Count("gated_line_ge_16k")
					return hx.Pick(r, []int{c11ReadBuf - 1, c11ReadBuf, c11ReadBuf + 1})
				}
			case 5:
				return r.Range(100, 600)
			}
			return r.Range(17, 60)
		}
	}

	// ---- gated-tail / gated-middle / gated-gzip: the scenario of the r4 seed and its neighbours, random sizes -------------
	// A is parked at its LAST event (tail: unterminated, lives in the carry-over buffer) resp. at a middle one; meanwhile
	// 1-2 other requests whose bodies are cut inside a line run to their end or park too; sometimes the pools are
	// poisoned; then A is released.
	scenario := func(name string, tail bool, gzA, gzB int) {
		big := 0
		if r.Chance(1, 10) {
			big = 1
		}
		ll := lineLen(&big)
		nA := r.Range(1, 5)
		if !tail && nA < 2 {
			nA = 2
		}
		ba := body('A', nA, ll, tail || r.Bool())
		ra := split(ba, r.Range(1, 4))
		ea := c11NEvents(ra)
		park := ea - 1
		if !tail {
			park = r.Intn(ea - 1)
		}
		reqs := []hx.Sx{c11GReqSx(gzA, ra, []int{park})}
		steps := []int{0}
		nOther := r.Range(1, 2)
		for q := 1; q <= nOther; q++ {
			bb := body('A'+byte(q), r.Range(1, 4), ll, r.Bool())
			rb := split(bb, r.Range(2, 4))
			var parks []int
			if eb := c11NEvents(rb); eb > 0 && r.Chance(1, 3) {
				parks = []int{r.Intn(eb)}
				c.W.Count("gated_other_request_parks_too")
			}
			reqs = append(reqs, c11GReqSx(gzB, rb, parks))
			steps = append(steps, q)
			if r.Chance(1, 4) {
				steps = append(steps, -1)
			}
		}
		if r.Chance(1, 3) {
			steps = append(steps, -1)
		}
		steps = append(steps, 0)
		procs := 1
		if r.Chance(1, 8) {
			procs = 0
			c.W.Count("gated_procs_unchanged")
		}
		c.Do(name, 8, c11GCase(procs, reqs, steps), true)
	}
	for i := 0; i < 60*c.Scale; i++ {
		scenario("gated-tail", true, 0, 0)
		scenario("gated-middle", false, 0, 0)
	}
	for i := 0; i < 40*c.Scale; i++ {
		scenario("gated-gzip", r.Bool(), r.Intn(2), 1)
	}

	// ---- gated-random: 2-4 requests, arbitrary parks, arbitrary script ------------------------------------------------------
	for i := 0; i < 120*c.Scale; i++ {
		n := r.Range(2, 4)
		big := 0
		if r.Chance(1, 12) {
			big = 1
		}
		ll := lineLen(&big)
		var reqs []hx.Sx
		parksTotal := 0
		for q := 0; q < n; q++ {
			bb := body('A'+byte(q), r.Intn(6), ll, r.Bool())
			rd := split(bb, r.Range(1, 5))
			ne := c11NEvents(rd)
			var parks []int
			for k := 0; k < ne; k++ {
				if (k == ne-1 && r.Chance(1, 2)) || r.Chance(1, 4) {
					parks = append(parks, k)
				}
			}
			parksTotal += len(parks)
			reqs = append(reqs, c11GReqSx(r.Intn(2)*r.Intn(2), rd, parks))
		}
		var steps []int
		for j := r.Range(n, 2*n+parksTotal+2); j > 0; j-- {
			if r.Chance(1, 6) {
				steps = append(steps, -1)
			} else {
				steps = append(steps, r.Intn(n))
			}
		}
		procs := 1
		if r.Chance(1, 8) {
			procs = 0
			c.W.Count("gated_procs_unchanged")
		}
		c.W.Count(fmt.Sprintf("gated_random_requests_%d", n))
		c.Do("gated-random", 8, c11GCase(procs, reqs, steps), parksTotal > 0)
	}

	c.W.Dist["gated_poisoned_buffers"] += c11PoisonBufs - b0
	c.W.Dist["gated_poison_steps_via_request_fallback"] += c11PoisonViaReq - v0
	c.W.Dist["gated_driver_timeouts"] += c11GateTimeouts - t0
	c.W.Dist[fmt.Sprintf("gated_plugin_pool_fields_reached_%d", c11PoisonPools)]++
}
