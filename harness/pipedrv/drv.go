// Package pipedrv drives a REAL pipeline.Pipeline (real streamer, streams, processors, pools, router,
// batchers) with scripted fake input / action / output plugins and collects the verif trace labels of
// that pipeline (stream, processor, finalize, batcher labels), demultiplexed per pipeline so that
// cases can run concurrently in one process.
package pipedrv

import (
	"context"
	"errors"
	"fmt"
	"os"
	"regexp"
	"runtime"
	"sync"
	"sync/atomic"
	"time"

	"github.com/ozontech/file.d/decoder"
	"github.com/ozontech/file.d/pipeline"
	"github.com/ozontech/file.d/pipeline/doif"
	"github.com/ozontech/file.d/pipeline/metadata"
	fileinput "github.com/ozontech/file.d/plugin/input/file"
	insaneJSON "github.com/ozontech/insane-json"
	"github.com/prometheus/client_golang/prometheus"
	"go.uber.org/zap"

	"verif/harness/hx"
)

// harness-side label kinds
const (
	LCommitEv   = 100 // batcher Controller.Commit observed (objkind 1)
	LPanic      = 101
	LOutSaw     = 102
	LStuck      = 103 // (4 0 103 what a b)
	LOnError    = 104
	LDqOut      = 105
	LQuiescent  = 110 // (4 0 110 inUse waiters)       pool state when the run ended
	LInRefused  = 111 // (4 0 111 src offset)          In returned EventSeqIDError
	LIdleTimout = 112 // (3 p 112 actionIdx streamIdx) a fake action received a time-out event while holding nothing
	LActionSaw  = 113 // (3 p 113 actionIdx streamIdx seq kind)
	LProbe      = 114 // (4 0 114 latencyMs boundMs src offset) time from In() to the input commit of a probe event
	LProcCount  = 115 // (4 0 115 procCountAtQuiescence procCountAtStart) growProcs / expandProcs observed
	LMaint      = 117 // (1 bidx 117 n) the batcher's MaintenanceFn ran for the n-th time (harness-only)
	// early stop (option 9): Pipeline.Stop is called while events are in flight.  (4 0 116 inUse waiters accepted 0) is
	// recorded right before the call INSTEAD of 115 / 110 (no quiescence is awaited, none is claimed), (4 0 120 inUse 0 0 0)
	// after it returned
	LStopCalled = 116
	LStopDone   = 120
	// file-input commit (option 8): InputPlugin.Commit is forwarded to the REAL plugin/input/file jobProvider.commit
	// (4 0 118 stream offset src panicked) per forwarded commit, (4 0 119 src stream storedOffset 0) per stored offset at the end
	LFileCommit = 118
	LFileOffset = 119
	// LPanic with a code >= 2 is an integrity failure seen by a fake action / the fake output (the real code handed over a
	// recycled event that is not what was read): (k o 101 code actionIdx 0 0)
	//   2 pad shorter / longer than the event says   3 pad bytes are not this event's   4 wide object lost fields
	//   5 Buf of a fresh event not empty at action 0  6 a field of a split child is not the child's own
	CorruptPadLen = 2
	CorruptPad    = 3
	CorruptWide   = 4
	CorruptBuf    = 5
	CorruptKid    = 6
	PanicInCommit = 7 // (1 b 101 7 0 0 0): pipeline.Commit panicked under batcher b's Controller.Commit
	// (1 b 101 8 seq 0 0): batcher b called Controller.Commit for an event object that it does not own (handed to the other
	// batcher in the meantime, or already committed); the call was not forwarded to the pipeline (see owners)
	NotOwnerCommit = 8
)

// PadByte is byte i of the pad of the event read at `off` (feeder op 6).
func PadByte(off int64, i int) byte { return byte('a' + (off+int64(i))%26) }

// checkEvent is the integrity oracle of the recycle families: an event built by feeder op 6 says how long its pad is
// ("plen"), which offset seeded the pad bytes ("off") and how many fields its wide object has ("wn").  An event object
// that comes back from the pool with stale buffers, or a Root whose node pool was released wrongly, fails here.
func checkEvent(e *pipeline.Event) int {
	if e.Root == nil {
		return 0
	}
	if n := e.Root.Dig("plen"); n != nil {
		pad := e.Root.Dig("pad")
		if pad == nil {
			return CorruptPadLen
		}
		ps := pad.AsString()
		if len(ps) != n.AsInt() {
			return CorruptPadLen
		}
		off := int64(0)
		if o := e.Root.Dig("off"); o != nil {
			off = int64(o.AsInt())
		}
		for i := 0; i < len(ps); i++ {
			if ps[i] != PadByte(off, i) {
				return CorruptPad
			}
		}
	}
	if n := e.Root.Dig("wn"); n != nil {
		w := e.Root.Dig("w")
		if w == nil || !w.IsObject() || len(w.AsFields()) != n.AsInt() {
			return CorruptWide
		}
		for i, f := range w.AsFields() {
			if f.AsString() != fmt.Sprintf("k%d", i) || f.AsFieldValue().AsInt() != i {
				return CorruptWide
			}
		}
	}
	if n := e.Root.Dig("kid"); n != nil {
		// a split child carries the offset of its parent and its own index: "kid":"<off>.<i>", "koff":off, "ki":i
		if o, i := e.Root.Dig("koff"), e.Root.Dig("ki"); o == nil || i == nil || n.AsString() != fmt.Sprintf("%d.%d", o.AsInt(), i.AsInt()) {
			return CorruptKid
		}
	}
	return 0
}

type rawLabel struct {
	obj  any
	kind int
	a    [4]int64
	t    time.Time
}

type caseLog struct {
	mu      sync.Mutex
	labels  []rawLabel
	commits atomic.Int64
}

func (l *caseLog) add(obj any, kind int, a, b, c, d int64) {
	l.mu.Lock()
	l.labels = append(l.labels, rawLabel{obj, kind, [4]int64{a, b, c, d}, time.Now()})
	l.mu.Unlock()
}

var (
	regMu     sync.RWMutex
	registry  = map[any]*caseLog{} // streamer key or *Batcher -> log
	gates     = map[any]func(point int, obj any){}
	hooksOnce sync.Once
	startMu   sync.Mutex // serialises Pipeline.Start (GOMAXPROCS decides the processor count there)
)

// UseProductionNodePool sets what cmd/file.d sets at start-up: events start with a node pool of 16 (the library default is
// 128), so that wide events really grow the pool and resetEvent's `PoolSize() > DefaultJSONNodePoolSize*4` has both outcomes.
// The value is process-wide: it is called from main() of the harnesses that own their whole process (C01, C02, C04, C05),
// never from the drivers (C10, C13, C15 share them and decide for themselves).
func UseProductionNodePool() { insaneJSON.StartNodePoolSize = pipeline.DefaultJSONNodePoolSize }

func installHooks() {
	hooksOnce.Do(func() {
		pipeline.SetVerifHooks(func(kind int, obj any, a, b, c, d int64) {
			key := pipeline.VerifOwner(obj)
			regMu.RLock()
			l := registry[key]
			regMu.RUnlock()
			if l != nil {
				l.add(obj, kind, a, b, c, d)
			}
		}, func(point int, obj any) {
			key := pipeline.VerifOwner(obj)
			regMu.RLock()
			g := gates[key]
			regMu.RUnlock()
			if g != nil {
				g(point, obj)
			}
		})
	})
}

func register(key any, l *caseLog) {
	regMu.Lock()
	registry[key] = l
	regMu.Unlock()
}
func unregister(key any) {
	regMu.Lock()
	delete(registry, key)
	delete(gates, key)
	regMu.Unlock()
}

// ---- fake plugins -----------------------------------------------------------------------------

type fakeInput struct {
	refuseOdd bool
	suggest   decoder.Type // != NO: what plugin/input/k8s does in Start
	fc        *fileCommit  // != nil: commits go to the real file input's jobProvider.commit
}

func (f *fakeInput) Start(_ pipeline.AnyConfig, p *pipeline.InputPluginParams) {
	if f.suggest != decoder.NO {
		p.Controller.SuggestDecoder(f.suggest)
	}
}
func (f *fakeInput) Stop() {}
func (f *fakeInput) Commit(e *pipeline.Event) {
	if f.fc != nil {
		f.fc.commit(e)
	}
}

// fileCommit: the second caller of the commit order (C02 anchors plugin/input/file/provider.go): every InputPlugin.Commit
// of the case is handed to the real jobProvider.commit of the file input (one job per source, offsets per stream name).  That
// code panics ("offset corruption") when a commit does not move the stream's offset forward, i.e. on every out-of-order or
// repeated commit; the panic is caught and recorded, and the offsets the provider ends up with are read back through the real
// offsetDB.save / load.
type fileCommit struct {
	log    *caseLog
	pipe   any
	prov   *fileinput.VerifC07Provider
	mu     sync.Mutex
	names  map[[2]string]int64 // (source, stream name) -> stream address
	file   string
	closed bool
}

func newFileCommit(log *caseLog, nsrc int) *fileCommit {
	f, err := os.CreateTemp("", "verif-pipe-offsets-*.yaml")
	if err != nil {
		return nil
	}
	f.Close()
	table := make([]fileinput.VerifC07Job, 0, nsrc)
	for s := 1; s <= nsrc; s++ {
		table = append(table, fileinput.VerifC07Job{Filename: fmt.Sprintf("/verif/src%d.log", s), Inode: uint64(100 + s), SourceID: uint64(s)})
	}
	return &fileCommit{log: log, prov: fileinput.VerifC07NewProvider(f.Name(), f.Name()+".tmp", table), names: map[[2]string]int64{}, file: f.Name()}
}

func (f *fileCommit) commit(e *pipeline.Event) {
	// one forwarded commit = one critical section (provider call + label), so that the labels 118 appear in the order the
	// provider saw the commits and the labels 119 of finish() describe the provider's state at their place in the trace
	f.mu.Lock()
	defer f.mu.Unlock()
	if f.closed {
		return // an early-stop case: the trace was taken while processors were still committing
	}
	panicked := int64(0)
	sid := e.VerifStreamID()
	func() {
		defer func() {
			if r := recover(); r != nil {
				panicked = 1
			}
		}()
		f.prov.Commit(e)
	}()
	f.names[[2]string{fmt.Sprint(uint64(e.SourceID)), string(e.StreamNameBytes())}] = sid
	f.log.add(f.pipe, LFileCommit, sid, e.Offset, int64(e.SourceID), panicked)
}

// finish records what the provider stored: one label per (source, stream) of the saved offsets file.
func (f *fileCommit) finish() {
	defer os.Remove(f.file)
	defer os.Remove(f.file + ".tmp")
	f.mu.Lock()
	defer f.mu.Unlock()
	f.closed = true
	f.prov.Save()
	table, err := fileinput.VerifC07Load(f.file)
	if err != nil {
		f.log.add(f.pipe, LFileOffset, -1, 0, 0, 0)
		return
	}
	for _, j := range table {
		for _, st := range j.Streams {
			sid, ok := f.names[[2]string{fmt.Sprint(j.SourceID), st.Name}]
			if !ok {
				sid = 0 // a stored stream nobody committed: index -1 in the canonical trace
			}
			f.log.add(f.pipe, LFileOffset, int64(j.SourceID), sid, st.Offset, 0)
		}
	}
}
func (f *fakeInput) PassEvent(e *pipeline.Event) bool {
	n := e.Root.Dig("refuse")
	return n == nil
}

// kafkaLikeInput spreads events over all processors, as plugin/input/kafka does in Start.
type kafkaLikeInput struct{ fakeInput }

func (f *kafkaLikeInput) Start(_ pipeline.AnyConfig, p *pipeline.InputPluginParams) {
	p.Controller.UseSpread()
	p.Controller.DisableStreams()
}

// scripted action: the i-th character of the event's "ops" field is the op for action i:
//
//	p pass | d discard | b break | h hold (start of a run) | c continue (collapse while holding) | s split into the objects of "kids"
//	g pass after growing e.Buf by 5000 bytes
//
// it follows the protocol of the join plugin: a non-continuing event or a time-out flushes the held event via Propagate.
type fakeAction struct {
	log    *caseLog
	idx    int
	ctl    pipeline.ActionPluginController
	held   *pipeline.Event
	jitter int
}

func (a *fakeAction) Start(_ pipeline.AnyConfig, p *pipeline.ActionPluginParams) {
	a.ctl = p.Controller
	a.idx = p.Index
}
func (a *fakeAction) Stop() {}
func (a *fakeAction) flush() {
	h := a.held
	a.held = nil
	a.ctl.Propagate(h)
}
func (a *fakeAction) Do(e *pipeline.Event) pipeline.ActionResult {
	if e.IsTimeoutKind() {
		if a.held == nil {
			a.log.add(a.ctl, LIdleTimout, int64(a.idx), e.VerifStreamID(), 0, 0)
			return pipeline.ActionDiscard
		}
		a.flush()
		return pipeline.ActionDiscard
	}
	if c := checkEvent(e); c != 0 {
		a.log.add(a.ctl, LPanic, int64(c), int64(a.idx), 0, 0)
	}
	if a.idx == 0 && e.IsRegularKind() && len(e.Buf) != 0 {
		a.log.add(a.ctl, LPanic, CorruptBuf, int64(a.idx), 0, 0)
	}
	op := byte('p')
	if n := e.Root.Dig("ops"); n != nil {
		s := n.AsString()
		if a.idx < len(s) {
			op = s[a.idx]
		}
	} else if s, ok := embeddedOps(e); ok && a.idx < len(s) {
		// raw / cri decoder: the event text travels in "message" / "log"; its ops script is read from there
		op = s[a.idx]
		if op == 's' {
			op = 'p' // no "kids" array to spawn from
		}
	}
	if n := e.Root.Dig("slow"); n != nil {
		time.Sleep(time.Duration(n.AsInt()) * time.Microsecond)
	}
	switch op {
	case 'h':
		if a.held != nil {
			a.flush()
		}
		a.held = e
		return pipeline.ActionHold
	case 'c':
		if a.held != nil {
			return pipeline.ActionCollapse
		}
		return pipeline.ActionPass
	}
	if a.held != nil {
		a.flush()
	}
	switch op {
	case 'g':
		// what decode / modify / join do: the event's scratch buffer grows past the 4 KiB the pool keeps
		e.Buf = append(e.Buf, make([]byte, 5000)...)
		return pipeline.ActionPass
	case 'd':
		return pipeline.ActionDiscard
	case 'b':
		return pipeline.ActionBreak
	case 's':
		kids := e.Root.Dig("kids")
		if kids != nil && kids.IsArray() {
			nodes := make([]*insaneJSON.Node, 0, 2)
			nodes = append(nodes, kids.AsArray()...)
			a.ctl.Spawn(e, nodes)
			return pipeline.ActionBreak
		}
		return pipeline.ActionPass
	}
	return pipeline.ActionPass
}

var embeddedOpsRe = regexp.MustCompile(`"ops":"([a-z]*)"`)

func embeddedOps(e *pipeline.Event) (string, bool) {
	for _, f := range []string{"log", "message"} {
		if n := e.Root.Dig(f); n != nil {
			if m := embeddedOpsRe.FindStringSubmatch(n.AsString()); m != nil {
				return m[1], true
			}
		}
	}
	return "", false
}

type outCfg struct {
	kind     int // 0 synchronous commit, 1 Batcher, 2 RetriableBatcher (+ optional dead queue)
	workers  int
	count    int
	flushMs  int
	retry    int
	deadq    bool
	plan     []hx.Sx // per batch seq: (delayMs failures)
	maxDelay int
	// backoff of the retriable output (ext): MinRetention in ms, Multiplier in percent; 0 = the historical 1 ms / 1.0
	retentionMs int
	multPct     int
	maintMs     int // > 0: MaintenanceFn / MaintenanceInterval of the main batcher
	dqDelayMs   int // > 0: every send of the dead-queue output blocks that long before it acknowledges
	batchBytes  int // > 0: BatchSizeBytes of the batchers (option 10)
}

type fakeOutput struct {
	log       *caseLog
	cfg       outCfg
	ctl       pipeline.OutputPluginController
	add       func(*pipeline.Event)
	stop      func()
	batch     *pipeline.Batcher
	dq        *pipeline.Batcher
	cancel    context.CancelFunc
	failMu    sync.Mutex
	failsLeft map[int64]int
	router    *pipeline.Router
	maintN    atomic.Int64
	own       *owners
}

var errSend = errors.New("scripted send failure")

func (o *fakeOutput) send(bidx int, batch *pipeline.Batch) error {
	seq := batch.VerifSeq()
	var obj any = o.batch
	if bidx == 1 {
		obj = o.dq
	}
	ids := [4]int64{seq, 0, 0, 0}
	n := 0
	batch.ForEach(func(e *pipeline.Event) { n++ })
	ids[1] = int64(n)
	o.log.add(obj, LOutSaw, ids[0], ids[1], 0, 0)
	if bidx != 0 {
		// a blocking dead-queue output: between the hand-over (LDqOut / Add on batcher 1) and this return no output has
		// acknowledged the events, so a main batcher that commits them anyway is visible in the trace
		if o.cfg.dqDelayMs > 0 {
			time.Sleep(time.Duration(o.cfg.dqDelayMs) * time.Millisecond)
		}
		return nil
	}
	delay, fails := 0, 0
	if int(seq) < len(o.cfg.plan) {
		p := hx.Items(o.cfg.plan[seq])
		delay, fails = int(hx.Int(p[0])), int(hx.Int(p[1]))
	}
	if delay > 0 {
		time.Sleep(time.Duration(delay) * time.Millisecond)
	}
	o.failMu.Lock()
	defer o.failMu.Unlock()
	left, seen := o.failsLeft[seq]
	if !seen {
		left = fails
	}
	if left > 0 {
		o.failsLeft[seq] = left - 1
		return errSend
	}
	o.failsLeft[seq] = 0
	return nil
}

type recCtl struct {
	log   *caseLog
	obj   func() any
	inner pipeline.OutputPluginController
	bidx  int
	own   *owners
}

// owners: which batcher (0 main, 1 dead queue) an event OBJECT was last handed to by the real code (OutputPlugin.Out of the
// main output / of the dead queue via Router.Fail), until that batcher's Controller.Commit of it is forwarded.  A batcher
// that commits an event object it does not own - the main batcher after the batch went to the dead queue, any batcher a second
// time - would make the real pipeline finalize one event twice: the object is back in the pool or already re-used by then, and
// the pipeline dies in an unrelated goroutine (nil stream in finalize), taking all cases of the process with it.  Such a
// Commit is recorded like every other (label 100: the monitors judge it), reported as label 101 / NotOwnerCommit, and NOT
// forwarded.  On correct code the check never fires.
type owners struct {
	mu sync.Mutex
	m  map[*pipeline.Event]int
}

func (w *owners) set(e *pipeline.Event, b int) {
	w.mu.Lock()
	w.m[e] = b
	w.mu.Unlock()
}

func (w *owners) take(e *pipeline.Event, b int) bool {
	w.mu.Lock()
	defer w.mu.Unlock()
	if cur, ok := w.m[e]; !ok || cur != b {
		return false
	}
	delete(w.m, e)
	return true
}

func (c *recCtl) Commit(e *pipeline.Event) {
	c.log.add(c.obj(), LCommitEv, int64(e.SeqID), e.VerifStreamID(), int64(e.Size), int64(e.VerifKind()))
	if !c.own.take(e, c.bidx) {
		c.log.add(c.obj(), LPanic, NotOwnerCommit, int64(e.SeqID), 0, 0)
		return
	}
	// the real pipeline may panic inside Commit (e.g. the second finalize of an event that two batchers both believe to own
	// dereferences its cleared stream): that must not take the harness process and the other cases down.  It is recorded as
	// a panic of this batcher (label 101: monitor 1 and the batcher LTS both reject it) and the worker goes on
	defer func() {
		if r := recover(); r != nil {
			c.log.add(c.obj(), LPanic, PanicInCommit, 0, 0, 0)
		}
	}()
	c.inner.Commit(e)
}
func (c *recCtl) Error(s string) { c.inner.Error(s) }

type dqPlugin struct{ o *fakeOutput }

func (d *dqPlugin) Start(pipeline.AnyConfig, *pipeline.OutputPluginParams) {}
func (d *dqPlugin) Stop()                                                  {}
func (d *dqPlugin) Out(e *pipeline.Event) {
	d.o.log.add(d.o.dq, LDqOut, int64(e.SeqID), e.VerifStreamID(), 0, 0)
	d.o.own.set(e, 1)
	d.o.dq.Add(e)
}

func (o *fakeOutput) backoff() pipeline.BackoffOpts {
	b := pipeline.BackoffOpts{MinRetention: time.Millisecond, Multiplier: 1.0, AttemptNum: o.cfg.retry, IsDeadQueueAvailable: o.cfg.deadq}
	if o.cfg.retentionMs > 0 {
		b.MinRetention = time.Duration(o.cfg.retentionMs) * time.Millisecond
	}
	if o.cfg.multPct > 0 {
		b.Multiplier = float64(o.cfg.multPct) / 100
	}
	return b
}

// maintenance installs the batcher's MaintenanceFn hook (elasticsearch / clickhouse use it to refresh clients).
func (o *fakeOutput) maintenance(opts *pipeline.BatcherOptions) {
	if o.cfg.maintMs <= 0 {
		return
	}
	opts.MaintenanceInterval = time.Duration(o.cfg.maintMs) * time.Millisecond
	opts.MaintenanceFn = func(*pipeline.WorkerData) {
		o.log.add(o.batch, LMaint, o.maintN.Add(1), 0, 0, 0)
		time.Sleep(time.Millisecond)
	}
}

func (o *fakeOutput) Start(_ pipeline.AnyConfig, p *pipeline.OutputPluginParams) {
	o.ctl = p.Controller
	o.router = p.Router
	o.failsLeft = map[int64]int{}
	o.own = &owners{m: map[*pipeline.Event]int{}}
	ctx, cancel := context.WithCancel(context.Background())
	o.cancel = cancel
	switch o.cfg.kind {
	case 0:
		o.add = func(e *pipeline.Event) { o.ctl.Commit(e) }
		o.stop = func() {}
	case 1:
		bo := pipeline.BatcherOptions{
			PipelineName: p.PipelineName, OutputType: "verif", Controller: &recCtl{o.log, func() any { return o.batch }, o.ctl, 0, o.own},
			OutFn:   func(_ *pipeline.WorkerData, b *pipeline.Batch) { _ = o.send(0, b) },
			Workers: o.cfg.workers, BatchSizeCount: o.cfg.count, BatchSizeBytes: o.cfg.batchBytes, FlushTimeout: time.Duration(o.cfg.flushMs) * time.Millisecond,
			MetricCtl: p.MetricCtl,
		}
		o.maintenance(&bo)
		o.batch = pipeline.NewBatcher(bo)
		register(o.batch, o.log)
		o.add, o.stop = o.batch.Add, o.batch.Stop
		o.batch.Start(ctx)
	case 2:
		if o.cfg.deadq {
			o.dq = pipeline.NewBatcher(pipeline.BatcherOptions{
				PipelineName: p.PipelineName, OutputType: "verifdq", Controller: &recCtl{o.log, func() any { return o.dq }, o.ctl, 1, o.own},
				OutFn:   func(_ *pipeline.WorkerData, b *pipeline.Batch) { _ = o.send(1, b) },
				Workers: 1, BatchSizeCount: o.cfg.count, BatchSizeBytes: o.cfg.batchBytes, FlushTimeout: time.Duration(o.cfg.flushMs) * time.Millisecond,
				MetricCtl: p.MetricCtl,
			})
			register(o.dq, o.log)
			o.dq.Start(ctx)
		}
		opts := pipeline.BatcherOptions{
			PipelineName: p.PipelineName, OutputType: "verif", Controller: &recCtl{o.log, func() any { return o.batch }, o.ctl, 0, o.own},
			Workers: o.cfg.workers, BatchSizeCount: o.cfg.count, BatchSizeBytes: o.cfg.batchBytes, FlushTimeout: time.Duration(o.cfg.flushMs) * time.Millisecond,
			MetricCtl: p.MetricCtl,
		}
		o.maintenance(&opts)
		rb := pipeline.NewRetriableBatcher(&opts,
			func(_ *pipeline.WorkerData, b *pipeline.Batch) error { return o.send(0, b) },
			o.backoff(),
			func(err error, events []*pipeline.Event) {
				o.log.add(o.batch, LOnError, int64(len(events)), 0, 0, 0)
				for i := range events {
					o.router.Fail(events[i])
				}
			})
		o.batch = rb.VerifBatcher()
		register(o.batch, o.log)
		o.add, o.stop = rb.Add, rb.Stop
		rb.Start(ctx)
	}
}
func (o *fakeOutput) Stop() {
	o.stop()
	if o.dq != nil {
		o.dq.Stop()
	}
	o.cancel()
	if o.batch != nil {
		unregister(o.batch)
	}
	if o.dq != nil {
		unregister(o.dq)
	}
}
func (o *fakeOutput) Out(e *pipeline.Event) {
	if c := checkEvent(e); c != 0 {
		o.log.add(o.ctl, LPanic, int64(c), -1, 0, 0)
	}
	if o.cfg.kind != 0 {
		o.own.set(e, 0)
	}
	o.add(e)
}

// ExpandEvent builds the bytes of feeder op 6 from its compact form.
func ExpandEvent(js []byte, off int64, padLen, nWide int) []byte {
	out := make([]byte, 0, len(js)+padLen+16*nWide+32)
	out = append(out, js[:len(js)-1]...) // without the closing brace
	out = append(out, `,"pad":"`...)
	for i := 0; i < padLen; i++ {
		out = append(out, PadByte(off, i))
	}
	out = append(out, '"')
	if nWide > 0 {
		out = append(out, `,"w":{`...)
		for i := 0; i < nWide; i++ {
			if i > 0 {
				out = append(out, ',')
			}
			out = append(out, fmt.Sprintf(`"k%d":%d`, i, i)...)
		}
		out = append(out, '}')
	}
	return append(out, '}')
}

// xopts: the options of ext's 6th element, ((key value) ...).  Zero value = the historical behaviour.
//
//	1 decoder      0 json | 1 raw | 2 cri | 3 auto (nobody suggests: json) | 4 auto, the input suggests cri in Start (as k8s does)
//	               | 5 json, the input suggests cri all the same (ignored: the decoder is not auto)
//	2 maxEventSize Settings.MaxEventSize (bytes); 3 cutoff: 0 drop | 1 CutOffEventByLimit | 2 ... and CutOffEventByLimitField "cut"
//	4 antispam     threshold (> 0) with a maintenance interval of 30 ms
//	5 meta         1 every In carries meta {"mk":"s<src>"} | 2 ... and SourceNameMetaField = "mk" | 3 SourceNameMetaField = "absent"
//	6 match        match mode of the actions: 0 and + regexp (historical) | 1 or + regexp | 2 and_prefix + values | 3 or_prefix +
//	               values | 4 do_if (regex op); +8: MatchInvert with the complementary condition.  In every mode action i applies
//	               iff the i-th character of "m" is not '0'; what an event WITHOUT the field does differs (the trace shows it)
//	7 metrics      1 odd actions have no metric name | 2 even actions: MetricLabels [stream nofield], odd: MetricSkipStatus
//	8 fileCommit   1 InputPlugin.Commit goes to the real file-input jobProvider.commit (labels 118 / 119)
//	9 earlyStop    n > 0: Pipeline.Stop is called n-1 ms after the feeders finished or one of them asked for it (op 7), WITHOUT
//	               waiting for quiescence (labels 116 / 120 instead of 115 / 110)
//	10 batchBytes  BatchSizeBytes of the batchers
//	11 streamOff   n > 0: every In carries the saved stream offsets {stdout: n} (what the file input passes after a restart);
//	               with the cri decoder and antispam on, a stdout row below that offset is refused as already processed
//	12..15         one action of the case is a REAL holding plugin (join / join_template / k8s multiline): see real.go
type xopts struct {
	decoder, maxSize, cutoff, antispam, meta, match, metrics, fileCommit, earlyStop, batchBytes, streamOff int
	realKind, realCol, realMax, realVar                                                                    int // real.go
}

func parseXopts(ext []hx.Sx) (x xopts) {
	if len(ext) < 6 {
		return
	}
	for _, kv := range hx.Items(ext[5]) {
		it := hx.Items(kv)
		if len(it) != 2 {
			continue
		}
		v := int(hx.Int(it[1]))
		switch hx.Int(it[0]) {
		case 1:
			x.decoder = v
		case 2:
			x.maxSize = v
		case 3:
			x.cutoff = v
		case 4:
			x.antispam = v
		case 5:
			x.meta = v
		case 6:
			x.match = v
		case 7:
			x.metrics = v
		case 8:
			x.fileCommit = v
		case 9:
			x.earlyStop = v
		case 10:
			x.batchBytes = v
		case 11:
			x.streamOff = v
		case 12:
			x.realKind = v
		case 13:
			x.realCol = v
		case 14:
			x.realMax = v
		case 15:
			x.realVar = v
		}
	}
	return
}

// prefixValues: every string over {0,1} of length i followed by '1' - as match VALUES they say "the i-th character is '1'"
// under the prefix modes (want1) / "... is '0'" (complement, for MatchInvert).
func prefixValues(i int, want byte) []string {
	out := []string{}
	for b := 0; b < 1<<i; b++ {
		v := make([]byte, i+1)
		for k := 0; k < i; k++ {
			v[k] = '0' + byte(b>>k&1)
		}
		v[i] = want
		out = append(out, string(v))
	}
	return out
}

// actionInfo builds the static info of action i for the case's match / metric options.
func actionInfo(i int, x xopts, factory func() (pipeline.AnyPlugin, pipeline.AnyConfig)) *pipeline.ActionPluginStaticInfo {
	info := &pipeline.ActionPluginStaticInfo{
		PluginStaticInfo: &pipeline.PluginStaticInfo{Type: "verifact", Factory: factory},
		MetricName:       fmt.Sprintf("a%d", i),
		MatchMode:        pipeline.MatchModeAnd,
	}
	invert := x.match&8 != 0
	// action i applies to an event iff the i-th character of its "m" field is not '0' (the processor consults this only
	// while the action holds nothing).  Positive form: shorter than i+1 characters, or character i is not '0'; the
	// complement (for MatchInvert): at least i+1 characters and character i is '0'
	pos := fmt.Sprintf("^(.{0,%d}|.{%d}[^0].*)$", i, i)
	neg := fmt.Sprintf("^.{%d}0", i)
	re := pos
	want := byte('1')
	if invert {
		re, want = neg, '0'
		info.MatchInvert = true
	}
	switch x.match &^ 8 {
	case 0:
		info.MatchConditions = pipeline.MatchConditions{{Field: []string{"m"}, Regexp: regexp.MustCompile(re)}}
	case 1:
		info.MatchMode = pipeline.MatchModeOr
		info.MatchConditions = pipeline.MatchConditions{{Field: []string{"nofield"}, Values: []string{"x"}}, {Field: []string{"m"}, Regexp: regexp.MustCompile(re)}}
	case 2:
		info.MatchMode = pipeline.MatchModeAndPrefix
		info.MatchConditions = pipeline.MatchConditions{{Field: []string{"m"}, Values: prefixValues(i, want)}}
	case 3:
		info.MatchMode = pipeline.MatchModeOrPrefix
		info.MatchConditions = pipeline.MatchConditions{{Field: []string{"nofield"}, Values: []string{"x"}}, {Field: []string{"m"}, Values: prefixValues(i, want)}}
	case 4:
		// do_if: MatchInvert is not consulted on this path (processor.isMatch returns the checker's answer)
		info.MatchInvert = false
		if c, err := doif.NewFromMap(map[string]any{"op": "regex", "field": "m", "values": []any{pos}}); err == nil {
			info.DoIfChecker = c
		} else {
			info.MatchConditions = pipeline.MatchConditions{{Field: []string{"m"}, Regexp: regexp.MustCompile(pos)}}
		}
	}
	switch x.metrics {
	case 1:
		if i%2 == 1 {
			info.MetricName = ""
		}
	case 2:
		if i%2 == 0 {
			info.MetricLabels = []string{"stream", "nofield"}
		} else {
			info.MetricSkipStatus = true
		}
	}
	return info
}

// RunCase executes one case.
//
//	case = (cfg feeders plan [ext])
//	cfg  = (procs pool capacity eventTimeoutMs nActions outKind workers batchCount flushMs retry deadq spread [gate])
//	       procs: 1 = DisableParallelism, else 2*GOMAXPROCS at Start (harness sets GOMAXPROCS = procs/2 during Start)
//	       pool: 0 low-memory (default) | 1 standard
//	feeders = ((op ...) ...) one goroutine each; op = (0 src offset #json) In | (1 ms) sleep | (7) ask for the early stop now
//	          | (6 src offset #json padLen nWide) In of the event `json` extended by a pad of padLen bytes (PadByte) and an
//	            object "w" of nWide fields k0..: the text grows past AvgEventSize / the Root past its node pool without the
//	            case text growing; the event says what it must contain ("plen", "off", "wn": see checkEvent)
//	plan = ((delayMs failures) ...) per main batch seq
//	ext  = (avgEventSize retentionMs multiplierPercent maintenanceMs [dqDelayMs]), optional; 0 = default (256, 1 ms, 1.0, no
//	       maintenance hook, dead-queue sends return at once).  retentionMs > 1 800 000 (30 min) makes the backoff library answer
//	       backoff.Stop on the FIRST failure of a batch (elapsed + next interval > its MaxElapsedTime of 15 min; the interval is
//	       drawn from [0.5, 1.5] x retention), whatever the retry count says: the give-up label then carries stop = 1
//	       A 6th element of ext is a list of (key value) options (see xopts); cases without it run as before.
//
// observable = ((objkind objidx kind a b c d) ...) with pointers replaced by indices of first appearance.
func RunCase(cs hx.Sx) hx.Sx {
	installHooks()
	it := hx.Items(cs)
	ci := hx.Items(it[0])
	g := func(i int) int { return int(hx.Int(ci[i])) }
	procs, poolKind, capacity, evTimeout, nActions := g(0), g(1), g(2), g(3), g(4)
	oc := outCfg{kind: g(5), workers: g(6), count: g(7), flushMs: g(8), retry: g(9), deadq: g(10) != 0, plan: hx.Items(it[2])}
	spread := g(11) != 0
	feeders := hx.Items(it[1])
	avgEventSize := 256
	var xo xopts
	if len(it) > 3 {
		ext := hx.Items(it[3])
		xo = parseXopts(ext)
		oc.batchBytes = xo.batchBytes
		x := func(i int) int {
			if i < len(ext) {
				return int(hx.Int(ext[i]))
			}
			return 0
		}
		if x(0) > 0 {
			avgEventSize = x(0)
		}
		oc.retentionMs, oc.multPct, oc.maintMs, oc.dqDelayMs = x(1), x(2), x(3), x(4)
	}

	log := &caseLog{}
	settings := &pipeline.Settings{
		Capacity: capacity, MaintenanceInterval: time.Second * 5, EventTimeout: time.Duration(evTimeout) * time.Millisecond,
		// (a zero antispam maintenance interval makes Pipeline.antispammerMaintenance spin: one busy goroutine per case)
		Antispam: pipeline.AntispamSettings{Threshold: -1, MaintenanceInterval: time.Second}, AvgEventSize: avgEventSize, MetaCacheSize: 8, StreamField: "stream", Decoder: "json",
		Metric: &pipeline.MetricSettings{HoldDuration: time.Minute, MaxLabelValueLength: 100},
	}
	if poolKind == 1 {
		settings.Pool = pipeline.PoolTypeStd
	}
	suggest := decoder.NO
	switch xo.decoder {
	case 1:
		settings.Decoder = "raw"
	case 2:
		settings.Decoder = "cri"
	case 3:
		settings.Decoder = "auto"
	case 4:
		settings.Decoder = "auto"
		suggest = decoder.CRI
	case 5:
		suggest = decoder.CRI
	}
	if xo.metrics == 2 {
		settings.MaintenanceInterval = 100 * time.Millisecond // Pipeline.maintenance (metrics) runs during the case
	}
	if xo.maxSize > 0 {
		settings.MaxEventSize = xo.maxSize
		settings.CutOffEventByLimit = xo.cutoff >= 1
		if xo.cutoff == 2 {
			settings.CutOffEventByLimitField = "cut"
		}
	}
	if xo.antispam > 0 {
		settings.Antispam = pipeline.AntispamSettings{Threshold: xo.antispam, MaintenanceInterval: 30 * time.Millisecond}
	}
	switch xo.meta {
	case 2:
		settings.SourceNameMetaField = "mk"
	case 3:
		settings.SourceNameMetaField = "absent"
	}
	p := pipeline.New(fmt.Sprintf("verif%p", log), settings, prometheus.NewRegistry(), zap.NewNop())
	if procs <= 1 {
		p.DisableParallelism()
	}
	register(p.VerifKey(), log)
	defer unregister(p.VerifKey())

	var fc *fileCommit
	if xo.fileCommit == 1 && !spread {
		if fc = newFileCommit(log, len(feeders)); fc != nil {
			fc.pipe = p
		}
	}
	var in pipeline.InputPlugin = &fakeInput{suggest: suggest, fc: fc}
	if spread {
		in = &kafkaLikeInput{}
	}
	p.SetInput(&pipeline.InputPluginInfo{
		PluginStaticInfo:  &pipeline.PluginStaticInfo{Type: "verifin"},
		PluginRuntimeInfo: &pipeline.PluginRuntimeInfo{Plugin: in},
	})
	for i := 0; i < nActions; i++ {
		if xo.realKind != 0 && i == xo.realCol {
			p.AddAction(realActionInfo(i, xo, log))
			continue
		}
		p.AddAction(actionInfo(i, xo, func() (pipeline.AnyPlugin, pipeline.AnyConfig) { return &fakeAction{log: log}, nil }))
	}
	out := &fakeOutput{log: log, cfg: oc}
	p.SetOutput(&pipeline.OutputPluginInfo{
		PluginStaticInfo:  &pipeline.PluginStaticInfo{Type: "verifout"},
		PluginRuntimeInfo: &pipeline.PluginRuntimeInfo{Plugin: out},
	})
	if oc.kind == 2 && oc.deadq {
		p.SetDeadQueueOutput(&pipeline.OutputPluginInfo{
			PluginStaticInfo:  &pipeline.PluginStaticInfo{Type: "verifdq"},
			PluginRuntimeInfo: &pipeline.PluginRuntimeInfo{Plugin: &dqPlugin{out}},
		})
	}

	startMu.Lock()
	old := runtime.GOMAXPROCS(0)
	if procs > 1 {
		runtime.GOMAXPROCS(max(1, procs/2))
	}
	p.Start()
	runtime.GOMAXPROCS(old)
	procsAtStart := p.VerifProcCount()
	startMu.Unlock()

	// directed schedule support: the streamer heartbeat is held right before its first tryUnblock call
	// until a feeder releases it (ops 2 = wait until the gate was hit, 3 = release)
	gateHit := make(chan struct{})
	gateRelease := make(chan struct{})
	var hitOnce, relOnce sync.Once
	if len(ci) > 12 && hx.Int(ci[12]) == 1 {
		regMu.Lock()
		gates[p.VerifKey()] = func(point int, obj any) {
			if point == pipeline.VgStreamBeforeUnblock {
				first := false
				hitOnce.Do(func() { first = true; close(gateHit) })
				if first {
					select {
					case <-gateRelease:
					case <-time.After(3 * time.Second):
					}
				}
			}
		}
		regMu.Unlock()
	}
	var wg sync.WaitGroup
	var accepted atomic.Int64
	stopAsked := make(chan struct{})
	var askOnce sync.Once
	var streamOffsets pipeline.SliceMap
	if xo.streamOff > 0 {
		streamOffsets = pipeline.SliceFromMap(map[pipeline.StreamName]int64{"stdout": int64(xo.streamOff)})
	}
	metaOf := func(src uint64) metadata.MetaData {
		if xo.meta == 0 {
			return nil
		}
		return metadata.MetaData{"mk": fmt.Sprintf("s%d", src)}
	}
	type probe struct {
		src, off int64
		t0       time.Time
		bound    int64
	}
	var probes []probe
	var probeMu sync.Mutex
	for _, f := range feeders {
		ops := hx.Items(f)
		wg.Add(1)
		go func() {
			defer wg.Done()
			defer func() {
				if r := recover(); r != nil {
					log.add(p, LPanic, 0, 0, 0, 0)
				}
			}()
			for _, op := range ops {
				o := hx.Items(op)
				switch hx.Int(o[0]) {
				case 0:
					src, off, data := uint64(hx.Int(o[1])), hx.Int(o[2]), hx.Bytes(o[3])
					seq := p.In(pipeline.SourceID(src), "verif", pipeline.NewOffsets(off, streamOffsets), data, false, metaOf(src))
					if seq == pipeline.EventSeqIDError {
						log.add(p, LInRefused, int64(src), off, 0, 0)
					} else {
						accepted.Add(1)
					}
				case 7:
					askOnce.Do(func() { close(stopAsked) })
				case 6:
					src, off := uint64(hx.Int(o[1])), hx.Int(o[2])
					data := ExpandEvent(hx.Bytes(o[3]), off, int(hx.Int(o[4])), int(hx.Int(o[5])))
					seq := p.In(pipeline.SourceID(src), "verif", pipeline.NewOffsets(off, nil), data, false, metaOf(src))
					if seq == pipeline.EventSeqIDError {
						log.add(p, LInRefused, int64(src), off, 0, 0)
					} else {
						accepted.Add(1)
					}
				case 1:
					time.Sleep(time.Duration(hx.Int(o[1])) * time.Millisecond)
				case 4: // (4 src offset #json boundMs): a probe event; its In-to-commit latency is reported
					src, off, data := uint64(hx.Int(o[1])), hx.Int(o[2]), hx.Bytes(o[3])
					probeMu.Lock()
					probes = append(probes, probe{int64(src), off, time.Now(), hx.Int(o[4])})
					probeMu.Unlock()
					if p.In(pipeline.SourceID(src), "verif", pipeline.NewOffsets(off, nil), data, false, nil) != pipeline.EventSeqIDError {
						accepted.Add(1)
					}
				case 5: // (5 src firstOffset #json durMs gapUs): keep feeding one stream for durMs
					src, off, data := uint64(hx.Int(o[1])), hx.Int(o[2]), hx.Bytes(o[3])
					end := time.Now().Add(time.Duration(hx.Int(o[4])) * time.Millisecond)
					for time.Now().Before(end) {
						off++
						if p.In(pipeline.SourceID(src), "verif", pipeline.NewOffsets(off, nil), data, false, nil) != pipeline.EventSeqIDError {
							accepted.Add(1)
						}
						time.Sleep(time.Duration(hx.Int(o[5])) * time.Microsecond)
					}
				case 2:
					select {
					case <-gateHit:
					case <-time.After(3 * time.Second):
					}
				case 3:
					relOnce.Do(func() { close(gateRelease) })
				}
			}
		}()
	}
	fed := make(chan struct{})
	go func() { wg.Wait(); close(fed) }()
	select {
	case <-fed:
	case <-stopAsked:
	case <-time.After(20 * time.Second):
		log.add(p, LStuck, 2, p.VerifPoolInUse(), p.VerifPoolWaiters(), 0)
	}
	if xo.earlyStop > 0 {
		// shutdown with events in flight: no quiescence is awaited and none is claimed.  What must hold: Stop returns, nothing
		// panics, and everything the trace shows up to and after the call is still a run of the models (safety half only)
		time.Sleep(time.Duration(xo.earlyStop-1) * time.Millisecond)
		log.add(p, LStopCalled, p.VerifPoolInUse(), p.VerifPoolWaiters(), accepted.Load(), 0)
		stopped := make(chan struct{})
		go func() {
			defer close(stopped)
			defer func() {
				if r := recover(); r != nil {
					log.add(p, LPanic, 1, 0, 0, 0)
				}
			}()
			p.Stop()
		}()
		select {
		case <-stopped:
			log.add(p, LStopDone, p.VerifPoolInUse(), 0, 0, 0)
		case <-time.After(8 * time.Second):
			log.add(p, LStuck, 4, 0, 0, 0)
		}
		// feeders that were still feeding, processors that still run: give them a moment, then take the trace as it is
		select {
		case <-fed:
		case <-time.After(300 * time.Millisecond):
		}
		time.Sleep(30 * time.Millisecond)
		if fc != nil {
			fc.finish()
		}
		return canonical(log, out)
	}
	// quiescence: pool in-use back to zero. The wait is progress based, so that a loaded machine
	// cannot turn a slow run into a false "stuck": the run counts as wedged only when NO label other
	// than heartbeat ticks was emitted for a whole idle window (event time-out + several heartbeat
	// periods + flush + retry pauses) while events are still in use; hard cap 60 s.
	idleWindow := time.Duration(3000+8*evTimeout+6*oc.flushMs+2*oc.dqDelayMs) * time.Millisecond
	hardCap := time.Now().Add(60 * time.Second)
	progress := func() int {
		log.mu.Lock()
		defer log.mu.Unlock()
		n := 0
		for _, l := range log.labels {
			if l.kind != pipeline.VtBatchTick && l.kind != pipeline.VtBatchNotReady && l.kind != pipeline.VtBatchFree {
				n++
			}
		}
		return n
	}
	lastN, lastChange := progress(), time.Now()
	for p.VerifPoolInUse() != 0 && time.Now().Before(hardCap) {
		time.Sleep(5 * time.Millisecond)
		if n := progress(); n != lastN {
			lastN, lastChange = n, time.Now()
		} else if time.Since(lastChange) > idleWindow {
			break
		}
	}
	// let the woken processors settle: no label (heartbeat ticks aside) for 40 ms
	for settle, last := time.Now(), progress(); time.Since(settle) < 40*time.Millisecond && time.Now().Before(hardCap); {
		time.Sleep(5 * time.Millisecond)
		if n := progress(); n != last {
			last, settle = n, time.Now()
		}
	}
	// a processor that was signalled must get the time to report that it woke up: on a loaded machine a runnable
	// goroutine can stay unscheduled for longer than the settle window.  Wait (up to 3 s) until every wake-up the labels
	// show as issued has been consumed; a Signal that really woke nobody never gets there and is reported by monitor 11.
	pendingWakeups := func() int64 {
		log.mu.Lock()
		defer log.mu.Unlock()
		var sl, w int64
		for _, l := range log.labels {
			switch l.kind {
			case pipeline.VtStreamerSignal:
				if w < sl {
					w++
				}
			case pipeline.VtStreamerSleep:
				sl++
			case pipeline.VtStreamerWake:
				sl--
				if w > 0 {
					w--
				}
			}
		}
		return w
	}
	for until := time.Now().Add(3 * time.Second); pendingWakeups() != 0 && time.Now().Before(until) && time.Now().Before(hardCap); {
		time.Sleep(5 * time.Millisecond)
	}
	inUse, waiters := p.VerifPoolInUse(), p.VerifPoolWaiters()
	log.add(p, LProcCount, int64(p.VerifProcCount()), int64(procsAtStart), 0, 0)
	log.add(p, LQuiescent, inUse, waiters, accepted.Load(), 0)
	if inUse != 0 {
		log.add(p, LStuck, 3, inUse, waiters, 0)
	}
	stopped := make(chan struct{})
	go func() {
		defer close(stopped)
		defer func() {
			if r := recover(); r != nil {
				log.add(p, LPanic, 1, 0, 0, 0)
			}
		}()
		p.Stop()
	}()
	select {
	case <-stopped:
	case <-time.After(8 * time.Second):
		log.add(p, LStuck, 4, 0, 0, 0)
	}

	// probe latencies: In() -> input commit of that (source, offset)
	probeMu.Lock()
	for _, pr := range probes {
		lat := int64(1 << 30)
		log.mu.Lock()
		for _, l := range log.labels {
			if l.kind == pipeline.VtInputCommit && l.a[2] == pr.off && l.a[3] == pr.src {
				lat = l.t.Sub(pr.t0).Milliseconds()
				break
			}
		}
		log.mu.Unlock()
		log.add(p, LProbe, lat, pr.bound, pr.src, pr.off)
	}
	probeMu.Unlock()
	if fc != nil {
		fc.finish()
	}
	return canonical(log, out)
}

// canonical: pointers -> indices of first appearance, per object kind
func canonical(log *caseLog, out *fakeOutput) hx.Sx {
	log.mu.Lock()
	defer log.mu.Unlock()
	idx := map[int]map[int64]int{1: {}, 2: {}, 3: {}, 4: {}, 5: {}, 0: {}}
	objIndex := func(kind int, id int64) int {
		if id == 0 {
			return -1
		}
		m := idx[kind]
		if v, ok := m[id]; ok {
			return v
		}
		m[id] = len(m)
		return m[id]
	}
	// batcher indices: main = 0, dead queue = 1
	if out.batch != nil {
		idx[1][pipeline.VerifObjID(out.batch)] = 0
	}
	if out.dq != nil {
		idx[1][pipeline.VerifObjID(out.dq)] = 1
	}
	res := make([]hx.Sx, 0, len(log.labels))
	for _, l := range log.labels {
		ok := pipeline.VerifObjKind(l.obj)
		if l.kind == LIdleTimout || l.kind == LActionSaw {
			ok = 3
		}
		oi := objIndex(ok, pipeline.VerifObjID(l.obj))
		a := l.a
		// arguments that are stream addresses
		switch l.kind {
		case pipeline.VtProcDo, pipeline.VtProcResult, pipeline.VtProcOut, pipeline.VtFinal, pipeline.VtInputCommit,
			pipeline.VtProcPropagate, pipeline.VtProcSpawn, pipeline.VtProcTimeoutTo, LFileCommit:
			a[0] = int64(objIndex(2, a[0]))
		case pipeline.VtBatchAdd, LCommitEv, LDqOut, LIdleTimout, LFileOffset:
			a[1] = int64(objIndex(2, a[1]))
		}
		res = append(res, hx.L(hx.I(ok), hx.I(oi), hx.I(l.kind), hx.Z(a[0]), hx.Z(a[1]), hx.Z(a[2]), hx.Z(a[3])))
	}
	return hx.L(res...)
}
