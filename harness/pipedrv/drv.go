// Package pipedrv drives a REAL pipeline.Pipeline (real streamer, streams, processors, pools, router,
// batchers) with scripted fake input / action / output plugins and collects the verif trace labels of
// that pipeline (stream, processor, finalize, batcher labels), demultiplexed per pipeline so that
// cases can run concurrently in one process.
package pipedrv

import (
	"context"
	"errors"
	"fmt"
	"regexp"
	"runtime"
	"sync"
	"sync/atomic"
	"time"

	"github.com/ozontech/file.d/pipeline"
	insaneJSON "github.com/ozontech/insane-json"
	"github.com/prometheus/client_golang/prometheus"
	"go.uber.org/zap"

	"verif/harness/hx"
)

// harness-side label kinds
const (
	LCommitEv   = 100 // batcher Controller.Commit observed (objkind 1)
	LPanic      = 101
	LOutSaw     = 102
	LStuck      = 103 // (4 0 103 what a b)
	LOnError    = 104
	LDqOut      = 105
	LQuiescent  = 110 // (4 0 110 inUse waiters)       pool state when the run ended
	LInRefused  = 111 // (4 0 111 src offset)          In returned EventSeqIDError
	LIdleTimout = 112 // (3 p 112 actionIdx streamIdx) a fake action received a time-out event while holding nothing
	LActionSaw  = 113 // (3 p 113 actionIdx streamIdx seq kind)
	LProbe      = 114 // (4 0 114 latencyMs boundMs src offset) time from In() to the input commit of a probe event
)

type rawLabel struct {
	obj  any
	kind int
	a    [4]int64
	t    time.Time
}

type caseLog struct {
	mu      sync.Mutex
	labels  []rawLabel
	commits atomic.Int64
}

func (l *caseLog) add(obj any, kind int, a, b, c, d int64) {
	l.mu.Lock()
	l.labels = append(l.labels, rawLabel{obj, kind, [4]int64{a, b, c, d}, time.Now()})
	l.mu.Unlock()
}

var (
	regMu     sync.RWMutex
	registry  = map[any]*caseLog{} // streamer key or *Batcher -> log
	gates     = map[any]func(point int, obj any){}
	hooksOnce sync.Once
	startMu   sync.Mutex // serialises Pipeline.Start (GOMAXPROCS decides the processor count there)
)

func installHooks() {
	hooksOnce.Do(func() {
		pipeline.SetVerifHooks(func(kind int, obj any, a, b, c, d int64) {
			key := pipeline.VerifOwner(obj)
			regMu.RLock()
			l := registry[key]
			regMu.RUnlock()
			if l != nil {
				l.add(obj, kind, a, b, c, d)
			}
		}, func(point int, obj any) {
			key := pipeline.VerifOwner(obj)
			regMu.RLock()
			g := gates[key]
			regMu.RUnlock()
			if g != nil {
				g(point, obj)
			}
		})
	})
}

func register(key any, l *caseLog) {
	regMu.Lock()
	registry[key] = l
	regMu.Unlock()
}
func unregister(key any) {
	regMu.Lock()
	delete(registry, key)
	delete(gates, key)
	regMu.Unlock()
}

// ---- fake plugins -----------------------------------------------------------------------------

type fakeInput struct{ refuseOdd bool }

func (f *fakeInput) Start(pipeline.AnyConfig, *pipeline.InputPluginParams) {}
func (f *fakeInput) Stop()                                                 {}
func (f *fakeInput) Commit(*pipeline.Event)                                {}
func (f *fakeInput) PassEvent(e *pipeline.Event) bool {
	n := e.Root.Dig("refuse")
	return n == nil
}

// kafkaLikeInput spreads events over all processors, as plugin/input/kafka does in Start.
type kafkaLikeInput struct{ fakeInput }

func (f *kafkaLikeInput) Start(_ pipeline.AnyConfig, p *pipeline.InputPluginParams) {
	p.Controller.UseSpread()
	p.Controller.DisableStreams()
}

// scripted action: the i-th character of the event's "ops" field is the op for action i:
//
//	p pass | d discard | b break | h hold (start of a run) | c continue (collapse while holding) | s split into 2 children
//
// it follows the protocol of the join plugin: a non-continuing event or a time-out flushes the held event via Propagate.
type fakeAction struct {
	log    *caseLog
	idx    int
	ctl    pipeline.ActionPluginController
	held   *pipeline.Event
	jitter int
}

func (a *fakeAction) Start(_ pipeline.AnyConfig, p *pipeline.ActionPluginParams) {
	a.ctl = p.Controller
	a.idx = p.Index
}
func (a *fakeAction) Stop() {}
func (a *fakeAction) flush() {
	h := a.held
	a.held = nil
	a.ctl.Propagate(h)
}
func (a *fakeAction) Do(e *pipeline.Event) pipeline.ActionResult {
	if e.IsTimeoutKind() {
		if a.held == nil {
			a.log.add(a.ctl, LIdleTimout, int64(a.idx), e.VerifStreamID(), 0, 0)
			return pipeline.ActionDiscard
		}
		a.flush()
		return pipeline.ActionDiscard
	}
	op := byte('p')
	if n := e.Root.Dig("ops"); n != nil {
		s := n.AsString()
		if a.idx < len(s) {
			op = s[a.idx]
		}
	}
	if n := e.Root.Dig("slow"); n != nil {
		time.Sleep(time.Duration(n.AsInt()) * time.Microsecond)
	}
	switch op {
	case 'h':
		if a.held != nil {
			a.flush()
		}
		a.held = e
		return pipeline.ActionHold
	case 'c':
		if a.held != nil {
			return pipeline.ActionCollapse
		}
		return pipeline.ActionPass
	}
	if a.held != nil {
		a.flush()
	}
	switch op {
	case 'd':
		return pipeline.ActionDiscard
	case 'b':
		return pipeline.ActionBreak
	case 's':
		kids := e.Root.Dig("kids")
		if kids != nil && kids.IsArray() {
			nodes := make([]*insaneJSON.Node, 0, 2)
			nodes = append(nodes, kids.AsArray()...)
			a.ctl.Spawn(e, nodes)
			return pipeline.ActionBreak
		}
		return pipeline.ActionPass
	}
	return pipeline.ActionPass
}

type outCfg struct {
	kind     int // 0 synchronous commit, 1 Batcher, 2 RetriableBatcher (+ optional dead queue)
	workers  int
	count    int
	flushMs  int
	retry    int
	deadq    bool
	plan     []hx.Sx // per batch seq: (delayMs failures)
	maxDelay int
}

type fakeOutput struct {
	log       *caseLog
	cfg       outCfg
	ctl       pipeline.OutputPluginController
	add       func(*pipeline.Event)
	stop      func()
	batch     *pipeline.Batcher
	dq        *pipeline.Batcher
	cancel    context.CancelFunc
	failMu    sync.Mutex
	failsLeft map[int64]int
	router    *pipeline.Router
}

var errSend = errors.New("scripted send failure")

func (o *fakeOutput) send(bidx int, batch *pipeline.Batch) error {
	seq := batch.VerifSeq()
	var obj any = o.batch
	if bidx == 1 {
		obj = o.dq
	}
	ids := [4]int64{seq, 0, 0, 0}
	n := 0
	batch.ForEach(func(e *pipeline.Event) { n++ })
	ids[1] = int64(n)
	o.log.add(obj, LOutSaw, ids[0], ids[1], 0, 0)
	if bidx != 0 {
		return nil
	}
	delay, fails := 0, 0
	if int(seq) < len(o.cfg.plan) {
		p := hx.Items(o.cfg.plan[seq])
		delay, fails = int(hx.Int(p[0])), int(hx.Int(p[1]))
	}
	if delay > 0 {
		time.Sleep(time.Duration(delay) * time.Millisecond)
	}
	o.failMu.Lock()
	defer o.failMu.Unlock()
	left, seen := o.failsLeft[seq]
	if !seen {
		left = fails
	}
	if left > 0 {
		o.failsLeft[seq] = left - 1
		return errSend
	}
	o.failsLeft[seq] = 0
	return nil
}

type recCtl struct {
	log   *caseLog
	obj   func() any
	inner pipeline.OutputPluginController
}

func (c *recCtl) Commit(e *pipeline.Event) {
	c.log.add(c.obj(), LCommitEv, int64(e.SeqID), e.VerifStreamID(), int64(e.Size), int64(e.VerifKind()))
	c.inner.Commit(e)
}
func (c *recCtl) Error(s string) { c.inner.Error(s) }

type dqPlugin struct{ o *fakeOutput }

func (d *dqPlugin) Start(pipeline.AnyConfig, *pipeline.OutputPluginParams) {}
func (d *dqPlugin) Stop()                                                  {}
func (d *dqPlugin) Out(e *pipeline.Event) {
	d.o.log.add(d.o.dq, LDqOut, int64(e.SeqID), e.VerifStreamID(), 0, 0)
	d.o.dq.Add(e)
}

func (o *fakeOutput) Start(_ pipeline.AnyConfig, p *pipeline.OutputPluginParams) {
	o.ctl = p.Controller
	o.router = p.Router
	o.failsLeft = map[int64]int{}
	ctx, cancel := context.WithCancel(context.Background())
	o.cancel = cancel
	switch o.cfg.kind {
	case 0:
		o.add = func(e *pipeline.Event) { o.ctl.Commit(e) }
		o.stop = func() {}
	case 1:
		o.batch = pipeline.NewBatcher(pipeline.BatcherOptions{
			PipelineName: p.PipelineName, OutputType: "verif", Controller: &recCtl{o.log, func() any { return o.batch }, o.ctl},
			OutFn:   func(_ *pipeline.WorkerData, b *pipeline.Batch) { _ = o.send(0, b) },
			Workers: o.cfg.workers, BatchSizeCount: o.cfg.count, FlushTimeout: time.Duration(o.cfg.flushMs) * time.Millisecond,
			MetricCtl: p.MetricCtl,
		})
		register(o.batch, o.log)
		o.add, o.stop = o.batch.Add, o.batch.Stop
		o.batch.Start(ctx)
	case 2:
		if o.cfg.deadq {
			o.dq = pipeline.NewBatcher(pipeline.BatcherOptions{
				PipelineName: p.PipelineName, OutputType: "verifdq", Controller: &recCtl{o.log, func() any { return o.dq }, o.ctl},
				OutFn:   func(_ *pipeline.WorkerData, b *pipeline.Batch) { _ = o.send(1, b) },
				Workers: 1, BatchSizeCount: o.cfg.count, FlushTimeout: time.Duration(o.cfg.flushMs) * time.Millisecond,
				MetricCtl: p.MetricCtl,
			})
			register(o.dq, o.log)
			o.dq.Start(ctx)
		}
		opts := pipeline.BatcherOptions{
			PipelineName: p.PipelineName, OutputType: "verif", Controller: &recCtl{o.log, func() any { return o.batch }, o.ctl},
			Workers: o.cfg.workers, BatchSizeCount: o.cfg.count, FlushTimeout: time.Duration(o.cfg.flushMs) * time.Millisecond,
			MetricCtl: p.MetricCtl,
		}
		rb := pipeline.NewRetriableBatcher(&opts,
			func(_ *pipeline.WorkerData, b *pipeline.Batch) error { return o.send(0, b) },
			pipeline.BackoffOpts{MinRetention: time.Millisecond, Multiplier: 1.0, AttemptNum: o.cfg.retry, IsDeadQueueAvailable: o.cfg.deadq},
			func(err error, events []*pipeline.Event) {
				o.log.add(o.batch, LOnError, int64(len(events)), 0, 0, 0)
				for i := range events {
					o.router.Fail(events[i])
				}
			})
		o.batch = rb.VerifBatcher()
		register(o.batch, o.log)
		o.add, o.stop = rb.Add, rb.Stop
		rb.Start(ctx)
	}
}
func (o *fakeOutput) Stop() {
	o.stop()
	if o.dq != nil {
		o.dq.Stop()
	}
	o.cancel()
	if o.batch != nil {
		unregister(o.batch)
	}
	if o.dq != nil {
		unregister(o.dq)
	}
}
func (o *fakeOutput) Out(e *pipeline.Event) { o.add(e) }

// RunCase executes one case.
//
//	case = (cfg feeders plan)
//	cfg  = (procs pool capacity eventTimeoutMs nActions outKind workers batchCount flushMs retry deadq spread)
//	       procs: 1 = DisableParallelism, else 2*GOMAXPROCS at Start (harness sets GOMAXPROCS = procs/2 during Start)
//	       pool: 0 low-memory (default) | 1 standard
//	feeders = ((op ...) ...) one goroutine each; op = (0 src offset #json) In | (1 ms) sleep
//	plan = ((delayMs failures) ...) per main batch seq
//
// observable = ((objkind objidx kind a b c d) ...) with pointers replaced by indices of first appearance.
func RunCase(cs hx.Sx) hx.Sx {
	installHooks()
	it := hx.Items(cs)
	ci := hx.Items(it[0])
	g := func(i int) int { return int(hx.Int(ci[i])) }
	procs, poolKind, capacity, evTimeout, nActions := g(0), g(1), g(2), g(3), g(4)
	oc := outCfg{kind: g(5), workers: g(6), count: g(7), flushMs: g(8), retry: g(9), deadq: g(10) != 0, plan: hx.Items(it[2])}
	spread := g(11) != 0
	feeders := hx.Items(it[1])

	log := &caseLog{}
	settings := &pipeline.Settings{
		Capacity: capacity, MaintenanceInterval: time.Second * 5, EventTimeout: time.Duration(evTimeout) * time.Millisecond,
		Antispam: pipeline.AntispamSettings{Threshold: -1}, AvgEventSize: 256, MetaCacheSize: 8, StreamField: "stream", Decoder: "json",
		Metric: &pipeline.MetricSettings{HoldDuration: time.Minute, MaxLabelValueLength: 100},
	}
	if poolKind == 1 {
		settings.Pool = pipeline.PoolTypeStd
	}
	p := pipeline.New(fmt.Sprintf("verif%p", log), settings, prometheus.NewRegistry(), zap.NewNop())
	if procs <= 1 {
		p.DisableParallelism()
	}
	register(p.VerifKey(), log)
	defer unregister(p.VerifKey())

	var in pipeline.InputPlugin = &fakeInput{}
	if spread {
		in = &kafkaLikeInput{}
	}
	p.SetInput(&pipeline.InputPluginInfo{
		PluginStaticInfo:  &pipeline.PluginStaticInfo{Type: "verifin"},
		PluginRuntimeInfo: &pipeline.PluginRuntimeInfo{Plugin: in},
	})
	for i := 0; i < nActions; i++ {
		p.AddAction(&pipeline.ActionPluginStaticInfo{
			PluginStaticInfo: &pipeline.PluginStaticInfo{
				Type:    "verifact",
				Factory: func() (pipeline.AnyPlugin, pipeline.AnyConfig) { return &fakeAction{log: log}, nil },
			},
			MetricName: fmt.Sprintf("a%d", i),
			MatchMode:  pipeline.MatchModeAnd,
			// action i applies to an event iff the i-th character of its "m" field is not '0' (no field: applies);
			// the processor consults this only while the action holds nothing
			MatchConditions: pipeline.MatchConditions{{Field: []string{"m"}, Regexp: regexp.MustCompile(fmt.Sprintf("^(.{0,%d}|.{%d}[^0].*)$", i, i))}},
		})
	}
	out := &fakeOutput{log: log, cfg: oc}
	p.SetOutput(&pipeline.OutputPluginInfo{
		PluginStaticInfo:  &pipeline.PluginStaticInfo{Type: "verifout"},
		PluginRuntimeInfo: &pipeline.PluginRuntimeInfo{Plugin: out},
	})
	if oc.kind == 2 && oc.deadq {
		p.SetDeadQueueOutput(&pipeline.OutputPluginInfo{
			PluginStaticInfo:  &pipeline.PluginStaticInfo{Type: "verifdq"},
			PluginRuntimeInfo: &pipeline.PluginRuntimeInfo{Plugin: &dqPlugin{out}},
		})
	}

	startMu.Lock()
	old := runtime.GOMAXPROCS(0)
	if procs > 1 {
		runtime.GOMAXPROCS(max(1, procs/2))
	}
	p.Start()
	runtime.GOMAXPROCS(old)
	startMu.Unlock()

	// directed schedule support: the streamer heartbeat is held right before its first tryUnblock call
	// until a feeder releases it (ops 2 = wait until the gate was hit, 3 = release)
	gateHit := make(chan struct{})
	gateRelease := make(chan struct{})
	var hitOnce, relOnce sync.Once
	if len(ci) > 12 && hx.Int(ci[12]) == 1 {
		regMu.Lock()
		gates[p.VerifKey()] = func(point int, obj any) {
			if point == pipeline.VgStreamBeforeUnblock {
				first := false
				hitOnce.Do(func() { first = true; close(gateHit) })
				if first {
					select {
					case <-gateRelease:
					case <-time.After(3 * time.Second):
					}
				}
			}
		}
		regMu.Unlock()
	}
	var wg sync.WaitGroup
	var accepted atomic.Int64
	type probe struct {
		src, off int64
		t0       time.Time
		bound    int64
	}
	var probes []probe
	var probeMu sync.Mutex
	for _, f := range feeders {
		ops := hx.Items(f)
		wg.Add(1)
		go func() {
			defer wg.Done()
			defer func() {
				if r := recover(); r != nil {
					log.add(p, LPanic, 0, 0, 0, 0)
				}
			}()
			for _, op := range ops {
				o := hx.Items(op)
				switch hx.Int(o[0]) {
				case 0:
					src, off, data := uint64(hx.Int(o[1])), hx.Int(o[2]), hx.Bytes(o[3])
					seq := p.In(pipeline.SourceID(src), "verif", pipeline.NewOffsets(off, nil), data, false, nil)
					if seq == pipeline.EventSeqIDError {
						log.add(p, LInRefused, int64(src), off, 0, 0)
					} else {
						accepted.Add(1)
					}
				case 1:
					time.Sleep(time.Duration(hx.Int(o[1])) * time.Millisecond)
				case 4: // (4 src offset #json boundMs): a probe event; its In-to-commit latency is reported
					src, off, data := uint64(hx.Int(o[1])), hx.Int(o[2]), hx.Bytes(o[3])
					probeMu.Lock()
					probes = append(probes, probe{int64(src), off, time.Now(), hx.Int(o[4])})
					probeMu.Unlock()
					if p.In(pipeline.SourceID(src), "verif", pipeline.NewOffsets(off, nil), data, false, nil) != pipeline.EventSeqIDError {
						accepted.Add(1)
					}
				case 5: // (5 src firstOffset #json durMs gapUs): keep feeding one stream for durMs
					src, off, data := uint64(hx.Int(o[1])), hx.Int(o[2]), hx.Bytes(o[3])
					end := time.Now().Add(time.Duration(hx.Int(o[4])) * time.Millisecond)
					for time.Now().Before(end) {
						off++
						if p.In(pipeline.SourceID(src), "verif", pipeline.NewOffsets(off, nil), data, false, nil) != pipeline.EventSeqIDError {
							accepted.Add(1)
						}
						time.Sleep(time.Duration(hx.Int(o[5])) * time.Microsecond)
					}
				case 2:
					select {
					case <-gateHit:
					case <-time.After(3 * time.Second):
					}
				case 3:
					relOnce.Do(func() { close(gateRelease) })
				}
			}
		}()
	}
	fed := make(chan struct{})
	go func() { wg.Wait(); close(fed) }()
	select {
	case <-fed:
	case <-time.After(20 * time.Second):
		log.add(p, LStuck, 2, p.VerifPoolInUse(), p.VerifPoolWaiters(), 0)
	}
	// quiescence: pool in-use back to zero. The wait is progress based, so that a loaded machine
	// cannot turn a slow run into a false "stuck": the run counts as wedged only when NO label other
	// than heartbeat ticks was emitted for a whole idle window (event time-out + several heartbeat
	// periods + flush + retry pauses) while events are still in use; hard cap 60 s.
	idleWindow := time.Duration(3000+8*evTimeout+6*oc.flushMs) * time.Millisecond
	hardCap := time.Now().Add(60 * time.Second)
	progress := func() int {
		log.mu.Lock()
		defer log.mu.Unlock()
		n := 0
		for _, l := range log.labels {
			if l.kind != pipeline.VtBatchTick && l.kind != pipeline.VtBatchNotReady && l.kind != pipeline.VtBatchFree {
				n++
			}
		}
		return n
	}
	lastN, lastChange := progress(), time.Now()
	for p.VerifPoolInUse() != 0 && time.Now().Before(hardCap) {
		time.Sleep(5 * time.Millisecond)
		if n := progress(); n != lastN {
			lastN, lastChange = n, time.Now()
		} else if time.Since(lastChange) > idleWindow {
			break
		}
	}
	// let the woken processors settle: no label (heartbeat ticks aside) for 40 ms
	for settle, last := time.Now(), progress(); time.Since(settle) < 40*time.Millisecond && time.Now().Before(hardCap); {
		time.Sleep(5 * time.Millisecond)
		if n := progress(); n != last {
			last, settle = n, time.Now()
		}
	}
	// a processor that was signalled must get the time to report that it woke up: on a loaded machine a runnable
	// goroutine can stay unscheduled for longer than the settle window.  Wait (up to 3 s) until every wake-up the labels
	// show as issued has been consumed; a Signal that really woke nobody never gets there and is reported by monitor 11.
	pendingWakeups := func() int64 {
		log.mu.Lock()
		defer log.mu.Unlock()
		var sl, w int64
		for _, l := range log.labels {
			switch l.kind {
			case pipeline.VtStreamerSignal:
				if w < sl {
					w++
				}
			case pipeline.VtStreamerSleep:
				sl++
			case pipeline.VtStreamerWake:
				sl--
				if w > 0 {
					w--
				}
			}
		}
		return w
	}
	for until := time.Now().Add(3 * time.Second); pendingWakeups() != 0 && time.Now().Before(until) && time.Now().Before(hardCap); {
		time.Sleep(5 * time.Millisecond)
	}
	inUse, waiters := p.VerifPoolInUse(), p.VerifPoolWaiters()
	log.add(p, LQuiescent, inUse, waiters, accepted.Load(), 0)
	if inUse != 0 {
		log.add(p, LStuck, 3, inUse, waiters, 0)
	}
	stopped := make(chan struct{})
	go func() {
		defer close(stopped)
		defer func() {
			if r := recover(); r != nil {
				log.add(p, LPanic, 1, 0, 0, 0)
			}
		}()
		p.Stop()
	}()
	select {
	case <-stopped:
	case <-time.After(8 * time.Second):
		log.add(p, LStuck, 4, 0, 0, 0)
	}

	// probe latencies: In() -> input commit of that (source, offset)
	probeMu.Lock()
	for _, pr := range probes {
		lat := int64(1 << 30)
		log.mu.Lock()
		for _, l := range log.labels {
			if l.kind == pipeline.VtInputCommit && l.a[2] == pr.off && l.a[3] == pr.src {
				lat = l.t.Sub(pr.t0).Milliseconds()
				break
			}
		}
		log.mu.Unlock()
		log.add(p, LProbe, lat, pr.bound, pr.src, pr.off)
	}
	probeMu.Unlock()

	// canonicalise: pointers -> indices of first appearance, per object kind
	log.mu.Lock()
	defer log.mu.Unlock()
	idx := map[int]map[int64]int{1: {}, 2: {}, 3: {}, 4: {}, 5: {}, 0: {}}
	objIndex := func(kind int, id int64) int {
		if id == 0 {
			return -1
		}
		m := idx[kind]
		if v, ok := m[id]; ok {
			return v
		}
		m[id] = len(m)
		return m[id]
	}
	// batcher indices: main = 0, dead queue = 1
	if out.batch != nil {
		idx[1][pipeline.VerifObjID(out.batch)] = 0
	}
	if out.dq != nil {
		idx[1][pipeline.VerifObjID(out.dq)] = 1
	}
	res := make([]hx.Sx, 0, len(log.labels))
	for _, l := range log.labels {
		ok := pipeline.VerifObjKind(l.obj)
		if l.kind == LIdleTimout || l.kind == LActionSaw {
			ok = 3
		}
		oi := objIndex(ok, pipeline.VerifObjID(l.obj))
		a := l.a
		// arguments that are stream addresses
		switch l.kind {
		case pipeline.VtProcDo, pipeline.VtProcResult, pipeline.VtProcOut, pipeline.VtFinal, pipeline.VtInputCommit,
			pipeline.VtProcPropagate, pipeline.VtProcSpawn, pipeline.VtProcTimeoutTo:
			a[0] = int64(objIndex(2, a[0]))
		case pipeline.VtBatchAdd, LCommitEv, LDqOut, LIdleTimout:
			a[1] = int64(objIndex(2, a[1]))
		}
		res = append(res, hx.L(hx.I(ok), hx.I(oi), hx.I(l.kind), hx.Z(a[0]), hx.Z(a[1]), hx.Z(a[2]), hx.Z(a[3])))
	}
	return hx.L(res...)
}
