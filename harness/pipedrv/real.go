package pipedrv

// REAL holding actions inside the driven pipeline.  The scripted fakeAction follows the hold / propagate protocol of
// Model/Proc.v by construction; a real plugin that breaks it (answers Discard while it still holds the first event of a run:
// processor.doActions clears the action's busy mark, the processor stops waiting on the stream, no time-out is ever
// delivered, the held event is neither committed nor dropped, later events of the stream overtake it on another processor)
// is invisible to families made of fake actions only.  Options 12..15 of xopts put ONE real plugin, created through the
// factory it registers and started by the real processor with the real controller, at one action index of the case; the other
// actions stay scripted ("ops"), the match mask ("m") applies to the real column like to every other.  Nothing else changes:
// the trace is the processors' own (labels 30 / 31 / 35 ...), judged by the same LTS replays and monitors.
//
//	12 realKind  1 join | 2 join_template | 3 k8s multiline action (plugin/input/k8s MultilineAction)
//	13 realCol   index of the action that is the real plugin
//	14 realMax   join / join_template: max_event_size; k8s: split_event_size (0 = 1 MiB; its max size is Settings.MaxEventSize, option 2)
//	15 realVar   join: regexp pair (0..2) + 4*negate; join_template: first template + 1 + 4*(second template + 1 or 0)

import (
	"encoding/json"
	"fmt"
	"strings"
	"sync"
	"time"

	"github.com/ozontech/file.d/cfg"
	"github.com/ozontech/file.d/fd"
	"github.com/ozontech/file.d/pipeline"
	"github.com/ozontech/file.d/plugin/action/join"
	"github.com/ozontech/file.d/plugin/action/join_template"
	"github.com/ozontech/file.d/plugin/input/k8s"
	"github.com/ozontech/file.d/plugin/input/k8s/meta"
	"go.uber.org/zap"
	corev1 "k8s.io/api/core/v1"

	"verif/harness/hx"
)

const (
	RealJoin     = 1
	RealTemplate = 2
	RealK8s      = 3
	// (3 p 101 9 actionIdx 0 0): the real action panicked inside Do (recovered by the tap; answered Discard)
	PanicInRealDo = 9
)

// RealField is the field the real join / join_template plugins work on (k8s: always "log").
const RealField = "log"

var realPairs = [][2]string{{`^S`, `^C`}, {`^\d{4}-\d\d-\d\d`, `^\s`}, {`^[A-Z]`, `^[a-z ]`}}
var realTemplates = []string{"go_panic", "cs_exception", "go_data_race"}

// values the generator draws from, per regexp pair: starts, continuations, others
var realPools = [][3][]string{
	{{"S1", "S2-abcdefgh", "S3-0123456789abcdef"}, {"C1", "C2-0123456789", "C3", "Cx-and-a-longer-tail"}, {"O1", "other", ""}},
	{{"2021-10-12 08:25:44 GMT LOG: x", "2022-01-01 z"}, {" at x", "\tfrom y", " more of the same trace"}, {"plain", "x 2022-01-01"}},
	{{"Hello", "Z", "World wide"}, {"hello", "world ", " x", "a much longer continuation"}, {"0", "[x]", "_"}},
}

// ... per template (go_panic, cs_exception, go_data_race - whose continuation test is negated: every line that is not the
// closing row of '=' continues the report)
var realTplPools = [][3][]string{
	{{"panic: runtime error: index out of range", "fatal error: all goroutines are asleep"},
		{"goroutine 1 [running]:", "main.main()", "\t/app/main.go:12 +0x1d", "[signal SIGSEGV: segmentation violation]"}, {"hello world", "INFO starting", "exit status 2"}},
	{{"Unhandled exception. System.NullReferenceException: Object reference"},
		{"   at Foo.Bar() in /x.cs:line 3", "   --- End of inner exception stack trace ---", " ---> System.Exception: inner"}, {"hello world", "INFO starting", ""}},
	{{"WARNING: DATA RACE"}, {"Read at 0x00c000012345 by goroutine 7:", "  main.f()", "hello world", "Previous write at 0x00c000012345 by main goroutine:"},
		{"==================", "================== end"}},
}

var realK8sItem = &meta.MetaItem{Namespace: "ns", PodName: "pod-1", ContainerName: "c", ContainerID: "4e0301b633eaa2bfdcafdeba59ba0c72a3815911a6a820bf273534b0f32d98e0"}
var realK8sOnce sync.Once

// realK8sMeta: what the k8s input's gatherer would have learnt from the cluster (no cluster access: meta updates are off).
func realK8sMeta() {
	realK8sOnce.Do(func() {
		meta.DisableMetaUpdates = true
		meta.MaintenanceInterval = time.Hour
		meta.MetaExpireDuration = 24 * time.Hour
		meta.EnableGatherer(zap.NewNop().Sugar())
		pod := &corev1.Pod{}
		pod.Namespace = string(realK8sItem.Namespace)
		pod.Name = string(realK8sItem.PodName)
		pod.Status.ContainerStatuses = []corev1.ContainerStatus{{Name: string(realK8sItem.ContainerName), ContainerID: "containerd://" + string(realK8sItem.ContainerID)}}
		pod.Labels = map[string]string{"app": "x"}
		meta.PutMeta(pod)
		meta.SelfNodeName = "node_1"
		meta.MetaData.NodeLabels = map[string]string{"zone": "a"}
	})
}

// realTap is what the processor sees: it hands every call to the real plugin unchanged; a panic inside Do is recorded
// (label 101: monitor 1) and answered with Discard instead of taking the whole harness process down.
type realTap struct {
	inner pipeline.ActionPlugin
	log   *caseLog
	ctl   pipeline.ActionPluginController
	idx   int
}

func (a *realTap) Start(c pipeline.AnyConfig, p *pipeline.ActionPluginParams) {
	a.ctl, a.idx = p.Controller, p.Index
	a.inner.Start(c, p)
}
func (a *realTap) Stop() { a.inner.Stop() }
func (a *realTap) Do(e *pipeline.Event) (res pipeline.ActionResult) {
	defer func() {
		if r := recover(); r != nil {
			a.log.add(a.ctl, LPanic, PanicInRealDo, int64(a.idx), 0, 0)
			res = pipeline.ActionDiscard
		}
	}()
	if n := e.Root; n != nil && !e.IsTimeoutKind() {
		if s := n.Dig("slow"); s != nil {
			time.Sleep(time.Duration(s.AsInt()) * time.Microsecond)
		}
	}
	return a.inner.Do(e)
}

// realActionInfo: the static info of the real action of the case (match / metric options as for every other action).
func realActionInfo(i int, x xopts, log *caseLog) *pipeline.ActionPluginStaticInfo {
	var typ string
	var config pipeline.AnyConfig
	var factory func() (pipeline.AnyPlugin, pipeline.AnyConfig)
	switch x.realKind {
	case RealJoin, RealTemplate:
		typ = "join"
		if x.realKind == RealTemplate {
			typ = "join_template"
		}
		reg, err := fd.DefaultPluginRegistry.Get(pipeline.PluginKindAction, typ)
		if err != nil {
			panic("pipedrv: " + err.Error())
		}
		_, config = reg.Factory()
		switch c := config.(type) {
		case *join.Config:
			pair := realPairs[(x.realVar&3)%len(realPairs)]
			c.Field = RealField
			c.Start = cfg.Regexp("/" + pair[0] + "/")
			c.Continue = cfg.Regexp("/" + pair[1] + "/")
			c.MaxEventSize = x.realMax
			c.Negate = x.realVar&4 != 0
		case *join_template.Config:
			c.Field = RealField
			c.MaxEventSize = x.realMax
			c.Templates = realTemplateNames(x.realVar)
		default:
			panic("pipedrv: unexpected config type of " + typ)
		}
		if err := cfg.SetDefaultValues(config); err != nil {
			panic("pipedrv: " + err.Error())
		}
		if err := cfg.Parse(config, nil); err != nil {
			panic("pipedrv: " + err.Error())
		}
		factory = func() (pipeline.AnyPlugin, pipeline.AnyConfig) {
			pl, c := reg.Factory()
			return &realTap{inner: pl.(pipeline.ActionPlugin), log: log}, c
		}
	case RealK8s:
		realK8sMeta()
		typ = "k8s-multiline"
		split := x.realMax
		if split <= 0 {
			split = 1 << 20
		}
		kc := &k8s.Config{SplitEventSize: split}
		config = kc
		factory = func() (pipeline.AnyPlugin, pipeline.AnyConfig) {
			return &realTap{inner: &k8s.MultilineAction{}, log: log}, kc
		}
	default:
		panic(fmt.Sprintf("pipedrv: real action kind %d", x.realKind))
	}
	info := actionInfo(i, x, factory)
	info.PluginStaticInfo.Type = typ
	info.PluginStaticInfo.Config = config
	return info
}

func realTemplateNames(v int) []string {
	names := []string{realTemplates[((v&3)+2)%3]} // 1 go_panic | 2 cs_exception | 3 (and 0) go_data_race
	if s := v >> 2 & 3; s != 0 && realTemplates[s-1] != names[0] {
		names = append(names, realTemplates[s-1])
	}
	return names
}

// RealOpts selects a family of cases with one real holding action.
type RealOpts struct {
	Kind       int
	Procs      []int
	Actions    [2]int
	OutKinds   []int
	Sources    [2]int
	Streams    [2]int
	Events     [2]int
	EvTimeout  [2]int
	FakeHolder bool // every third case: one of the OTHER columns is a scripted holder (two holders in one chain)
}

var (
	// the real join with option variety: max_event_size 0 or small enough to be reached by two or three lines, negate,
	// three start / continue regexp pairs, events without the field and with a non-string field, several processors,
	// sources and streams, gaps longer than the event time-out plus the streamer heartbeat (a run open at the gap is
	// flushed by the stream time-out), synchronous and batching outputs, commits handed to the real file-input provider
	FamRealJoin = RealOpts{Kind: RealJoin, Procs: []int{1, 2, 4, 8}, Actions: [2]int{1, 3}, OutKinds: []int{0, 1, 1}, Sources: [2]int{1, 3},
		Streams: [2]int{1, 3}, Events: [2]int{4, 30}, EvTimeout: [2]int{20, 60}, FakeHolder: true}
	FamRealTemplate = RealOpts{Kind: RealTemplate, Procs: []int{1, 2, 4}, Actions: [2]int{1, 3}, OutKinds: []int{0, 1}, Sources: [2]int{1, 2},
		Streams: [2]int{1, 2}, Events: [2]int{4, 25}, EvTimeout: [2]int{20, 60}, FakeHolder: true}
	// the k8s multiline action never holds an event: it collapses the chunks of a partial line (busy without a held event)
	// and lets the chunk that ends the line carry the text on
	FamRealK8s = RealOpts{Kind: RealK8s, Procs: []int{1, 2, 4}, Actions: [2]int{1, 3}, OutKinds: []int{0, 1}, Sources: [2]int{1, 2},
		Streams: [2]int{1, 2}, Events: [2]int{4, 25}, EvTimeout: [2]int{20, 60}}
)

func jsonString(s string) string {
	b, _ := json.Marshal(s)
	return string(b)
}

// GenRealCase builds one random case whose action `realCol` is the real plugin.
func GenRealCase(r Rng, o RealOpts) hx.Sx {
	procs := pick(r, o.Procs)
	nAct := r.Range(o.Actions[0], o.Actions[1])
	realCol := r.Intn(nAct)
	fakeHold := -1
	if o.FakeHolder && nAct >= 2 && r.Chance(1, 3) {
		fakeHold = (realCol + 1 + r.Intn(nAct-1)) % nAct
	}
	outKind := pick(r, o.OutKinds)
	capacity := r.Range(2, 24)
	evTimeout := r.Range(o.EvTimeout[0], o.EvTimeout[1])
	workers, count, flush := r.Range(1, 3), r.Range(1, 4), r.Range(5, 40)
	realMax, realVar, maxSize, cutoff := 0, 0, 0, 0
	switch o.Kind {
	case RealJoin:
		realVar = r.Intn(len(realPairs))
		if r.Chance(1, 4) {
			realVar += 4
		}
		if r.Chance(2, 3) {
			realMax = r.Range(2, 40) // a start line alone, or with one or two continuations, reaches it
		}
	case RealTemplate:
		realVar = 1 + r.Intn(3)
		if r.Bool() {
			realVar += 4 * (1 + r.Intn(3))
		}
		if r.Chance(2, 3) {
			realMax = r.Range(10, 70)
		}
	case RealK8s:
		if r.Chance(2, 3) {
			maxSize, cutoff = r.Range(330, 480), r.Intn(3)
		}
		if r.Chance(1, 4) {
			realMax = 128*1024 + r.Range(300, 900) // split_event_size just above the look-ahead: a line of three or more chunks is split
		}
	}
	nsrc := r.Range(o.Sources[0], o.Sources[1])
	var feeders []hx.Sx
	nLong := 0
	for s := 0; s < nsrc; s++ {
		nstreams := r.Range(o.Streams[0], o.Streams[1])
		n := r.Range(o.Events[0], o.Events[1])
		var ops []hx.Sx
		off := 0
		for i := 0; i < n; i++ {
			off += r.Range(1, 30)
			b := make([]byte, nAct)
			for a := range b {
				b[a] = "pppd"[r.Intn(4)]
				if a == fakeHold {
					b[a] = "hccpp"[r.Intn(5)]
				}
			}
			mb := make([]byte, nAct+1)
			for a := range mb {
				mb[a] = '1'
				if a < nAct && r.Chance(1, 9) {
					mb[a] = '0'
				}
			}
			js := fmt.Sprintf(`{"stream":"s%d","ops":"%s","m":"%s"`, r.Intn(nstreams), b, mb)
			switch o.Kind {
			case RealJoin:
				pool := realPools[realVar&3]
				switch k := r.Intn(20); {
				case k == 0: // no field at all: an open run is flushed, the event passes
				case k == 1:
					js += `,"log":17`
				default:
					js += `,"log":` + jsonString(pick2(r, pool[[]int{0, 1, 1, 2}[r.Intn(4)]]))
				}
			case RealTemplate:
				if !r.Chance(1, 20) {
					pool := realTplPools[((realVar&3)+2)%3]
					js += `,"log":` + jsonString(pick2(r, pool[[]int{0, 1, 1, 2}[r.Intn(4)]]))
				}
			case RealK8s:
				// every event carries what the k8s input's meta data adds (the action exits the process otherwise) and a
				// non-empty chunk; a chunk that ends with a line feed ends the line
				// (runs of five or six partial chunks of 40..100 bytes: the joined line passes a MaxEventSize of 330..480 that
				// every single event stays below)
				chunk := strings.Repeat("abcdefghij", 10)[:r.Range(40, 100)]
				if r.Chance(1, 6) {
					chunk = chunk[:r.Range(1, 12)]
				}
				if r.Chance(1, 6) {
					chunk += "\n"
				}
				js += fmt.Sprintf(`,"log":%s,"k8s_namespace":"%s","k8s_pod":"%s","k8s_container":"%s","k8s_container_id":"%s"`, jsonString(chunk),
					realK8sItem.Namespace, realK8sItem.PodName, realK8sItem.ContainerName, realK8sItem.ContainerID)
			}
			if r.Chance(1, 10) {
				js += fmt.Sprintf(`,"slow":%d`, r.Range(50, 2000))
			}
			js += "}"
			ops = append(ops, hx.L(hx.I(0), hx.I(s+1), hx.I(off), hx.S(js)))
			switch {
			case nLong < 3 && r.Chance(1, 8):
				// the source pauses for longer than the event time-out and the 200 ms heartbeat of the streamer: a run that is
				// open now has to be flushed by the stream's time-out event while nothing else arrives
				nLong++
				ops = append(ops, hx.L(hx.I(1), hx.I(evTimeout+r.Range(210, 330))))
			case r.Chance(1, 8):
				ops = append(ops, hx.L(hx.I(1), hx.I(r.Range(1, 15))))
			}
		}
		feeders = append(feeders, hx.L(ops...))
	}
	var plan []hx.Sx
	for i := 0; i < 40; i++ {
		plan = append(plan, hx.L(hx.I(r.Intn(20)), hx.I(0)))
	}
	fileCommit := 0
	if r.Bool() {
		fileCommit = 1
	}
	return realCase(procs, r.Intn(2), capacity, evTimeout, nAct, outKind, workers, count, flush, feeders, plan,
		o.Kind, realCol, realMax, realVar, maxSize, cutoff, fileCommit)
}

func pick2(r Rng, xs []string) string { return xs[r.Intn(len(xs))] }

func realCase(procs, poolKind, capacity, evTimeout, nAct, outKind, workers, count, flush int, feeders, plan []hx.Sx,
	kind, realCol, realMax, realVar, maxSize, cutoff, fileCommit int) hx.Sx {
	var xs []hx.Sx
	xopt := func(k, v int) {
		if v != 0 {
			xs = append(xs, hx.L(hx.I(k), hx.I(v)))
		}
	}
	xopt(2, maxSize)
	if maxSize > 0 {
		xopt(3, cutoff)
	}
	xopt(8, fileCommit)
	xs = append(xs, hx.L(hx.I(12), hx.I(kind)), hx.L(hx.I(13), hx.I(realCol)))
	xopt(14, realMax)
	xopt(15, realVar)
	cfg := hx.L(hx.I(procs), hx.I(poolKind), hx.I(capacity), hx.I(evTimeout), hx.I(nAct), hx.I(outKind), hx.I(workers), hx.I(count),
		hx.I(flush), hx.I(0), hx.I(0), hx.I(0))
	return hx.L(cfg, hx.L(feeders...), hx.L(plan...), hx.L(hx.I(0), hx.I(0), hx.I(0), hx.I(0), hx.I(0), hx.L(xs...)))
}

// RealOverLimit is the directed schedule "a continuation line arrives when the joined text has already reached
// max_event_size, then the source pauses": one source, one stream, the real join (max_event_size 16) as the only action or
// behind / in front of passing actions.
//
//	offset 10  "S3-0123456789abcdef"  starts a run, the action holds the event; the text is already longer than the limit
//	offset 20  "C2-0123456789"        continues the run and does not fit any more (collapsed; the text stays as it is)
//	pause      event time-out + 260 ms: the held event must be flushed by the stream's time-out and committed while idle
//	offset 30  "O1"                   an ordinary line of the same stream: committed after offset 10
//	[offset 40 .. more lines, a second run that is cut by the limit and flushed by a plain line]
//
// A join that answers the over-limit line with anything that clears its busy mark leaves the processor without a reason to
// wait on the stream: no time-out is delivered, offset 10 is unaccounted for while the pipeline is idle (monitors 1, 4, 17),
// and with several processors offset 30 is committed before it (monitor 2; file input: "offset corruption", monitor 16).
func RealOverLimit(procs, nAct, realCol, outKind, evTimeout int, kind int) hx.Sx {
	ev := func(off int, v string) hx.Sx {
		return hx.L(hx.I(0), hx.I(1), hx.I(off), hx.S(fmt.Sprintf(`{"stream":"a","ops":"%s","m":"%s","log":%s}`,
			strings.Repeat("p", nAct), strings.Repeat("1", nAct+1), jsonString(v))))
	}
	start, cont, plain := "S3-0123456789abcdef", "C2-0123456789", "O1"
	realVar, realMax := 0, 16
	if kind == RealTemplate {
		start, cont, plain = "panic: runtime error: index out of range", "goroutine 1 [running]:", "INFO starting"
		realVar, realMax = 1, 30
	}
	feeder := []hx.Sx{ev(10, start), ev(20, cont), hx.L(hx.I(1), hx.I(evTimeout+260)), ev(30, plain),
		ev(40, start), ev(50, cont), ev(60, cont), ev(70, plain), hx.L(hx.I(1), hx.I(5)), ev(80, start), ev(90, cont)}
	plan := []hx.Sx{hx.L(hx.I(0), hx.I(0))}
	return realCase(procs, 0, 16, evTimeout, nAct, outKind, 1, 2, 15, []hx.Sx{hx.L(feeder...)}, plan, kind, realCol, realMax, realVar, 0, 0, 1)
}

// RealJobs: the families with real holding actions, sized for the quick tier of one property (scale = c.Scale).
func RealJobs(r Rng, scale, nJoin, nTpl, nK8s int) []*Job {
	var jobs []*Job
	for i := 0; i < 2; i++ {
		for _, procs := range []int{1, 4} {
			jobs = append(jobs, &Job{Stream: "real-join-overlimit", Case: RealOverLimit(procs, 1+i, i, i, 30+220*i, RealJoin)})
		}
	}
	jobs = append(jobs, &Job{Stream: "real-join-overlimit", Case: RealOverLimit(4, 3, 1, 1, 40, RealTemplate)})
	for i := 0; i < nJoin*scale; i++ {
		jobs = append(jobs, &Job{Stream: "real-join", Case: GenRealCase(r, FamRealJoin)})
	}
	for i := 0; i < nTpl*scale; i++ {
		jobs = append(jobs, &Job{Stream: "real-join-template", Case: GenRealCase(r, FamRealTemplate)})
	}
	for i := 0; i < nK8s*scale; i++ {
		jobs = append(jobs, &Job{Stream: "real-k8s-multiline", Case: GenRealCase(r, FamRealK8s)})
	}
	return jobs
}

// RealStats counts what the real action of a case did (for the evidence file's distribution).
func RealStats(count func(string), j *Job) {
	it := hx.Items(j.Case)
	if len(it) < 4 {
		return
	}
	x := parseXopts(hx.Items(it[3]))
	if x.realKind == 0 {
		return
	}
	name := []string{"", "join", "join_template", "k8s multiline"}[x.realKind]
	if x.realKind != RealK8s && x.realMax > 0 {
		count("real " + name + ": max_event_size set")
	}
	var hold, collapse, flushTimeout, insts = false, false, false, map[int64]bool{}
	for _, l := range hx.Items(j.Obs) {
		o := hx.Items(l)
		if hx.Int(o[0]) != 3 || int(hx.Int(o[5])) != x.realCol {
			continue
		}
		switch hx.Int(o[2]) {
		case int64(pipeline.VtProcResult):
			insts[hx.Int(o[1])] = true
			switch pipeline.ActionResult(hx.Int(o[6])) {
			case pipeline.ActionHold:
				hold = true
			case pipeline.ActionCollapse:
				collapse = true
			}
		case int64(pipeline.VtProcDo):
			if hx.Int(o[6])%8 == 3 {
				flushTimeout = true
			}
		}
	}
	for _, c := range []struct {
		b bool
		k string
	}{{hold, ": a run was started (Hold)"}, {collapse, ": lines collapsed"}, {flushTimeout, ": the stream time-out reached the action"},
		{len(insts) > 1, ": several instances (processors) used"}} {
		if c.b {
			count("real " + name + c.k)
		}
	}
}
