package pipedrv

import (
	"verif/harness/hmain"
	"verif/harness/hx"
)

// Fam names one family of pipeline cases for a property's harness.
type Fam struct {
	Stream string
	Opts   Opts
	N      int
}

// PipeWhich is the sub-model number of pipeline-level cases inside a property that also has
// component-level sub-models.
const PipeWhich = 50

// GenFamilies generates, runs (concurrently) and records the families under sub-model `which`.
func GenFamilies(c *hmain.Ctx, which int, fams []Fam) {
	var jobs []*Job
	for _, f := range fams {
		for i := 0; i < f.N*c.Scale; i++ {
			jobs = append(jobs, &Job{Stream: f.Stream, Case: GenCase(c.R, f.Opts)})
		}
	}
	RunJobs(jobs, 40)
	for _, j := range jobs {
		Stats(c.W.Count, j)
		c.W.Case(j.Stream, which, j.Case, j.Obs, true)
	}
}

// WrapExec dispatches which >= PipeWhich to the pipeline driver.
func WrapExec(inner func(which int, cs hx.Sx) hx.Sx) func(which int, cs hx.Sx) hx.Sx {
	return func(which int, cs hx.Sx) hx.Sx {
		if which >= PipeWhich {
			return RunCase(cs)
		}
		return inner(which, cs)
	}
}
