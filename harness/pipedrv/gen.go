package pipedrv

import (
	"fmt"
	"strings"
	"sync"

	"verif/harness/hx"
)

// Job is one generated case.
type Job struct {
	Stream string
	Case   hx.Sx
	Obs    hx.Sx
}

// Opts selects a family of cases.
type Opts struct {
	Procs      []int  // candidate processor counts (1 = single proc)
	Actions    [2]int // min,max number of actions
	Ops        string // alphabet of ops for generic actions, e.g. "pppdc"
	HoldCol    bool   // one action column may hold ('h' starts, 'c' continues)
	OutKinds   []int  // 0 sync, 1 batcher, 2 retriable
	DeadQ      bool
	Spread     bool
	Sources    [2]int
	Streams    [2]int
	Events     [2]int // per source
	Failures   bool   // failing sends (outKind 2)
	Split      bool
	Gaps       bool // idle gaps inside feeders (time-outs flush held runs)
	DiscardCol bool // an action BEFORE the holding column may discard
	TwoHolders bool // two holding columns (e.g. k8s multiline followed by join)
	FastOut    bool // batch count 1, no send delays, no feeder pauses, no slow events
	SplitOften bool // every second event is split

	// threshold-crossing knobs (zero value = the historical range); every draw they add happens only when they are set,
	// so the cases of the older families do not change
	Capacity  [2]int // pipeline capacity (default 2..24)
	EvTimeout [2]int // event time-out in ms (default 20..60; the streamer heartbeat is 200 ms)
	Flush     [2]int // batcher flush time-out in ms (default 5..40; the batcher heartbeat is 100 ms)
	GapMul    int    // idle gaps last 1..GapMul event time-outs (default 3)
	Pool      int    // 0 either pool, 1 low-memory, 2 standard
	Recycle   bool   // events past the pools' recycle thresholds: pads > AvgEventSize up to 64 KiB, > 64 JSON nodes, Buf > 4 KiB
	Kids      [2]int // children per split (default exactly 2, all passing)
	KidOps    string // alphabet of the children's ops in non-holding columns (default "p")
	SplitAny  bool   // the split column may be left of the holding column (children meet a busy action)
	Backoff   bool   // retriable output with MinRetention 4..12 ms and Multiplier 1.5..3 instead of 1 ms / 1.0
	Maint     bool   // batcher MaintenanceFn every 1..30 ms

	// the two causes of a retry give-up (backoff.go: `next == backoff.Stop || attempts used up`)
	Retries       []int // candidate retry counts (BackoffOpts.AttemptNum; negative = retry for ever) instead of 0..1
	StopRetention int   // n of 4 cases get a MinRetention past the point where elapsed + next interval crosses the backoff
	//                      library's MaxElapsedTime of 15 min on the FIRST failure (31 min, 1 h, 24 h: next >= retention / 2):
	//                      the batch is given up by backoff.Stop with attempts remaining (or with unlimited attempts)
	DqDelay [2]int // blocking dead-queue output: each of its sends takes that many ms (every second case: 0)

	// coverage-driven knobs (notes/coverage): options of RunCase's xopts; every draw they add happens only when they are set
	// InVar: what Pipeline.In does before the stream: decoder raw / cri / auto (+ the input's suggestion), MaxEventSize with and
	// without cut-off, antispam threshold, meta data (also on array roots), source-name meta field, saved stream offsets
	InVar      bool
	MatchVar   bool   // match modes (or / prefix modes with value lists / do_if / MatchInvert) and metric options of the actions
	FileCommit bool   // InputPlugin.Commit goes to the real file-input jobProvider.commit
	EarlyStop  [2]int // Pipeline.Stop lo..hi ms after the feeders finished, with events in flight (no quiescence awaited)
	StopMid    bool   // ... or (every second case) asked for by a feeder in the middle of its script: In keeps being called
	BatchBytes [2]int // BatchSizeBytes of the batchers (the count limit stays: whichever is reached first seals the batch)
}

type Rng interface {
	Intn(n int) int
	Range(lo, hi int) int
	Bool() bool
	Chance(num, den int) bool
}

func pick(r Rng, xs []int) int { return xs[r.Intn(len(xs))] }

// GenCase builds one random case from the options.
func GenCase(r Rng, o Opts) hx.Sx {
	procs := pick(r, o.Procs)
	nAct := r.Range(o.Actions[0], o.Actions[1])
	holdCol := -1
	if o.HoldCol && nAct > 0 {
		holdCol = r.Intn(nAct)
		if o.DiscardCol && nAct >= 2 {
			holdCol = r.Range(1, nAct-1)
		}
	}
	holdCol2 := -1
	if o.TwoHolders && nAct >= 2 {
		holdCol = r.Intn(nAct - 1)
		holdCol2 = r.Range(holdCol+1, nAct-1)
	}
	// In() variety: one decoder / admission setting per case
	var xv struct{ dec, maxSize, cutoff, antispam, meta, match, metrics, streamOff int }
	if o.InVar {
		xv.dec = []int{0, 1, 1, 2, 2, 2, 3, 4, 5}[r.Intn(9)]
		if r.Chance(1, 2) {
			xv.maxSize = r.Range(30, 90)
			xv.cutoff = r.Intn(3)
		}
		if r.Chance(1, 3) {
			xv.antispam = r.Range(2, 12)
		}
		if r.Chance(1, 2) {
			xv.meta = r.Range(1, 2)
			if r.Chance(1, 8) {
				xv.meta = 3
			}
			if xv.meta >= 2 && xv.antispam == 0 {
				xv.antispam = r.Range(4, 40) // the source-name meta field is read on the antispam path only
			}
		}
		if (xv.dec == 2 || xv.dec == 4) && r.Bool() {
			// saved stream offsets as after a restart: stdout rows below it are "already processed" (antispam path)
			xv.streamOff = r.Range(20, 200)
			if xv.antispam == 0 {
				xv.antispam = r.Range(4, 40)
			}
		}
	}
	if o.MatchVar {
		xv.match = r.Intn(5)
		if r.Chance(1, 3) {
			xv.match += 8
		}
		xv.metrics = r.Intn(3)
	}
	outKind := pick(r, o.OutKinds)
	rng := func(x [2]int, lo, hi int) int {
		if x[1] > 0 {
			lo, hi = x[0], x[1]
		}
		return r.Range(lo, hi)
	}
	capacity := rng(o.Capacity, 2, 24)
	evTimeout := rng(o.EvTimeout, 20, 60)
	workers, count := r.Range(1, 3), r.Range(1, 4)
	flush := rng(o.Flush, 5, 40)
	if o.FastOut {
		workers, count, capacity = r.Range(2, 3), 1, 24
	}
	retry := r.Range(0, 1)
	if len(o.Retries) > 0 {
		retry = pick(r, o.Retries)
	}
	gapMul := 3
	if o.GapMul > 0 {
		gapMul = o.GapMul
	}
	dq, spread := 0, 0
	if o.DeadQ {
		dq = 1
	}
	if o.Spread {
		spread = 1
	}
	poolKind := r.Intn(2)
	if o.Pool > 0 {
		poolKind = o.Pool - 1
	}
	nsrc := r.Range(o.Sources[0], o.Sources[1])
	var feeders []hx.Sx
	nEvents := 0
	for s := 0; s < nsrc; s++ {
		nstreams := r.Range(o.Streams[0], o.Streams[1])
		n := r.Range(o.Events[0], o.Events[1])
		var ops []hx.Sx
		off, ngaps := 0, 0
		if o.FileCommit && r.Chance(1, 4) {
			// a first offset past 16 MiB: the file input's "maybe an offset corruption" branch (a stream without a stored offset)
			off = 16<<20 + r.Intn(1000)
		}
		for i := 0; i < n; i++ {
			off += r.Range(1, 30)
			var sb strings.Builder
			for a := 0; a < nAct; a++ {
				c := o.Ops[r.Intn(len(o.Ops))]
				if a == holdCol || a == holdCol2 {
					c = "hccpp"[r.Intn(5)]
				} else if c == 'h' || c == 'c' {
					c = 'p'
				}
				if c == 'd' && holdCol >= 0 && a > holdCol {
					// fine: discard after the holder
				}
				if c == 'd' && holdCol >= 0 && a < holdCol && !o.DiscardCol {
					c = 'p'
				}
				if c == 'b' && (holdCol > a) {
					c = 'p' // a bare Break in front of a holding action does not occur in file.d (split = Spawn + Break)
				}
				sb.WriteByte(c)
			}
			opsStr := sb.String()
			if o.Recycle && nAct > 0 && r.Chance(1, 6) {
				// one passing action grows the event's scratch buffer past 4 KiB
				b := []byte(opsStr)
				if col := r.Intn(nAct); b[col] == 'p' {
					b[col] = 'g'
					opsStr = string(b)
				}
			}
			js := fmt.Sprintf(`{"stream":"s%d","ops":"%s"`, r.Intn(nstreams), opsStr)
			if o.Split && (r.Chance(1, 6) || (o.SplitOften && r.Bool())) && nAct > 0 {
				col := r.Intn(nAct)
				if holdCol < 0 || col >= holdCol || o.SplitAny {
					b := []byte(opsStr)
					b[col] = 's'
					if o.Kids[1] == 0 && o.KidOps == "" {
						js = fmt.Sprintf(`{"stream":"s%d","ops":"%s","kids":[{"ops":"%s","m":"%s"},{"ops":"%s","m":"%s"}]`, r.Intn(nstreams), string(b),
							strings.Repeat("p", nAct), strings.Repeat("1", nAct+1), strings.Repeat("p", nAct), strings.Repeat("1", nAct+1))
					} else {
						js = fmt.Sprintf(`{"stream":"s%d","ops":"%s","kids":[%s]`, r.Intn(nstreams), string(b), genKids(r, o, nAct, holdCol, holdCol2, off))
					}
				}
			}
			{
				// match mask (always present: an event without the field matches no action): a '0' at
				// position i means action i's match conditions reject the event
				mb := make([]byte, nAct+1)
				for a := range mb {
					mb[a] = '1'
					if a < nAct && r.Chance(1, 9) {
						mb[a] = '0'
					}
				}
				js += fmt.Sprintf(`,"m":"%s"`, string(mb))
			}
			if !o.FastOut && r.Chance(1, 8) {
				js += fmt.Sprintf(`,"slow":%d`, r.Range(50, 2000))
			}
			if r.Chance(1, 25) {
				js += `,"refuse":1`
			}
			padLen, nWide := -1, 0
			if o.Recycle && r.Chance(1, 3) {
				// past the recycle thresholds of the pools: Size > AvgEventSize (up to the 64 KiB size class), a Root of
				// more than 4 * 16 nodes; the small events that follow reuse the same objects
				switch r.Intn(8) {
				case 0:
					padLen = r.Range(60000, 66000)
				case 1, 2:
					padLen = r.Range(3500, 9000)
				case 3:
					padLen = 0
				default:
					padLen = r.Range(200, 3000)
				}
				if r.Chance(1, 3) {
					nWide = r.Range(60, 200)
				}
				js += fmt.Sprintf(`,"plen":%d,"off":%d`, padLen, off)
				if nWide > 0 {
					js += fmt.Sprintf(`,"wn":%d`, nWide)
				}
			}
			js += "}"
			if r.Chance(1, 30) {
				js = `{"broken json` // undecodable: refused, event returned to the pool
			}
			if o.InVar {
				js = wrapEvent(r, xv.dec, xv.meta, js, nstreams)
			}
			nEvents++
			if padLen >= 0 {
				ops = append(ops, hx.L(hx.I(6), hx.I(s+1), hx.I(off), hx.S(js), hx.I(padLen), hx.I(nWide)))
			} else {
				ops = append(ops, hx.L(hx.I(0), hx.I(s+1), hx.I(off), hx.S(js)))
			}
			if o.Gaps && r.Chance(1, 6) {
				gap := hx.L(hx.I(1), hx.I(r.Range(1, gapMul)*evTimeout+r.Range(0, 250)))
				// families with long event time-outs: at most three idle gaps per feeder (a gap costs up to a second)
				if ngaps++; o.EvTimeout[1] <= 200 || ngaps <= 3 {
					ops = append(ops, gap)
				}
			} else if !o.FastOut && r.Chance(1, 8) {
				ops = append(ops, hx.L(hx.I(1), hx.I(r.Range(1, 15))))
			}
		}
		feeders = append(feeders, hx.L(ops...))
	}
	var plan []hx.Sx
	for i := 0; i < 40; i++ {
		f := 0
		if o.Failures {
			switch r.Intn(4) {
			case 0:
				f = retry + 2
			case 1:
				f = 1
			}
		}
		d := r.Intn(20)
		if o.FastOut {
			d = 0
		}
		plan = append(plan, hx.L(hx.I(d), hx.I(f)))
	}
	// options of RunCase's xopts (6th element of ext)
	var xs []hx.Sx
	xopt := func(k, v int) {
		if v != 0 {
			xs = append(xs, hx.L(hx.I(k), hx.I(v)))
		}
	}
	xopt(1, xv.dec)
	xopt(2, xv.maxSize)
	if xv.maxSize > 0 {
		xopt(3, xv.cutoff)
	}
	xopt(4, xv.antispam)
	xopt(5, xv.meta)
	xopt(6, xv.match)
	xopt(7, xv.metrics)
	xopt(11, xv.streamOff)
	if o.FileCommit {
		xopt(8, 1)
	}
	if o.EarlyStop[1] > 0 {
		xopt(9, 1+r.Range(o.EarlyStop[0], o.EarlyStop[1]))
		if o.StopMid && r.Bool() && len(feeders) > 0 {
			// one feeder asks for the stop in the middle of its script and goes on feeding: In is called on a stopping /
			// stopped pipeline.  The capacity covers every event of the case, so that no feeder parks in the pool for ever
			f := r.Intn(len(feeders))
			ops := hx.Items(feeders[f])
			at := r.Intn(len(ops) + 1)
			nops := append(append(append([]hx.Sx{}, ops[:at]...), hx.L(hx.I(7))), ops[at:]...)
			feeders[f] = hx.L(nops...)
			if capacity < nEvents {
				capacity = nEvents
			}
		}
	}
	if o.BatchBytes[1] > 0 && r.Bool() {
		xopt(10, r.Range(o.BatchBytes[0], o.BatchBytes[1]))
	}
	cfg := hx.L(hx.I(procs), hx.I(poolKind), hx.I(capacity), hx.I(evTimeout), hx.I(nAct), hx.I(outKind), hx.I(workers), hx.I(count),
		hx.I(flush), hx.I(retry), hx.I(dq), hx.I(spread))
	if !o.Recycle && !o.Backoff && !o.Maint && o.StopRetention == 0 && o.DqDelay[1] == 0 && len(xs) == 0 {
		return hx.L(cfg, hx.L(feeders...), hx.L(plan...))
	}
	avg, retention, mult, maint := 0, 0, 0, 0
	if o.Recycle {
		avg = []int{32, 256, 2048}[r.Intn(3)]
	}
	if o.Backoff {
		retention, mult = r.Range(4, 12), []int{150, 200, 300}[r.Intn(3)]
	}
	if o.Maint {
		maint = r.Range(1, 30)
	}
	if o.StopRetention > 0 && r.Chance(o.StopRetention, 4) {
		retention = StopRetentions[r.Intn(len(StopRetentions))]
	}
	dqDelay := 0
	if o.DqDelay[1] > 0 && r.Bool() {
		dqDelay = r.Range(o.DqDelay[0], o.DqDelay[1])
	}
	if len(xs) > 0 {
		return hx.L(cfg, hx.L(feeders...), hx.L(plan...), hx.L(hx.I(avg), hx.I(retention), hx.I(mult), hx.I(maint), hx.I(dqDelay), hx.L(xs...)))
	}
	if o.DqDelay[1] > 0 {
		return hx.L(cfg, hx.L(feeders...), hx.L(plan...), hx.L(hx.I(avg), hx.I(retention), hx.I(mult), hx.I(maint), hx.I(dqDelay)))
	}
	return hx.L(cfg, hx.L(feeders...), hx.L(plan...), hx.L(hx.I(avg), hx.I(retention), hx.I(mult), hx.I(maint)))
}

// wrapEvent turns the JSON text of an event into what the case's decoder reads.
//
//	json / auto: the text itself; with meta data every 8th event is an ARRAY root ([<event>,7]: In adds the meta fields to
//	             the array's objects)
//	raw:         the text and a line feed (the raw decoder drops the last byte)
//	cri:         "<time> stdout|stderr F|P <text>\n" - the stream is the row's, every 8th row is partial (antispam skipped),
//	             every 16th line is not CRI at all (refused before an event is taken from the pool), every 10th has a time
//	             that does not parse
//	any decoder: every 20th record is empty or a bare line feed
func wrapEvent(r Rng, dec, meta int, js string, nstreams int) string {
	if r.Chance(1, 20) {
		return []string{"", "\n"}[r.Intn(2)] // no record at all: refused before anything else happens
	}
	switch dec {
	case 1:
		return js + "\n"
	case 2, 4:
		if r.Chance(1, 16) {
			return "not a cri line\n"
		}
		stream, tag := "stdout", "F"
		if nstreams > 1 && r.Bool() {
			stream = "stderr"
		}
		if r.Chance(1, 8) {
			tag = "P"
		}
		if r.Chance(1, 10) {
			return fmt.Sprintf("yesterday %s %s %s\n", stream, tag, js) // a row whose time does not parse (antispam path)
		}
		return fmt.Sprintf("2016-10-06T00:17:09.%09dZ %s %s %s\n", r.Intn(1000000000), stream, tag, js)
	}
	if meta > 0 && r.Chance(1, 8) && strings.HasSuffix(js, "}") {
		return "[" + js + ",7]"
	}
	return js
}

// StopRetentions are MinRetention values (ms) with which RetriableBatcher.Out is given up by the backoff library itself:
// ExponentialBackOff.NextBackOff draws the first interval from [0.5, 1.5] x MinRetention and answers backoff.Stop when
// elapsed + interval > MaxElapsedTime (15 min, a constant of backoff.go's literal).  Anything above 30 min stops on the first
// failure; 10..30 min would stop at random and otherwise sleep for minutes, and a Stop after k >= 1 failures needs 15 min of
// real time (the clock of the literal is backoff.SystemClock): neither is generated (notes/hook-request-C01-r4.md).
var StopRetentions = []int{1_860_000, 3_600_000, 86_400_000}

// StopRetentionMs: the case's retention crosses the threshold.
const StopRetentionMs = 1_800_000

// genKids: the "kids" array of a split event: Kids[0]..Kids[1] objects, each with its own op per action (the columns left
// of and at the split column are never consulted: a child starts behind its parent), its own match mask, and the fields
// checkEvent uses to recognise a child that is not its own ("kid" = "<parent offset>.<index>").
func genKids(r Rng, o Opts, nAct, holdCol, holdCol2, off int) string {
	lo, hi := 2, 2
	if o.Kids[1] > 0 {
		lo, hi = o.Kids[0], o.Kids[1]
	}
	n := r.Range(lo, hi)
	alphabet := o.KidOps
	if alphabet == "" {
		alphabet = "p"
	}
	var sb strings.Builder
	for i := 0; i < n; i++ {
		ops := make([]byte, nAct)
		m := make([]byte, nAct+1)
		for a := range ops {
			ops[a] = alphabet[r.Intn(len(alphabet))]
			if a == holdCol || a == holdCol2 {
				ops[a] = "hccpd"[r.Intn(5)]
			}
		}
		for a := range m {
			m[a] = '1'
			if a < nAct && r.Chance(1, 9) {
				m[a] = '0'
			}
		}
		if i > 0 {
			sb.WriteByte(',')
		}
		fmt.Fprintf(&sb, `{"ops":"%s","m":"%s","kid":"%d.%d","koff":%d,"ki":%d}`, ops, m, off, i, off, i)
	}
	return sb.String()
}

// RunJobs executes the jobs concurrently (each needs a few hundred ms of real time).
func RunJobs(jobs []*Job, par int) {
	sem := make(chan struct{}, par)
	var wg sync.WaitGroup
	for _, j := range jobs {
		j := j
		wg.Add(1)
		sem <- struct{}{}
		go func() {
			defer wg.Done()
			defer func() { <-sem }()
			j.Obs = RunCase(j.Case)
		}()
	}
	wg.Wait()
}

// Standard families shared by the pipeline-level properties.
var (
	FamBasic             = Opts{Procs: []int{1, 2, 4, 8}, Actions: [2]int{0, 3}, Ops: "ppppd", OutKinds: []int{0, 1, 1}, Sources: [2]int{1, 3}, Streams: [2]int{1, 3}, Events: [2]int{3, 40}}
	FamHold              = Opts{Procs: []int{1, 2, 4, 8}, Actions: [2]int{1, 3}, Ops: "pppd", HoldCol: true, OutKinds: []int{0, 1, 1}, Sources: [2]int{1, 3}, Streams: [2]int{1, 3}, Events: [2]int{3, 30}, Gaps: true}
	FamSplit             = Opts{Procs: []int{1, 2, 4}, Actions: [2]int{1, 3}, Ops: "pppd", HoldCol: true, Split: true, OutKinds: []int{0, 1}, Sources: [2]int{1, 2}, Streams: [2]int{1, 2}, Events: [2]int{3, 20}, Gaps: true}
	FamDiscardBeforeHold = Opts{Procs: []int{1, 2, 4}, Actions: [2]int{2, 3}, Ops: "ppd", HoldCol: true, DiscardCol: true, OutKinds: []int{0, 1}, Sources: [2]int{1, 2}, Streams: [2]int{1, 2}, Events: [2]int{3, 20}, Gaps: true}
	FamTwoHolders        = Opts{Procs: []int{1, 2, 4}, Actions: [2]int{2, 3}, Ops: "ppp", HoldCol: true, TwoHolders: true, OutKinds: []int{0, 1}, Sources: [2]int{1, 2}, Streams: [2]int{1, 2}, Events: [2]int{4, 25}, Gaps: true}
	// many pass / discard alternations on few streams with a fast batching output: the batcher worker's commit of
	// event N races with the processor's commit of the discarded event N+1 on the stream mutex
	FamCommitRace = Opts{Procs: []int{2, 4}, Actions: [2]int{1, 1}, Ops: "pd", OutKinds: []int{1}, Sources: [2]int{1, 2}, Streams: [2]int{1, 1}, Events: [2]int{1500, 2500}, FastOut: true}
	FamRetry      = Opts{Procs: []int{1, 2, 4}, Actions: [2]int{0, 2}, Ops: "pppd", OutKinds: []int{2}, Failures: true, Sources: [2]int{1, 2}, Streams: [2]int{1, 2}, Events: [2]int{4, 30}}
	FamDeadQ      = Opts{Procs: []int{1, 2, 4}, Actions: [2]int{0, 2}, Ops: "pppd", OutKinds: []int{2}, Failures: true, DeadQ: true, Sources: [2]int{1, 2}, Streams: [2]int{1, 2}, Events: [2]int{4, 30}}
	// a failed batch routed to the dead queue that contains the parent of a split
	FamDeadQSplit = Opts{Procs: []int{1, 2, 4}, Actions: [2]int{1, 2}, Ops: "ppp", Split: true, SplitOften: true, OutKinds: []int{2}, Failures: true, DeadQ: true, Sources: [2]int{1, 2}, Streams: [2]int{1, 2}, Events: [2]int{4, 20}}
	// spread routing with a split action: children and their parent travel through the kafka-like input's Commit path
	FamSpreadSplit = Opts{Procs: []int{2, 4}, Actions: [2]int{1, 2}, Ops: "ppp", Split: true, SplitOften: true, OutKinds: []int{0, 1}, Spread: true, Sources: [2]int{2, 3}, Streams: [2]int{1, 1}, Events: [2]int{6, 25}}
	FamSpread      = Opts{Procs: []int{2, 4, 8}, Actions: [2]int{0, 2}, Ops: "pppd", OutKinds: []int{0, 1}, Spread: true, Sources: [2]int{2, 4}, Streams: [2]int{1, 1}, Events: [2]int{10, 40}}

	// ---- families that cross thresholds hard-coded in /repo/pipeline (notes/threshold-audit.txt) ----

	// capacity 1 (C04 "all capacities down to 1", C05 "capacities 1..N"): one event in flight; a held event owns the only
	// slot until the event time-out, the parent of a split owns it while its children travel.  A regression that needs a
	// second slot to make progress (e.g. `inUse < capacity` instead of `<=` in get, or a finalize path that takes an event
	// before giving one back) never reaches quiescence here: monitor 1 (stuck) / 4 (conservation)
	FamCap1 = Opts{Procs: []int{1, 2, 4}, Actions: [2]int{0, 3}, Ops: "pppd", HoldCol: true, Split: true, OutKinds: []int{0, 1, 1}, Sources: [2]int{1, 3},
		Streams: [2]int{1, 2}, Events: [2]int{3, 12}, Gaps: true, Capacity: [2]int{1, 1}}
	// flush time-out at or above the batcher's 100 ms heartbeat (production defaults are 200 ms .. 1 s): a partly filled
	// batch is looked at by several ticks before it is due.  A regression that restarts batch.startTime on every tick (or in
	// getBatch for a batch that is already being filled) still flushes below 100 ms but never here: the NotReady label's
	// (elapsed, timeout) pair breaks the LTS guard, and the run ends stuck (monitor 1)
	FamSlowFlush = Opts{Procs: []int{1, 2, 4}, Actions: [2]int{0, 2}, Ops: "ppppd", OutKinds: []int{1, 1, 2}, Sources: [2]int{1, 2}, Streams: [2]int{1, 2},
		Events: [2]int{3, 14}, Flush: [2]int{100, 320}}
	// event time-out above the streamer's 200 ms heartbeat: a blocked stream is visited by two to four heartbeats before its
	// time-out is due.  A regression that refreshes stream.blockTime on every visit (tryUnblock) or on every spurious wake-up
	// of blockGet never sends the time-out event: the held run is never flushed, the run ends stuck (monitors 1, 4)
	FamHoldSlow = Opts{Procs: []int{1, 2, 4}, Actions: [2]int{1, 3}, Ops: "pppd", HoldCol: true, OutKinds: []int{0, 1, 1}, Sources: [2]int{1, 2},
		Streams: [2]int{1, 2}, Events: [2]int{3, 10}, Gaps: true, GapMul: 1, EvTimeout: [2]int{250, 700}}
	// events past the recycle thresholds of the pools (event.go resetEvent: Size > AvgEventSize, cap(Buf) > 4096, node pool
	// > 64; low-memory size classes up to 64 KiB) followed by small events on the same objects (capacity 1..6: the standard
	// pool wraps, sync.Pool hands the same object back).  checkEvent (drv.go) recognises an event whose content is not what
	// was read; a regression in resetEvent / Event.reset that keeps `next`, `stream`, `children` or `kind` of the previous
	// life breaks the stream / processor LTS replay and monitors 4, 7
	FamRecycle = Opts{Procs: []int{1, 2, 4}, Actions: [2]int{1, 3}, Ops: "pppd", HoldCol: true, Split: true, OutKinds: []int{0, 1}, Sources: [2]int{1, 2},
		Streams: [2]int{1, 2}, Events: [2]int{10, 40}, Capacity: [2]int{1, 6}, Recycle: true, Kids: [2]int{0, 5}, KidOps: "ppd"}
	// split fan-out 0..14 (more children than batch size x workers and than the capacity), children that are discarded,
	// that skip actions, that meet a busy holding action right of the split (held / collapsed children are flushed by the
	// time-out tail of Spawn), a big parent followed by a small one on the same event object (e.children[:0] reuse).
	// A regression in Spawn's time-out tail leaves a child held for ever (processor LTS: a held event at the next Take), one
	// in finalize's release of the children is seen by checkEvent ("kid") or as a crash
	FamSplitFan = Opts{Procs: []int{1, 2, 4}, Actions: [2]int{1, 3}, Ops: "pppd", HoldCol: true, Split: true, SplitOften: true, SplitAny: true,
		Kids: [2]int{0, 14}, KidOps: "pppdg", OutKinds: []int{0, 1}, Sources: [2]int{1, 2}, Streams: [2]int{1, 2}, Events: [2]int{3, 20}, Gaps: true,
		Capacity: [2]int{1, 8}}
	// retriable output with a real backoff (MinRetention 4..12 ms, Multiplier 1.5..3: the pauses grow) instead of the frozen
	// 1 ms / 1.0: later batches finish while an earlier one sleeps between attempts for tens of ms.  A regression that lets
	// a batch behind a sleeping one commit first breaks the batcher LTS (CommitBegin guard) and monitors 5, 6 (C01), 2 (C02)
	FamRetryBackoff = Opts{Procs: []int{1, 2, 4}, Actions: [2]int{0, 2}, Ops: "pppd", OutKinds: []int{2}, Failures: true, Sources: [2]int{1, 2},
		Streams: [2]int{1, 2}, Events: [2]int{4, 12}, Backoff: true}
	// the batcher's MaintenanceFn hook (elasticsearch, clickhouse, ... set it) runs in the worker between two batches
	FamMaint = Opts{Procs: []int{1, 2, 4}, Actions: [2]int{0, 2}, Ops: "ppppd", OutKinds: []int{1, 2}, Sources: [2]int{1, 2}, Streams: [2]int{1, 2},
		Events: [2]int{5, 30}, Maint: true}
	// both causes of a retry give-up, without a dead queue: attempts used up (retry 0..3, MinRetention 1 ms) and backoff.Stop
	// on the first failure with attempts remaining or unlimited (retry -3, -1, 1..3 with MinRetention 31 min .. 24 h; three of
	// four cases).  A regression that treats the two causes differently (reports the loss for one only, keeps retrying, commits
	// before the give-up, ...) breaks the batcher LTS (RetryGiveUp / RetryCall guards, OutEnd length and status) and monitor 14
	FamRetryStop = Opts{Procs: []int{1, 2, 4}, Actions: [2]int{0, 2}, Ops: "pppd", OutKinds: []int{2}, Failures: true, Sources: [2]int{1, 2},
		Streams: [2]int{1, 2}, Events: [2]int{4, 16}, Retries: []int{-3, -1, 0, 1, 2, 3}, StopRetention: 3}
	// ... and with a dead queue whose output blocks for up to 150 ms in every second case: between the hand-over and the dead
	// queue's acknowledgement NO output has acknowledged the events of the given-up batch.  The main batch must come back from
	// Out emptied (OutEnd n = 0, status 3) whatever the cause of the give-up; a main batcher that keeps the events commits them
	// un-acknowledged (monitor 14: Controller.Commit inside the commit section of a batch its own output never acknowledged),
	// and the dead queue commits them a second time
	FamDeadQStop = Opts{Procs: []int{1, 2, 4}, Actions: [2]int{0, 2}, Ops: "pppd", OutKinds: []int{2}, Failures: true, DeadQ: true, Sources: [2]int{1, 2},
		Streams: [2]int{1, 2}, Events: [2]int{4, 16}, Retries: []int{-3, -1, 0, 1, 2, 3}, StopRetention: 3, DqDelay: [2]int{20, 150}}

	// ---- families that reach code of the anchored files no older family executes (notes/coverage/C0x-triage.md) ----

	// what Pipeline.In does before an event reaches its stream (pipeline.go In / checkInputBytes / Start / SuggestDecoder): the
	// raw and cri decoders, "auto" with and without the input's suggestion, MaxEventSize with drop / cut-off / cut-off field,
	// an antispam threshold, meta data (on object and on array roots), the source-name meta field - plus the match and
	// metric options of the actions.  Every refusal happens before or right after the pool hand-out: an event refused
	// after get() must go back (monitor 7, pool at quiescence), a refused record must never show up in a stream or be
	// committed (monitor 15), and the frontier / order / conservation monitors run on what was accepted
	FamInVar = Opts{Procs: []int{1, 2, 4}, Actions: [2]int{0, 3}, Ops: "pppd", HoldCol: true, OutKinds: []int{0, 1, 1}, Sources: [2]int{1, 3},
		Streams: [2]int{1, 2}, Events: [2]int{6, 30}, Gaps: true, InVar: true, MatchVar: true}
	// action selection (processor.go isMatch / isMatchOr / isMatchAnd / countEvent): or / prefix modes with value lists,
	// do_if, MatchInvert, actions without a metric name, metric labels, MetricSkipStatus; under hold / split / discard chains
	FamMatchVar = Opts{Procs: []int{1, 2, 4}, Actions: [2]int{1, 3}, Ops: "pppd", HoldCol: true, Split: true, OutKinds: []int{0, 1}, Sources: [2]int{1, 2},
		Streams: [2]int{1, 3}, Events: [2]int{4, 25}, Gaps: true, MatchVar: true}
	// the second consumer of the commit order (C02 anchors plugin/input/file/provider.go): every InputPlugin.Commit goes to
	// the real jobProvider.commit, which panics "offset corruption" on any commit that does not move its stream forward
	// (labels 118 / 119, monitor 16: the stored offsets are those of the last commit of every stream, nothing panicked)
	FamFileCommit = Opts{Procs: []int{1, 2, 4, 8}, Actions: [2]int{0, 3}, Ops: "pppd", HoldCol: true, Split: true, OutKinds: []int{0, 1, 1, 2}, Failures: true,
		Sources: [2]int{1, 3}, Streams: [2]int{1, 3}, Events: [2]int{4, 30}, Gaps: true, FileCommit: true}
	// shutdown with events in flight (processor.go: unlock events in dischargeStream / processSequence / processEvent,
	// batch.go: Add on a stopped batcher): Pipeline.Stop 0..40 ms after the last In - or asked for by a feeder in the
	// middle of its script - while events are held, queued, inside OutFn, in a half-filled batch.  Stop must return, nothing
	// may panic, and the trace must remain a run of every model: in particular nothing is committed that the output did
	// not acknowledge, no commit overtakes an older event (monitors 5, 6, 14, 2, 3, 12), no event goes back to the pool
	// twice (7).  Completeness (4) is not claimed: what is in flight at shutdown stays un-committed
	FamEarlyStop = Opts{Procs: []int{1, 2, 4}, Actions: [2]int{0, 3}, Ops: "pppd", HoldCol: true, Split: true, OutKinds: []int{0, 1, 1, 2}, Failures: true,
		Sources: [2]int{1, 3}, Streams: [2]int{1, 2}, Events: [2]int{4, 30}, EarlyStop: [2]int{0, 40}, StopMid: true, FileCommit: true}
	// batches sealed by BatchSizeBytes (batch.go updateStatus: `maxSizeBytes <= eventsSize`) before the count limit
	FamBatchBytes = Opts{Procs: []int{1, 2, 4}, Actions: [2]int{0, 2}, Ops: "ppppd", OutKinds: []int{1, 1, 2}, Failures: true, Sources: [2]int{1, 2},
		Streams: [2]int{1, 2}, Events: [2]int{5, 30}, BatchBytes: [2]int{90, 500}}
)

// FamSpreadCreate: spread routing with many feeders that start at the same instant on a pipeline with 8..32 streams to
// create: two Ins that miss the same stream under the read lock meet again under the write lock (streamer.getStream's
// second look-up).  A getStream that creates the stream twice splits one stream's events over two objects: the
// conservation / pool monitors see events that were put and never finalized
var FamSpreadCreate = Opts{Procs: []int{4, 8, 16}, Actions: [2]int{0, 1}, Ops: "pppd", OutKinds: []int{0, 1}, Spread: true, Sources: [2]int{6, 8}, Streams: [2]int{1, 1},
	Events: [2]int{4, 12}, FastOut: true}

// CoverageFamilies: the families above under their stream names, sized for the quick tier of one property.
func CoverageFamilies(nIn, nMatch, nFile, nStop, nBytes int) []Fam {
	return []Fam{{Stream: "in-variety", Opts: FamInVar, N: nIn}, {Stream: "match-variety", Opts: FamMatchVar, N: nMatch},
		{Stream: "file-commit", Opts: FamFileCommit, N: nFile}, {Stream: "early-stop", Opts: FamEarlyStop, N: nStop},
		{Stream: "batch-bytes", Opts: FamBatchBytes, N: nBytes}}
}

// Stats counts, per case, which thresholds of /repo/pipeline the case crosses (for the evidence file's distribution).
func Stats(count func(string), j *Job) {
	it := hx.Items(j.Case)
	ci := hx.Items(it[0])
	g := func(i int) int { return int(hx.Int(ci[i])) }
	if g(2) == 1 {
		count("pipe: capacity 1")
	}
	if g(3) > 200 {
		count("pipe: event time-out > 200 ms streamer heartbeat")
	}
	if g(5) >= 1 && g(8) >= 100 {
		count("pipe: flush time-out >= 100 ms batcher heartbeat")
	}
	avg := 256
	if len(it) > 3 {
		ext := hx.Items(it[3])
		if v := int(hx.Int(ext[0])); v > 0 {
			avg = v
		}
		if hx.Int(ext[1]) > 1 || hx.Int(ext[2]) > 100 {
			count("pipe: backoff retention > 1 ms / multiplier > 1")
		}
		if hx.Int(ext[3]) > 0 {
			count("pipe: batcher maintenance hook set")
		}
		if hx.Int(ext[1]) > StopRetentionMs && g(5) == 2 {
			count("pipe: retention past the MaxElapsedTime crossing (backoff.Stop on the first failure)")
			if g(9) < 0 {
				count("pipe: retention past the MaxElapsedTime crossing, unlimited retries")
			} else if g(9) > 0 {
				count("pipe: retention past the MaxElapsedTime crossing, attempts remaining")
			}
		}
		if len(ext) > 4 && hx.Int(ext[4]) > 0 {
			count("pipe: blocking dead-queue output")
		}
	}
	big, huge, wide, grow, kids0, kids1, kidsMany := false, false, false, false, false, false, false
	for _, f := range hx.Items(it[1]) {
		for _, op := range hx.Items(f) {
			o := hx.Items(op)
			k := hx.Int(o[0])
			if k != 0 && k != 6 {
				continue
			}
			js := hx.Bytes(o[3])
			n := len(js)
			if k == 6 {
				n += int(hx.Int(o[4]))
				wide = wide || hx.Int(o[5]) > 64
			}
			big = big || n > avg
			huge = huge || n > 32768
			if i := strings.Index(string(js), `"ops":"`); i >= 0 {
				rest := string(js[i+7:])
				if e := strings.IndexByte(rest, '"'); e >= 0 && strings.IndexByte(rest[:e], 'g') >= 0 {
					grow = true
				}
			}
			if i := strings.Index(string(js), `"kids":[`); i >= 0 {
				switch c := strings.Count(string(js), `"kid":`); {
				case strings.HasPrefix(string(js[i:]), `"kids":[]`):
					kids0 = true
				case c == 1:
					kids1 = true
				case c > 8:
					kidsMany = true
				}
			}
		}
	}
	for _, x := range []struct {
		b bool
		k string
	}{{big, "pipe: event larger than AvgEventSize"}, {huge, "pipe: event > 32 KiB (64 KiB size class)"}, {wide, "pipe: event with > 64 JSON nodes"},
		{grow, "pipe: action grows Buf past 4 KiB"}, {kids0, "pipe: split into 0 children"}, {kids1, "pipe: split into 1 child"}, {kidsMany, "pipe: split into > 8 children"}} {
		if x.b {
			count(x.k)
		}
	}
	seen := map[string]bool{}
	once := func(k string) {
		if !seen[k] {
			seen[k] = true
			count(k)
		}
	}
	for _, l := range hx.Items(j.Obs) {
		o := hx.Items(l)
		switch hx.Int(o[2]) {
		case LProcCount:
			if hx.Int(o[3]) > hx.Int(o[4]) {
				count("pipe: processors expanded during the case")
			}
		case LMaint:
			if hx.Int(o[3]) == 1 {
				count("pipe: maintenance hook ran")
			}
		case 14: // pipeline.VtRetryGiveUp on the main batcher: d = deadq + 2*stop
			if hx.Int(o[0]) == 1 {
				switch fl := hx.Int(o[6]); {
				case fl >= 2 && fl%2 == 1:
					once("pipe: give-up by backoff.Stop, dead queue")
				case fl >= 2:
					once("pipe: give-up by backoff.Stop, no dead queue")
				case fl%2 == 1:
					once("pipe: give-up by attempts, dead queue")
				default:
					once("pipe: give-up by attempts, no dead queue")
				}
			}
		}
	}
}
