package pipedrv

import (
	"fmt"
	"strings"
	"sync"

	"verif/harness/hx"
)

// Job is one generated case.
type Job struct {
	Stream string
	Case   hx.Sx
	Obs    hx.Sx
}

// Opts selects a family of cases.
type Opts struct {
	Procs      []int  // candidate processor counts (1 = single proc)
	Actions    [2]int // min,max number of actions
	Ops        string // alphabet of ops for generic actions, e.g. "pppdc"
	HoldCol    bool   // one action column may hold ('h' starts, 'c' continues)
	OutKinds   []int  // 0 sync, 1 batcher, 2 retriable
	DeadQ      bool
	Spread     bool
	Sources    [2]int
	Streams    [2]int
	Events     [2]int // per source
	Failures   bool   // failing sends (outKind 2)
	Split      bool
	Gaps       bool // idle gaps inside feeders (time-outs flush held runs)
	DiscardCol bool // an action BEFORE the holding column may discard
	TwoHolders bool // two holding columns (e.g. k8s multiline followed by join)
	FastOut    bool // batch count 1, no send delays, no feeder pauses, no slow events
	SplitOften bool // every second event is split
}

type Rng interface {
	Intn(n int) int
	Range(lo, hi int) int
	Bool() bool
	Chance(num, den int) bool
}

func pick(r Rng, xs []int) int { return xs[r.Intn(len(xs))] }

// GenCase builds one random case from the options.
func GenCase(r Rng, o Opts) hx.Sx {
	procs := pick(r, o.Procs)
	nAct := r.Range(o.Actions[0], o.Actions[1])
	holdCol := -1
	if o.HoldCol && nAct > 0 {
		holdCol = r.Intn(nAct)
		if o.DiscardCol && nAct >= 2 {
			holdCol = r.Range(1, nAct-1)
		}
	}
	holdCol2 := -1
	if o.TwoHolders && nAct >= 2 {
		holdCol = r.Intn(nAct - 1)
		holdCol2 = r.Range(holdCol+1, nAct-1)
	}
	outKind := pick(r, o.OutKinds)
	capacity := r.Range(2, 24)
	evTimeout := r.Range(20, 60)
	workers, count, flush := r.Range(1, 3), r.Range(1, 4), r.Range(5, 40)
	if o.FastOut {
		workers, count, capacity = r.Range(2, 3), 1, 24
	}
	retry := r.Range(0, 1)
	dq, spread := 0, 0
	if o.DeadQ {
		dq = 1
	}
	if o.Spread {
		spread = 1
	}
	cfg := hx.L(hx.I(procs), hx.I(r.Intn(2)), hx.I(capacity), hx.I(evTimeout), hx.I(nAct), hx.I(outKind), hx.I(workers), hx.I(count),
		hx.I(flush), hx.I(retry), hx.I(dq), hx.I(spread))
	nsrc := r.Range(o.Sources[0], o.Sources[1])
	var feeders []hx.Sx
	for s := 0; s < nsrc; s++ {
		nstreams := r.Range(o.Streams[0], o.Streams[1])
		n := r.Range(o.Events[0], o.Events[1])
		var ops []hx.Sx
		off := 0
		for i := 0; i < n; i++ {
			off += r.Range(1, 30)
			var sb strings.Builder
			for a := 0; a < nAct; a++ {
				c := o.Ops[r.Intn(len(o.Ops))]
				if a == holdCol || a == holdCol2 {
					c = "hccpp"[r.Intn(5)]
				} else if c == 'h' || c == 'c' {
					c = 'p'
				}
				if c == 'd' && holdCol >= 0 && a > holdCol {
					// fine: discard after the holder
				}
				if c == 'd' && holdCol >= 0 && a < holdCol && !o.DiscardCol {
					c = 'p'
				}
				if c == 'b' && (holdCol > a) {
					c = 'p' // a bare Break in front of a holding action does not occur in file.d (split = Spawn + Break)
				}
				sb.WriteByte(c)
			}
			opsStr := sb.String()
			js := fmt.Sprintf(`{"stream":"s%d","ops":"%s"`, r.Intn(nstreams), opsStr)
			if o.Split && (r.Chance(1, 6) || (o.SplitOften && r.Bool())) && nAct > 0 {
				col := r.Intn(nAct)
				if holdCol < 0 || col >= holdCol {
					b := []byte(opsStr)
					b[col] = 's'
					js = fmt.Sprintf(`{"stream":"s%d","ops":"%s","kids":[{"ops":"%s","m":"%s"},{"ops":"%s","m":"%s"}]`, r.Intn(nstreams), string(b),
						strings.Repeat("p", nAct), strings.Repeat("1", nAct+1), strings.Repeat("p", nAct), strings.Repeat("1", nAct+1))
				}
			}
			{
				// match mask (always present: an event without the field matches no action): a '0' at
				// position i means action i's match conditions reject the event
				mb := make([]byte, nAct+1)
				for a := range mb {
					mb[a] = '1'
					if a < nAct && r.Chance(1, 9) {
						mb[a] = '0'
					}
				}
				js += fmt.Sprintf(`,"m":"%s"`, string(mb))
			}
			if !o.FastOut && r.Chance(1, 8) {
				js += fmt.Sprintf(`,"slow":%d`, r.Range(50, 2000))
			}
			if r.Chance(1, 25) {
				js += `,"refuse":1`
			}
			js += "}"
			if r.Chance(1, 30) {
				js = `{"broken json` // undecodable: refused, event returned to the pool
			}
			ops = append(ops, hx.L(hx.I(0), hx.I(s+1), hx.I(off), hx.S(js)))
			if o.Gaps && r.Chance(1, 6) {
				ops = append(ops, hx.L(hx.I(1), hx.I(r.Range(1, 3)*evTimeout+r.Range(0, 250))))
			} else if !o.FastOut && r.Chance(1, 8) {
				ops = append(ops, hx.L(hx.I(1), hx.I(r.Range(1, 15))))
			}
		}
		feeders = append(feeders, hx.L(ops...))
	}
	var plan []hx.Sx
	for i := 0; i < 40; i++ {
		f := 0
		if o.Failures {
			switch r.Intn(4) {
			case 0:
				f = retry + 2
			case 1:
				f = 1
			}
		}
		d := r.Intn(20)
		if o.FastOut {
			d = 0
		}
		plan = append(plan, hx.L(hx.I(d), hx.I(f)))
	}
	return hx.L(cfg, hx.L(feeders...), hx.L(plan...))
}

// RunJobs executes the jobs concurrently (each needs a few hundred ms of real time).
func RunJobs(jobs []*Job, par int) {
	sem := make(chan struct{}, par)
	var wg sync.WaitGroup
	for _, j := range jobs {
		j := j
		wg.Add(1)
		sem <- struct{}{}
		go func() {
			defer wg.Done()
			defer func() { <-sem }()
			j.Obs = RunCase(j.Case)
		}()
	}
	wg.Wait()
}

// Standard families shared by the pipeline-level properties.
var (
	FamBasic             = Opts{Procs: []int{1, 2, 4, 8}, Actions: [2]int{0, 3}, Ops: "ppppd", OutKinds: []int{0, 1, 1}, Sources: [2]int{1, 3}, Streams: [2]int{1, 3}, Events: [2]int{3, 40}}
	FamHold              = Opts{Procs: []int{1, 2, 4, 8}, Actions: [2]int{1, 3}, Ops: "pppd", HoldCol: true, OutKinds: []int{0, 1, 1}, Sources: [2]int{1, 3}, Streams: [2]int{1, 3}, Events: [2]int{3, 30}, Gaps: true}
	FamSplit             = Opts{Procs: []int{1, 2, 4}, Actions: [2]int{1, 3}, Ops: "pppd", HoldCol: true, Split: true, OutKinds: []int{0, 1}, Sources: [2]int{1, 2}, Streams: [2]int{1, 2}, Events: [2]int{3, 20}, Gaps: true}
	FamDiscardBeforeHold = Opts{Procs: []int{1, 2, 4}, Actions: [2]int{2, 3}, Ops: "ppd", HoldCol: true, DiscardCol: true, OutKinds: []int{0, 1}, Sources: [2]int{1, 2}, Streams: [2]int{1, 2}, Events: [2]int{3, 20}, Gaps: true}
	FamTwoHolders        = Opts{Procs: []int{1, 2, 4}, Actions: [2]int{2, 3}, Ops: "ppp", HoldCol: true, TwoHolders: true, OutKinds: []int{0, 1}, Sources: [2]int{1, 2}, Streams: [2]int{1, 2}, Events: [2]int{4, 25}, Gaps: true}
	// many pass / discard alternations on few streams with a fast batching output: the batcher worker's commit of
	// event N races with the processor's commit of the discarded event N+1 on the stream mutex
	FamCommitRace = Opts{Procs: []int{2, 4}, Actions: [2]int{1, 1}, Ops: "pd", OutKinds: []int{1}, Sources: [2]int{1, 2}, Streams: [2]int{1, 1}, Events: [2]int{1500, 2500}, FastOut: true}
	FamRetry      = Opts{Procs: []int{1, 2, 4}, Actions: [2]int{0, 2}, Ops: "pppd", OutKinds: []int{2}, Failures: true, Sources: [2]int{1, 2}, Streams: [2]int{1, 2}, Events: [2]int{4, 30}}
	FamDeadQ      = Opts{Procs: []int{1, 2, 4}, Actions: [2]int{0, 2}, Ops: "pppd", OutKinds: []int{2}, Failures: true, DeadQ: true, Sources: [2]int{1, 2}, Streams: [2]int{1, 2}, Events: [2]int{4, 30}}
	// a failed batch routed to the dead queue that contains the parent of a split
	FamDeadQSplit = Opts{Procs: []int{1, 2, 4}, Actions: [2]int{1, 2}, Ops: "ppp", Split: true, SplitOften: true, OutKinds: []int{2}, Failures: true, DeadQ: true, Sources: [2]int{1, 2}, Streams: [2]int{1, 2}, Events: [2]int{4, 20}}
	// spread routing with a split action: children and their parent travel through the kafka-like input's Commit path
	FamSpreadSplit = Opts{Procs: []int{2, 4}, Actions: [2]int{1, 2}, Ops: "ppp", Split: true, SplitOften: true, OutKinds: []int{0, 1}, Spread: true, Sources: [2]int{2, 3}, Streams: [2]int{1, 1}, Events: [2]int{6, 25}}
	FamSpread      = Opts{Procs: []int{2, 4, 8}, Actions: [2]int{0, 2}, Ops: "pppd", OutKinds: []int{0, 1}, Spread: true, Sources: [2]int{2, 4}, Streams: [2]int{1, 1}, Events: [2]int{10, 40}}
)
