package pipedrv

import (
	"fmt"

	"verif/harness/hx"
)

// StaleUnblock builds the directed schedule "time-out check on a stream that is no longer blocked":
// e1 is held (stream blocked); the streamer heartbeat has copied the blocked list and is held right
// before tryUnblock; after the event time-out e2 arrives, flushes e1 and is passed (batching, slow
// output: both uncommitted) or discarded (synchronous output: stream detaches); the heartbeat is
// released; later e3 arrives.  kind 0: batching output, kind 1: synchronous output + discard.
func StaleUnblock(kind int, procs int) hx.Sx { return StaleUnblockT(kind, procs, 30) }

// StaleUnblockT is StaleUnblock with the given event time-out.  With 450 ms (> the 200 ms heartbeat period) the first
// heartbeat that sees the blocked stream is NOT yet entitled to time it out; it is held before tryUnblock until the
// time-out has passed, e2 has come and gone, and then runs on a stream that was unblocked (and possibly blocked again with
// a fresh blockTime) in the meantime: a tryUnblock that trusts the stale copy sends a time-out to an idle or a freshly
// blocked action (monitor 9 in C13/C15; stream LTS guard of STimeout here).
func StaleUnblockT(kind int, procs int, evTimeout int) hx.Sx {
	ev := func(off int, ops string) hx.Sx {
		return hx.L(hx.I(0), hx.I(1), hx.I(off), hx.S(fmt.Sprintf(`{"stream":"a","ops":"%s","m":"111"}`, ops)))
	}
	outKind, second := 1, "p"
	if kind == 1 {
		outKind, second = 0, "pd"
	}
	nAct := 1
	first := "h"
	if kind == 1 {
		nAct, first = 2, "hp"
	}
	cfg := hx.L(hx.I(procs), hx.I(0), hx.I(8), hx.I(evTimeout), hx.I(nAct), hx.I(outKind), hx.I(1), hx.I(4), hx.I(15), hx.I(0), hx.I(0), hx.I(0), hx.I(1))
	feeder := hx.L(ev(10, first), hx.L(hx.I(2)), hx.L(hx.I(1), hx.I(evTimeout*3/2)), ev(20, second), hx.L(hx.I(1), hx.I(25)), hx.L(hx.I(3)),
		hx.L(hx.I(1), hx.I(30)), ev(30, "pp"[:nAct]))
	plan := hx.L(hx.L(hx.I(400), hx.I(0)))
	return hx.L(cfg, hx.L(feeder), plan)
}

// Starvation builds the directed schedule "a charged stream must be served while a processor is idle":
// two processors asleep; stream A (source 1) gets ONE probe event at the same instant at which stream
// B (source 2) starts to be fed continuously for floodMs. With every makeCharged signalling, the second
// sleeping processor serves A at once; if a wake-up is lost A waits until B runs dry.
func Starvation(procs, floodMs, boundMs int) hx.Sx {
	js := func(stream string) hx.Sx { return hx.S(fmt.Sprintf(`{"stream":"%s","ops":"p","m":"11"}`, stream)) }
	cfg := hx.L(hx.I(procs), hx.I(0), hx.I(64), hx.I(40), hx.I(1), hx.I(0), hx.I(1), hx.I(4), hx.I(15), hx.I(0), hx.I(0), hx.I(0), hx.I(0))
	// one feeder: the probe of stream A and the first event of stream B are put back to back (microseconds
	// apart), so that the second makeCharged lands before the processor woken by the first one runs
	f := hx.L(hx.L(hx.I(1), hx.I(30)), hx.L(hx.I(4), hx.I(1), hx.I(10), js("a"), hx.I(boundMs)),
		hx.L(hx.I(5), hx.I(2), hx.I(100), js("b"), hx.I(floodMs), hx.I(200)))
	return hx.L(cfg, hx.L(f), hx.L())
}

// TimeoutVsPut builds the directed schedule "the heartbeat's time-out check races with a put": e1 is
// held (stream blocked, older than the event time-out), the heartbeat is held right before tryUnblock;
// e2 is put and the heartbeat released at the same instant (order chosen by `putFirst`), so tryUnblock
// runs in the window between the put and the woken owner re-locking the stream.
func TimeoutVsPut(procs int, putFirst bool, sync bool) hx.Sx {
	ev := func(off int, ops string) hx.Sx {
		return hx.L(hx.I(0), hx.I(1), hx.I(off), hx.S(fmt.Sprintf(`{"stream":"a","ops":"%s","m":"111"}`, ops)))
	}
	outKind := 1
	if sync {
		outKind = 0
	}
	cfg := hx.L(hx.I(procs), hx.I(0), hx.I(8), hx.I(30), hx.I(1), hx.I(outKind), hx.I(1), hx.I(4), hx.I(15), hx.I(0), hx.I(0), hx.I(0), hx.I(1))
	ops := []hx.Sx{ev(10, "h"), hx.L(hx.I(2)), hx.L(hx.I(1), hx.I(45))}
	if putFirst {
		ops = append(ops, ev(20, "p"), hx.L(hx.I(3)))
	} else {
		ops = append(ops, hx.L(hx.I(3)), ev(20, "p"))
	}
	ops = append(ops, hx.L(hx.I(1), hx.I(30)), ev(30, "p"))
	return hx.L(cfg, hx.L(hx.L(ops...)), hx.L())
}

// DeadQOvertake: a retriable output with a dead queue, 3 workers, batches of one event.  Batches 0 and 1 are still
// inside OutFn (slow sends) when batch 2 exhausts its retries and reaches its commit turn; then batch 1 returns,
// before batch 0.  Batch 2 has to wait for its turn like any other (its commit section is empty), and batch 1 must
// not commit before batch 0 — whatever the dead queue does with the events of batch 2.
func DeadQOvertake(procs int, slow0, slow1 int) hx.Sx {
	ev := func(off int) hx.Sx {
		return hx.L(hx.I(0), hx.I(1), hx.I(off), hx.S(`{"stream":"a","ops":"","m":""}`))
	}
	cfg := hx.L(hx.I(procs), hx.I(0), hx.I(24), hx.I(40), hx.I(0), hx.I(2), hx.I(3), hx.I(1), hx.I(10), hx.I(0), hx.I(1), hx.I(0))
	ops := []hx.Sx{ev(10), hx.L(hx.I(1), hx.I(5)), ev(20), hx.L(hx.I(1), hx.I(5)), ev(30), hx.L(hx.I(1), hx.I(slow0+40)), ev(40)}
	plan := hx.L(hx.L(hx.I(slow0), hx.I(0)), hx.L(hx.I(slow1), hx.I(0)), hx.L(hx.I(0), hx.I(2)), hx.L(hx.I(0), hx.I(0)))
	return hx.L(cfg, hx.L(hx.L(ops...)), plan)
}

// ExpandProcs: growProcs / expandProcs (pipeline.go) double the processors when every processor is busy.  Both processors
// of a 2-processor pipeline are parked in blockGet behind a held event (event time-out evTimeoutMs); 350 ms later probe
// events arrive on `probes` new streams.  With the expansion they are served by the new processors at once; without it (or
// with new processors that never start / get ids that collide) they wait for the time-outs of the held streams, i.e. longer
// than boundMs: the probe label (114) breaks monitor 1.  The processor count at quiescence is reported by label 115.
// (The harnesses use 2500 / 1600 ms: the expansion normally comes within 100..300 ms of the second hold, so that a loaded
// machine has 1.3 s of slack, while without expansion the probes wait >= 2150 ms.)
func ExpandProcs(evTimeoutMs, boundMs, probes int, batching bool) hx.Sx {
	ev := func(src, off int, ops string) hx.Sx {
		return hx.L(hx.I(0), hx.I(src), hx.I(off), hx.S(fmt.Sprintf(`{"stream":"a","ops":"%s","m":"11"}`, ops)))
	}
	outKind := 0
	if batching {
		outKind = 1
	}
	cfg := hx.L(hx.I(2), hx.I(0), hx.I(16), hx.I(evTimeoutMs), hx.I(1), hx.I(outKind), hx.I(1), hx.I(1), hx.I(10), hx.I(0), hx.I(0), hx.I(0))
	ops := []hx.Sx{ev(1, 10, "h"), ev(2, 10, "h"), hx.L(hx.I(1), hx.I(350))}
	for i := 0; i < probes; i++ {
		ops = append(ops, hx.L(hx.I(4), hx.I(3+i), hx.I(10), hx.S(`{"stream":"a","ops":"p","m":"11"}`), hx.I(boundMs)))
	}
	return hx.L(cfg, hx.L(hx.L(ops...)), hx.L())
}

// StopGiveUp: the two causes of a retry give-up side by side, on a retriable output with `retry` attempts (negative: for
// ever).  Batches of one event; batch 1 fails once, batch 3 fails retry+2 times (once when retry < 0), the others succeed.
// With retentionMs > 30 min the backoff library answers backoff.Stop on the first failure (attempts remaining); with a small
// retention batch 1 is retried and succeeds, batch 3 uses up its attempts.  deadq: the failed events go to a dead queue whose
// sends block for dqDelayMs: until they return no output has acknowledged those events, and the main batcher must have come
// back from Out with an empty batch (nothing to commit), whatever made the retry loop stop.
func StopGiveUp(procs, workers, retry int, deadq bool, dqDelayMs, retentionMs int) hx.Sx {
	ev := func(off int) hx.Sx {
		return hx.L(hx.I(0), hx.I(1), hx.I(off), hx.S(`{"stream":"a","ops":"","m":""}`))
	}
	dq := 0
	if deadq {
		dq = 1
	}
	cfg := hx.L(hx.I(procs), hx.I(0), hx.I(24), hx.I(40), hx.I(0), hx.I(2), hx.I(workers), hx.I(1), hx.I(10), hx.I(retry), hx.I(dq), hx.I(0))
	ops := []hx.Sx{ev(10), hx.L(hx.I(1), hx.I(3)), ev(20), hx.L(hx.I(1), hx.I(3)), ev(30), hx.L(hx.I(1), hx.I(3)), ev(40), hx.L(hx.I(1), hx.I(dqDelayMs/2+5)), ev(50)}
	last := 1
	if retry >= 0 {
		last = retry + 2
	}
	plan := hx.L(hx.L(hx.I(0), hx.I(0)), hx.L(hx.I(0), hx.I(1)), hx.L(hx.I(2), hx.I(0)), hx.L(hx.I(0), hx.I(last)), hx.L(hx.I(0), hx.I(0)))
	return hx.L(cfg, hx.L(hx.L(ops...)), plan, hx.L(hx.I(0), hx.I(retentionMs), hx.I(0), hx.I(0), hx.I(dqDelayMs)))
}

// StopWhileHeld: Pipeline.Stop while a processor waits in blockGet behind a held event (event time-out 5 s: no time-out
// comes first).  streamer.stop() puts an unlock event into every stream; the waiting owner takes it and leaves the stream
// at once (processor.go: processEvent / processSequence / dischargeStream return on an unlock event) with the event still
// held.  `more` further events of a second source sit in their stream behind a slow first event (2 ms in action 0), so that
// processors are still running when the output has stopped: Batcher.Add on a stopped batcher returns without appending.
// Stop must return, nothing may panic, nothing may be committed that the output did not acknowledge; the held event and
// whatever the stopped output dropped stay un-committed (no completeness claimed: option 9).
func StopWhileHeld(procs, outKind, more, stopDelayMs int, fileCommit bool) hx.Sx {
	ev := func(src, off int, ops string, slow int) hx.Sx {
		js := fmt.Sprintf(`{"stream":"a","ops":"%s","m":"11"`, ops)
		if slow > 0 {
			js += fmt.Sprintf(`,"slow":%d`, slow)
		}
		return hx.L(hx.I(0), hx.I(src), hx.I(off), hx.S(js+"}"))
	}
	cfg := hx.L(hx.I(procs), hx.I(0), hx.I(64), hx.I(5000), hx.I(1), hx.I(outKind), hx.I(2), hx.I(2), hx.I(10), hx.I(0), hx.I(0), hx.I(0))
	f1 := []hx.Sx{ev(1, 10, "p", 0), ev(1, 20, "h", 0), hx.L(hx.I(1), hx.I(15)), hx.L(hx.I(7))}
	var f2 []hx.Sx
	for i := 0; i < more; i++ {
		f2 = append(f2, ev(2, 10*(i+1), "p", 2000))
	}
	feeders := []hx.Sx{hx.L(f1...)}
	if more > 0 {
		feeders = append(feeders, hx.L(f2...))
	}
	opts := []hx.Sx{hx.L(hx.I(9), hx.I(1+stopDelayMs))}
	if fileCommit {
		opts = append(opts, hx.L(hx.I(8), hx.I(1)))
	}
	return hx.L(cfg, hx.L(feeders...), hx.L(), hx.L(hx.I(0), hx.I(0), hx.I(0), hx.I(0), hx.I(0), hx.L(opts...)))
}

// DirectedStops: the StopWhileHeld schedules every pipeline-level harness runs (stream "early-stop").
func DirectedStops(scale int) []*Job {
	var jobs []*Job
	for k := 0; k < scale; k++ {
		for i, procs := range []int{1, 2, 4} {
			for outKind := 0; outKind <= 2; outKind++ {
				jobs = append(jobs, &Job{Stream: "early-stop", Case: StopWhileHeld(procs, outKind, 12*((i+outKind+k)%3), (i+k)%2*3, outKind != 2)})
			}
		}
	}
	return jobs
}
