package main

// C09 which = 2 — "a failed batch goes exactly one way", driven through the REAL output plugins (their own Start, their own
// retriable batcher, their own out() and onError closure), wired by a real pipeline.Router to a dead-queue plugin.  Public
// API only: the plugin packages' Factory, pipeline.GetConfig on JSON config text, pipeline.NewRouter / SetOutput /
// SetDeadQueueOutput / Start / Out / Stop.  The far end is a local fake: an HTTP server that answers from a script
// (elasticsearch, http, splunk, loki), a TCP listener that accepts and discards (socket, gelf) or a closed port
// ("connection refused": every plugin, clickhouse included).
//
//	case = (kind dq retry fatal strict split workers bsize nbatch (pre ...) tail [eopts])
//	   kind     0 elasticsearch, 1 http, 2 splunk, 3 loki, 4 socket, 5 clickhouse, 6 gelf
//	   dq       1: a dead-queue output is configured on the router
//	   retry    the plugin's `retry` option (BackoffOpts.AttemptNum); negative = retry forever
//	   fatal    fatal_on_failed_insert; strict: `strict` (elasticsearch, http); split: split_batch (elasticsearch, http)
//	   workers  workers_count; bsize: batch_size; nbatch: the case sends bsize*nbatch events (whole batches, flush timeout 1 h)
//	   pre/tail the answers of the far end: request k gets status pre[k], every later one `tail`.  Status 0 = connection
//	            refused (only as tail with empty pre: the endpoint is a closed port), 1 = a listener that accepts (socket, gelf).
//	            An answer a >= 1000 is status a % 1000 with the body rBodies[a / 1000] (below 1000: body 0, {"code":0})
//	   eopts    optional bit set of elasticsearch options (kind 0 only; absent = 0): 1 process_response (the only one the
//	            specification looks at: reportESErrors judges the body of a 2xx answer), 2 use_gzip, 4 api_key, 8 username +
//	            password, 16 ingest_pipeline, 32 endpoint with a trailing slash, 64 index_format "v-%-%" with index_values
//	            [level, @time] over events whose `level` is a string / a string with a quote / a number / absent,
//	            128 events of ~700 bytes (out() drops its oversized buffer on the next call), 256 TLS far end + ca_cert,
//	            512 index_values [] (Start falls back to @time)
//	observed = (requests fatals ((m h d) ...))
//	   requests number of requests the fake HTTP server saw (0 for the connection-oriented kinds and for a closed port)
//	   fatals   number of Fatal-level log entries (the logger's fatal hook records instead of exiting)
//	   per event, in the order sent: m = Commit calls issued by the main output's batcher, h = times handed to the dead queue
//	   (Router.Fail -> dead-queue plugin Out), d = Commit calls issued by the dead queue's own batcher

import (
	"bytes"
	"compress/gzip"
	"context"
	"encoding/base64"
	"encoding/json"
	"encoding/pem"
	"fmt"
	"io"
	"net"
	"net/http"
	"net/http/httptest"
	"strconv"
	"strings"
	"sync"
	"sync/atomic"
	"time"

	"github.com/ozontech/file.d/metric"
	"github.com/ozontech/file.d/pipeline"
	chout "github.com/ozontech/file.d/plugin/output/clickhouse"
	esout "github.com/ozontech/file.d/plugin/output/elasticsearch"
	gelfout "github.com/ozontech/file.d/plugin/output/gelf"
	httpout "github.com/ozontech/file.d/plugin/output/http"
	lokiout "github.com/ozontech/file.d/plugin/output/loki"
	socketout "github.com/ozontech/file.d/plugin/output/socket"
	splunkout "github.com/ozontech/file.d/plugin/output/splunk"
	insaneJSON "github.com/ozontech/insane-json"
	"github.com/prometheus/client_golang/prometheus"
	"go.uber.org/zap"
	"go.uber.org/zap/zapcore"

	"verif/harness/hmain"
	"verif/harness/hx"
)

const (
	rkES = iota
	rkHTTP
	rkSplunk
	rkLoki
	rkSocket
	rkClickhouse
	rkGelf
)

var rKindName = []string{"elasticsearch", "http", "splunk", "loki", "socket", "clickhouse", "gelf"}

const rRefused = "127.0.0.1:1" // nothing listens on tcpmux: connect() is refused at once

type rCase struct {
	kind, dq, retry, fatal, strict, split, workers, bsize, nbatch int
	pre                                                           []int
	tail                                                          int
	eopts                                                         int
}

// elasticsearch option bits (case element 12)
const (
	eoPresp = 1 << iota
	eoGzip
	eoAPIKey
	eoBasic
	eoIngest
	eoSlash
	eoIndexFmt
	eoBig
	eoTLS
	eoNoIdxValues
)

// bodies the fake HTTP server can put under an answer: answer a = status + 1000 * index
var rBodies = []string{
	`{"code":0}`, // what splunk's response parser wants to see under a 2xx
	`<html>502 bad gateway</html>`,
	`{"took":5,"errors":true,"items":[{"index":{"_index":"i","status":400,"error":{"type":"mapper_parsing_exception","reason":"r"}}},{"index":{"_index":"i","status":201}}]}`,
	`{"took":1,"errors":true,"items":[]}`,
	`{"took":1,"errors":true,"items":[{"create":{"status":201}},{"index":{"status":500}},{"index":{"status":200}}]}`,
	`{"took":1,"errors":false,"items":[]}`,
	`{"code":5,"text":"no such index"}`,
}

func (rc rCase) sx() hx.Sx {
	it := []hx.Sx{hx.I(rc.kind), hx.I(rc.dq), hx.I(rc.retry), hx.I(rc.fatal), hx.I(rc.strict), hx.I(rc.split), hx.I(rc.workers),
		hx.I(rc.bsize), hx.I(rc.nbatch), ints(rc.pre), hx.I(rc.tail)}
	if rc.eopts != 0 {
		it = append(it, hx.I(rc.eopts))
	}
	return hx.L(it...)
}

func ints(xs []int) hx.Sx { return hx.List(xs, func(i int) hx.Sx { return hx.I(i) }) }

func rDecode(cs hx.Sx) rCase {
	it := hx.Items(cs)
	g := func(i int) int { return int(hx.Int(it[i])) }
	rc := rCase{kind: g(0), dq: g(1), retry: g(2), fatal: g(3), strict: g(4), split: g(5), workers: g(6), bsize: g(7), nbatch: g(8), tail: g(10)}
	for _, p := range hx.Items(it[9]) {
		rc.pre = append(rc.pre, int(hx.Int(p)))
	}
	if len(it) > 11 {
		rc.eopts = g(11)
	}
	return rc
}

// the far end -----------------------------------------------------------------------------------------------------------
type rServer struct {
	mu   sync.Mutex
	pre  []int
	tail int
	reqs int
	// what an elasticsearch request must look like under the case's options (checked when es is set; not part of the
	// observable: oracle 'es-request-shape')
	es             bool
	wantAuth       string
	wantGzip       bool
	wantIngest     string
	wantIndexStart string
	shape          []string
}

func (s *rServer) ServeHTTP(w http.ResponseWriter, req *http.Request) {
	body, _ := io.ReadAll(req.Body)
	var bad []string
	if s.es {
		bad = s.checkES(req, body)
	}
	s.mu.Lock()
	a := s.tail
	if len(s.pre) > 0 {
		a, s.pre = s.pre[0], s.pre[1:]
	}
	s.reqs++
	s.shape = append(s.shape, bad...)
	s.mu.Unlock()
	st, bi := a%1000, a/1000
	if bi < 0 || bi >= len(rBodies) {
		bi = 0
	}
	w.WriteHeader(st)
	if st != http.StatusNoContent {
		_, _ = w.Write([]byte(rBodies[bi]))
	}
}

// the request the elasticsearch output builds from its options: POST <endpoint>/_bulk?_source=false[&pipeline=...], the
// authorisation header, gzip iff use_gzip, a body of (index line, document line) pairs of valid JSON
func (s *rServer) checkES(req *http.Request, body []byte) (bad []string) {
	if req.Method != http.MethodPost || req.URL.Path != "/_bulk" {
		bad = append(bad, "method/path "+req.Method+" "+req.URL.Path)
	}
	q := req.URL.Query()
	if q.Get("_source") != "false" || q.Get("pipeline") != s.wantIngest {
		bad = append(bad, "query "+req.URL.RawQuery)
	}
	if got := req.Header.Get("Authorization"); got != s.wantAuth {
		bad = append(bad, "authorization "+got)
	}
	if gz := req.Header.Get("Content-Encoding") == "gzip"; gz != s.wantGzip {
		bad = append(bad, "content-encoding "+req.Header.Get("Content-Encoding"))
	} else if gz {
		zr, err := gzip.NewReader(bytes.NewReader(body))
		if err != nil {
			return append(bad, "gzip: "+err.Error())
		}
		if body, err = io.ReadAll(zr); err != nil {
			return append(bad, "gzip: "+err.Error())
		}
	}
	lines := strings.Split(strings.TrimSuffix(string(body), "\n"), "\n")
	if len(lines)%2 != 0 || len(body) == 0 {
		return append(bad, fmt.Sprintf("%d lines", len(lines)))
	}
	for i, l := range lines {
		var v map[string]any
		if err := json.Unmarshal([]byte(l), &v); err != nil {
			bad = append(bad, "line is not a JSON object: "+l)
			continue
		}
		if i%2 == 0 {
			idx, _ := v["index"].(map[string]any)
			name, _ := idx["_index"].(string)
			if idx == nil || !strings.HasPrefix(name, s.wantIndexStart) {
				bad = append(bad, "index line: "+l)
			}
		}
	}
	return bad
}

func rAcceptor() (addr string, stop func()) {
	ln, err := net.Listen("tcp", "127.0.0.1:0")
	if err != nil {
		panic(err)
	}
	var mu sync.Mutex
	var conns []net.Conn
	go func() {
		for {
			c, err := ln.Accept()
			if err != nil {
				return
			}
			mu.Lock()
			conns = append(conns, c)
			mu.Unlock()
			go func() { _, _ = io.Copy(io.Discard, c) }()
		}
	}()
	return ln.Addr().String(), func() {
		_ = ln.Close()
		mu.Lock()
		for _, c := range conns {
			_ = c.Close()
		}
		mu.Unlock()
	}
}

// recording ends --------------------------------------------------------------------------------------------------------
type rLog struct {
	mu     sync.Mutex
	main   map[*pipeline.Event]int // Commit calls of the main output's batcher
	handed map[*pipeline.Event]int // Router.Fail -> dead queue Out
	dead   map[*pipeline.Event]int // Commit calls of the dead queue's batcher
}

type rMainCtl struct{ l *rLog }

func (c rMainCtl) Commit(e *pipeline.Event) { c.l.mu.Lock(); c.l.main[e]++; c.l.mu.Unlock() }
func (c rMainCtl) Error(string)             {}

type rDeadCtl struct{ l *rLog }

func (c rDeadCtl) Commit(e *pipeline.Event) { c.l.mu.Lock(); c.l.dead[e]++; c.l.mu.Unlock() }
func (c rDeadCtl) Error(string)             {}

// the dead queue: an output plugin built, like the real ones, on pipeline.Batcher (asynchronous commit by its own worker)
type rDead struct {
	l      *rLog
	b      *pipeline.Batcher
	cancel context.CancelFunc
}

func (d *rDead) Start(_ pipeline.AnyConfig, p *pipeline.OutputPluginParams) {
	d.b = pipeline.NewBatcher(pipeline.BatcherOptions{
		PipelineName: p.PipelineName, OutputType: "verif-dead",
		OutFn:      func(*pipeline.WorkerData, *pipeline.Batch) {},
		Controller: rDeadCtl{d.l}, Workers: 2, BatchSizeCount: 1, FlushTimeout: time.Second, // a batch per event: no wait for the 100 ms heartbeat
		MetricCtl: p.MetricCtl,
	})
	ctx, cancel := context.WithCancel(context.Background())
	d.cancel = cancel
	d.b.Start(ctx)
}
func (d *rDead) Stop() { d.b.Stop(); d.cancel() }
func (d *rDead) Out(e *pipeline.Event) {
	d.l.mu.Lock()
	d.l.handed[e]++
	d.l.mu.Unlock()
	d.b.Add(e)
}

type rFatalHook struct{ n *atomic.Int64 }

func (h rFatalHook) OnWrite(*zapcore.CheckedEntry, []zapcore.Field) { h.n.Add(1) }

var rSeq atomic.Int64

func b2s(b int) bool { return b != 0 }

// one case ---------------------------------------------------------------------------------------------------------------
func execRoute(cs hx.Sx) hx.Sx {
	obs, _ := execRouteT(cs)
	return obs
}

// execRouteT is execRoute plus what the fake elasticsearch server found wrong with the requests (not part of the observable)
func execRouteT(cs hx.Sx) (hx.Sx, []string) {
	obs, srv := execRoute1(cs)
	if srv == nil {
		return obs, nil
	}
	srv.mu.Lock()
	defer srv.mu.Unlock()
	return obs, srv.shape
}

func execRoute1(cs hx.Sx) (hx.Sx, *rServer) {
	rc := rDecode(cs)
	n := rc.bsize * rc.nbatch
	stuck := func(code int) (hx.Sx, *rServer) { return hx.L(hx.I(-1), hx.I(code), hx.L()), nil }
	if rc.kind < 0 || rc.kind > rkGelf || n <= 0 || n > 4096 || rc.workers < 1 || rc.eopts < 0 || (rc.eopts != 0 && rc.kind != rkES) {
		return stuck(1)
	}
	has := func(bit int) bool { return rc.eopts&bit != 0 }
	refused := rc.tail == 0 && len(rc.pre) == 0
	var cleanup []func()
	defer func() {
		for i := len(cleanup) - 1; i >= 0; i-- {
			cleanup[i]()
		}
	}()

	srv := &rServer{pre: append([]int(nil), rc.pre...), tail: rc.tail}
	url, addr := "http://"+rRefused, rRefused
	caCert := ""
	switch {
	case refused:
	case rc.kind <= rkLoki:
		hs := httptest.NewUnstartedServer(srv)
		if has(eoTLS) {
			hs.StartTLS()
			caCert = string(pem.EncodeToMemory(&pem.Block{Type: "CERTIFICATE", Bytes: hs.Certificate().Raw}))
		} else {
			hs.Start()
		}
		cleanup = append(cleanup, hs.Close)
		url = hs.URL
	default:
		a, stop := rAcceptor()
		cleanup = append(cleanup, stop)
		addr = a
	}

	name := fmt.Sprintf("verif_c09_route_%d", rSeq.Add(1))
	// the config goes the way a pipeline's config goes: JSON text -> cfg.DecodeConfig (defaults first, so that `"retry": 0` is 0
	// and not the default 10) -> cfg.Parse, all inside pipeline.GetConfig, on the pair the plugin's own Factory returns
	common := fmt.Sprintf(`"batch_size":"%d","workers_count":"%d","batch_flush_timeout":"1h","retry":%d,"retention":"1ms","fatal_on_failed_insert":%v`,
		rc.bsize, rc.workers, rc.retry, b2s(rc.fatal))
	var factory pipeline.PluginFactory
	var text string
	switch rc.kind {
	case rkES:
		factory = esout.Factory
		extra := ""
		srv.es, srv.wantIndexStart = true, "file-d-"
		if has(eoGzip) {
			extra += `"use_gzip":true,"gzip_compression_level":"best-speed",`
			srv.wantGzip = true
		}
		if has(eoBasic) {
			extra += `"username":"u","password":"p",`
			srv.wantAuth = "Basic " + base64.StdEncoding.EncodeToString([]byte("u:p"))
		}
		if has(eoAPIKey) { // overrides username / password
			extra += `"api_key":"a2V5",`
			srv.wantAuth = "ApiKey a2V5"
		}
		if has(eoIngest) {
			extra += `"ingest_pipeline":"ing",`
			srv.wantIngest = "ing"
		}
		if has(eoIndexFmt) {
			extra += `"index_format":"v-%-%","index_values":["level","@time"],`
			srv.wantIndexStart = "v-"
		} else if has(eoNoIdxValues) {
			extra += `"index_values":[],`
		}
		if caCert != "" {
			pemText, _ := json.Marshal(caCert)
			extra += `"ca_cert":` + string(pemText) + `,`
		}
		ep := url
		if has(eoSlash) {
			ep += "/"
		}
		text = fmt.Sprintf(`{"endpoints":["%s"],"strict":%v,"split_batch":%v,"process_response":%v,%s"connection_timeout":"5s",%s}`, ep, b2s(rc.strict), b2s(rc.split), has(eoPresp), extra, common)
	case rkHTTP:
		factory = httpout.Factory
		text = fmt.Sprintf(`{"endpoints":["%s"],"strict":%v,"split_batch":%v,"connection_timeout":"5s",%s}`, url, b2s(rc.strict), b2s(rc.split), common)
	case rkSplunk:
		factory = splunkout.Factory
		text = fmt.Sprintf(`{"endpoint":"%s","token":"tok","request_timeout":"5s",%s}`, url, common)
	case rkLoki:
		factory = lokiout.Factory
		text = fmt.Sprintf(`{"address":"%s","message_field":"message","timestamp_field":"ts","labels":[{"label":"job","value":"verif"}],"request_timeout":"5s",%s}`, url, common)
	case rkSocket:
		factory = socketout.Factory
		text = fmt.Sprintf(`{"network":"tcp","address":"%s","dial_timeout":"5s",%s}`, addr, common)
	case rkClickhouse:
		factory = chout.Factory
		text = fmt.Sprintf(`{"addresses":["%s"],"table":"t","columns":[{"name":"message","type":"String"}],%s}`, addr, common)
	case rkGelf:
		factory = gelfout.Factory
		text = fmt.Sprintf(`{"endpoint":"%s","connection_timeout":"5s",%s}`, addr, common)
	}
	info := &pipeline.PluginStaticInfo{Type: rKindName[rc.kind], Factory: factory}
	anyPlugin, _ := factory()
	plugin := anyPlugin.(pipeline.OutputPlugin)
	config, err := pipeline.GetConfig(info, []byte(text), map[string]int{"gomaxprocs": 1, "capacity": 64})
	if err != nil {
		return stuck(3)
	}
	var fatals atomic.Int64
	log := &rLog{main: map[*pipeline.Event]int{}, handed: map[*pipeline.Event]int{}, dead: map[*pipeline.Event]int{}}
	var events []*pipeline.Event
	var obs hx.Sx
	if p := hx.Catch(func() {
		r := pipeline.NewRouter()
		r.SetOutput(&pipeline.OutputPluginInfo{
			PluginStaticInfo:  &pipeline.PluginStaticInfo{Type: rKindName[rc.kind], Config: config},
			PluginRuntimeInfo: &pipeline.PluginRuntimeInfo{Plugin: plugin, ID: rKindName[rc.kind]},
		})
		if rc.dq != 0 {
			r.SetDeadQueueOutput(&pipeline.OutputPluginInfo{
				PluginStaticInfo:  &pipeline.PluginStaticInfo{Type: "verif-dead", Config: &struct{}{}},
				PluginRuntimeInfo: &pipeline.PluginRuntimeInfo{Plugin: &rDead{l: log}, ID: "verif-dead"},
			})
		}
		r.Start(&pipeline.OutputPluginParams{
			PluginDefaultParams: pipeline.PluginDefaultParams{
				PipelineName:     name,
				PipelineSettings: &pipeline.Settings{AvgEventSize: 256},
				MetricCtl:        metric.NewCtl(name, prometheus.NewRegistry(), time.Minute, 0),
			},
			Controller: rMainCtl{log},
			Logger:     zap.New(zapcore.NewNopCore(), zap.WithFatalHook(rFatalHook{&fatals})).Sugar(),
			Router:     r,
		})
		stopped := false
		stop := func() {
			if !stopped {
				stopped = true
				r.Stop()
			}
		}
		defer stop()
		for i := 0; i < n; i++ {
			doc := fmt.Sprintf(`{"message":"m%d","level":"info"}`, i)
			if rc.eopts != 0 { // `level` feeds the index name under eoIndexFmt: string / string with a quote / number / absent / empty
				msg := fmt.Sprintf("m%d", i)
				if has(eoBig) {
					msg += strings.Repeat("x", 700)
				}
				doc = fmt.Sprintf(`{"message":"%s"%s}`, msg, []string{`,"level":"info"`, `,"level":"a\"b"`, `,"level":7`, ``, `,"level":""`}[i%5])
			}
			root, err := insaneJSON.DecodeString(doc)
			if err != nil {
				panic(err)
			}
			events = append(events, &pipeline.Event{Root: root, Buf: make([]byte, 0, 256), SeqID: uint64(i + 1), Size: 32})
		}
		sent := make(chan struct{})
		go func() { // Out blocks while every batch of the batcher is in flight
			defer close(sent)
			for _, e := range events {
				r.Out(e)
			}
		}()
		// quiescence: every event committed by someone, and the dead queue has committed whatever it was handed
		deadline := time.Now().Add(8 * time.Second) // a lost event costs this much (gelf: a second per failed attempt)
		settleBy := time.Time{}
		for {
			log.mu.Lock()
			all, owed := true, false
			for _, e := range events {
				if log.main[e]+log.dead[e] == 0 {
					all = false
				}
				if log.dead[e] < log.handed[e] {
					owed = true
				}
			}
			log.mu.Unlock()
			if all && !owed {
				break
			}
			now := time.Now()
			if all && settleBy.IsZero() {
				settleBy = now.Add(2 * time.Second)
			}
			if now.After(deadline) || (!settleBy.IsZero() && now.After(settleBy)) {
				break
			}
			time.Sleep(100 * time.Microsecond)
		}
		select {
		case <-sent:
		case <-time.After(5 * time.Second):
		}
		stop() // both batchers drain: whatever a worker still holds is sent / committed before Stop returns
		srv.mu.Lock()
		reqs := srv.reqs
		srv.mu.Unlock()
		log.mu.Lock()
		var per []hx.Sx
		for _, e := range events {
			per = append(per, hx.L(hx.I(log.main[e]), hx.I(log.handed[e]), hx.I(log.dead[e])))
		}
		log.mu.Unlock()
		obs = hx.L(hx.I(reqs), hx.I(int(fatals.Load())), hx.L(per...))
	}); p != "" {
		return stuck(2)
	}
	return obs, srv
}

// generator --------------------------------------------------------------------------------------------------------------
type rJob struct {
	stream string
	rc     rCase
	obs    hx.Sx
	shape  []string
}

// statuses the fake server can be told to answer with, by what they mean to the xhttp client / the plugins:
// 200..202 success (loki: 204 only), 400 non-retryable everywhere, 413 non-retryable for elasticsearch / http (and the
// trigger of split_batch), everything else retryable
var rStatuses = []int{200, 201, 202, 204, 400, 401, 404, 413, 429, 500, 502, 503}

func rOkStatus(kind int) int {
	if kind == rkLoki {
		return 204
	}
	return 200
}

func genRouteJobs(c *hmain.Ctx) []*rJob {
	r := c.R
	var jobs []*rJob
	add := func(stream string, rc rCase) { jobs = append(jobs, &rJob{stream: stream, rc: rc}) }
	httpKinds := []int{rkES, rkHTTP, rkSplunk, rkLoki}
	// A. exhaustive small scope over the real HTTP outputs: dead queue on/off x the answer histories named by the property
	//    (success; non-retryable 400 / 413; 500 then success; 500 until the retries are exhausted; connection refused)
	//    x retry 0 / 1, one batch of 3 events
	for _, kind := range httpKinds {
		ok := rOkStatus(kind)
		for dq := 0; dq <= 1; dq++ {
			for _, retry := range []int{0, 1} {
				base := rCase{kind: kind, dq: dq, retry: retry, workers: 1, bsize: 3, nbatch: 1}
				for _, h := range []struct {
					pre  []int
					tail int
				}{{nil, ok}, {nil, 400}, {nil, 413}, {[]int{500}, ok}, {[]int{500, 503}, ok}, {nil, 500}, {nil, 0}, {[]int{500}, 400}, {[]int{503}, 413}} {
					rc := base
					rc.pre, rc.tail = h.pre, h.tail
					add("route-exhaustive", rc)
				}
			}
		}
	}
	// B. connection-oriented outputs and clickhouse: accepted / refused x dead queue x retry 0..1 (gelf sleeps a second after
	//    every failure: its refused cases run in the thorough tier only)
	for _, kind := range []int{rkSocket, rkClickhouse, rkGelf} {
		for dq := 0; dq <= 1; dq++ {
			for _, retry := range []int{0, 1} {
				base := rCase{kind: kind, dq: dq, retry: retry, workers: 1, bsize: 2, nbatch: 2}
				if kind != rkClickhouse {
					rc := base
					rc.tail = 1
					add("route-conn", rc)
				}
				if kind != rkGelf || (c.Scale > 1 && retry == 0) {
					rc := base
					rc.tail = 0
					add("route-conn", rc)
				}
			}
		}
	}
	// C. random: several batches of several events, one worker (the script is consumed batch after batch), scripts around the
	//    retry count, fatal_on_failed_insert / strict / split_batch at random
	for i := 0; i < 60*c.Scale; i++ {
		kind := httpKinds[r.Intn(len(httpKinds))]
		rc := rCase{kind: kind, dq: r.Intn(2), retry: r.Range(-1, 3), workers: 1, bsize: r.Range(1, 5), nbatch: r.Range(1, 4),
			fatal: r.Intn(2), tail: rOkStatus(kind)}
		if kind <= rkHTTP {
			if r.Chance(1, 4) {
				rc.strict = 1
			}
			if r.Chance(1, 3) {
				rc.split = 1
			}
		}
		for k := r.Range(0, 8); k > 0; k-- {
			switch r.Intn(4) {
			case 0:
				rc.pre = append(rc.pre, rOkStatus(kind))
			case 1:
				rc.pre = append(rc.pre, []int{400, 413}[r.Intn(2)])
			case 2:
				rc.pre = append(rc.pre, []int{500, 502, 503, 429}[r.Intn(4)])
			default:
				rc.pre = append(rc.pre, rStatuses[r.Intn(len(rStatuses))])
			}
		}
		if rc.retry >= 0 {
			switch r.Intn(6) {
			case 0:
				rc.tail = 500
			case 1:
				rc.tail = 400
			case 2:
				rc.tail = 413
			}
		}
		add("route-random", rc)
	}
	// D. uniform answers with two workers (which batch meets which answer does not matter when all answers are the same)
	for i := 0; i < 12*c.Scale; i++ {
		kind := httpKinds[r.Intn(len(httpKinds))]
		rc := rCase{kind: kind, dq: r.Intn(2), retry: r.Range(0, 2), workers: 2, bsize: r.Range(1, 4), nbatch: r.Range(2, 4), fatal: r.Intn(2)}
		rc.tail = []int{rOkStatus(kind), 400, 413, 500, 0}[r.Intn(5)]
		add("route-two-workers", rc)
	}
	// E. the acknowledgement's BODY (elasticsearch.go reportESErrors under process_response, the default; splunk's
	//    parseSplunkError): a 2xx whose body the plugin cannot read is a failed attempt (retried, then given up: dead queue /
	//    error callback), a readable body that reports indexing errors is a delivery.  Exhaustive: {elasticsearch with / without
	//    process_response, splunk} x dead queue x retry 0/1 x {every body under 200; unreadable once, then fine; unreadable
	//    after a 500; unreadable under 201 / 202}
	for _, ko := range [][2]int{{rkES, eoPresp}, {rkES, eoGzip}, {rkSplunk, 0}} {
		for dq := 0; dq <= 1; dq++ {
			for _, retry := range []int{0, 1} {
				base := rCase{kind: ko[0], eopts: ko[1], dq: dq, retry: retry, workers: 1, bsize: 2, nbatch: 1, fatal: retry}
				for b := 1; b < len(rBodies); b++ {
					rc := base
					rc.tail = 200 + 1000*b
					add("route-ack-body", rc)
				}
				for _, h := range [][]int{{1200}, {500, 1201}, {1202, 1200}, {6200, 3200}} {
					rc := base
					rc.pre, rc.tail = h, 200
					add("route-ack-body", rc)
				}
			}
		}
	}
	// F. elasticsearch options the way of a batch must not depend on (gzip, api key / basic authorisation, ingest pipeline,
	//    trailing slash, index name pattern over string / quoted / numeric / absent fields, oversized events, TLS with ca_cert,
	//    empty index_values) x process_response x split_batch, scripts mixing statuses and bodies; the fake server checks the
	//    shape of every request (oracle 'es-request-shape')
	for _, bit := range []int{eoGzip, eoAPIKey, eoBasic, eoAPIKey | eoBasic, eoIngest, eoSlash, eoIndexFmt, eoBig, eoTLS, eoNoIdxValues} {
		for dq := 0; dq <= 1; dq++ {
			rc := rCase{kind: rkES, eopts: bit | eoPresp*dq, dq: dq, retry: 1, workers: 1, bsize: 5, nbatch: 2, pre: []int{500, 2200, 503, 502, 500}, tail: 200}
			add("route-es-options", rc)
		}
	}
	for i := 0; i < 30*c.Scale; i++ {
		rc := rCase{kind: rkES, dq: r.Intn(2), retry: r.Range(-1, 2), workers: 1, bsize: r.Range(1, 6), nbatch: r.Range(1, 4), fatal: r.Intn(2), tail: 200}
		for _, bit := range []int{eoPresp, eoGzip, eoAPIKey, eoBasic, eoIngest, eoSlash, eoIndexFmt, eoBig, eoNoIdxValues} {
			if r.Chance(1, 3) {
				rc.eopts |= bit
			}
		}
		if r.Chance(1, 6) {
			rc.eopts |= eoTLS
		}
		if rc.eopts == 0 {
			rc.eopts = eoPresp
		}
		if r.Chance(1, 3) {
			rc.split = 1
		}
		for k := r.Range(0, 7); k > 0; k-- {
			switch r.Intn(5) {
			case 0:
				rc.pre = append(rc.pre, 200+r.Intn(3))
			case 1:
				rc.pre = append(rc.pre, 1200+r.Intn(3)) // unreadable acknowledgement
			case 2:
				rc.pre = append(rc.pre, 200+1000*r.Range(2, len(rBodies)-1))
			case 3:
				rc.pre = append(rc.pre, []int{500, 502, 503, 429, 1500}[r.Intn(5)])
			default:
				rc.pre = append(rc.pre, []int{400, 413, 1413}[r.Intn(3)])
			}
		}
		if rc.retry >= 0 {
			switch r.Intn(6) {
			case 0:
				rc.tail = 1200
			case 1:
				rc.tail = 2201
			case 2:
				rc.tail = 413
			}
		}
		add("route-es-options", rc)
	}
	return jobs
}

func startRouteJobs(jobs []*rJob) (wait func()) {
	var wg sync.WaitGroup
	sem := make(chan struct{}, 32)
	for _, j := range jobs {
		j := j
		wg.Add(1)
		go func() {
			defer wg.Done()
			sem <- struct{}{}
			defer func() { <-sem }()
			j.obs, j.shape = execRouteT(j.rc.sx())
		}()
	}
	return wg.Wait
}

func emitRouteJobs(c *hmain.Ctx, jobs []*rJob) {
	for _, j := range jobs {
		rc := j.rc
		way := "answers: "
		switch {
		case rc.tail == 0:
			way += "connection refused"
		case len(rc.pre) == 0:
			way += "uniform " + strconv.Itoa(rc.tail)
		default:
			way += "scripted"
		}
		c.W.Count(fmt.Sprintf("route %s dq=%d %s", rKindName[rc.kind], rc.dq, way))
		if rc.kind == rkES && rc.eopts != 0 {
			for bit, name := range map[int]string{eoPresp: "process_response", eoGzip: "use_gzip", eoAPIKey: "api_key", eoBasic: "username/password",
				eoIngest: "ingest_pipeline", eoSlash: "endpoint with trailing slash", eoIndexFmt: "index_format over event fields", eoBig: "oversized events",
				eoTLS: "TLS + ca_cert", eoNoIdxValues: "empty index_values"} {
				if rc.eopts&bit != 0 {
					c.W.Count("route elasticsearch option: " + name)
				}
			}
			c.W.Oracle("es-request-shape", len(j.shape) == 0, fmt.Sprintf("the fake elasticsearch server saw a request that does not match the options: %v; case %s", j.shape, hx.String(rc.sx())))
		}
		for _, a := range append(append([]int(nil), rc.pre...), rc.tail) {
			if a >= 1000 && a%1000 >= 200 && a%1000 <= 202 {
				c.W.Count(fmt.Sprintf("route %s: 2xx answered with body class %d", rKindName[rc.kind], a/1000))
			}
		}
		c.W.Case(j.stream, 2, rc.sx(), j.obs, true)
	}
}
