package main

// C09 — retry and dead-queue routing. Real RetriableBatcher (+ real Router.Fail into a dead-queue
// Batcher) driven by harness/batchdrv with a scripted failure plan per batch (which = 0);
// which = 1: the dead-queue wiring of fd/file.d.go, driven through fd.New(...).Start() with fake plugins (wiring.go).
// which = 2: the real output plugins behind a real Router + dead queue against scripted far ends (route.go).

import (
	"fmt"
	"sync"
	"time"

	"github.com/ozontech/file.d/pipeline"

	"verif/harness/batchdrv"
	"verif/harness/hmain"
	"verif/harness/hx"
)

func exec(which int, cs hx.Sx) hx.Sx {
	if which == 1 {
		return execWiring(cs)
	}
	if which == 2 {
		return execRoute(cs)
	}
	return batchdrv.RunCase(cs)
}

type job struct {
	stream string
	cs     hx.Sx
	obs    hx.Sx
	tm     batchdrv.Timing
}

func gen(c *hmain.Ctx) {
	r := c.R
	var jobs []*job
	add := func(stream string, cs hx.Sx) { jobs = append(jobs, &job{stream: stream, cs: cs}) }
	nextID := 0
	parents := false
	mkAdder := func(n int, sleeps bool) hx.Sx {
		var ops []hx.Sx
		for i := 0; i < n; i++ {
			nextID++
			kind := 0
			if parents && r.Chance(1, 4) {
				kind = 2 // child-parent event (split): carries the commit, is skipped by Batch.ForEach
			}
			ops = append(ops, hx.L(hx.I(0), hx.I(nextID), hx.I(r.Range(1, 9)), hx.I(kind)))
			if sleeps && r.Chance(1, 4) {
				ops = append(ops, hx.L(hx.I(1), hx.I(r.Range(1, 30))))
			}
		}
		return hx.L(ops...)
	}
	cfgSx := func(w, cnt, flush int, retry int, dq bool, dqw, dqc int) hx.Sx {
		return hx.L(hx.I(w), hx.I(cnt), hx.I(0), hx.I(flush), hx.Bool(true), hx.I(retry), hx.Bool(dq), hx.I(dqw), hx.I(dqc))
	}
	plan := func(n int, retry int) hx.Sx {
		var p []hx.Sx
		for i := 0; i < n; i++ {
			f := 0
			switch r.Intn(5) {
			case 0:
				f = r.Range(1, 3) // a few failures
			case 1:
				f = retry + 2 // exactly exhausts (when retry >= 0)
			case 2:
				f = retry + 1 // one short of exhaustion
			case 3:
				f = 50 // fails "forever" (bounded so that retry = -1 terminates)
			}
			if retry < 0 && f > 6 {
				f = 6
			}
			if f < 0 {
				f = 0
			}
			p = append(p, hx.L(hx.I(r.Intn(4)), hx.I(f)))
		}
		return hx.L(p...)
	}
	// 1. exhaustive small scope: retry in -1..3 x consecutive failures 0..retry+3 x dead queue on/off, one batch
	for _, retry := range []int{-1000000, -7, -3, -2, -1, 0, 1, 2, 3} {
		maxFails := retry + 3
		if retry < 0 {
			maxFails = 4 // a negative count means "retry without limit": any number of failures must be survived
		}
		for fails := 0; fails <= maxFails && fails <= 6; fails++ {
			for _, dq := range []bool{false, true} {
				nextID = 0
				add("exhaustive-one-batch", hx.L(cfgSx(1, 2, 20, retry, dq, 1, 2), hx.L(mkAdder(2, false)), hx.L(hx.L(hx.I(0), hx.I(fails))), hx.L(hx.I(0), hx.I(0))))
			}
		}
	}
	parents = true
	// 1b. a failed batch that contains split-parent events, with and without dead queue
	for _, dq := range []bool{false, true} {
		for i := 0; i < 10*c.Scale; i++ {
			nextID = 0
			retry := r.Range(0, 1)
			add("failed-batch-with-parents", hx.L(cfgSx(r.Range(1, 2), 3, 20, retry, dq, 1, 2), hx.L(mkAdder(r.Range(3, 9), false)), hx.L(hx.L(hx.I(0), hx.I(retry+2)), hx.L(hx.I(0), hx.I(0)), hx.L(hx.I(0), hx.I(retry+2))), hx.L(hx.I(0), hx.I(0))))
		}
	}
	// 2. random: several batches, workers 1..3, failure plans around the retry count, dead queue on/off
	for i := 0; i < 90*c.Scale; i++ {
		nextID = 0
		retry := r.Range(-4, 3)
		dq := r.Bool()
		na := r.Range(1, 3)
		var adders []hx.Sx
		for a := 0; a < na; a++ {
			adders = append(adders, mkAdder(r.Range(2, 14), r.Bool()))
		}
		add("random", hx.L(cfgSx(r.Range(1, 3), r.Range(1, 4), r.Range(10, 40), retry, dq, r.Range(1, 2), r.Range(1, 4)), hx.L(adders...), plan(30, retry), hx.L(hx.I(0), hx.I(0))))
	}
	// 3. the dead-queue flush interleaves with later main batches: first batch exhausts, later ones succeed
	for i := 0; i < 25*c.Scale; i++ {
		nextID = 0
		retry := r.Range(0, 1)
		p := hx.L(hx.L(hx.I(0), hx.I(retry+2)), hx.L(hx.I(r.Intn(10)), hx.I(0)), hx.L(hx.I(0), hx.I(0)))
		add("dq-interleave", hx.L(cfgSx(r.Range(1, 2), 2, 15, retry, true, 1, r.Range(2, 5)), hx.L(mkAdder(r.Range(4, 8), false)), p, hx.L(hx.I(0), hx.I(0))))
	}
	// 4. Stop() arrives while a failed batch is between two attempts (or inside one): the batch must still go exactly one way —
	//    the remaining attempts are made, then success / give-up; never committed by the main output with retries pending
	for i := 0; i < 40*c.Scale; i++ {
		nextID = 0
		retry := r.Range(2, 6)
		if r.Chance(1, 4) {
			retry = -1 - r.Intn(3)
		}
		dq := r.Bool()
		fails := retry + 2 // exhausts
		switch {
		case retry < 0:
			fails = r.Range(3, 6)
		case r.Bool():
			fails = r.Range(2, retry+1) // succeeds after some failures
		}
		// every attempt of the first batch takes 1-3 ms, the pause between attempts is 1 ms: Stop after 2-9 ms lands in the retry loop
		p := hx.L(hx.L(hx.I(r.Range(1, 3)), hx.I(fails)), hx.L(hx.I(r.Intn(3)), hx.I(0)), hx.L(hx.I(0), hx.I(r.Intn(2))))
		add("stop-mid-retry", hx.L(cfgSx(r.Range(2, 3), r.Range(1, 2), 10, retry, dq, 1, 2), hx.L(mkAdder(r.Range(2, 5), false)), p, hx.L(hx.I(1), hx.I(r.Range(2, 9)))))
	}
	// 5. backoff.Stop arm (backoff.go: `next == backoff.Stop || ...`): MinRetention 1 h, so that the first pause (>= 30 min with
	//    the 0.5 randomisation) already crosses MaxElapsedTime (15 min): NextBackOff returns Stop on the FIRST failure whatever
	//    AttemptNum says, and Out must give the batch up there and then (flag 2 of the give-up label) instead of arming a timer
	//    with the negative duration Stop (-1).  Exhaustive: retry {-1, 0, 3} x failures 0..2 x dead queue on/off; no wall-clock
	//    cost.  A regression that drops the Stop arm retries at once (time.NewTimer(-1) fires immediately) or sleeps 30 min:
	//    oracle 'backoff-stop' below, and LStuck (monitor m_not_stuck) for the sleep
	for _, retry := range []int{-1, 0, 3} {
		for fails := 0; fails <= 2; fails++ {
			for _, dq := range []bool{false, true} {
				nextID = 0
				parents = false
				add("backoff-stop", hx.L(cfgSx(1, 2, 20, retry, dq, 1, 2), hx.L(mkAdder(2, false)), hx.L(hx.L(hx.I(0), hx.I(fails))),
					hx.L(hx.I(0), hx.L(hx.I(0), hx.I(3600000), hx.I(100+100*(fails%2)), hx.I(0)))))
			}
		}
	}
	// 6. growing pauses: MinRetention 6..14 ms, Multiplier 1.5 / 2 / 3 (the drivers used to freeze 1 ms / 1.0), four or five
	//    consecutive failures of the first batch, AttemptNum large enough (or negative) to see them all.  The k-th pause of a
	//    batch is at least MinRetention * Multiplier^k / 2 (RandomizationFactor 0.5): oracle 'backoff-pauses-grow'.  A regression
	//    that builds / resets the ExponentialBackOff inside the loop, or passes the wrong option, keeps every pause near
	//    MinRetention and fails the bound at k >= 2
	for i := 0; i < 14*c.Scale; i++ {
		nextID = 0
		parents = false
		retry := r.Range(4, 7)
		if r.Chance(1, 3) {
			retry = -1 - r.Intn(3)
		}
		fails := r.Range(4, 5)
		dq := r.Bool()
		p := hx.L(hx.L(hx.I(r.Intn(3)), hx.I(fails)), hx.L(hx.I(0), hx.I(r.Intn(2))), hx.L(hx.I(0), hx.I(0)))
		mult := []int{150, 200, 300}[r.Intn(3)]
		add("backoff-growing", hx.L(cfgSx(r.Range(1, 3), r.Range(1, 2), 15, retry, dq, 1, 2), hx.L(mkAdder(r.Range(2, 5), false)), p,
			hx.L(hx.I(0), hx.L(hx.I(0), hx.I(r.Range(6, 14)), hx.I(mult), hx.I(0)))))
	}
	// 7. the batcher's MaintenanceFn hook (batch.go work(): after commitBatch, when MaintenanceInterval has passed) on random
	//    retry / dead-queue cases: the hook runs in the worker between two batches and sleeps 1 ms
	for i := 0; i < 20*c.Scale; i++ {
		nextID = 0
		parents = r.Bool()
		retry := r.Range(-2, 2)
		add("maintenance", hx.L(cfgSx(r.Range(1, 3), r.Range(1, 3), r.Range(10, 30), retry, r.Bool(), 1, r.Range(1, 3)), hx.L(mkAdder(r.Range(4, 16), true)), plan(20, retry),
			hx.L(hx.I(0), hx.L(hx.I(0), hx.I(0), hx.I(0), hx.I(r.Range(1, 20))))))
	}
	// 7b. Add after Stop (batch.go Add: `if b.shouldStop { unlock; return }`) on the retriable batcher: one adder fills batches
	//    that fail, a second one wakes up 15-40 ms after Stop was called.  Its events are dropped without a label: never
	//    sealed, never sent, never handed to the dead queue, never committed (monitors: commits / dead-queue hand-overs only of
	//    added events)
	for i := 0; i < 10*c.Scale; i++ {
		nextID = 0
		parents = false
		retry := r.Range(0, 2)
		first := mkAdder(r.Range(2, 5), false)
		var late []hx.Sx
		late = append(late, hx.L(hx.I(1), hx.I(r.Range(15, 40))))
		for k := r.Range(1, 3); k > 0; k-- {
			nextID++
			late = append(late, hx.L(hx.I(0), hx.I(nextID), hx.I(r.Range(1, 9)), hx.I(0)))
		}
		p := hx.L(hx.L(hx.I(r.Range(1, 3)), hx.I(retry+2)), hx.L(hx.I(0), hx.I(r.Intn(2))))
		add("add-after-stop", hx.L(cfgSx(r.Range(1, 2), r.Range(1, 2), 10, retry, r.Bool(), 1, 2), hx.L(first, hx.L(late...)), p, hx.L(hx.I(1), hx.I(r.Range(2, 9)))))
	}
	getBackoffOracle(c)
	// 9. which = 2 (route.go): the REAL output plugins behind a real Router with a dead queue, against scripted far ends; the
	//    cases run while the batcher traces above are being recorded
	routeJobs := genRouteJobs(c)
	waitRoutes := startRouteJobs(routeJobs)
	runJobs(c, jobs)
	genWiring(c)
	waitRoutes()
	emitRouteJobs(c, routeJobs)
}

//  8. which = 1: the dead-queue wiring of fd/file.d.go (wiring.go).  Stream 'fd-wiring': configurations in which a wrong
//     wiring cannot hide behind equal configs only where it is harmless — one pipeline; several pipelines of which at most one
//     has a dead queue; several with the SAME dead-queue config — all must start every plugin with its own config.
//     Stream 'fd-wiring-distinct' (2..4 pipelines with DIFFERENT dead-queue configs) is the witness family of the defect
//     C09-deadqueue-config-shared (notes/finding-C09-deadqueue-config-shared.md, repaired by /repo commit a22405c; witness in
//     corpus/C09): getStaticInfo stored the parsed dead-queue config into the registry's own PluginStaticInfo while all
//     pipelines are parsed before any is started, so every dead queue of that plugin type started with the config parsed
//     last.  A regression to the shared pointer makes every case of this stream Violate (kind-101 record, m_no_panic).
func genWiring(c *hmain.Ctx) {
	r := c.R
	cfg9 := hx.L(hx.I(1), hx.I(1), hx.I(0), hx.I(20), hx.I(1), hx.I(0), hx.I(1), hx.I(1), hx.I(1))
	mk := func(tags ...string) hx.Sx { return hx.L(cfg9, hx.Ss(tags), hx.L(), hx.L(hx.I(0), hx.I(0))) }
	mkHTTP := func(tags ...string) hx.Sx { return hx.L(cfg9, hx.Ss(tags), hx.L(), hx.L(hx.I(0), hx.I(1))) }
	do := func(stream string, cs hx.Sx) {
		n, dq := 0, 0
		for _, t := range hx.Items(hx.Items(cs)[1]) {
			n++
			if tag := hx.Str(t); tag != "" && tag != "-" && tag[0] != '!' {
				dq++
			}
		}
		c.W.Count(fmt.Sprintf("fd wiring: %d pipelines, %d with a dead queue", n, dq))
		c.Do(stream, 1, cs, true)
	}
	do("fd-wiring", mk("a"))
	do("fd-wiring", mk(""))
	do("fd-wiring", mk("a", ""))
	do("fd-wiring", mk("", "b", ""))
	do("fd-wiring", mk("same", "same"))
	do("fd-wiring", mk("same", "", "same", "same"))
	for i := 0; i < 4*c.Scale; i++ {
		n := r.Range(2, 5)
		tags := make([]string, n)
		if r.Bool() {
			tags[r.Intn(n)] = fmt.Sprintf("t%d", r.Intn(100))
		} else {
			t := fmt.Sprintf("t%d", r.Intn(100))
			for k := range tags {
				if r.Chance(2, 3) {
					tags[k] = t
				}
			}
		}
		do("fd-wiring", mk(tags...))
	}
	// an EMPTY deadqueue section is no dead queue (the main output still starts with its own config, nothing else does)
	do("fd-wiring-empty-section", mk("-"))
	do("fd-wiring-empty-section", mk("a", "-", ""))
	do("fd-wiring-empty-section", mkHTTP("-", "b"))
	// a MALFORMED deadqueue section (no type / unregistered type / a config the plugin rejects) or a rejected main-output config:
	// fd must refuse to start — a pipeline that silently ran WITHOUT the dead queue its configuration asks for would lose
	// every given-up batch — and must not have started any plugin of any pipeline
	for _, bad := range []string{"!notype", "!unknown", "!badcfg", "!mainbad"} {
		do("fd-wiring-refused", mk(bad))
		do("fd-wiring-refused", mk("a", bad))
		tags := []string{"", "b", "c"}
		tags[r.Intn(3)] = bad
		do("fd-wiring-refused", mk(tags...))
		c.W.Count("fd wiring: start-up must be refused (" + bad[1:] + ")")
	}
	for _, bad := range []string{"!mainnotype", "!mainunknown", "!nooutput"} { // no usable main output at all
		do("fd-wiring-refused", mk("a", bad))
		c.W.Count("fd wiring: start-up must be refused (" + bad[1:] + ")")
	}
	// the product's own way down: FileD.Stop(ctx) (HTTP server on, as in production) stops every pipeline; every started
	// plugin is stopped exactly once and a dead queue only after the main output that drains into it (Router.Stop)
	do("fd-wiring-stop", mkHTTP("a"))
	do("fd-wiring-stop", mkHTTP(""))
	do("fd-wiring-stop", mkHTTP("a", "", "b"))
	for i := 0; i < 2*c.Scale; i++ {
		n := r.Range(2, 4)
		tags := make([]string, n)
		for k := range tags {
			if r.Chance(2, 3) {
				tags[k] = fmt.Sprintf("s%d", k)
			}
		}
		do("fd-wiring-stop", mkHTTP(tags...))
	}
	do("fd-wiring-distinct", mk("a", "b"))
	do("fd-wiring-distinct", mk("a", "", "b"))
	for i := 0; i < 4*c.Scale; i++ {
		n := r.Range(2, 4)
		tags := make([]string, n)
		for k := range tags {
			tags[k] = fmt.Sprintf("t%d", k)
		}
		do("fd-wiring-distinct", mk(tags...))
	}
}

// pipeline.GetBackoff (backoff.go; the s3 output's upload retry): cenkalti's WithMaxRetries around an ExponentialBackOff with
// RandomizationFactor 0.5 — exactly attemptNum pauses, the k-th at least minRetention * multiplier^k / 2, then Stop (a negative
// duration).  No sleeping: the pauses are only computed.
func getBackoffOracle(c *hmain.Ctx) {
	for _, n := range []uint64{0, 1, 2, 5} {
		for _, mult := range []float64{1, 2, 3} {
			bo := pipeline.GetBackoff(10*time.Millisecond, mult, n)
			bo.Reset()
			lo, k, grow := float64(5*time.Millisecond), uint64(0), true
			for k <= n+3 {
				d := bo.NextBackOff()
				if d < 0 {
					break
				}
				if float64(d) < lo {
					grow = false
				}
				lo *= mult
				k++
			}
			c.W.Oracle("getbackoff-retries", k == n && grow, fmt.Sprintf("GetBackoff(10ms, %.0f, %d): %d pauses before Stop, growing as configured: %v", mult, n, k, grow))
		}
	}
}

// oracles: what the trace says about cenkalti/backoff as RetriableBatcher.Out drives it (props/C09.json, trusted base)
func oracles(c *hmain.Ctx, j *job) {
	cfg := j.tm.Cfg
	retention := time.Millisecond
	if cfg.RetentionMs > 0 {
		retention = time.Duration(cfg.RetentionMs) * time.Millisecond
	}
	mult := 1.0
	if cfg.MultPct > 0 {
		mult = float64(cfg.MultPct) / 100
	}
	// the k-th pause of a batch is at least InitialInterval * Multiplier^k * (1 - RandomizationFactor), capped by MaxInterval (60 s)
	for _, p := range j.tm.Pauses {
		lo := float64(retention) * 0.5
		for k := int64(0); k < p.Tries && lo < float64(30*time.Second); k++ {
			lo *= mult
		}
		if lo > float64(30*time.Second) {
			lo = float64(30 * time.Second)
		}
		c.W.Oracle("backoff-pauses-grow", float64(p.D) >= lo, fmt.Sprintf("batch %d pause %d lasted %v, expected at least %v (retention %v multiplier %.2f); case %s",
			p.Seq, p.Tries, p.D, time.Duration(lo), retention, mult, hx.String(j.cs)))
		c.W.Count(fmt.Sprintf("retry pause #%d observed (multiplier %.1f)", min(p.Tries, 5), mult))
	}
	// NextBackOff returns Stop exactly when elapsed + next pause > MaxElapsedTime (15 min): never in a run of a few seconds with
	// pauses of milliseconds; on the first failure when the first pause is already >= 30 min * 0.5
	for _, l := range hx.Items(j.obs) {
		o := hx.Items(l)
		if hx.Int(o[0]) != 0 {
			continue
		}
		switch hx.Int(o[1]) {
		case 14: // give-up: seq tries n flags
			stop := hx.Int(o[5]) >= 2
			if retention >= 30*time.Minute {
				c.W.Oracle("backoff-stop", stop && hx.Int(o[3]) == 0, "first pause >= 15 min but the give-up is not a Stop at numTries 0: "+hx.String(l)+" case "+hx.String(j.cs))
				c.W.Count("give-up by backoff.Stop")
			} else if retention <= time.Second {
				c.W.Oracle("backoff-stop", !stop, "Stop although elapsed + pause is far below 15 min: "+hx.String(l)+" case "+hx.String(j.cs))
			}
		case 12: // retry call: seq tries
			if retention >= 30*time.Minute {
				c.W.Oracle("backoff-stop", hx.Int(o[3]) == 0, "a retry was made although the pause before it crosses 15 min: "+hx.String(l)+" case "+hx.String(j.cs))
			}
		case batchdrv.LMaint:
			if hx.Int(o[2]) == 1 {
				c.W.Count("maintenance hook ran")
			}
		}
	}
}

func runJobs(c *hmain.Ctx, jobs []*job) {
	sem := make(chan struct{}, 48)
	var wg sync.WaitGroup
	for _, j := range jobs {
		j := j
		wg.Add(1)
		sem <- struct{}{}
		go func() {
			defer wg.Done()
			defer func() { <-sem }()
			j.obs, j.tm = batchdrv.RunCaseT(j.cs)
		}()
	}
	wg.Wait()
	for _, j := range jobs {
		oracles(c, j)
		c.W.Case(j.stream, 0, j.cs, j.obs, true)
	}
}

func main() {
	hmain.Run(&hmain.Prop{ID: "C09",
		Rule: "each case = (retriable batcher config incl. AttemptNum and dead queue, Add scripts, per-batch failure plan) run on the real RetriableBatcher + Router.Fail + dead-queue Batcher; observable = label trace of both batchers. Exhaustive stream: retry in {-1000000,-7,-3,-2,-1,0,1,2,3} x consecutive failures 0..retry+3 (0..4 for negative counts) x dead queue on/off. Streams 'backoff-stop' (MinRetention 1 h: backoff.Stop on the first failure; retry {-1,0,3} x failures 0..2 x dead queue), 'backoff-growing' (MinRetention 6..14 ms, Multiplier 1.5/2/3, 4..5 consecutive failures: pause k >= MinRetention*Multiplier^k/2) and 'maintenance' (MaintenanceFn every 1..20 ms) carry the backoff / maintenance options in the stop tuple. which = 1 (streams 'fd-wiring', 'fd-wiring-distinct'): N pipelines parsed and started by fd.FileD, each output / dead-queue plugin reports the config it was started with. which = 2 (streams 'route-*'): case = (plugin kind, dead queue, retry, fatal, strict, split_batch, workers, batch size, batches, answer script, tail answer) run on the REAL elasticsearch / http / splunk / loki / socket / clickhouse / gelf output behind a real Router with a dead-queue plugin against a scripted far end; observable = (requests seen, Fatal log entries, per event (commits by main, handed to dead queue, commits by dead queue)). Round 5 (coverage): stream 'add-after-stop' (an adder that wakes up after Stop); oracle 'getbackoff-retries' (pipeline.GetBackoff); which = 1 streams 'fd-wiring-empty-section' (deadqueue:{} = none), 'fd-wiring-refused' (malformed dead-queue / main-output sections: fd.Start must refuse and start nothing; Fatal is turned into a panic by a fatal hook on logger.Instance), 'fd-wiring-stop' (HTTP on, FileD.Stop: every plugin stopped once, dead queue after its main output; Stop records (0 109 i role n)); which = 2: answers a >= 1000 carry a body class (a / 1000) and an optional 12th case element carries elasticsearch option bits (1 process_response, others must not change the way): streams 'route-ack-body' (exhaustive over bodies under a 2xx x {elasticsearch with / without process_response, splunk} x dead queue x retry 0/1) and 'route-es-options' (gzip, api key, basic auth, ingest pipeline, trailing slash, index_format over event fields, oversized events, TLS + ca_cert, empty index_values; oracle 'es-request-shape' on every request). Every case is non-trivial; distinct = distinct case text.",
		Gen:  gen, Exec: exec})
}
