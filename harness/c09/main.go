package main

// C09 — retry and dead-queue routing. Real RetriableBatcher (+ real Router.Fail into a dead-queue
// Batcher) driven by harness/batchdrv with a scripted failure plan per batch.

import (
	"sync"

	"verif/harness/batchdrv"
	"verif/harness/hmain"
	"verif/harness/hx"
)

func exec(which int, cs hx.Sx) hx.Sx { return batchdrv.RunCase(cs) }

type job struct {
	stream string
	cs     hx.Sx
	obs    hx.Sx
}

func gen(c *hmain.Ctx) {
	r := c.R
	var jobs []*job
	add := func(stream string, cs hx.Sx) { jobs = append(jobs, &job{stream: stream, cs: cs}) }
	nextID := 0
	parents := false
	mkAdder := func(n int, sleeps bool) hx.Sx {
		var ops []hx.Sx
		for i := 0; i < n; i++ {
			nextID++
			kind := 0
			if parents && r.Chance(1, 4) {
				kind = 2 // child-parent event (split): carries the commit, is skipped by Batch.ForEach
			}
			ops = append(ops, hx.L(hx.I(0), hx.I(nextID), hx.I(r.Range(1, 9)), hx.I(kind)))
			if sleeps && r.Chance(1, 4) {
				ops = append(ops, hx.L(hx.I(1), hx.I(r.Range(1, 30))))
			}
		}
		return hx.L(ops...)
	}
	cfgSx := func(w, cnt, flush int, retry int, dq bool, dqw, dqc int) hx.Sx {
		return hx.L(hx.I(w), hx.I(cnt), hx.I(0), hx.I(flush), hx.Bool(true), hx.I(retry), hx.Bool(dq), hx.I(dqw), hx.I(dqc))
	}
	plan := func(n int, retry int) hx.Sx {
		var p []hx.Sx
		for i := 0; i < n; i++ {
			f := 0
			switch r.Intn(5) {
			case 0:
				f = r.Range(1, 3) // a few failures
			case 1:
				f = retry + 2 // exactly exhausts (when retry >= 0)
			case 2:
				f = retry + 1 // one short of exhaustion
			case 3:
				f = 50 // fails "forever" (bounded so that retry = -1 terminates)
			}
			if retry < 0 && f > 6 {
				f = 6
			}
			if f < 0 {
				f = 0
			}
			p = append(p, hx.L(hx.I(r.Intn(4)), hx.I(f)))
		}
		return hx.L(p...)
	}
	// 1. exhaustive small scope: retry in -1..3 x consecutive failures 0..retry+3 x dead queue on/off, one batch
	for _, retry := range []int{-1000000, -7, -3, -2, -1, 0, 1, 2, 3} {
		maxFails := retry + 3
		if retry < 0 {
			maxFails = 4 // a negative count means "retry without limit": any number of failures must be survived
		}
		for fails := 0; fails <= maxFails && fails <= 6; fails++ {
			for _, dq := range []bool{false, true} {
				nextID = 0
				add("exhaustive-one-batch", hx.L(cfgSx(1, 2, 20, retry, dq, 1, 2), hx.L(mkAdder(2, false)), hx.L(hx.L(hx.I(0), hx.I(fails))), hx.L(hx.I(0), hx.I(0))))
			}
		}
	}
	parents = true
	// 1b. a failed batch that contains split-parent events, with and without dead queue
	for _, dq := range []bool{false, true} {
		for i := 0; i < 10*c.Scale; i++ {
			nextID = 0
			retry := r.Range(0, 1)
			add("failed-batch-with-parents", hx.L(cfgSx(r.Range(1, 2), 3, 20, retry, dq, 1, 2), hx.L(mkAdder(r.Range(3, 9), false)), hx.L(hx.L(hx.I(0), hx.I(retry+2)), hx.L(hx.I(0), hx.I(0)), hx.L(hx.I(0), hx.I(retry+2))), hx.L(hx.I(0), hx.I(0))))
		}
	}
	// 2. random: several batches, workers 1..3, failure plans around the retry count, dead queue on/off
	for i := 0; i < 90*c.Scale; i++ {
		nextID = 0
		retry := r.Range(-4, 3)
		dq := r.Bool()
		na := r.Range(1, 3)
		var adders []hx.Sx
		for a := 0; a < na; a++ {
			adders = append(adders, mkAdder(r.Range(2, 14), r.Bool()))
		}
		add("random", hx.L(cfgSx(r.Range(1, 3), r.Range(1, 4), r.Range(10, 40), retry, dq, r.Range(1, 2), r.Range(1, 4)), hx.L(adders...), plan(30, retry), hx.L(hx.I(0), hx.I(0))))
	}
	// 3. the dead-queue flush interleaves with later main batches: first batch exhausts, later ones succeed
	for i := 0; i < 25*c.Scale; i++ {
		nextID = 0
		retry := r.Range(0, 1)
		p := hx.L(hx.L(hx.I(0), hx.I(retry+2)), hx.L(hx.I(r.Intn(10)), hx.I(0)), hx.L(hx.I(0), hx.I(0)))
		add("dq-interleave", hx.L(cfgSx(r.Range(1, 2), 2, 15, retry, true, 1, r.Range(2, 5)), hx.L(mkAdder(r.Range(4, 8), false)), p, hx.L(hx.I(0), hx.I(0))))
	}
	// 4. Stop() arrives while a failed batch is between two attempts (or inside one): the batch must still go exactly one way —
	//    the remaining attempts are made, then success / give-up; never committed by the main output with retries pending
	for i := 0; i < 40*c.Scale; i++ {
		nextID = 0
		retry := r.Range(2, 6)
		if r.Chance(1, 4) {
			retry = -1 - r.Intn(3)
		}
		dq := r.Bool()
		fails := retry + 2 // exhausts
		switch {
		case retry < 0:
			fails = r.Range(3, 6)
		case r.Bool():
			fails = r.Range(2, retry+1) // succeeds after some failures
		}
		// every attempt of the first batch takes 1-3 ms, the pause between attempts is 1 ms: Stop after 2-9 ms lands in the retry loop
		p := hx.L(hx.L(hx.I(r.Range(1, 3)), hx.I(fails)), hx.L(hx.I(r.Intn(3)), hx.I(0)), hx.L(hx.I(0), hx.I(r.Intn(2))))
		add("stop-mid-retry", hx.L(cfgSx(r.Range(2, 3), r.Range(1, 2), 10, retry, dq, 1, 2), hx.L(mkAdder(r.Range(2, 5), false)), p, hx.L(hx.I(1), hx.I(r.Range(2, 9)))))
	}
	runJobs(c, jobs)
}

func runJobs(c *hmain.Ctx, jobs []*job) {
	sem := make(chan struct{}, 48)
	var wg sync.WaitGroup
	for _, j := range jobs {
		j := j
		wg.Add(1)
		sem <- struct{}{}
		go func() {
			defer wg.Done()
			defer func() { <-sem }()
			j.obs = batchdrv.RunCase(j.cs)
		}()
	}
	wg.Wait()
	for _, j := range jobs {
		c.W.Case(j.stream, 0, j.cs, j.obs, true)
	}
}

func main() {
	hmain.Run(&hmain.Prop{ID: "C09",
		Rule: "each case = (retriable batcher config incl. AttemptNum and dead queue, Add scripts, per-batch failure plan) run on the real RetriableBatcher + Router.Fail + dead-queue Batcher; observable = label trace of both batchers. Exhaustive stream: retry in {-1000000,-7,-3,-2,-1,0,1,2,3} x consecutive failures 0..retry+3 (0..4 for negative counts) x dead queue on/off. Every case is non-trivial; distinct = distinct case text.",
		Gen:  gen, Exec: exec})
}
