package main

// C09 which = 1 — the dead-queue WIRING of fd/file.d.go (an anchor file of C09): every pipeline whose output has a
// `deadqueue` section must get a dead-queue plugin started with ITS OWN parsed config.  Driven through the public API only:
// fake plugins are registered in fd.DefaultPluginRegistry, a cfg.Config with N pipelines is built from JSON text, fd.New(...)
// .Start() parses it and starts the pipelines, and every fake plugin reports the config its Start received.
//
//	case = (cfg9 tags () (0 0))      the shape of every C09 case (the model glue decodes cfg9 and the stop tuple);
//	   cfg9 = (1 1 0 20 1 0 1 1 1)   fixed, unused
//	   tags = (#tag ...)             pipeline i (named p<i>) has main output tag "o<i>" and dead-queue tag #tag
//	                                 (# empty: that pipeline has no deadqueue section)
//	observed = ((0 107 i role tagOK) ...)  role 0 main output, 1 dead queue: the plugin of pipeline i was started, tagOK = 1
//	                                 iff its config carries the tag the configuration text gives it          (harness-only kind)
//	         + (0 101 i role)        for every plugin started with a config that is not its own: kind 101 is what the batcher
//	                                 monitors of C09 (m_no_panic) reject, so a wrong wiring is a Violates verdict
//	         + (0 103 9 i role)      a plugin the configuration asks for was never started (m_not_stuck)

import (
	"fmt"
	"sort"
	"strings"
	"sync"

	"github.com/bitly/go-simplejson"
	"github.com/ozontech/file.d/cfg"
	"github.com/ozontech/file.d/fd"
	"github.com/ozontech/file.d/pipeline"

	"verif/harness/hx"
)

type wOutConfig struct {
	Tag string `json:"tag"`
}

type wStarted struct {
	pipe string
	role int
	tag  string
}

var (
	wMu      sync.Mutex
	wSeen    []wStarted
	wOnce    sync.Once
	wRunning sync.Mutex // one wiring case at a time: the registry and wSeen are process-wide
)

type wInput struct{}

func (*wInput) Start(pipeline.AnyConfig, *pipeline.InputPluginParams) {}
func (*wInput) Stop()                                                 {}
func (*wInput) Commit(*pipeline.Event)                                {}
func (*wInput) PassEvent(*pipeline.Event) bool                        { return true }

type wOutput struct{ role int }

func (o *wOutput) Start(c pipeline.AnyConfig, p *pipeline.OutputPluginParams) {
	tag := "<nil config>"
	if oc, ok := c.(*wOutConfig); ok && oc != nil {
		tag = oc.Tag
	}
	wMu.Lock()
	wSeen = append(wSeen, wStarted{p.PipelineName, o.role, tag})
	wMu.Unlock()
}
func (o *wOutput) Stop()               {}
func (o *wOutput) Out(*pipeline.Event) {}

func wRegister() {
	wOnce.Do(func() {
		fd.DefaultPluginRegistry.RegisterInput(&pipeline.PluginStaticInfo{Type: "verifwin",
			Factory: func() (pipeline.AnyPlugin, pipeline.AnyConfig) { return &wInput{}, &struct{}{} }})
		fd.DefaultPluginRegistry.RegisterOutput(&pipeline.PluginStaticInfo{Type: "verifwout",
			Factory: func() (pipeline.AnyPlugin, pipeline.AnyConfig) { return &wOutput{role: 0}, &wOutConfig{} }})
		fd.DefaultPluginRegistry.RegisterOutput(&pipeline.PluginStaticInfo{Type: "verifwdq",
			Factory: func() (pipeline.AnyPlugin, pipeline.AnyConfig) { return &wOutput{role: 1}, &wOutConfig{} }})
	})
}

func execWiring(cs hx.Sx) hx.Sx {
	wRegister()
	wRunning.Lock()
	defer wRunning.Unlock()
	tags := hx.Items(hx.Items(cs)[1])
	conf := &cfg.Config{Pipelines: map[string]*cfg.PipelineConfig{}}
	want := map[string][2]string{}
	for i, t := range tags {
		name := fmt.Sprintf("p%d", i)
		dq := ""
		if tag := hx.Str(t); tag != "" {
			dq = fmt.Sprintf(`,"deadqueue":{"type":"verifwdq","tag":"%s"}`, tag)
		}
		text := fmt.Sprintf(`{"settings":{"capacity":4},"input":{"type":"verifwin"},"output":{"type":"verifwout","tag":"o%d"%s}}`, i, dq)
		js, err := simplejson.NewJson([]byte(text))
		if err != nil {
			return hx.L(hx.L(hx.I(0), hx.I(101), hx.I(-1), hx.I(-1)))
		}
		conf.Pipelines[name] = &cfg.PipelineConfig{Raw: js}
		want[name] = [2]string{fmt.Sprintf("o%d", i), hx.Str(t)}
	}
	wMu.Lock()
	wSeen = nil
	wMu.Unlock()
	var res []hx.Sx
	if p := hx.Catch(func() {
		f := fd.New(conf, "off")
		f.Start()
		for _, p := range f.Pipelines { // fd.Stop waits for the HTTP server, which "off" never starts
			p.Stop()
		}
	}); p != "" {
		res = append(res, hx.L(hx.I(0), hx.I(101), hx.I(-2), hx.I(-2)))
	}
	wMu.Lock()
	seen := append([]wStarted(nil), wSeen...)
	wMu.Unlock()
	sort.Slice(seen, func(a, b int) bool {
		if seen[a].pipe != seen[b].pipe {
			return seen[a].pipe < seen[b].pipe
		}
		return seen[a].role < seen[b].role
	})
	started := map[string]bool{}
	for _, s := range seen {
		var i int
		fmt.Sscanf(strings.TrimPrefix(s.pipe, "p"), "%d", &i)
		ok := want[s.pipe][s.role] == s.tag
		started[fmt.Sprintf("%s/%d", s.pipe, s.role)] = true
		res = append(res, hx.L(hx.I(0), hx.I(107), hx.I(i), hx.I(s.role), hx.Bool(ok)))
		if !ok {
			res = append(res, hx.L(hx.I(0), hx.I(101), hx.I(i), hx.I(s.role)))
		}
	}
	for i := range tags {
		for role := 0; role < 2; role++ {
			name := fmt.Sprintf("p%d", i)
			if want[name][role] != "" && !started[fmt.Sprintf("%s/%d", name, role)] {
				res = append(res, hx.L(hx.I(0), hx.I(103), hx.I(9), hx.I(i), hx.I(role)))
			}
		}
	}
	return hx.L(res...)
}
