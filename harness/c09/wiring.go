package main

// C09 which = 1 — the dead-queue WIRING of fd/file.d.go (an anchor file of C09): every pipeline whose output has a
// `deadqueue` section must get a dead-queue plugin started with ITS OWN parsed config.  Driven through the public API only:
// fake plugins are registered in fd.DefaultPluginRegistry, a cfg.Config with N pipelines is built from JSON text, fd.New(...)
// .Start() parses it and starts the pipelines, and every fake plugin reports the config its Start received.
//
//	case = (cfg9 tags () (0 0))      the shape of every C09 case (the model glue decodes cfg9 and the stop tuple);
//	   cfg9 = (1 1 0 20 1 0 1 1 1)   fixed, unused
//	   tags = (#tag ...)             pipeline i (named p<i>) has main output tag "o<i>" and dead-queue tag #tag
//	                                 (# empty: that pipeline has no deadqueue section; "-": an EMPTY section `"deadqueue":{}`,
//	                                 which getStaticInfo treats as no dead queue; "!notype" / "!unknown" / "!badcfg": a
//	                                 deadqueue section without type / with an unregistered type / with a config the plugin
//	                                 rejects; "!mainbad" / "!mainnotype" / "!mainunknown" / "!nooutput": the main output's own config is
//	                                 rejected / has no type / an unregistered type / is missing — fd must REFUSE to start
//	                                 (logger.Fatalf; the harness turns Fatal into a panic) and must not have started anything)
//	   stop tuple (0 arg)            arg 1: fd.New(conf, "127.0.0.1:0") — HTTP on — and the run ends with FileD.Stop(ctx)
//	                                 instead of stopping the pipelines one by one (arg 0: HTTP "off", the historical way)
//	observed = ((0 107 i role tagOK) ...)  role 0 main output, 1 dead queue: the plugin of pipeline i was started, tagOK = 1
//	                                 iff its config carries the tag the configuration text gives it          (harness-only kind)
//	         + (0 101 i role)        for every plugin started with a config that is not its own: kind 101 is what the batcher
//	                                 monitors of C09 (m_no_panic) reject, so a wrong wiring is a Violates verdict
//	         + (0 103 9 i role)      a plugin the configuration asks for was never started (m_not_stuck)
//	         + (0 109 i role n)      the plugin's Stop was called n times by the end of the run; n != 1, or a dead queue
//	                                 stopped before its main output (Router.Stop: the main output drains into it) -> (0 101 i role)
//	         + (0 108 1)             start-up refused as the case demands, nothing started; a start-up that goes through, or
//	                                 starts anything, although a section is malformed -> (0 101 -3 -3)

import (
	"context"
	"fmt"
	"sort"
	"strings"
	"sync"
	"time"

	"github.com/bitly/go-simplejson"
	"github.com/ozontech/file.d/cfg"
	"github.com/ozontech/file.d/fd"
	"github.com/ozontech/file.d/logger"
	"github.com/ozontech/file.d/pipeline"
	"go.uber.org/zap"
	"go.uber.org/zap/zapcore"

	"verif/harness/hx"
)

// fd reports a configuration it cannot start with logger.Fatalf (os.Exit).  The process-wide logger is replaced, before
// anything runs, by the same logger with a fatal hook that panics: a refused start-up becomes a panic of fd.Start() on the
// calling goroutine, which the case recovers.  (A Fatal on any other goroutine still takes the process down, as before.)
func init() {
	logger.Instance = logger.Instance.Desugar().WithOptions(zap.WithFatalHook(zapcore.WriteThenPanic)).Sugar()
}

type wOutConfig struct {
	Tag string `json:"tag"`
}

type wStarted struct {
	pipe string
	role int
	tag  string
	stop bool // a Stop call (tag unused) instead of a Start
}

var (
	wMu      sync.Mutex
	wSeen    []wStarted
	wOnce    sync.Once
	wRunning sync.Mutex // one wiring case at a time: the registry and wSeen are process-wide
)

type wInput struct{}

func (*wInput) Start(pipeline.AnyConfig, *pipeline.InputPluginParams) {}
func (*wInput) Stop()                                                 {}
func (*wInput) Commit(*pipeline.Event)                                {}
func (*wInput) PassEvent(*pipeline.Event) bool                        { return true }

type wOutput struct {
	role int
	pipe string
}

func (o *wOutput) Start(c pipeline.AnyConfig, p *pipeline.OutputPluginParams) {
	tag := "<nil config>"
	if oc, ok := c.(*wOutConfig); ok && oc != nil {
		tag = oc.Tag
	}
	o.pipe = p.PipelineName
	wMu.Lock()
	wSeen = append(wSeen, wStarted{pipe: p.PipelineName, role: o.role, tag: tag})
	wMu.Unlock()
}
func (o *wOutput) Stop() {
	wMu.Lock()
	wSeen = append(wSeen, wStarted{pipe: o.pipe, role: o.role, stop: true})
	wMu.Unlock()
}
func (o *wOutput) Out(*pipeline.Event) {}

func wRegister() {
	wOnce.Do(func() {
		fd.DefaultPluginRegistry.RegisterInput(&pipeline.PluginStaticInfo{Type: "verifwin",
			Factory: func() (pipeline.AnyPlugin, pipeline.AnyConfig) { return &wInput{}, &struct{}{} }})
		fd.DefaultPluginRegistry.RegisterOutput(&pipeline.PluginStaticInfo{Type: "verifwout",
			Factory: func() (pipeline.AnyPlugin, pipeline.AnyConfig) { return &wOutput{role: 0}, &wOutConfig{} }})
		fd.DefaultPluginRegistry.RegisterOutput(&pipeline.PluginStaticInfo{Type: "verifwdq",
			Factory: func() (pipeline.AnyPlugin, pipeline.AnyConfig) { return &wOutput{role: 1}, &wOutConfig{} }})
	})
}

func execWiring(cs hx.Sx) hx.Sx {
	wRegister()
	wRunning.Lock()
	defer wRunning.Unlock()
	tags := hx.Items(hx.Items(cs)[1])
	withHTTP := false
	if st := hx.Items(hx.Items(cs)[3]); len(st) > 1 && !hx.IsList(st[1]) && hx.Int(st[1]) == 1 {
		withHTTP = true
	}
	conf := &cfg.Config{Pipelines: map[string]*cfg.PipelineConfig{}}
	want := map[string][2]string{}
	refuse := false
	for i, t := range tags {
		name := fmt.Sprintf("p%d", i)
		dq, mainExtra, wantDq := "", "", hx.Str(t)
		switch tag := hx.Str(t); tag {
		case "":
		case "-":
			dq, wantDq = `,"deadqueue":{}`, ""
		case "!notype":
			dq = `,"deadqueue":{"tag":"x"}`
		case "!unknown":
			dq = `,"deadqueue":{"type":"verif-no-such-plugin","tag":"x"}`
		case "!badcfg":
			dq = `,"deadqueue":{"type":"verifwdq","tag":"x","no_such_option":1}`
		case "!mainbad":
			mainExtra = `,"no_such_option":1`
		case "!mainnotype", "!mainunknown", "!nooutput":
		default:
			dq = fmt.Sprintf(`,"deadqueue":{"type":"verifwdq","tag":"%s"}`, tag)
		}
		if strings.HasPrefix(wantDq, "!") {
			refuse, wantDq = true, ""
		}
		text := fmt.Sprintf(`{"settings":{"capacity":4},"input":{"type":"verifwin"},"output":{"type":"verifwout","tag":"o%d"%s%s}}`, i, mainExtra, dq)
		switch hx.Str(t) {
		case "!mainnotype":
			text = fmt.Sprintf(`{"settings":{"capacity":4},"input":{"type":"verifwin"},"output":{"tag":"o%d"}}`, i)
		case "!mainunknown":
			text = fmt.Sprintf(`{"settings":{"capacity":4},"input":{"type":"verifwin"},"output":{"type":"verif-no-such-plugin","tag":"o%d"}}`, i)
		case "!nooutput":
			text = `{"settings":{"capacity":4},"input":{"type":"verifwin"}}`
		}
		js, err := simplejson.NewJson([]byte(text))
		if err != nil {
			return hx.L(hx.L(hx.I(0), hx.I(101), hx.I(-1), hx.I(-1)))
		}
		conf.Pipelines[name] = &cfg.PipelineConfig{Raw: js}
		want[name] = [2]string{fmt.Sprintf("o%d", i), wantDq}
	}
	wMu.Lock()
	wSeen = nil
	wMu.Unlock()
	var res []hx.Sx
	panicked := hx.Catch(func() {
		if withHTTP {
			f := fd.New(conf, "127.0.0.1:0")
			f.Start()
			ctx, cancel := context.WithTimeout(context.Background(), 5*time.Second)
			defer cancel()
			_ = f.Stop(ctx)
			return
		}
		f := fd.New(conf, "off")
		f.Start()
		for _, p := range f.Pipelines { // fd.Stop waits for the HTTP server, which "off" never starts
			p.Stop()
		}
	}) != ""
	wMu.Lock()
	all := append([]wStarted(nil), wSeen...)
	wMu.Unlock()
	if refuse {
		if panicked && len(all) == 0 {
			return hx.L(hx.L(hx.I(0), hx.I(108), hx.I(1)))
		}
		res = append(res, hx.L(hx.I(0), hx.I(101), hx.I(-3), hx.I(-3)))
	} else if panicked {
		res = append(res, hx.L(hx.I(0), hx.I(101), hx.I(-2), hx.I(-2)))
	}
	var seen []wStarted
	stops := map[string]int{}  // "pipe/role" -> number of Stop calls
	stopAt := map[string]int{} // "pipe/role" -> position of the first Stop call
	for k, s := range all {
		key := fmt.Sprintf("%s/%d", s.pipe, s.role)
		if s.stop {
			if stops[key] == 0 {
				stopAt[key] = k
			}
			stops[key]++
		} else {
			seen = append(seen, s)
		}
	}
	sort.Slice(seen, func(a, b int) bool {
		if seen[a].pipe != seen[b].pipe {
			return seen[a].pipe < seen[b].pipe
		}
		return seen[a].role < seen[b].role
	})
	started := map[string]bool{}
	for _, s := range seen {
		var i int
		fmt.Sscanf(strings.TrimPrefix(s.pipe, "p"), "%d", &i)
		ok := want[s.pipe][s.role] == s.tag && (s.role == 0 || want[s.pipe][1] != "")
		key := fmt.Sprintf("%s/%d", s.pipe, s.role)
		started[key] = true
		res = append(res, hx.L(hx.I(0), hx.I(107), hx.I(i), hx.I(s.role), hx.Bool(ok)))
		if !ok {
			res = append(res, hx.L(hx.I(0), hx.I(101), hx.I(i), hx.I(s.role)))
		}
		if !panicked {
			n := stops[key]
			res = append(res, hx.L(hx.I(0), hx.I(109), hx.I(i), hx.I(s.role), hx.I(n)))
			if n != 1 || (s.role == 1 && stops[s.pipe+"/0"] > 0 && stopAt[key] < stopAt[s.pipe+"/0"]) {
				res = append(res, hx.L(hx.I(0), hx.I(101), hx.I(i), hx.I(s.role)))
			}
		}
	}
	for i := range tags {
		for role := 0; role < 2; role++ {
			name := fmt.Sprintf("p%d", i)
			if want[name][role] != "" && !started[fmt.Sprintf("%s/%d", name, role)] {
				res = append(res, hx.L(hx.I(0), hx.I(103), hx.I(9), hx.I(i), hx.I(role)))
			}
		}
	}
	return hx.L(res...)
}
