// Intentionally empty: its presence lets maint.go declare the body-less, link-named c06MaintenanceJob.
