package main

// C06 — jobs made and notified by the REAL provider code (round 5, coverage), and compressed (lz4) jobs.
//
// The export driver (plugin/input/file/verif_export_c06.go) builds its Job by hand and resumes it by calling
// tryResumeJobAndUnlock itself. In production a job is made by the watcher's callback
//
//	jobProvider.processNotification -> refreshFile -> os.Open + addJob (sourceIDByStat, getMimeType / isCompressed,
//	initEofInfo, initJobOffset(offsets_op | reset once started), tryResumeJobAndUnlock)
//
// and a write notification (should_watch_file_changes) goes through refreshFile -> checkFileWasTruncated (position
// behind the end -> truncateJob) before the job is resumed. None of this was executed by any C06 case. The harness may
// not extend the export file, so it reaches the unexported methods by their link names (bodies = the ones compiled from
// provider.go / offset.go; stub.s permits the body-less declarations) and the few fields it has to set through
// reflect + unsafe (internals.go: fieldPtr):
//
//	jobProvider.config        the shared provider has &Config{}: MaxFiles 0 would make addJob end the process
//	                          (logger.Fatalf "limit max_files"); OffsetsOp_ / RemoveAfter_ select the mode under test
//	jobProvider.isStarted     addJob uses offsets_op only during the start phase, afterwards always reset
//	jobProvider.loadedOffsets filled with what the REAL offsetDB.parse returns for an offsets file text
//	jobProvider.jobs          emptied, so that refreshFile finds no job for the file and takes the addJob path
//	VerifC06.job              pointed at the job addJob made (Round / State / Close work on it)
//
// Modes of a history case (which 4 | 5, coq/Model/Worker.v hmode_of_sx): 2 start phase + reset, (3 off ...) start phase +
// continue with the saved stream offsets off ..., 4 start phase + tail, 5 after the start phase (reset whatever
// offsets_op says; the file has no extension: getMimeType's fallback), 6 = as 2 through a symlink (addSymlink, refreshSymlink,
// source id and source name of the symlink). History ops: (5 bufsz) = the real write notification, then the pass; (6 bufsz) = maintenance tick with
// remove_after expired (config.RemoveAfter_ = 1 h for the case, xtime's clock is moved 2 h ahead for the tick).
//
// Compressed jobs (which 6 | 7, c06z_* in the model): the file <dir>/z.lz4 holds the lz4 frames of the case; the job is
// made by the real addJob (getMimeType -> isCompressed), resumed from the saved offsets of the case (continue mode) and
// worked on once by the real worker.work (lz4.NewReader, the skip loop, the EOF handling of a compressed reader).
// worker.go asks `lsof <file>` whether somebody writes to the file: the harness puts a stub named lsof first in PATH that
// prints what the real lsof prints in the situation the case selects (format checked against the real lsof once per run
// when it is installed: oracle lsof-output-format), so a pass costs a fork instead of ~30-200 ms and does not depend on
// what else runs on the machine.

import (
	"bytes"
	"fmt"
	"io"
	"os"
	"os/exec"
	"path/filepath"
	"reflect"
	"strings"
	"time"
	"unsafe"

	"github.com/ozontech/file.d/pipeline"
	filein "github.com/ozontech/file.d/plugin/input/file"
	"github.com/ozontech/file.d/xtime"
	"github.com/pierrec/lz4/v4"
	"github.com/rjeczalik/notify"

	"verif/harness/hmain"
	"verif/harness/hx"
)

//go:linkname c06ProcessNotification github.com/ozontech/file.d/plugin/input/file.(*jobProvider).processNotification
func c06ProcessNotification(jp unsafe.Pointer, e notify.Event, filename string, stat os.FileInfo)

//go:linkname c06ParseOffsets github.com/ozontech/file.d/plugin/input/file.(*offsetDB).parse
func c06ParseOffsets(db unsafe.Pointer, content string) (map[pipeline.SourceID]unsafe.Pointer, error)

//go:linkname c06SourceIDByStat github.com/ozontech/file.d/plugin/input/file.sourceIDByStat
func c06SourceIDByStat(s os.FileInfo, symlink string) pipeline.SourceID

const (
	c06OpContinue = 0 // offsetsOpContinue
	c06OpTail     = 1 // offsetsOpTail
	c06OpReset    = 2 // offsetsOpReset
)

type c06Provider struct {
	ptr unsafe.Pointer // *jobProvider
	val reflect.Value  // the jobProvider struct (addressable)
	cfg *filein.Config
}

func c06ProviderOf(v *filein.VerifC06) c06Provider {
	jpv := reflect.ValueOf(v).Elem().FieldByName("jp")
	p := c06Provider{ptr: jpv.UnsafePointer(), val: jpv.Elem()}
	p.cfg = *(**filein.Config)(fieldPtr(p.val, "config"))
	return p
}

func (p c06Provider) setStarted(b bool) {
	f := p.val.FieldByName("isStarted")
	reflect.NewAt(f.Type(), fieldPtr(p.val, "isStarted")).MethodByName("Store").Call([]reflect.Value{reflect.ValueOf(b)})
}

// reset puts the shared provider back into the state the export driver expects (the next case may be of any kind)
func (p c06Provider) reset() {
	p.cfg.MaxFiles = 0
	p.cfg.RemoveAfter_ = 0
	reflect.ValueOf(p.cfg).Elem().FieldByName("OffsetsOp_").SetInt(c06OpContinue)
	p.setStarted(false)
	*(*map[pipeline.SourceID]unsafe.Pointer)(fieldPtr(p.val, "loadedOffsets")) = nil
}

// c06RealJob replaces the hand-made job of the driver v (on path) by the job the REAL provider makes for the file.
// op = offsets_op of the config; started = the provider is past its start phase; offs = the stream offsets the offsets
// file lists for this source (nil: the source is not listed).
// link != "": the watched path is this symlink to path (the k8s layout); the notification is delivered for the symlink.
func c06RealJob(v *filein.VerifC06, path, link string, op int, started bool, offs []int64) {
	c06RealJobStamp(v, path, link, op, started, offs, -1)
}

// eofStamp = the last_read_timestamp line of the offsets text (the job's EOF time stamp when the offsets were saved: 0 = the
// earlier run never reached the end of the file); -1 = no such line (the format of older versions: parse takes "now")
func c06RealJobStamp(v *filein.VerifC06, path, link string, op int, started bool, offs []int64, eofStamp int64) {
	g := c06GutsOf(v)
	p := c06ProviderOf(v)
	// the hand-made job is dropped: close its file, forget it
	old := *(**os.File)(fieldPtr(reflect.ValueOf(g.job).Elem(), "file"))
	_ = old.Close()
	*g.jobs = map[pipeline.SourceID]*filein.Job{}
	g.jobsDone.MethodByName("Store").Call([]reflect.Value{reflect.ValueOf(int32(0))})
	for len(g.ch) > 0 {
		<-g.ch
	}
	p.cfg.MaxFiles = 64
	reflect.ValueOf(p.cfg).Elem().FieldByName("OffsetsOp_").SetInt(int64(op))
	p.setStarted(started)
	st, err := os.Stat(path)
	if err != nil {
		panic(err)
	}
	var loaded map[pipeline.SourceID]unsafe.Pointer
	if offs != nil {
		sid := c06SourceIDByStat(st, "")
		var b strings.Builder // the text offsetDB.save writes for one job
		fmt.Fprintf(&b, "- file: %s\n  inode: %d\n  source_id: %d\n", path, inodeOf(st), uint64(sid))
		if eofStamp >= 0 {
			fmt.Fprintf(&b, "  last_read_timestamp: %d\n", eofStamp)
		}
		b.WriteString("  streams:\n")
		for i, o := range offs {
			name := fmt.Sprintf("s%d", i)
			if c06StreamNames != nil { // streams.go: the stream names of the case
				name = c06StreamNames[i]
			}
			fmt.Fprintf(&b, "    %s: %d\n", name, o)
		}
		loaded, err = c06ParseOffsets(*(*unsafe.Pointer)(fieldPtr(p.val, "offsetDB")), b.String())
		if err != nil {
			panic(err)
		}
		if len(loaded) != 1 {
			panic("harness/c06: the offsets text did not parse into one source")
		}
	}
	*(*map[pipeline.SourceID]unsafe.Pointer)(fieldPtr(p.val, "loadedOffsets")) = loaded
	// what the watcher does for a file it finds (start phase) or sees created (afterwards)
	if link != "" {
		_ = os.Remove(link)
		if err := os.Symlink(path, link); err != nil {
			panic(err)
		}
		lst, err := os.Lstat(link)
		if err != nil {
			panic(err)
		}
		c06ProcessNotification(p.ptr, notify.Create, link, lst)
	} else {
		c06ProcessNotification(p.ptr, notify.Create, path, st)
	}
	var job *filein.Job
	select {
	case job = <-g.ch:
	default:
		panic("harness/c06: addJob queued nothing")
	}
	if len(*g.jobs) != 1 || job == nil {
		panic("harness/c06: addJob did not register exactly one job")
	}
	*(**filein.Job)(fieldPtr(reflect.ValueOf(v).Elem(), "job")) = job
}

// c06Notify = the watcher's write notification for the file, followed by draining what it queued (Round queues the job
// again in front of the final nil: it is not done any more)
func c06Notify(v *filein.VerifC06, path, link string) {
	st, err := os.Stat(path)
	if err != nil {
		panic(err)
	}
	watched, wst := path, st
	if link != "" {
		if wst, err = os.Lstat(link); err != nil {
			panic(err)
		}
		watched = link
	}
	g := c06GutsOf(v)
	p := c06ProviderOf(v)
	if len(*g.jobs) != 1 {
		panic("harness/c06: write notification without a registered job")
	}
	for sid := range *g.jobs {
		if sid != c06SourceIDByStat(st, link) {
			panic("harness/c06: write notification for a file the job table does not know (op 5 needs a real job: mode >= 2)")
		}
	}
	c06ProcessNotification(p.ptr, notify.Write, watched, wst)
	if len(*g.jobs) != 1 {
		panic("harness/c06: the write notification changed the job table")
	}
	select {
	case j := <-g.ch:
		if j != g.job {
			panic("harness/c06: another job in the channel")
		}
	default:
	}
}

// c06ExpiredTick runs a maintenance tick with xtime's clock two hours ahead. xtime's own ticker (once a second) may set
// the clock back in the middle of the call; the only outcome that depends on the clock is "re-opened, nothing changed" (4)
// instead of "deleted" (3), and such a tick changed nothing: it is repeated.
func c06ExpiredTick(tick func() int) int {
	for try := 0; ; try++ {
		ahead := time.Now().Add(2 * time.Hour).UnixNano()
		xtime.SetNowTime(ahead)
		res := tick()
		raced := xtime.GetInaccurateUnixNano() != ahead
		xtime.SetNowTime(time.Now().UnixNano())
		if raced && res == 4 && try < 5 {
			continue
		}
		return res
	}
}

// c06StreamNames: when set, the names under which c06RealJobStamp lists the stream offsets (default s0, s1, ...)
var c06StreamNames []string

func inodeOf(st os.FileInfo) uint64 {
	return reflect.ValueOf(st.Sys()).Elem().FieldByName("Ino").Uint()
}

// ---- lsof stub -----------------------------------------------------------------------------------------------------
// scenario of a case: 0 = there is no lsof in PATH (exec fails before any fork: the usual situation in a container);
// stub scenarios (env C06_LSOF): 1 = only readers (file.d itself), 2 = a writer holds the file, 3 = lsof finds nobody (exit 1);
// 4 = as 1, but the lz4 file lives in a directory named "www" (the path the stub prints contains the letter w: before /repo
// fix 353d84e any w in the answer was taken for write access and the worker left its jobs loop).
// Scenarios with a history (the first pass is scenario 2: worker.go marks the job done without reading, "try again later"):
// 5 = then the watcher's write notification resumes the job and a second pass finds only readers (1);
// 6 = then a maintenance tick (remove_after off): it resumes the job (/repo fix d780bcb) and the pass finds only readers;
// 7 = the same with remove_after expired (before d780bcb the tick removed the file with nothing read). With saved offsets the
// offsets text of 6 | 7 says last_read_timestamp: 0 (the earlier run never reached the end of the file); 8 (not generated) = 7
// without that line
const c06LsofStub = `#!/bin/sh
case "$C06_LSOF" in
1) printf 'COMMAND  PID USER   FD   TYPE DEVICE SIZE/OFF    NODE NAME\nfile.d  4417 root    8r   REG   0,27       87 7256276 %s\n' "$1";;
2) printf 'COMMAND  PID USER   FD   TYPE DEVICE SIZE/OFF    NODE NAME\nfile.d  4417 root    8r   REG   0,27       87 7256276 %s\nlz4     4420 root    1w   REG   0,27       87 7256276 %s\n' "$1" "$1";;
*) exit 1;;
esac
`

var (
	c06LsofReady bool
	c06LsofDir   string // holds the stub
	c06NoLsofDir string // empty: PATH of scenario 0
)

// c06WithLsof runs fn with PATH = the directory of the scenario
func c06WithLsof(scenario int, fn func()) {
	c06InstallLsof(nil)
	old := os.Getenv("PATH")
	defer os.Setenv("PATH", old)
	if scenario == 0 {
		os.Setenv("PATH", c06NoLsofDir)
	} else {
		os.Setenv("PATH", c06LsofDir)
		if scenario == 4 {
			scenario = 1
		}
		os.Setenv("C06_LSOF", fmt.Sprint(scenario))
	}
	fn()
}

func c06InstallLsof(c *hmain.Ctx) {
	if c06LsofReady {
		return
	}
	c06LsofReady = true
	dir := filepath.Join(c06TempDir(), "bin")
	if err := os.MkdirAll(dir, 0o755); err != nil {
		panic(err)
	}
	if err := os.WriteFile(filepath.Join(dir, "lsof"), []byte(c06LsofStub), 0o755); err != nil {
		panic(err)
	}
	c06LsofDir = dir
	c06NoLsofDir = filepath.Join(c06TempDir(), "nobin")
	if err := os.MkdirAll(c06NoLsofDir, 0o755); err != nil {
		panic(err)
	}
}

// c06LsofOracle: the stub's lines have the shape of the real tool's (skipped when no lsof is installed)
func c06LsofOracle(c *hmain.Ctx) {
	real := ""
	for _, d := range filepath.SplitList(os.Getenv("PATH")) {
		if d == c06LsofDir || d == "" {
			continue
		}
		if st, err := os.Stat(filepath.Join(d, "lsof")); err == nil && !st.IsDir() && st.Mode()&0o111 != 0 {
			real = filepath.Join(d, "lsof")
			break
		}
	}
	if real == "" {
		c.W.Count("lsof-output-format: no lsof installed, oracle skipped")
		return
	}
	// the stub's lines have the shape of the real tool's: header without a lower-case w, FD column = number + r / w
	p := filepath.Join(c06TempDir(), "probe.txt")
	_ = os.WriteFile(p, []byte("x"), 0o600)
	rf, err := os.Open(p)
	if err != nil {
		return
	}
	defer rf.Close()
	out, _ := exec.Command(real, p).Output()
	lines := strings.Split(strings.TrimSpace(string(out)), "\n")
	ok := len(lines) == 2 && strings.HasPrefix(lines[0], "COMMAND") && !strings.Contains(lines[0], "w")
	if ok {
		f := strings.Fields(lines[1])
		ok = len(f) >= 9 && strings.HasSuffix(f[3], "r") && f[len(f)-1] == p
	}
	wf, err := os.OpenFile(p, os.O_WRONLY|os.O_APPEND, 0)
	if err == nil {
		out2, _ := exec.Command(real, p).Output()
		wf.Close()
		found := false
		for _, ln := range strings.Split(string(out2), "\n") {
			if f := strings.Fields(ln); len(f) >= 9 && strings.HasSuffix(f[3], "w") {
				found = true
			}
		}
		ok = ok && found
	}
	c.W.Oracle("lsof-output-format: header + one line per holder, FD column = descriptor number + r (reader) / w (writer), as the stub prints", ok, string(out))
}

// ---- compressed jobs (which = 6 | 7) --------------------------------------------------------------------------------
func c06Frame(b []byte) []byte {
	var buf bytes.Buffer
	w := lz4.NewWriter(&buf)
	if _, err := w.Write(b); err != nil {
		panic(err)
	}
	if err := w.Close(); err != nil {
		panic(err)
	}
	return buf.Bytes()
}

// case = (max cut (off ...) (#frame ...) bufsz lsof)   obs = ((emit ...) curOffset #tail shouldSkip done [result [gone]])
// done = Job.isDone at the end; result = what the maintenance tick of scenario 6 | 7 returned; gone = the file is removed (7)
func c06ExecLz4(which int, cs hx.Sx) hx.Sx {
	it := hx.Items(cs)
	max := int(hx.Int(it[0]))
	cut := hx.Truth(it[1])
	var offs []int64
	for _, o := range hx.Items(it[2]) {
		offs = append(offs, hx.Int(o))
	}
	var content, plain []byte
	for _, fr := range hx.Items(it[3]) {
		content = append(content, c06Frame(hx.Bytes(fr))...)
		plain = append(plain, hx.Bytes(fr)...)
	}
	bufsz := int(hx.Int(it[4]))
	scenario := int(hx.Int(it[5]))
	path := filepath.Join(c06TempDir(), "z.lz4")
	if scenario == 4 {
		_ = os.MkdirAll(filepath.Join(c06TempDir(), "www"), 0o755)
		path = filepath.Join(c06TempDir(), "www", "z.lz4")
	}
	var f *c06File
	var out hx.Sx
	msg := hx.Catch(func() {
		if err := os.WriteFile(path, content, 0o600); err != nil {
			panic(err)
		}
		f = &c06File{which: which - 6}
		if f.which == 1 {
			f.pipe = c06Pipe(max, cut)
		}
		var err error
		f.v, err = filein.VerifNewC06(path, max, cut, false, 0, func(off int64, data []byte) { f.record(off, data) })
		if err != nil {
			panic(err)
		}
		defer c06ProviderOf(f.v).reset()
		stamp := int64(-1)
		if scenario == 6 || scenario == 7 {
			stamp = 0 // saved offsets of a run that was ended before it reached the end of the file (what offsetDB.save writes then)
		}
		c06RealJobStamp(f.v, path, "", c06OpContinue, false, offs, stamp)
		first := scenario
		if scenario >= 5 {
			first = 2
		}
		if scenario == 8 { // replay only (notes/finding-C06-lz4-being-written-followup.md, residual): as 7, EOF time stamp not 0
			scenario = 7
		}
		c06WithLsof(first, func() { f.v.Round(bufsz) })
		g := c06GutsOf(f.v) // after c06RealJob: the job the real addJob made
		var extra []hx.Sx
		switch scenario {
		case 5: // the writer is gone: a write notification (refreshFile: checkFileWasTruncated, tryResumeJobAndUnlock), then the pass
			c06Notify(f.v, path, "")
			c06WithLsof(1, func() { f.v.Round(bufsz) })
		case 6, 7:
			jp := reflect.ValueOf(f.v).Elem().FieldByName("jp").UnsafePointer()
			tick := func() int { return c06MaintenanceJob(jp, g.job) }
			var res int
			if scenario == 7 {
				c06ProviderOf(f.v).cfg.RemoveAfter_ = time.Hour // reset() puts it back
				res = c06ExpiredTick(tick)
			} else {
				res = tick()
			}
			if res == c06MaintResumed { // the tick queued the job: the worker takes it, the writer is gone
				select {
				case j := <-g.ch:
					if j != g.job {
						panic("harness/c06: another job in the channel")
					}
				default:
					panic("harness/c06: maintenance reported resumed but queued nothing")
				}
				c06WithLsof(1, func() { f.v.Round(bufsz) })
			} else if len(g.ch) != 0 {
				panic("harness/c06: maintenance queued a job without reporting resumed")
			}
			extra = append(extra, hx.I(res))
			if scenario == 7 {
				_, lerr := os.Lstat(path)
				extra = append(extra, hx.Bool(lerr != nil))
			}
		}
		cur, tail, skip, _ := f.v.State()
		done := *(*bool)(fieldPtr(reflect.ValueOf(g.job).Elem(), "isDone"))
		out = hx.L(append([]hx.Sx{hx.L(f.emits...), hx.Z(cur), hx.B(tail), hx.Bool(skip), hx.Bool(done)}, extra...)...)
	})
	if f != nil {
		f.close()
	}
	if msg != "" {
		return hx.L(hx.S(msg))
	}
	return out
}

// c06Lz4Oracle: the read shape the model assumes for the lz4 reader (chunks of the buffer size, the short last piece
// together with io.EOF, then 0 / io.EOF; frames are read through as one stream)
func c06Lz4Oracle(c *hmain.Ctx) {
	ok := true
	detail := ""
	for _, n := range []int{0, 1, 5, 10, 11, 37} {
		for _, bs := range []int{1, 2, 5, 7, 64} {
			a := bytes.Repeat([]byte("ab\ncdefg\n"), n)
			data := append(c06Frame(a[:len(a)/2]), c06Frame(a[len(a)/2:])...)
			r := lz4.NewReader(bytes.NewReader(data))
			buf := make([]byte, bs)
			var got []byte
			left := len(a)
			for {
				k, err := r.Read(buf)
				got = append(got, buf[:k]...)
				want := min(bs, left)
				left -= k
				if k != want || (err == nil) != (k == bs) || (err != nil && err != io.EOF) {
					ok, detail = false, fmt.Sprintf("len %d buf %d: read %d (want %d) err %v", len(a), bs, k, want, err)
				}
				if err != nil {
					break
				}
			}
			if k, err := r.Read(buf); k != 0 || err != io.EOF {
				ok, detail = false, fmt.Sprintf("len %d buf %d: read after EOF %d %v", len(a), bs, k, err)
			}
			if !bytes.Equal(got, a) {
				ok, detail = false, "content differs"
			}
		}
	}
	c.W.Oracle("lz4-reader-chunks: Read fills the buffer while the stream lasts, returns the short last piece with io.EOF, then 0 / io.EOF; concatenated frames read as one stream", ok, detail)
}
