package main

// C06 — histories with the job maintenance (which = 4 | 5), see coq/Model/Worker.v (h_step, h_trace, hpred).
//
//	case = (max cut mode #prefix (op ...))
//	op   = (0 #append)  the writer appends
//	     | (1 bufsz)    write notification + one pass of the real worker.work (VerifC06.Round)
//	     | (2 bufsz)    maintenance tick: the REAL jobProvider.maintenanceJob on the real job; when it resumed the job
//	                    (it queued it in jobsChan) the real worker.work takes it, read buffer bufsz
//	     | (3 size)     the writer truncates the file to size bytes
//	     | (4 kind)     the file is renamed away (kind 0) or rotated (kind 1: renamed + a new file under the old name)
//	obs  = one item per op 1 / 2:  op 1: ((emit ...) curOffset filePos #tail shouldSkip)
//	                               op 2: (result (emit ...) curOffset filePos #tail shouldSkip)
//	which = 4: emit = (offsets.current #data); which = 5: emit = (offsets.current #data ok cutoff #out)
//
// maintenanceJob is an unexported method of an unexported type and the add-only export file of this property
// (plugin/input/file/verif_export_c06.go) has no wrapper for it; the harness may not extend that file, so the method
// is reached by its link name (the body stays the one compiled from provider.go; stub.s only allows the body-less
// declaration). Job.inode, which addJob fills in and VerifNewC06 leaves 0, is set through reflect + unsafe like the
// fields of internals.go: maintenanceJob compares it with the inode of the re-opened file.

import (
	"bytes"
	"fmt"
	"os"
	"path/filepath"
	"reflect"
	"syscall"
	"time"
	"unsafe"

	filein "github.com/ozontech/file.d/plugin/input/file"

	"verif/harness/hmain"
	"verif/harness/hx"
)

//go:linkname c06MaintenanceJob github.com/ozontech/file.d/plugin/input/file.(*jobProvider).maintenanceJob
func c06MaintenanceJob(jp unsafe.Pointer, job *filein.Job) int

const (
	c06MaintResumed = 2 // maintenanceResultResumed
	c06MaintDeleted = 3 // maintenanceResultDeleted
)

func c06ExecHist(which int, cs hx.Sx) hx.Sx {
	it := hx.Items(cs)
	max := int(hx.Int(it[0]))
	cut := hx.Truth(it[1])
	// mode: 0 | 1 = the job of the export driver; 2 | (3 off ...) | 4 | 5 = a job made by the real addJob (realjob.go)
	mode := 0
	var offs []int64
	if hx.IsList(it[2]) {
		mi := hx.Items(it[2])
		mode = int(hx.Int(mi[0]))
		if mode != 3 {
			return hx.L(hx.L(hx.S("harness/c06: unknown mode")))
		}
		if len(mi) > 1 {
			offs = []int64{}
		}
		for _, o := range mi[1:] {
			offs = append(offs, hx.Int(o))
		}
	} else {
		mode = int(hx.Int(it[2]))
	}
	prefix := hx.Bytes(it[3])
	ops := hx.Items(it[4])
	path := filepath.Join(c06TempDir(), "h.log")
	link := ""
	switch mode {
	case 5:
		path = filepath.Join(c06TempDir(), "hfile") // no extension
	case 6:
		link = filepath.Join(c06TempDir(), "h.link")
		defer os.Remove(link)
	}
	rotated := path + ".1"
	os.Remove(rotated)
	defer os.Remove(rotated)
	var f *c06File
	var items []hx.Sx
	msg := hx.Catch(func() {
		wf, err := os.OpenFile(path, os.O_CREATE|os.O_TRUNC|os.O_WRONLY|os.O_APPEND, 0o600)
		if err != nil {
			panic(err)
		}
		f = &c06File{wf: wf, which: which - 4}
		if len(prefix) > 0 {
			if _, err := wf.Write(prefix); err != nil {
				panic(err)
			}
		}
		if f.which == 1 {
			f.pipe = c06Pipe(max, cut)
		}
		f.v, err = filein.VerifNewC06(path, max, cut, mode == 1, int64(len(prefix)), func(off int64, data []byte) { f.record(off, data) })
		if err != nil {
			panic(err)
		}
		if mode >= 2 {
			defer c06ProviderOf(f.v).reset()
			switch mode {
			case 2, 6:
				c06RealJob(f.v, path, link, c06OpReset, false, nil)
			case 3:
				c06RealJob(f.v, path, "", c06OpContinue, false, offs)
			case 4:
				c06RealJob(f.v, path, "", c06OpTail, false, nil)
			case 5: // added after the start phase: offsets_op (tail) must be ignored
				c06RealJob(f.v, path, "", c06OpTail, true, nil)
			default:
				panic("harness/c06: unknown mode")
			}
		}
		g := c06GutsOf(f.v)
		st, err := os.Stat(path)
		if err != nil {
			panic(err)
		}
		if mode < 2 {
			*(*uint64)(fieldPtr(reflect.ValueOf(g.job).Elem(), "inode")) = st.Sys().(*syscall.Stat_t).Ino // as addJob does
		}
		for _, op := range ops {
			if hx.Int(hx.Items(op)[0]) == 6 { // remove_after is on for the whole case; only the ticks of op 6 see it expired
				pr := c06ProviderOf(f.v)
				pr.cfg.RemoveAfter_ = time.Hour
				if mode < 2 {
					defer pr.reset()
				}
				break
			}
		}
		jp := reflect.ValueOf(f.v).Elem().FieldByName("jp").UnsafePointer()
		deleted := false
		state := func() []hx.Sx {
			cur, tail, skip, pos := f.v.State()
			s := []hx.Sx{hx.L(f.emits...), hx.Z(cur), hx.Z(pos), hx.B(tail), hx.Bool(skip)}
			f.emits = nil
			return s
		}
		for _, op := range ops {
			o := hx.Items(op)
			switch hx.Int(o[0]) {
			case 0:
				if b := hx.Bytes(o[1]); len(b) > 0 {
					if _, err := wf.Write(b); err != nil {
						panic(err)
					}
				}
			case 1:
				if deleted {
					panic("harness/c06: pass of a deleted job")
				}
				f.v.Round(int(hx.Int(o[1])))
				items = append(items, hx.L(state()...))
			case 2:
				if deleted {
					panic("harness/c06: maintenance of a deleted job")
				}
				res := c06MaintenanceJob(jp, g.job)
				if res == c06MaintResumed {
					// the tick queued the job: hand the same job to the worker (Round queues it, then the final nil, and runs
					// the real worker.work; the job is not done any more, so Round does not resume it a second time)
					select {
					case j := <-g.ch:
						if j != g.job {
							panic("harness/c06: another job in the channel")
						}
					default:
						panic("harness/c06: maintenance reported resumed but queued nothing")
					}
					f.v.Round(int(hx.Int(o[1])))
				} else if len(g.ch) != 0 {
					panic("harness/c06: maintenance queued a job without reporting resumed")
				}
				if res == c06MaintDeleted {
					deleted = true
				}
				items = append(items, hx.L(append([]hx.Sx{hx.I(res)}, state()...)...))
			case 5: // the real write notification (checkFileWasTruncated, tryResumeJobAndUnlock), then the pass
				if deleted {
					panic("harness/c06: notification for a deleted job")
				}
				if mode < 2 {
					panic("harness/c06: op 5 needs a job made by the real addJob (mode >= 2)")
				}
				c06Notify(f.v, path, link)
				f.v.Round(int(hx.Int(o[1])))
				items = append(items, hx.L(state()...))
			case 6: // maintenance tick with remove_after expired
				if deleted {
					panic("harness/c06: maintenance of a deleted job")
				}
				res := c06ExpiredTick(func() int { return c06MaintenanceJob(jp, g.job) })
				if res == c06MaintResumed {
					select {
					case j := <-g.ch:
						if j != g.job {
							panic("harness/c06: another job in the channel")
						}
					default:
						panic("harness/c06: maintenance reported resumed but queued nothing")
					}
					f.v.Round(int(hx.Int(o[1])))
				} else if len(g.ch) != 0 {
					panic("harness/c06: maintenance queued a job without reporting resumed")
				}
				if res == c06MaintDeleted {
					deleted = true
				}
				_, lerr := os.Lstat(path)
				items = append(items, hx.L(append(append([]hx.Sx{hx.I(res)}, state()...), hx.Bool(lerr != nil))...))
			case 3:
				if err := wf.Truncate(hx.Int(o[1])); err != nil {
					panic(err)
				}
			case 4:
				if err := os.Rename(path, rotated); err != nil {
					panic(err)
				}
				if hx.Int(o[1]) == 1 {
					if err := os.WriteFile(path, []byte("next\n"), 0o600); err != nil {
						panic(err)
					}
				}
			default:
				panic("harness/c06: unknown history op")
			}
		}
	})
	if f != nil {
		f.close()
	}
	if msg != "" {
		items = append(items, hx.L(hx.S(msg)))
	}
	return hx.L(items...)
}

func hApp(b []byte) hx.Sx { return hx.L(hx.I(0), hx.B(b)) }
func hPass(n int) hx.Sx   { return hx.L(hx.I(1), hx.I(n)) }
func hMaint(n int) hx.Sx  { return hx.L(hx.I(2), hx.I(n)) }
func hTrunc(k int) hx.Sx  { return hx.L(hx.I(3), hx.I(k)) }
func hMove(kind int) hx.Sx {
	return hx.L(hx.I(4), hx.I(kind))
}

func c06HistCase(max int, cut bool, mode int, prefix []byte, ops []hx.Sx) hx.Sx {
	return hx.L(hx.I(max), hx.Bool(cut), hx.I(mode), hx.B(prefix), hx.L(ops...))
}

// c06GenHist: the op alphabet of the C06 histories extended by the maintenance of the job (and by what it reacts to:
// growth, truncation, rename / rotation). Every earlier stream runs passes only; maintenanceJob re-opens an idle
// file and seeks back to the saved position every maintenance_interval, between any two appends, also between the
// append that leaves an unterminated tail and the one that completes it.
func c06GenHist(c *hmain.Ctx, cfgs []c06Cfg, bufs []int, randContent func(lines, limit, long int, endNL bool) []byte,
	randCfg func() (int, bool, int)) {
	r := c.R

	// 8a. exhaustive small scope: every content over {a,\n} up to maxLen x every split into two appends x 9 placements
	//     of ticks (every position of the history "A1 pass A2 pass", ticks instead of passes) x bufsz 1..3 x 5 (max, cut)
	maxLen := 5
	if c.Tier == "thorough" {
		maxLen = 7
	}
	shapes := []string{
		"aPMbP",     // tick between the append that leaves a tail and the one that completes it
		"aPMMbP",    // twice
		"aPbM",      // the tick finds the file grown: it resumes the job
		"aPbMM",     // ... and the next one finds it idle
		"aPMbMM",    // ticks are the only readers after the first pass
		"MaMPMbMPM", // a tick at every position (the first two find the job not done)
		"aPMbPM",
		"aMPbMP",
		"aPbMPM",
	}
	n8a := 0
	var rec func(body []byte)
	rec = func(body []byte) {
		nl := bytes.IndexByte(body, '\n') >= 0
		for cutAt := 0; cutAt <= len(body); cutAt++ {
			for _, sh := range shapes {
				for bufsz := 1; bufsz <= 3; bufsz++ {
					for _, cf := range cfgs {
						var ops []hx.Sx
						for _, t := range sh {
							switch t {
							case 'a':
								ops = append(ops, hApp(body[:cutAt]))
							case 'b':
								ops = append(ops, hApp(body[cutAt:]))
							case 'P':
								ops = append(ops, hPass(bufsz))
							case 'M':
								ops = append(ops, hMaint(bufsz))
							}
						}
						n8a++
						c.Do("maint-exhaustive", 4+n8a%2, c06HistCase(cf.max, cf.cut, 0, nil, ops), nl)
					}
				}
			}
		}
		if len(body) < maxLen {
			for _, a := range []byte{'a', '\n'} {
				rec(append(body[:len(body):len(body)], a))
			}
		}
	}
	rec(nil)
	c.W.Count(fmt.Sprintf("maint-exhaustive_max_len_%d", maxLen))

	// 8b. directed grid over ALL read buffer sizes the other streams sweep: the held-back tail has a length around the
	//     buffer size and around max_event_size; ticks while it is held back; truncation (the tail must go) and
	//     rename / rotation (the job is released) in between
	for _, bufsz := range bufs {
		tls := []int{1, 7, bufsz - 1, bufsz, bufsz + 1}
		if bufsz <= 64 {
			tls = append(tls, 3*bufsz+1)
		}
		for ti, tl := range tls {
			if tl <= 0 || (ti >= 2 && tl <= 7 && tl != bufsz-1 && tl != bufsz && tl != bufsz+1) {
				continue
			}
			cs := append([]c06Cfg(nil), cfgs...)
			cs = append(cs, c06Cfg{tl + 1, false}, c06Cfg{tl + 1, true}, c06Cfg{tl + 5, false}, c06Cfg{tl + 5, true})
			head := append([]byte("h\n"), bytes.Repeat([]byte{'T'}, tl)...)
			size1 := len(head)
			for _, cf := range cs {
				for shape := 0; shape < 5; shape++ {
					var ops []hx.Sx
					switch shape {
					case 0: // the tail survives the re-open
						ops = []hx.Sx{hApp(head), hPass(bufsz), hMaint(bufsz), hApp([]byte("rest\nq")), hPass(bufsz)}
					case 1: // the tail grows across ticks; the last line is read by a tick
						ops = []hx.Sx{hApp(head), hPass(bufsz), hMaint(bufsz), hApp([]byte("x")), hPass(bufsz), hMaint(bufsz), hMaint(bufsz),
							hApp([]byte("y\n")), hMaint(bufsz), hMaint(bufsz)}
					case 2: // truncation to 0 while a tail is held back: the tick resumes the job, the pass starts over without the tail
						ops = []hx.Sx{hApp(head), hPass(bufsz), hMaint(bufsz), hTrunc(0), hMaint(bufsz), hMaint(bufsz), hApp([]byte("new\nt2")), hMaint(bufsz),
							hMaint(bufsz), hApp([]byte("\n")), hPass(bufsz)}
					case 3: // truncation below the read position but not to 0: the kept bytes are read again from 0
						ops = []hx.Sx{hApp(head), hPass(bufsz), hTrunc(size1 - 1), hPass(bufsz), hMaint(bufsz), hMaint(bufsz), hApp([]byte("\nz\n")), hMaint(bufsz)}
					default: // grown, idle, moved, grown again (still read through the open descriptor), released
						ops = []hx.Sx{hApp(head), hPass(bufsz), hApp([]byte("q")), hMaint(bufsz), hMaint(bufsz), hMove(tl % 2), hApp([]byte("z\n")), hMaint(bufsz), hMaint(bufsz)}
					}
					c.Do("maint-directed", 4+(shape+tl)%2, c06HistCase(cf.max, cf.cut, 0, nil, ops), true)
				}
			}
		}
	}
	c.W.Count("maint-directed: tail lengths 1,7,buf-1,buf,buf+1,3buf+1 x all swept read buffer sizes x max in {0,2,3,tail+1,tail+5}")

	// 8c. random histories: the random contents of stream 2 cut into appends; after each append a pass, a tick, both or
	//     nothing; extra ticks anywhere; now and then a truncation (detected by the next pass / tick before anything
	//     else is written) and, at the end, a rename / rotation with the ticks that release the job
	for i := 0; i < 1500*c.Scale; i++ {
		max, cut, long := randCfg()
		mode := 0
		var prefix []byte
		if r.Chance(1, 4) {
			prefix = randContent(r.Range(1, 3), max, 30, r.Chance(2, 3))
			if r.Chance(1, 2) {
				mode = 1
			}
		}
		b := randContent(r.Range(0, 10), max, long/2, r.Chance(2, 3))
		napp := r.Range(1, 5)
		bs := hx.Pick(r, bufs)
		if len(b) > 4000 && bs < 4 {
			bs += 3
		}
		buf := func() int {
			if r.Chance(1, 6) {
				x := hx.Pick(r, bufs)
				if len(b) > 4000 && x < 4 {
					x += 3
				}
				return x
			}
			return bs
		}
		var ops []hx.Sx
		size, pos := len(prefix), len(prefix)
		if mode == 1 && len(prefix) > 0 {
			pos--
		}
		done, moved, deleted := false, false, false
		ticks, idleTicks, truncs := 0, 0, 0
		pass := func() {
			ops = append(ops, hPass(buf()))
			if pos > size {
				pos = 0
			} else {
				pos = size
			}
			done = true
		}
		tick := func() {
			ops = append(ops, hMaint(buf()))
			ticks++
			switch {
			case !done:
			case size != pos: // resumed: a pass follows
				if pos > size {
					pos = 0
				} else {
					pos = size
				}
			case moved:
				deleted = true
			default:
				idleTicks++
			}
		}
		for k := 0; k < napp; k++ {
			n := len(b)
			if k < napp-1 {
				n = r.Intn(len(b) + 1)
			}
			ops = append(ops, hApp(b[:n]))
			size += n
			b = b[n:]
			switch r.Intn(6) {
			case 0:
				pass()
			case 1:
				tick()
			case 2:
				pass()
				tick()
			case 3:
				tick()
				pass()
				tick()
			case 4:
				pass()
				tick()
				tick()
			}
			if done && size > 0 && r.Chance(1, 8) {
				k := r.Intn(size)
				if r.Chance(1, 2) {
					k = 0
				}
				ops = append(ops, hTrunc(k))
				truncs++
				size = k
				if r.Bool() { // detection: the position is behind the end
					pass()
				} else {
					tick()
				}
				if r.Bool() {
					tick()
				}
			}
		}
		switch r.Intn(4) {
		case 0:
			pass()
		case 1:
			tick()
			tick()
		case 2:
			ops = append(ops, hMove(r.Intn(2)))
			moved = true
			if r.Bool() { // the writer still holds the renamed file
				ops = append(ops, hApp([]byte("late\nxx")))
				size += 7
			}
			if !done {
				pass()
			}
			for n := 0; n < 4 && !deleted; n++ { // a tick that has to read first releases the job one tick later
				tick()
			}
		}
		c.W.Count(fmt.Sprintf("maint-random: ticks=%d idle-ticks=%d truncations=%d", min(ticks, 4), min(idleTicks, 3), min(truncs, 2)))
		c.Do("maint-random", 4+r.Intn(2), c06HistCase(max, cut, mode, prefix, ops), ticks > 0 && len(ops) > 3)
	}
}
