package main

// Access to unexported state of the file input plugin for the multi-job sub-model (which=3).
//
// The add-only export file (plugin/input/file/verif_export_c06.go) runs worker.work with exactly ONE job in the
// channel (Round pushes job, nil). worker.work allocates accumBuf / readBuf once per call and reuses them for every
// job it takes, so buffer reuse across jobs needs SEVERAL jobs in jobProvider.jobsChan before work() is entered.
// The harness may not extend the export file, so it reaches the three things it needs through reflect + unsafe:
//
//   - jobProvider.jobsChan : jobs are queued in front of the one Round() itself queues
//   - jobProvider.jobs     : every VerifNewC06 resets it to {1: job}; doneJob panics when more jobs are done than
//                            the table holds, so the table is set to all jobs of the case
//   - Job.isDone + jobProvider.jobsDone : a job that finished a pass is done; the watcher's notification resumes it
//                            (tryResumeJobAndUnlock: isDone = false, jobsDone--, queue it). The harness performs
//                            exactly these steps for the jobs it queues itself.
//
// Nothing of worker.work is replaced: the real loop takes the jobs from the real channel.

import (
	"reflect"
	"sync"
	"unsafe"

	"github.com/ozontech/file.d/pipeline"
	filein "github.com/ozontech/file.d/plugin/input/file"
)

type c06Guts struct {
	job      *filein.Job
	jobs     *map[pipeline.SourceID]*filein.Job
	ch       chan *filein.Job
	jobsDone reflect.Value // *atomic.Int32 (go.uber.org/atomic), used through its exported methods only
}

func fieldPtr(v reflect.Value, name string) unsafe.Pointer {
	f := v.FieldByName(name)
	if !f.IsValid() {
		panic("harness/c06: field " + name + " not found in " + v.Type().String())
	}
	return unsafe.Pointer(f.UnsafeAddr())
}

func c06GutsOf(v *filein.VerifC06) c06Guts {
	dv := reflect.ValueOf(v).Elem()
	jp := dv.FieldByName("jp").Elem() // the jobProvider struct, addressable through the pointer
	return c06Guts{
		job:      *(**filein.Job)(fieldPtr(dv, "job")),
		jobs:     (*map[pipeline.SourceID]*filein.Job)(fieldPtr(jp, "jobs")),
		ch:       *(*chan *filein.Job)(fieldPtr(jp, "jobsChan")),
		jobsDone: reflect.NewAt(jp.FieldByName("jobsDone").Type(), fieldPtr(jp, "jobsDone")).Elem(),
	}
}

// queue puts the job into the provider's channel the way the provider does: a job that is not done yet is queued as
// it is (addJob); a done job is resumed first (tryResumeJobAndUnlock).
func (g c06Guts) queue() {
	jv := reflect.ValueOf(g.job).Elem()
	mu := *(**sync.Mutex)(fieldPtr(jv, "mu"))
	isDone := (*bool)(fieldPtr(jv, "isDone"))
	mu.Lock()
	if *isDone {
		*isDone = false
		if g.jobsDone.MethodByName("Dec").Call(nil)[0].Int() < 0 {
			mu.Unlock()
			panic("harness/c06: done jobs counter is less than zero")
		}
	}
	mu.Unlock()
	g.ch <- g.job
}
