package main

// Generators of round 5 (coverage): histories on jobs made by the REAL addJob (all offsets_op modes, saved offsets), the real
// write notification (truncation seen before the pass), remove_after ticks, compressed (lz4) jobs. See realjob.go.

import (
	"bytes"
	"fmt"

	"verif/harness/hmain"
	"verif/harness/hx"
)

func hNotify(n int) hx.Sx   { return hx.L(hx.I(5), hx.I(n)) }
func hMaintExp(n int) hx.Sx { return hx.L(hx.I(6), hx.I(n)) }

// mode item of a history case
func hModeSx(mode int, offs []int64) hx.Sx {
	if mode != 3 {
		return hx.I(mode)
	}
	it := []hx.Sx{hx.I(3)}
	for _, o := range offs {
		it = append(it, hx.Z(o))
	}
	return hx.L(it...)
}

func c06RealCase(max int, cut bool, mode hx.Sx, prefix []byte, ops []hx.Sx) hx.Sx {
	return hx.L(hx.I(max), hx.Bool(cut), mode, hx.B(prefix), hx.L(ops...))
}

// lineEnds returns the offsets just behind every newline of b
func lineEnds(b []byte) []int64 {
	var e []int64
	for i, x := range b {
		if x == '\n' {
			e = append(e, int64(i+1))
		}
	}
	return e
}

func c06GenReal(c *hmain.Ctx, cfgs []c06Cfg, bufs []int, randContent func(lines, limit, long int, endNL bool) []byte,
	randCfg func() (int, bool, int)) {
	r := c.R
	c06InstallLsof(c)
	c06LsofOracle(c)
	c06Lz4Oracle(c)

	// the start modes of a file whose content at the start is pre: reset, after-start, tail, not listed, every line end as
	// the (minimum) saved offset, two streams, an offset in the middle of a line, one behind the end (the file shrank
	// while file.d was down)
	modesFor := func(pre []byte, all bool) []hx.Sx {
		ms := []hx.Sx{hModeSx(2, nil), hModeSx(5, nil), hModeSx(4, nil), hModeSx(3, nil), hModeSx(6, nil)}
		ends := lineEnds(pre)
		for i, e := range ends {
			if all || i == len(ends)-1 {
				ms = append(ms, hModeSx(3, []int64{e}))
			}
		}
		if len(ends) >= 2 {
			ms = append(ms, hModeSx(3, []int64{ends[len(ends)-1], ends[0]}))
		}
		if len(pre) >= 2 && pre[0] != '\n' {
			ms = append(ms, hModeSx(3, []int64{1})) // inside the first line
		}
		ms = append(ms, hModeSx(3, []int64{int64(len(pre)) + 2}))
		return ms
	}

	// 9a. exhaustive small scope: every content over {a,\n} up to maxLen x every split into what is there when the job is
	//     added and what is appended later x every start mode x 6 shapes of passes / write notifications / ticks
	maxLen := 4
	if c.Tier == "thorough" {
		maxLen = 6
	}
	shapes := []string{"PbN", "NbN", "bN", "PbMN", "NMbM", "PbP"}
	n9 := 0
	var rec func(body []byte)
	rec = func(body []byte) {
		nl := bytes.IndexByte(body, '\n') >= 0
		for cutAt := 0; cutAt <= len(body); cutAt++ {
			pre, rest := body[:cutAt], body[cutAt:]
			for _, md := range modesFor(pre, true) {
				for _, sh := range shapes {
					n9++
					bufsz := 1 + n9%3
					cf := cfgs[(n9/3)%len(cfgs)]
					var ops []hx.Sx
					for _, t := range sh {
						switch t {
						case 'b':
							ops = append(ops, hApp(rest))
						case 'P':
							ops = append(ops, hPass(bufsz))
						case 'N':
							ops = append(ops, hNotify(bufsz))
						case 'M':
							ops = append(ops, hMaint(bufsz))
						}
					}
					c.Do("real-exhaustive", 4+n9%2, c06RealCase(cf.max, cf.cut, md, pre, ops), nl)
				}
			}
		}
		if len(body) < maxLen {
			for _, a := range []byte{'a', '\n'} {
				rec(append(body[:len(body):len(body)], a))
			}
		}
	}
	rec(nil)
	c.W.Count(fmt.Sprintf("real-exhaustive_max_len_%d", maxLen))

	// 9b. truncation seen by the WRITE NOTIFICATION (checkFileWasTruncated -> truncateJob before the pass), directed over all
	//     swept read buffer sizes: a tail of a length around the buffer is held back, the file is cut to 0 / 1 / size-1 bytes
	//     (and partly re-grown, still below the read position), the notification restarts the job and reads in one step
	for _, bufsz := range bufs {
		for _, tl := range []int{1, bufsz - 1, bufsz, bufsz + 1} {
			if tl <= 0 {
				continue
			}
			cs := append([]c06Cfg(nil), cfgs...)
			cs = append(cs, c06Cfg{tl + 1, false}, c06Cfg{tl + 1, true})
			head := append([]byte("h\n"), bytes.Repeat([]byte{'T'}, tl)...)
			for ci, cf := range cs {
				for shape := 0; shape < 4; shape++ {
					var ops []hx.Sx
					switch shape {
					case 0: // cut to 0, new content (shorter than what was read), the notification reads it whole
						ops = []hx.Sx{hPass(bufsz), hTrunc(0), hApp([]byte("n\n")), hNotify(bufsz), hApp([]byte("t2\nu")), hNotify(bufsz)}
					case 1: // cut inside the old content: the kept bytes are read again from 0 by the notification
						ops = []hx.Sx{hNotify(bufsz), hTrunc(len(head) - 1), hNotify(bufsz), hMaint(bufsz), hApp([]byte("\nz\n")), hMaint(bufsz)}
					case 2: // cut to 1 byte while a tick had re-opened the file
						ops = []hx.Sx{hPass(bufsz), hMaint(bufsz), hTrunc(1), hNotify(bufsz), hApp([]byte("x\n")), hPass(bufsz)}
					default: // empty file after the cut: the notification finds nothing, the next one the new line
						ops = []hx.Sx{hNotify(bufsz), hTrunc(0), hNotify(bufsz), hNotify(bufsz), hApp([]byte("k\n")), hNotify(bufsz)}
					}
					md := hModeSx([]int{2, 5, 6}[(ci+shape)%3], nil)
					c.Do("real-notify-truncate", 4+(shape+tl)%2, c06RealCase(cf.max, cf.cut, md, head, ops), true)
				}
			}
		}
	}
	c.W.Count("real-notify-truncate: tail lengths 1,buf-1,buf,buf+1 x all swept read buffer sizes x cut to 0 / 1 / size-1")

	// 9c. random histories on real jobs: the random contents of stream 2, a random start mode (saved offsets at line ends,
	//     inside a line, behind the end), passes and write notifications mixed, ticks anywhere, truncations seen by a
	//     notification, a pass or a tick
	for i := 0; i < 1000*c.Scale; i++ {
		max, cut, long := randCfg()
		pre := randContent(r.Range(0, 4), max, 40, r.Chance(2, 3))
		ms := modesFor(pre, true)
		md := ms[r.Intn(len(ms))]
		if r.Chance(1, 6) && len(pre) > 0 {
			md = hModeSx(3, []int64{int64(r.Intn(len(pre) + 1)), int64(r.Intn(len(pre) + 1))}) // anywhere
		}
		b := randContent(r.Range(0, 8), max, long/2, r.Chance(2, 3))
		bs := hx.Pick(r, bufs)
		if len(b) > 4000 && bs < 4 {
			bs += 3
		}
		var ops []hx.Sx
		napp := r.Range(1, 4)
		notes, truncs := 0, 0
		read := func() {
			switch r.Intn(4) {
			case 0:
				ops = append(ops, hPass(bs))
			case 1:
				ops = append(ops, hMaint(bs))
			default:
				ops = append(ops, hNotify(bs))
				notes++
			}
		}
		read() // the first pass: from the start offset of the mode (detects a saved offset behind the end)
		size := len(pre)
		for k := 0; k < napp; k++ {
			n := len(b)
			if k < napp-1 {
				n = r.Intn(len(b) + 1)
			}
			ops = append(ops, hApp(b[:n]))
			size += n
			b = b[n:]
			read()
			if r.Chance(1, 3) {
				ops = append(ops, hMaint(bs))
			}
			if size > 0 && r.Chance(1, 6) { // everything was read: a cut below the position is visible to the next reader
				k := r.Intn(size)
				if r.Chance(1, 2) {
					k = 0
				}
				ops = append(ops, hTrunc(k))
				size = k
				truncs++
				ops = append(ops, hNotify(bs))
				notes++
			}
		}
		c.W.Count(fmt.Sprintf("real-random: write notifications=%d truncations=%d", min(notes, 4), min(truncs, 2)))
		c.Do("real-random", 4+r.Intn(2), c06RealCase(max, cut, md, pre, ops), len(ops) > 2)
	}

	// 9d. remove_after: the expired tick on a job that is not done (left alone), on a grown file (read first), on an idle job
	//     with and without a held-back tail (deleted, file removed), after ordinary ticks; both kinds of job
	for _, bufsz := range []int{1, 2, 3, 8, 64} {
		for _, cf := range append(append([]c06Cfg(nil), cfgs...), c06Cfg{5, false}, c06Cfg{5, true}) {
			for tl := 0; tl <= 7; tl += 1 + tl/2 {
				head := append([]byte("h\n"), bytes.Repeat([]byte{'T'}, tl)...)
				for shape := 0; shape < 4; shape++ {
					var ops []hx.Sx
					switch shape {
					case 0:
						ops = []hx.Sx{hApp(head), hPass(bufsz), hMaint(bufsz), hMaintExp(bufsz)}
					case 1:
						ops = []hx.Sx{hApp(head), hMaintExp(bufsz), hPass(bufsz), hApp([]byte("q\nr")), hMaintExp(bufsz), hMaintExp(bufsz)}
					case 2:
						ops = []hx.Sx{hApp(head), hPass(bufsz), hTrunc(1), hMaintExp(bufsz), hMaintExp(bufsz)}
					default:
						ops = []hx.Sx{hMaintExp(bufsz), hPass(bufsz), hApp(head), hMaint(bufsz), hMaint(bufsz), hMaintExp(bufsz)}
					}
					md := hx.I(0)
					if (shape+tl)%2 == 1 {
						md = hModeSx(2, nil)
					}
					c.Do("remove-after", 4+(shape+tl+bufsz)%2, c06RealCase(cf.max, cf.cut, md, nil, ops), true)
				}
			}
		}
	}
	c.W.Count("remove-after: expired tick on a job not done / grown / truncated / idle with a held-back tail of 0..7 bytes")

	// 10. compressed jobs (which 6 | 7). lsof scenario (realjob.go) 0 = no lsof in PATH (no fork), 1 = the stub reports readers
	//     only, 2 = a writer holds the file (not read, the job is done), 3 = lsof finds nobody, 4 = readers only and a path
	//     with the letter w, 5 = a writer, then a write notification and a pass without the writer, 6 = a writer, then a
	//     maintenance tick (resumes the job: /repo fix d780bcb) and the pass, 7 = as 6 with remove_after expired. Every
	//     stream takes every scenario.
	//     10a. exhaustive small scope: every content over {a,\n} up to zLen x every split into two frames x read buffer 1..3 x
	//          saved offsets: none, every line end, two streams, behind the end
	zLen := 4
	if c.Tier == "thorough" {
		zLen = 6
	}
	nz := 0
	zScen := []int{0, 1, 2, 3, 4, 5, 6, 7}
	zcase := func(max int, cut bool, offs []int64, frames [][]byte, bufsz, lsof int) hx.Sx {
		os := make([]hx.Sx, len(offs))
		for i, o := range offs {
			os[i] = hx.Z(o)
		}
		fs := make([]hx.Sx, len(frames))
		for i, f := range frames {
			fs[i] = hx.B(f)
		}
		return hx.L(hx.I(max), hx.Bool(cut), hx.L(os...), hx.L(fs...), hx.I(bufsz), hx.I(lsof))
	}
	var zrec func(body []byte)
	zrec = func(body []byte) {
		ends := lineEnds(body)
		offsets := [][]int64{nil, {int64(len(body)) + 3}}
		for _, e := range ends {
			offsets = append(offsets, []int64{e})
		}
		if len(ends) >= 2 {
			offsets = append(offsets, []int64{ends[len(ends)-1], ends[0]})
		}
		for cutAt := 0; cutAt <= len(body); cutAt++ {
			for _, offs := range offsets {
				for bufsz := 1; bufsz <= 3; bufsz++ {
					nz++
					cf := cfgs[nz%len(cfgs)]
					lsof := zScen[(nz/3)%len(zScen)]
					c.W.Count(fmt.Sprintf("lz4-exhaustive: lsof=%d", lsof))
					c.Do("lz4-exhaustive", 6+nz%2, zcase(cf.max, cf.cut, offs, [][]byte{body[:cutAt], body[cutAt:]}, bufsz, lsof), len(ends) > 0 && lsof != 2)
				}
			}
		}
		if len(body) < zLen {
			for _, a := range []byte{'a', '\n'} {
				zrec(append(body[:len(body):len(body)], a))
			}
		}
	}
	zrec(nil)
	c.W.Count(fmt.Sprintf("lz4-exhaustive_max_len_%d", zLen))
	//     10b. random: the random contents of stream 2 in 1..3 frames, all swept read buffer sizes, saved offsets at line ends
	//          (1..2 streams) so that the skip loop runs 0..many times and stops 0..buf-1 bytes before the offset
	for i := 0; i < 500*c.Scale; i++ {
		max, cut, long := randCfg()
		b := randContent(r.Range(1, 10), max, long/2, r.Chance(2, 3))
		ends := lineEnds(b)
		var offs []int64
		switch {
		case len(ends) == 0 || r.Chance(1, 5):
		case r.Chance(1, 8):
			offs = []int64{int64(len(b)) + int64(r.Range(1, 100))}
		default:
			offs = []int64{ends[r.Intn(len(ends))]}
			if r.Chance(1, 3) {
				offs = append(offs, ends[r.Intn(len(ends))])
			}
		}
		var frames [][]byte
		rest := b
		for k := r.Range(1, 3); k > 1; k-- {
			n := r.Intn(len(rest) + 1)
			frames = append(frames, rest[:n])
			rest = rest[n:]
		}
		frames = append(frames, rest)
		bs := hx.Pick(r, bufs)
		if len(b) > 4000 && bs < 4 {
			bs += 3
		}
		lsof := hx.Pick(r, zScen)
		skips := 0
		if len(offs) > 0 {
			m := offs[0]
			for _, o := range offs {
				m = min(m, o)
			}
			skips = int(m) / bs
		}
		c.W.Count(fmt.Sprintf("lz4-random: saved streams=%d skipped buffers>=%d", len(offs), min(skips/4*4, 8)))
		c.W.Count(fmt.Sprintf("lz4-random: lsof=%d", lsof))
		c.Do("lz4-random", 6+r.Intn(2), zcase(max, cut, offs, frames, bs, lsof), len(ends) > 0 && lsof != 2)
	}

	//     10c. REPAIRED DEFECT C06-lz4-being-written (notes/finding-C06-lz4-being-written.md, /repo fix 353d84e): nobody writes
	//          to the lz4 file (lsof reports file.d's own read descriptor only) but its path contains the letter w:
	//          isNotFileBeingWritten took ANY w in the lsof answer for write access and worker.work left its jobs loop (break):
	//          nothing of the file was ever delivered and the worker was gone. Only the FD column counts now; a file that
	//          really is being written (scenarios 2, 5, 6, 7) is marked done and read after the next write notification or
	//          maintenance tick.
	for _, bufsz := range []int{1, 3, 64} {
		for ci, cf := range cfgs {
			frames := [][]byte{[]byte("ab\nc"), []byte("d\n\nefg")}
			c.Do("lz4-path-with-w", 6+ci%2, zcase(cf.max, cf.cut, nil, frames, bufsz, 4), true)
			for _, lsof := range []int{2, 5, 6} {
				c.Do("lz4-being-written", 6+ci%2, zcase(cf.max, cf.cut, nil, frames, bufsz, lsof), lsof != 2)
				c.Do("lz4-being-written", 6+ci%2, zcase(cf.max, cf.cut, []int64{3}, frames, bufsz, lsof), lsof != 2)
			}
		}
	}
	//     10d. REPAIRED DEFECT C06-lz4-being-written-removed-unread (notes/finding-C06-lz4-being-written-followup.md, /repo fix
	//          d780bcb): the job of an lz4 file that was being written is done with nothing read; maintenanceJob never resumed
	//          a compressed job, and with remove_after set its zero EOF time stamp got the unread file removed by the next
	//          tick (scenario 7). The tick resumes such a job now: the file is read, not removed.
	for _, bufsz := range []int{1, 3, 64} {
		for ci, cf := range cfgs {
			c.Do("lz4-being-written-removed", 6+ci%2, zcase(cf.max, cf.cut, nil, [][]byte{[]byte("ab\nc"), []byte("d\n\nefg")}, bufsz, 7), true)
			c.Do("lz4-being-written-removed", 6+ci%2, zcase(cf.max, cf.cut, []int64{3}, [][]byte{[]byte("ab\nc"), []byte("d\n\nefg")}, bufsz, 7), true)
		}
	}
}
