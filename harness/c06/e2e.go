package main

// C06 — end to end (which = 8): the REAL Pipeline.In of a started pipeline behind the real worker.work.
//
// Every other sub-model stops at the arguments of In and applies checkInputBytes through the export wrapper. Here the
// recording inputer of the driver passes (offset, data) on to Pipeline.In itself (public API: pipeline.New, SetInput,
// SetOutput, Start, In, NewOffsets): checkInputBytes inside In, the raw decoder, event.Offset = offsets.current, the stream
// of the source, a processor, the output. The output plugin records what arrives: (event.Offset, message, cut-off flag).
// data is the worker's own buffer, un-copied, exactly what In gets in production.
//
//	case = a which-0/1 case (main.go);  obs = (((event ...) curOffset filePos #tail shouldSkip) ...), event = (offset #message cut)
//
// One pipeline (its goroutines) per (max_event_size, cut_off) setting is started on first use and kept; the generators
// use a fixed small set of settings. After every pass the driver waits until the output has seen as many events as In
// accepted (In's return value != EventSeqIDError): nothing else is in flight, the order is the stream's order.

import (
	"bytes"
	"fmt"
	"sync"
	"time"

	"github.com/ozontech/file.d/pipeline"
	"github.com/prometheus/client_golang/prometheus"
	"go.uber.org/zap"

	"verif/harness/hmain"
	"verif/harness/hx"
)

type c06In struct{}

func (c06In) Start(pipeline.AnyConfig, *pipeline.InputPluginParams) {}
func (c06In) Stop()                                                 {}
func (c06In) Commit(*pipeline.Event)                                {}
func (c06In) PassEvent(*pipeline.Event) bool                        { return true }

type c06Out struct {
	mu   sync.Mutex
	got  []hx.Sx
	n    int
	ctl  pipeline.OutputPluginController
	flag string
}

func (o *c06Out) Start(_ pipeline.AnyConfig, p *pipeline.OutputPluginParams) { o.ctl = p.Controller }
func (o *c06Out) Stop()                                                      {}
func (o *c06Out) Out(e *pipeline.Event) {
	msg := []byte(nil)
	if n := e.Root.Dig("message"); n != nil {
		msg = append(msg, n.AsBytes()...)
	}
	cut := false
	if n := e.Root.Dig(o.flag); n != nil {
		cut = n.AsBool()
	}
	o.mu.Lock()
	o.got = append(o.got, hx.L(hx.Z(e.Offset), hx.B(msg), hx.Bool(cut)))
	o.n++
	o.mu.Unlock()
	o.ctl.Commit(e)
}

type c06E2E struct {
	p   *pipeline.Pipeline
	out *c06Out
}

var c06E2Es = map[[2]int]*c06E2E{}

func c06E2EPipe(max int, cut bool) *c06E2E {
	k := [2]int{max, 0}
	if cut {
		k[1] = 1
	}
	if e := c06E2Es[k]; e != nil {
		return e
	}
	if len(c06E2Es) >= 24 {
		panic("harness/c06: too many end-to-end pipelines (the generators use a fixed set of settings)")
	}
	settings := &pipeline.Settings{
		Capacity: 64, MaintenanceInterval: time.Hour, EventTimeout: time.Hour,
		Antispam: pipeline.AntispamSettings{Threshold: -1}, AvgEventSize: 64, MetaCacheSize: 8, StreamField: "stream", Decoder: "raw",
		Metric:       &pipeline.MetricSettings{HoldDuration: time.Minute, MaxLabelValueLength: 100},
		MaxEventSize: max, CutOffEventByLimit: cut, CutOffEventByLimitField: "cut_flag",
	}
	p := pipeline.New(fmt.Sprintf("c06e2e_%d_%d", k[0], k[1]), settings, prometheus.NewRegistry(), zap.NewNop())
	p.DisableParallelism()
	out := &c06Out{flag: "cut_flag"}
	p.SetInput(&pipeline.InputPluginInfo{
		PluginStaticInfo:  &pipeline.PluginStaticInfo{Type: "verifin"},
		PluginRuntimeInfo: &pipeline.PluginRuntimeInfo{Plugin: c06In{}},
	})
	p.SetOutput(&pipeline.OutputPluginInfo{
		PluginStaticInfo:  &pipeline.PluginStaticInfo{Type: "verifout"},
		PluginRuntimeInfo: &pipeline.PluginRuntimeInfo{Plugin: out},
	})
	p.Start()
	e := &c06E2E{p: p, out: out}
	c06E2Es[k] = e
	return e
}

func c06ExecE2E(cs hx.Sx) hx.Sx {
	it := hx.Items(cs)
	e := c06E2EPipe(int(hx.Int(it[0])), hx.Truth(it[1]))
	e.out.mu.Lock()
	e.out.got, e.out.n = nil, 0
	e.out.mu.Unlock()
	accepted := 0
	var f *c06File
	var passes []hx.Sx
	msg := hx.Catch(func() {
		var err error
		f, err = c06Open("e.log", 0, cs, func(_ *c06File, off int64, data []byte) {
			if seq := e.p.In(1, "e.log", pipeline.NewOffsets(off, nil), data, false, nil); seq != pipeline.EventSeqIDError {
				accepted++
			}
		})
		if err != nil {
			panic(err)
		}
		for f.next < len(f.rounds) {
			bufsz, err := f.appendNext()
			if err != nil {
				panic(err)
			}
			f.v.Round(bufsz)
			deadline := time.Now().Add(5 * time.Second)
			for {
				e.out.mu.Lock()
				n := e.out.n
				e.out.mu.Unlock()
				if n >= accepted {
					break
				}
				if time.Now().After(deadline) {
					panic(fmt.Sprintf("harness/c06: the output saw %d of %d accepted events", n, accepted))
				}
				time.Sleep(20 * time.Microsecond)
			}
			e.out.mu.Lock()
			evs := e.out.got
			e.out.got = nil
			e.out.mu.Unlock()
			cur, tail, skip, pos := f.v.State()
			passes = append(passes, hx.L(hx.L(evs...), hx.Z(cur), hx.Z(pos), hx.B(tail), hx.Bool(skip)))
		}
	})
	if f != nil {
		f.close()
	}
	if msg != "" {
		passes = append(passes, hx.L(hx.S(msg)))
	}
	return hx.L(passes...)
}

// c06GenE2E: exhaustive small scope over {a,b,\n} up to eLen x every split into two appends x read buffer 1..3 x the 5
// (max, cut_off) settings; random long-line files on a fixed set of settings; resume offsets; tail mode
func c06GenE2E(c *hmain.Ctx, cfgs []c06Cfg, bufs []int, randContent func(lines, limit, long int, endNL bool) []byte) {
	r := c.R
	eLen := 4
	if c.Tier == "thorough" {
		eLen = 6
	}
	var rec func(body []byte)
	rec = func(body []byte) {
		nl := bytes.IndexByte(body, '\n') >= 0
		for cutAt := 0; cutAt <= len(body); cutAt++ {
			for bufsz := 1; bufsz <= 3; bufsz++ {
				for _, cf := range cfgs {
					rs := []hx.Sx{c06Round(body[:cutAt], bufsz), c06Round(body[cutAt:], bufsz)}
					c.Do("e2e-exhaustive", 8, c06Case(cf.max, cf.cut, 0, nil, rs), nl)
				}
			}
		}
		if len(body) < eLen {
			for _, a := range []byte{'a', 'b', '\n'} {
				rec(append(body[:len(body):len(body)], a))
			}
		}
	}
	rec(nil)
	c.W.Count(fmt.Sprintf("e2e-exhaustive_max_len_%d", eLen))
	set := append(append([]c06Cfg(nil), cfgs...), c06Cfg{17, false}, c06Cfg{17, true}, c06Cfg{120, false}, c06Cfg{120, true})
	for i := 0; i < 600*c.Scale; i++ {
		cf := hx.Pick(r, set)
		long := 3000
		if cf.max > 0 && cf.max < 100 {
			long = 20 * cf.max
		}
		mode := 0
		var prefix []byte
		if r.Chance(1, 3) {
			prefix = randContent(r.Range(1, 3), cf.max, 40, r.Chance(2, 3))
			if r.Chance(1, 3) {
				mode = 1
			}
		}
		b := randContent(r.Range(0, 10), cf.max, long, r.Chance(2, 3))
		var rs []hx.Sx
		for n := r.Range(1, 4); n > 0; n-- {
			k := len(b)
			if n > 1 {
				k = r.Intn(len(b) + 1)
			}
			bs := hx.Pick(r, bufs)
			if len(b) > 4000 && bs < 4 {
				bs += 3
			}
			rs = append(rs, c06Round(b[:k], bs))
			b = b[k:]
		}
		c.Do("e2e-random", 8, c06Case(cf.max, cf.cut, mode, prefix, rs), len(rs) >= 2)
	}
}
