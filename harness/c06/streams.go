package main

// C06 — end to end with STREAMS (which = 9 plain file, which = 10 lz4 file): a job resumed from the saved offsets of several
// streams, the real worker.work, the real Pipeline.In and the REAL file input Plugin as the pipeline's input plugin, so that
// Plugin.PassEvent (plugin/input/file/file.go: "was this line delivered and committed before the restart?") and Plugin.Commit
// (jobProvider.commit: the saved offset of the event's stream moves on) decide and act as in production.
//
// Why: a file whose lines belong to several streams (the stream field of the decoded event: k8s stdout / stderr) is resumed
// at the SMALLEST saved stream offset; every line between that one and the saved offset of its own stream is read again and
// has to be recognised as delivered - exactly the lines of stream s that end at or before saved(s), the equality included
// (the last committed line of the stream). An lz4 file cannot be seeked and is re-read from a read buffer boundary in front
// of the smallest saved offset. No other C06 sub-model has a second stream or the real PassEvent (which 8 uses an input
// plugin that says yes and one stream).
//
//	which 9:  case = (fmt thr max cut ((#stream off) ...) #pre ((#append bufsz) ...))
//	          obs  = (((event ...) ordered curOffset filePos #tail shouldSkip) ...)        one item per pass
//	which 10: case = (fmt thr max cut ((#stream off) ...) (#frame ...) bufsz lsof)      lsof = 0 | 1 (realjob.go)
//	          obs  = ((event ...) ordered curOffset #tail shouldSkip done)
//	fmt 0 = json decoder, 1 = cri decoder (pipeline settings; stream_field = "stream"); thr 1 = antispam on with a
//	threshold nobody reaches: Pipeline.In then takes its own "already processed" short-cut for CRI rows
//	(offsets.ByStream(row.Stream) against the copy of job.offsets the worker took when the pass began);
//	(#stream off) ... = what the offsets file of the previous run lists for the file (empty: the file is not listed);
//	#pre = what the file holds when the job is added (real addJob, offsets_op continue, start phase);
//	event = (offset #stream #payload): event.Offset, the event's stream name, the field m (json) / log (cri);
//	the events of a pass are sorted by offset (the order in which events of DIFFERENT streams reach the output depends
//	on the scheduling of the processor); ordered = every stream's events arrived in the order of their offsets.
//	A panic of Commit ("offset corruption": an event committed at or below the saved offset of its stream) is appended to
//	the pass as (#message).
//
// The worker is run synchronously, one pass per call, as in the export driver's Round - but with the REAL *pipeline.Pipeline
// as its controller: (*worker).work is reached by its link name (its inputer parameter is an unexported interface type; the
// harness declares an interface with the same three methods, so the method table has the same layout), the worker itself
// passes job.sourceID, the source name, NewOffsets(lastOffset+scanned, copy of job.offsets), its own buffer and isVirgin.
// The Plugin is not started (Start would need a watcher and worker goroutines): the harness wraps it (embedding: PassEvent
// and Commit are the Plugin's own methods, Start / Stop do nothing, PassEvent counts the events that passed so that the
// driver can wait for them at the output) and sets its two fields PassEvent / Commit use - jobProvider (the shared provider
// of the export driver, whose job table holds the job the real addJob made) and the skipped-events counter - through
// reflect + unsafe.

import (
	"fmt"
	"os"
	"path/filepath"
	"reflect"
	"sort"
	"sync"
	"time"
	"unsafe"

	"github.com/ozontech/file.d/logger"
	"github.com/ozontech/file.d/metric"
	"github.com/ozontech/file.d/pipeline"
	"github.com/ozontech/file.d/pipeline/metadata"
	filein "github.com/ozontech/file.d/plugin/input/file"
	"github.com/prometheus/client_golang/prometheus"
	"go.uber.org/zap"
	"go.uber.org/zap/zapcore"

	"verif/harness/hmain"
	"verif/harness/hx"
)

// the method set of plugin/input/file.inputer
type c06Inputer interface {
	In(sourceID pipeline.SourceID, sourceName string, offset pipeline.Offsets, data []byte, isNewSource bool, meta metadata.MetaData) uint64
	IncReadOps()
	IncMaxEventSizeExceeded(lvs ...string)
}

//go:linkname c06Work github.com/ozontech/file.d/plugin/input/file.(*worker).work
func c06Work(w unsafe.Pointer, controller c06Inputer, jp unsafe.Pointer, readBufferSize int, lg *zap.SugaredLogger)

// c06FileIn = the real Plugin as an input plugin that is not started
type c06FileIn struct {
	*filein.Plugin
	mu     sync.Mutex
	passed int
	panics []string
}

// Commit = the Plugin's Commit; its panic ("offset corruption") is recorded instead of unwinding Pipeline.finalize, which
// would leave the stream of the event blocked for the cases that follow
func (w *c06FileIn) Commit(e *pipeline.Event) {
	if msg := hx.Catch(func() { w.Plugin.Commit(e) }); msg != "" {
		w.mu.Lock()
		w.panics = append(w.panics, msg)
		w.mu.Unlock()
	}
}

func (w *c06FileIn) Start(pipeline.AnyConfig, *pipeline.InputPluginParams) {}
func (w *c06FileIn) Stop()                                                 {}
func (w *c06FileIn) PassEvent(e *pipeline.Event) bool {
	ok := w.Plugin.PassEvent(e)
	if ok {
		w.mu.Lock()
		w.passed++
		w.mu.Unlock()
	}
	return ok
}

type c06SEvent struct {
	off     int64
	stream  []byte
	payload []byte
}

type c06SOut struct {
	mu      sync.Mutex
	got     []c06SEvent
	n       int
	ctl     pipeline.OutputPluginController
	payload string
}

func (o *c06SOut) Start(_ pipeline.AnyConfig, p *pipeline.OutputPluginParams) { o.ctl = p.Controller }
func (o *c06SOut) Stop()                                                      {}
func (o *c06SOut) Out(e *pipeline.Event) {
	ev := c06SEvent{off: e.Offset, stream: append([]byte(nil), e.StreamNameBytes()...)}
	if n := e.Root.Dig(o.payload); n != nil {
		ev.payload = append(ev.payload, n.AsBytes()...)
	}
	o.mu.Lock()
	o.got = append(o.got, ev)
	o.mu.Unlock()
	o.ctl.Commit(e)
	o.mu.Lock()
	o.n++
	o.mu.Unlock()
}

type c06SPipe struct {
	p   *pipeline.Pipeline
	in  *c06FileIn
	out *c06SOut
}

var (
	c06SPipes     = map[[4]int]*c06SPipe{}
	c06SPipesMade int
	c06SMetricCtl *metric.Ctl
	c06SQuiet     bool
)

func c06SKey(format int, thr bool, max int, cut bool) [4]int {
	k := [4]int{format, 0, max, 0}
	if thr {
		k[1] = 1
	}
	if cut {
		k[3] = 1
	}
	return k
}

func c06SPipeFor(k [4]int, jp unsafe.Pointer) *c06SPipe {
	if e := c06SPipes[k]; e != nil {
		return e
	}
	if !c06SQuiet { // Pipeline.Error (an undecodable line) goes to the process-wide logger
		logger.Level.SetLevel(zapcore.FatalLevel)
		c06SQuiet = true
	}
	if c06SPipesMade >= 100 {
		panic("harness/c06: too many pipelines of the streams sub-model (the generators use a fixed set of settings)")
	}
	c06SPipesMade++
	thr := -1
	if k[1] == 1 {
		thr = 1 << 30
	}
	dec, payload := "json", "m"
	if k[0] == 1 {
		dec, payload = "cri", "log"
	}
	settings := &pipeline.Settings{
		Capacity: 64, MaintenanceInterval: time.Hour, EventTimeout: time.Hour,
		Antispam:     pipeline.AntispamSettings{Threshold: thr, MaintenanceInterval: time.Hour},
		AvgEventSize: 64, MetaCacheSize: 8, StreamField: "stream", Decoder: dec,
		Metric:       &pipeline.MetricSettings{HoldDuration: time.Minute, MaxLabelValueLength: 100},
		MaxEventSize: k[2], CutOffEventByLimit: k[3] == 1, CutOffEventByLimitField: "cut_flag",
	}
	p := pipeline.New(fmt.Sprintf("c06s_%d_%d_%d_%d_%d", k[0], k[1], k[2], k[3], c06SPipesMade), settings, prometheus.NewRegistry(), zap.NewNop())
	p.DisableParallelism()
	if c06SMetricCtl == nil {
		c06SMetricCtl = metric.NewCtl("verif_c06s", prometheus.NewRegistry(), 0, 0)
	}
	pl := &filein.Plugin{}
	pv := reflect.ValueOf(pl).Elem()
	*(*unsafe.Pointer)(fieldPtr(pv, "jobProvider")) = jp
	*(**metric.Counter)(fieldPtr(pv, "alreadyWrittenEventsSkippedMetric")) = c06SMetricCtl.RegisterCounter(fmt.Sprintf("skipped_%d", c06SPipesMade), "verif")
	in := &c06FileIn{Plugin: pl}
	out := &c06SOut{payload: payload}
	p.SetInput(&pipeline.InputPluginInfo{
		PluginStaticInfo:  &pipeline.PluginStaticInfo{Type: "file"},
		PluginRuntimeInfo: &pipeline.PluginRuntimeInfo{Plugin: in},
	})
	p.SetOutput(&pipeline.OutputPluginInfo{
		PluginStaticInfo:  &pipeline.PluginStaticInfo{Type: "verifout"},
		PluginRuntimeInfo: &pipeline.PluginRuntimeInfo{Plugin: out},
	})
	p.Start()
	e := &c06SPipe{p: p, in: in, out: out}
	c06SPipes[k] = e
	return e
}

// pass = one call of the real worker.work on the job of v with the real pipeline as its controller (what VerifC06.Round
// does with the recording inputer), then the wait for everything PassEvent let through; returns the pass observable items
// (events) ordered
func (e *c06SPipe) pass(v *filein.VerifC06, bufsz int) []hx.Sx {
	e.out.mu.Lock()
	e.out.got, e.out.n = nil, 0
	e.out.mu.Unlock()
	e.in.mu.Lock()
	e.in.passed, e.in.panics = 0, nil
	e.in.mu.Unlock()
	g := c06GutsOf(v)
	dv := reflect.ValueOf(v).Elem()
	g.queue()
	g.ch <- nil
	c06Work(dv.FieldByName("w").UnsafePointer(), e.p, dv.FieldByName("jp").UnsafePointer(), bufsz, *(**zap.SugaredLogger)(fieldPtr(dv, "logger")))
	e.in.mu.Lock()
	want := e.in.passed
	e.in.mu.Unlock()
	deadline := time.Now().Add(5 * time.Second)
	for {
		e.out.mu.Lock()
		n := e.out.n
		e.out.mu.Unlock()
		if n >= want {
			break
		}
		if time.Now().After(deadline) {
			panic(fmt.Sprintf("harness/c06: the output saw %d of the %d events PassEvent let through", n, want))
		}
		time.Sleep(20 * time.Microsecond)
	}
	e.out.mu.Lock()
	got := e.out.got
	e.out.got = nil
	e.out.mu.Unlock()
	e.in.mu.Lock()
	panics := e.in.panics
	e.in.mu.Unlock()
	ordered := true
	last := map[string]int64{}
	for _, ev := range got {
		if o, has := last[string(ev.stream)]; has && o >= ev.off {
			ordered = false
		}
		last[string(ev.stream)] = ev.off
	}
	sort.SliceStable(got, func(i, j int) bool { return got[i].off < got[j].off })
	evs := make([]hx.Sx, 0, len(got)+len(panics))
	for _, ev := range got {
		evs = append(evs, hx.L(hx.Z(ev.off), hx.B(ev.stream), hx.B(ev.payload)))
	}
	for _, m := range panics {
		evs = append(evs, hx.L(hx.S(m)))
	}
	return []hx.Sx{hx.L(evs...), hx.Bool(ordered)}
}

type c06SCase struct {
	key   [4]int
	names []string
	offs  []int64
}

func c06SHead(it []hx.Sx) c06SCase {
	k := c06SCase{key: c06SKey(int(hx.Int(it[0])), hx.Truth(it[1]), int(hx.Int(it[2])), hx.Truth(it[3]))}
	for _, s := range hx.Items(it[4]) {
		si := hx.Items(s)
		k.names = append(k.names, hx.Str(si[0]))
		k.offs = append(k.offs, hx.Int(si[1]))
	}
	return k
}

// c06RealJobNamed = c06RealJobStamp with the stream names of the case
func c06RealJobNamed(v *filein.VerifC06, path string, names []string, offs []int64) {
	c06StreamNames = names
	defer func() { c06StreamNames = nil }()
	if len(names) == 0 {
		offs = nil
	}
	c06RealJobStamp(v, path, "", c06OpContinue, false, offs, -1)
}

func c06ExecStreams(cs hx.Sx) hx.Sx {
	it := hx.Items(cs)
	k := c06SHead(it)
	pre := hx.Bytes(it[5])
	rounds := hx.Items(it[6])
	path := filepath.Join(c06TempDir(), "s.log")
	var f *c06File
	var passes []hx.Sx
	var e *c06SPipe
	msg := hx.Catch(func() {
		wf, err := os.OpenFile(path, os.O_CREATE|os.O_TRUNC|os.O_WRONLY|os.O_APPEND, 0o600)
		if err != nil {
			panic(err)
		}
		f = &c06File{wf: wf}
		if _, err := wf.Write(pre); err != nil {
			panic(err)
		}
		f.v, err = filein.VerifNewC06(path, k.key[2], k.key[3] == 1, false, 0, func(int64, []byte) { panic("harness/c06: the recording inputer is not used here") })
		if err != nil {
			panic(err)
		}
		defer c06ProviderOf(f.v).reset()
		c06RealJobNamed(f.v, path, k.names, k.offs)
		e = c06SPipeFor(k.key, c06ProviderOf(f.v).ptr)
		for _, rd := range rounds {
			ri := hx.Items(rd)
			if app := hx.Bytes(ri[0]); len(app) > 0 {
				if _, err := wf.Write(app); err != nil {
					panic(err)
				}
			}
			items := e.pass(f.v, int(hx.Int(ri[1])))
			cur, tail, skip, pos := f.v.State()
			passes = append(passes, hx.L(append(items, hx.Z(cur), hx.Z(pos), hx.B(tail), hx.Bool(skip))...))
		}
	})
	if f != nil {
		f.close()
	}
	if msg != "" {
		passes = append(passes, hx.L(hx.S(msg)))
	}
	c06SDropBroken(k.key, e, msg != "")
	return hx.L(passes...)
}

// a pipeline in which a wait timed out (or anything else went wrong) is not used again
func c06SDropBroken(k [4]int, e *c06SPipe, failed bool) {
	if e != nil && failed {
		delete(c06SPipes, k)
	}
}

func c06ExecStreamsLz4(cs hx.Sx) hx.Sx {
	it := hx.Items(cs)
	k := c06SHead(it)
	var content []byte
	for _, fr := range hx.Items(it[5]) {
		content = append(content, c06Frame(hx.Bytes(fr))...)
	}
	bufsz := int(hx.Int(it[6]))
	scenario := int(hx.Int(it[7]))
	if scenario != 0 && scenario != 1 {
		return hx.L(hx.S("harness/c06: lsof scenario of a streams case must be 0 or 1"))
	}
	path := filepath.Join(c06TempDir(), "sz.lz4")
	var f *c06File
	var out hx.Sx
	var e *c06SPipe
	msg := hx.Catch(func() {
		if err := os.WriteFile(path, content, 0o600); err != nil {
			panic(err)
		}
		f = &c06File{}
		var err error
		f.v, err = filein.VerifNewC06(path, k.key[2], k.key[3] == 1, false, 0, func(int64, []byte) { panic("harness/c06: the recording inputer is not used here") })
		if err != nil {
			panic(err)
		}
		defer c06ProviderOf(f.v).reset()
		c06RealJobNamed(f.v, path, k.names, k.offs)
		e = c06SPipeFor(k.key, c06ProviderOf(f.v).ptr)
		var items []hx.Sx
		c06WithLsof(scenario, func() { items = e.pass(f.v, bufsz) })
		g := c06GutsOf(f.v)
		cur, tail, skip, _ := f.v.State()
		done := *(*bool)(fieldPtr(reflect.ValueOf(g.job).Elem(), "isDone"))
		out = hx.L(append(items, hx.Z(cur), hx.B(tail), hx.Bool(skip), hx.Bool(done))...)
	})
	if f != nil {
		f.close()
	}
	if msg != "" {
		out = hx.L(hx.S(msg))
	}
	c06SDropBroken(k.key, e, msg != "")
	return out
}

// ---- generators ------------------------------------------------------------------------------------------------------
type c06SLine struct {
	stream string // "" = a line without a stream field (json) / a garbage line
	text   []byte // without the newline
}

func c06SRender(format int, stream string, pad string) []byte {
	if format == 1 {
		return []byte("2024-01-02T03:04:05.123456789Z " + stream + " F " + pad)
	}
	if stream == "" {
		return []byte(`{"m":"` + pad + `"}`)
	}
	return []byte(`{"stream":"` + stream + `","m":"` + pad + `"}`)
}

func c06SCaseSx(format int, thr bool, cf c06Cfg, names []string, offs []int64, pre []byte, rounds []hx.Sx) hx.Sx {
	sv := make([]hx.Sx, len(names))
	for i := range names {
		sv[i] = hx.L(hx.S(names[i]), hx.Z(offs[i]))
	}
	return hx.L(hx.I(format), hx.Bool(thr), hx.I(cf.max), hx.Bool(cf.cut), hx.L(sv...), hx.B(pre), hx.L(rounds...))
}

func c06SCaseLz4(format int, thr bool, cf c06Cfg, names []string, offs []int64, frames [][]byte, bufsz, lsof int) hx.Sx {
	sv := make([]hx.Sx, len(names))
	for i := range names {
		sv[i] = hx.L(hx.S(names[i]), hx.Z(offs[i]))
	}
	return hx.L(hx.I(format), hx.Bool(thr), hx.I(cf.max), hx.Bool(cf.cut), hx.L(sv...), hx.Bs(frames), hx.I(bufsz), hx.I(lsof))
}

func c06GenStreams(c *hmain.Ctx, bufs []int) {
	r := c.R
	streamsOf := func(format int) []string {
		if format == 1 {
			return []string{"stdout", "stderr", "abcdef"} // DecodeCRI: the stream is the first 6-byte token behind the time
		}
		return []string{"a", "b", "not_set"} // not_set = the name of the stream of an event without the field
	}
	// the line end offsets of a content given as lines
	build := func(lines [][]byte, tail []byte) (b []byte, ends []int64) {
		for _, l := range lines {
			b = append(b, l...)
			b = append(b, '\n')
			ends = append(ends, int64(len(b)))
		}
		return append(b, tail...), ends
	}

	// 12a. exhaustive small scope: 1..nLines lines x every assignment of 2 streams (json: + "no stream field") to the lines
	//      x every saved-offset table over {not saved, every line end} for each of the 2 streams (+ inside the first line,
	//      behind the end for the first) x json / cri x short-cut on / off x read buffer {2, 64}; the content is there when
	//      the job is added, a second pass adds one more line of each stream
	nLines := 3
	if c.Tier == "thorough" {
		nLines = 4
	}
	n12 := 0
	for format := 0; format <= 1; format++ {
		ss := streamsOf(format)
		kinds := 2
		if format == 0 {
			kinds = 3
		}
		for n := 1; n <= nLines; n++ {
			total := 1
			for i := 0; i < n; i++ {
				total *= kinds
			}
			for a := 0; a < total; a++ {
				var lines [][]byte
				x := a
				for i := 0; i < n; i++ {
					st := ss[x%kinds]
					if x%kinds == 2 {
						st = "" // json without the field: stream not_set
					}
					x /= kinds
					lines = append(lines, c06SRender(format, st, fmt.Sprint("p", i)))
				}
				pre, ends := build(lines, nil)
				cand := append([]int64{-1}, ends...) // -1 = the stream is not in the table
				candA := append(append([]int64(nil), cand...), 1, int64(len(pre))+5)
				for _, oa := range candA {
					for _, ob := range cand {
						for _, oc := range []int64{-1, ends[len(ends)-1]} {
							if kinds == 2 && oc != -1 {
								continue
							}
							var names []string
							var offs []int64
							for i, o := range []int64{oa, ob, oc} {
								if o >= 0 {
									names = append(names, ss[i])
									offs = append(offs, o)
								}
							}
							n12++
							thr := n12%2 == 0
							bufsz := []int{2, 64, 7}[n12%3]
							more := append(append(c06SRender(format, ss[0], "q"), '\n'), append(c06SRender(format, ss[1], "r"), '\n')...)
							rs := []hx.Sx{c06Round(nil, bufsz), c06Round(more, bufsz)}
							c.Do("streams-exhaustive", 9, c06SCaseSx(format, thr, c06Cfg{}, names, offs, pre, rs), len(names) >= 1)
						}
					}
				}
			}
		}
	}
	c.W.Count(fmt.Sprintf("streams-exhaustive_max_lines_%d", nLines))

	// 12b. / 12c. random: 2..3 streams, 1..12 lines of random pads (+ empty lines, garbage lines, json lines without the
	//      field, lines around the size limit), saved offsets = for every stream: not saved | the end of one of ITS lines
	//      (what Commit stores) | the end of any line | inside a line | behind the end; 1..4 passes; plain and lz4
	pads := func() string {
		n := r.Intn(12)
		if r.Chance(1, 6) {
			n = r.Intn(60)
		}
		b := make([]byte, n)
		for i := range b {
			b[i] = "abcdefghijklmnopqrstuvwxyz0123456789_"[r.Intn(37)]
		}
		return string(b)
	}
	garbage := [][]byte{nil, []byte("x"), []byte(`{"stream":"a","m":`), []byte("}{"), []byte("nospacx"), []byte("t stdout")} // no suffix of these is a JSON value (insane-json takes e, 1e, - ... for numbers)
	cfgsS := []c06Cfg{{0, false}, {0, false}, {0, false}, {60, false}, {45, false}}
	randFile := func(format int) (lines [][]byte, owner []string) {
		ss := streamsOf(format)
		ns := r.Range(2, 3)
		for i := r.Range(1, 12); i > 0; i-- {
			switch {
			case r.Chance(1, 10):
				lines = append(lines, hx.Pick(r, garbage))
				owner = append(owner, "")
			case format == 0 && r.Chance(1, 8):
				lines = append(lines, c06SRender(0, "", pads()))
				owner = append(owner, "not_set")
			case format == 1 && r.Chance(1, 6): // a short row: DecodeCRI takes any token for the time (In logs that it cannot parse it)
				s := ss[r.Intn(ns)]
				lines = append(lines, []byte("0 "+s+" F "+"xy"[:r.Intn(3)]))
				owner = append(owner, s)
			default:
				s := ss[r.Intn(ns)]
				lines = append(lines, c06SRender(format, s, pads()))
				owner = append(owner, s)
			}
		}
		return
	}
	randSaved := func(format int, ends []int64, owner []string, size int) (names []string, offs []int64, kind string) {
		kind = "committed"
		for _, s := range streamsOf(format) {
			var own []int64
			for i, o := range owner {
				if o == s {
					own = append(own, ends[i])
				}
			}
			switch x := r.Intn(16); {
			case x < 3:
				continue
			case x < 11 && len(own) > 0:
				names, offs = append(names, s), append(offs, hx.Pick(r, own))
			case x < 13:
				names, offs = append(names, s), append(offs, hx.Pick(r, ends))
				kind = "any-line-end"
			case x < 14:
				names, offs = append(names, s), append(offs, int64(r.Intn(size+1)))
				kind = "anywhere"
			case x < 15:
				names, offs = append(names, s), append(offs, int64(size+r.Range(1, 9)))
				kind = "behind-the-end"
			}
		}
		return
	}
	for i := 0; i < 1500*c.Scale; i++ {
		format := r.Intn(2)
		cf := hx.Pick(r, cfgsS)
		lines, owner := randFile(format)
		var tail []byte
		if r.Chance(1, 3) {
			tail = c06SRender(format, streamsOf(format)[0], pads())
			tail = tail[:r.Intn(len(tail)+1)]
		}
		b, ends := build(lines, tail)
		// what is there when the job is added: everything, or a prefix (the rest is appended in 1..3 further passes)
		cutAt := len(b)
		if r.Chance(1, 2) {
			cutAt = r.Intn(len(b) + 1)
		}
		names, offs, kind := randSaved(format, ends, owner, cutAt)
		bs := hx.Pick(r, bufs)
		rs := []hx.Sx{c06Round(nil, bs)}
		rest := b[cutAt:]
		for k := r.Range(0, 3); k > 0 && len(rest) > 0; k-- {
			n := len(rest)
			if k > 1 {
				n = r.Intn(len(rest) + 1)
			}
			rs = append(rs, c06Round(rest[:n], hx.Pick(r, bufs)))
			rest = rest[n:]
		}
		distinct := map[int64]bool{}
		for _, o := range offs {
			distinct[o] = true
		}
		c.W.Count(fmt.Sprintf("streams-random: saved streams=%d distinct offsets=%d kind=%s", len(names), len(distinct), kind))
		c.Do("streams-random", 9, c06SCaseSx(format, r.Bool(), cf, names, offs, b[:cutAt], rs), len(distinct) >= 2)
	}
	// lz4: the saved offsets are line ends (the minimum must be one: the model rejects other cases as for which 6 | 7)
	for i := 0; i < 500*c.Scale; i++ {
		format := r.Intn(2)
		cf := hx.Pick(r, cfgsS)
		lines, owner := randFile(format)
		var tail []byte
		if r.Chance(1, 3) {
			tail = []byte("tail")
		}
		b, ends := build(lines, tail)
		var names []string
		var offs []int64
		for _, s := range streamsOf(format) {
			var own []int64
			for k, o := range owner {
				if o == s {
					own = append(own, ends[k])
				}
			}
			switch x := r.Intn(8); {
			case x < 2:
			case x < 6 && len(own) > 0:
				names, offs = append(names, s), append(offs, hx.Pick(r, own))
			default:
				names, offs = append(names, s), append(offs, hx.Pick(r, ends))
			}
		}
		var frames [][]byte
		rest := b
		for k := r.Range(1, 3); k > 1; k-- {
			n := r.Intn(len(rest) + 1)
			frames = append(frames, rest[:n])
			rest = rest[n:]
		}
		frames = append(frames, rest)
		bs := hx.Pick(r, bufs)
		distinct := map[int64]bool{}
		for _, o := range offs {
			distinct[o] = true
		}
		c.W.Count(fmt.Sprintf("streams-lz4: saved streams=%d distinct offsets=%d", len(names), len(distinct)))
		c.Do("streams-lz4", 10, c06SCaseLz4(format, r.Bool(), cf, names, offs, frames, bs, r.Intn(2)), len(names) >= 1)
	}
	// directed lz4: 5 lines of two streams, every pair of line ends as the two saved offsets, buffers that stop the skip
	// loop at the start, inside and at the end of a line
	for format := 0; format <= 1; format++ {
		ss := streamsOf(format)
		var lines [][]byte
		for i := 0; i < 5; i++ {
			lines = append(lines, c06SRender(format, ss[i%2], fmt.Sprint("n", i)))
		}
		b, ends := build(lines, nil)
		for _, oa := range ends {
			for _, ob := range ends {
				for _, bs := range []int{1, 3, len(lines[0]) + 1, 64, 1024} {
					n12++
					c.Do("streams-lz4-directed", 10, c06SCaseLz4(format, n12%2 == 0, c06Cfg{}, ss[:2], []int64{oa, ob}, [][]byte{b[:len(b)/2], b[len(b)/2:]}, bs, n12%2), oa != ob)
				}
			}
		}
	}
}
