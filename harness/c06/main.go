package main

// C06 — file reader: each complete line once, with its end-of-line offset.
// Drives the REAL worker.work (plugin/input/file, via verif_export_c06.go) on a real file that grows
// in append steps, one job pass per step, with a recording inputer; optionally the real
// Pipeline.checkInputBytes is applied to the un-copied data inside In (as Pipeline.In does).
//
//  which=0  case = (max cut mode #prefix ((#append bufsz) ...))
//           mode 0: job starts at offset len(prefix); mode 1: real initJobOffset(offsetsOpTail)
//           obs  = (((emit ...) curOffset filePos #tail shouldSkip) ...)   one item per pass
//           emit = (offsets.current #data)
//  which=1  same case; emit = (offsets.current #data ok cutoff #out)   with checkInputBytes inside In
//  which=2  checkInputBytes alone: case = (max cut #bytes)  obs = (ok cutoff #out)
//  which=3  several jobs per worker.work call (shared accumBuf / readBuf): case = (w sched (filecase ...)),
//           obs = one which-w observable per file; see c06ExecMulti and coq/Model/Worker.v (c06_multi)
//  which=4,5 histories with maintenance ticks, truncation, rename / rotation (emit format of which 0 / 1): see maint.go;
//           jobs made / notified by the real provider code, remove_after: see realjob.go
//  which=6,7 compressed (lz4) jobs: see realjob.go
//  which=8   the real Pipeline.In behind the worker, observed at the output plugin: see e2e.go
//  which=9,10 the same with the real file Plugin (PassEvent, Commit) as the pipeline's input and a job resumed from the saved
//           offsets of several streams, plain / lz4: see streams.go
//  a which-0/1 case may carry a 6th item `base`: the file starts with a hole of base bytes (sparse), all offsets shift

import (
	"bytes"
	"fmt"
	"os"
	"path/filepath"

	"github.com/ozontech/file.d/pipeline"
	filein "github.com/ozontech/file.d/plugin/input/file"

	"verif/harness/hmain"
	"verif/harness/hx"
)

var (
	c06Dir   string
	c06Pipes = map[[2]int]*pipeline.Pipeline{}
)

func c06Pipe(max int, cut bool) *pipeline.Pipeline {
	k := [2]int{max, 0}
	if cut {
		k[1] = 1
	}
	p := c06Pipes[k]
	if p == nil {
		p = pipeline.VerifNewPipelineC06(max, cut)
		c06Pipes[k] = p
	}
	return p
}

func c06TempDir() string {
	if c06Dir == "" {
		base := ""
		if st, err := os.Stat("/dev/shm"); err == nil && st.IsDir() {
			base = "/dev/shm"
		}
		d, err := os.MkdirTemp(base, "verif-c06-")
		if err != nil {
			d, err = os.MkdirTemp("", "verif-c06-")
			if err != nil {
				panic(err)
			}
		}
		c06Dir = d
	}
	return c06Dir
}

// c06File = one real file + the real job on it + what the recording inputer saw for it
type c06File struct {
	wf     *os.File
	v      *filein.VerifC06
	which  int
	pipe   *pipeline.Pipeline
	rounds []hx.Sx
	next   int
	emits  []hx.Sx
	passes []hx.Sx
}

func (f *c06File) record(off int64, data []byte) {
	if f.which == 1 {
		d := hx.B(data) // copy before the admission check may write into the buffer
		o, cf, ok := f.pipe.VerifCheckInputBytesC06(data)
		f.emits = append(f.emits, hx.L(hx.Z(off), d, hx.Bool(ok), hx.Bool(cf), hx.B(o)))
	} else {
		f.emits = append(f.emits, hx.L(hx.Z(off), hx.B(data)))
	}
}

func (f *c06File) endPass() {
	cur, tail, skip, pos := f.v.State()
	f.passes = append(f.passes, hx.L(hx.L(f.emits...), hx.Z(cur), hx.Z(pos), hx.B(tail), hx.Bool(skip)))
	f.emits = nil
}

func (f *c06File) close() {
	if f.v != nil {
		f.v.Close()
	}
	if f.wf != nil {
		f.wf.Close()
	}
}

// c06Open creates the file of one which-0/1 case (prefix written, optional hole of `base` bytes in front of it) and the
// real job on it; onIn receives what the worker hands to In while it works on ANY job of the same work() call.
func c06Open(name string, which int, cs hx.Sx, onIn func(f *c06File, off int64, data []byte)) (*c06File, error) {
	it := hx.Items(cs)
	max := int(hx.Int(it[0]))
	cut := hx.Truth(it[1])
	mode := int(hx.Int(it[2]))
	prefix := hx.Bytes(it[3])
	base := int64(0)
	if len(it) > 5 {
		base = hx.Int(it[5])
	}
	path := filepath.Join(c06TempDir(), name)
	wf, err := os.OpenFile(path, os.O_CREATE|os.O_TRUNC|os.O_WRONLY|os.O_APPEND, 0o600)
	if err != nil {
		return nil, err
	}
	f := &c06File{wf: wf, which: which, rounds: hx.Items(it[4])}
	if base > 0 { // sparse file: a hole of base bytes, everything else is appended behind it
		if err := wf.Truncate(base); err != nil {
			f.close()
			return nil, err
		}
	}
	if len(prefix) > 0 {
		if _, err := wf.Write(prefix); err != nil {
			f.close()
			return nil, err
		}
	}
	if which == 1 {
		f.pipe = c06Pipe(max, cut)
	}
	f.v, err = filein.VerifNewC06(path, max, cut, mode == 1, base+int64(len(prefix)), func(off int64, data []byte) { onIn(f, off, data) })
	if err != nil {
		f.close()
		return nil, err
	}
	return f, nil
}

func (f *c06File) appendNext() (bufsz int, err error) {
	ri := hx.Items(f.rounds[f.next])
	f.next++
	if app := hx.Bytes(ri[0]); len(app) > 0 {
		if _, err := f.wf.Write(app); err != nil {
			return 0, err
		}
	}
	return int(hx.Int(ri[1])), nil
}

func c06Exec(which int, cs hx.Sx) hx.Sx {
	it := hx.Items(cs)
	if which == 3 {
		return c06ExecMulti(cs)
	}
	if which == 4 || which == 5 {
		return c06ExecHist(which, cs)
	}
	if which == 6 || which == 7 {
		return c06ExecLz4(which, cs)
	}
	if which == 8 {
		return c06ExecE2E(cs)
	}
	if which == 9 {
		return c06ExecStreams(cs)
	}
	if which == 10 {
		return c06ExecStreamsLz4(cs)
	}
	if which == 2 {
		max := int(hx.Int(it[0]))
		cut := hx.Truth(it[1])
		b := hx.Bytes(it[2])
		var out hx.Sx
		if msg := hx.Catch(func() {
			o, cf, ok := c06Pipe(max, cut).VerifCheckInputBytesC06(b)
			out = hx.L(hx.Bool(ok), hx.Bool(cf), hx.B(o))
		}); msg != "" {
			return hx.L(hx.S(msg))
		}
		return out
	}
	var f *c06File
	msg := hx.Catch(func() {
		var err error
		f, err = c06Open("f.log", which, cs, func(f *c06File, off int64, data []byte) { f.record(off, data) })
		if err != nil {
			panic(err)
		}
		for f.next < len(f.rounds) {
			bufsz, err := f.appendNext()
			if err != nil {
				panic(err)
			}
			f.v.Round(bufsz)
			f.endPass()
		}
	})
	var passes []hx.Sx
	if f != nil {
		passes = f.passes
		f.close()
	}
	if msg != "" {
		passes = append(passes, hx.L(hx.S(msg)))
	}
	return hx.L(passes...)
}

// which=3: several jobs per work() call. case = (w sched (filecase ...)), see coq/Model/Worker.v (c06_multi).
func c06ExecMulti(cs hx.Sx) hx.Sx {
	it := hx.Items(cs)
	w := int(hx.Int(it[0]))
	sched := hx.Items(it[1])
	fcs := hx.Items(it[2])
	var files []*c06File
	var inCall []*c06File // the files whose jobs the running work() call was given
	// the worker does not tell the inputer which job a line belongs to (the recording inputer drops the source name):
	// the job being worked on is the only one whose file position is ahead of its saved curOffset
	onIn := func(_ *c06File, off int64, data []byte) {
		var owner *c06File
		n := 0
		for _, f := range inCall {
			if cur, _, _, pos := f.v.State(); pos != cur {
				owner = f
				n++
			}
		}
		if n != 1 {
			panic(fmt.Sprintf("harness/c06: %d jobs look busy during In", n))
		}
		owner.record(off, data)
	}
	msg := hx.Catch(func() {
		for i, fc := range fcs {
			f, err := c06Open(fmt.Sprintf("m%d.log", i), w, fc, onIn)
			if err != nil {
				panic(err)
			}
			files = append(files, f)
		}
		table := map[pipeline.SourceID]*filein.Job{}
		for i, f := range files {
			table[pipeline.SourceID(i+1)] = c06GutsOf(f.v).job
		}
		*c06GutsOf(files[0].v).jobs = table // one provider is shared by all drivers
		for _, call := range sched {
			idx := hx.Items(call)
			if len(idx) == 0 || len(idx) > 3 { // jobsChan of the shared provider holds 4 entries: the jobs and the final nil
				panic("harness/c06: a work() call takes 1..3 jobs")
			}
			inCall = inCall[:0]
			bufsz := 0
			for k, x := range idx {
				f := files[int(hx.Int(x))]
				for _, g := range inCall {
					if g == f {
						panic("harness/c06: a job is queued twice in one call")
					}
				}
				b, err := f.appendNext()
				if err != nil {
					panic(err)
				}
				if k > 0 && b != bufsz {
					panic("harness/c06: the rounds of one work() call must share the read buffer size")
				}
				bufsz = b
				inCall = append(inCall, f)
			}
			for _, f := range inCall[:len(inCall)-1] {
				c06GutsOf(f.v).queue()
			}
			inCall[len(inCall)-1].v.Round(bufsz) // queues the last job and the final nil, then runs the real worker.work
			for _, f := range inCall {
				f.endPass()
			}
		}
	})
	out := make([]hx.Sx, len(fcs))
	for i := range out {
		var passes []hx.Sx
		if i < len(files) {
			passes = files[i].passes
			files[i].close()
		}
		if msg != "" {
			passes = append(passes, hx.L(hx.S(msg)))
		}
		out[i] = hx.L(passes...)
	}
	return hx.L(out...)
}

func c06Case(max int, cut bool, mode int, prefix []byte, rounds []hx.Sx) hx.Sx {
	return hx.L(hx.I(max), hx.Bool(cut), hx.I(mode), hx.B(prefix), hx.L(rounds...))
}
func c06Round(app []byte, bufsz int) hx.Sx { return hx.L(hx.B(app), hx.I(bufsz)) }

type c06Cfg struct {
	max int
	cut bool
}

func c06Gen(c *hmain.Ctx) {
	defer os.RemoveAll(c06TempDir())
	r := c.R
	if os.Getenv("C06_ONLY") == "streams" { // development aid: the streams of streams.go alone
		c06GenStreams(c, []int{1, 2, 3, 4, 5, 6, 7, 8, 9, 16, 31, 64, 257, 1024, 8192})
		return
	}

	// 1. exhaustive small scope: every content over {a,b,\n} up to maxLen x every split into two
	//    appends (a pass after each) x bufsz 1..4 x (max,cut) in {0, 2 skip, 2 cut, 3 skip, 3 cut}.
	//    which=1 (checkInputBytes inside In, as in production); additionally which=0 up to length 5.
	maxLen := 7
	if c.Tier == "thorough" {
		maxLen = 8
	}
	cfgs := []c06Cfg{{0, false}, {2, false}, {2, true}, {3, false}, {3, true}}
	alpha := []byte{'a', 'b', '\n'}
	var rec func(body []byte)
	rec = func(body []byte) {
		nl := bytes.IndexByte(body, '\n') >= 0
		for cutAt := 0; cutAt <= len(body); cutAt++ {
			for bufsz := 1; bufsz <= 4; bufsz++ {
				for _, cf := range cfgs {
					rs := []hx.Sx{c06Round(body[:cutAt], bufsz), c06Round(body[cutAt:], bufsz)}
					c.Do("exhaustive", 1, c06Case(cf.max, cf.cut, 0, nil, rs), nl)
					if len(body) <= 5 {
						c.Do("exhaustive", 0, c06Case(cf.max, cf.cut, 0, nil, rs), nl)
					}
				}
			}
		}
		if len(body) < maxLen {
			for _, a := range alpha {
				rec(append(body[:len(body):len(body)], a))
			}
		}
	}
	rec(nil)
	c.W.Count(fmt.Sprintf("exhaustive_max_len_%d", maxLen))

	// random content: a mix of empty, short, around-the-limit and very long lines
	randLine := func(limit int, long int) []byte {
		var n int
		switch r.Intn(8) {
		case 0:
			n = 0
		case 1:
			n = r.Intn(4)
		case 2, 3:
			n = r.Intn(24)
		case 4:
			if limit > 0 {
				n = limit - 2 + r.Intn(4) // full line length limit-1 .. limit+2
				if n < 0 {
					n = 0
				}
			} else {
				n = r.Intn(40)
			}
		case 5:
			n = r.Intn(long + 1)
		default:
			n = r.Intn(60)
		}
		b := make([]byte, n)
		for i := range b {
			b[i] = "abcdefghijklmnopqrstuvwxyz0123456789{}\":, \r"[r.Intn(43)]
		}
		return b
	}
	randContent := func(lines, limit, long int, endNL bool) []byte {
		var b []byte
		for i := 0; i < lines; i++ {
			b = append(b, randLine(limit, long)...)
			if i < lines-1 || endNL {
				b = append(b, '\n')
			}
		}
		return b
	}
	bufs := []int{1, 2, 3, 4, 5, 6, 7, 8, 9, 16, 31, 64, 257, 1024, 8192}
	randRounds := func(b []byte, n int) []hx.Sx {
		var rs []hx.Sx
		for i := 0; i < n; i++ {
			k := len(b)
			if i < n-1 {
				k = r.Intn(len(b) + 1)
			}
			bs := hx.Pick(r, bufs)
			if len(b) > 4000 && bs < 4 {
				bs += 3
			}
			rs = append(rs, c06Round(b[:k], bs))
			b = b[k:]
		}
		return rs
	}
	randCfg := func() (int, bool, int) {
		switch r.Intn(4) {
		case 0:
			return 0, false, 3000
		case 1:
			return r.Range(1, 8), r.Bool(), 40
		case 2:
			return r.Range(8, 40), r.Bool(), 400
		default:
			return r.Range(40, 200), r.Bool(), 3000
		}
	}

	// 2. structured random: long lines >> buffer, empty lines, 1..5 passes, resume at a line boundary
	for i := 0; i < 1500*c.Scale; i++ {
		max, cut, long := randCfg()
		var prefix []byte
		if r.Chance(1, 2) {
			prefix = randContent(r.Range(1, 4), max, 50, true) // resume offset = a line boundary
			c.W.Count("resume_at_line_boundary")
		}
		b := randContent(r.Range(0, 12), max, long, r.Chance(2, 3))
		rs := randRounds(b, r.Range(1, 5))
		which := r.Intn(2)
		if len(b) > 2000 {
			c.W.Count("content_gt_2000")
		}
		c.Do("random", which, c06Case(max, cut, 0, prefix, rs), bytes.IndexByte(b, '\n') >= 0 && len(rs) >= 2)
	}

	// 3. tail mode (offsets_op: tail): real initJobOffset, prefix ending inside or at the end of a line
	for i := 0; i < 400*c.Scale; i++ {
		max, cut, long := randCfg()
		prefix := randContent(r.Range(0, 4), max, 30, r.Bool())
		b := randContent(r.Range(0, 8), max, long/4, r.Chance(2, 3))
		c.Do("tail-mode", r.Intn(2), c06Case(max, cut, 1, prefix, randRounds(b, r.Range(1, 4))), len(prefix) > 0)
	}

	// 4. adversarial: line ends aligned with buffer ends, line lengths max-1..max+2, resume offsets
	//    that are NOT line boundaries, many empty passes, lines of only newlines
	for i := 0; i < 1500*c.Scale; i++ {
		bs := r.Range(1, 9)
		max := 0
		if r.Chance(3, 4) {
			max = bs*r.Range(1, 3) + r.Range(-1, 1)
			if max < 1 {
				max = 1
			}
		}
		cut := r.Bool()
		var b []byte
		for j := r.Range(1, 8); j > 0; j-- {
			var n int
			switch r.Intn(4) {
			case 0:
				n = bs*r.Range(0, 4) + r.Range(-1, 1) // newline at / next to a buffer end
			case 1:
				n = max + r.Range(-2, 2)
			case 2:
				n = 0
			default:
				n = r.Intn(3 * bs)
			}
			for ; n > 0; n-- {
				b = append(b, "xyz"[r.Intn(3)])
			}
			if j > 1 || r.Chance(2, 3) {
				b = append(b, '\n')
			}
		}
		var prefix []byte
		if r.Chance(1, 3) {
			prefix = randContent(r.Range(1, 3), max, 10, r.Bool()) // may end mid-line
			c.W.Count("resume_mid_line")
		}
		var rs []hx.Sx
		for len(b) > 0 || len(rs) == 0 {
			k := r.Intn(len(b) + 1)
			if r.Chance(1, 4) {
				k = 0 // a pass that finds nothing new
			}
			sz := bs
			if r.Chance(1, 5) {
				sz = r.Range(1, 9)
			}
			rs = append(rs, c06Round(b[:k], sz))
			b = b[k:]
			if len(rs) >= 6 {
				rs = append(rs, c06Round(b, sz))
				b = nil
			}
		}
		c.Do("adversarial", r.Intn(2), c06Case(max, cut, 0, prefix, rs), true)
	}

	// 5. checkInputBytes alone on arbitrary bytes (no trailing newline, only newlines, around the limit)
	for n := 0; n <= 5; n++ { // exhaustive over {a,\n} up to length 5 x max 0..4 x cut
		for m := 0; m < 1<<n; m++ {
			b := make([]byte, n)
			for i := range b {
				if m&(1<<i) != 0 {
					b[i] = '\n'
				} else {
					b[i] = 'a'
				}
			}
			for max := 0; max <= 4; max++ {
				for cu := 0; cu < 2; cu++ {
					c.Do("check-input", 2, hx.L(hx.I(max), hx.I(cu), hx.B(b)), max > 0 && n > max)
				}
			}
		}
	}
	for i := 0; i < 500*c.Scale; i++ {
		max := r.Intn(30)
		n := max + r.Range(-3, 3)
		if n < 0 || r.Chance(1, 4) {
			n = r.Intn(80)
		}
		b := make([]byte, n)
		for j := range b {
			b[j] = "ab\n\r{"[r.Intn(5)]
		}
		c.Do("check-input", 2, hx.L(hx.I(max), hx.Bool(r.Bool()), hx.B(b)), max > 0 && n > max)
	}

	if os.Getenv("C06_SKIP_THRESHOLDS") != "" { // development aid: time the streams above alone
		return
	}
	// 6. several jobs per worker.work call (which=3). worker.go:48-49 allocate accumBuf / readBuf once per work() and
	//    reuse them for every job (:131 append(accumBuf[:0], job.tail...), :206 job.tail = append(job.tail[:0], accumBuf...));
	//    every stream above runs ONE job per work() call with fresh buffers. Regressions only these cases expose:
	//    job.tail = accumBuf (alias instead of copy: the next job of the same call overwrites the saved tail),
	//    append(accumBuf, job.tail...) without [:0] (the previous job's tail is glued in front of this job's first line),
	//    skipLine / scanned / readTotal hoisted out of the job loop, a cut-off accumulator frozen for the NEXT job.
	//    6a. directed grid: job A leaves an unterminated tail of a length around the buffer size, job B of the same call
	//        has its own lines and tail, a later call completes A's line (and B's); both orders; w = 0 and 1
	tailsB := [][2]string{{"", "q\n"}, {"x\n", ""}, {"yy", "y\n"}, {"z\nww", "\n"}, {"\n", "rrrrrrrrr"}, {"kkkkkkkkkkkk", "k\nk\n"}}
	for _, bufsz := range []int{1, 2, 3, 4, 8} {
		for _, tl := range []int{0, 1, bufsz - 1, bufsz, bufsz + 1, 3*bufsz + 1} {
			if tl < 0 {
				continue
			}
			for _, tb := range tailsB {
				for _, cf := range cfgs {
					a1 := append([]byte("h\n"), bytes.Repeat([]byte{'A'}, tl)...)
					a2 := []byte("a\nA2")
					fa := c06Case(cf.max, cf.cut, 0, nil, []hx.Sx{c06Round(a1, bufsz), c06Round(a2, bufsz), c06Round([]byte("\n"), bufsz)})
					fb := c06Case(cf.max, cf.cut, 0, []byte("pre\n"), []hx.Sx{c06Round([]byte(tb[0]), bufsz), c06Round([]byte(tb[1]), bufsz)})
					for order := 0; order < 4; order++ {
						var sched hx.Sx
						switch order {
						case 0: // A(tail) B | A B | A
							sched = hx.L(hx.L(hx.I(0), hx.I(1)), hx.L(hx.I(0), hx.I(1)), hx.L(hx.I(0)))
						case 1: // B A(tail) | B A | A
							sched = hx.L(hx.L(hx.I(1), hx.I(0)), hx.L(hx.I(1), hx.I(0)), hx.L(hx.I(0)))
						case 2: // A(tail) | B | A B | A      (one job per call, as the other streams do: the control)
							sched = hx.L(hx.L(hx.I(0)), hx.L(hx.I(1)), hx.L(hx.I(0), hx.I(1)), hx.L(hx.I(0)))
						default: // A(tail) B | B A | A
							sched = hx.L(hx.L(hx.I(0), hx.I(1)), hx.L(hx.I(1), hx.I(0)), hx.L(hx.I(0)))
						}
						c.Do("multi-job-directed", 3, hx.L(hx.I(order%2), sched, hx.L(fa, fb)), true)
					}
				}
			}
		}
	}
	c.W.Count("multi-job-directed: tail lengths 0,1,buf-1,buf,buf+1,3buf+1 x buf 1,2,3,4,8")
	//    6b. random: 2..3 files with the random contents of stream 2, 1..6 work() calls, each over a random non-empty
	//        sequence of distinct files with one read buffer size
	for i := 0; i < 1200*c.Scale; i++ {
		max, cut, long := randCfg()
		nf := r.Range(2, 3)
		ncalls := r.Range(1, 6)
		calls := make([][]int, ncalls)
		bufOf := make([]int, ncalls)
		uses := make([]int, nf)
		multi := 0
		for k := range calls {
			perm := make([]int, nf)
			for x := range perm {
				perm[x] = x
			}
			for x := nf - 1; x > 0; x-- {
				y := r.Intn(x + 1)
				perm[x], perm[y] = perm[y], perm[x]
			}
			take := r.Range(1, nf)
			if r.Chance(1, 2) {
				take = nf
			}
			calls[k] = perm[:take]
			if take > 1 {
				multi++
			}
			bufOf[k] = hx.Pick(r, bufs)
			for _, f := range calls[k] {
				uses[f]++
			}
		}
		fcs := make([]hx.Sx, nf)
		hasNL := false
		for f := 0; f < nf; f++ {
			var prefix []byte
			if r.Chance(1, 3) {
				prefix = randContent(r.Range(1, 3), max, 30, r.Chance(2, 3))
			}
			b := randContent(r.Range(0, 8), max, long/2, r.Chance(1, 2))
			hasNL = hasNL || bytes.IndexByte(b, '\n') >= 0
			var rs []hx.Sx
			seen := 0
			for k := range calls {
				for _, g := range calls[k] {
					if g != f {
						continue
					}
					seen++
					n := len(b)
					if seen < uses[f] {
						n = r.Intn(len(b) + 1)
					}
					bs := bufOf[k]
					rs = append(rs, c06Round(b[:n], bs))
					b = b[n:]
				}
			}
			fcs[f] = c06Case(max, cut, 0, prefix, rs)
		}
		sched := make([]hx.Sx, ncalls)
		for k := range calls {
			sched[k] = hx.List(calls[k], func(x int) hx.Sx { return hx.I(x) })
		}
		c.W.Count(fmt.Sprintf("multi-job-random: files=%d work() calls with >= 2 jobs=%d", nf, min(multi, 4)))
		c.Do("multi-job-random", 3, hx.L(hx.I(r.Intn(2)), hx.L(sched...), hx.L(fcs...)), hasNL && multi > 0)
	}

	// 7. large offsets: the file starts with a hole (sparse file), the job resumes at 2^31-2 .. 2^43 (+ prefix): offsets
	//    beyond 32 bits in offsets.current, curOffset, the file position and the saved tail bookkeeping. Exposes an
	//    int32 / uint32 / int conversion anywhere on the way from Seek to NewOffsets (reader offsets stayed <= ~40 KB).
	bases := []int64{1<<31 - 2, 1<<31 + 1, 1<<32 - 1, 1 << 32, 1<<32 + 7, 1<<40 + 1, 1<<43 - 5}
	for i := 0; i < 300*c.Scale; i++ {
		max, cut, long := randCfg()
		base := hx.Pick(r, bases)
		var prefix []byte
		if r.Chance(1, 2) {
			prefix = randContent(r.Range(1, 3), max, 30, r.Chance(2, 3))
		}
		b := randContent(r.Range(1, 8), max, long/4, r.Chance(2, 3))
		rs := randRounds(b, r.Range(1, 4))
		cs := hx.L(hx.I(max), hx.Bool(cut), hx.I(0), hx.B(prefix), hx.L(rs...), hx.Z(base))
		c.W.Count(fmt.Sprintf("sparse-offsets: resume offset >= 2^%d", bitLen(base)-1))
		c.Do("sparse-offsets", r.Intn(2), cs, bytes.IndexByte(b, '\n') >= 0)
	}

	// 8. histories with the maintenance of the job (which = 4 | 5), see maint.go
	c06GenHist(c, cfgs, bufs, randContent, randCfg)

	// 9. / 10. jobs made and notified by the real provider code, remove_after, compressed jobs (which = 4 .. 7), see gen_real.go
	c06GenReal(c, cfgs, bufs, randContent, randCfg)

	// 11. end to end: the real Pipeline.In of a started pipeline behind the worker (which = 8), see e2e.go
	c06GenE2E(c, cfgs, bufs, randContent)

	// 12. end to end with streams: a job resumed from the saved offsets of 2..3 streams, the real Plugin.PassEvent / Commit
	//     behind the real Pipeline.In (which = 9 | 10), see streams.go
	c06GenStreams(c, bufs)
}

func bitLen(x int64) int {
	n := 0
	for ; x > 0; x >>= 1 {
		n++
	}
	return n
}

func main() {
	hmain.Run(&hmain.Prop{ID: "C06",
		Rule: "exhaustive: every content over {a,b,\\n} up to the tier's length x every split into two appends (one worker pass after each) x read buffer 1..4 x (max_event_size, cut_off) in {(0,-),(2,skip),(2,cut),(3,skip),(3,cut)}; random files with lines >> buffer, empty lines, 1..5 passes, resume offsets, tail mode, buffer-aligned line ends, checkInputBytes alone; several jobs per worker.work call (shared buffers), sparse files with resume offsets beyond 2^32; histories with ticks of the real jobProvider.maintenanceJob at every position (exhaustive small scope, directed over all swept read buffer sizes, random) incl. truncation, rename and rotation; round 5: jobs made by the real addJob in every offsets_op mode / with saved offsets / through a symlink, real write notifications (truncation seen before the pass), ticks with remove_after expired, compressed (lz4) jobs resumed from saved offsets (exhaustive small scope + directed + random each), the real Pipeline.In behind the worker observed at the output (exhaustive small scope + random); the real file Plugin (PassEvent, Commit) as the input of that pipeline with a job resumed from the saved offsets of 2..3 streams, json / cri lines, plain and lz4 files (exhaustive small scope over stream assignments x saved-offset tables, random, directed lz4). Non-trivial = content has a newline (exhaustive), or newline and >= 2 passes (random), non-empty prefix (tail-mode), input longer than the limit (check-input); distinct = distinct (sub-model, case) text.",
		Gen:  c06Gen, Exec: c06Exec})
	if c06Dir != "" {
		os.RemoveAll(c06Dir) // also after -replay
	}
}
