package main

// C06 — file reader: each complete line once, with its end-of-line offset.
// Drives the REAL worker.work (plugin/input/file, via verif_export_c06.go) on a real file that grows
// in append steps, one job pass per step, with a recording inputer; optionally the real
// Pipeline.checkInputBytes is applied to the un-copied data inside In (as Pipeline.In does).
//
//  which=0  case = (max cut mode #prefix ((#append bufsz) ...))
//           mode 0: job starts at offset len(prefix); mode 1: real initJobOffset(offsetsOpTail)
//           obs  = (((emit ...) curOffset filePos #tail shouldSkip) ...)   one item per pass
//           emit = (offsets.current #data)
//  which=1  same case; emit = (offsets.current #data ok cutoff #out)   with checkInputBytes inside In
//  which=2  checkInputBytes alone: case = (max cut #bytes)  obs = (ok cutoff #out)

import (
	"bytes"
	"fmt"
	"os"
	"path/filepath"

	"github.com/ozontech/file.d/pipeline"
	filein "github.com/ozontech/file.d/plugin/input/file"

	"verif/harness/hmain"
	"verif/harness/hx"
)

var (
	c06Dir   string
	c06Pipes = map[[2]int]*pipeline.Pipeline{}
)

func c06Pipe(max int, cut bool) *pipeline.Pipeline {
	k := [2]int{max, 0}
	if cut {
		k[1] = 1
	}
	p := c06Pipes[k]
	if p == nil {
		p = pipeline.VerifNewPipelineC06(max, cut)
		c06Pipes[k] = p
	}
	return p
}

func c06TempDir() string {
	if c06Dir == "" {
		base := ""
		if st, err := os.Stat("/dev/shm"); err == nil && st.IsDir() {
			base = "/dev/shm"
		}
		d, err := os.MkdirTemp(base, "verif-c06-")
		if err != nil {
			d, err = os.MkdirTemp("", "verif-c06-")
			if err != nil {
				panic(err)
			}
		}
		c06Dir = d
	}
	return c06Dir
}

func c06Exec(which int, cs hx.Sx) hx.Sx {
	it := hx.Items(cs)
	max := int(hx.Int(it[0]))
	cut := hx.Truth(it[1])
	if which == 2 {
		b := hx.Bytes(it[2])
		var out hx.Sx
		if msg := hx.Catch(func() {
			o, cf, ok := c06Pipe(max, cut).VerifCheckInputBytesC06(b)
			out = hx.L(hx.Bool(ok), hx.Bool(cf), hx.B(o))
		}); msg != "" {
			return hx.L(hx.S(msg))
		}
		return out
	}
	mode := int(hx.Int(it[2]))
	prefix := hx.Bytes(it[3])
	rounds := hx.Items(it[4])

	path := filepath.Join(c06TempDir(), "f.log")
	wf, err := os.OpenFile(path, os.O_CREATE|os.O_TRUNC|os.O_WRONLY|os.O_APPEND, 0o600)
	if err != nil {
		panic(err)
	}
	defer wf.Close()
	if len(prefix) > 0 {
		if _, err := wf.Write(prefix); err != nil {
			panic(err)
		}
	}
	var pipe *pipeline.Pipeline
	if which == 1 {
		pipe = c06Pipe(max, cut)
	}
	var emits []hx.Sx
	onIn := func(off int64, data []byte) {
		if which == 1 {
			d := hx.B(data) // copy before the admission check may write into the buffer
			o, cf, ok := pipe.VerifCheckInputBytesC06(data)
			emits = append(emits, hx.L(hx.Z(off), d, hx.Bool(ok), hx.Bool(cf), hx.B(o)))
		} else {
			emits = append(emits, hx.L(hx.Z(off), hx.B(data)))
		}
	}
	var passes []hx.Sx
	msg := hx.Catch(func() {
		v, err := filein.VerifNewC06(path, max, cut, mode == 1, int64(len(prefix)), onIn)
		if err != nil {
			panic(err)
		}
		defer v.Close()
		for _, r := range rounds {
			ri := hx.Items(r)
			app := hx.Bytes(ri[0])
			bufsz := int(hx.Int(ri[1]))
			if len(app) > 0 {
				if _, err := wf.Write(app); err != nil {
					panic(err)
				}
			}
			emits = nil
			v.Round(bufsz)
			cur, tail, skip, pos := v.State()
			passes = append(passes, hx.L(hx.L(emits...), hx.Z(cur), hx.Z(pos), hx.B(tail), hx.Bool(skip)))
		}
	})
	if msg != "" {
		passes = append(passes, hx.L(hx.S(msg)))
	}
	return hx.L(passes...)
}

func c06Case(max int, cut bool, mode int, prefix []byte, rounds []hx.Sx) hx.Sx {
	return hx.L(hx.I(max), hx.Bool(cut), hx.I(mode), hx.B(prefix), hx.L(rounds...))
}
func c06Round(app []byte, bufsz int) hx.Sx { return hx.L(hx.B(app), hx.I(bufsz)) }

type c06Cfg struct {
	max int
	cut bool
}

func c06Gen(c *hmain.Ctx) {
	defer os.RemoveAll(c06TempDir())
	r := c.R

	// 1. exhaustive small scope: every content over {a,b,\n} up to maxLen x every split into two
	//    appends (a pass after each) x bufsz 1..4 x (max,cut) in {0, 2 skip, 2 cut, 3 skip, 3 cut}.
	//    which=1 (checkInputBytes inside In, as in production); additionally which=0 up to length 5.
	maxLen := 7
	if c.Tier == "thorough" {
		maxLen = 8
	}
	cfgs := []c06Cfg{{0, false}, {2, false}, {2, true}, {3, false}, {3, true}}
	alpha := []byte{'a', 'b', '\n'}
	var rec func(body []byte)
	rec = func(body []byte) {
		nl := bytes.IndexByte(body, '\n') >= 0
		for cutAt := 0; cutAt <= len(body); cutAt++ {
			for bufsz := 1; bufsz <= 4; bufsz++ {
				for _, cf := range cfgs {
					rs := []hx.Sx{c06Round(body[:cutAt], bufsz), c06Round(body[cutAt:], bufsz)}
					c.Do("exhaustive", 1, c06Case(cf.max, cf.cut, 0, nil, rs), nl)
					if len(body) <= 5 {
						c.Do("exhaustive", 0, c06Case(cf.max, cf.cut, 0, nil, rs), nl)
					}
				}
			}
		}
		if len(body) < maxLen {
			for _, a := range alpha {
				rec(append(body[:len(body):len(body)], a))
			}
		}
	}
	rec(nil)
	c.W.Count(fmt.Sprintf("exhaustive_max_len_%d", maxLen))

	// random content: a mix of empty, short, around-the-limit and very long lines
	randLine := func(limit int, long int) []byte {
		var n int
		switch r.Intn(8) {
		case 0:
			n = 0
		case 1:
			n = r.Intn(4)
		case 2, 3:
			n = r.Intn(24)
		case 4:
			if limit > 0 {
				n = limit - 2 + r.Intn(4) // full line length limit-1 .. limit+2
				if n < 0 {
					n = 0
				}
			} else {
				n = r.Intn(40)
			}
		case 5:
			n = r.Intn(long + 1)
		default:
			n = r.Intn(60)
		}
		b := make([]byte, n)
		for i := range b {
			b[i] = "abcdefghijklmnopqrstuvwxyz0123456789{}\":, \r"[r.Intn(43)]
		}
		return b
	}
	randContent := func(lines, limit, long int, endNL bool) []byte {
		var b []byte
		for i := 0; i < lines; i++ {
			b = append(b, randLine(limit, long)...)
			if i < lines-1 || endNL {
				b = append(b, '\n')
			}
		}
		return b
	}
	bufs := []int{1, 2, 3, 4, 5, 6, 7, 8, 9, 16, 31, 64, 257, 1024, 8192}
	randRounds := func(b []byte, n int) []hx.Sx {
		var rs []hx.Sx
		for i := 0; i < n; i++ {
			k := len(b)
			if i < n-1 {
				k = r.Intn(len(b) + 1)
			}
			bs := hx.Pick(r, bufs)
			if len(b) > 4000 && bs < 4 {
				bs += 3
			}
			rs = append(rs, c06Round(b[:k], bs))
			b = b[k:]
		}
		return rs
	}
	randCfg := func() (int, bool, int) {
		switch r.Intn(4) {
		case 0:
			return 0, false, 3000
		case 1:
			return r.Range(1, 8), r.Bool(), 40
		case 2:
			return r.Range(8, 40), r.Bool(), 400
		default:
			return r.Range(40, 200), r.Bool(), 3000
		}
	}

	// 2. structured random: long lines >> buffer, empty lines, 1..5 passes, resume at a line boundary
	for i := 0; i < 1500*c.Scale; i++ {
		max, cut, long := randCfg()
		var prefix []byte
		if r.Chance(1, 2) {
			prefix = randContent(r.Range(1, 4), max, 50, true) // resume offset = a line boundary
			c.W.Count("resume_at_line_boundary")
		}
		b := randContent(r.Range(0, 12), max, long, r.Chance(2, 3))
		rs := randRounds(b, r.Range(1, 5))
		which := r.Intn(2)
		if len(b) > 2000 {
			c.W.Count("content_gt_2000")
		}
		c.Do("random", which, c06Case(max, cut, 0, prefix, rs), bytes.IndexByte(b, '\n') >= 0 && len(rs) >= 2)
	}

	// 3. tail mode (offsets_op: tail): real initJobOffset, prefix ending inside or at the end of a line
	for i := 0; i < 400*c.Scale; i++ {
		max, cut, long := randCfg()
		prefix := randContent(r.Range(0, 4), max, 30, r.Bool())
		b := randContent(r.Range(0, 8), max, long/4, r.Chance(2, 3))
		c.Do("tail-mode", r.Intn(2), c06Case(max, cut, 1, prefix, randRounds(b, r.Range(1, 4))), len(prefix) > 0)
	}

	// 4. adversarial: line ends aligned with buffer ends, line lengths max-1..max+2, resume offsets
	//    that are NOT line boundaries, many empty passes, lines of only newlines
	for i := 0; i < 1500*c.Scale; i++ {
		bs := r.Range(1, 9)
		max := 0
		if r.Chance(3, 4) {
			max = bs*r.Range(1, 3) + r.Range(-1, 1)
			if max < 1 {
				max = 1
			}
		}
		cut := r.Bool()
		var b []byte
		for j := r.Range(1, 8); j > 0; j-- {
			var n int
			switch r.Intn(4) {
			case 0:
				n = bs*r.Range(0, 4) + r.Range(-1, 1) // newline at / next to a buffer end
			case 1:
				n = max + r.Range(-2, 2)
			case 2:
				n = 0
			default:
				n = r.Intn(3 * bs)
			}
			for ; n > 0; n-- {
				b = append(b, "xyz"[r.Intn(3)])
			}
			if j > 1 || r.Chance(2, 3) {
				b = append(b, '\n')
			}
		}
		var prefix []byte
		if r.Chance(1, 3) {
			prefix = randContent(r.Range(1, 3), max, 10, r.Bool()) // may end mid-line
			c.W.Count("resume_mid_line")
		}
		var rs []hx.Sx
		for len(b) > 0 || len(rs) == 0 {
			k := r.Intn(len(b) + 1)
			if r.Chance(1, 4) {
				k = 0 // a pass that finds nothing new
			}
			sz := bs
			if r.Chance(1, 5) {
				sz = r.Range(1, 9)
			}
			rs = append(rs, c06Round(b[:k], sz))
			b = b[k:]
			if len(rs) >= 6 {
				rs = append(rs, c06Round(b, sz))
				b = nil
			}
		}
		c.Do("adversarial", r.Intn(2), c06Case(max, cut, 0, prefix, rs), true)
	}

	// 5. checkInputBytes alone on arbitrary bytes (no trailing newline, only newlines, around the limit)
	for n := 0; n <= 5; n++ { // exhaustive over {a,\n} up to length 5 x max 0..4 x cut
		for m := 0; m < 1<<n; m++ {
			b := make([]byte, n)
			for i := range b {
				if m&(1<<i) != 0 {
					b[i] = '\n'
				} else {
					b[i] = 'a'
				}
			}
			for max := 0; max <= 4; max++ {
				for cu := 0; cu < 2; cu++ {
					c.Do("check-input", 2, hx.L(hx.I(max), hx.I(cu), hx.B(b)), max > 0 && n > max)
				}
			}
		}
	}
	for i := 0; i < 500*c.Scale; i++ {
		max := r.Intn(30)
		n := max + r.Range(-3, 3)
		if n < 0 || r.Chance(1, 4) {
			n = r.Intn(80)
		}
		b := make([]byte, n)
		for j := range b {
			b[j] = "ab\n\r{"[r.Intn(5)]
		}
		c.Do("check-input", 2, hx.L(hx.I(max), hx.Bool(r.Bool()), hx.B(b)), max > 0 && n > max)
	}
}

func main() {
	hmain.Run(&hmain.Prop{ID: "C06",
		Rule: "exhaustive: every content over {a,b,\\n} up to the tier's length x every split into two appends (one worker pass after each) x read buffer 1..4 x (max_event_size, cut_off) in {(0,-),(2,skip),(2,cut),(3,skip),(3,cut)}; random files with lines >> buffer, empty lines, 1..5 passes, resume offsets, tail mode, buffer-aligned line ends, checkInputBytes alone. Non-trivial = content has a newline (exhaustive), or newline and >= 2 passes (random), non-empty prefix (tail-mode), input longer than the limit (check-input); distinct = distinct (sub-model, case) text.",
		Gen:  c06Gen, Exec: c06Exec})
	if c06Dir != "" {
		os.RemoveAll(c06Dir) // also after -replay
	}
}
