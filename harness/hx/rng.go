package hx

// Rng: the single PRNG of a harness run (splitmix64); every random choice derives from VERIF_SEED.
type Rng struct{ s uint64 }

func NewRng(seed uint64) *Rng {
	// the state is the splitmix64 OUTPUT of the seed (not a multiple of the stream increment):
	// consecutive seeds must not yield shifted copies of one stream
	z := seed + 0x632BE59BD9B4E019
	z = (z ^ (z >> 30)) * 0xBF58476D1CE4E5B9
	z = (z ^ (z >> 27)) * 0x94D049BB133111EB
	return &Rng{s: z ^ (z >> 31)}
}
func (r *Rng) U64() uint64 {
	r.s += 0x9E3779B97F4A7C15
	z := r.s
	z = (z ^ (z >> 30)) * 0xBF58476D1CE4E5B9
	z = (z ^ (z >> 27)) * 0x94D049BB133111EB
	return z ^ (z >> 31)
}
func (r *Rng) Intn(n int) int {
	if n <= 0 {
		return 0
	}
	return int(r.U64() % uint64(n))
}
func (r *Rng) Range(lo, hi int) int     { return lo + r.Intn(hi-lo+1) } // inclusive
func (r *Rng) Bool() bool               { return r.U64()&1 == 1 }
func (r *Rng) Chance(num, den int) bool { return r.Intn(den) < num }
func Pick[T any](r *Rng, xs []T) T      { return xs[r.Intn(len(xs))] }
func (r *Rng) Fork() *Rng               { return NewRng(r.U64()) }
