package hx

import (
	"encoding/hex"
	"fmt"
	"strconv"
)

// Parse reads the text syntax back (used by --replay and corpus cases).
func Parse(s string) (Sx, error) {
	p := &parser{s: s}
	v, err := p.value()
	if err != nil {
		return nil, err
	}
	p.skip()
	if p.pos != len(s) {
		return nil, fmt.Errorf("trailing garbage at %d", p.pos)
	}
	return v, nil
}

func MustParse(s string) Sx {
	v, err := Parse(s)
	if err != nil {
		panic(err)
	}
	return v
}

type parser struct {
	s   string
	pos int
}

func (p *parser) skip() {
	for p.pos < len(p.s) && p.s[p.pos] == ' ' {
		p.pos++
	}
}

func (p *parser) value() (Sx, error) {
	p.skip()
	if p.pos >= len(p.s) {
		return nil, fmt.Errorf("unexpected end")
	}
	switch p.s[p.pos] {
	case '(':
		p.pos++
		var items []Sx
		for {
			p.skip()
			if p.pos >= len(p.s) {
				return nil, fmt.Errorf("unclosed list")
			}
			if p.s[p.pos] == ')' {
				p.pos++
				return lv{items}, nil
			}
			v, err := p.value()
			if err != nil {
				return nil, err
			}
			items = append(items, v)
		}
	case '#':
		p.pos++
		st := p.pos
		for p.pos < len(p.s) && p.s[p.pos] != ' ' && p.s[p.pos] != ')' {
			p.pos++
		}
		b, err := hex.DecodeString(p.s[st:p.pos])
		if err != nil {
			return nil, err
		}
		return bv{b}, nil
	default:
		st := p.pos
		for p.pos < len(p.s) && p.s[p.pos] != ' ' && p.s[p.pos] != ')' {
			p.pos++
		}
		return zv{p.s[st:p.pos]}, nil
	}
}

// Accessors (panic on shape errors: a malformed replay file is a usage error).
func Int(v Sx) int64 {
	z, ok := v.(zv)
	if !ok {
		panic("sx: integer expected, got " + String(v))
	}
	i, err := strconv.ParseInt(z.s, 10, 64)
	if err != nil {
		u, err2 := strconv.ParseUint(z.s, 10, 64)
		if err2 != nil {
			panic(err)
		}
		return int64(u)
	}
	return i
}
func Uint(v Sx) uint64 {
	z, ok := v.(zv)
	if !ok {
		panic("sx: integer expected, got " + String(v))
	}
	u, err := strconv.ParseUint(z.s, 10, 64)
	if err != nil {
		panic(err)
	}
	return u
}
func IsInt(v Sx) bool   { _, ok := v.(zv); return ok }
func IsBytes(v Sx) bool { _, ok := v.(bv); return ok }
func IsList(v Sx) bool  { _, ok := v.(lv); return ok }
func Bytes(v Sx) []byte {
	b, ok := v.(bv)
	if !ok {
		panic("sx: bytes expected, got " + String(v))
	}
	return append([]byte(nil), b.b...)
}
func Str(v Sx) string { return string(Bytes(v)) }
func Items(v Sx) []Sx {
	l, ok := v.(lv)
	if !ok {
		panic("sx: list expected, got " + String(v))
	}
	return l.l
}
func Truth(v Sx) bool { return Int(v) != 0 }
