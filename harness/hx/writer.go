package hx

import (
	"bufio"
	"encoding/json"
	"fmt"
	"hash/fnv"
	"os"
	"runtime"
	"sort"
	"strings"
)

// Writer records cases (one line each) and the statistics that go into the evidence file.
type Writer struct {
	f        *os.File
	w        *bufio.Writer
	Evals    int
	nontriv  map[uint64]struct{}
	all      map[uint64]struct{}
	Streams  map[string]int
	Dist     map[string]int // free-form input distribution counters
	Samples  []map[string]string
	perStrm  map[string]int
	Rule     string
	Notes    []string
	Oracles  map[string]int // oracle hypothesis name -> times checked
	OracleKO []string       // failed oracle hypotheses (name: detail)
}

func NewWriter(path string) *Writer {
	f, err := os.Create(path)
	if err != nil {
		panic(err)
	}
	return &Writer{f: f, w: bufio.NewWriterSize(f, 1<<20), nontriv: map[uint64]struct{}{}, all: map[uint64]struct{}{},
		Streams: map[string]int{}, Dist: map[string]int{}, perStrm: map[string]int{}, Oracles: map[string]int{}}
}

func h64(s string) uint64 { h := fnv.New64a(); h.Write([]byte(s)); return h.Sum64() }

// Case writes one case line. nontrivial: whether the case is non-trivial by the harness' stated Rule.
func (w *Writer) Case(stream string, which int, c Sx, obs Sx, nontrivial bool) {
	cs, os_ := String(c), String(obs)
	fmt.Fprintf(w.w, "%s\t%d\t%s\t%s\n", stream, which, cs, os_)
	w.Evals++
	w.Streams[stream]++
	k := h64(fmt.Sprintf("%d|%s", which, cs))
	w.all[k] = struct{}{}
	if nontrivial {
		w.nontriv[k] = struct{}{}
	}
	if w.perStrm[stream] < 2 || (nontrivial && w.perStrm[stream] < 4 && len(cs) > 12) {
		w.perStrm[stream]++
		w.Samples = append(w.Samples, map[string]string{"stream": stream, "case": clip(cs, 400), "observed": clip(os_, 400)})
	}
}

func clip(s string, n int) string {
	if len(s) > n {
		return s[:n] + "…"
	}
	return s
}

func (w *Writer) Count(key string) { w.Dist[key]++ }
func (w *Writer) Oracle(name string, ok bool, detail string) {
	w.Oracles[name]++
	if !ok && len(w.OracleKO) < 20 {
		w.OracleKO = append(w.OracleKO, name+": "+detail)
	}
}

// Close flushes the case file and writes the statistics JSON.
func (w *Writer) Close(statsPath string) {
	w.w.Flush()
	w.f.Close()
	st := map[string]any{
		"evaluations": w.Evals, "distinct": len(w.all), "distinct_nontrivial": len(w.nontriv),
		"streams": w.Streams, "distribution": w.Dist, "samples": w.Samples, "rule": w.Rule,
		"notes": w.Notes, "oracles_checked": w.Oracles, "oracle_failures": w.OracleKO,
	}
	b, _ := json.MarshalIndent(st, "", " ")
	if err := os.WriteFile(statsPath, b, 0o644); err != nil {
		panic(err)
	}
}

// Catch runs f and returns "" or a canonical description of the panic: "PANIC <first frame inside
// github.com/ozontech/file.d> <runtime error class>".
func Catch(f func()) (res string) {
	defer func() {
		if r := recover(); r != nil {
			res = "PANIC " + PanicSite() + " " + panicClass(fmt.Sprint(r))
		}
	}()
	f()
	return ""
}

func panicClass(msg string) string {
	switch {
	case strings.Contains(msg, "slice bounds out of range"):
		return "slice-bounds"
	case strings.Contains(msg, "index out of range"):
		return "index-range"
	case strings.Contains(msg, "nil pointer"):
		return "nil-deref"
	case strings.Contains(msg, "closed channel"):
		return "closed-channel"
	}
	if len(msg) > 60 {
		msg = msg[:60]
	}
	return strings.ReplaceAll(strings.ReplaceAll(msg, "\t", " "), "\n", " ")
}

// PanicSite: the innermost frame (while unwinding) that belongs to the repository.
func PanicSite() string {
	pcs := make([]uintptr, 64)
	n := runtime.Callers(3, pcs)
	frames := runtime.CallersFrames(pcs[:n])
	for {
		fr, more := frames.Next()
		if strings.Contains(fr.Function, "github.com/ozontech/file.d/") && !strings.Contains(fr.File, "verif_export") {
			fn := fr.Function[strings.Index(fr.Function, "file.d/")+len("file.d/"):]
			return fn
		}
		if !more {
			break
		}
	}
	return "?"
}

func SortedKeys[V any](m map[string]V) []string {
	ks := make([]string, 0, len(m))
	for k := range m {
		ks = append(ks, k)
	}
	sort.Strings(ks)
	return ks
}
