package hx

import (
	insaneJSON "github.com/ozontech/insane-json"
)

// JSON converts an insane-json node into the exchange encoding of coq/Base/Json.v:
// 0 null | (1 b) | (2 #raw) | (3 #str) | (4 v ...) | (5 (#key v) ...)
func JSON(n *insaneJSON.Node) Sx {
	switch {
	case n == nil || n.IsNil():
		return L(I(9)) // nil node: not a JSON value
	case n.IsNull():
		return I(0)
	case n.IsTrue():
		return L(I(1), I(1))
	case n.IsFalse():
		return L(I(1), I(0))
	case n.IsNumber():
		return L(I(2), S(n.AsString()))
	case n.IsString():
		return L(I(3), S(n.AsString()))
	case n.IsArray():
		items := []Sx{I(4)}
		for _, x := range n.AsArray() {
			items = append(items, JSON(x))
		}
		return L(items...)
	case n.IsObject():
		items := []Sx{I(5)}
		for _, f := range n.AsFields() {
			items = append(items, L(S(f.AsString()), JSON(f.AsFieldValue())))
		}
		return L(items...)
	}
	return L(I(9))
}

// EncodeJSON renders the exchange encoding back into JSON text (strings escaped by insane-json's
// own escaper through a scratch root), used to build events from generated trees.
func JSONText(v Sx) string {
	root := insaneJSON.Spawn()
	defer insaneJSON.Release(root)
	var rec func(v Sx) string
	rec = func(v Sx) string {
		if IsInt(v) {
			return "null"
		}
		it := Items(v)
		switch Int(it[0]) {
		case 1:
			if Truth(it[1]) {
				return "true"
			}
			return "false"
		case 2:
			return Str(it[1])
		case 3:
			return string(insaneEscape(Str(it[1])))
		case 4:
			s := "["
			for i, x := range it[1:] {
				if i > 0 {
					s += ","
				}
				s += rec(x)
			}
			return s + "]"
		case 5:
			s := "{"
			for i, f := range it[1:] {
				if i > 0 {
					s += ","
				}
				kv := Items(f)
				s += string(insaneEscape(Str(kv[0]))) + ":" + rec(kv[1])
			}
			return s + "}"
		}
		return "null"
	}
	return rec(v)
}

const hexd = "0123456789abcdef"

// insaneEscape: a plain JSON string escaper (quotes, backslash, control characters); bytes >= 0x80
// are passed through untouched so invalid UTF-8 can be generated on purpose.
func insaneEscape(s string) []byte {
	out := []byte{'"'}
	for i := 0; i < len(s); i++ {
		c := s[i]
		switch {
		case c == '"' || c == '\\':
			out = append(out, '\\', c)
		case c == '\n':
			out = append(out, '\\', 'n')
		case c == '\r':
			out = append(out, '\\', 'r')
		case c == '\t':
			out = append(out, '\\', 't')
		case c < 0x20:
			out = append(out, '\\', 'u', '0', '0', hexd[c>>4], hexd[c&15])
		default:
			out = append(out, c)
		}
	}
	return append(out, '"')
}
