// Package hx: shared pieces of the correspondence harness — the sx exchange syntax, the case
// writer with its statistics, the single PRNG, panic capture.
package hx

import (
	"encoding/hex"
	"strconv"
	"strings"
)

// Sx is a value of the exchange format: integer | byte string | list.
type Sx interface{ write(b *strings.Builder) }

type zv struct{ s string }
type bv struct{ b []byte }
type lv struct{ l []Sx }

func (v zv) write(b *strings.Builder) { b.WriteString(v.s) }
func (v bv) write(b *strings.Builder) { b.WriteByte('#'); b.WriteString(hex.EncodeToString(v.b)) }
func (v lv) write(b *strings.Builder) {
	b.WriteByte('(')
	for i, x := range v.l {
		if i > 0 {
			b.WriteByte(' ')
		}
		x.write(b)
	}
	b.WriteByte(')')
}

func Z(i int64) Sx  { return zv{strconv.FormatInt(i, 10)} }
func U(i uint64) Sx { return zv{strconv.FormatUint(i, 10)} }
func I(i int) Sx    { return zv{strconv.Itoa(i)} }
func B(b []byte) Sx { return bv{append([]byte(nil), b...)} }
func S(s string) Sx { return bv{[]byte(s)} }
func L(xs ...Sx) Sx { return lv{xs} }
func Bool(b bool) Sx {
	if b {
		return zv{"1"}
	}
	return zv{"0"}
}
func List[T any](xs []T, f func(T) Sx) Sx {
	out := make([]Sx, len(xs))
	for i, x := range xs {
		out[i] = f(x)
	}
	return lv{out}
}
func Bs(xs [][]byte) Sx { return List(xs, B) }
func Ss(xs []string) Sx { return List(xs, S) }

func String(v Sx) string {
	var b strings.Builder
	v.write(&b)
	return b.String()
}
