package main

// C01 — commit frontier safety.
// Real pipeline (streamer, streams, processors, pools, router, batchers) driven by harness/pipedrv.

import (
	"verif/harness/hmain"
	"verif/harness/hx"
	"verif/harness/pipedrv"
)

func gen(c *hmain.Ctx) {
	var jobs []*pipedrv.Job
	add := func(stream string, o pipedrv.Opts, n int) {
		for i := 0; i < n*c.Scale; i++ {
			jobs = append(jobs, &pipedrv.Job{Stream: stream, Case: pipedrv.GenCase(c.R, o)})
		}
	}
	add("basic", pipedrv.FamBasic, 60)
	add("hold", pipedrv.FamHold, 80)
	add("split", pipedrv.FamSplit, 30)
	add("two-holders", pipedrv.FamTwoHolders, 40)
	add("retry", pipedrv.FamRetry, 30)
	add("deadqueue", pipedrv.FamDeadQ, 30)
	for i := 0; i < 4; i++ {
		jobs = append(jobs, &pipedrv.Job{Stream: "deadqueue", Case: pipedrv.DeadQOvertake(1+i%2, 120+20*i, 50+10*i)})
	}
	// families that cross the scale / history thresholds of /repo/pipeline (what each would expose: pipedrv/gen.go)
	add("capacity-1", pipedrv.FamCap1, 10)
	add("slow-flush", pipedrv.FamSlowFlush, 10)
	add("hold-slow", pipedrv.FamHoldSlow, 8)
	add("recycle", pipedrv.FamRecycle, 12)
	add("split-fan", pipedrv.FamSplitFan, 15)
	add("retry-backoff", pipedrv.FamRetryBackoff, 10)
	add("maintenance", pipedrv.FamMaint, 6)
	// both causes of a retry give-up: attempts used up / backoff.Stop on the first failure with attempts remaining or
	// unlimited (MinRetention past the 15 min MaxElapsedTime crossing), without and with a (blocking) dead queue.  The
	// dead-queue cases share the stream (and the recorded frontier finding) of the older dead-queue family
	add("retry-stop", pipedrv.FamRetryStop, 14)
	// families first built for C02 / C04 (a discard overtaking a held event, the stream
	// time-out racing a put, processors added at run time): a frontier violation can hide behind each of them too
	// (the commit-race family, 1500-2500 events per case, stays with C02 / C04 / C05: the frontier monitors of C01 are
	// quadratic in the trace length)
	add("discard-before-hold", pipedrv.FamDiscardBeforeHold, 20)
	for i := 0; i < 8*c.Scale; i++ {
		jobs = append(jobs, &pipedrv.Job{Stream: "timeout-vs-put", Case: pipedrv.TimeoutVsPut(2+2*(i%2), i%4 < 2, i%8 < 4)})
	}
	for i := 0; i < c.Scale; i++ {
		jobs = append(jobs, &pipedrv.Job{Stream: "expand-procs", Case: pipedrv.ExpandProcs(2500, 1600, 2+i%3, i%2 == 1)})
	}
	add("deadqueue", pipedrv.FamDeadQStop, 16)
	for i, retry := range []int{3, -1, 1, 0} {
		for _, dq := range []bool{false, true} {
			st := "retry-stop"
			if dq {
				st = "deadqueue"
			}
			for _, retention := range []int{pipedrv.StopRetentions[i%3], 1} {
				for k := 0; k < c.Scale; k++ {
					jobs = append(jobs, &pipedrv.Job{Stream: st, Case: pipedrv.StopGiveUp(1+(i+k)%2, 1+(i+k)%3, retry, dq, 120*((i+k+1)%2), retention)})
				}
			}
		}
	}
	// families that reach code of the anchored files no older family executes (notes/coverage/C01-triage.md; what each
	// would expose: pipedrv/gen.go)
	for _, f := range pipedrv.CoverageFamilies(16, 10, 10, 24, 8) {
		add(f.Stream, f.Opts, f.N)
	}
	jobs = append(jobs, pipedrv.DirectedStops(c.Scale)...)
	pipedrv.RunJobs(jobs, 40)
	for _, j := range jobs {
		pipedrv.Stats(c.W.Count, j)
		c.W.Case(j.Stream, 0, j.Case, j.Obs, true)
	}
}

func main() {
	pipedrv.UseProductionNodePool()
	hmain.Run(&hmain.Prop{ID: "C01",
		Rule: "each case = (pipeline config: processors, pool kind/capacity, event time-out, action count, output kind/workers/batch size/retry/dead queue; per-source feeder scripts of JSON events whose 'ops' field scripts every action: pass/discard/hold/continue/break/split; send delay/failure plan) run on the real pipeline; observable = label trace of streams, processors, finalize, batchers. Threshold-crossing families: capacity-1, slow-flush (flush >= 100 ms), hold-slow (event time-out > 200 ms), recycle (feeder op 6: pads up to 64 KiB / > 64 JSON nodes; op 'g' grows Buf; 4th case element = (avgEventSize retentionMs multiplierPercent maintenanceMs)), split-fan (0-14 children with their own ops), retry-backoff, maintenance; directed expand-procs / stale-unblock-slow. retry-stop / deadqueue: retry counts -3..3 x MinRetention 1 ms | 31 min, 1 h, 24 h (past the backoff library's 15 min MaxElapsedTime crossing: give-up by backoff.Stop on the first failure, attempts remaining or unlimited) x dead queue off / on, its sends blocking 0-150 ms (5th ext element); directed stop-give-up schedules. Coverage families (notes/coverage): in-variety (ext's 6th element = ((key value) ...) options of pipedrv.xopts: decoder raw / cri / auto / suggested, MaxEventSize drop / cut-off, antispam threshold, meta data, source-name meta field, saved stream offsets; empty records, non-CRI lines), match-variety (match modes or / and_prefix / or_prefix / do_if / invert, metric options), file-commit (InputPlugin.Commit handed to the real file-input jobProvider.commit: labels 118 / 119), early-stop (Pipeline.Stop with events in flight, random and directed stop-while-held; feeder op 7 asks for the stop; labels 116 / 120), batch-bytes (BatchSizeBytes). Every case is non-trivial (>= 3 events); distinct = distinct case text.",
		Gen: gen, Exec: func(which int, cs hx.Sx) hx.Sx { return pipedrv.RunCase(cs) }})
}
