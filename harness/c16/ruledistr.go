package main

// C16 — rules that carry their OWN limit_distribution (in-memory backend).
//
//	which=11  a plain throttle.Plugin started through the public API (Start / Do / Stop) whose rules each have
//	          conditions, a limit of their own and a limit_distribution of their own; the last rule of the case is the
//	          default rule (default_limit + the plugin-level limit_distribution).  The clock is injected on the
//	          plugin's limiters map (limitersMap.setNowFn by go:linkname, as the redis stream does).
//	          case = (count interval (rule ...) (event ...)),  rule = (limit kind ((field value) ...) groups),
//	                 groups = ((percent (value-id ...)) ...),  event = (now ts size dv ((field value) ...)),
//	                 dv = -1 | value id: the event's field "d" is "v<id>" / "w<id>" (both listed), for -1 "unlisted" / absent
//	          obs  = ((decision ...) final)   final = (0 (limiter-map key ...)) sorted | (2)
//
// The specification (Model/Throttle.v, spec_cfg): the limiter of a key has the limit of the first matching rule and
// share(value) = round(ratio x THAT rule's limit), default share round((1 - sum) x that same limit).

import (
	"reflect"
	"sort"
	"sync"
	"sync/atomic"
	"time"
	"unsafe"

	"github.com/ozontech/file.d/plugin/action/throttle"

	"verif/harness/hmain"
	"verif/harness/hx"
)

func exec11(cs hx.Sx) hx.Sx {
	it := hx.Items(cs)
	count, interval := int(hx.Int(it[0])), hx.Int(it[1])
	rs := hx.Items(it[2])
	pc := pubCfg{name: freshName("ruledistr"), count: count, interval: time.Duration(interval)}
	for i, r := range rs {
		f := hx.Items(r)
		d := distrConfig(groupsOf(f[3]))
		if i == len(rs)-1 {
			pc.defLimit, pc.defKind, pc.distr = hx.Int(f[0]), kindName(hx.Int(f[1])), &d
			break
		}
		conds := map[string]string{}
		for _, kv := range kvs(f[2]) {
			conds[kv[0]] = kv[1]
		}
		pc.rules = append(pc.rules, throttle.VerifC16Rule{Limit: hx.Int(f[0]), Kind: kindName(hx.Int(f[1])), Conds: conds})
		pc.ruleDistr = append(pc.ruleDistr, d)
	}
	var (
		pi        *pubInst
		lm        reflect.Value
		clk       atomic.Int64
		decisions []hx.Sx
	)
	msg := hx.Catch(func() {
		pi = newPub(pc)
		lm = fld(reflect.ValueOf(pi.p).Elem(), "limitersMap").Elem()
		c16LmSetNowFn(unsafe.Pointer(lm.UnsafeAddr()), func() time.Time { return time.Unix(0, clk.Load()) }, true)
	})
	if pi != nil {
		defer dropPipeline(pc.name)
		defer pi.p.Stop()
	}
	if msg == "" {
		for n, e := range hx.Items(it[3]) {
			f := hx.Items(e)
			now, ts, size, dv := hx.Int(f[0]), hx.Int(f[1]), int(hx.Int(f[2])), int(hx.Int(f[3]))
			fields := kvs(f[4])
			if dv >= 0 {
				fields = append(fields, [2]string{"d", dvValues(dv)[n%2]})
			} else if n%2 == 0 {
				fields = append(fields, [2]string{"d", "unlisted"})
			}
			clk.Store(now)
			tf := time.Unix(0, ts).UTC().Format(time.RFC3339Nano)
			var ok bool
			if msg = hx.Catch(func() { ok = pi.do(&tf, size, fields) }); msg != "" {
				break
			}
			decisions = append(decisions, hx.Bool(ok))
		}
	}
	if msg != "" {
		return hx.L(hx.L(decisions...), hx.L(hx.I(2)))
	}
	mu := (*sync.RWMutex)(fld(lm, "mu").UnsafePointer())
	mu.RLock()
	var keys []string
	for _, k := range fld(lm, "lims").MapKeys() {
		keys = append(keys, k.String())
	}
	mu.RUnlock()
	sort.Strings(keys)
	return hx.L(hx.L(decisions...), hx.L(hx.I(0), hx.Ss(keys)))
}

// ---- the specified shares, as the model computes them (whole percents, exact arithmetic) ----------------------------

func shareOf(lm, pct int64) int64 { return (2*pct*lm + 100) / 200 }

func gsumOf(gs []group) int64 {
	var s int64
	for _, g := range gs {
		s += g.pct
	}
	return s
}

// mirrors shares_exact of Model/Throttle.v: what float64 decides exactly (no x.5 tie unless the ratio is 0, 1/4, 1/2, 3/4
// or 1; ratios summing to exactly 1 only when all are such)
func sharesExact(lm int64, gs []group) bool {
	if len(gs) == 0 {
		return true
	}
	if lm < 0 || lm > 1_000_000_000_000 {
		return false
	}
	sum := gsumOf(gs)
	if sum > 100 {
		return false
	}
	qs := []int64{100 - sum}
	for _, g := range gs {
		qs = append(qs, g.pct)
		if sum == 100 && g.pct%25 != 0 {
			return false
		}
	}
	for _, q := range qs {
		if (q*lm)%100 == 50 && q%25 != 0 {
			return false
		}
	}
	return true
}

// the largest specified share of a rule (the whole limit without distribution)
func maxShare(lm int64, gs []group) int64 {
	if len(gs) == 0 {
		return lm
	}
	m := shareOf(lm, 100-gsumOf(gs))
	for _, g := range gs {
		m = max(m, shareOf(lm, g.pct))
	}
	return m
}

type rdRule struct {
	limit int64
	kind  int
	conds [][2]string
	gs    []group
}

func (r rdRule) sx() hx.Sx { return hx.L(hx.Z(r.limit), hx.I(r.kind), kvSx(r.conds), mkGroups(r.gs)) }

func mkDev(now, ts int64, size, dv int, f [][2]string) hx.Sx {
	return hx.L(hx.Z(now), hx.Z(ts), hx.I(size), hx.I(dv), kvSx(f))
}

// a distribution whose shares of lm float64 decides exactly: 1-3 ratios out of whole percents (not only round ones),
// value ids 0..5, sometimes two ids in one ratio; nil when 20 draws did not give one
func rdGroups(r *hx.Rng, lm int64) []group {
	pcts := []int64{1, 5, 10, 15, 20, 25, 30, 33, 40, 45, 50, 60, 75}
	for try := 0; try < 20; try++ {
		ids := []int64{0, 1, 2, 3, 4, 5}
		for i := len(ids) - 1; i > 0; i-- {
			j := r.Intn(i + 1)
			ids[i], ids[j] = ids[j], ids[i]
		}
		n := r.Range(1, 3)
		var gs []group
		for i := 0; i < n; i++ {
			g := group{pct: hx.Pick(r, pcts), ids: []int64{ids[i]}}
			if r.Chance(1, 4) {
				g.ids = append(g.ids, ids[3+i])
			}
			gs = append(gs, g)
		}
		if sharesExact(lm, gs) {
			return gs
		}
	}
	return nil
}

// Round 5 (seed C16-r5-rule-distribution-default-limit): rules with conditions + their own limit + their own
// limit_distribution, the rule's limit different from default_limit in both directions, count and size kinds; the
// default rule with and without a plugin-level distribution.  Bursts of one (key, rule, value) at one instant run past
// the specified share of that value, so a share computed from any other limit changes a decision.
// Regression it exposes: a rule's shares derived from default_limit (or the default rule's from a rule's limit), one
// parsed distribution reused for every rule, a rule's distribution ignored (whole limit per value) or applied to the
// default rule, truncated instead of rounded rule shares.  The predicate (c16_pred11) judges the decisions against the
// reference semantics with the SPECIFIED shares: Violates with the case as replay.
func genRuleDistr(c *hmain.Ctx) {
	r := c.R
	tag := func(rules []rdRule) {
		def := rules[len(rules)-1]
		for _, ru := range rules[:len(rules)-1] {
			if len(ru.gs) == 0 {
				continue
			}
			switch {
			case ru.limit < def.limit:
				c.W.Count("rule_distr_rule_limit_below_default_limit")
			case ru.limit > def.limit:
				c.W.Count("rule_distr_rule_limit_above_default_limit")
			default:
				c.W.Count("rule_distr_rule_limit_equals_default_limit")
			}
			c.W.Count("rule_distr_rule_kind_" + kindName(int64(ru.kind)))
		}
		if len(def.gs) > 0 {
			c.W.Count("rule_distr_with_plugin_level_distribution")
		}
	}
	emit := func(stream string, count int, interval int64, rules []rdRule, evs []hx.Sx) {
		rs := make([]hx.Sx, len(rules))
		for i, ru := range rules {
			rs[i] = ru.sx()
		}
		c.Do(stream, 11, hx.L(hx.I(count), hx.Z(interval), hx.L(rs...), hx.L(evs...)), true)
		tag(rules)
	}
	// (a) directed: one rule (a = x) with limit L split 40 % / 30 % (default 30 %) next to default_limit D, every pair
	// with L < D and L > D, both kinds, the default rule without and with a plugin-level distribution (50 % for value 2).
	// Per (rule | default rule) x (value 0, 1, 2, unlisted) a burst of share + 2 events (at most 14) at one instant, then
	// the same into the previous bucket.
	pairs := [][2]int64{{10, 5000}, {10, 1}, {20, 10}, {4, 100}, {100, 10}, {7, 5000}, {1, 5000}, {5000, 10}, {10, 10}}
	for pi, pr := range pairs {
		for kind := 0; kind < 2; kind++ {
			L, D := pr[0], pr[1]
			rule := rdRule{limit: L, kind: kind, conds: [][2]string{{"a", "x"}}, gs: []group{{40, []int64{0}}, {30, []int64{1}}}}
			def := rdRule{limit: D, kind: (kind + pi) % 2}
			if (pi+kind)%2 == 1 {
				def.gs = []group{{50, []int64{2}}}
			}
			if !sharesExact(L, rule.gs) || !sharesExact(D, def.gs) {
				panic("harness/c16: directed rule-distribution case is not exact")
			}
			count, interval := 2, int64(60_000_000_000)
			now := int64(count)*interval + 12345
			var evs []hx.Sx
			for _, ts := range []int64{now, now - interval} {
				for _, target := range []rdRule{rule, def} {
					n := int(min(maxShare(target.limit, target.gs)+2, 14))
					for _, dv := range []int{0, 1, 2, -1} {
						for i := 0; i < n; i++ {
							evs = append(evs, mkDev(now, ts, 1, dv, append([][2]string{{"k", "k1"}}, target.conds...)))
						}
					}
				}
			}
			emit("rule-distribution-directed", count, interval, []rdRule{rule, def}, evs)
		}
	}
	// (b) random: 1-3 rules over field a (first match wins: two rules may have the same condition), limits 0..50 and
	// unlimited, distributions of 1-3 ratios, default_limit from 1 to 5000; bursts over two keys, clock steps, event
	// times in older buckets / outside the window
	avals := []string{"x", "y", "z"}
	for n := 0; n < 70*c.Scale; n++ {
		count := r.Range(1, 3)
		interval := hx.Pick(r, []int64{1_000_000_000, 60_000_000_000})
		var rules []rdRule
		for i := r.Range(1, 3); i > 0; i-- {
			ru := rdRule{limit: hx.Pick(r, []int64{2, 3, 4, 5, 8, 10, 12, 20, 25, 50}), kind: r.Intn(2), conds: [][2]string{{"a", hx.Pick(r, avals)}}}
			if r.Chance(1, 5) {
				ru.conds = append(ru.conds, [2]string{"b", hx.Pick(r, []string{"", "x"})})
			}
			switch {
			case r.Chance(1, 12):
				ru.limit = -1 // unlimited: no distribution (the shares of a negative limit are not specified)
			case r.Chance(1, 12):
				ru.limit, ru.gs = 0, rdGroups(r, 0)
			case r.Chance(4, 5):
				ru.gs = rdGroups(r, ru.limit)
			}
			rules = append(rules, ru)
		}
		def := rdRule{limit: hx.Pick(r, []int64{1, 2, 5, 10, 50, 100, 1000, 5000}), kind: r.Intn(2)}
		if r.Chance(1, 2) {
			def.gs = rdGroups(r, def.limit)
		}
		rules = append(rules, def)
		window := int64(count) * interval
		now := window + int64(r.Intn(1<<30))
		var evs []hx.Sx
		for nb := r.Range(6, 14); nb > 0; nb-- {
			switch r.Intn(8) {
			case 0, 1:
				now += interval
			case 2:
				now += int64(r.Intn(int(min64(2*window, 1<<40)) + 1))
			case 3:
				now += int64(r.Intn(int(min64(interval, 1<<30)) + 1))
			}
			ts := now
			switch r.Intn(8) {
			case 0, 1:
				ts = now - int64(r.Intn(count))*interval
			case 2:
				ts = now - int64(r.Intn(int(min64(window+interval, 1<<40))+1))
			case 3:
				ts = now + int64(r.Intn(int(min64(window, 1<<40))+1))
			}
			f := [][2]string{{"k", hx.Pick(r, []string{"k1", "k2"})}}
			if !r.Chance(1, 4) {
				f = append(f, [2]string{"a", hx.Pick(r, avals)})
			}
			if r.Chance(1, 6) {
				f = append(f, [2]string{"b", "x"})
			}
			dv := r.Range(-1, 5)
			if r.Chance(1, 3) {
				dv = -1
			}
			for j := r.Range(1, 9); j > 0; j-- {
				evs = append(evs, mkDev(now, ts, 1+r.Intn(2), dv, f))
			}
		}
		emit("rule-distribution", count, interval, rules, evs)
	}
}
