package main

// C16 — streams that cross the scale / history thresholds of plugin/action/throttle (audit items 5-9).
//
//	which=3  one limiter, run-length encoded history.
//	         case = (count interval kind limit deflimit (share ...) (seg ...)), seg = (reps now ts size dv step)
//	         obs  = (((bit n) ...) final)  decisions as maximal runs, final as for which=0
//	which=4  several Plugin instances of ONE pipeline (shared limiters map), driven in sequence.
//	         case = (ninst count interval (rule ...) (event ...)), event = (inst now tsspec size ((field value) ...))
//	         tsspec = ns | (sec nsec) | #raw-time-field.  Instance 0 is built by VerifC16NewPlugin and owns the
//	         injected clock; instances >= 1 are plain throttle.Plugin values started through the public API
//	         under the same pipeline name.  obs as for which=1
//	which=5  the same, instances >= 1 driven concurrently (one goroutine each) after the events of instance 0.
//	         case = (count interval (rule ...) now (((size ((field value) ...)) ...) ...))
//	         obs  = (((decision ...) ...) final)
//	which=6  limiter expiry on the REAL clock.  case = (count interval limit exp_ms (item ...)),
//	         item = (0 key) | (1 rounds gap_ms (hotkey ...)).  obs = (decision ...)
//	which=7  effective shares of a limit distribution with ratios num/den, measured on a started Plugin.
//	         case = (total den (num ...))   obs = (0 (default share ...)) | (1 1) | (1 2) | (1 9)
//	which=8  = which=7, judged in addition by "the shares add up to at most the limit" (known finding, gated)

import (
	"bytes"
	"fmt"
	"math/big"
	"os"
	"path/filepath"
	"strings"
	"sync"
	"sync/atomic"
	"time"

	insaneJSON "github.com/ozontech/insane-json"
	"github.com/prometheus/client_golang/prometheus"
	"go.uber.org/zap"
	"go.uber.org/zap/zapcore"

	"github.com/ozontech/file.d/cfg"
	"github.com/ozontech/file.d/metric"
	"github.com/ozontech/file.d/pipeline"
	"github.com/ozontech/file.d/plugin/action/throttle"
	"github.com/ozontech/file.d/xtime"

	"verif/harness/hmain"
	"verif/harness/hx"
)

var pubSeq atomic.Int64

func freshName(tag string) string { return fmt.Sprintf("verif-c16-%s-%d", tag, pubSeq.Add(1)) }

// ---- a throttle.Plugin started through the public API only ---------------------------------------------

type pubInst struct {
	p    *throttle.Plugin
	root *insaneJSON.Root
}

type pubCfg struct {
	name     string
	count    int
	interval time.Duration
	defLimit int64
	defKind  string
	rules    []throttle.VerifC16Rule
	exp      time.Duration                     // 0 = the default (30m)
	distr    *throttle.LimitDistributionConfig // nil = none
	// limit_distribution of rules[i] (which=11); shorter than rules = none for the rest
	ruleDistr []throttle.LimitDistributionConfig
	noTime    bool   // time_field "": every event is timed by the real time.Now()
	keyField  string // redis_backend_config.limiter_key_field (must be inert under the memory backend)
	rawFmt    bool   // time_field_format given as a Go layout (the text of time.RFC3339Nano) instead of an alias
}

// the same configuration steps as VerifC16NewPlugin (throttle_field "k", time_field "time", in-memory backend).
// A Fatal of the plugin's logger (Start does that on a bad limit_distribution) becomes a panic.
func newPub(pc pubCfg) *pubInst {
	config := &throttle.Config{}
	config.ThrottleField = "k"
	config.DefaultLimit = pc.defLimit
	config.LimitKind = pc.defKind
	config.BucketsCount = pc.count
	for _, r := range pc.rules {
		config.Rules = append(config.Rules, throttle.RuleConfig{Limit: r.Limit, LimitKind: r.Kind, Conditions: r.Conds})
	}
	config.RedisBackendCfg.LimiterKeyField = cfg.FieldSelector(pc.keyField)
	if err := cfg.SetDefaultValues(config); err != nil {
		panic(err)
	}
	if err := cfg.Parse(config, nil); err != nil {
		panic(err)
	}
	config.DefaultLimit = pc.defLimit
	config.LimitKind = pc.defKind
	config.BucketsCount = pc.count
	config.BucketInterval_ = pc.interval
	for i, r := range pc.rules {
		config.Rules[i].Limit = r.Limit
		config.Rules[i].LimitKind = r.Kind
	}
	if pc.rawFmt { // not an alias: Start keeps the text as the layout
		config.TimeFieldFormat = time.RFC3339Nano
	}
	if pc.noTime { // SetDefaultValues turns an empty time_field into "time": cleared after it
		config.TimeField = ""
		config.TimeField_ = nil
	}
	if pc.exp > 0 {
		config.LimiterExpiration_ = pc.exp
	}
	if pc.distr != nil {
		config.LimitDistribution = *pc.distr
	}
	for i, d := range pc.ruleDistr {
		config.Rules[i].LimitDistribution = d
	}
	params := &pipeline.ActionPluginParams{
		PluginDefaultParams: pipeline.PluginDefaultParams{
			PipelineName:     pc.name,
			PipelineSettings: &pipeline.Settings{},
			MetricCtl:        metric.NewCtl("verif", prometheus.NewRegistry(), time.Minute, 0),
		},
		Logger: zap.NewNop().WithOptions(zap.WithFatalHook(zapcore.WriteThenPanic)).Sugar(),
	}
	p := &throttle.Plugin{}
	p.Start(config, params)
	return &pubInst{p: p, root: insaneJSON.Spawn()}
}

// one event {"time": timeField?, fields...} of the given raw size through the real Plugin.Do
func (pi *pubInst) do(timeField *string, size int, fields [][2]string) bool {
	_ = pi.root.DecodeString("{}")
	if timeField != nil {
		pi.root.AddFieldNoAlloc(pi.root, "time").MutateToString(*timeField)
	}
	for _, f := range fields {
		pi.root.AddFieldNoAlloc(pi.root, f[0]).MutateToString(f[1])
	}
	ev := &pipeline.Event{Root: pi.root, Size: size}
	return pi.p.Do(ev) == pipeline.ActionPass
}

// forget the limiters map of a pipeline that only public instances used (the package keeps it in a global
// map for ever; the export's Stop deletes the entry)
func dropPipeline(name string) {
	_ = hx.Catch(func() { throttle.VerifC16NewPlugin(name, 1, time.Hour, 1, "count", nil).Stop() })
}

func rulesOf(rs []hx.Sx) (rules []throttle.VerifC16Rule, defLimit int64, defKind string) {
	for _, r := range rs[:len(rs)-1] {
		f := hx.Items(r)
		conds := map[string]string{}
		for _, kv := range kvs(f[2]) {
			conds[kv[0]] = kv[1]
		}
		rules = append(rules, throttle.VerifC16Rule{Limit: hx.Int(f[0]), Kind: kindName(hx.Int(f[1])), Conds: conds})
	}
	def := hx.Items(rs[len(rs)-1])
	return rules, hx.Int(def[0]), kindName(hx.Int(def[1]))
}

// ---- which=3 -------------------------------------------------------------------------------------------

func exec3(cs hx.Sx) hx.Sx {
	it := hx.Items(cs)
	count, interval, kind := int(hx.Int(it[0])), hx.Int(it[1]), hx.Int(it[2])
	limit, deflimit := hx.Int(it[3]), hx.Int(it[4])
	var shares []int64
	var values [][]string
	for i, s := range hx.Items(it[5]) {
		shares = append(shares, hx.Int(s))
		values = append(values, dvValues(i))
	}
	var runs []hx.Sx
	cur, curN := false, 0
	push := func(ok bool) {
		if curN > 0 && ok != cur {
			runs = append(runs, hx.L(hx.Bool(cur), hx.I(curN)))
			curN = 0
		}
		cur = ok
		curN++
	}
	flush := func() {
		if curN > 0 {
			runs = append(runs, hx.L(hx.Bool(cur), hx.I(curN)))
			curN = 0
		}
	}
	var lim *throttle.VerifC16Limiter
	msg := hx.Catch(func() {
		lim = throttle.VerifC16NewLimiter(count, time.Duration(interval), kindName(kind), limit, deflimit, shares, values)
	})
	n := 0
	if msg == "" {
	segs:
		for _, sg := range hx.Items(it[6]) {
			f := hx.Items(sg)
			reps, now, ts, size, dv, step := int(hx.Int(f[0])), hx.Int(f[1]), hx.Int(f[2]), int(hx.Int(f[3])), int(hx.Int(f[4])), hx.Int(f[5])
			for i := 0; i < reps; i++ {
				hasD, dval := false, ""
				if dv >= 0 {
					hasD, dval = true, dvValues(dv)[n%2]
				} else if n%2 == 0 {
					hasD, dval = true, "unlisted"
				}
				var ok bool
				msg = hx.Catch(func() { ok = lim.IsAllowed(now, ts, size, hasD, dval) })
				if msg != "" {
					break segs
				}
				push(ok)
				n++
				now += step
				ts += step
			}
		}
	}
	flush()
	if msg != "" {
		return hx.L(hx.L(runs...), hx.L(hx.I(2)))
	}
	minID, maxID, ring := lim.State()
	rows := make([]hx.Sx, len(ring))
	for i, r := range ring {
		rows[i] = hx.List(r, hx.Z)
	}
	return hx.L(hx.L(runs...), hx.L(hx.I(0), hx.L(hx.I(minID), hx.I(maxID), hx.L(rows...))))
}

// ---- which=4 / which=5 ---------------------------------------------------------------------------------

// the text of the time field of an event
func timeFieldOf(ts hx.Sx) string {
	switch {
	case hx.IsInt(ts):
		return time.Unix(0, hx.Int(ts)).UTC().Format(time.RFC3339Nano)
	case hx.IsBytes(ts):
		return hx.Str(ts)
	}
	p := hx.Items(ts)
	return time.Unix(hx.Int(p[0]), hx.Int(p[1])).UTC().Format(time.RFC3339Nano)
}

type shared struct {
	name string
	own  *throttle.VerifC16Plugin
	pubs []*pubInst // instance i >= 1 is pubs[i-1]
}

func newShared(ninst, count int, interval int64, rs []hx.Sx, noTime bool) *shared {
	rules, defLimit, defKind := rulesOf(rs)
	s := &shared{name: freshName("shared")}
	s.own = throttle.VerifC16NewPlugin(s.name, count, time.Duration(interval), defLimit, defKind, rules)
	for i := 1; i < ninst; i++ {
		pc := pubCfg{name: s.name, count: count, interval: time.Duration(interval), defLimit: defLimit, defKind: defKind, rules: rules}
		if noTime {
			pc.noTime, pc.keyField = true, "lk"
		}
		pc.rawFmt = i >= 2 // the third and fourth instance spell the time format out
		s.pubs = append(s.pubs, newPub(pc))
	}
	return s
}

func (s *shared) stop() {
	for _, p := range s.pubs {
		p.p.Stop()
	}
	if s.own != nil {
		s.own.Stop()
	}
}

func exec4(cs hx.Sx) hx.Sx { return exec4x(cs, false) }

// which=10: the instances >= 1 have no time field (and a limiter_key_field)
func exec10(cs hx.Sx) hx.Sx { return exec4x(cs, true) }

func exec4x(cs hx.Sx, noTime bool) hx.Sx {
	it := hx.Items(cs)
	ninst, count, interval := int(hx.Int(it[0])), int(hx.Int(it[1])), hx.Int(it[2])
	var s *shared
	var decisions []hx.Sx
	msg := hx.Catch(func() { s = newShared(ninst, count, interval, hx.Items(it[3]), noTime) })
	if s != nil {
		defer s.stop()
	}
	if msg == "" {
		for _, e := range hx.Items(it[4]) {
			f := hx.Items(e)
			inst := int(hx.Int(f[0]))
			var ok bool
			msg = hx.Catch(func() {
				if inst == 0 {
					ok = s.own.Do(hx.Int(f[1]), hx.Int(f[2]), int(hx.Int(f[3])), kvs(f[4]))
				} else {
					tf := timeFieldOf(f[2])
					ok = s.pubs[inst-1].do(&tf, int(hx.Int(f[3])), kvs(f[4]))
				}
			})
			if msg != "" {
				break
			}
			decisions = append(decisions, hx.Bool(ok))
		}
	}
	if msg != "" {
		return hx.L(hx.L(decisions...), hx.L(hx.I(2)))
	}
	return hx.L(hx.L(decisions...), hx.L(hx.I(0), hx.Ss(s.own.Keys())))
}

func exec5(cs hx.Sx) hx.Sx {
	it := hx.Items(cs)
	count, interval, now := int(hx.Int(it[0])), hx.Int(it[1]), hx.Int(it[3])
	lists := hx.Items(it[4])
	var s *shared
	out := make([][]hx.Sx, len(lists))
	msg := hx.Catch(func() { s = newShared(len(lists), count, interval, hx.Items(it[2]), false) })
	if s != nil {
		defer s.stop()
	}
	if msg == "" {
		// instance 0 first, in sequence: it sets the injected clock that every limiter reads
		for _, e := range hx.Items(lists[0]) {
			f := hx.Items(e)
			var ok bool
			if msg = hx.Catch(func() { ok = s.own.Do(now, now, int(hx.Int(f[0])), kvs(f[1])) }); msg != "" {
				break
			}
			out[0] = append(out[0], hx.Bool(ok))
		}
	}
	if msg == "" {
		tf := time.Unix(0, now).UTC().Format(time.RFC3339Nano)
		msgs := make([]string, len(lists))
		var wg sync.WaitGroup
		start := make(chan struct{})
		for i := 1; i < len(lists); i++ {
			wg.Add(1)
			go func(i int) {
				defer wg.Done()
				evs := hx.Items(lists[i])
				type ev struct {
					size int
					kv   [][2]string
				}
				dec := make([]ev, len(evs))
				for j, e := range evs {
					f := hx.Items(e)
					dec[j] = ev{int(hx.Int(f[0])), kvs(f[1])}
				}
				<-start
				for _, e := range dec {
					var ok bool
					if m := hx.Catch(func() { ok = s.pubs[i-1].do(&tf, e.size, e.kv) }); m != "" {
						msgs[i] = m
						return
					}
					out[i] = append(out[i], hx.Bool(ok))
				}
			}(i)
		}
		close(start)
		wg.Wait()
		for _, m := range msgs {
			if m != "" {
				msg = m
			}
		}
	}
	ds := make([]hx.Sx, len(out))
	for i := range out {
		ds[i] = hx.L(out[i]...)
	}
	if msg != "" {
		return hx.L(hx.L(ds...), hx.L(hx.I(2)))
	}
	return hx.L(hx.L(ds...), hx.L(hx.I(0), hx.Ss(s.own.Keys())))
}

// ---- which=6: expiry on the real clock -----------------------------------------------------------------

var (
	expMu   sync.Mutex
	expMemo = map[string]chan hx.Sx{}
)

// started early by the generator so that the seconds of real time overlap with the other streams
func expiryPrefetch(cs hx.Sx) {
	ch := make(chan hx.Sx, 1)
	expMu.Lock()
	expMemo[hx.String(cs)] = ch
	expMu.Unlock()
	go func() { ch <- runExpiry(cs) }()
}

func exec6(cs hx.Sx) hx.Sx {
	expMu.Lock()
	ch, ok := expMemo[hx.String(cs)]
	delete(expMemo, hx.String(cs))
	expMu.Unlock()
	if ok {
		return <-ch
	}
	return runExpiry(cs)
}

var expiryReruns atomic.Int64

func runExpiry(cs hx.Sx) hx.Sx {
	var obs hx.Sx
	for try := 0; try < 4; try++ {
		var valid bool
		obs, valid = runExpiryOnce(cs)
		if valid {
			break
		}
		expiryReruns.Add(1)
	}
	return obs
}

// valid = the timing assumptions of the case held: the real clock stayed inside one bucket and no burst of
// back-to-back events took longer than a second (a descheduled harness)
func runExpiryOnce(cs hx.Sx) (hx.Sx, bool) {
	it := hx.Items(cs)
	count, interval, limit, expMs := int(hx.Int(it[0])), hx.Int(it[1]), hx.Int(it[2]), hx.Int(it[3])
	name := freshName("exp")
	var p *pubInst
	var decisions []hx.Sx
	valid := true
	bucket0 := time.Now().UnixNano() / interval
	msg := hx.Catch(func() {
		p = newPub(pubCfg{name: name, count: count, interval: time.Duration(interval), defLimit: limit, defKind: "count",
			exp: time.Duration(expMs) * time.Millisecond})
	})
	if p != nil {
		defer dropPipeline(name)
		defer p.p.Stop()
	}
	hit := func(key string) bool {
		var ok bool
		if msg == "" {
			// no time field: Plugin.isAllowed falls back to time.Now()
			if msg = hx.Catch(func() { ok = p.do(nil, 1, [][2]string{{"k", key}}) }); msg == "" {
				decisions = append(decisions, hx.Bool(ok))
			}
		}
		return ok
	}
	burst := time.Now()
	for _, item := range hx.Items(it[4]) {
		f := hx.Items(item)
		if hx.Int(f[0]) == 0 {
			hit(hx.Str(f[1]))
			continue
		}
		if time.Since(burst) > time.Second {
			valid = false
		}
		rounds, gap := int(hx.Int(f[1])), time.Duration(hx.Int(f[2]))*time.Millisecond
		for r := 0; r < rounds; r++ {
			t0 := time.Now()
			time.Sleep(gap)
			if time.Since(t0) > gap+700*time.Millisecond {
				valid = false
			}
			for _, k := range hx.Items(f[3]) {
				hit(hx.Str(k))
			}
		}
		burst = time.Now()
	}
	if time.Since(burst) > time.Second || time.Now().UnixNano()/interval != bucket0 {
		valid = false
	}
	if msg != "" {
		return hx.L(hx.I(2)), true
	}
	return hx.L(decisions...), valid
}

// ---- which=7: effective shares -------------------------------------------------------------------------

func exec7(cs hx.Sx) hx.Sx {
	for try := 0; ; try++ {
		h0 := time.Now().UnixNano() / int64(time.Hour)
		obs := shareProbe(cs)
		if time.Now().UnixNano()/int64(time.Hour) == h0 || try == 3 {
			return obs
		}
	}
}

func shareProbe(cs hx.Sx) hx.Sx {
	it := hx.Items(cs)
	total, den := hx.Int(it[0]), hx.Int(it[1])
	var nums []int64
	for _, n := range hx.Items(it[2]) {
		nums = append(nums, hx.Int(n))
	}
	// metric_labels: a rejected event of a distributed limiter is counted under the labels' values (one present, one absent)
	distr := &throttle.LimitDistributionConfig{Field: "d", MetricLabels: []string{"k", "nosuch"}}
	for i, n := range nums {
		distr.Ratios = append(distr.Ratios, throttle.ComplexRatio{Ratio: float64(n) / float64(den), Values: []string{fmt.Sprintf("v%d", i)}})
	}
	name := freshName("ratio")
	var p *pubInst
	fatal := ""
	func() {
		defer func() {
			if r := recover(); r != nil {
				fatal = fmt.Sprint(r)
			}
		}()
		p = newPub(pubCfg{name: name, count: 1, interval: time.Hour, defLimit: total, defKind: "size", distr: distr})
	}()
	switch {
	case strings.Contains(fatal, "must be in range"):
		return hx.L(hx.I(1), hx.I(1))
	case strings.Contains(fatal, "sum of ratios"):
		return hx.L(hx.I(1), hx.I(2))
	case fatal != "":
		return hx.L(hx.I(1), hx.I(9))
	}
	defer dropPipeline(name)
	defer p.p.Stop()
	nkey := 0
	hi := 2*total + 2
	// the largest size s in [0, hi] the probe lets through (size 0 always passes; passing is monotone in s)
	largest := func(pass func(key string, s int64) bool) int64 {
		lo, up := int64(0), hi // pass(lo) holds
		for lo < up {
			mid := lo + (up-lo+1)/2
			nkey++
			if pass(fmt.Sprintf("p%d", nkey), mid) {
				lo = mid
			} else {
				up = mid - 1
			}
		}
		return lo
	}
	shares := make([]int64, len(nums))
	for i := range nums {
		v := fmt.Sprintf("v%d", i)
		shares[i] = largest(func(key string, s int64) bool {
			return p.do(nil, int(s), [][2]string{{"k", key}, {"d", v}})
		})
	}
	// default share: with every listed slot filled to the brim nothing can be stolen
	def := largest(func(key string, s int64) bool {
		for i := range nums {
			p.do(nil, int(shares[i]), [][2]string{{"k", key}, {"d", fmt.Sprintf("v%d", i)}})
		}
		return p.do(nil, int(s), [][2]string{{"k", key}, {"d", "unlisted"}})
	})
	return hx.L(hx.I(0), hx.List(append([]int64{def}, shares...), hx.Z))
}

// ==== generators ========================================================================================

// item 5 — rule.go: byteIdxPart = byte('a' + ruleNum): the rule index in the limiter key wraps at 256.
// 250-300 rules, each with its own limit and matching its own value of field a; the events use rule base and
// rule base+256 (same key byte), the indices around the byte boundaries ('a'+31 = 0x80, 'a'+158 = 0xFF,
// 'a'+159 = 0x00, 'a'+217 = ':') and the default rule, over throttle keys that themselves contain ':'.
// Up to 255 rules the property's predicate is active (keys never share a budget); from 256 rules on two rules
// share one limiter, which keeps the limit of whichever asked first (model = code, outside the property's domain).
// Regression it exposes: any narrower or different wrap of the rule index (int8, % 128, a fixed table) makes
// two rules below 256 share a limiter: Violates "keys never share a budget" / Differ in the limiter keys.
// Tried in a scratch copy of /repo: byte('a' + ruleNum%128) -> 2 Violates + 4 Differ here, nothing in the older streams.
func genManyRules256(c *hmain.Ctx) {
	r := c.R
	for n := 0; n < 6*c.Scale; n++ {
		count := r.Range(1, 3)
		interval := hx.Pick(r, []int64{1_000_000_000, 60_000_000_000})
		nr := r.Range(250, 300)
		if n%3 == 0 {
			nr = r.Range(250, 255) // rules + default rule <= 256: inside the property's domain
		}
		var rules []hx.Sx
		for i := 0; i < nr; i++ {
			rules = append(rules, hx.L(hx.I(r.Range(1, 6)), hx.I(r.Intn(2)), kvSx([][2]string{{"a", fmt.Sprintf("v%d", i)}})))
		}
		rules = append(rules, hx.L(hx.I(r.Range(1, 6)), hx.I(r.Intn(2)), hx.L()))
		idx := []int{30, 31, 158, 159, 217, 0, nr - 1, nr} // nr = no rule matches -> default rule (index nr)
		if nr >= 256 {
			base := r.Intn(nr - 255) // base+256 <= nr
			idx = append(idx, base, base+256, base, base+256, nr-256)
		} else {
			base := r.Intn(nr)
			idx = append(idx, base, (base+128)%nr, (base+64)%nr)
		}
		window := int64(count) * interval
		now := window + int64(r.Intn(1<<30))
		var evs []hx.Sx
		for i := r.Range(40, 90); i > 0; i-- {
			if r.Chance(1, 8) {
				now += interval
			}
			f := [][2]string{{"k", hx.Pick(r, []string{"k1", "k2", "b:k1", ":"})}}
			if j := hx.Pick(r, idx); j < nr {
				f = append(f, [2]string{"a", fmt.Sprintf("v%d", j)})
			}
			evs = append(evs, hx.L(hx.Z(now), hx.Z(now), hx.I(1+r.Intn(2)), kvSx(f)))
		}
		c.Do("plugin-256-rules", 1, hx.L(hx.I(count), hx.Z(interval), hx.L(rules...), hx.L(evs...)), true)
		if nr >= 256 {
			c.W.Count("plugin_256_rules_wrapping")
		} else {
			c.W.Count("plugin_256_rules_below_wrap")
		}
	}
}

func mkSeg(reps int, now, ts int64, size, dv int, step int64) hx.Sx {
	return hx.L(hx.I(reps), hx.Z(now), hx.Z(ts), hx.I(size), hx.I(dv), hx.Z(step))
}

// item 9 — magnitudes: limits 5000 and 1<<40, thousands of ops on one limiter (70000 in the thorough tier),
// 60-300 buckets with the clock walking through several windows, distribution shares in the thousands.
// The reference semantics of the predicate is quadratic in the history, hence the caps of the quick tier.
// Regression it exposes: a counter narrower than int64 (int32 bucket values overflow at 1<<40, uint16 op
// counters at 65536), a ring rotation that is only right for a handful of buckets (reset of min(dif, count)
// rows with count in the hundreds), an off-by-one of the limit comparison that only shows at the 5000th event.
// Tried in a scratch copy of /repo: int32 / uint16 bucket counters and resetFn(min(dif, count, 50)) are caught here only.
func genBulk(c *hmain.Ctx) {
	r := c.R
	ncases := 14
	capOps := 6000
	if c.Tier == "thorough" {
		ncases = 70
		capOps = 12000
	}
	for n := 0; n < ncases; n++ {
		var cs hx.Sx
		tag := ""
		switch []int{0, 1, 2, 2, 3, 2, 1}[n%7] {
		case 0: // one instant, count kind, limit 5000 crossed
			count := r.Range(1, 3)
			interval := hx.Pick(r, []int64{1_000_000_000, 60_000_000_000})
			now := int64(count)*interval + int64(r.Intn(1<<30))
			limit := int64(hx.Pick(r, []int{5000, 5000, 4096, 1000}))
			extra := r.Range(1, capOps-int(limit))
			cs = mkCase0(count, interval, 0, limit, 0, nil, []hx.Sx{
				mkSeg(int(limit)-1, now, now, 1, -1, 0), mkSeg(2, now, now-1, 1, -1, 0), mkSeg(extra, now, now, 1, -1, 0)})
			tag = fmt.Sprintf("bulk_count_limit_%d", limit)
		case 1: // size kind, limit 1<<40, sizes around 1<<36
			count := r.Range(1, 4)
			interval := int64(1_000_000_000)
			now := int64(count)*interval + int64(r.Intn(1<<30))
			var segs []hx.Sx
			for i := r.Range(3, 8); i > 0; i-- {
				size := (1 << 34) + r.Intn(1<<36)
				if r.Chance(1, 4) {
					size = r.Intn(1 << 20)
				}
				step := int64(0)
				if r.Chance(1, 3) {
					step = interval / int64(r.Range(2, 9))
				}
				reps := r.Range(1, 40)
				segs = append(segs, mkSeg(reps, now, now, size, -1, step))
				now += step * int64(reps)
			}
			cs = mkCase0(count, interval, 1, 1<<40, 0, nil, segs)
			tag = "bulk_size_limit_2^40"
		case 2: // hundreds of buckets: fill every bucket, jump by part of / a whole / several windows, then sweep the
			// event time back over the whole window (every retained bucket must have exactly its old count, every
			// new one must be empty)
			count := hx.Pick(r, []int{60, 64, 100, 255, 256, 300})
			interval := int64(1000)
			now := int64(count)*interval + int64(r.Intn(1000))
			limit := int64(r.Range(1, 4))
			var segs []hx.Sx
			for ph := r.Range(2, 3); ph > 0; ph-- {
				m := r.Range(1, 2)
				segs = append(segs, mkSeg(count*m, now, now-int64(r.Intn(3))*interval, 1, -1, interval/int64(m)))
				now += int64(count) * interval
				dif := hx.Pick(r, []int{1, count / 2, count - 9, count - 1, count, count + 5, 2 * count, r.Range(1, 2*count)})
				now += int64(dif) * interval
				stride := 1 + count/100
				for j := r.Intn(stride); j < count+2; j += stride {
					segs = append(segs, mkSeg(r.Range(1, int(limit)+1), now, now-int64(j)*interval, 1, -1, 0))
				}
			}
			cs = mkCase0(count, interval, r.Intn(2), limit, 0, nil, segs)
			tag = fmt.Sprintf("bulk_buckets_%d", count)
		case 3: // distribution with shares in the thousands
			count := r.Range(1, 2)
			interval := int64(1_000_000_000)
			now := int64(count)*interval + int64(r.Intn(1<<30))
			shares := []int64{int64(r.Range(200, 900)), int64(r.Range(100, 500))}
			def := int64(r.Range(50, 300))
			var segs []hx.Sx
			left := capOps
			for i := r.Range(4, 9); i > 0 && left > 0; i-- {
				reps := r.Range(1, min(left, 1200))
				left -= reps
				segs = append(segs, mkSeg(reps, now, now, 1, r.Range(-1, 1), 0))
			}
			cs = mkCase0(count, interval, 0, 5000, def, shares, segs)
			tag = "bulk_distribution"
		}
		c.Do("limiter-bulk", 3, cs, true)
		c.W.Count(tag)
	}
	if c.Tier == "thorough" {
		// 70000 events on one limiter at one instant: limit 5000, then 65000 rejections
		now := int64(2 * 60_000_000_000)
		c.Do("limiter-bulk", 3, mkCase0(2, 60_000_000_000, 0, 5000, 0, nil, []hx.Sx{mkSeg(70000, now, now, 1, -1, 0)}), true)
		c.W.Count("bulk_70000_ops")
	}
}

var extremeTimes = [][2]int64{
	{32503680000, 0},          // 3000-01-01: UnixNano() wraps (negative)
	{253402300799, 999999999}, // 9999-12-31T23:59:59.999999999
	{-30610224000, 0},         // 1000-01-01: before 1678, wraps
	{-62135596800, 0},         // 0001-01-01T00:00:00Z = the zero Time -> time.Now()
	{-62135596800, 1},         // one nanosecond later: not zero, wraps
	{9223372036, 854775807},   // the last instant UnixNano() can represent
	{9223372036, 854775808},   // the first one it cannot
	{-9223372037, 145224192},  // the first instant UnixNano() can represent (1677)
	{-9223372037, 145224191},  // one before
	{0, 0},                    // the epoch
}

var rawTimes = []string{"garbage", "", "3000-13-45T00:00:00Z", "12345", "2021-01-01 00:00:00", "0001-01-01T00:00:00Z "}

// items 7 and 9 — 2-4 Plugin instances over ONE pipeline name (as N processors of a pipeline do): they share
// the limiters map, so their limits are joint; the second Start reuses the map of the first.  Events are
// dealt to the instances in one deterministic sequence; the time field also takes values whose UnixNano()
// overflows, the zero time and unparseable strings (Plugin.isAllowed then falls back to the REAL time.Now(),
// which is in the future of every injected clock used here: charged to the newest bucket).
// Regression it exposes: a limiters map per Plugin instance instead of per pipeline (every processor gets its
// own budget: Violates, the second instance passes events the joint limit rejects); a second Start that
// replaces the pipeline's map (counters lost); a fallback other than "now" for a bad time field.
// Tried in a scratch copy of /repo: a fresh map per Start -> 81 Violates + 22 Differ; an unparseable time field that
// passes unthrottled -> 73 Violates; nothing in the older streams.
func genSharedSeq(c *hmain.Ctx) {
	r := c.R
	vals := []string{"x", "y", ""}
	format, _ := xtime.ParseFormatName("rfc3339nano")
	for _, s := range rawTimes {
		_, err := xtime.ParseTime(format, s)
		c.W.Oracle("xtime.ParseTime(rfc3339nano, raw) fails for the raw time fields of stream plugin-shared-seq", err != nil, s)
	}
	for _, x := range extremeTimes {
		s := time.Unix(x[0], x[1]).UTC().Format(time.RFC3339Nano)
		back, err := xtime.ParseTime(format, s)
		c.W.Oracle("xtime.ParseTime(rfc3339nano, Format(Unix(sec, nsec))) = Unix(sec, nsec) for years 1..9999",
			err == nil && back.Unix() == x[0] && int64(back.Nanosecond()) == x[1], s)
		// the third and fourth instance give time_field_format as the layout text instead of the alias (newShared)
		back, err = xtime.ParseTime(time.RFC3339Nano, s)
		c.W.Oracle("xtime.ParseTime(layout text of RFC3339Nano, s) = xtime.ParseTime(alias rfc3339nano, s)",
			err == nil && back.Unix() == x[0] && int64(back.Nanosecond()) == x[1], s)
	}
	for _, s := range rawTimes {
		_, err := xtime.ParseTime(time.RFC3339Nano, s)
		c.W.Oracle("xtime.ParseTime(layout text of RFC3339Nano, raw) fails for the raw time fields of stream plugin-shared-seq", err != nil, s)
	}
	for n := 0; n < 120*c.Scale; n++ {
		ninst := r.Range(2, 4)
		count := r.Range(1, 4)
		interval := hx.Pick(r, []int64{1000, 1_000_000_000, 60_000_000_000})
		var rules []hx.Sx
		for i := r.Intn(3); i > 0; i-- {
			var conds [][2]string
			if r.Chance(3, 4) {
				conds = append(conds, [2]string{"a", hx.Pick(r, vals)})
			}
			rules = append(rules, hx.L(hx.I(r.Range(-1, 3)), hx.I(r.Intn(2)), kvSx(conds)))
		}
		rules = append(rules, hx.L(hx.I(r.Intn(4)), hx.I(r.Intn(2)), hx.L()))
		window := int64(count) * interval
		now := window + int64(r.Intn(int(min64(2*interval, 1<<30))))
		var evs []hx.Sx
		nev := r.Range(8, 40)
		extremes := 0
		for i := 0; i < nev; i++ {
			inst := r.Intn(ninst)
			if i == 0 {
				inst = 0
			}
			if inst == 0 { // only instance 0 can move the clock
				switch r.Intn(6) {
				case 0:
					now += interval
				case 1:
					now += int64(r.Intn(int(min64(2*window, 1<<40)) + 1))
				case 2:
					now += int64(r.Intn(int(min64(interval, 1<<30)) + 1))
				}
			}
			ts := hx.Z(now)
			switch r.Intn(6) {
			case 0:
				ts = hx.Z(now - int64(r.Intn(int(min64(window+interval, 1<<40))+1)))
			case 1:
				ts = hx.Z(now + int64(r.Intn(int(min64(window, 1<<40))+1)))
			case 2:
				if inst != 0 {
					extremes++
					if r.Bool() {
						x := hx.Pick(r, extremeTimes)
						ts = hx.L(hx.Z(x[0]), hx.Z(x[1]))
					} else {
						ts = hx.S(hx.Pick(r, rawTimes))
					}
				}
			}
			var f [][2]string
			switch r.Intn(5) {
			case 0:
			case 1:
				f = append(f, [2]string{"k", ""})
			default:
				f = append(f, [2]string{"k", hx.Pick(r, []string{"k1", "k2", "default"})})
			}
			if r.Chance(2, 3) {
				f = append(f, [2]string{"a", hx.Pick(r, vals)})
			}
			evs = append(evs, hx.L(hx.I(inst), hx.Z(now), ts, hx.I(1+r.Intn(3)), kvSx(f)))
		}
		c.Do("plugin-shared-seq", 4, hx.L(hx.I(ninst), hx.I(count), hx.Z(interval), hx.L(rules...), hx.L(evs...)), true)
		c.W.Count(fmt.Sprintf("shared_seq_instances_%d", ninst))
		if extremes > 0 {
			c.W.Count("shared_seq_with_overflowing_zero_or_raw_time")
		}
	}
}

// coverage round — throttle.go, Plugin.isAllowed: time_field "" (the else branch: every event is timed by the real
// time.Now(), whatever the event carries) and redis_backend_config.limiter_key_field under the in-memory backend
// (the limit-key override is computed and must change nothing).  which=10 = which=4 with instances >= 1 configured that
// way: their events carry in-window, out-of-window, overflowing and raw time fields, all of which must be ignored
// (charged to the newest bucket), and an "lk" field.
// Regression it exposes: a Plugin without time field that still reads the event's time, or falls back to the zero
// time / the oldest bucket; a limiter key that depends on the limit-key override.
func genNoTimeField(c *hmain.Ctx) {
	r := c.R
	vals := []string{"x", "y", ""}
	for n := 0; n < 40*c.Scale; n++ {
		ninst := r.Range(2, 3)
		count := r.Range(1, 4)
		interval := hx.Pick(r, []int64{1000, 1_000_000_000, 60_000_000_000})
		var rules []hx.Sx
		for i := r.Intn(3); i > 0; i-- {
			var conds [][2]string
			if r.Chance(3, 4) {
				conds = append(conds, [2]string{"a", hx.Pick(r, vals)})
			}
			rules = append(rules, hx.L(hx.I(r.Range(-1, 3)), hx.I(r.Intn(2)), kvSx(conds)))
		}
		rules = append(rules, hx.L(hx.I(r.Intn(4)), hx.I(r.Intn(2)), hx.L()))
		window := int64(count) * interval
		now := window + int64(r.Intn(int(min64(2*interval, 1<<30))))
		var evs []hx.Sx
		for i, nev := 0, r.Range(8, 40); i < nev; i++ {
			inst := r.Intn(ninst)
			if i == 0 {
				inst = 0
			}
			if inst == 0 {
				switch r.Intn(6) {
				case 0:
					now += interval
				case 1:
					now += int64(r.Intn(int(min64(2*window, 1<<40)) + 1))
				case 2:
					now += int64(r.Intn(int(min64(interval, 1<<30)) + 1))
				}
			}
			ts := hx.Z(now)
			switch r.Intn(6) {
			case 0, 1: // an older bucket of the window: the instances without time field must not use it
				ts = hx.Z(now - int64(r.Intn(int(min64(window+interval, 1<<40))+1)))
			case 2:
				if inst != 0 {
					if r.Bool() {
						x := hx.Pick(r, extremeTimes)
						ts = hx.L(hx.Z(x[0]), hx.Z(x[1]))
					} else {
						ts = hx.S(hx.Pick(r, rawTimes))
					}
				}
			}
			var f [][2]string
			if !r.Chance(1, 5) {
				f = append(f, [2]string{"k", hx.Pick(r, []string{"k1", "k2", "default"})})
			}
			if r.Chance(2, 3) {
				f = append(f, [2]string{"a", hx.Pick(r, vals)})
			}
			if r.Chance(1, 2) {
				f = append(f, [2]string{"lk", hx.Pick(r, []string{"o1", "o2", ""})})
			}
			evs = append(evs, hx.L(hx.I(inst), hx.Z(now), ts, hx.I(1+r.Intn(3)), kvSx(f)))
		}
		c.Do("plugin-no-time-field", 10, hx.L(hx.I(ninst), hx.I(count), hx.Z(interval), hx.L(rules...), hx.L(evs...)), true)
		c.W.Count("no_time_field_cases")
	}
}

// knownListed: is the finding id in /verif/known_findings.json (next to build/)?  A family that shows a known
// defect of the real code is emitted only then, so that the check stays green until the coordinator lists it.
func knownListed(id string) bool {
	if os.Getenv("C16_ASSUME_LISTED") != "" { // development aid
		return true
	}
	exe, _ := os.Executable()
	kf, err := os.ReadFile(filepath.Join(filepath.Dir(filepath.Dir(exe)), "known_findings.json"))
	return err == nil && bytes.Contains(kf, []byte(id))
}

// item 9 — FINDING C16-unixnano-wrap (notes/finding-C16-unixnano-wrap.md): bucketsMeta.timeToBucketID uses
// Time.UnixNano(), which wraps for instants outside 1678..2262.  An event timed (now - j buckets) + w * 2^64 ns
// — centuries away — is therefore charged to a bucket INSIDE the retained window instead of the newest one: with
// the newest bucket at its limit the event passes although the property charges it to the newest bucket.
// Emitted only when the finding is listed.
func genTimeWrap(c *hmain.Ctx) {
	if !knownListed("C16-unixnano-wrap") {
		return
	}
	r := c.R
	two64 := new(big.Int).Lsh(big.NewInt(1), 64)
	for n := 0; n < 12*c.Scale; n++ {
		count := r.Range(2, 5)
		interval := hx.Pick(r, []int64{1_000_000_000, 60_000_000_000})
		limit := r.Range(1, 3)
		rules := []hx.Sx{hx.L(hx.I(limit), hx.I(0), hx.L())}
		now := int64(count)*interval + int64(r.Intn(1<<30))
		f := kvSx([][2]string{{"k", "k1"}})
		var evs []hx.Sx
		for i := 0; i < limit; i++ { // the newest bucket reaches its limit
			evs = append(evs, hx.L(hx.I(0), hx.Z(now), hx.Z(now), hx.I(1), f))
		}
		for i := r.Range(1, 4); i > 0; i-- {
			j := int64(r.Range(1, count-1))
			w := int64(hx.Pick(r, []int{1, 2, 5, 13, -1, -2, -3}))
			t := new(big.Int).Mul(two64, big.NewInt(w))
			t.Add(t, big.NewInt(now-j*interval))
			sec, nsec := new(big.Int).DivMod(t, big.NewInt(1_000_000_000), new(big.Int)) // Euclidean: 0 <= nsec
			evs = append(evs, hx.L(hx.I(1), hx.Z(now), hx.L(hx.Z(sec.Int64()), hx.Z(nsec.Int64())), hx.I(1), f))
		}
		evs = append(evs, hx.L(hx.I(1), hx.Z(now), hx.Z(now), hx.I(1), f))
		c.Do("plugin-time-wrap", 4, hx.L(hx.I(2), hx.I(count), hx.Z(interval), hx.L(rules...), hx.L(evs...)), true)
		c.W.Count("time_wrap_witnesses")
	}
}

// item 7 — the same instances driven by one goroutine each: hundreds of fresh throttle keys visited in the same
// order by every goroutine, so that they race in limitersMap.getOrAdd (read lock, miss, write lock, second
// look-up) and on the limiter's mutex.  Count kind, one instant: the passes of a key are min(arrivals, limit)
// whatever the interleaving.
// Regression it exposes: dropping the second look-up under the write lock (two limiters for one key, the
// counts of the loser are lost: a key passes more than its limit), a limiter whose add-then-compare is not
// under its mutex, a limiters map per instance.
// Tried in a scratch copy of /repo: without the second look-up 2-5 of the 8 cases Violate (9 seeds of 9); half of the
// cases are 'sharp' (limit 1, one arrival per goroutine and key) so that one lost limiter is one extra pass.
func genSharedConc(c *hmain.Ctx) {
	r := c.R
	for n := 0; n < 8*c.Scale; n++ {
		ninst := r.Range(3, 5) // instance 0 + 2..4 goroutines
		count := r.Range(1, 3)
		interval := int64(60_000_000_000)
		// sharp = every arrival beyond the first of a key must be rejected: one lost limiter is one extra pass
		sharp := n%2 == 0
		var rules []hx.Sx
		nrules := r.Intn(3)
		if sharp {
			nrules = 0
		}
		for i := 0; i < nrules; i++ {
			rules = append(rules, hx.L(hx.I(r.Range(0, 3)), hx.I(0), kvSx([][2]string{{"a", fmt.Sprintf("v%d", i)}})))
		}
		deflimit, reps := r.Range(1, 3), r.Range(1, 3)
		if sharp {
			deflimit, reps = 1, 1
		}
		rules = append(rules, hx.L(hx.I(deflimit), hx.I(0), hx.L()))
		now := int64(count)*interval + int64(r.Intn(1<<30))
		nkeys := r.Range(300, 700)
		if sharp {
			nkeys = r.Range(600, 1000)
		}
		ev := func(k int) hx.Sx {
			f := [][2]string{{"k", fmt.Sprintf("q%d", k)}}
			if nrules > 0 && k%3 != 0 {
				f = append(f, [2]string{"a", fmt.Sprintf("v%d", k%nrules)})
			}
			return hx.L(hx.I(1), kvSx(f))
		}
		lists := make([]hx.Sx, ninst)
		var first []hx.Sx
		for i := r.Range(1, 10); i > 0; i-- {
			first = append(first, ev(r.Intn(nkeys)))
		}
		lists[0] = hx.L(first...)
		for i := 1; i < ninst; i++ {
			var evs []hx.Sx
			for k := 0; k < nkeys; k++ {
				for j := 0; j < reps; j++ {
					evs = append(evs, ev(k))
				}
			}
			lists[i] = hx.L(evs...)
		}
		c.Do("plugin-shared-conc", 5, hx.L(hx.I(count), hx.Z(interval), hx.L(rules...), hx.Z(now), hx.L(lists...)), true)
		c.W.Count(fmt.Sprintf("shared_conc_goroutines_%d", ninst-1))
		if sharp {
			c.W.Count("shared_conc_limit_1")
		}
	}
}

// item 6 — limitersMap.maintenance (1 s ticker, real clock): limiter_expiration 2.5 s, keys driven to their
// limit, then a pause of 4.2 s during which the hot keys are hit every 200 ms and the idle ones are not, then
// every key again.  A hot key must still be at its limit (the property: a live limiter keeps its counters);
// an idle key has been dropped and starts afresh (model only).  The bucket interval is one hour so that the
// whole case sits in one bucket of the real clock (re-run otherwise).
// Regression it exposes: maintenance dropping limiters that are in use (comparison reversed, generation not
// refreshed by getOrAdd, curGen not advanced): the hot key passes again right after the pause -> Violates;
// maintenance never dropping anything -> Differ on the idle keys.
// Tried in a scratch copy of /repo: no gen.Store in the fast path of getOrAdd -> Violates; curGen never advanced ->
// Violates; nothing ever dropped -> Differ.
func expiryCases(c *hmain.Ctx, r *hx.Rng) []hx.Sx {
	ncases := 1
	if c.Tier == "thorough" {
		ncases = 4
	}
	var out []hx.Sx
	for n := 0; n < ncases; n++ {
		count := r.Range(1, 3)
		limit := r.Range(2, 4)
		keys := []string{"hot1", "hot2", "idle1", "idle2", "warm", "late"}
		var items []hx.Sx
		ev := func(k string) { items = append(items, hx.L(hx.I(0), hx.S(k))) }
		burst := func(ks []string, times int) {
			for i := 0; i < times; i++ {
				for _, k := range ks {
					ev(k)
				}
			}
		}
		burst(keys[:4], limit+1) // saturated
		ev("warm")               // one hit only
		items = append(items, hx.L(hx.I(1), hx.I(21), hx.I(200), hx.Ss([]string{"hot1", "hot2", "warm"})))
		burst(keys, limit+1)
		if n > 0 { // a second pause: hot2 goes idle, idle1 is hot this time
			items = append(items, hx.L(hx.I(1), hx.I(r.Range(14, 17)), hx.I(300), hx.Ss([]string{"hot1", "idle1"})))
			burst(keys, limit+1)
		}
		out = append(out, hx.L(hx.I(count), hx.Z(3600_000_000_000), hx.I(limit), hx.I(2500), hx.L(items...)))
	}
	return out
}

// item 8 — distribution.go: float64 ratios that are not whole percents (per mille, 1/3, 1/7, 2^-20 steps),
// 5-20 ratios, totals around 2^53 and 2^60.  The shares are measured on a started Plugin (size kind).
// The default ratio is rounded to a whole percent BEFORE it is multiplied (defRatio := Round(dif*100)/100), so
// with ratios finer than a percent the shares need not add up to the limit (0.335 of 1000: 335 + 670): counted
// as shares_sum_above_total / shares_sum_below_total, not a verdict (the property bounds by the shares).
// Regression it exposes: truncation instead of rounding of a share, a default share computed from the
// unrounded ratio or as total - sum, float32 arithmetic (visible from totals of 2^24), a ratio check that
// accepts a sum above 1.
// Tried in a scratch copy of /repo: defRatio := dif (unrounded) -> 160 Violates here only; math.Floor -> here and in
// the older shares stream; float32 products -> here and in shares-many only.
func genSharesRatio(c *hmain.Ctx) {
	r := c.R
	emit := func(total, den int64, nums []int64) {
		obs := c.Do("shares-ratio", 7, hx.L(hx.Z(total), hx.Z(den), hx.List(nums, hx.Z)), true)
		o := hx.Items(obs)
		if hx.Int(o[0]) != 0 {
			c.W.Count(fmt.Sprintf("shares_ratio_rejected_%d", hx.Int(o[1])))
			return
		}
		var sum int64
		for _, s := range hx.Items(o[1]) {
			sum += hx.Int(s)
		}
		switch {
		case sum > total:
			c.W.Count("shares_sum_above_total")
		case sum < total:
			c.W.Count("shares_sum_below_total")
		default:
			c.W.Count("shares_sum_equals_total")
		}
	}
	// per-mille sweep of one ratio (every 5th in the quick tier), and the audit's example
	step := int64(5)
	if c.Tier == "thorough" {
		step = 1
	}
	for num := int64(0); num <= 1000; num += step {
		emit(1000, 1000, []int64{num})
	}
	emit(1000, 1000, []int64{335})
	for _, t := range []int64{0, 1, 1000, 1 << 40} { // a field without ratios: no distribution, the whole limit
		emit(t, 1000, nil)
	}
	emit(1000, 1000, []int64{280, 320, 300, 100}) // sums to exactly 1: the float64 sum exceeds 1
	dens := []int64{1000, 1000, 10000, 1_000_000, 3, 7, 12, 1 << 20, 100}
	totals := []int64{0, 1, 7, 100, 999, 1000, 5000, 123457, 1 << 24, (1 << 24) + 1, 1 << 40, (1 << 53) - 1, 1 << 53, (1 << 53) + 1, (1 << 60) + 12345}
	for n := 0; n < 150*c.Scale; n++ {
		den := hx.Pick(r, dens)
		k := r.Range(1, 4)
		if r.Chance(1, 2) {
			k = r.Range(5, 20)
		}
		nums := make([]int64, k)
		left := den
		if r.Chance(1, 12) {
			left = den + den/2 // may exceed 1
		}
		for i := range nums {
			x := int64(r.Intn(int(min64(left, 1<<40)/int64(k-i) + 1)))
			if r.Chance(1, 6) {
				x = int64(r.Intn(int(min64(left, 1<<40)) + 1))
			}
			nums[i] = x
			left -= x
			if left < 0 {
				left = 0
			}
		}
		if r.Chance(1, 8) && left <= den { // the ratios add up to exactly 1
			nums[k-1] += left
		}
		if r.Chance(1, 40) {
			nums[r.Intn(k)] = den + 1 + int64(r.Intn(5)) // out of range
		}
		total := hx.Pick(r, totals)
		if r.Chance(1, 3) {
			total = int64(r.Intn(1_000_000))
		}
		emit(total, den, nums)
		c.W.Count(fmt.Sprintf("shares_ratio_den_%d", den))
		if k >= 5 {
			c.W.Count("shares_ratio_5_to_20_ratios")
		}
		if total >= 1<<53-1 {
			c.W.Count("shares_ratio_total_at_or_above_2^53")
		}
	}
}

// item 8 — FINDING C16-default-share-rounding (notes/finding-C16-default-share-rounding.md): the default ratio is
// rounded to a whole percent before it is multiplied, so the shares of ratios finer than a percent can add up to
// more than the limit (0.335 of 1000: 335 + 670 = 1005; 0.005 of 1000: 5 + 1000).  which=8 = which=7 plus
// "sum of shares <= limit".  Emitted only when the finding is listed.
func genSharesSum(c *hmain.Ctx) {
	if !knownListed("C16-default-share-rounding") {
		return
	}
	for _, num := range []int64{335, 5, 995, 125, 504} {
		c.Do("shares-sum-above-limit", 8, hx.L(hx.Z(1000), hx.Z(1000), hx.L(hx.Z(num))), true)
	}
	c.Do("shares-sum-above-limit", 8, hx.L(hx.Z(1_000_000), hx.Z(1000), hx.L(hx.Z(333), hx.Z(333), hx.Z(326))), true)
	c.W.Count("shares_sum_witnesses")
}

// item 8, through the export (whole percents): 5-20 ratios and totals up to 2^40 (float64 error of one product
// still far below the 0.01 grid of the exact products, so the nearest-integer check of which=2 stays exact)
func genSharesMany(c *hmain.Ctx) {
	r := c.R
	for n := 0; n < 300*c.Scale; n++ {
		k := r.Range(5, 20)
		ps := make([]hx.Sx, k)
		left := 100
		if r.Chance(1, 10) {
			left = 130
		}
		for i := range ps {
			x := r.Intn(left/(k-i) + 2)
			if r.Chance(1, 8) {
				x = r.Intn(left + 1)
			}
			if x > left {
				x = left
			}
			left -= x
			ps[i] = hx.I(x)
		}
		total := int64(r.Intn(1_000_000))
		if r.Chance(1, 2) {
			total = hx.Pick(r, []int64{1 << 24, (1 << 24) + 1, 1 << 31, (1 << 32) + 7, (1 << 40) - 1, 1 << 40}) + int64(r.Intn(100))
		}
		c.Do("shares-many", 2, hx.L(hx.Z(total), hx.L(ps...)), true)
	}
}
