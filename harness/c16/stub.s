// Intentionally empty: its presence lets redis.go declare the body-less, link-named functions.
