package main

// C16 — throttle (in-memory backend). Drives the REAL inMemoryLimiter / Plugin of
// /repo/plugin/action/throttle through verif_export_c16.go (build tag verif) with an injected clock.
//
//	which=0  one limiter.  case = (count interval kind limit deflimit (share ...) (op ...))
//	                       op   = (now ts size dv)    times in ns, kind 0 count / 1 size, dv = -1 | ratio index
//	                       obs  = ((decision ...) final)   final = (0 (minID maxID ((slot ...) ...))) | (2) panic
//	which=1  whole plugin. case = (count interval (rule ...) (event ...))   rule = (limit kind ((field value) ...)),
//	                       last rule = default rule; event = (now ts size ((field value) ...)), field "k" = throttle key
//	                       obs  = ((decision ...) final)   final = (0 (limiter-map key ...)) sorted | (2)
//	which=2  parseLimitDistribution. case = (total (pct ...))   obs = (0 (default share ...)) | (1 err)
//	which=3..8  threshold-crossing streams, see thresholds.go
//	which=9     the redis backend against a fake RESP server, see redis.go
//	which=10    which=4 with time_field "" / limiter_key_field on the instances >= 1 (thresholds.go)
//	which=11    rules with their own limit_distribution on a Plugin started through the public API (ruledistr.go)

import (
	"fmt"
	"os"
	"strings"
	"time"

	"github.com/ozontech/file.d/plugin/action/throttle"
	"github.com/ozontech/file.d/xtime"

	"verif/harness/hmain"
	"verif/harness/hx"
)

func kindName(k int64) string {
	if k != 0 {
		return "size"
	}
	return "count"
}

// the field values listed for ratio i, and the value an op with dv=i carries (alternating between the
// two listed values); dv = -1 alternates between an unlisted value and an absent field
func dvValues(i int) []string { return []string{fmt.Sprintf("v%d", i), fmt.Sprintf("w%d", i)} }

func exec0(cs hx.Sx) hx.Sx {
	it := hx.Items(cs)
	count, interval, kind := int(hx.Int(it[0])), hx.Int(it[1]), hx.Int(it[2])
	limit, deflimit := hx.Int(it[3]), hx.Int(it[4])
	var shares []int64
	var values [][]string
	for i, s := range hx.Items(it[5]) {
		shares = append(shares, hx.Int(s))
		values = append(values, dvValues(i))
	}
	var decisions []hx.Sx
	var lim *throttle.VerifC16Limiter
	msg := hx.Catch(func() {
		lim = throttle.VerifC16NewLimiter(count, time.Duration(interval), kindName(kind), limit, deflimit, shares, values)
	})
	if msg == "" {
		for n, o := range hx.Items(it[6]) {
			f := hx.Items(o)
			now, ts, size, dv := hx.Int(f[0]), hx.Int(f[1]), int(hx.Int(f[2])), int(hx.Int(f[3]))
			hasD, dval := false, ""
			if dv >= 0 {
				hasD, dval = true, dvValues(dv)[n%2]
			} else if n%2 == 0 {
				hasD, dval = true, "unlisted"
			}
			var ok bool
			msg = hx.Catch(func() { ok = lim.IsAllowed(now, ts, size, hasD, dval) })
			if msg != "" {
				break
			}
			decisions = append(decisions, hx.Bool(ok))
		}
	}
	if msg != "" {
		return hx.L(hx.L(decisions...), hx.L(hx.I(2)))
	}
	minID, maxID, ring := lim.State()
	rows := make([]hx.Sx, len(ring))
	for i, r := range ring {
		rows[i] = hx.List(r, hx.Z)
	}
	return hx.L(hx.L(decisions...), hx.L(hx.I(0), hx.L(hx.I(minID), hx.I(maxID), hx.L(rows...))))
}

var pluginSeq int

func kvs(s hx.Sx) [][2]string {
	var out [][2]string
	for _, kv := range hx.Items(s) {
		p := hx.Items(kv)
		out = append(out, [2]string{hx.Str(p[0]), hx.Str(p[1])})
	}
	return out
}

func exec1(cs hx.Sx) hx.Sx {
	it := hx.Items(cs)
	count, interval := int(hx.Int(it[0])), hx.Int(it[1])
	rs := hx.Items(it[2])
	var rules []throttle.VerifC16Rule
	for _, r := range rs[:len(rs)-1] {
		f := hx.Items(r)
		conds := map[string]string{}
		for _, kv := range kvs(f[2]) {
			conds[kv[0]] = kv[1]
		}
		rules = append(rules, throttle.VerifC16Rule{Limit: hx.Int(f[0]), Kind: kindName(hx.Int(f[1])), Conds: conds})
	}
	def := hx.Items(rs[len(rs)-1])
	pluginSeq++
	var p *throttle.VerifC16Plugin
	var decisions []hx.Sx
	msg := hx.Catch(func() {
		p = throttle.VerifC16NewPlugin(fmt.Sprintf("verif-c16-%d", pluginSeq), count, time.Duration(interval), hx.Int(def[0]), kindName(hx.Int(def[1])), rules)
	})
	if p != nil {
		defer p.Stop()
	}
	if msg == "" {
		for _, e := range hx.Items(it[3]) {
			f := hx.Items(e)
			var ok bool
			msg = hx.Catch(func() { ok = p.Do(hx.Int(f[0]), hx.Int(f[1]), int(hx.Int(f[2])), kvs(f[3])) })
			if msg != "" {
				break
			}
			decisions = append(decisions, hx.Bool(ok))
		}
	}
	if msg != "" {
		return hx.L(hx.L(decisions...), hx.L(hx.I(2)))
	}
	return hx.L(hx.L(decisions...), hx.L(hx.I(0), hx.Ss(p.Keys())))
}

func exec2(cs hx.Sx) hx.Sx {
	it := hx.Items(cs)
	var pcts []int
	for _, p := range hx.Items(it[1]) {
		pcts = append(pcts, int(hx.Int(p)))
	}
	out, err := throttle.VerifC16Shares(hx.Int(it[0]), pcts)
	switch {
	case err == "":
		return hx.L(hx.I(0), hx.List(out, hx.Z))
	case strings.Contains(err, "range"):
		return hx.L(hx.I(1), hx.I(1))
	case strings.Contains(err, "sum of ratios"):
		return hx.L(hx.I(1), hx.I(2))
	}
	return hx.L(hx.I(1), hx.I(9))
}

func c16Exec(which int, cs hx.Sx) hx.Sx {
	switch which {
	case 0:
		return exec0(cs)
	case 1:
		return exec1(cs)
	case 2:
		return exec2(cs)
	case 3:
		return exec3(cs)
	case 4:
		return exec4(cs)
	case 5:
		return exec5(cs)
	case 6:
		return exec6(cs)
	case 7, 8:
		return exec7(cs)
	case 9:
		return exec9(cs)
	case 10:
		return exec10(cs)
	case 11:
		return exec11(cs)
	}
	panic("c16: unknown which")
}

func mkOp(now, ts int64, size, dv int) hx.Sx { return hx.L(hx.Z(now), hx.Z(ts), hx.I(size), hx.I(dv)) }

func mkCase0(count int, interval int64, kind int, limit, deflimit int64, shares []int64, ops []hx.Sx) hx.Sx {
	return hx.L(hx.I(count), hx.Z(interval), hx.I(kind), hx.Z(limit), hx.Z(deflimit), hx.List(shares, hx.Z), hx.L(ops...))
}

// every sequence of exactly n ops over dom (shorter sequences are prefixes of these: the decisions of
// a prefix are a prefix of the decisions)
func allSeqs(dom []hx.Sx, n int, f func(ops []hx.Sx)) {
	ops := make([]hx.Sx, n)
	var rec func(i int)
	rec = func(i int) {
		if i == n {
			f(ops)
			return
		}
		for _, d := range dom {
			ops[i] = d
			rec(i + 1)
		}
	}
	rec(0)
}

func genExhaustive(c *hmain.Ctx) {
	L := 4
	if c.Tier == "thorough" {
		L = 5
	}
	const I = 10
	// (a) count kind, no distribution: count 1..3 x limit 0..2; clock {T0, T0+I, T0+3I} in any order,
	//     event time {= clock, one bucket before T0, T0+I, far future}
	for count := 1; count <= 3; count++ {
		T0 := int64(count * I)
		var dom []hx.Sx
		for _, now := range []int64{T0, T0 + I + 3, T0 + 3*I} {
			for _, ts := range []int64{now, T0 - 1, T0 + I, T0 + 100*I} {
				dom = append(dom, mkOp(now, ts, 1, -1))
			}
		}
		for limit := int64(0); limit <= 2; limit++ {
			n := L
			if limit == 0 {
				n = 4 // limit 0 rejects everything: longer sequences add nothing
			}
			allSeqs(dom, n, func(ops []hx.Sx) {
				c.Do("exhaustive", 0, mkCase0(count, I, 0, limit, 0, nil, ops), true)
			})
		}
	}
	// (b) size kind: count 2, limit {0,2,3}, sizes {0,1,3}, clock {T0, T0+2I}, event time {= clock, T0-1}
	{
		T0 := int64(2 * I)
		var dom []hx.Sx
		for _, now := range []int64{T0, T0 + 2*I} {
			for _, ts := range []int64{now, T0 - 1} {
				for _, size := range []int{0, 1, 3} {
					dom = append(dom, mkOp(now, ts, size, -1))
				}
			}
		}
		for _, limit := range []int64{0, 2, 3} {
			n := L
			if limit != 3 {
				n = 4
			}
			allSeqs(dom, n, func(ops []hx.Sx) {
				c.Do("exhaustive", 0, mkCase0(2, I, 1, limit, 0, nil, ops), true)
			})
		}
	}
	// (c) distribution, count kind: count 2, clock {T0, T0+I}, event time {= clock, T0-1}, value {default, 0, 1}
	{
		T0 := int64(2 * I)
		for _, sh := range [][]int64{{1, 1, 1}, {0, 2, 0}, {1, 1}} { // deflimit followed by the shares
			var dom []hx.Sx
			for _, now := range []int64{T0, T0 + I} {
				for _, ts := range []int64{now, T0 - 1} {
					for dv := -1; dv < len(sh)-1; dv++ {
						dom = append(dom, mkOp(now, ts, 1, dv))
					}
				}
			}
			n := L
			if len(sh) == 2 {
				n = 4
			}
			allSeqs(dom, n, func(ops []hx.Sx) {
				c.Do("exhaustive", 0, mkCase0(2, I, 0, 5, sh[0], sh[1:], ops), true)
			})
		}
	}
	c.W.Count(fmt.Sprintf("exhaustive_seq_len_%d", L))
}

var intervals = []int64{1, 7, 1000, 1_000_000_000, 60_000_000_000}

func genRandom(c *hmain.Ctx) {
	r := c.R
	for n := 0; n < 2500*c.Scale; n++ {
		count := r.Range(1, 6)
		interval := hx.Pick(r, intervals)
		kind := r.Intn(2)
		limit := int64(r.Intn(6))
		var shares []int64
		deflimit := int64(0)
		if r.Chance(1, 2) {
			for i := r.Range(1, 3); i > 0; i-- {
				shares = append(shares, int64(r.Intn(4)))
			}
			deflimit = int64(r.Intn(4))
		}
		window := int64(count) * interval
		now := window + int64(r.Intn(int(min64(3*interval, 1<<30))))
		nops := r.Range(5, 60)
		ops := make([]hx.Sx, 0, nops)
		jumps, oow := 0, 0
		for i := 0; i < nops; i++ {
			switch r.Intn(10) {
			case 0, 1, 2, 3: // same instant
			case 4, 5: // a little later, often the same bucket
				now += int64(r.Intn(int(min64(interval, 1<<30)) + 1))
			case 6: // next bucket
				now += interval
			case 7, 8: // jump across 0..3 windows
				now += int64(r.Intn(int(min64(3*window, 1<<40)) + 1))
				jumps++
			case 9: // the clock steps back (never below the first window)
				back := int64(r.Intn(int(min64(2*window, 1<<40)) + 1))
				if now-back >= window {
					now -= back
				}
			}
			var ts int64
			switch r.Intn(8) {
			case 0, 1, 2:
				ts = now
			case 3, 4: // inside or just outside the window, out of order
				ts = now - int64(r.Intn(int(min64(window+2*interval, 1<<40))+1))
			case 5: // far past (also before the epoch)
				ts = now - int64(r.Intn(1<<40)) - 3*window
				oow++
			case 6: // future
				ts = now + int64(r.Intn(int(min64(2*window, 1<<40))+1))
				oow++
			case 7:
				ts = int64(r.Intn(int(min64(5*window, 1<<40)) + 1))
			}
			size := 1 + r.Intn(3)
			if r.Chance(1, 8) {
				size = r.Intn(8)
			}
			dv := -1
			if len(shares) > 0 && r.Chance(2, 3) {
				dv = r.Intn(len(shares))
			}
			ops = append(ops, mkOp(now, ts, size, dv))
		}
		c.Do("random", 0, mkCase0(count, interval, kind, limit, deflimit, shares, ops), true)
		c.W.Count(fmt.Sprintf("random_kind_%s", kindName(int64(kind))))
		c.W.Count(fmt.Sprintf("random_ratios_%d", len(shares)))
		if jumps > 0 {
			c.W.Count("random_with_window_jumps")
		}
		if oow > 0 {
			c.W.Count("random_with_out_of_window_ts")
		}
	}
}

func min64(a, b int64) int64 {
	if a < b {
		return a
	}
	return b
}

// outside the property's domain: buckets_count 0 (panics), negative limits (unlimited), clocks inside the
// first window after the epoch or before it (the minID = 0 sentinel), extreme event times
func genAdversarial(c *hmain.Ctx) {
	r := c.R
	for n := 0; n < 600*c.Scale; n++ {
		count := r.Intn(4)
		interval := hx.Pick(r, []int64{1, 10, 1000})
		kind := r.Intn(2)
		limit := int64(r.Range(-1, 3))
		var shares []int64
		deflimit := int64(0)
		if r.Chance(1, 3) {
			for i := r.Range(1, 2); i > 0; i-- {
				shares = append(shares, int64(r.Intn(3)))
			}
			deflimit = int64(r.Intn(3))
		}
		nops := r.Range(1, 12)
		ops := make([]hx.Sx, 0, nops)
		now := int64(r.Range(-2, count+2)) * interval
		for i := 0; i < nops; i++ {
			switch r.Intn(6) {
			case 0:
				now += interval
			case 1:
				now -= interval
			case 2:
				now += int64(r.Intn(int(3*interval*int64(count+1)) + 1))
			case 3:
				now = int64(r.Range(-3, 2*count+3))*interval + int64(r.Intn(int(interval)))
			}
			var ts int64
			switch r.Intn(6) {
			case 0:
				ts = now
			case 1:
				ts = -(1 << 61) + int64(r.Intn(1000))
			case 2:
				ts = (1 << 61) + int64(r.Intn(1000))
			case 3:
				ts = 0
			default:
				ts = now + int64(r.Range(-3*(count+1), 3))*interval
			}
			dv := -1
			if len(shares) > 0 && r.Bool() {
				dv = r.Intn(len(shares))
			}
			ops = append(ops, mkOp(now, ts, r.Intn(4), dv))
		}
		tag := "adversarial_other"
		switch {
		case count == 0:
			tag = "adversarial_zero_buckets"
		case limit < 0:
			tag = "adversarial_unlimited"
		}
		c.W.Count(tag)
		c.Do("adversarial", 0, mkCase0(count, interval, kind, limit, deflimit, shares, ops), count > 0 && limit >= 0)
	}
}

func kvSx(kv [][2]string) hx.Sx {
	out := make([]hx.Sx, len(kv))
	for i, p := range kv {
		out[i] = hx.L(hx.S(p[0]), hx.S(p[1]))
	}
	return hx.L(out...)
}

func genPlugin(c *hmain.Ctx) {
	r := c.R
	format, _ := xtime.ParseFormatName("rfc3339nano")
	vals := []string{"x", "y", ""}
	for n := 0; n < 300*c.Scale; n++ {
		count := r.Range(1, 4)
		interval := hx.Pick(r, []int64{1000, 1_000_000_000, 60_000_000_000})
		var rules []hx.Sx
		for i := r.Intn(4); i > 0; i-- {
			var conds [][2]string
			if r.Chance(3, 4) {
				conds = append(conds, [2]string{"a", hx.Pick(r, vals)})
			}
			if r.Chance(1, 3) {
				conds = append(conds, [2]string{"b", hx.Pick(r, vals)})
			}
			rules = append(rules, hx.L(hx.I(r.Range(-1, 3)), hx.I(r.Intn(2)), kvSx(conds)))
		}
		rules = append(rules, hx.L(hx.I(r.Intn(4)), hx.I(r.Intn(2)), hx.L()))
		window := int64(count) * interval
		now := window + int64(r.Intn(int(min64(2*interval, 1<<30))))
		var evs []hx.Sx
		for i := r.Range(5, 40); i > 0; i-- {
			switch r.Intn(6) {
			case 0:
				now += interval
			case 1:
				now += int64(r.Intn(int(min64(2*window, 1<<40)) + 1))
			case 2:
				now += int64(r.Intn(int(min64(interval, 1<<30)) + 1))
			}
			ts := now
			switch r.Intn(5) {
			case 0:
				ts = now - int64(r.Intn(int(min64(window+interval, 1<<40))+1))
			case 1:
				ts = now + int64(r.Intn(int(min64(window, 1<<40))+1))
			}
			var f [][2]string
			switch r.Intn(5) {
			case 0: // no throttle field -> "default"
			case 1:
				f = append(f, [2]string{"k", ""})
			default:
				f = append(f, [2]string{"k", hx.Pick(r, []string{"k1", "k2", "default"})})
			}
			if r.Chance(2, 3) {
				f = append(f, [2]string{"a", hx.Pick(r, vals)})
			}
			if r.Chance(1, 2) {
				f = append(f, [2]string{"b", hx.Pick(r, vals)})
			}
			evs = append(evs, hx.L(hx.Z(now), hx.Z(ts), hx.I(1+r.Intn(3)), kvSx(f)))
			s := time.Unix(0, ts).UTC().Format(time.RFC3339Nano)
			back, err := xtime.ParseTime(format, s)
			c.W.Oracle("xtime.ParseTime(rfc3339nano, Format(ts)) = ts", err == nil && back.UnixNano() == ts, s)
		}
		c.Do("plugin", 1, hx.L(hx.I(count), hx.Z(interval), hx.L(rules...), hx.L(evs...)), true)
		c.W.Count(fmt.Sprintf("plugin_rules_%d", len(rules)))
	}
	// long rule lists (25-60 rules, the implicit default rule is one more slot): each rule has its own limit and matches its own
	// value of field a; the same throttle keys are seen under rules far apart in the list and under the default rule
	for n := 0; n < 25*c.Scale; n++ {
		count := r.Range(1, 3)
		interval := hx.Pick(r, []int64{1_000_000_000, 60_000_000_000})
		nr := r.Range(25, 60)
		var rules []hx.Sx
		for i := 0; i < nr; i++ {
			rules = append(rules, hx.L(hx.I(r.Range(1, 6)), hx.I(r.Intn(2)), kvSx([][2]string{{"a", fmt.Sprintf("v%d", i)}})))
		}
		rules = append(rules, hx.L(hx.I(r.Range(1, 6)), hx.I(r.Intn(2)), hx.L()))
		// the rule indices the events use: a few fixed ones and their neighbours at distance 26, 27, 32
		base := r.Intn(nr)
		idx := []int{base, (base + 26) % nr, (base + 27) % nr, (base + 32) % nr, 0, nr - 1, nr} // nr = no rule matches -> default
		window := int64(count) * interval
		now := window + int64(r.Intn(1<<30))
		var evs []hx.Sx
		for i := r.Range(20, 60); i > 0; i-- {
			if r.Chance(1, 6) {
				now += interval
			}
			f := [][2]string{{"k", hx.Pick(r, []string{"k1", "k2"})}}
			if j := hx.Pick(r, idx); j < nr {
				f = append(f, [2]string{"a", fmt.Sprintf("v%d", j)})
			}
			evs = append(evs, hx.L(hx.Z(now), hx.Z(now), hx.I(1+r.Intn(2)), kvSx(f)))
		}
		c.Do("plugin-many-rules", 1, hx.L(hx.I(count), hx.Z(interval), hx.L(rules...), hx.L(evs...)), true)
		c.W.Count("plugin_many_rules")
	}
}

func genShares(c *hmain.Ctx) {
	totals := []int64{0, 1, 2, 3, 4, 5, 7, 10, 15, 33, 100, 101, 999, 5000, 123457}
	for _, t := range totals {
		for p := 0; p <= 100; p++ {
			c.Do("shares", 2, hx.L(hx.Z(t), hx.L(hx.I(p))), true)
		}
		for p := 0; p <= 100; p += 5 {
			for q := 0; q <= 100; q += 5 {
				c.Do("shares", 2, hx.L(hx.Z(t), hx.L(hx.I(p), hx.I(q))), true)
			}
		}
	}
	r := c.R
	for n := 0; n < 2000*c.Scale; n++ {
		k := r.Range(1, 4)
		ps := make([]hx.Sx, k)
		for i := range ps {
			ps[i] = hx.I(r.Intn(50))
		}
		c.Do("shares", 2, hx.L(hx.Z(int64(r.Intn(100000))), hx.L(ps...)), true)
	}
}

// report-only examination of the two "to examine" items of the design
func examine(c *hmain.Ctx) {
	p := throttle.VerifC16NewPlugin("verif-c16-defaults", 60, time.Minute, 5000, "count", nil)
	defer p.Stop()
	c.W.Notes = append(c.W.Notes, fmt.Sprintf(
		"examined: Start accepts limiter_expiration below the bucket window without complaint — with the documented defaults limiter_expiration=%dus < buckets_count*bucket_interval=%dus, so a key idle for 30m loses the counters of buckets that are still retained",
		p.LimitersExpMicro(), p.WindowMicro()))
	c.W.Count(fmt.Sprintf("default_expiration_below_window_%v", p.LimitersExpMicro() < p.WindowMicro()))
}

func c16Gen(c *hmain.Ctx) {
	// development aid: C16_ONLY=bulk,shared-conc runs only the named generators (the check never sets it)
	only := os.Getenv("C16_ONLY")
	on := func(name string) bool { return only == "" || strings.Contains(","+only+",", ","+name+",") }
	// the expiry cases need seconds of real time: they run in the background while the other streams are generated
	var exp []hx.Sx
	if on("expiry") {
		exp = expiryCases(c, hx.NewRng(c.Seed^0xC16E))
	}
	for _, cs := range exp {
		expiryPrefetch(cs)
	}
	gens := []struct {
		name string
		f    func(*hmain.Ctx)
	}{
		{"exhaustive", genExhaustive}, {"random", genRandom}, {"adversarial", genAdversarial}, {"plugin", genPlugin}, {"shares", genShares},
		// threshold-crossing streams (thresholds.go)
		{"rules256", genManyRules256}, {"bulk", genBulk}, {"shared-seq", genSharedSeq}, {"time-wrap", genTimeWrap}, {"shared-conc", genSharedConc},
		{"shares-many", genSharesMany}, {"shares-ratio", genSharesRatio}, {"shares-sum", genSharesSum},
		// coverage round: options and backends of the anchored files no older stream reached
		{"no-time-field", genNoTimeField}, {"redis", genRedis},
		// round 5: rules that carry their own limit_distribution (ruledistr.go)
		{"rule-distr", genRuleDistr},
	}
	for _, g := range gens {
		if on(g.name) {
			g.f(c)
		}
	}
	for _, cs := range exp {
		c.Do("expiry", 6, cs, true)
		c.W.Count("expiry_cases")
	}
	for i := expiryReruns.Load(); i > 0; i-- {
		c.W.Count("expiry_reruns_timing_assumption_failed")
	}
	examine(c)
}

func main() {
	hmain.Run(&hmain.Prop{ID: "C16",
		Rule: "exhaustive: every op sequence of the tier's length over a 12-point (clock, event time[, size | value]) domain for count/size/distributed limiters; random histories (5-60 ops, clock jumps across 0..3 windows and backwards, past/future/out-of-order event times, limits 0..5, both kinds, 0..3 ratios); adversarial (0 buckets, unlimited, clock inside the first window / before the epoch, extreme event times); whole plugin with rules and keys (0-3 rules, and lists of 25-60 rules whose keys recur under rules 26, 27 and 32 positions apart); parseLimitDistribution; threshold streams: 250-300 rules (rule index byte wraps at 256), run-length histories of thousands of ops with limits 5000 / 2^40 and 60-300 buckets, 2-4 Plugin instances sharing one pipeline's limiters map in sequence and concurrently, time fields that overflow UnixNano / are zero / do not parse, limiter expiry on the real clock, distribution ratios finer than a percent with 5-20 ratios and totals up to 2^60; coverage round: instances without time field and with a limiter key field, time format given as a layout, distribution field without ratios, metric labels, and the redis backend against a fake RESP server (events, syncs in key order / by the real runSync / with an event arriving inside the sync, limit keys as text and JSON with valid and invalid distributions, limits file saved, reloaded, empty; dead endpoint with base / ring / cluster client); rules with conditions + their own limit + their own limit_distribution on a Plugin started through the public API (rule limit below / above / equal to default_limit, count and size kinds, plugin-level distribution on the default rule, bursts past every specified share; judged by the reference semantics with share = round(ratio x the matching rule's limit)). Non-trivial = inside the property's domain (buckets >= 1, limit >= 0); distinct = distinct (sub-model, case) text.",
		Gen:  c16Gen, Exec: c16Exec})
}
