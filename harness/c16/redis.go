package main

// C16 — the REDIS backend of plugin/action/throttle (coverage round): redis_limiter.go and the redis paths of
// limiters_map.go / throttle.go / in_memory_limiter.go / buckets.go / distribution.go, reached through the public API
// (throttle.Plugin with limiter_backend: redis) against a fake RESP server that lives in this process.
//
//	which=9   case = (down client routing vf count interval (rule ...) (item ...)), see coq/Model/Throttle.v (c16_run9)
//	          rule = (limit kind ((field value) ...) groups), groups = ((percent (value-id ...)) ...)
//	          item = (0 now ts size dv ((field value) ...)) | (1 now mode) | (2 #limit-key value) | (3) | (4) | (5)
//	          obs  = ((o ...) final)
//	which=10  = which=4 with time_field "" and limiter_key_field "lk" on the instances >= 1 (thresholds.go, exec4)
//
// The injected clock, redisLimiter.sync, limitersMap.runSync / updateLimitsCfg / saveLimits are unexported and the
// property's export file (plugin/action/throttle/verif_export_c16.go, read-only here) has no wrapper for them: they are
// reached by link name (stub.s allows the body-less declarations), the state of the limiters is read through
// reflect + unsafe.  The bodies stay the ones compiled from /repo.

import (
	"bufio"
	"context"
	"encoding/json"
	"fmt"
	"io"
	"math"
	"net"
	"os"
	"path/filepath"
	"reflect"
	"sort"
	"strconv"
	"strings"
	"sync"
	"sync/atomic"
	"syscall"
	"time"
	"unsafe"

	"github.com/prometheus/client_golang/prometheus"
	"go.uber.org/zap"
	"go.uber.org/zap/zapcore"

	insaneJSON "github.com/ozontech/insane-json"

	"github.com/ozontech/file.d/cfg"
	"github.com/ozontech/file.d/metric"
	"github.com/ozontech/file.d/pipeline"
	"github.com/ozontech/file.d/plugin/action/throttle"

	"verif/harness/hmain"
	"verif/harness/hx"
)

//go:linkname c16LmSetNowFn github.com/ozontech/file.d/plugin/action/throttle.(*limitersMap).setNowFn
func c16LmSetNowFn(lm unsafe.Pointer, fn func() time.Time, propagate bool)

//go:linkname c16RedisSync github.com/ozontech/file.d/plugin/action/throttle.(*redisLimiter).sync
func c16RedisSync(l unsafe.Pointer)

//go:linkname c16LmRunSync github.com/ozontech/file.d/plugin/action/throttle.(*limitersMap).runSync
func c16LmRunSync(lm unsafe.Pointer, ctx context.Context, workers int, interval time.Duration)

//go:linkname c16LmUpdateLimitsCfg github.com/ozontech/file.d/plugin/action/throttle.(*limitersMap).updateLimitsCfg
func c16LmUpdateLimitsCfg(lm unsafe.Pointer)

//go:linkname c16LmSaveLimits github.com/ozontech/file.d/plugin/action/throttle.(*limitersMap).saveLimits
func c16LmSaveLimits(lm unsafe.Pointer)

// ---- a fake RESP server: PING, GET, INCRBY, EXPIRE (+ HELLO refused, CLIENT accepted) ------------------------------

type fakeRedis struct {
	ln    net.Listener
	mu    sync.Mutex
	kv    map[string]string
	conns []net.Conn
	gets  atomic.Int64
	cmds  atomic.Int64
	// called with the key of every INCRBY before it is answered (the client is waiting: redisLimiter.sync is between
	// its snapshot and updateLimiterValues)
	onIncr func(key string)
}

func newFakeRedis() *fakeRedis {
	ln, err := net.Listen("tcp", "127.0.0.1:0")
	if err != nil {
		panic(err)
	}
	s := &fakeRedis{ln: ln, kv: map[string]string{}}
	go func() {
		for {
			c, err := ln.Accept()
			if err != nil {
				return
			}
			s.mu.Lock()
			s.conns = append(s.conns, c)
			s.mu.Unlock()
			go s.serve(c)
		}
	}()
	return s
}

func (s *fakeRedis) addr() string { return s.ln.Addr().String() }

func (s *fakeRedis) close() {
	s.ln.Close()
	s.mu.Lock()
	for _, c := range s.conns {
		c.Close()
	}
	s.mu.Unlock()
}

func readCmd(r *bufio.Reader) ([]string, error) {
	line, err := r.ReadString('\n')
	if err != nil {
		return nil, err
	}
	line = strings.TrimRight(line, "\r\n")
	if len(line) == 0 || line[0] != '*' {
		return strings.Fields(line), nil // inline command
	}
	n, err := strconv.Atoi(line[1:])
	if err != nil {
		return nil, err
	}
	args := make([]string, 0, n)
	for i := 0; i < n; i++ {
		h, err := r.ReadString('\n')
		if err != nil {
			return nil, err
		}
		h = strings.TrimRight(h, "\r\n")
		if len(h) == 0 || h[0] != '$' {
			return nil, fmt.Errorf("fake redis: bad bulk header %q", h)
		}
		l, err := strconv.Atoi(h[1:])
		if err != nil {
			return nil, err
		}
		buf := make([]byte, l+2)
		if _, err := io.ReadFull(r, buf); err != nil {
			return nil, err
		}
		args = append(args, string(buf[:l]))
	}
	return args, nil
}

func (s *fakeRedis) serve(c net.Conn) {
	defer c.Close()
	r := bufio.NewReader(c)
	w := bufio.NewWriter(c)
	for {
		args, err := readCmd(r)
		if err != nil {
			return
		}
		if len(args) > 0 {
			s.handle(args, w)
		}
		if r.Buffered() == 0 {
			if w.Flush() != nil {
				return
			}
		}
	}
}

func (s *fakeRedis) handle(a []string, w *bufio.Writer) {
	s.cmds.Add(1)
	if len(a) == 3 && strings.EqualFold(a[0], "INCRBY") {
		s.mu.Lock()
		f := s.onIncr
		s.mu.Unlock()
		if f != nil {
			f(a[1])
		}
	}
	s.mu.Lock()
	defer s.mu.Unlock()
	switch strings.ToUpper(a[0]) {
	case "PING":
		w.WriteString("+PONG\r\n")
	case "CLIENT", "SELECT", "READONLY":
		w.WriteString("+OK\r\n")
	case "GET":
		if len(a) != 2 {
			w.WriteString("-ERR wrong number of arguments\r\n")
			return
		}
		s.gets.Add(1)
		if v, ok := s.kv[a[1]]; ok {
			fmt.Fprintf(w, "$%d\r\n%s\r\n", len(v), v)
		} else {
			w.WriteString("$-1\r\n")
		}
	case "INCRBY":
		if len(a) != 3 {
			w.WriteString("-ERR wrong number of arguments\r\n")
			return
		}
		n, err := strconv.ParseInt(a[2], 10, 64)
		cur := int64(0)
		if v, ok := s.kv[a[1]]; ok && err == nil {
			cur, err = strconv.ParseInt(v, 10, 64)
		}
		if err != nil {
			w.WriteString("-ERR value is not an integer or out of range\r\n")
			return
		}
		cur += n
		s.kv[a[1]] = strconv.FormatInt(cur, 10)
		fmt.Fprintf(w, ":%d\r\n", cur)
	case "EXPIRE":
		// the counters outlive every case (real time does not advance with the injected clock): nothing expires
		w.WriteString(":1\r\n")
	default: // HELLO: the client falls back to RESP2
		fmt.Fprintf(w, "-ERR unknown command '%s'\r\n", a[0])
	}
}

func (s *fakeRedis) set(k, v string) {
	s.mu.Lock()
	s.kv[k] = v
	s.mu.Unlock()
}

func (s *fakeRedis) del(k string) {
	s.mu.Lock()
	delete(s.kv, k)
	s.mu.Unlock()
}

func (s *fakeRedis) snapshot() map[string]string {
	s.mu.Lock()
	defer s.mu.Unlock()
	out := make(map[string]string, len(s.kv))
	for k, v := range s.kv {
		out[k] = v
	}
	return out
}

// an endpoint nobody listens on
func deadAddr() string {
	ln, err := net.Listen("tcp", "127.0.0.1:0")
	if err != nil {
		panic(err)
	}
	a := ln.Addr().String()
	ln.Close()
	return a
}

// ---- reflect + unsafe access to unexported fields ------------------------------------------------------------------

func fld(v reflect.Value, name string) reflect.Value {
	f := v.FieldByName(name)
	if !f.IsValid() {
		panic("harness/c16: no field " + name + " in " + v.Type().String())
	}
	return reflect.NewAt(f.Type(), unsafe.Pointer(f.UnsafeAddr())).Elem()
}

// ---- the plugin under test -----------------------------------------------------------------------------------------

type group struct {
	pct int64
	ids []int64
}

type rule9 struct {
	limit  int64
	kind   string
	conds  map[string]string
	groups []group
}

func groupsOf(s hx.Sx) []group {
	var out []group
	for _, g := range hx.Items(s) {
		f := hx.Items(g)
		gr := group{pct: hx.Int(f[0])}
		for _, id := range hx.Items(f[1]) {
			gr.ids = append(gr.ids, hx.Int(id))
		}
		out = append(out, gr)
	}
	return out
}

func valueNames(ids []int64) []string {
	out := []string{}
	for _, id := range ids {
		out = append(out, dvValues(int(id))...)
	}
	return out
}

func distrConfig(gs []group) throttle.LimitDistributionConfig {
	d := throttle.LimitDistributionConfig{Field: "d"}
	for _, g := range gs {
		d.Ratios = append(d.Ratios, throttle.ComplexRatio{Ratio: float64(g.pct) / 100, Values: valueNames(g.ids)})
	}
	return d
}

type r9 struct {
	srv       *fakeRedis
	addr      string
	name      string
	dir       string
	nfile     int
	path      string
	down      bool
	client    int
	routing   int
	vf        bool
	count     int
	interval  time.Duration
	rules     []rule9
	clk       atomic.Int64
	p         *throttle.Plugin
	root      *insaneJSON.Root
	lm        reflect.Value // the limitersMap struct
	nev       int
	poisoned  bool
	savesFile bool
}

func (r *r9) lmPtr() unsafe.Pointer { return unsafe.Pointer(r.lm.UnsafeAddr()) }

func (r *r9) start() {
	config := &throttle.Config{}
	config.ThrottleField = "k"
	config.LimiterBackend = "redis"
	def := r.rules[len(r.rules)-1]
	config.DefaultLimit = def.limit
	config.LimitKind = def.kind
	config.BucketsCount = r.count
	config.LimitDistribution = distrConfig(def.groups)
	for _, ru := range r.rules[:len(r.rules)-1] {
		config.Rules = append(config.Rules, throttle.RuleConfig{Limit: ru.limit, LimitKind: ru.kind, Conditions: ru.conds,
			LimitDistribution: distrConfig(ru.groups)})
	}
	rc := &config.RedisBackendCfg
	rc.Endpoint = r.addr
	rc.ClientType = []string{"base", "ring", "cluster"}[r.client]
	rc.ReadOnlyRouting = []string{"off", "latency", "random"}[r.routing]
	rc.LimiterKeyField = "lk"
	if r.vf {
		rc.LimiterValueField = "limit"
		rc.LimiterDistributionField = "distribution"
	}
	rc.LimitsFile = r.path
	if err := cfg.SetDefaultValues(config); err != nil {
		panic(err)
	}
	if err := cfg.Parse(config, nil); err != nil {
		panic(err)
	}
	config.DefaultLimit = def.limit
	config.LimitKind = def.kind
	config.BucketsCount = r.count
	config.BucketInterval_ = r.interval
	for i, ru := range r.rules[:len(r.rules)-1] {
		config.Rules[i].Limit = ru.limit
		config.Rules[i].LimitKind = ru.kind
	}
	rc.SyncInterval_ = time.Hour // the plugin's own runSync never ticks: the harness drives the syncs
	rc.WorkerCount = 3
	// saveLimitsCyclic saves once right after Start (awaited below) and then every limits_save_interval.  Two savers
	// can overwrite a newer file with an older snapshot, so in the cases that observe the file (items 3 and 4) the
	// harness is the only saver after that first save; in the others the cyclic saver runs next to the events.
	rc.LimitsSaveInterval_ = 30 * time.Millisecond
	if r.savesFile {
		rc.LimitsSaveInterval_ = time.Hour
	}
	ino0 := inodeOf(r.path)
	rc.MaxRetries = -1
	rc.Timeout_ = 2 * time.Second
	params := &pipeline.ActionPluginParams{
		PluginDefaultParams: pipeline.PluginDefaultParams{
			PipelineName:     r.name,
			PipelineSettings: &pipeline.Settings{},
			MetricCtl:        metric.NewCtl("verif", prometheus.NewRegistry(), time.Minute, 0),
		},
		Logger: zap.NewNop().WithOptions(zap.WithFatalHook(zapcore.WriteThenPanic)).Sugar(),
	}
	r.p = &throttle.Plugin{}
	r.p.Start(config, params)
	r.lm = fld(reflect.ValueOf(r.p).Elem(), "limitersMap").Elem()
	c16LmSetNowFn(r.lmPtr(), func() time.Time { return time.Unix(0, r.clk.Load()) }, true)
	for deadline := time.Now().Add(5 * time.Second); inodeOf(r.path) == ino0; time.Sleep(100 * time.Microsecond) {
		if time.Now().After(deadline) {
			panic("harness/c16: the first save of saveLimitsCyclic did not happen")
		}
	}
}

// saveLimits renames a fresh temporary file over the limits file: a new inode
func inodeOf(path string) uint64 {
	st, err := os.Stat(path)
	if err != nil {
		return 0
	}
	return st.Sys().(*syscall.Stat_t).Ino
}

// a panic inside redisLimiter.sync leaves the mutexes of the two limiters locked (sync unlocks without defer):
// dropPipeline, which walks over the limiters of the map, would block for ever; the pipeline's map is then left behind
func (r *r9) stop() {
	if r.p != nil {
		r.p.Stop()
		if !r.poisoned {
			dropPipeline(r.name)
		}
		r.p = nil
	}
}

func (r *r9) event(now, ts int64, size, dv int, fields [][2]string) bool {
	r.clk.Store(now)
	_ = r.root.DecodeString("{}")
	r.root.AddFieldNoAlloc(r.root, "time").MutateToString(time.Unix(0, ts).UTC().Format(time.RFC3339Nano))
	for _, f := range fields {
		r.root.AddFieldNoAlloc(r.root, f[0]).MutateToString(f[1])
	}
	if dv >= 0 {
		r.root.AddFieldNoAlloc(r.root, "d").MutateToString(dvValues(dv)[r.nev%2])
	} else if r.nev%2 == 0 {
		r.root.AddFieldNoAlloc(r.root, "d").MutateToString("unlisted")
	}
	r.nev++
	ev := &pipeline.Event{Root: r.root, Size: size}
	return r.p.Do(ev) == pipeline.ActionPass
}

type lim9 struct {
	key string
	v   reflect.Value // the redisLimiter struct
	ptr unsafe.Pointer
}

func (r *r9) limiters() []lim9 {
	mu := (*sync.RWMutex)(fld(r.lm, "mu").UnsafePointer())
	mu.RLock()
	defer mu.RUnlock()
	var out []lim9
	it := fld(r.lm, "lims").MapRange()
	for it.Next() {
		lwg := it.Value().Elem()            // limiterWithGen
		iface := lwg.FieldByName("limiter") // the limiter interface
		ptr := iface.Elem()                 // *redisLimiter
		if ptr.Kind() != reflect.Pointer || ptr.Elem().Type().Name() != "redisLimiter" {
			panic("harness/c16: a limiter of the redis map is a " + ptr.Type().String())
		}
		out = append(out, lim9{key: it.Key().String(), v: ptr.Elem(), ptr: ptr.UnsafePointer()})
	}
	sort.Slice(out, func(i, j int) bool { return out[i].key < out[j].key })
	return out
}

func (r *r9) syncAll(mode int) {
	ls := r.limiters()
	if mode == 0 {
		for _, l := range ls {
			c16RedisSync(l.ptr)
		}
		return
	}
	// two cycles (at least) of the real runSync: every sync of a limiter ends with the GET of its limit key, and a
	// cycle ends before the next begins, so after 2*len(ls)+1 GETs two cycles are complete; runSync returns between
	// two cycles only.  From the second cycle on nothing changes any more (the model runs two).
	g0 := r.srv.gets.Load()
	want := g0 + 2*int64(len(ls)) + 1
	ctx, cancel := context.WithCancel(context.Background())
	done := make(chan struct{})
	go func() {
		defer close(done)
		c16LmRunSync(r.lmPtr(), ctx, 3, 2*time.Millisecond)
	}()
	if len(ls) == 0 {
		time.Sleep(10 * time.Millisecond)
	} else {
		for deadline := time.Now().Add(10 * time.Second); r.srv.gets.Load() < want && time.Now().Before(deadline); {
			time.Sleep(200 * time.Microsecond)
		}
	}
	cancel()
	select {
	case <-done:
	case <-time.After(10 * time.Second):
		panic("harness/c16: runSync did not return")
	}
	if len(ls) > 0 && r.srv.gets.Load() < want {
		panic("harness/c16: runSync did not complete two cycles")
	}
}

// item 6: redisLimiter.sync of every limiter in key order; the first INCRBY of a counter of throttle key tk makes the
// fake server run one event of that key (on its connection goroutine, while sync waits for the reply)
func (r *r9) syncWithEvent(now int64, tk string, e []hx.Sx) hx.Sx {
	r.clk.Store(now)
	prefix := r.name + "_k_" + tk + "_"
	var decision hx.Sx = hx.L()
	fired := false
	msg := ""
	r.srv.mu.Lock()
	r.srv.onIncr = func(key string) {
		if fired || !strings.HasPrefix(key, prefix) {
			return
		}
		parts := strings.Split(key[len(prefix):], "_")
		if len(parts) != 2 {
			return
		}
		for _, p := range parts {
			if _, err := strconv.ParseInt(p, 10, 64); err != nil {
				return
			}
		}
		fired = true
		msg = hx.Catch(func() {
			decision = hx.Bool(r.event(hx.Int(e[0]), hx.Int(e[1]), int(hx.Int(e[2])), int(hx.Int(e[3])), [][2]string{{"k", tk}}))
		})
	}
	r.srv.mu.Unlock()
	defer func() {
		r.srv.mu.Lock()
		r.srv.onIncr = nil
		r.srv.mu.Unlock()
	}()
	r.syncAll(0)
	if msg != "" {
		panic(msg)
	}
	return hx.L(decision, r.dump())
}

func (r *r9) canonKey(k string) string {
	if strings.HasPrefix(k, r.name+"_") {
		return "P_" + k[len(r.name)+1:]
	}
	return k
}

func (r *r9) realKey(k string) string {
	if strings.HasPrefix(k, "P_") {
		return r.name + "_" + k[2:]
	}
	return k
}

func kindCode(k string) int {
	if k == "size" {
		return 1
	}
	return 0
}

// value names -> ids: an id stands for the two names v<id> and w<id>; anything else shows as -1
func idsOfNames(names []string) []int64 {
	seen := map[int64]int{}
	bad := false
	for _, n := range names {
		if len(n) < 2 || (n[0] != 'v' && n[0] != 'w') {
			bad = true
			continue
		}
		id, err := strconv.ParseInt(n[1:], 10, 64)
		if err != nil {
			bad = true
			continue
		}
		if n[0] == 'v' {
			seen[id] |= 1
		} else {
			seen[id] |= 2
		}
	}
	var ids []int64
	for id, m := range seen {
		if m != 3 {
			bad = true
		}
		ids = append(ids, id)
	}
	if bad {
		ids = append(ids, -1)
	}
	sort.Slice(ids, func(i, j int) bool { return ids[i] < ids[j] })
	return ids
}

func ringOf(l reflect.Value) hx.Sx { // l = an inMemoryLimiter struct
	b := fld(l, "buckets").Elem().Elem() // interface -> pointer -> simpleBuckets | distributedBuckets
	meta := fld(b, "bucketsMeta")
	rows := fld(b, "b")
	out := make([]hx.Sx, rows.Len())
	for i := 0; i < rows.Len(); i++ {
		row := rows.Index(i)
		if row.Kind() == reflect.Int64 {
			out[i] = hx.L(hx.Z(row.Int()))
			continue
		}
		xs := make([]hx.Sx, row.Len())
		for j := range xs {
			xs[j] = hx.Z(row.Index(j).Int())
		}
		out[i] = hx.L(xs...)
	}
	return hx.L(hx.Z(fld(meta, "minID").Int()), hx.Z(fld(meta, "maxID").Int()), hx.L(out...))
}

func (r *r9) dump() hx.Sx {
	var ls []hx.Sx
	for _, l := range r.limiters() {
		inc := fld(l.v, "incrementLimiter").Elem()
		tot := fld(l.v, "totalLimiter").Elem()
		limit := fld(tot, "limit")
		distr := fld(limit, "distributions")
		ds := fld(distr, "distributions")
		shares := make([]hx.Sx, ds.Len())
		byIdx := make([][]string, ds.Len())
		for i := range shares {
			shares[i] = hx.Z(fld(ds.Index(i), "limit").Int())
		}
		stray := false
		it := fld(distr, "idxByKey").MapRange()
		for it.Next() {
			i := int(it.Value().Int())
			if i < 0 || i >= len(byIdx) {
				stray = true
				continue
			}
			byIdx[i] = append(byIdx[i], it.Key().String())
		}
		gs := make([]hx.Sx, len(byIdx))
		for i, names := range byIdx {
			ids := idsOfNames(names)
			if stray {
				ids = append(ids, -2)
			}
			gs[i] = hx.List(ids, hx.Z)
		}
		ls = append(ls, hx.L(hx.S(l.key), hx.S(r.canonKey(fld(l.v, "keyLimit").String())),
			hx.Z(fld(fld(inc, "limit"), "value").Int()), hx.Z(fld(limit, "value").Int()),
			hx.I(kindCode(fld(limit, "kind").String())), hx.Z(fld(fld(distr, "defDistribution"), "limit").Int()),
			hx.L(shares...), hx.L(gs...), ringOf(inc), ringOf(tot)))
	}
	// the counters of the store: <pipeline>_k_<throttle key>_<bucket id>_<slot>
	type ctr struct {
		k       string
		id, d   int64
		v       int64
		garbage bool
	}
	var cs []ctr
	if r.srv != nil {
		prefix := r.name + "_k_"
		for k, v := range r.srv.snapshot() {
			if !strings.HasPrefix(k, prefix) || strings.HasSuffix(k, "_limit") {
				continue
			}
			rest := k[len(prefix):]
			j := strings.LastIndexByte(rest, '_')
			i := -1
			if j > 0 {
				i = strings.LastIndexByte(rest[:j], '_')
			}
			c := ctr{k: rest, garbage: true}
			if i >= 0 {
				id, e1 := strconv.ParseInt(rest[i+1:j], 10, 64)
				d, e2 := strconv.ParseInt(rest[j+1:], 10, 64)
				n, e3 := strconv.ParseInt(v, 10, 64)
				if e1 == nil && e2 == nil && e3 == nil {
					c = ctr{k: rest[:i], id: id, d: d, v: n}
				}
			}
			cs = append(cs, c)
		}
	}
	sort.Slice(cs, func(i, j int) bool {
		a, b := cs[i], cs[j]
		if a.k != b.k {
			return a.k < b.k
		}
		if a.id != b.id {
			return a.id < b.id
		}
		return a.d < b.d
	})
	cx := make([]hx.Sx, len(cs))
	for i, c := range cs {
		if c.garbage {
			cx[i] = hx.L(hx.S(c.k), hx.I(-1), hx.I(-1), hx.I(-1))
		} else {
			cx[i] = hx.L(hx.S(c.k), hx.Z(c.id), hx.Z(c.d), hx.Z(c.v))
		}
	}
	return hx.L(hx.L(ls...), hx.L(cx...))
}

type savedRatio struct {
	Ratio  float64  `json:"ratio"`
	Values []string `json:"values"`
}

type savedLimit struct {
	Key          string `json:"key"`
	Kind         string `json:"kind"`
	Limit        int64  `json:"limit"`
	Distribution struct {
		Field   string       `json:"field"`
		Ratios  []savedRatio `json:"ratios"`
		Enabled bool         `json:"enabled"`
	} `json:"distribution"`
}

// updateLimitsCfg + saveLimits, then the file with its ratios in ascending order
func (r *r9) save() map[string]*savedLimit {
	c16LmUpdateLimitsCfg(r.lmPtr())
	c16LmSaveLimits(r.lmPtr())
	data, err := os.ReadFile(r.path)
	if err != nil {
		panic(err)
	}
	m := map[string]*savedLimit{}
	if err := json.Unmarshal(data, &m); err != nil {
		panic(fmt.Sprintf("harness/c16: limits file does not parse: %v: %s", err, data))
	}
	for _, e := range m {
		rs := e.Distribution.Ratios
		sort.SliceStable(rs, func(i, j int) bool { return rs[i].Ratio < rs[j].Ratio })
		for _, x := range rs {
			sort.Strings(x.Values)
		}
	}
	return m
}

func (r *r9) fileSx(m map[string]*savedLimit) hx.Sx {
	keys := make([]string, 0, len(m))
	for k := range m {
		keys = append(keys, k)
	}
	sort.Strings(keys)
	out := make([]hx.Sx, len(keys))
	for i, k := range keys {
		e := m[k]
		var gs []hx.Sx
		for _, x := range e.Distribution.Ratios {
			pct := int64(math.Round(x.Ratio * 100))
			if math.Abs(x.Ratio*100-float64(pct)) > 1e-9 {
				pct = -1
			}
			gs = append(gs, hx.L(hx.Z(pct), hx.List(idsOfNames(x.Values), hx.Z)))
		}
		if len(gs) > 0 && (e.Distribution.Field != "d" || !e.Distribution.Enabled) {
			gs = append(gs, hx.L(hx.I(-1), hx.L()))
		}
		out[i] = hx.L(hx.S(k), hx.S(r.canonKey(e.Key)), hx.I(kindCode(e.Kind)), hx.Z(e.Limit), hx.L(gs...))
	}
	return hx.L(out...)
}

// a new process: the saved file (canonical order) under a path of its own — Start refuses a limits file a pipeline
// of this process already used — and a new Plugin that loads it; the redis store stays
func (r *r9) restart(empty bool) {
	var data []byte
	if !empty {
		m := r.save()
		var err error
		if data, err = json.MarshalIndent(m, "", "  "); err != nil {
			panic(err)
		}
	}
	r.stop()
	r.nfile++
	r.path = filepath.Join(r.dir, fmt.Sprintf("limits-%d.json", r.nfile))
	if err := os.WriteFile(r.path, data, 0o600); err != nil {
		panic(err)
	}
	r.start()
}

var (
	r9Dir     string
	r9DirOnce sync.Once
	r9Seq     atomic.Int64
)

func r9TempDir() string {
	r9DirOnce.Do(func() {
		d, err := os.MkdirTemp("", "verif-c16-redis-")
		if err != nil {
			panic(err)
		}
		r9Dir = d
	})
	return r9Dir
}

func jsonValue(n int64, gs []group, quoted bool) string {
	type distr struct {
		Field   string       `json:"field"`
		Ratios  []savedRatio `json:"ratios"`
		Enabled bool         `json:"enabled"`
	}
	m := map[string]any{"limit": n, "comment": "set by the harness"}
	if quoted {
		m["limit"] = strconv.FormatInt(n, 10)
	}
	if len(gs) > 0 {
		d := distr{Field: "d", Enabled: true}
		for _, g := range gs {
			d.Ratios = append(d.Ratios, savedRatio{Ratio: float64(g.pct) / 100, Values: valueNames(g.ids)})
		}
		m["distribution"] = d
	} else if n%2 == 1 {
		m["distribution"] = distr{Field: "d", Enabled: true, Ratios: []savedRatio{}}
	}
	b, err := json.Marshal(m)
	if err != nil {
		panic(err)
	}
	return string(b)
}

// Every case has a deadline of its own: a case that does not finish (a mutex of the real code left locked by a
// panic, a Fatal under the package's global lock, a sync that never returns) becomes the observation (() (9)), which
// no model run produces, instead of a harness that sits until the runner's timeout.  The goroutine of such a case is
// abandoned (its fake server is closed); since it may hold locks of the throttle package the stream stops after it.
const exec9Deadline = 30 * time.Second

var redisHung atomic.Bool

func exec9(cs hx.Sx) hx.Sx {
	hung := hx.L(hx.L(), hx.L(hx.I(9)))
	if redisHung.Load() {
		return hung
	}
	done := make(chan hx.Sx, 1)
	var srv atomic.Pointer[fakeRedis]
	go func() {
		var o hx.Sx
		if msg := hx.Catch(func() { o = exec9body(cs, &srv) }); msg != "" {
			o = hx.L(hx.L(), hx.L(hx.I(2)))
		}
		done <- o
	}()
	select {
	case o := <-done:
		return o
	case <-time.After(exec9Deadline):
		redisHung.Store(true)
		if s := srv.Load(); s != nil {
			s.close()
		}
		fmt.Fprintln(os.Stderr, "harness/c16: a redis case did not finish within its deadline; the redis stream stops here")
		return hung
	}
}

func exec9body(cs hx.Sx, srvOut *atomic.Pointer[fakeRedis]) hx.Sx {
	it := hx.Items(cs)
	r := &r9{
		down: hx.Int(it[0]) != 0, client: int(hx.Int(it[1])), routing: int(hx.Int(it[2])), vf: hx.Int(it[3]) != 0,
		count: int(hx.Int(it[4])), interval: time.Duration(hx.Int(it[5])),
		name: freshName("redis"), root: insaneJSON.Spawn(),
	}
	for _, rs := range hx.Items(it[6]) {
		f := hx.Items(rs)
		conds := map[string]string{}
		for _, kv := range kvs(f[2]) {
			conds[kv[0]] = kv[1]
		}
		r.rules = append(r.rules, rule9{limit: hx.Int(f[0]), kind: kindName(hx.Int(f[1])), conds: conds, groups: groupsOf(f[3])})
	}
	for _, item := range hx.Items(it[7]) {
		if k := hx.Int(hx.Items(item)[0]); k >= 3 {
			r.savesFile = true
		}
	}
	r.dir = filepath.Join(r9TempDir(), fmt.Sprintf("c%d", r9Seq.Add(1)))
	if err := os.MkdirAll(r.dir, 0o700); err != nil {
		panic(err)
	}
	defer func() {
		os.RemoveAll(r.dir)
		os.Remove(r9Dir) // only when it is empty (a replay of one case leaves nothing behind)
	}()
	r.path = filepath.Join(r.dir, "limits-0.json")
	if r.down {
		r.addr = deadAddr()
	} else {
		r.srv = newFakeRedis()
		srvOut.Store(r.srv)
		defer r.srv.close()
		r.addr = r.srv.addr()
	}
	var obs []hx.Sx
	msg := hx.Catch(func() { r.start() })
	defer func() { _ = hx.Catch(r.stop) }()
	if msg == "" {
		for _, item := range hx.Items(it[7]) {
			f := hx.Items(item)
			var o hx.Sx
			msg = hx.Catch(func() {
				switch hx.Int(f[0]) {
				case 0:
					o = hx.Bool(r.event(hx.Int(f[1]), hx.Int(f[2]), int(hx.Int(f[3])), int(hx.Int(f[4])), kvs(f[5])))
				case 1:
					r.clk.Store(hx.Int(f[1]))
					r.syncAll(int(hx.Int(f[2])))
					o = r.dump()
				case 2:
					key := r.realKey(hx.Str(f[1]))
					v := hx.Items(f[2])
					switch hx.Int(v[0]) {
					case 0:
						r.srv.set(key, strconv.FormatInt(hx.Int(v[1]), 10))
					case 1:
						gs := groupsOf(v[2])
						r.srv.set(key, jsonValue(hx.Int(v[1]), gs, len(gs)%2 == 1))
					case 2:
						r.srv.set(key, "garbage{")
					case 3:
						r.srv.del(key)
					}
					o = hx.L()
				case 6:
					o = r.syncWithEvent(hx.Int(f[1]), hx.Str(f[2]), hx.Items(f[3]))
				case 3:
					o = r.fileSx(r.save())
				case 4, 5:
					r.restart(hx.Int(f[0]) == 5)
					o = hx.L()
				default:
					panic("harness/c16: unknown item")
				}
			})
			if msg != "" {
				r.poisoned = true
				break
			}
			obs = append(obs, o)
		}
	}
	if msg != "" {
		if os.Getenv("C16_DEBUG") != "" {
			fmt.Fprintln(os.Stderr, "harness/c16 exec9:", msg)
		}
		return hx.L(hx.L(obs...), hx.L(hx.I(2)))
	}
	var fin hx.Sx
	if m := hx.Catch(func() { fin = r.dump() }); m != "" {
		return hx.L(hx.L(obs...), hx.L(hx.I(2)))
	}
	return hx.L(hx.L(obs...), hx.L(hx.I(0), fin))
}

// ==== generator =====================================================================================================

func mkGroups(gs []group) hx.Sx {
	out := make([]hx.Sx, len(gs))
	for i, g := range gs {
		out[i] = hx.L(hx.Z(g.pct), hx.List(g.ids, hx.Z))
	}
	return hx.L(out...)
}

// a valid distribution: percents that are multiples of 10 (with limits that are multiples of 10 every share is an
// integer: no float64 tie), sum <= 90, value ids 0..5
func randGroups(r *hx.Rng, n int, zeroOk bool) []group {
	ids := []int64{0, 1, 2, 3, 4, 5}
	for i := len(ids) - 1; i > 0; i-- {
		j := r.Intn(i + 1)
		ids[i], ids[j] = ids[j], ids[i]
	}
	left := 9
	var gs []group
	for i := 0; i < n && left > 0; i++ {
		p := r.Range(0, min(left, 4))
		if (i == 0 || !zeroOk) && p == 0 { // the configuration refuses a ratio 0 ("required"); the redis JSON does not
			p = 1
		}
		left -= p
		g := group{pct: int64(10 * p), ids: []int64{ids[i]}}
		if r.Chance(1, 3) && n+i < len(ids) {
			g.ids = append(g.ids, ids[n+i])
		}
		gs = append(gs, g)
	}
	return gs
}

// Redis backend (coverage round).  One process over one redis: between two syncs the increment limiter counts what
// arrived, the total limiter adds what the increment limiter let through to the global counters of the last sync.
// Regression it exposes: a sync that pushes the wrong bucket / slot, does not reset the increment ring, sets the total
// from the wrong reply (simpleBuckets.set / distributedBuckets.set, isEmpty, actualizeIndex), a limit key that is
// decoded wrongly or applied to one of the two limiters only (updateLimit / updateDistribution, buckets recreated when
// the number of distributions changes), a limits file that does not hold the current limits (isLimitCfgChanged,
// getLimitCfg / getCfg, saveLimits) or is loaded wrongly (loadLimits / parseLimits: throttle key, limit key, kind,
// distribution), a dead endpoint that stops the limiters from limiting.
func genRedis(c *hmain.Ctx) {
	r := c.R
	vals := []string{"x", "y"}
	tkeys := []string{"k1", "k2", "default", "a_b"}
	ncases := 110 * c.Scale
	for n := 0; n < ncases; n++ {
		down := n%11 == 10
		client, routing := 0, 0
		if down {
			client, routing = r.Intn(3), r.Intn(3)
		} else if n%8 == 7 {
			client = 1
		}
		vf := r.Bool()
		count := r.Range(1, 4)
		interval := hx.Pick(r, []int64{1_000_000_000, 60_000_000_000})
		// shape 0: the property's sub-domain (one default rule, no distribution, no limit key, no restart, monotone clock)
		// shape 1: rules + distributions, limit keys, save / restart
		shape := n % 3
		if down {
			shape = 1
		}
		distr := shape != 0 && r.Chance(2, 3)
		backsteps := shape != 0 && n%10 == 4
		limits := []int64{0, 1, 2, 3, 5}
		if distr {
			limits = []int64{10, 10, 20, 30}
		}
		var rules []hx.Sx
		if shape != 0 {
			for i := r.Intn(3); i > 0; i-- {
				var gs []group
				if distr && r.Bool() {
					gs = randGroups(r, r.Range(1, 3), false)
				}
				lim := hx.Pick(r, limits)
				if !distr && r.Chance(1, 8) {
					lim = -1
				}
				rules = append(rules, hx.L(hx.Z(lim), hx.I(r.Intn(2)), kvSx([][2]string{{"a", hx.Pick(r, vals)}}), mkGroups(gs)))
			}
		}
		var dgs []group
		if distr {
			dgs = randGroups(r, r.Range(1, 3), false)
		}
		defKind := r.Intn(2)
		defLimit := hx.Pick(r, limits)
		rules = append(rules, hx.L(hx.Z(defLimit), hx.I(defKind), hx.L(), mkGroups(dgs)))
		window := int64(count) * interval
		now := window + int64(r.Intn(1<<30))
		var items []hx.Sx
		nitems := r.Range(10, 45)
		syncs, sets, saves, restarts, syncEvs := 0, 0, 0, 0, 0
		overrides := []string{"ovr1", "ovr2"}
		for i := 0; i < nitems; i++ {
			k := r.Intn(20)
			switch {
			case k < 13: // a burst of events
				for j := r.Range(1, 6); j > 0; j-- {
					switch r.Intn(8) {
					case 0:
						now += interval
					case 1:
						now += int64(r.Intn(int(min64(2*window, 1<<40)) + 1))
					case 2:
						now += int64(r.Intn(int(min64(interval, 1<<30)) + 1))
					case 3:
						if backsteps && r.Chance(1, 3) { // a clock that steps back: sync can then panic (model = code)
							if back := int64(r.Intn(int(min64(window, 1<<40)) + 1)); now-back >= window {
								now -= back
							}
						}
					}
					ts := now
					switch r.Intn(6) {
					case 0:
						ts = now - int64(r.Intn(int(min64(window+interval, 1<<40))+1))
					case 1:
						ts = now + int64(r.Intn(int(min64(window, 1<<40))+1))
					}
					var f [][2]string
					if !r.Chance(1, 6) {
						f = append(f, [2]string{"k", hx.Pick(r, tkeys)})
					}
					if shape != 0 {
						if r.Chance(2, 3) {
							f = append(f, [2]string{"a", hx.Pick(r, append(vals, "z"))})
						}
						if r.Chance(1, 4) {
							f = append(f, [2]string{"lk", hx.Pick(r, overrides)})
						}
					}
					dv := -1
					if distr && r.Chance(2, 3) {
						dv = r.Intn(6)
					}
					size := 1 + r.Intn(3)
					if distr {
						size = 1 + r.Intn(6)
					}
					items = append(items, hx.L(hx.I(0), hx.Z(now), hx.Z(ts), hx.I(size), hx.I(dv), kvSx(f)))
				}
			case k < 16 && !down: // sync
				if r.Chance(1, 2) {
					now += int64(r.Intn(int(min64(interval, 1<<30)) + 1))
				} else if r.Chance(1, 4) {
					now += int64(r.Intn(int(min64(2*window, 1<<40)) + 1))
				}
				mode := 0
				if len(rules) == 1 && !backsteps && r.Chance(1, 6) {
					mode = 1
				}
				if len(rules) == 1 && r.Chance(1, 4) {
					// an event of one throttle key arrives during the sync, often in a later bucket (the rings are
					// rebuilt under the sync's feet: actualizeIndex)
					en := now
					switch r.Intn(4) {
					case 0:
						en += int64(r.Intn(int(min64(interval, 1<<30)) + 1))
					case 1, 2:
						en += interval * int64(r.Range(1, count+1))
					}
					ts := en
					if r.Chance(1, 3) {
						ts = en - int64(r.Intn(int(min64(window+interval, 1<<40))+1))
					}
					dv := -1
					if distr && r.Chance(2, 3) {
						dv = r.Intn(6)
					}
					items = append(items, hx.L(hx.I(6), hx.Z(now), hx.S(hx.Pick(r, tkeys)), hx.L(hx.Z(en), hx.Z(ts), hx.I(1+r.Intn(3)), hx.I(dv))))
					now = en
					syncEvs++
				} else {
					items = append(items, hx.L(hx.I(1), hx.Z(now), hx.I(mode)))
				}
				syncs++
			case k < 18 && !down && shape != 0: // the limit key of one limiter
				key := "P_k_" + hx.Pick(r, tkeys) + "_limit"
				if r.Chance(1, 3) {
					key = hx.Pick(r, overrides)
				}
				var v hx.Sx
				ratioOnly := false
				lim := hx.Pick(r, limits)
				switch r.Intn(8) {
				case 0:
					v = hx.L(hx.I(2))
				case 1:
					v = hx.L(hx.I(3))
				case 2, 3:
					v = hx.L(hx.I(0), hx.Z(lim))
				default:
					var gs []group
					if distr && len(dgs) > 0 && r.Chance(1, 4) {
						// the same values and the same limit, other ratios: only the ratios tell isLimitCfgChanged
						lim, ratioOnly = defLimit, true
						total := int64(0)
						for _, g := range dgs {
							ng := group{pct: g.pct, ids: g.ids}
							if r.Bool() {
								ng.pct = int64(10 * r.Range(0, 3))
							}
							if total+ng.pct > 90 {
								ng.pct = 0
							}
							total += ng.pct
							gs = append(gs, ng)
						}
					} else if distr && r.Chance(3, 4) {
						gs = randGroups(r, r.Range(1, 3), true)
						switch r.Intn(10) { // an invalid distribution: logged, the limit is updated all the same
						case 0:
							gs[0].pct = 110
						case 1:
							gs[0].ids = nil
						case 2:
							gs = append(gs, group{pct: 10, ids: []int64{gs[0].ids[0]}})
						case 3:
							gs = append(gs, group{pct: 100, ids: []int64{7}})
						}
					}
					v = hx.L(hx.I(1), hx.Z(lim), mkGroups(gs))
				}
				items = append(items, hx.L(hx.I(2), hx.S(key), v))
				sets++
				// mostly followed by the sync that reads it
				if ratioOnly || r.Chance(3, 4) {
					items = append(items, hx.L(hx.I(1), hx.Z(now), hx.I(0)))
					syncs++
				}
				if ratioOnly {
					items = append(items, hx.L(hx.I(3)))
					saves++
				}
			case k < 19 && shape != 0:
				items = append(items, hx.L(hx.I(3)))
				saves++
			case shape != 0 && restarts < 2 && r.Chance(1, 2):
				if r.Chance(1, 5) { // an empty limits file: the loaded map is empty, every limiter starts from its rule again
					items = append(items, hx.L(hx.I(5)))
				} else {
					items = append(items, hx.L(hx.I(4)))
				}
				restarts++
			}
		}
		b2i := func(b bool) int {
			if b {
				return 1
			}
			return 0
		}
		cs := hx.L(hx.I(b2i(down)), hx.I(client), hx.I(routing), hx.I(b2i(vf)), hx.I(count), hx.Z(interval), hx.L(rules...), hx.L(items...))
		c.Do("plugin-redis", 9, cs, true)
		if redisHung.Load() { // reported by the case that hung (observation (() (9))); nothing after it can be trusted
			c.W.Count("redis_stream_stopped_after_a_hung_case")
			break
		}
		switch {
		case down:
			c.W.Count("redis_endpoint_dead")
		case shape == 0:
			c.W.Count("redis_property_subdomain")
		default:
			c.W.Count("redis_rules_limit_keys_files")
		}
		if distr {
			c.W.Count("redis_with_distribution")
		}
		if syncs > 0 {
			c.W.Count("redis_with_syncs")
		}
		if sets > 0 {
			c.W.Count("redis_with_limit_keys")
		}
		if syncEvs > 0 {
			c.W.Count("redis_with_event_during_sync")
		}
		if saves > 0 {
			c.W.Count("redis_with_saved_files")
		}
		if restarts > 0 {
			c.W.Count("redis_with_restart_from_file")
		}
	}
	if r9Dir != "" {
		os.RemoveAll(r9Dir)
	}
}
