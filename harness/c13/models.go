package main

// Differential streams of the modelled index arithmetic (which 30..40): the REAL function on exactly
// what the case says, observable compared for equality with the extracted Gallina model.
// Only public API of /repo is used: the substitution filters through substitution.ParseSubstitution
// (the documented syntax), the normaliser through normalize.NewTokenNormalizer, everything else
// through the action's Do.

import (
	"encoding/json"
	"fmt"
	"regexp"
	"sort"
	"strconv"
	"strings"
	"unicode"

	"github.com/ozontech/file.d/cfg"
	"github.com/ozontech/file.d/cfg/substitution"
	"github.com/ozontech/file.d/fd"
	"github.com/ozontech/file.d/pipeline"
	"github.com/ozontech/file.d/plugin/action/convert_utf8_bytes"
	"github.com/ozontech/file.d/plugin/action/hash"
	"github.com/ozontech/file.d/plugin/action/hash/normalize"
	"github.com/ozontech/file.d/plugin/action/json_extract"
	"github.com/ozontech/file.d/plugin/action/parse_re2"
	"github.com/ozontech/file.d/plugin/action/split"
	insaneJSON "github.com/ozontech/insane-json"

	"verif/harness/hmain"
	"verif/harness/hx"
)

func okB(b []byte) hx.Sx { return hx.L(hx.I(0), hx.B(b)) }

var panicObs = hx.L(hx.I(2))

// exact: a copy whose capacity equals its length, so that a Go slice expression beyond the length
// panics exactly where the len-based model of Base/GoSem.v says Panic
func exact(b []byte) []byte {
	c := make([]byte, len(b))
	copy(c, b)
	return c[:len(c):len(c)]
}

var filterCache = map[string]substitution.FieldFilter{}

// oneFilter: the filter object the modify action would build for `${f|<text>}`
func oneFilter(text string) (substitution.FieldFilter, string) {
	if f, ok := filterCache[text]; ok {
		return f, ""
	}
	var ops []substitution.SubstitutionOp
	var err error
	setFatal("")
	msg := hx.Catch(func() { ops, err = substitution.ParseSubstitution("${f|"+text+"}", nil, theLogger.Desugar()) })
	switch {
	case msg != "":
		return nil, "parse panicked: " + msg
	case err != nil:
		return nil, "rejected: " + err.Error()
	case len(ops) != 1 || len(ops[0].Filters) != 1:
		return nil, "not one filter"
	}
	filterCache[text] = ops[0].Filters[0]
	return ops[0].Filters[0], ""
}

func applyFilter(text string, src []byte) hx.Sx {
	f, err := oneFilter(text)
	if err != "" {
		if strings.HasPrefix(err, "rejected") {
			return hx.L(hx.I(7)) // the configuration is not accepted (the model says when)
		}
		return hx.L(hx.I(8), hx.S(err))
	}
	var out []byte
	s := exact(src)
	if msg := hx.Catch(func() { out = f.Apply(s, s) }); msg != "" {
		return panicObs
	}
	return okB(out)
}

var modeNames = []string{"all", "left", "right"}

func jq(s string) string { b, _ := json.Marshal(s); return string(b) }

func cutText(first bool, count int64) string {
	m := "last"
	if first {
		m = "first"
	}
	return fmt.Sprintf("cut(%q,%d)", m, count)
}
func trimToText(mode int64, cutset string) string {
	return "trim_to(" + jq(modeNames[mode]) + "," + jq(cutset) + ")"
}
func trimText(mode int64, cutset string) string {
	return "trim(" + jq(modeNames[mode]) + "," + jq(cutset) + ")"
}

func pathSx(p []string) hx.Sx { return hx.Ss(p) }

// ---------------------------------------------------------------------------------------------
// tree-level helpers

func rootOf(tree hx.Sx) *insaneJSON.Root {
	root := insaneJSON.Spawn()
	if err := root.DecodeString(hx.JSONText(tree)); err != nil {
		panic("c13: generated tree does not decode: " + err.Error())
	}
	return root
}

func outTree(msg string, root *insaneJSON.Root) hx.Sx {
	if msg != "" {
		return panicObs
	}
	return hx.L(hx.I(0), hx.JSON(root.Node))
}

type nopCtl struct{ spawned []hx.Sx }

func (c *nopCtl) Propagate(*pipeline.Event) {}
func (c *nopCtl) Spawn(_ *pipeline.Event, nodes []*insaneJSON.Node) {
	for _, n := range nodes {
		c.spawned = append(c.spawned, hx.JSON(n))
	}
}
func (c *nopCtl) IncMaxEventSizeExceeded(...string) {}

func configOf(typ string, cfgJSON []byte) (pipeline.AnyConfig, string) {
	info, e := fd.DefaultPluginRegistry.GetActionByType(typ)
	if e != nil {
		return nil, e.Error()
	}
	conf, e := pipeline.GetConfig(info, cfgJSON, map[string]int{"gomaxprocs": 4, "capacity": 256})
	if e != nil {
		return nil, e.Error()
	}
	return conf, ""
}

func badCfg(err string) hx.Sx { return hx.L(hx.I(7), hx.S(err)) }

// candidates of unicode.IsGraphic the convert model may ask about
func graphicOracle(root *insaneJSON.Node, set map[int64]bool) {
	switch {
	case root.IsString():
		s := root.AsString()
		for i := 0; i < len(s); i++ {
			size := 0
			if s[i] == 'u' {
				size = 4
			} else if s[i] == 'U' {
				size = 8
			}
			if size == 0 || i+1+size > len(s) {
				continue
			}
			if u, err := strconv.ParseUint(s[i+1:i+1+size], 16, 64); err == nil {
				r := rune(u)
				if unicode.IsGraphic(r) {
					set[int64(r)] = true
				}
			}
		}
	case root.IsArray():
		for _, x := range root.AsArray() {
			graphicOracle(x, set)
		}
	case root.IsObject():
		for _, f := range root.AsFields() {
			graphicOracle(f.AsFieldValue(), set)
		}
	}
}

var normCache = map[int64]normalize.Normalizer{}
var normNames = []string{"curly_bracketed", "square_bracketed", "parenthesized", "double_quoted", "single_quoted", "grave_quoted"}

func normalizerFor(mask int64) normalize.Normalizer {
	if n, ok := normCache[mask]; ok {
		return n
	}
	var names []string
	for i, nm := range normNames {
		if mask&(1<<i) != 0 {
			names = append(names, nm)
		}
	}
	n, err := normalize.NewTokenNormalizer(normalize.TokenNormalizerParams{BuiltinPatterns: strings.Join(names, "|")})
	if err != nil || n == nil {
		panic("c13: normaliser: " + fmt.Sprint(err))
	}
	normCache[mask] = n
	return n
}

// modify: the substitution text of the structured description, in the documented syntax
func modifyText(ops []hx.Sx) string {
	var b strings.Builder
	for _, op := range ops {
		f := hx.Items(op)
		if hx.Int(f[0]) == 0 {
			b.WriteString(hx.Str(f[1]))
			continue
		}
		b.WriteString("${" + hx.Str(f[1]))
		for _, fl := range hx.Items(f[2]) {
			g := hx.Items(fl)
			b.WriteString("|")
			switch hx.Int(g[0]) {
			case 0:
				b.WriteString(cutText(hx.Truth(g[1]), hx.Int(g[2])))
			case 1:
				b.WriteString(trimToText(hx.Int(g[1]), hx.Str(g[2])))
			default:
				b.WriteString(trimText(hx.Int(g[1]), hx.Str(g[2])))
			}
		}
		b.WriteString("}")
	}
	return b.String()
}

func execModel(which int, cs hx.Sx) hx.Sx {
	if which >= 42 && which <= 49 { // rename, move, flatten, ... : extra.go
		return execExtra(which, cs)
	}
	it := hx.Items(cs)
	switch which {
	case 30:
		return applyFilter(cutText(hx.Truth(it[0]), hx.Int(it[1])), hx.Bytes(it[2]))
	case 31:
		return applyFilter(trimToText(hx.Int(it[0]), hx.Str(it[1])), hx.Bytes(it[2]))
	case 32:
		return applyFilter(trimText(hx.Int(it[0]), hx.Str(it[1])), hx.Bytes(it[2]))
	case 33:
		re, limit, sep, emp, src := hx.Str(it[0]), hx.Int(it[1]), hx.Str(it[3]), hx.Truth(it[4]), hx.Bytes(it[5])
		var gs []string
		for _, g := range hx.Items(it[2]) {
			gs = append(gs, strconv.FormatInt(hx.Int(g), 10))
		}
		text := fmt.Sprintf("re(%s,%d,[%s],%s,%v)", jq(re), limit, strings.Join(gs, ","), jq(sep), emp)
		rx := regexp.MustCompile(re)
		var idxs []hx.Sx
		for _, m := range rx.FindAllSubmatchIndex(src, int(limit)) {
			idxs = append(idxs, hx.List(m, func(i int) hx.Sx { return hx.I(i) }))
		}
		return hx.L(hx.I(rx.NumSubexp()), hx.L(idxs...), applyFilter(text, src))

	case 34: // parse_re2 Do
		conf, err := configOf("parse_re2", hx.Bytes(it[0]))
		if err != "" {
			return badCfg(err)
		}
		c := conf.(*parse_re2.Config)
		p, e := newInstance("parse_re2", hx.Bytes(it[0]), settingsOf([3]int{}), &nopCtl{}, 0)
		if e != "" {
			return badCfg(e)
		}
		root := rootOf(it[1])
		defer insaneJSON.Release(root)
		rx := regexp.MustCompile(c.Re2)
		var sm []hx.Sx
		if n := root.Dig(c.Field_...); n != nil {
			for _, g := range rx.FindSubmatch([]byte(strings.Clone(n.AsString()))) {
				sm = append(sm, hx.B(g))
			}
		}
		ev := &pipeline.Event{Root: root}
		msg := hx.Catch(func() { p.Do(ev) })
		return hx.L(pathSx(c.Field_), hx.S(c.Prefix), hx.Ss(rx.SubexpNames()), hx.L(sm...), outTree(msg, root))

	case 35: // convert_utf8_bytes Do
		conf, err := configOf("convert_utf8_bytes", hx.Bytes(it[0]))
		if err != "" {
			return badCfg(err)
		}
		c := conf.(*convert_utf8_bytes.Config)
		p, e := newInstance("convert_utf8_bytes", hx.Bytes(it[0]), settingsOf([3]int{}), &nopCtl{}, 0)
		if e != "" {
			return badCfg(e)
		}
		root := rootOf(it[1])
		defer insaneJSON.Release(root)
		var paths []hx.Sx
		for _, f := range c.Fields {
			paths = append(paths, pathSx(cfg.ParseFieldSelector(string(f))))
		}
		set := map[int64]bool{}
		graphicOracle(root.Node, set)
		var gr []int64
		for k := range set {
			gr = append(gr, k)
		}
		sort.Slice(gr, func(i, j int) bool { return gr[i] < gr[j] })
		ev := &pipeline.Event{Root: root}
		msg := hx.Catch(func() { p.Do(ev) })
		return hx.L(hx.Bool(c.ReplaceNonGraphic), hx.L(paths...), hx.List(gr, hx.Z), outTree(msg, root))

	case 36: // hash normaliser, bracket / quote tokenizer only
		n := normalizerFor(hx.Int(it[0]))
		var out []byte
		data := exact(hx.Bytes(it[1]))
		if msg := hx.Catch(func() { out = n.Normalize(make([]byte, 0, 8), data) }); msg != "" {
			return panicObs
		}
		return okB(out)

	case 37: // split Do
		conf, err := configOf("split", hx.Bytes(it[1]))
		if err != "" {
			return badCfg(err)
		}
		c := conf.(*split.Config)
		ctl := &nopCtl{}
		p, e := newInstance("split", hx.Bytes(it[1]), settingsOf([3]int{}), ctl, 0)
		if e != "" {
			return badCfg(e)
		}
		root := rootOf(it[2])
		defer insaneJSON.Release(root)
		ev := &pipeline.Event{Root: root}
		if hx.Truth(it[0]) {
			ev.SetChildKind()
		}
		var res pipeline.ActionResult
		if msg := hx.Catch(func() { res = p.Do(ev) }); msg != "" {
			return hx.L(pathSx(c.Field_), panicObs)
		}
		return hx.L(pathSx(c.Field_), hx.L(hx.I(0), hx.L(hx.I(int(res)), hx.L(ctl.spawned...))))

	case 38: // json_extract Do
		conf, err := configOf("json_extract", hx.Bytes(it[0]))
		if err != "" {
			return badCfg(err)
		}
		c := conf.(*json_extract.Config)
		p, e := newInstance("json_extract", hx.Bytes(it[0]), settingsOf([3]int{}), &nopCtl{}, 0)
		if e != "" {
			return badCfg(e)
		}
		root := rootOf(it[1])
		defer insaneJSON.Release(root)
		var efs []hx.Sx
		dup := false
		for _, f := range c.ExtractFields {
			if f == c.ExtractField {
				dup = true
			}
			efs = append(efs, pathSx(cfg.ParseFieldSelector(string(f))))
		}
		// the embedded document as insane-json parses it (the stream only generates valid documents)
		doc := hx.I(0)
		if n := root.Dig(c.Field_...); n != nil {
			d := insaneJSON.Spawn()
			defer insaneJSON.Release(d)
			if err := d.DecodeString(strings.Clone(n.AsString())); err == nil {
				doc = hx.JSON(d.Node)
			}
		}
		ev := &pipeline.Event{Root: root}
		msg := hx.Catch(func() { p.Do(ev) })
		return hx.L(pathSx(c.Field_), hx.L(efs...), pathSx(c.ExtractField_), hx.Bool(dup), hx.S(c.Prefix), doc, outTree(msg, root))

	case 39: // hash Do
		conf, err := configOf("hash", hx.Bytes(it[0]))
		if err != "" {
			return badCfg(err)
		}
		c := conf.(*hash.Config)
		p, e := newInstance("hash", hx.Bytes(it[0]), settingsOf([3]int{}), &nopCtl{}, 0)
		if e != "" {
			return badCfg(e)
		}
		root := rootOf(it[1])
		defer insaneJSON.Release(root)
		var fs []hx.Sx
		for _, f := range c.Fields {
			fs = append(fs, hx.L(pathSx(f.Field_), hx.Bool(f.Format == "normalize"), hx.I(f.MaxSize)))
		}
		ev := &pipeline.Event{Root: root}
		msg := hx.Catch(func() { p.Do(ev) })
		// the hash value is the oracle part (xxhash is library code): what stands at result_field now
		h := hx.I(0)
		if msg == "" {
			if n := root.Dig(c.ResultField_...); n != nil && n.IsNumber() {
				if u, err := strconv.ParseUint(n.AsString(), 10, 64); err == nil {
					h = hx.U(u)
				}
			}
		}
		return hx.L(hx.L(fs...), pathSx(c.ResultField_), h, outTree(msg, root))

	case 40: // modify Do
		skip, target, ops := hx.Truth(it[0]), hx.Str(it[1]), hx.Items(it[2])
		m := map[string]string{target: modifyText(ops)}
		if skip {
			m["_skip_empty"] = "true"
		}
		cfgJSON, _ := json.Marshal(m)
		p, e := newInstance("modify", cfgJSON, settingsOf([3]int{}), &nopCtl{}, 0)
		if e != "" {
			return badCfg(e)
		}
		root := rootOf(it[3])
		defer insaneJSON.Release(root)
		var fps []hx.Sx
		for _, op := range ops {
			f := hx.Items(op)
			if hx.Int(f[0]) == 1 {
				fps = append(fps, pathSx(cfg.ParseFieldSelector(hx.Str(f[1]))))
			}
		}
		ev := &pipeline.Event{Root: root}
		msg := hx.Catch(func() { p.Do(ev) })
		return hx.L(pathSx(cfg.ParseFieldSelector(target)), hx.L(fps...), outTree(msg, root))

	case 41: // modify Do on ONE instance over several events (the instance reuses p.buf / p.fieldBuf)
		skip, target, ops := hx.Truth(it[0]), hx.Str(it[1]), hx.Items(it[2])
		m := map[string]string{target: modifyText(ops)}
		if skip {
			m["_skip_empty"] = "true"
		}
		cfgJSON, _ := json.Marshal(m)
		p, e := newInstance("modify", cfgJSON, settingsOf([3]int{}), &nopCtl{}, 0)
		if e != "" {
			return badCfg(e)
		}
		var fps []hx.Sx
		for _, op := range ops {
			f := hx.Items(op)
			if hx.Int(f[0]) == 1 {
				fps = append(fps, pathSx(cfg.ParseFieldSelector(hx.Str(f[1]))))
			}
		}
		var outs []hx.Sx
		for _, t := range hx.Items(it[3]) {
			root := rootOf(t)
			ev := &pipeline.Event{Root: root}
			msg := hx.Catch(func() { p.Do(ev) })
			outs = append(outs, outTree(msg, root))
			insaneJSON.Release(root)
		}
		return hx.L(pathSx(cfg.ParseFieldSelector(target)), hx.L(fps...), hx.L(outs...))
	}
	panic("c13: unknown which")
}

// ---------------------------------------------------------------------------------------------
// generators

// every string over the alphabet up to the given length
func allStrings(alpha []string, maxLen int, f func(s string, n int)) {
	var rec func(s string, n int)
	rec = func(s string, n int) {
		f(s, n)
		if n < maxLen {
			for _, a := range alpha {
				rec(s+a, n+1)
			}
		}
	}
	rec("", 0)
}

type treeGen struct{ r *hx.Rng }

var cleanKeys = []string{"log", "message", "level", "a", "b", "c", "d", "items", "hash", "t", "x_a", "p_b"}

func (g treeGen) str() string {
	r := g.r
	switch r.Intn(8) {
	case 0:
		return ""
	case 1:
		return hx.Pick(r, strBackslash)
	case 2:
		return hx.Pick(r, strPlain)
	case 3:
		return hx.Pick(r, []string{"xyz", "xz", "z", "yyz", "abc", "2021-06-22 16:24:27 GMT [7291] => [3-1] client=c,db=d,user=u LOG:  listening", "ab{cd}ef", "  padded  ", "{}", "{{a}}b}"})
	case 4:
		return g.doc(2)
	default:
		n := r.Intn(10)
		b := make([]byte, n)
		for i := range b {
			b[i] = "abxyz{} \\u0"[r.Intn(11)]
		}
		return string(b)
	}
}

// doc: a valid embedded JSON document whose numbers are small canonical integers
func (g treeGen) doc(depth int) string {
	return hx.JSONText(g.tree(depth, true))
}

func (g treeGen) tree(depth int, docMode bool) hx.Sx {
	r := g.r
	n := r.Intn(5)
	keys := append([]string(nil), cleanKeys...)
	shuffle(r, keys)
	items := []hx.Sx{hx.I(5)}
	for i := 0; i < n; i++ {
		items = append(items, hx.L(hx.S(keys[i]), g.val(depth, docMode)))
	}
	return hx.L(items...)
}

func (g treeGen) val(depth int, docMode bool) hx.Sx {
	r := g.r
	switch k := r.Intn(12); {
	case k < 4:
		if docMode {
			return hx.L(hx.I(3), hx.S(hx.Pick(r, []string{"", "v", "some text", "q\"uote", "line\nbreak", "é"})))
		}
		return hx.L(hx.I(3), hx.S(g.str()))
	case k == 4:
		if docMode {
			return hx.L(hx.I(2), hx.S(hx.Pick(r, []string{"0", "1", "-7", "42", "1624379067"})))
		}
		return hx.L(hx.I(2), hx.S(hx.Pick(r, []string{"0", "1", "-7", "42", "1.5", "1e3", "12345678901234567890"})))
	case k == 5:
		return hx.I(0)
	case k == 6:
		return hx.L(hx.I(1), hx.Bool(r.Bool()))
	case k < 9 && depth > 0:
		return g.tree(depth-1, docMode)
	case k < 11 && depth > 0:
		items := []hx.Sx{hx.I(4)}
		for i := r.Intn(4); i > 0; i-- {
			if r.Chance(1, 2) {
				items = append(items, g.tree(depth-1, docMode))
			} else {
				items = append(items, g.val(depth-1, docMode))
			}
		}
		return hx.L(items...)
	default:
		return hx.L(hx.I(3), hx.S("s"))
	}
}

// focused: an event over exactly the fields the tree-level configurations name, so that most cases
// make the action do something (match, spawn, extract, hash, substitute)
func (g treeGen) focused(doc bool) hx.Sx {
	r := g.r
	str := func() hx.Sx {
		if doc {
			return hx.L(hx.I(3), hx.S(hx.Pick(r, []string{"", "v", "some text", "q\"uote", "line\nbreak", "é", "xyz"})))
		}
		switch r.Intn(6) {
		case 0:
			return hx.L(hx.I(3), hx.S("2021-06-22 16:24:27 GMT [7291] => [3-1] client=c,db=d,user=u LOG:  listening on \"0.0.0.0\""))
		case 1:
			return hx.L(hx.I(3), hx.S(hx.Pick(r, []string{"xyz", "xz", "z", "yz", "xyzz", "zxy", "xy"})))
		default:
			return hx.L(hx.I(3), hx.S(g.str()))
		}
	}
	leaf := func() hx.Sx {
		switch r.Intn(8) {
		case 0:
			return hx.I(0)
		case 1:
			return hx.L(hx.I(1), hx.Bool(r.Bool()))
		case 2:
			return hx.L(hx.I(2), hx.S(hx.Pick(r, []string{"0", "1", "-7", "42", "1624379067"})))
		default:
			return str()
		}
	}
	var arr func(depth int) hx.Sx
	var obj func(keys []string, depth int) hx.Sx
	val := func(depth int) hx.Sx {
		switch k := r.Intn(10); {
		case k < 5 || depth == 0:
			return leaf()
		case k < 8:
			return obj([]string{"b", "c", "d", "e", "message", "level"}, depth-1)
		default:
			return arr(depth - 1)
		}
	}
	arr = func(depth int) hx.Sx {
		items := []hx.Sx{hx.I(4)}
		for i := r.Intn(4); i > 0; i-- {
			if r.Chance(2, 3) {
				items = append(items, obj([]string{"message", "level", "b", "x"}, depth))
			} else {
				items = append(items, val(depth))
			}
		}
		return hx.L(items...)
	}
	obj = func(keys []string, depth int) hx.Sx {
		items := []hx.Sx{hx.I(5)}
		ks := append([]string(nil), keys...)
		shuffle(r, ks)
		for _, k := range ks[:r.Intn(len(ks)+1)] {
			items = append(items, hx.L(hx.S(k), val(depth)))
		}
		return hx.L(items...)
	}
	items := []hx.Sx{hx.I(5)}
	ks := []string{"log", "message", "level", "a", "items", "hash", "t", "b"}
	shuffle(r, ks)
	for _, k := range ks[:r.Range(2, len(ks))] {
		var v hx.Sx
		switch {
		case k == "a" && r.Chance(4, 5):
			v = obj([]string{"b", "c", "e", "hash"}, 2)
		case k == "items" && r.Chance(4, 5):
			v = arr(2)
		case r.Chance(1, 6):
			v = val(2)
		default:
			v = leaf()
		}
		items = append(items, hx.L(hx.S(k), v))
	}
	return hx.L(items...)
}

// withField: the object tree t with the value v at the (object keys only) path, created if missing
func withField(t hx.Sx, path []string, v hx.Sx) hx.Sx {
	if len(path) == 0 {
		return v
	}
	var items []hx.Sx
	if hx.IsList(t) && len(hx.Items(t)) > 0 && hx.IsInt(hx.Items(t)[0]) && hx.Int(hx.Items(t)[0]) == 5 {
		items = append(items, hx.Items(t)...)
	} else {
		items = []hx.Sx{hx.I(5)}
	}
	for i, kv := range items[1:] {
		f := hx.Items(kv)
		if hx.Str(f[0]) == path[0] {
			items[i+1] = hx.L(f[0], withField(f[1], path[1:], v))
			return hx.L(items...)
		}
	}
	items = append(items, hx.L(hx.S(path[0]), withField(hx.L(hx.I(5)), path[1:], v)))
	return hx.L(items...)
}

func sxStr(s string) hx.Sx { return hx.L(hx.I(3), hx.S(s)) }

// the assumed shape of the regexp library's answers (hypotheses of c13_modify_re_total and
// c13_parse_re2_total), re-checked on every case
func reOracle(c *hmain.Ctx, src []byte, obs hx.Sx) {
	it := hx.Items(obs)
	nsub := int(hx.Int(it[0]))
	ok := true
	for _, m := range hx.Items(it[1]) {
		ix := hx.Items(m)
		if len(ix) != 2*(nsub+1) {
			ok = false
		}
		for k := 0; k+1 < len(ix); k += 2 {
			s, e := hx.Int(ix[k]), hx.Int(ix[k+1])
			if !((s == -1 && e == -1) || (0 <= s && s <= e && e <= int64(len(src)))) {
				ok = false
			}
		}
	}
	c.W.Oracle("regexp.FindAllSubmatchIndex: 2*(NumSubexp+1) entries per match, each pair -1/-1 or a range inside src", ok, hx.String(obs))
}

func genModels(c *hmain.Ctx) {
	r := c.R
	tg := treeGen{r}
	long := c.Tier == "thorough"
	pick := func(a, b int) int {
		if long {
			return b
		}
		return a
	}

	// ---- 30 cut: exhaustive sources over {a,b} x count x mode
	allStrings([]string{"a", "b"}, pick(5, 7), func(s string, n int) {
		for count := int64(1); count <= int64(pick(6, 8)); count++ {
			for _, first := range []bool{true, false} {
				c.Do("cut-exhaustive", 30, hx.L(hx.Bool(first), hx.Z(count), hx.S(s)), int64(n) >= count)
			}
		}
	})
	for i := 0; i < 400*c.Scale; i++ {
		s := tg.str()
		count := int64(r.Range(1, 12))
		c.Do("cut-random", 30, hx.L(hx.Bool(r.Bool()), hx.Z(count), hx.S(s)), int64(len(s)) >= count)
	}

	// ---- 31 trim_to: exhaustive sources over {a,b,c} x cutsets x modes
	cutsets := []string{"a", "b", "ab", "ba", "abc", "c", "aa"}
	allStrings([]string{"a", "b", "c"}, pick(5, 6), func(s string, n int) {
		for _, cs := range cutsets {
			for mode := int64(0); mode < 3; mode++ {
				c.Do("trim-to-exhaustive", 31, hx.L(hx.Z(mode), hx.S(cs), hx.S(s)), strings.Contains(s, cs))
			}
		}
	})
	for i := 0; i < 400*c.Scale; i++ {
		s := tg.str()
		cs := hx.Pick(r, []string{"{", "}", "a", "xy", " ", "z", "ab", ":", "\\u"})
		c.Do("trim-to-random", 31, hx.L(hx.Z(int64(r.Intn(3))), hx.S(cs), hx.S(s)), strings.Contains(s, cs))
	}

	// ---- 32 trim (ASCII cutsets)
	allStrings([]string{"a", "b", " "}, pick(5, 6), func(s string, n int) {
		for _, cs := range []string{"a", " ", "ab", "b "} {
			for mode := int64(0); mode < 3; mode++ {
				c.Do("trim-exhaustive", 32, hx.L(hx.Z(mode), hx.S(cs), hx.S(s)), n > 0)
			}
		}
	})
	for i := 0; i < 300*c.Scale; i++ {
		c.Do("trim-random", 32, hx.L(hx.Z(int64(r.Intn(3))), hx.S(hx.Pick(r, []string{"\n", " x", "{}", "ab", "z"})), hx.S(tg.str())), true)
	}

	// ---- 33 re filter: sources over {a,b} x regexps (optional, nested, empty, alternating groups)
	type reCase struct {
		re     string
		groups [][]int64
	}
	res := []reCase{
		{`(a)?(b)?`, [][]int64{{1}, {2}, {2, 1}, {0}}},
		{`a(b)?`, [][]int64{{1}, {0}}},
		{`(a|(b))+`, [][]int64{{1, 2}, {2}}},
		{`(a*)(b*)`, [][]int64{{1, 2}, {2, 1}, {}}},
		{`()`, [][]int64{{1}, {0}}},
		{`(b)`, [][]int64{{0}}},
	}
	allStrings([]string{"a", "b"}, pick(4, 6), func(s string, n int) {
		for _, rc := range res[:5] {
			for _, gs := range rc.groups {
				for _, limit := range []int64{-1, 0, 1, 2} {
					for _, sep := range []string{"", ","} {
						reOracle(c, []byte(s), c.Do("re-exhaustive", 33, hx.L(hx.S(rc.re), hx.Z(limit), hx.List(gs, hx.Z), hx.S(sep), hx.Bool(n%2 == 0), hx.S(s)), n > 0 && limit != 0 && len(gs) > 0))
					}
				}
			}
		}
	})
	docRes := []reCase{
		{`(\w+):.*`, [][]int64{{1}}},
		{`(re\d+)`, [][]int64{{1}, {0}}},
		{`service=([A-Za-z0-9_\-]+) exec took (\d+\.?\d*(?:ms|s|m|h))`, [][]int64{{2}, {2, 1}, {1, 2}}},
		{`test`, [][]int64{}},
		{`(?P<n>a+)(b*)|(x)`, [][]int64{{1, 3}, {3, 2, 1}}},
		{`\b(\d{1,4})\D?(\d{1,4})`, [][]int64{{1, 2}}},
	}
	for i := 0; i < 600*c.Scale; i++ {
		rc := hx.Pick(r, append(docRes, res...))
		gs := []int64{}
		if len(rc.groups) > 0 {
			gs = hx.Pick(r, rc.groups)
		}
		s := hx.Pick(r, []string{"info: something happened", "re1 re2 re3 re4", "service=service-test-1 exec took 200ms", "message without matching re", "aabxb", "1234-5678 12 x", tg.str(), tg.str()})
		reOracle(c, []byte(s), c.Do("re-random", 33, hx.L(hx.S(rc.re), hx.Z(int64(r.Range(-1, 3))), hx.List(gs, hx.Z), hx.S(hx.Pick(r, []string{"", ",", "|", "--"})), hx.Bool(r.Bool()), hx.S(s)), len(gs) > 0))
	}

	// ---- 36 hash normaliser tokenizer: exhaustive over the bracket / quote alphabet
	alpha36 := []string{"{", "}", "[", "\"", "'", "\\", "a"}
	allStrings(alpha36, pick(5, 6), func(s string, n int) {
		c.Do("normalizer-exhaustive", 36, hx.L(hx.I(63), hx.S(s)), n >= 2)
	})
	allStrings([]string{"\"", "`", "\\", "a", "(", ")"}, pick(4, 6), func(s string, n int) {
		c.Do("normalizer-exhaustive", 36, hx.L(hx.I(8+32), hx.S(s)), n >= 2)
		c.Do("normalizer-exhaustive", 36, hx.L(hx.I(4+8), hx.S(s)), n >= 2)
	})
	for i := 0; i < 1500*c.Scale; i++ {
		n := r.Intn(40)
		b := make([]byte, n)
		for j := range b {
			b[j] = "{}[]()\"\"''``\\ ab"[r.Intn(16)]
		}
		c.Do("normalizer-random", 36, hx.L(hx.I(r.Range(1, 63)), hx.B(b)), n >= 2)
	}

	// ---- 35 convert_utf8_bytes through Do: exhaustive escape token sequences + the pool
	cfg35 := []string{`{"fields":["f"]}`, `{"fields":["f","g.h"],"replace_non_graphic":true}`}
	tok35 := []string{"\\", "u", "U", "x", "0", "41", "d83d", "de00", "00e9", "z", "3"}
	mk35 := func(s string) hx.Sx {
		return hx.L(hx.I(5), hx.L(hx.S("f"), hx.L(hx.I(3), hx.S(s))), hx.L(hx.S("g"), hx.L(hx.I(5), hx.L(hx.S("h"), hx.L(hx.I(3), hx.S(s+"\\x41"))))))
	}
	allStrings(tok35, pick(4, 5), func(s string, n int) {
		c.Do("convert-exhaustive", 35, hx.L(hx.S(cfg35[n%2]), mk35(s)), strings.Contains(s, "\\"))
	})
	for i := 0; i < 600*c.Scale; i++ {
		s := hx.Pick(r, strBackslash)
		if r.Chance(1, 2) {
			s = hx.Pick(r, strBackslash) + hx.Pick(r, strPlain) + hx.Pick(r, strBackslash)
		}
		c.Do("convert-random", 35, hx.L(hx.S(hx.Pick(r, cfg35)), mk35(s)), true)
	}

	// ---- tree-level Do streams over clean random trees
	cfg34 := []string{
		`{"field":"log","re2":"(?P<date>[\\d]{4}-[\\d]{2}-[\\d]{2} [\\d]{2}:[\\d]{2}:[\\d]{2} GMT) \\[(?P<pid>[\\d]+)\\] => \\[(?P<n>[\\d-]+)\\] client=(?P<client>[^,]*),db=(?P<db>[^,]*),user=(?P<user>[^,]*) (LOG|HINT):  (?P<message>.+)"}`,
		`{"field":"message","re2":"(?P<a>x)?(?P<b>y)?(z)","prefix":"p_"}`,
		`{"field":"a.b","re2":"(?P<message>.*)"}`,
		`{"field":"items.0","re2":"(?P<a>.)(?P<a>.)?","prefix":"x_"}`,
	}
	cfg37 := []string{`{"field":"items"}`, `{"field":"a.b"}`, `{"field":"a"}`}
	cfg38 := []string{
		`{"field":"log","extract_field":"a.b"}`,
		`{"field":"log","extract_fields":["a","b.c","b.d","message","level"],"prefix":"x_"}`,
		`{"field":"message","extract_field":"level","extract_fields":["level","a.b.c","a.b.d","a.e","a"]}`,
		`{"field":"a.b","extract_fields":["a.b","a.b","c"]}`,
	}
	cfg39 := []string{
		`{"fields":[{"field":"message","format":"no","max_size":0}],"result_field":"hash"}`,
		`{"fields":[{"field":"a.b","format":"no","max_size":3},{"field":"message","format":"normalize","max_size":40},{"field":"level","format":"no","max_size":0}],"result_field":"a.hash","normalizer":{"builtin_patterns":"curly_bracketed|double_quoted"}}`,
		`{"fields":[{"field":"items","format":"no","max_size":1},{"field":"log","format":"no","max_size":1000}],"result_field":"t.u.v"}`,
	}
	for i := 0; i < 700*c.Scale; i++ {
		t := tg.focused(false)
		if r.Chance(1, 5) {
			t = tg.tree(2, false)
		}
		changed := func(name string, in hx.Sx, obs hx.Sx) {
			it := hx.Items(obs)
			out := hx.Items(it[len(it)-1])
			if len(out) == 2 && hx.String(out[1]) != hx.String(in) {
				c.W.Count(name + "_changed_the_tree")
			} else {
				c.W.Count(name + "_left_the_tree_alone")
			}
		}
		{
			k := r.Intn(len(cfg34))
			pt := t
			if r.Chance(2, 3) { // put something the expression matches where the configuration looks
				switch k {
				case 0:
					pt = withField(t, []string{"log"}, sxStr(hx.Pick(r, []string{
						"2021-06-22 16:24:27 GMT [7291] => [3-1] client=test_client,db=test_db,user=test_user LOG:  listening on IPv4 address",
						"2021-06-22 16:24:27 GMT [1] => [2-3] client=,db=,user= HINT:  x"})))
				case 1:
					pt = withField(t, []string{"message"}, sxStr(hx.Pick(r, []string{"xyz", "xz", "z", "yz", "azb", "xyzxyz"})))
				case 2:
					pt = withField(t, []string{"a", "b"}, hx.Pick(r, []hx.Sx{sxStr("whole value"), sxStr(""), hx.L(hx.I(2), hx.S("42")), hx.I(0), hx.L(hx.I(1), hx.I(1))}))
				default:
					pt = withField(t, []string{"items"}, hx.L(hx.I(4), sxStr(hx.Pick(r, []string{"ab", "a", "abc", ""})), hx.I(0)))
				}
			}
			o34 := c.Do("parse-re2-do", 34, hx.L(hx.S(cfg34[k]), pt), true)
			i34 := hx.Items(o34)
			c.W.Oracle("regexp.FindSubmatch: no match, or one entry per SubexpNames entry", len(hx.Items(i34[3])) == 0 || len(hx.Items(i34[3])) == len(hx.Items(i34[2])), hx.String(o34))
			changed("parse_re2_do", pt, o34)
		}
		st := tg.focused(false)
		if r.Chance(1, 2) {
			var els []hx.Sx
			els = append(els, hx.I(4))
			for n := r.Range(1, 4); n > 0; n-- {
				if r.Chance(3, 4) {
					els = append(els, tg.tree(1, false))
				} else {
					els = append(els, tg.val(1, false))
				}
			}
			st = withField(st, hx.Pick(r, [][]string{{"items"}, {"a", "b"}, {"a"}}), hx.L(els...))
		}
		so := hx.Items(hx.Items(c.Do("split-do", 37, hx.L(hx.Bool(r.Chance(1, 8)), hx.S(hx.Pick(r, cfg37)), st), true))[1])
		if len(so) == 2 {
			c.W.Count(fmt.Sprintf("split_do_result_%s_children_%d", hx.String(hx.Items(so[1])[0]), len(hx.Items(hx.Items(so[1])[1]))))
		}
		changed("hash_do", t, c.Do("hash-do", 39, hx.L(hx.S(hx.Pick(r, cfg39)), t), true))
		// json_extract: the field holds a valid document (numbers are small canonical integers)
		dt := tg.tree(1, false)
		var dit []hx.Sx
		for _, kv := range hx.Items(dt) { // drop the fields the document goes into
			if hx.IsList(kv) && (hx.Str(hx.Items(kv)[0]) == "log" || hx.Str(hx.Items(kv)[0]) == "message") {
				continue
			}
			dit = append(dit, kv)
		}
		docText := hx.JSONText(tg.focused(true))
		if r.Chance(1, 6) {
			docText = tg.doc(3)
		}
		dit = append(dit, hx.L(hx.S("log"), hx.L(hx.I(3), hx.S(docText))), hx.L(hx.S("message"), hx.L(hx.I(3), hx.S(docText))))
		if r.Chance(1, 3) {
			dit = append(dit, hx.L(hx.S("a"), hx.L(hx.I(5), hx.L(hx.S("b"), hx.L(hx.I(3), hx.S(docText))))))
		}
		changed("json_extract_do", hx.L(dit...), c.Do("json-extract-do", 38, hx.L(hx.S(hx.Pick(r, cfg38)), hx.L(dit...)), true))
		// modify without regexp filters
		ops := modifyOps(r)
		target := hx.Pick(r, []string{"new", "message", "a.c", "a.b.c", "items.x", "level"})
		changed("modify_do", t, c.Do("modify-do", 40, hx.L(hx.Bool(r.Chance(1, 3)), hx.S(target), hx.L(ops...), t), true))
		// the same on ONE instance over 2..3 events, long values first (audit item 13): modify.Do reuses
		// p.buf / p.fieldBuf; after cut("last") / trim the field buffer is a TAIL sub-slice with reduced capacity,
		// which the next event starts from ([:0]). Exposes: a filter or Do that reads beyond the length it was
		// given (stale bytes of the longer previous value), or indexes by the previous event's length.
		if i%2 == 0 {
			long := withField(withField(tg.focused(false), []string{"message"}, sxStr(strings.Repeat(hx.Pick(r, []string{"xz {a} ", "ab}{", "  x\n"}), r.Range(20, 200)))),
				[]string{"a", "b"}, sxStr(strings.Repeat("{}xy", r.Range(1, 300))))
			trees := []hx.Sx{long, t}
			if r.Chance(1, 2) {
				trees = append(trees, tg.focused(false))
			}
			o41 := c.Do("modify-seq-do", 41, hx.L(hx.Bool(r.Chance(1, 3)), hx.S(target), hx.L(modifyOps(r)...), hx.L(trees...)), true)
			c.W.Count(fmt.Sprintf("modify_seq_events_%d", len(hx.Items(hx.Items(o41)[2]))))
		}
	}

	// ---- 42..49: rename, move, flatten, json_encode, json_decode, convert_log_level, set_time, add_host,
	// add_file_name, convert_date, discard, debug, parse_es, cardinality (extragen.go)
	genExtra(c)
}

// modifyOps: a substitution of 1..3 ops over the regexp-free filters
func modifyOps(r *hx.Rng) []hx.Sx {
	var ops []hx.Sx
	// ParseSubstitution looks for the first '|' in the whole remaining text: a field op without
	// filters followed by one with filters makes Start panic (a config-time crash, outside C13's
	// accepted configurations): once an op has no filter the later ones get none either
	noMoreFilters := false
	for k := r.Range(1, 3); k > 0; k-- {
		if r.Chance(1, 3) {
			ops = append(ops, hx.L(hx.I(0), hx.S(hx.Pick(r, []string{"value is ", " - ", ".", "x"}))))
			continue
		}
		var fl []hx.Sx
		nf := r.Intn(3)
		if noMoreFilters {
			nf = 0
		}
		if nf == 0 {
			noMoreFilters = true
		}
		for q := nf; q > 0; q-- {
			switch r.Intn(3) {
			case 0:
				fl = append(fl, hx.L(hx.I(0), hx.Bool(r.Bool()), hx.I(r.Range(1, 8))))
			case 1:
				fl = append(fl, hx.L(hx.I(1), hx.I(r.Intn(3)), hx.S(hx.Pick(r, []string{"{", "}", "a", "xy", " "}))))
			default:
				fl = append(fl, hx.L(hx.I(2), hx.I(r.Intn(3)), hx.S(hx.Pick(r, []string{" ", "xz", "\n", "{}"}))))
			}
		}
		ops = append(ops, hx.L(hx.I(1), hx.S(hx.Pick(r, []string{"message", "log", "a.b", "a", "level", "items.0", "nope"})), hx.L(fl...)))
	}
	return ops
}
