package main

// C13 — no event content can crash or corrupt an action plugin (action-plugin part, which 0..49).
//
// GENERIC LAYER  which = index of the (first) plugin in the table of plugins.go, 0..27; 29 = real plugins under the REAL
//   processor with match conditions / do_if / metric labels (procdrv.go; same expected observation (1))
//   case = ((plugin ...) (ev ...))   plugin = (#type #config-json (maxEventSize cutOff cutField))
//                                    ev     = 0 (time-out, delivered only to a busy action) | (#json-text size)
//                                             | (text size [bufCap]) with a repeat-part text | a directive (real event
//                                             pool / clock jump / twin instances): see the head of runner.go
//   obs  = (1) well-formed | (2 #site) panic | (3 #..) undefined ActionResult | (4 #..) the event no longer
//          encodes / re-parses | (5 #..) an event already handed on changed later | (6 #..) Fatal | (7 #..) config rejected
//   The model's answer is the constant (1): anything else violates the property.
//
// MODELLED INDEX ARITHMETIC (exact equality with the extracted Gallina model), see models.go:
//   30 cut filter | 31 trim_to filter | 32 trim filter | 33 re filter (regexp = oracle) | 34 parse_re2 |
//   35 convert_utf8_bytes | 36 hash normaliser (bracket / quote tokenizer) | 37 split | 38 json_extract |
//   39 hash | 40, 41 modify
// TREE-LEVEL MODELS of the plugins that are pure insane-json mutations and library calls, see extra.go / extragen.go:
//   42 rename | 43 move | 44 flatten | 45 json_encode | 46 json_decode | 47 convert_log_level |
//   48 set_time, add_host, add_file_name, convert_date, discard, debug | 49 parse_es, cardinality (event sequences)
// COVERAGE ROUND, exact models of coq/Model/Actions/Templates.v, see covmodels.go:
//   51 the join templates' hand-written start / continue checks | 52 cfg.ParseFieldSelector

import (
	"encoding/hex"
	"fmt"
	"os"
	"runtime/pprof"
	"sort"
	"strconv"
	"strings"
	"sync"
	"time"

	"github.com/ozontech/file.d/pipeline"
	insaneJSON "github.com/ozontech/insane-json"

	"verif/harness/hmain"
	"verif/harness/hx"
	"verif/harness/pipedrv"
)

var execStats = map[string]int{}

var execTime = map[int]time.Duration{}

func c13Exec(which int, cs hx.Sx) hx.Sx {
	// a case that does not come back (a cycle in the tree makes Encode spin) cannot be recovered
	// in-process: stop the harness quickly; the runner reports the case in progress as a violation
	wdTime := 60 * time.Second
	if s := os.Getenv("C13_WATCHDOG_MS"); s != "" { // development aid
		if ms, err := strconv.Atoi(s); err == nil {
			wdTime = time.Duration(ms) * time.Millisecond
		}
	}
	wd := time.AfterFunc(wdTime, func() {
		fmt.Fprintln(os.Stderr, "c13: the case in progress did not finish within 60 s (hang in the code under test)")
		if os.Getenv("C13_WATCHDOG_DUMP") != "" {
			pprof.Lookup("goroutine").WriteTo(os.Stderr, 2)
		}
		os.Exit(3)
	})
	defer wd.Stop()
	if which == procWhich {
		return execProc(cs)
	}
	if which >= 0 && which < 30 {
		t0 := time.Now()
		defer func() { execTime[which] += time.Since(t0) }()
		return execChain(cs, execStats)
	}
	return execModel(which, cs)
}

func shuffle[T any](r *hx.Rng, xs []T) {
	for i := len(xs) - 1; i > 0; i-- {
		j := r.Intn(i + 1)
		xs[i], xs[j] = xs[j], xs[i]
	}
}

func plugSx(typ, cfg string, st [3]int) hx.Sx {
	return hx.L(hx.S(typ), hx.S(cfg), hx.L(hx.I(st[0]), hx.I(st[1]), hx.I(st[2])))
}

func evSx(text string) hx.Sx { return hx.L(hx.S(text), hx.I(len(text))) }

// streamFor: cases that contain an input of a recorded finding run under the finding's own stream
func streamFor(base string, hasK8s bool, evs []hx.Sx) string {
	return streamForChain(base, hasK8s, false, evs)
}

// moveBlockLater: a block-mode move behind another action (recorded finding: insane-json trusts a
// stale cached index when a node that was not freshly dug is Suicide-d after a nested removal)
func moveBlockLater(pl []hx.Sx) bool {
	for i, p := range pl {
		f := hx.Items(p)
		if i > 0 && hx.Str(f[0]) == "move" && strings.Contains(hx.Str(f[1]), `"mode":"block"`) {
			return true
		}
	}
	return false
}

func streamForChain(base string, hasK8s, moveBlock bool, evs []hx.Sx) string {
	lenient, bad := false, false
	for _, e := range evs {
		if !isInput(e) {
			continue
		}
		text := evText(e)
		if lenientJSON(text) {
			lenient = true
		}
		if hasK8s && k8sBad(text) {
			bad = true
		}
	}
	// a case that contains inputs of several recorded findings goes to the stream named after all of them
	// ("k8s-bad-log+lenient-json"): each finding's signature accepts its name anywhere in that list and still
	// demands its own observation
	var parts []string
	if bad {
		parts = append(parts, "k8s-bad-log")
	}
	if moveBlock {
		parts = append(parts, "chain-move-block")
	}
	if lenient {
		parts = append(parts, "lenient-json")
	}
	if len(parts) > 0 {
		return strings.Join(parts, "+")
	}
	return base
}

// ---------------------------------------------------------------------------------------------
// Finding C13-additional-scalar-full-node-pool (notes/finding-C13-additional-scalar-full-node-pool.md):
// insane-json's DecodeBytesAdditional of a BARE SCALAR ("7", "true", "\"x\"") takes one node without the
// pool-expansion check every other path has; when the event filled its node pool up to the last slot
// (15 of 16, 31 of 32, 63 of 64 slots) the next getNode (any AddField of a later action) indexes out of
// range. json_decode and decode (json) hand any field to it. Cases of that family (test in emit
// below) go to the finding's own stream once its id is listed in
// known_findings.json and are withheld until then; every other case and every other outcome stays put.
// (Not only strings: json_decode / decode take AsBytes of whatever node the field holds, so
// {"log":1E5} and {"message":null} reach the same path.)
const scalarFindingID = "C13-additional-scalar-full-node-pool"
const scalarStream = "additional-scalar-full-pool"

var scalarListed = knownListed(scalarFindingID)

// decodesOnTop: some action of the chain decodes an embedded document on top of the event
func decodesOnTop(cs hx.Sx) bool {
	for _, pl := range hx.Items(hx.Items(cs)[0]) {
		if t := hx.Str(hx.Items(pl)[0]); t == "json_decode" || t == "decode" {
			return true
		}
	}
	return false
}

func indexRangePanic(obs hx.Sx) bool {
	o := hx.String(obs)
	return strings.HasPrefix(o, "(2 #") && strings.HasSuffix(o, hex.EncodeToString([]byte(" index-range"))+")")
}

// exhaustedNodePool: the precise classification of the finding, by two more runs of the case:
//  1. with the production node pool again, recording the stack of the panic: it must be an index out of
//     range raised inside insane-json's decoder taking a node (getNode = AddField / AddFieldNoAlloc /
//     MutateToJSON of some action, or decode = the next DecodeBytesAdditional);
//  2. with a node pool of 512 under every input Root: the case must run clean (so the only thing wrong was
//     the pool being full, which only the unchecked top-level-scalar path of DecodeBytesAdditional can leave
//     behind: every other path grows the pool before it is full).
func exhaustedNodePool(cs hx.Sx) bool {
	stack := ""
	var mu sync.Mutex // the twin streams panic on two goroutines
	stackProbe = func(s string) {
		mu.Lock()
		if stack == "" {
			stack = s
		}
		mu.Unlock()
	}
	execChain(cs, map[string]int{})
	stackProbe = nil
	if !strings.Contains(stack, "index out of range") ||
		!(strings.Contains(stack, "insane-json.(*decoder).getNode") || strings.Contains(stack, "insane-json.(*decoder).decode(")) {
		return false
	}
	bigNodePool = true
	roomy := execChain(cs, map[string]int{})
	bigNodePool = false
	return hx.String(roomy) == "(1)"
}

// emit: c.Do for the generic layer. A case belongs to the finding iff its chain contains a decoding
// action, its run ends in an index-out-of-range panic, AND the same case runs clean when every input Root
// starts with a node pool of 512 instead of the production 16 (so the panic is the exhausted node pool and
// nothing else: with room in the pool the unchecked scalar path is harmless).
func emit(c *hmain.Ctx, stream string, which int, cs hx.Sx, nontrivial bool) hx.Sx {
	// hmain.Ctx.Do, with the stream name chosen after the run
	if c.Cur != nil {
		line := fmt.Sprintf("%s\t%d\t%s\n", stream, which, hx.String(cs))
		if len(line) < 1<<16 {
			c.Cur.Truncate(0)
			c.Cur.WriteAt([]byte(line), 0)
		}
	}
	obs := c.Prop.Exec(which, cs)
	chainCase := cs
	if which == procWhich { // (real processor: the finding is classified on the same chain under the miniature, which ran it first)
		if mini, bad := procChainCase(cs); bad == "" {
			chainCase = mini
		}
	}
	if indexRangePanic(obs) && decodesOnTop(chainCase) && exhaustedNodePool(chainCase) {
		if !scalarListed {
			c.W.Count("withheld_until_listed:" + scalarFindingID)
			return obs
		}
		c.W.Count("routed_to_" + scalarStream + "_from_" + stream)
		stream = scalarStream
	}
	c.W.Case(stream, which, cs, obs, nontrivial)
	return obs
}

// settings that matter to a plugin (only the k8s multiline action reads them)
func settingsFor(r *hx.Rng, typ string) [3]int {
	if typ != "k8s-multiline" || r == nil {
		return [3]int{0, 0, 0}
	}
	switch r.Intn(4) {
	case 0:
		return [3]int{0, 0, 0}
	// max_event_size below the size of any event is not a reachable setting: pipeline.In drops or
	// cuts such events before they reach an action
	case 1:
		return [3]int{r.Range(16, 60), 0, 0}
	case 2:
		return [3]int{r.Range(16, 60), 1, 0}
	default:
		return [3]int{r.Range(16, 400), 1, 1}
	}
}

func c13Gen(c *hmain.Ctx) {
	tStart := time.Now()
	c.R = c.R.Fork()
	r := c.R
	g := evGen{r}
	if os.Getenv("C13_ONLY") == "processors" { // development aid: only the per-processor streams (procs.go)
		genProcs(c)
		return
	}

	// 0. every configuration of the table is accepted by the collector's own validation
	nCfg := 0
	for _, p := range plugins {
		for _, cf := range p.cfgs {
			nCfg++
			obs := execChain(hx.L(hx.L(plugSx(p.typ, cf, [3]int{})), hx.L()), map[string]int{})
			c.W.Oracle("every table configuration passes GetConfig + Start", hx.String(obs) == "(1)", p.typ+" "+cf+" -> "+hx.String(obs))
		}
	}
	c.W.Count(fmt.Sprintf("plugins_%d_configurations_%d", len(plugins), nCfg))

	// statistics only: which plugins would not survive a STRAY time-out (one they did not ask for)
	for _, p := range plugins {
		inst, err := newInstance(p.typ, []byte(p.cfgs[0]), settingsOf([3]int{}), &chainCtl{r: &chainRun{stats: map[string]int{}, busy: make([]bool, 1)}}, 0)
		if err != "" {
			continue
		}
		t := timeoutEvent()
		setFatal("")
		msg := hx.Catch(func() { inst.Do(t) })
		if msg == "" {
			c.W.Count("stray_timeout_survived:" + p.typ)
		} else {
			c.W.Count("stray_timeout_CRASHES:" + p.typ)
		}
	}

	// 1. catalogue (exhaustive over the catalogue): every configuration x every notable value in every
	//    place the configurations look at (4 document shapes), two consecutive events per case so the
	//    second one reuses the plugin's buffers (late observation of the first)
	for pi, p := range plugins {
		for _, cf := range p.cfgs {
			for shape := 0; shape < 4; shape++ {
				for i := 0; i < len(catalogue); i += 2 {
					v1 := catalogue[i]
					v2 := catalogue[(i+1)%len(catalogue)]
					evs := []hx.Sx{evSx(catDoc(v1, shape)), evSx(catDoc(v2, shape)), hx.I(0)}
					emit(c, streamFor("catalogue", p.typ == "k8s-multiline", evs), pi, hx.L(hx.L(plugSx(p.typ, cf, settingsFor(nil, p.typ))), hx.L(evs...)), true)
				}
			}
		}
	}
	c.W.Count(fmt.Sprintf("catalogue_values_%d", len(catalogue)))

	// 2. random sequences for every plugin (stateful ones get more and longer sequences)
	// debug: its zap sampler (first / thereafter per interval) only starts dropping and re-admitting
	// from the 5th event of one tick on
	stateful := map[string]int{"join": 5, "join_template": 5, "k8s-multiline": 6, "parse_es": 3, "throttle": 3, "cardinality": 3,
		"convert_utf8_bytes": 3, "modify": 3, "mask": 2, "hash": 2, "json_extract": 2, "decode": 3, "split": 2, "debug": 5}
	for pi, p := range plugins {
		n := 25 * c.Scale * (1 + stateful[p.typ])
		for i := 0; i < n; i++ {
			cf := hx.Pick(r, p.cfgs)
			k := r.Range(1, 4+2*stateful[p.typ])
			evs := make([]hx.Sx, 0, k)
			for j := 0; j < k; j++ {
				if j > 0 && r.Chance(1, 8) {
					evs = append(evs, hx.I(0))
				} else if p.typ == "k8s-multiline" && r.Chance(2, 3) {
					evs = append(evs, evSx(`{"log":`+q(hx.Pick(r, strMultiline)+hx.Pick(r, []string{"", "\n", "\\n", "\n\n"}))+`,"stream":"stdout"}`))
				} else if (p.typ == "join" || p.typ == "join_template") && r.Chance(2, 3) {
					evs = append(evs, evSx(`{"log":`+q(hx.Pick(r, strMultiline))+`,"message":`+g.value(1)+`}`))
				} else {
					evs = append(evs, evSx(g.event()))
				}
				if isInput(evs[len(evs)-1]) && r.Chance(1, 3) { // the capacity event.Buf arrives with (nil for a brand-new pooled event)
					evs[len(evs)-1] = withCap(evs[len(evs)-1], hx.Pick(r, bufCaps))
				}
			}
			emit(c, streamFor("random", p.typ == "k8s-multiline", evs), pi, hx.L(hx.L(plugSx(p.typ, cf, settingsFor(r, p.typ))), hx.L(evs...)), len(evs) >= 2)
		}
	}

	// 3. chains of 2..3 plugins over the same events (they share event.Buf and the tree)
	for i := 0; i < 3000*c.Scale; i++ {
		n := r.Range(2, 3)
		var pl []hx.Sx
		first := -1
		for j := 0; j < n; j++ {
			pi := r.Intn(len(plugins))
			if plugins[pi].typ == "discard" && j < n-1 {
				pi = pluginIdx["decode"]
			}
			if plugins[pi].typ == "k8s-multiline" && j > 0 {
				// the k8s input installs its multiline action right behind itself: always first
				pi = pluginIdx["json_decode"]
			}
			if first < 0 {
				first = pi
			}
			p := plugins[pi]
			pl = append(pl, plugSx(p.typ, hx.Pick(r, p.cfgs), settingsFor(r, p.typ)))
		}
		k := r.Range(1, 5)
		evs := make([]hx.Sx, 0, k)
		for j := 0; j < k; j++ {
			if j > 0 && r.Chance(1, 8) {
				evs = append(evs, hx.I(0))
			} else if plugins[first].typ == "k8s-multiline" && r.Chance(9, 10) {
				evs = append(evs, evSx(`{"log":`+q(g.str()+hx.Pick(r, []string{"", "\n"}))+`,"message":`+g.value(1)+`,"a":`+g.value(2)+`}`))
			} else {
				evs = append(evs, evSx(g.event()))
			}
		}
		emit(c, streamForChain("chain", plugins[first].typ == "k8s-multiline", moveBlockLater(pl), evs), first, hx.L(hx.L(pl...), hx.L(evs...)), true)
	}

	tg := time.Now()
	genCoverage(c, g)
	if os.Getenv("C13_TIMES") != "" {
		fmt.Fprintf(os.Stderr, "stream-time coverage %v\n", time.Since(tg))
	}
	genThresholds(c, g)
	tp := time.Now()
	genProcs(c)
	if os.Getenv("C13_TIMES") != "" {
		fmt.Fprintf(os.Stderr, "stream-time processors %v\n", time.Since(tp))
	}
	tm := time.Now()
	genCovModels(c)
	genModels(c)
	if os.Getenv("C13_TIMES") != "" {
		fmt.Fprintf(os.Stderr, "stream-time thresholds %v models %v before %v\n", tm.Sub(tg), time.Since(tm), tg.Sub(tStart))
	}

	if os.Getenv("C13_TIMES") != "" {
		for i, p := range plugins {
			fmt.Fprintf(os.Stderr, "time %-20s %v\n", p.typ, execTime[i])
		}
	}
	keys := make([]string, 0, len(execStats))
	for k := range execStats {
		keys = append(keys, k)
	}
	sort.Strings(keys)
	for _, k := range keys {
		c.W.Dist[k] += execStats[k]
	}
	var only, other, here []string
	for _, p := range plugins {
		switch p.cover {
		case "":
			only = append(only, p.typ)
		case "C13":
			here = append(here, p.typ)
		default:
			other = append(other, p.typ+"("+p.cover+")")
		}
	}
	c.W.Notes = append(c.W.Notes,
		fmt.Sprintf("modelled+proved here: %v", here),
		fmt.Sprintf("covered by another property's model: %v", other),
		fmt.Sprintf("exercised ONLY by the generic harness (no model): %v", only))
}

var pipeExec = pipedrv.WrapExec(c13Exec)

func main() {
	// what cmd/file.d/file.d.go sets before anything is decoded (the library default is 128 nodes per
	// decoder: with it no event below 112 nodes ever walks a pool expansion, and resetEvent's
	// "PoolSize() > 4 * DefaultJSONNodePoolSize" always holds)
	if f := os.Getenv("C13_PROF"); f != "" { // development aid
		fh, _ := os.Create(f)
		pprof.StartCPUProfile(fh)
		defer pprof.StopCPUProfile()
	}
	insaneJSON.DisableBeautifulErrors = true
	insaneJSON.StartNodePoolSize = pipeline.DefaultJSONNodePoolSize
	hmain.Run(&hmain.Prop{ID: "C13",
		Rule: "catalogue: every table configuration x every notable value (invalid UTF-8, broken embedded JSON, C12 decoder witnesses, huge numbers, containers, non-object roots) in 4 document shapes, 2 events + time-out per case; random: sequences over an adversarial document grammar for every plugin; chain: 2..3 plugins sharing the events; threshold streams (thresholds.go: node-sweep, recycle, buf-growth, big-values, cardinality-ttl, hash-tokens, split-fanout, deep-embedded, twin): inputs that cross the size / count / history thresholds hard-coded in the code (node-pool sizes 16 / 32 / 64 / 128, event.Buf 4096, AvgEventSize, MapUseThreshold, jx depth 10000, regexp backtracker limit, cache ttl), events from the real event pool, two instances sharing one config; processors (procs.go, sub-model 53): every configuration x K = 2..8 instances started as for K processors, K goroutines with their own event streams, each compared with a fresh instance's solo run; model streams: exhaustive small scope + random inputs of each modelled function. Non-trivial = at least two events, or a model case whose input exercises the modelled arithmetic (see models.go); distinct = distinct (sub-model, case) text.",
		Gen: func(c *hmain.Ctx) {
			c13Gen(c)
			// processor-level clause on the real pipeline: a time-out event is only handed to a busy action
			pipedrv.GenFamilies(c, pipedrv.PipeWhich, []pipedrv.Fam{
				{Stream: "pipe-discard-before-hold", Opts: pipedrv.FamDiscardBeforeHold, N: 40},
				{Stream: "pipe-hold", Opts: pipedrv.FamHold, N: 40},
				{Stream: "pipe-two-holders", Opts: pipedrv.FamTwoHolders, N: 30},
				{Stream: "pipe-split", Opts: pipedrv.FamSplit, N: 20},
			})
		},
		Exec: func(which int, cs hx.Sx) hx.Sx {
			if which == templateWhich || which == selectorWhich { // covmodels.go (above pipedrv.PipeWhich: dispatched here)
				return execCov(which, cs)
			}
			if which == procsWhich { // procs.go: the per-processor instances of one action, concurrently
				return execProcs(cs)
			}
			return pipeExec(which, cs)
		}})
}
