package main

// The plugin table of the generic layer: every action plugin of /repo/plugin/action plus the k8s
// multiline action, each with several configurations taken from its README / tests. A configuration
// is the JSON text of the action's config exactly as fd.setupAction hands it to pipeline.GetConfig
// (cfg.DecodeConfig = SetDefaultValues + strict json decode, then cfg.Parse), i.e. the validation
// path of the real collector; Start is then called with a recording controller.

import (
	"encoding/json"
	"fmt"
	"hash/fnv"
	"io"
	"sync"
	"time"

	"github.com/ozontech/file.d/fd"
	"github.com/ozontech/file.d/metric"
	"github.com/ozontech/file.d/pipeline"
	_ "github.com/ozontech/file.d/plugin/action/add_file_name"
	_ "github.com/ozontech/file.d/plugin/action/add_host"
	_ "github.com/ozontech/file.d/plugin/action/cardinality"
	_ "github.com/ozontech/file.d/plugin/action/convert_date"
	_ "github.com/ozontech/file.d/plugin/action/convert_log_level"
	_ "github.com/ozontech/file.d/plugin/action/convert_utf8_bytes"
	_ "github.com/ozontech/file.d/plugin/action/debug"
	_ "github.com/ozontech/file.d/plugin/action/decode"
	_ "github.com/ozontech/file.d/plugin/action/discard"
	_ "github.com/ozontech/file.d/plugin/action/flatten"
	_ "github.com/ozontech/file.d/plugin/action/hash"
	_ "github.com/ozontech/file.d/plugin/action/join"
	_ "github.com/ozontech/file.d/plugin/action/join_template"
	_ "github.com/ozontech/file.d/plugin/action/json_decode"
	_ "github.com/ozontech/file.d/plugin/action/json_encode"
	_ "github.com/ozontech/file.d/plugin/action/json_extract"
	_ "github.com/ozontech/file.d/plugin/action/keep_fields"
	_ "github.com/ozontech/file.d/plugin/action/mask"
	_ "github.com/ozontech/file.d/plugin/action/modify"
	_ "github.com/ozontech/file.d/plugin/action/move"
	_ "github.com/ozontech/file.d/plugin/action/parse_es"
	_ "github.com/ozontech/file.d/plugin/action/parse_re2"
	_ "github.com/ozontech/file.d/plugin/action/remove_fields"
	_ "github.com/ozontech/file.d/plugin/action/rename"
	_ "github.com/ozontech/file.d/plugin/action/set_time"
	_ "github.com/ozontech/file.d/plugin/action/split"
	_ "github.com/ozontech/file.d/plugin/action/throttle"
	_ "github.com/ozontech/file.d/plugin/input/k8s"
	"github.com/ozontech/file.d/plugin/input/k8s/meta"
	"github.com/prometheus/client_golang/prometheus"
	"go.uber.org/zap"
	"go.uber.org/zap/zapcore"
	corev1 "k8s.io/api/core/v1"
)

type pluginDef struct {
	typ  string
	cfgs []string
	// which other property's model covers it, "" = only the generic harness, "C13" = modelled here
	cover string
}

const protoFile = "syntax = \"proto3\";\n\npackage test;\noption go_package = \"test.v1\";\n\nmessage Data {\n  string stringData = 1 [json_name=\"string_data\"];\n  int32 intData = 2 [json_name=\"int_data\"];\n}\n\nmessage MyMessage {\n  message InternalData {\n    repeated string myStrings = 1 [json_name=\"my_strings\"];\n    bool isValid = 2 [json_name=\"is_valid\"];\n  }\n\n  Data data = 1;\n  InternalData internalData = 2 [json_name=\"internal_data\"];\n  uint64 version = 3;\n}\n"

// index in this table = `which` of the generic streams
var plugins = []pluginDef{
	0: {"add_file_name", []string{`{}`, `{"field":"a.b"}`, `{"field":"log"}`, `{"field":"a..b.c\\.d"}`}, "C13"},
	1: {"add_host", []string{`{}`, `{"field":"a"}`}, "C13"},
	2: {"cardinality", []string{
		`{"key":["service"],"fields":["level"],"limit":2,"action":"discard"}`,
		`{"key":["a.b","service"],"fields":["message","level"],"limit":1,"action":"remove_fields","metric_prefix":"x"}`,
		`{"key":["service"],"fields":["message"],"ttl":"1s"}`,
		// two key selectors that map to the same metric label name (a.b and a_b -> "a_b")
		`{"key":["a.b","a_b"],"fields":["level"],"limit":5}`,
		// ttl within reach of the clock directive (2 ms) of the cardinality-ttl stream; "0s": everything older than now expires
		`{"key":["service"],"fields":["level"],"limit":1,"ttl":"1s","action":"discard"}`,
		`{"key":["service"],"fields":["message","level"],"limit":2,"ttl":"0s","action":"remove_fields"}`,
		// coverage round: an empty key list (every event shares the key "[]")
		`{"key":[],"fields":["level"],"limit":1,"action":"discard"}`}, "C13"},
	3: {"convert_date", []string{`{}`,
		`{"field":"time","source_formats":["rfc3339nano","rfc3339","unixtime"],"target_format":"rfc3339","remove_on_fail":true}`,
		`{"field":"a.b","source_formats":["2006-01-02","unixtimemilli","ansic"],"target_format":"unixtimenano"}`,
		`{"field":"ts","source_formats":["unixtime"],"target_format":"2006/01/02 15:04:05"}`,
		// coverage round: the target formats of Do's switch the table did not name
		`{"field":"time","source_formats":["rfc3339nano","unixtime","unixtimemicro"],"target_format":"unixtimemicro"}`,
		`{"field":"ts","source_formats":["unixtimenano","unixtimemilli","unixtime"],"target_format":"unixtimemilli"}`}, "C13"},
	4: {"convert_log_level", []string{`{}`,
		`{"style":"string","default_level":"info","remove_on_fail":true}`,
		`{"field":"a.b","style":"number","remove_on_fail":true}`,
		`{"field":"level","style":"string","default_level":"nonsense"}`}, "C13"},
	5: {"convert_utf8_bytes", []string{
		`{"fields":["message"]}`,
		`{"fields":["message","log","a.b"]}`,
		`{"fields":["log","message","a.b","service"],"replace_non_graphic":true}`}, "C13"},
	6: {"debug", []string{`{}`, `{"interval":"1s","first":2,"thereafter":3,"message":"sample"}`}, "C13"},
	7: {"decode", []string{
		`{"field":"log"}`,
		`{"field":"log","decoder":"json","prefix":"p_","keep_origin":true,"log_decode_error_mode":"withnode"}`,
		`{"field":"log","decoder":"json","params":{"json_max_fields_size":{"a":3,"message":5,"level":0}},"log_decode_error_mode":"erronly"}`,
		`{"field":"log","decoder":"postgres","prefix":"pg_"}`,
		`{"field":"log","decoder":"nginx_error","params":{"nginx_with_custom_fields":true}}`,
		`{"field":"message","decoder":"nginx_error","keep_origin":true}`,
		`{"field":"log","decoder":"syslog_rfc3164","params":{"syslog_facility_format":"string","syslog_severity_format":"string"}}`,
		`{"field":"log","decoder":"syslog_rfc5424","prefix":"s_"}`,
		`{"field":"log","decoder":"csv","params":{"columns":["a","b","c"],"delimiter":",","invalid_line_mode":"continue"}}`,
		`{"field":"a.b","decoder":"csv","params":{"prefix":"col","delimiter":";"}}`,
		// coverage round: named columns with the default invalid_line_mode (a row of another length is refused, not fatal)
		`{"field":"log","decoder":"csv","prefix":"c_","params":{"columns":["a","b"]}}`,
		`{"field":"log","decoder":"protobuf","prefix":"p_","params":{"proto_message":"MyMessage","proto_file":` + jsonStr(protoFile) + `}}`}, "C12"},
	8: {"discard", []string{`{}`}, "C13"},
	9: {"flatten", []string{`{"field":"a","prefix":"pre_"}`, `{"field":"a.b"}`, `{"field":"log","prefix":"log."}`}, "C13"},
	10: {"hash", []string{
		`{"fields":[{"field":"message","format":"no"}],"result_field":"hash"}`,
		`{"fields":[{"field":"a.b","format":"no","max_size":3},{"field":"message","format":"normalize","max_size":40}],"result_field":"a.hash"}`,
		`{"fields":[{"field":"log","format":"normalize"}],"result_field":"hash","normalizer":{"builtin_patterns":"curly_bracketed|square_bracketed|parenthesized|double_quoted|single_quoted|grave_quoted"}}`,
		`{"fields":[{"field":"log","format":"normalize"},{"field":"message","format":"normalize"}],"result_field":"message","normalizer":{"builtin_patterns":"int|uuid|double_quoted","custom_patterns":[{"placeholder":"<date>","re":"\\d\\d\\.\\d\\d\\.\\d\\d\\d\\d","priority":"last"},{"placeholder":"<nginx_datetime>","re":"\\d\\d\\d\\d/\\d\\d/\\d\\d\\ \\d\\d:\\d\\d:\\d\\d","priority":"first"}]}}`,
		// every built-in pattern and no max_size: the fixed-length tokens (uuid, md5 / sha1 / sha256) can match
		`{"fields":[{"field":"message","format":"normalize"},{"field":"log","format":"normalize"}],"result_field":"hash"}`,
		// coverage round: only lexer patterns (Normalize scans the data itself, no tokenizer pass), and no built-in pattern at all
		`{"fields":[{"field":"message","format":"normalize"},{"field":"log","format":"normalize","max_size":20}],"result_field":"hash","normalizer":{"builtin_patterns":"int|uuid|ip"}}`,
		`{"fields":[{"field":"log","format":"normalize"},{"field":"message","format":"normalize"}],"result_field":"hash","normalizer":{"builtin_patterns":"no","custom_patterns":[{"placeholder":"<n>","re":"\\d+","priority":"first"},{"placeholder":"<w>","re":"[a-c]+x","priority":"last"}]}}`}, "C13"},
	11: {"join", []string{
		`{"field":"log","start":"/^(panic:)|(http: panic serving)/","continue":"/(^\\s*$)|(goroutine [0-9]+ \\[)|(\\([0-9]+x[0-9,a-f]+)|(\\.go:[0-9]+ \\+[0-9]x)|(\\/.*\\.go:[0-9]+)|(\\(...\\))|(main\\.main\\(\\))|(created by .*\\/.*\\.)|(^\\[signal)|(panic.+[0-9]x[0-9,a-f]+)|(panic:)/"}`,
		`{"field":"log","start":"/^a/","continue":"/^b/","max_event_size":10}`,
		`{"field":"a.b","start":"/^s/","continue":"/^s/","negate":true}`,
		`{"field":"message","start":"/.?/","continue":"/.?/"}`}, "C15"},
	12: {"join_template", []string{
		`{"field":"log","template":"go_panic"}`,
		`{"field":"log","templates":["go_panic","cs_exception","go_data_race"],"max_event_size":50}`,
		`{"field":"message","templates":["cs_exception"]}`,
		// coverage round: the deprecated single template next to the list (the list wins)
		`{"field":"log","template":"go_panic","templates":["cs_exception","go_panic"]}`}, "C15"},
	13: {"json_decode", []string{`{"field":"log"}`, `{"field":"a.b","prefix":"p_","log_json_parse_error_mode":"withnode"}`,
		`{"field":"message","prefix":"m.","log_json_parse_error_mode":"erronly"}`}, "C13"},
	14: {"json_encode", []string{`{"field":"a"}`, `{"field":"a.b"}`, `{"field":"items"}`, `{"field":"message"}`}, "C13"},
	15: {"json_extract", []string{
		`{"field":"log","extract_field":"a.b"}`,
		`{"field":"log","extract_fields":["a","b.c","b.d","message","level"],"prefix":"x_"}`,
		`{"field":"message","extract_field":"level","extract_fields":["level","a.b.c","a.b.d","a.e"]}`}, "C13"},
	16: {"keep_fields", []string{`{"fields":["a.b","message"]}`, `{"fields":["level"]}`, `{"fields":["a.b.c","a.e","items","log"]}`,
		// coverage round: a duplicate and a nested selector (cfg.ParseNestedFields drops both)
		`{"fields":["a.b","a","a.b","a..c","level","a"]}`}, "C18"},
	17: {"mask", []string{
		`{"masks":[{"re":"\\b(\\d{1,4})\\D?(\\d{1,4})\\D?(\\d{1,4})\\D?(\\d{1,4})\\b","groups":[1,2,3]}]}`,
		`{"masks":[{"re":"(\\d)(\\d)?","groups":[1,2],"max_count":3},{"re":"(test)","groups":[1],"process_fields":["message"],"replace_word":"***"}],"mask_applied_field":"masked","mask_applied_value":"yes","ignore_fields":["a.b"]}`,
		`{"masks":[{"re":"a(b)?","groups":[1]},{"re":"(x+)","groups":[0],"cut_values":true}],"process_fields":["message","log","a.b"],"skip_mismatched":true}`,
		`{"masks":[{"match_rules":[{"rules":[{"values":["secret"],"mode":"contains","case_insensitive":true}]}],"re":"(\\w+)","groups":[0],"metric_name":"m1","metric_labels":["service"]}],"applied_metric_labels":["service","level"]}`,
		// option interplay: a mask's own metric named like the plugin-level applied metric (registration is skipped with an error log, the config is accepted)
		`{"masks":[{"re":"(\\d+)","groups":[1],"metric_name":"mask_applied_total"},{"re":"(secret)","groups":[1],"metric_name":"m2","metric_labels":["level"]}],"applied_metric_name":"m2"}`,
		// coverage round. Nested / coinciding groups in any order (a section inside one already masked), a mask's own
		// ignore list with an array index, a mask's own applied field, next to a global ignore list
		`{"masks":[{"re":"((\\d)\\d)(\\d)?","groups":[3,2,1]},{"re":"(a)|(b)","groups":[1,2],"ignore_fields":["a.b","items.1","log"],"applied_field":"m_applied","applied_value":"1"}],"ignore_fields":["level"]}`,
		// every mask has its own list: the global one is dropped with a warning
		`{"masks":[{"re":"(\\d+)","groups":[1],"process_fields":["message","items.0"]},{"re":"(x)","groups":[1],"ignore_fields":["log"],"cut_values":true}],"process_fields":["a"]}`,
		// a global ignore list alone (the fast path that skips an ignored field), array elements by index
		`{"masks":[{"re":"(\\d+)","groups":[0],"max_count":2}],"ignore_fields":["a.b","message","items.0","items.2.x"]}`,
		// a global process list next to one mask with its own list and one without
		`{"masks":[{"re":"(\\d+)","groups":[1]},{"re":"(b+)","groups":[1],"ignore_fields":["a.b"],"replace_word":"<b>"}],"process_fields":["message","a","items.1"]}`,
		// masks switched by their own do_if on the event
		`{"masks":[{"re":"(\\w+)","groups":[1],"do_if":{"op":"equal","field":"level","values":["error","3"]}},{"re":"(\\d)","groups":[1],"do_if":{"op":"not","operands":[{"op":"contains","field":"message","values":["secret"]}]},"applied_field":"d","applied_value":"v"}],"mask_applied_field":"masked"}`}, "C17"},
	18: {"modify", []string{
		`{"new":"value is ${a.b}."}`,
		`{"level":"${message|re(\"(\\\\w+):.*\",-1,[1],\",\")}"}`,
		`{"extracted":"${message|re(\"(re\\\\d+)\",2,[1],\",\")}","_skip_empty":"true"}`,
		`{"took":"${log|re(\"service=([A-Za-z0-9_\\\\-]+) exec took (\\\\d+\\\\.?\\\\d*(?:ms|s|m|h))\",-1,[2,1],\"|\",true)}"}`,
		`{"message":"${message|trim(\"right\",\"\\n\")}"}`,
		`{"message":"${message|trim_to(\"left\",\"{\")|trim_to(\"right\",\"}\")}"}`,
		`{"a.c":"${message|cut(\"first\",10)}$$","b":"${log|cut(\"last\",5)|trim(\"all\",\" x\")}"}`,
		`{"message":"${message|re(\"(a)?(b)?\",-1,[2,1],\"\")|cut(\"first\",3)}-${a.b|trim_to(\"all\",\"ab\")}"}`,
		// re behind cut("last") / trim: its dst is a tail sub-slice of the field buffer with reduced capacity,
		// and the nested groups make the result longer than the source (regex_filter.go: cap(dst) < len(r.buf))
		`{"x":"${message|cut(\"last\",2)|re(\"((.)(.)?)\",-1,[1,2,3],\"\")}","y":"${log|trim(\"left\",\" xab\")|re(\"(\\\\w)(\\\\w)?\",-1,[2,1],\"+\")}"}`,
		// several re filters in one instance: they all share the one 1024-byte filtersBuf of modify.Start
		`{"x":"${message|re(\"(\\\\w+)\",-1,[1],\" \")}-${log|re(\"(\\\\d+)(\\\\D)?\",2,[2,1],\"\")}","y":"${level|trim(\"all\",\" \")|re(\"(a)|(b)\",-1,[2,1],\",\",true)|re(\"((.*))\",1,[1,2],\"\")}"}`,
		// coverage round: an empty substitution (no operation at all: the key is skipped by Start)
		`{"x":"","a..y":"${level}","_skip_empty":"false"}`}, "C13"},
	19: {"move", []string{
		`{"fields":["a","message"],"mode":"allow","target":"t"}`,
		`{"fields":["level","log"],"mode":"block","target":"t"}`,
		`{"fields":["a.b","items"],"mode":"allow","target":"a.c.d"}`,
		`{"fields":["a"],"mode":"allow","target":"a.b"}`,
		`{"fields":[],"mode":"block","target":"message"}`}, "C13"},
	20: {"parse_es", []string{`{}`}, "C13"},
	21: {"parse_re2", []string{
		`{"field":"log","re2":"(?P<date>[\\d]{4}-[\\d]{2}-[\\d]{2} [\\d]{2}:[\\d]{2}:[\\d]{2} GMT) \\[(?P<pid>[\\d]+)\\] => \\[(?P<pid_message_number>[\\d-]+)\\] client=(?P<client>[^,]*),db=(?P<db>[^,]*),user=(?P<user>[^,]*) (LOG|HINT):  (?P<message>.+)"}`,
		`{"field":"message","re2":"(?P<a>x)?(?P<b>y)?(z)","prefix":"p_"}`,
		`{"field":"a.b","re2":"(?P<message>.*)"}`}, "C13"},
	22: {"remove_fields", []string{`{"fields":["a.b","message"]}`, `{"fields":["level","a","a.b","items"]}`}, "C18"},
	23: {"rename", []string{`{"a":"b","message":"msg"}`, `{"override":"true","a.b":"level","_override":"x","log":"message"}`,
		`{"a.b":"a","level":"a"}`}, "C13"},
	24: {"set_time", []string{`{}`, `{"field":"time","format":"unixtime","override":false}`, `{"field":"a","format":"2006-01-02"}`,
		`{"field":"ts","format":"unixtimemicro"}`, `{"field":"a","format":"timestampmicro","override":false}`}, "C13"},
	25: {"split", []string{`{"field":"items"}`, `{"field":"a.b"}`, `{"field":"log"}`}, "C13"},
	26: {"throttle", []string{
		`{"throttle_field":"service","default_limit":3,"bucket_interval":"1m","buckets_count":3,"time_field":"time"}`,
		`{"throttle_field":"a.b","time_field":"ts","time_field_format":"unixtime","default_limit":100,"limit_kind":"size","rules":[{"limit":1,"limit_kind":"count","conditions":{"level":"error"}},{"limit":2,"limit_kind":"size","conditions":{"service":"x","level":"warn"}}]}`,
		`{"default_limit":4,"limit_distribution":{"field":"level","ratios":[{"ratio":0.5,"values":["error"]},{"ratio":0.3,"values":["warn","info"]}],"metric_labels":["service"]}}`,
		// coverage round: no time field (the wall clock), an unlimited key; a distribution over sizes whose default share is 0
		// (every other value borrows from the freest share); a distribution field without ratios; a rule with its own distribution;
		// the redis key override read from the event although the back end is the memory one
		`{"throttle_field":"service","time_field":"","default_limit":-1,"rules":[{"limit":-1,"limit_kind":"count","conditions":{"level":"error"}}]}`,
		`{"default_limit":200,"limit_kind":"size","time_field":"","limit_distribution":{"field":"level","ratios":[{"ratio":0.5,"values":["error"]},{"ratio":0.5,"values":["warn",""]}],"metric_labels":["service"]}}`,
		`{"default_limit":2,"limit_distribution":{"field":"level"},"rules":[{"limit":3,"limit_kind":"size","conditions":{"service":"x"},"limit_distribution":{"field":"a.b","ratios":[{"ratio":1,"values":["x"]}]}}],"redis_backend_config":{"limiter_key_field":"service"}}`}, "C16"},
	27: {"k8s-multiline", []string{
		`{"offsets_file":"/tmp/verif_c13_offsets.yaml","split_event_size":1000000}`,
		`{"offsets_file":"/tmp/verif_c13_offsets.yaml","split_event_size":1000000,"only_node":true}`,
		`{"offsets_file":"/tmp/verif_c13_offsets.yaml","split_event_size":131100,"allowed_pod_labels":["app"]}`,
		`{"offsets_file":"/tmp/verif_c13_offsets.yaml","split_event_size":131110,"allowed_node_labels":["zone"]}`}, "C15"},
}

var pluginIdx = func() map[string]int {
	m := map[string]int{}
	for i, p := range plugins {
		m[p.typ] = i
	}
	return m
}()

func jsonStr(s string) string {
	out := []byte{'"'}
	for i := 0; i < len(s); i++ {
		switch c := s[i]; {
		case c == '"' || c == '\\':
			out = append(out, '\\', c)
		case c == '\n':
			out = append(out, '\\', 'n')
		default:
			out = append(out, c)
		}
	}
	return string(append(out, '"'))
}

// ---------------------------------------------------------------------------------------------
// logger: every level enabled (so that the log-formatting code of the plugins runs), output
// discarded, Fatal turned into a panic that is told apart from a run-time panic.

type fatalMark struct{ msg string }

type fatalHook struct{}

// fatalMsg: set by the hook right before it panics, so that the driver tells a Fatal (process exit
// in the real collector) from a run-time panic without disturbing hx.Catch's panic-site capture
// (behind a mutex: the twin streams run two chains on two goroutines)
var (
	fatalMu  sync.Mutex
	fatalMsg string
)

func setFatal(s string) { fatalMu.Lock(); fatalMsg = s; fatalMu.Unlock() }
func getFatal() string  { fatalMu.Lock(); defer fatalMu.Unlock(); return fatalMsg }

func (fatalHook) OnWrite(ce *zapcore.CheckedEntry, _ []zapcore.Field) {
	setFatal(ce.Message)
	panic(fatalMark{ce.Message})
}

var theLogger = func() *zap.SugaredLogger {
	enc := zapcore.NewJSONEncoder(zap.NewProductionEncoderConfig())
	core := zapcore.NewCore(enc, zapcore.AddSync(io.Discard), zapcore.DebugLevel)
	return zap.New(core, zap.WithFatalHook(fatalHook{})).Sugar()
}()

var (
	metaOnce sync.Once
	k8sItem  = &meta.MetaItem{Namespace: "ns", PodName: "pod-1", ContainerName: "c", ContainerID: "4e0301b633eaa2bfdcafdeba59ba0c72a3815911a6a820bf273534b0f32d98e0"}
)

func k8sMeta() {
	metaOnce.Do(func() {
		meta.DisableMetaUpdates = true
		meta.MaintenanceInterval = time.Hour
		meta.MetaExpireDuration = 24 * time.Hour
		meta.EnableGatherer(zap.NewNop().Sugar())
		pod := &corev1.Pod{}
		pod.Namespace = string(k8sItem.Namespace)
		pod.Name = string(k8sItem.PodName)
		pod.Status.ContainerStatuses = []corev1.ContainerStatus{{Name: string(k8sItem.ContainerName), ContainerID: "containerd://" + string(k8sItem.ContainerID)}}
		pod.Labels = map[string]string{"app": "x", "tier": "y"}
		meta.PutMeta(pod)
		meta.SelfNodeName = "node_1"
		meta.MetaData.NodeLabels = map[string]string{"zone": "z1", "role": "r"}
	})
}

var instSeq int

// pluginSpec: everything the processors of ONE pipeline share for one action of the chain: the parsed
// config object (fd.setupAction calls GetConfig once and hands the same object to every processor's
// Start), the pipeline name, the action index and the metric controller.
type pluginSpec struct {
	typ    string
	info   *pipeline.PluginStaticInfo
	conf   pipeline.AnyConfig
	name   string
	index  int
	st     *pipeline.Settings
	metric *metric.Ctl
	// the limits file a throttle configuration with the place-holder "limits_file":"fake-limits" got ("" = none)
	limitsFile string
}

// newSpec runs the collector's own validation path (GetConfig = cfg.DecodeConfig + cfg.Parse).
func newSpec(typ string, cfgJSON []byte, st *pipeline.Settings, index int) (*pluginSpec, string) {
	info, e := fd.DefaultPluginRegistry.GetActionByType(typ)
	if e != nil {
		return nil, "unknown action type " + typ
	}
	limitsFile := ""
	if typ == "throttle" { // the place-holders of the in-process redis and of the case's own limits file (fakeredis.go)
		cfgJSON, limitsFile = withFakeBackends(cfgJSON)
	}
	conf, e := pipeline.GetConfig(info, cfgJSON, map[string]int{"gomaxprocs": 4, "capacity": 256})
	if e != nil {
		return nil, "config rejected: " + e.Error()
	}
	if typ == "k8s-multiline" {
		k8sMeta()
	}
	instSeq++
	// a fresh pipeline name per instance: throttle / debug keep per-pipeline global state, which
	// must not leak from one case into the next. hash caches its (stateless, expensive to compile:
	// a lexmachine DFA over all built-in patterns) normaliser per pipeline name + index: share it
	// between the instances of one configuration, as the processors of one pipeline do.
	name := fmt.Sprintf("verif_c13_%d", instSeq)
	if typ == "hash" {
		// (the key is what the normaliser is built from: configurations that differ only in their field
		// lists share one, as the cache of hash.Start does for one pipeline name + index)
		var c struct {
			Normalizer any `json:"normalizer"`
		}
		_ = json.Unmarshal(cfgJSON, &c)
		nb, _ := json.Marshal(c.Normalizer)
		h := fnv.New64a()
		h.Write(nb)
		name = fmt.Sprintf("verif_c13_hash_%x", h.Sum64())
		index = 0
	}
	return &pluginSpec{typ: typ, info: info, conf: conf, name: name, index: index, st: st, limitsFile: limitsFile,
		metric: metric.NewCtl("verif", prometheus.NewRegistry(), time.Minute, 0)}, ""
}

// start builds one plugin instance of the spec (one per processor) and calls its Start.
// err != "" : the configuration was rejected by a Fatal in Start.
func (sp *pluginSpec) start(ctl pipeline.ActionPluginController) (p pipeline.ActionPlugin, err string) {
	params := &pipeline.ActionPluginParams{
		PluginDefaultParams: pipeline.PluginDefaultParams{
			PipelineName:     sp.name,
			PipelineSettings: sp.st,
			MetricCtl:        sp.metric,
		},
		Controller: ctl,
		Logger:     theLogger,
		Index:      sp.index,
	}
	pl, _ := sp.info.Factory()
	ap, ok := pl.(pipeline.ActionPlugin)
	if !ok {
		return nil, "not an action plugin"
	}
	func() {
		defer func() {
			if r := recover(); r != nil {
				if f, is := r.(fatalMark); is {
					err = "config rejected by Start: " + f.msg
				} else {
					err = "Start panicked: " + fmt.Sprint(r)
				}
			}
		}()
		ap.Start(sp.conf, params)
	}()
	if err != "" {
		return nil, err
	}
	return ap, ""
}

// newInstance builds one plugin instance through the collector's own validation path.
// err != "" : the configuration was rejected (by GetConfig or by a Fatal in Start).
func newInstance(typ string, cfgJSON []byte, st *pipeline.Settings, ctl pipeline.ActionPluginController, index int) (p pipeline.ActionPlugin, err string) {
	sp, err := newSpec(typ, cfgJSON, st, index)
	if err != "" {
		return nil, err
	}
	return sp.start(ctl)
}
