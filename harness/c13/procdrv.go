package main

// which = 29: real action plugins under the REAL processor (pipeline.New + fd.setupAction, the collector's own
// path from an action's JSON to ActionPluginStaticInfo: match_fields / match_mode / match_invert / do_if /
// metric_name / metric_labels / metric_skip_status), one processor, a recording output.
//
//	case = ((#action-json ...) (ev ...))     action-json = the action object of a pipeline config, "type" included
//	                                          ev = #json-text | 0 (nothing arrives for longer than event_timeout: the
//	                                          stream's time-out event reaches whatever action holds a run)
//	obs  = (1) every accepted event left the pipeline (passed to the output, discarded, collapsed or flushed by the
//	           time-out), every event the output saw encodes to valid JSON and re-parses to the same tree
//	     | (4 #..) an event at the output is no well-formed document | (7 #..) configuration rejected | (8 #..) the pipeline
//	       did not drain (an event stayed inside) | (2 #..) a panic on the feeding side
//
// What this adds to the miniature processor of runner.go: processor.isMatch (and / or / prefix modes, invert, regexp
// and value conditions, do_if) decides from the event's CONTENT whether Do runs; countEvent reads label values from the
// event; Spawn hands time-outs to busy actions behind a split; the stream time-out is the pipeline's own.
// A panic inside Do on the processor goroutine cannot be recovered here (the collector has no recover either): the case
// is first run through the miniature (execChain, same plugins, same events, panics caught) and goes to the real
// pipeline only when that run is clean; a crash of the harness process is reported by the runner with the case in progress.

import (
	"encoding/json"
	"fmt"
	"sync"
	"sync/atomic"
	"time"
	_ "unsafe"

	simplejson "github.com/bitly/go-simplejson"
	"github.com/ozontech/file.d/fd"
	"github.com/ozontech/file.d/pipeline"
	insaneJSON "github.com/ozontech/insane-json"
	"github.com/prometheus/client_golang/prometheus"

	"verif/harness/hx"
)

//go:linkname fdSetupAction github.com/ozontech/file.d/fd.setupAction
func fdSetupAction(p *pipeline.Pipeline, plugins *fd.PluginRegistry, index int, t string, actionJSON *simplejson.Json, values map[string]int) error

const procWhich = 29

type procInput struct{ commits atomic.Int64 }

func (f *procInput) Start(pipeline.AnyConfig, *pipeline.InputPluginParams) {}
func (f *procInput) Stop()                                                 {}
func (f *procInput) Commit(*pipeline.Event)                                { f.commits.Add(1) }
func (f *procInput) PassEvent(*pipeline.Event) bool                        { return true }

type procOutput struct {
	mu   sync.Mutex
	ctl  pipeline.OutputPluginController
	bad  string
	outs int
}

func (o *procOutput) Start(_ pipeline.AnyConfig, p *pipeline.OutputPluginParams) { o.ctl = p.Controller }
func (o *procOutput) Stop()                                                      {}
func (o *procOutput) Out(e *pipeline.Event) {
	o.mu.Lock()
	o.outs++
	if o.bad == "" && e.Root != nil && !e.IsChildParentKind() {
		var enc []byte
		var tree hx.Sx
		if msg := hx.Catch(func() { enc = e.Root.Encode(nil); tree = hx.JSON(e.Root.Node) }); msg != "" {
			o.bad = "encoding an event at the output: " + msg
		} else if !json.Valid(enc) && nestingDepth(enc) <= 9990 {
			o.bad = "event at the output is not valid JSON: " + clipStr(string(enc), 80)
		} else {
			back := insaneJSON.Spawn()
			if err := back.DecodeBytes(enc); err != nil {
				o.bad = "event at the output does not re-parse: " + clipStr(string(enc), 80)
			} else if bt := hx.JSON(back.Node); hx.String(bt) != hx.String(tree) && normTree(bt) != normTree(tree) {
				o.bad = "event at the output re-parses to another tree: " + clipStr(string(enc), 80)
			}
			insaneJSON.Release(back)
		}
	}
	o.mu.Unlock()
	o.ctl.Commit(e)
}

var procSeq int

// procChainCase: the same actions (config without the processor-level keys) and events as a case of the miniature
func procChainCase(cs hx.Sx) (hx.Sx, string) {
	it := hx.Items(cs)
	var pl []hx.Sx
	for _, a := range hx.Items(it[0]) {
		js, err := simplejson.NewJson(hx.Bytes(a))
		if err != nil {
			return nil, "action is no JSON object: " + err.Error()
		}
		typ := js.Get("type").MustString()
		for _, k := range []string{"type", "match_fields", "match_mode", "metric_name", "metric_labels", "metric_skip_status", "match_invert", "do_if"} {
			js.Del(k)
		}
		cf, _ := js.Encode()
		pl = append(pl, plugSx(typ, string(cf), [3]int{}))
	}
	var evs []hx.Sx
	for _, e := range hx.Items(it[1]) {
		if hx.IsInt(e) {
			evs = append(evs, hx.I(0))
		} else {
			evs = append(evs, evSx(hx.Str(e)))
		}
	}
	return hx.L(hx.L(pl...), hx.L(evs...)), ""
}

func execProc(cs hx.Sx) hx.Sx {
	mini, bad := procChainCase(cs)
	if bad != "" {
		return hx.L(hx.I(obsConfig), hx.S(bad))
	}
	if o := execChain(mini, map[string]int{}); hx.String(o) != "(1)" {
		return o // a violation the miniature already shows (or a rejected configuration): not repeated without a recover
	}
	it := hx.Items(cs)
	procSeq++
	const evTimeout = 15 * time.Millisecond
	settings := &pipeline.Settings{
		Capacity: 32, MaintenanceInterval: 5 * time.Second, EventTimeout: evTimeout,
		Antispam: pipeline.AntispamSettings{Threshold: -1}, AvgEventSize: 256, MetaCacheSize: 8, StreamField: "stream", Decoder: "json",
		Metric: &pipeline.MetricSettings{HoldDuration: time.Minute, MaxLabelValueLength: 100},
	}
	p := pipeline.New(fmt.Sprintf("verif_c13_proc_%d", procSeq), settings, prometheus.NewRegistry(), theLogger.Desugar())
	p.DisableParallelism()
	in := &procInput{}
	p.SetInput(&pipeline.InputPluginInfo{
		PluginStaticInfo:  &pipeline.PluginStaticInfo{Type: "verifin"},
		PluginRuntimeInfo: &pipeline.PluginRuntimeInfo{Plugin: in},
	})
	for i, a := range hx.Items(it[0]) {
		js, _ := simplejson.NewJson(hx.Bytes(a))
		var err error
		setFatal("")
		msg := hx.Catch(func() {
			err = fdSetupAction(p, fd.DefaultPluginRegistry, i, js.Get("type").MustString(), js, map[string]int{"gomaxprocs": 4, "capacity": 32})
		})
		if msg != "" || err != nil {
			return hx.L(hx.I(obsConfig), hx.S(fmt.Sprint("setupAction: ", msg, getFatal(), err)))
		}
	}
	out := &procOutput{}
	p.SetOutput(&pipeline.OutputPluginInfo{
		PluginStaticInfo:  &pipeline.PluginStaticInfo{Type: "verifout"},
		PluginRuntimeInfo: &pipeline.PluginRuntimeInfo{Plugin: out},
	})
	if msg := hx.Catch(func() { p.Start() }); msg != "" {
		return hx.L(hx.I(obsConfig), hx.S("Start: "+msg+getFatal()))
	}
	accepted := 0
	feedPanic := hx.Catch(func() {
		for i, e := range hx.Items(it[1]) {
			if hx.IsInt(e) {
				time.Sleep(evTimeout + 10*time.Millisecond)
				continue
			}
			if seq := p.In(pipeline.SourceID(1), "k8s/x.log", pipeline.NewOffsets(int64(i+1), nil), hx.Bytes(e), false, nil); seq != pipeline.EventSeqIDError {
				accepted++
			}
		}
	})
	drained := false
	for deadline := time.Now().Add(3 * time.Second); time.Now().Before(deadline); time.Sleep(time.Millisecond) {
		if p.VerifPoolInUse() == 0 {
			drained = true
			break
		}
	}
	inUse := p.VerifPoolInUse()
	stopped := make(chan struct{})
	go func() { hx.Catch(func() { p.Stop() }); close(stopped) }()
	select {
	case <-stopped:
	case <-time.After(5 * time.Second):
		return hx.L(hx.I(8), hx.S("Pipeline.Stop did not return"))
	}
	out.mu.Lock()
	defer out.mu.Unlock()
	switch {
	case feedPanic != "":
		return hx.L(hx.I(obsPanic), hx.S("Pipeline.In: "+feedPanic))
	case out.bad != "":
		return hx.L(hx.I(obsBadJSON), hx.S(out.bad))
	case !drained:
		return hx.L(hx.I(8), hx.S(fmt.Sprintf("%d of %d accepted events still inside the pipeline 3 s after the last one", inUse, accepted)))
	}
	execStats["proc_events_accepted"] += accepted
	execStats["proc_events_at_output"] += out.outs
	return hx.L(hx.I(obsOK))
}
