package main

// Sub-model 53 (coq/Model/Actions/Procs.v), stream 'processors': the per-processor instances of ONE action,
// run concurrently. The pipeline starts one instance of every action per processor goroutine, all from one
// config object, pipeline name, action index and metric controller (pluginSpec), so package-level caches and
// objects hung on the shared config (hash: normalizerCache keyed <pipeline>_<index>; throttle: limiter map;
// k8s multiline: escapedStringBufPool; metric vectors; ...) are shared between goroutines that call Do at the
// same time. Every other stream of this harness but 'twin' (two instances, the same 3..8 events) runs one
// instance on one goroutine and can never see a write into such shared state.
//
//	case ((plugin) mode ((rounds chunk (ev ...)) ...))   one event stream per instance, K = 2..8 streams; the
//	                                                     events of a stream are its list repeated `rounds` times
//	obs  ((conc ...) (solo ...))   per stream a record list: conc = what instance i did while all K ran on K
//	                               goroutines, solo = what a FRESH instance does on the same events alone, after
//	                               the concurrent phase, one stream at a time
//	     record (0 n #digest)      per chunk of `chunk` rounds: the number of events that left the chain and a
//	                               digest of their trees and encoded lengths (in order; treeHash)
//	            (code #detail)     a panic / Fatal / undefined result / late change (runner.go's codes): ends the stream
//
// mode 0 (the model demands conc = solo): Do is a function of the instance's own history.
// mode 1 (the model demands only: no violation record, every chunk accounted for) for the plugins whose instances
// share state ON PURPOSE or read the clock, so that what one instance answers depends on scheduling:
//   - throttle: the limiters of a pipeline are one map shared by its instances (limitersMap per pipeline name): which
//     instance's event exhausts a bucket depends on the interleaving, and buckets are wall-clock intervals;
//   - cardinality: one cache per pipeline: which instance registers a value first decides who is over the limit;
//   - set_time: writes the (coarse, ticking) clock reading into the event.
// The per-Do re-parse / buffer poisoning of the generic layer is switched off here (light): a buffer torn by another
// goroutine shows as a digest that differs from the solo run, as a late change (commit re-encodes) or as a panic.

import (
	"encoding/binary"
	"fmt"
	"os"
	"path/filepath"
	"strings"
	"sync"

	"github.com/ozontech/file.d/pipeline"
	insaneJSON "github.com/ozontech/insane-json"

	"verif/harness/hmain"
	"verif/harness/hx"
)

const procsWhich = 53

func procsMode(typ string) int {
	switch typ {
	case "throttle", "cardinality", "set_time":
		return 1
	}
	return 0
}

type procStream struct {
	rounds, chunk int
	evs           []hx.Sx
}

// runProcStream feeds one instance its stream, chunk by chunk, and returns the record list.
func runProcStream(r *chainRun, st procStream, hasK8s bool) (recs []hx.Sx) {
	var sum uint64
	n := 0
	var scratch []byte
	r.onOut = func(e *pipeline.Event, enc []byte) {
		var th uint64
		th, scratch = treeHash(e.Root.Node, scratch)
		sum = mix64(sum*0x100000001b3 + th + uint64(len(enc))) // the events in order
		n++
	}
	defer func() {
		// a panic outside hx.Catch (the encoder on a torn tree, the harness itself) must not pass for a clean run
		if x := recover(); x != nil {
			r.violate(obsPanic, "processor goroutine: "+fmt.Sprint(x))
			recs = append(recs, r.viol)
		}
	}()
	for done := 0; done < st.rounds; {
		var evs []hx.Sx
		for k := 0; k < st.chunk && done < st.rounds; k, done = k+1, done+1 {
			evs = append(evs, st.evs...)
		}
		r.feed(evs, hasK8s)
		if r.viol != nil {
			return append(recs, r.viol)
		}
		var d [8]byte
		binary.BigEndian.PutUint64(d[:], sum)
		recs = append(recs, hx.L(hx.I(0), hx.I(n), hx.S(string(d[:]))))
		sum, n = 0, 0
	}
	return recs
}

func mix64(x uint64) uint64 { // splitmix64's finaliser
	x ^= x >> 30
	x *= 0xbf58476d1ce4e5b9
	x ^= x >> 27
	x *= 0x94d049bb133111eb
	return x ^ x>>31
}

func fnvBytes(b []byte) uint64 {
	h := uint64(0xcbf29ce484222325)
	for _, c := range b {
		h = (h ^ uint64(c)) * 0x100000001b3
	}
	return h
}

// treeHash: a digest of the VALUE of the tree: the fields of an object in any order (modify ranges over a Go map of
// its configuration in Start, the k8s multiline action over the pod's label map in Do: the order in which they add
// fields is random by the language, in a solo run as well), array elements and everything else in order, scalars
// by their encoding. The length of the event's encoding goes into the record next to it.
func treeHash(n *insaneJSON.Node, scratch []byte) (uint64, []byte) {
	switch {
	case n == nil:
		return 1, scratch
	case n.IsObject():
		var h, v uint64 = 2, 0
		for _, f := range n.AsFields() {
			v, scratch = treeHash(f.AsFieldValue(), scratch)
			h += mix64(fnvBytes([]byte(f.AsString()))*31 + v)
		}
		return mix64(h), scratch
	case n.IsArray():
		var h, v uint64 = 3, 0
		for _, el := range n.AsArray() {
			v, scratch = treeHash(el, scratch)
			h = mix64(h*0x100000001b3 + v)
		}
		return h, scratch
	}
	scratch = n.Encode(scratch[:0])
	return mix64(fnvBytes(scratch) + 4), scratch
}

func execProcs(cs hx.Sx) hx.Sx {
	it := hx.Items(cs)
	pl := hx.Items(hx.Items(it[0])[0])
	typ, cfgJSON := hx.Str(pl[0]), hx.Bytes(pl[1])
	var streams []procStream
	for _, s := range hx.Items(it[2]) {
		f := hx.Items(s)
		st := procStream{rounds: int(hx.Int(f[0])), chunk: int(hx.Int(f[1])), evs: hx.Items(f[2])}
		if st.chunk < 1 {
			st.chunk = 1
		}
		streams = append(streams, st)
	}
	hasK8s := typ == "k8s-multiline"
	settings := &pipeline.Settings{AvgEventSize: 64, Capacity: 256}
	if theFakeRedis != nil {
		theFakeRedis.reset()
	}
	cleanup := func(sp *pluginSpec) {
		if sp.limitsFile != "" {
			os.Remove(sp.limitsFile)
			if tmp, _ := filepath.Glob(sp.limitsFile + ".*"); len(tmp) > 0 {
				for _, t := range tmp {
					os.Remove(t)
				}
			}
		}
	}
	// phase 1: K instances of one spec, started one after another (as pipeline.Start does), K goroutines
	sp, err := newSpec(typ, cfgJSON, settings, 0)
	if err != "" {
		return hx.L(hx.I(obsConfig), hx.S(typ+": "+err))
	}
	defer cleanup(sp)
	runs := make([]*chainRun, len(streams))
	for i := range runs {
		r := &chainRun{stats: map[string]int{}, light: true}
		defer r.release()
		p, err := sp.start(&chainCtl{r: r, k: 0})
		if err != "" {
			return hx.L(hx.I(obsConfig), hx.S(typ+": "+err))
		}
		defer p.Stop()
		r.acts, r.types, r.busy = []pipeline.ActionPlugin{p}, []string{typ}, []bool{false}
		runs[i] = r
	}
	conc := make([]hx.Sx, len(streams))
	var wg sync.WaitGroup
	for i := range runs {
		wg.Add(1)
		go func(i int) {
			defer wg.Done()
			conc[i] = hx.L(runProcStream(runs[i], streams[i], hasK8s)...)
		}(i)
	}
	wg.Wait()
	// phase 2: a fresh spec and instance per stream, alone
	solo := make([]hx.Sx, len(streams))
	for i := range streams {
		solo[i] = func() hx.Sx {
			sp1, err := newSpec(typ, cfgJSON, settings, 0)
			if err != "" {
				return hx.L(hx.L(hx.I(obsConfig), hx.S(typ+": "+err)))
			}
			defer cleanup(sp1)
			r := &chainRun{stats: map[string]int{}, light: true}
			defer r.release()
			p, err := sp1.start(&chainCtl{r: r, k: 0})
			if err != "" {
				return hx.L(hx.L(hx.I(obsConfig), hx.S(typ+": "+err)))
			}
			defer p.Stop()
			r.acts, r.types, r.busy = []pipeline.ActionPlugin{p}, []string{typ}, []bool{false}
			return hx.L(runProcStream(r, streams[i], hasK8s)...)
		}()
	}
	return hx.L(hx.L(conc...), hx.L(solo...))
}

// bracket / quote texts of very different lengths (what the hash normaliser's tokenizer keeps offsets into)
var procTexts = []string{
	`short "q" [b]`,
	`error occurred, client: 10.125.172.251, upstream: "http://10.117.246.15:84/download", params: [param1, param2] {a:{b:c}} (x)`,
	`'single quoted' tail [1,2,[3,4]] and """triple""" end`,
	`(nested (nested (nested (x)))) "unterminated`,
	"`grave` and {curly {inner}} 'q'",
	`plain words only`,
}

// genProcs: EVERY configuration of the table x K = 2..8 instances (one K per configuration in the quick tier,
// rotating with the seed; every K in the thorough tier), each instance with its own events: different documents,
// different lengths (the padding grows with the stream number), a different number of events per round.
func genProcs(c *hmain.Ctx) {
	r := c.R
	perStream := 1200 // Do calls per instance (x K instances = 2400..9600 concurrent Do calls per case; 6000 per instance in the thorough tier)
	ks := []int{0}
	if c.Tier == "thorough" {
		ks = []int{2, 3, 4, 5, 6, 7, 8}
		perStream = 6000
	}
	idx := r.Intn(7)
	for _, p := range plugins {
		for _, cf := range p.cfgs {
			idx++
			for _, k := range ks {
				if k == 0 {
					k = 2 + idx%7
				}
				var streams []hx.Sx
				for j := 0; j < k; j++ {
					pad := strings.Repeat("lorem ipsum ", j*6+r.Intn(5))
					var evs []hx.Sx
					for n := 4 + (j+r.Intn(3))%5; n > 0; n-- {
						text := hx.Pick(r, procTexts)
						tok := hx.Pick(r, strTokens)
						var doc string
						switch {
						case p.typ == "k8s-multiline":
							doc = `{"log":` + q(hx.Pick(r, strMultiline)+hx.Pick(r, []string{"", "\n"})) + `,"stream":"stdout"}`
						default:
							switch r.Intn(6) {
							case 0:
								doc = `{"log":` + q("w "+tok+" "+pad+text) + `,"message":` + q(pad+text+" "+tok+" "+hx.Pick(r, strPlain)) + `,"level":"error","service":"s` + itoa(r.Intn(3)) + `","time":"2021-06-22T16:24:27Z","a":{"b":"secret 1234 ` + inner(pad) + `"}}`
							case 1:
								doc = `{"message":` + q(text+" "+pad) + `,"log":` + q(`{"a":{"b":"`+tok+`"},"b":{"c":1,"d":[1,2]},"message":"m","level":"warn"}`) + `,"level":3,"items":[{"k":"v"},{"k":` + q(pad) + `}]}`
							case 2:
								doc = `{"log":` + q(pad+text) + `,"message":` + q(tok) + `,"a":{"b":{"c":` + q(text) + `,"d":2},"e":` + q(pad) + `},"time":"2021-06-22T16:24:27Z"}`
							case 3:
								doc = `{"message":` + q(text) + `}`
							case 4:
								doc = `{"log":` + q(text+" "+pad+tok) + `,"message":` + q(pad+"x "+text) + `,"level":"info","service":"s` + itoa(r.Intn(3)) + `","b":"x","t":` + q(pad) + `}`
							default:
								doc = `{"log":` + q("x "+tok+" y") + `,"message":` + q(strings.Repeat("x", 40*j)+" "+text+" "+strings.Repeat("y", 17*j)+" [z]") + `,"a":"scalar"}`
							}
						}
						evs = append(evs, evSx(doc))
						if r.Chance(1, 6) {
							evs = append(evs, hx.I(0))
						}
					}
					rounds := perStream/len(evs) + 1
					streams = append(streams, hx.L(hx.I(rounds), hx.I(16), hx.L(evs...)))
				}
				mode := procsMode(p.typ)
				c.W.Count(fmt.Sprintf("processors_k_%d", k))
				c.W.Count(fmt.Sprintf("processors_mode_%d", mode))
				c.Do("processors", procsWhich, hx.L(hx.L(plugSx(p.typ, cf, [3]int{})), hx.I(mode), hx.L(streams...)), true)
			}
		}
	}
}
