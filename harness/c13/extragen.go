package main

// Generators of the streams 42..49 (see extra.go): per plugin an exhaustive small scope (every
// configuration of a small configuration grammar x every tree of a small tree grammar) and random
// adversarial trees (missing fields, wrong types, arrays, nested targets, empty names, names with
// dots, names that are prefixes of each other, wide objects of more than 16 fields).

import (
	"fmt"
	"strconv"
	"strings"
	"time"

	"verif/harness/hmain"
	"verif/harness/hx"
)

// Finding C13-rename-empty-path-cycle (notes/finding-C13-rename-empty-path-cycle.md, repaired by fix 4232b91):
// the rename key "_" was unescaped to the empty selector and Do copied the root's field list into a field of
// the root. The stream rename-empty-path keeps the family: with the repair the key is no operation.
const renameCycleStream = "rename-empty-path"

func sxNum(s string) hx.Sx { return hx.L(hx.I(2), hx.S(s)) }
func sxObj(kv ...hx.Sx) hx.Sx {
	return hx.L(append([]hx.Sx{hx.I(5)}, kv...)...)
}
func sxArr(xs ...hx.Sx) hx.Sx    { return hx.L(append([]hx.Sx{hx.I(4)}, xs...)...) }
func kv(k string, v hx.Sx) hx.Sx { return hx.L(hx.S(k), v) }

// smallTrees: every object whose keys are an ordered selection of up to maxLen distinct keys and whose
// values range over vals
func smallTrees(keys []string, vals []hx.Sx, maxLen int) []hx.Sx {
	var out []hx.Sx
	var rec func(fields []hx.Sx, used map[string]bool)
	rec = func(fields []hx.Sx, used map[string]bool) {
		out = append(out, sxObj(append([]hx.Sx(nil), fields...)...))
		if len(fields) == maxLen {
			return
		}
		for _, k := range keys {
			if used[k] {
				continue
			}
			used[k] = true
			for _, v := range vals {
				rec(append(fields, kv(k, v)), used)
			}
			used[k] = false
		}
	}
	rec(nil, map[string]bool{})
	return out
}

var (
	vNum  = sxNum("1")
	vStr  = sxStr("s")
	vObj  = sxObj(kv("b", sxNum("1")))
	vObj2 = sxObj(kv("b", sxObj(kv("c", sxNum("2")))), kv("x", sxStr("s")))
	vArr  = sxArr(sxObj(kv("b", sxNum("1"))), sxNum("2"))
)

// advGen: adversarial trees
type advGen struct {
	r  *hx.Rng
	tg treeGen
}

var advKeys = []string{"a", "b", "c", "t", "x", "ab", "a.b", "", "0", "level", "message", "log", "time", "ts", "items", "service", "host", "file_name", "a_b", "p_a"}
var advInner = []string{"b", "c", "d", "x", "a", "0", "", "b.c", "t", "u", "level", "hash"}

func (g advGen) scalar() hx.Sx {
	r := g.r
	switch r.Intn(7) {
	case 0:
		return hx.I(0)
	case 1:
		return hx.L(hx.I(1), hx.Bool(r.Bool()))
	case 2:
		return sxNum(hx.Pick(r, []string{"0", "1", "-7", "42", "1.5", "1e3", "1624379067", "12345678901234567890"}))
	case 3:
		return sxStr(hx.Pick(r, []string{"", "s", "info", " WARN ", "3", "2021-06-22T16:24:27Z", "1624379067", "{\"a\":1}", "x.y", "é"}))
	default:
		return sxStr(g.tg.str())
	}
}

func (g advGen) value(depth int) hx.Sx {
	r := g.r
	if depth <= 0 {
		return g.scalar()
	}
	switch k := r.Intn(10); {
	case k < 4:
		return g.scalar()
	case k < 8:
		return g.object(advInner, depth-1, r.Intn(4))
	default:
		items := []hx.Sx{}
		for i := r.Intn(4); i > 0; i-- {
			items = append(items, g.value(depth-1))
		}
		return sxArr(items...)
	}
}

func (g advGen) object(keys []string, depth, n int) hx.Sx {
	ks := append([]string(nil), keys...)
	shuffle(g.r, ks)
	if n > len(ks) {
		n = len(ks)
	}
	var fs []hx.Sx
	for _, k := range ks[:n] {
		fs = append(fs, kv(k, g.value(depth)))
	}
	return sxObj(fs...)
}

// tree: an object root (sometimes wide: more than 16 fields, insane-json then answers Dig through a
// map), rarely an array or a scalar root
func (g advGen) tree() hx.Sx {
	r := g.r
	switch k := r.Intn(20); {
	case k == 0:
		return sxArr(g.value(2), g.value(1))
	case k == 1:
		return g.scalar()
	case k < 5: // wide: distinct keys only (above MapUseThreshold a duplicate key resolves to its LAST occurrence)
		fs := []hx.Sx{}
		ks := append([]string(nil), advKeys...)
		shuffle(r, ks)
		n := r.Range(15, 19)
		for i := 0; i < n; i++ {
			key := "w" + strconv.Itoa(i)
			if i < len(ks) && r.Chance(1, 2) {
				key = ks[i]
			}
			fs = append(fs, kv(key, g.value(1)))
		}
		return sxObj(fs...)
	default:
		return g.object(advKeys, 2, r.Range(0, 7))
	}
}

func cfgList(xs []string) string {
	q := make([]string, len(xs))
	for i, x := range xs {
		q[i] = jq(x)
	}
	return "[" + strings.Join(q, ",") + "]"
}

// renameCfg: the config object text, keys in the given order (duplicates allowed)
func renameCfg(override string, pairs [][2]string) string {
	var parts []string
	if override != "" {
		parts = append(parts, `"override":`+jq(override))
	}
	for _, p := range pairs {
		parts = append(parts, jq(p[0])+":"+jq(p[1]))
	}
	return "{" + strings.Join(parts, ",") + "}"
}

func outChanged(c *hmain.Ctx, name string, in hx.Sx, out hx.Sx) {
	o := hx.Items(out)
	if len(o) == 2 && hx.IsList(o[1]) && len(hx.Items(o[1])) == 2 && hx.String(hx.Items(o[1])[1]) != hx.String(in) {
		c.W.Count(name + "_changed_the_tree")
	} else {
		c.W.Count(name + "_left_the_tree_alone")
	}
}

func last(obs hx.Sx) hx.Sx { it := hx.Items(obs); return it[len(it)-1] }

func genExtra(c *hmain.Ctx) {
	r := c.R
	tg := treeGen{r}
	ag := advGen{r, tg}
	thorough := c.Tier == "thorough"
	maxLen := 2
	if thorough {
		maxLen = 3
	}
	small := smallTrees([]string{"a", "b", "t"}, []hx.Sx{vNum, vObj, vObj2, vArr}, maxLen)
	c.W.Count(fmt.Sprintf("extra_small_trees_%d", len(small)))
	do := func(stream string, which int, name string, cfgJSON string, t hx.Sx) hx.Sx {
		obs := c.Do(stream, which, hx.L(hx.S(cfgJSON), t), true)
		if which == 42 {
			c.W.Oracle("cfg.ParseFieldSelector of a non-empty selector is a non-empty path", renameSelOK, cfgJSON)
		}
		outChanged(c, name, t, last(obs))
		return obs
	}

	// ---- 42 rename
	var renCfgs []string
	for _, ov := range []string{"", "true"} {
		for _, from := range []string{"a", "b", "a.b", "a.0"} {
			for _, to := range []string{"a", "x", "t"} {
				renCfgs = append(renCfgs, renameCfg(ov, [][2]string{{from, to}}))
			}
		}
	}
	renCfgs = append(renCfgs,
		renameCfg("true", [][2]string{{"a", "x"}, {"x", "b"}}),
		renameCfg("", [][2]string{{"a.b", "a"}, {"b", "a"}}),
		renameCfg("true", [][2]string{{"a.b", "a"}, {"a.c", "b"}}),
		renameCfg("true", [][2]string{{"a", "x"}, {"a", "y"}}), // duplicate key in the config
		renameCfg("false", [][2]string{{"a.b.c", "c"}, {"t", "a.b"}}),
		renameCfg("true", [][2]string{{"__a", "x"}, {"_b", "y"}, {"", "z"}}),
		renameCfg("true", [][2]string{{"a.b", "b"}, {"b.c", "t"}, {"t", "a"}}),
		renameCfg("x", [][2]string{{"a", "b"}, {"b", "a"}}))
	for _, cf := range renCfgs {
		for _, t := range small {
			do("rename-exhaustive", 42, "rename_do", cf, t)
		}
	}
	renKeys := []string{"a", "b", "c", "t", "x", "ab", "a.b", "a\\.b", "a.b.c", "a.0", "items.0", "0", "level", "message", "log", "nope", "a.x", "__a", "_level", "."}
	for i := 0; i < 500*c.Scale; i++ {
		var pairs [][2]string
		for n := r.Range(1, 3); n > 0; n-- {
			pairs = append(pairs, [2]string{hx.Pick(r, renKeys), hx.Pick(r, []string{"a", "b", "x", "t", "a.b", "", "level", "new", "w3", "0"})})
		}
		stream := "rename-random"
		t := ag.tree()
		if r.Chance(1, 3) {
			t = tg.focused(false)
		}
		if r.Chance(1, 12) {
			at := r.Intn(len(pairs) + 1)
			pairs = append(pairs[:at:at], append([][2]string{{"_", hx.Pick(r, []string{"x", "a", "new", ""})}}, pairs[at:]...)...)
			stream = renameCycleStream
		}
		do(stream, 42, "rename_do", renameCfg(hx.Pick(r, []string{"", "true", "false"}), pairs), t)
	}
	// the key "_" alone and next to other keys, on every small tree
	for _, cf := range []string{renameCfg("", [][2]string{{"_", "x"}}), renameCfg("true", [][2]string{{"_", "a"}}),
		renameCfg("true", [][2]string{{"a", "x"}, {"_", "y"}, {"__", "z"}, {"b", "w"}})} {
		for _, t := range small {
			do(renameCycleStream, 42, "rename_do", cf, t)
		}
	}

	// ---- 43 move
	var movCfgs []string
	for _, fs := range [][]string{{"a"}, {"a.b"}, {"a", "b"}, {"a.b", "a"}, {"a.0", "b.x"}, {"t.b", "a", "a"}} {
		for _, target := range []string{"t", "a", "a.b", "t.u"} {
			movCfgs = append(movCfgs, `{"fields":`+cfgList(fs)+`,"mode":"allow","target":`+jq(target)+`}`)
		}
	}
	for _, fs := range [][]string{{}, {"a"}, {"a", "b"}, {"a.b", "t"}} {
		for _, target := range []string{"t", "a", "x"} {
			movCfgs = append(movCfgs, `{"fields":`+cfgList(fs)+`,"mode":"block","target":`+jq(target)+`}`)
		}
	}
	for _, cf := range movCfgs {
		for _, t := range small {
			do("move-exhaustive", 43, "move_do", cf, t)
		}
	}
	movFields := []string{"a", "b", "c", "t", "x", "ab", "a.b", "a\\.b", "a.b.c", "a.0", "items.0", "items", "0", "level", "message", "log", "nope", "t.x", "", "a.x", "t.u"}
	for i := 0; i < 500*c.Scale; i++ {
		var fs []string
		for n := r.Intn(4); n > 0; n-- {
			fs = append(fs, hx.Pick(r, movFields))
		}
		mode, target := "allow", hx.Pick(r, []string{"t", "a", "a.b", "t.u.v", "x", "items", "a\\.b", "level", "0", "w3"})
		if r.Chance(1, 3) {
			mode, target = "block", hx.Pick(r, []string{"t", "a", "x", "a\\.b", "level", "0", "w3"})
		}
		t := ag.tree()
		if r.Chance(1, 3) {
			t = tg.focused(false)
		}
		do("move-random", 43, "move_do_"+mode, `{"fields":`+cfgList(fs)+`,"mode":"`+mode+`","target":`+jq(target)+`}`, t)
	}

	// ---- 44 flatten
	var flCfgs []string
	for _, f := range []string{"a", "a.b", "b", "a.0"} {
		for _, p := range []string{"", "p_", "a"} {
			flCfgs = append(flCfgs, `{"field":`+jq(f)+`,"prefix":`+jq(p)+`}`)
		}
	}
	for _, cf := range flCfgs {
		for _, t := range small {
			do("flatten-exhaustive", 44, "flatten_do", cf, t)
		}
	}
	for i := 0; i < 300*c.Scale; i++ {
		cf := `{"field":` + jq(hx.Pick(r, []string{"a", "a.b", "t", "items.0", "x", "a\\.b", "0", "level", "w3", "b"})) + `,"prefix":` + jq(hx.Pick(r, []string{"", "p_", "a.", "b", "w"})) + `}`
		t := ag.tree()
		if r.Chance(1, 2) { // make sure there is an object to flatten, sometimes a wide one
			n := r.Range(0, 5)
			if r.Chance(1, 6) {
				n = r.Range(15, 19)
			}
			var fs []hx.Sx
			for j := 0; j < n; j++ {
				fs = append(fs, kv(hx.Pick(r, []string{"a", "b", "k", "w"})+strconv.Itoa(j%7+r.Intn(2)*j), ag.value(1)))
			}
			t = withField(t, hx.Pick(r, [][]string{{"a"}, {"a", "b"}, {"t"}}), dedupe(sxObj(fs...)))
		}
		do("flatten-random", 44, "flatten_do", cf, t)
	}

	// ---- 45 json_encode
	for _, f := range []string{"a", "a.b", "b", "a.0", "a.b.c", "t"} {
		for _, t := range small {
			do("json-encode-exhaustive", 45, "json_encode_do", `{"field":`+jq(f)+`}`, t)
		}
	}
	for i := 0; i < 300*c.Scale; i++ {
		cf := `{"field":` + jq(hx.Pick(r, []string{"a", "a.b", "t", "items.0", "items", "x", "a\\.b", "0", "level", "message", "log", "w3", "b"})) + `}`
		t := ag.tree()
		if r.Chance(1, 3) {
			t = tg.focused(false)
		}
		do("json-encode-random", 45, "json_encode_do", cf, t)
	}

	// ---- 46 json_decode: the field holds a document (valid JSON with canonical numbers, or text the
	// parser refuses)
	docs := []string{`{}`, `{"a":1}`, `{"b":{"c":2},"x":"s"}`, `{"a":1,"a":2}`, `{"t":[1,{"b":1}],"a":null}`, `1`, `"x"`, `[{"a":1}]`, `null`, ``, `{`, `{"a":}`, `nope`, `{"a":1}}`}
	var jdCfgs []string
	for _, f := range []string{"a", "a.b", "t"} {
		for _, p := range []string{"", "p_"} {
			jdCfgs = append(jdCfgs, `{"field":`+jq(f)+`,"prefix":`+jq(p)+`}`)
		}
	}
	jdTrees := smallTrees([]string{"a", "b"}, []hx.Sx{vNum, vObj}, 2)
	for _, cf := range jdCfgs {
		for _, d := range docs {
			for ti, t := range jdTrees {
				for pi, path := range [][]string{{"a"}, {"a", "b"}, {"t"}} {
					if (ti+pi)%3 != 0 && !thorough { // a third of the placements per tree in the quick tier
						continue
					}
					do("json-decode-exhaustive", 46, "json_decode_do", cf, withField(t, path, sxStr(d)))
				}
			}
		}
	}
	for i := 0; i < 300*c.Scale; i++ {
		cf := `{"field":` + jq(hx.Pick(r, []string{"log", "a.b", "message", "t", "items.0"})) + `,"prefix":` + jq(hx.Pick(r, []string{"", "", "p_", "m.", "a"})) + `}`
		var d string
		switch r.Intn(6) {
		case 0:
			d = hx.Pick(r, docs)
		case 1: // a wide document
			var fs []hx.Sx
			for j, n := 0, r.Range(15, 20); j < n; j++ {
				fs = append(fs, kv("k"+strconv.Itoa(j), hx.Pick(r, []hx.Sx{vNum, vStr, vObj})))
			}
			d = hx.JSONText(sxObj(fs...))
		case 2:
			d = tg.doc(2)
		default:
			d = hx.JSONText(tg.focused(true))
		}
		t := ag.tree()
		if r.Chance(1, 2) {
			t = tg.tree(2, false)
		}
		v := sxStr(d)
		if r.Chance(1, 10) {
			v = ag.value(1)
		}
		t = withField(t, hx.Pick(r, [][]string{{"log"}, {"a", "b"}, {"message"}, {"t"}}), v)
		do("json-decode-random", 46, "json_decode_do", cf, t)
	}

	// ---- 47 convert_log_level
	lvVals := []hx.Sx{sxStr("info"), sxStr(" WARN\t"), sxStr("3"), sxNum("3"), sxNum("8"), sxStr("nope"), sxStr(""), hx.I(0), hx.L(hx.I(1), hx.I(1)),
		sxObj(kv("x", sxNum("1"))), sxArr(sxNum("5")), sxStr("DPANIC"), sxStr("Informational")}
	var lvCfgs []string
	for _, f := range []string{"", "a.b", "a.0"} {
		for _, style := range []string{"number", "string"} {
			for _, def := range []string{"", "info", "nonsense"} {
				for _, rof := range []bool{false, true} {
					cf := fmt.Sprintf(`{"style":%q,"default_level":%q,"remove_on_fail":%v`, style, def, rof)
					if f != "" {
						cf += `,"field":` + jq(f)
					}
					lvCfgs = append(lvCfgs, cf+"}")
				}
			}
		}
	}
	lvTrees := []hx.Sx{sxObj(), sxObj(kv("a", sxNum("1"))), sxObj(kv("a", sxArr())), sxArr(), sxNum("1"),
		sxObj(kv("level", sxObj()), kv("a", sxObj(kv("b", sxObj()))))}
	for _, cf := range lvCfgs {
		for _, v := range lvVals {
			do("log-level-exhaustive", 47, "convert_log_level_do", cf, sxObj(kv("x", vNum), kv("level", v), kv("a", sxObj(kv("b", v), kv("c", vNum)))))
			do("log-level-exhaustive", 47, "convert_log_level_do", cf, sxObj(kv("a", sxArr(v, vNum))))
		}
		for _, t := range lvTrees {
			do("log-level-exhaustive", 47, "convert_log_level_do", cf, t)
		}
	}
	for i := 0; i < 300*c.Scale; i++ {
		t := ag.tree()
		if r.Chance(2, 3) {
			t = withField(t, hx.Pick(r, [][]string{{"level"}, {"a", "b"}}), hx.Pick(r, lvVals))
		}
		do("log-level-random", 47, "convert_log_level_do", hx.Pick(r, lvCfgs), t)
	}

	// ---- 48 one-step plugins
	one := func(stream string, tag int, name, cfgJSON string, t hx.Sx, source string) hx.Sx {
		obs := c.Do(stream, 48, hx.L(hx.I(tag), hx.S(cfgJSON), t, hx.S(source)), true)
		outChanged(c, name, t, last(obs))
		return obs
	}
	var stCfgs []string
	for _, f := range []string{"", "a", "a.b", "0"} {
		for _, format := range []string{"", "unixtime", "unixtimenano", "timestampmilli", "2006-01-02", "rfc822", "timestampmicro"} {
			for _, ov := range []string{"", "false"} {
				var parts []string
				if f != "" {
					parts = append(parts, `"field":`+jq(f))
				}
				if format != "" {
					parts = append(parts, `"format":`+jq(format))
				}
				if ov != "" {
					parts = append(parts, `"override":`+ov)
				}
				stCfgs = append(stCfgs, "{"+strings.Join(parts, ",")+"}")
			}
		}
	}
	oneTrees := []hx.Sx{sxObj(), sxObj(kv("a", vNum)), sxObj(kv("time", vStr), kv("a", vObj)), sxObj(kv("a", vObj), kv("a.b", vNum), kv("time", vArr)),
		sxArr(vNum, vStr), vStr, sxObj(kv("host", vObj2), kv("file_name", vNum)), sxObj(kv("a", sxArr(vObj)), kv("0", vNum))}
	setTime := func(stream, cf string, t hx.Sx) {
		obs := hx.Items(one(stream, 0, "set_time_do", cf, t, "src"))
		// oracle: what the action wrote is a reading of the clock in the configured format
		if v := hx.Items(obs[3]); len(v) == 2 && hx.IsList(v[1]) && hx.Str(hx.Items(v[1])[1]) != "<the clock reading>" {
			n := hx.Items(v[1])
			format, text := hx.Str(obs[2]), hx.Str(n[1])
			ok := false
			lo, hi := setTimeWindow[0], setTimeWindow[1]
			num := func(a, b int64) bool {
				x, err := strconv.ParseInt(text, 10, 64)
				return hx.Int(n[0]) == 2 && err == nil && a <= x && x <= b
			}
			switch format {
			case "unixtime":
				ok = num(lo.Unix(), hi.Unix())
			case "unixtimemilli", "timestampmilli":
				ok = num(lo.UnixMilli(), hi.UnixMilli())
			case "unixtimemicro", "timestampmicro":
				ok = num(lo.UnixMicro(), hi.UnixMicro())
			case "unixtimenano", "timestampnano":
				ok = num(lo.UnixNano(), hi.UnixNano())
			default:
				// (a layout may drop the year, the seconds or the zone: the text must be what the layout makes of
				// one of the two readings around Do, or parse back with the layout to itself)
				pt, perr := time.Parse(format, text)
				ok = hx.Int(n[0]) == 3 && (text == lo.Format(format) || text == hi.Format(format) || (perr == nil && pt.Format(format) == text))
			}
			c.W.Oracle("set_time writes a reading of the clock taken during Do, in the configured format", ok, format+" -> "+text)
		}
	}
	for _, cf := range stCfgs {
		for _, t := range oneTrees {
			setTime("set-time-exhaustive", cf, t)
		}
	}
	ahCfgs := []string{`{}`, `{"field":"a"}`, `{"field":"a.b"}`, `{"field":"0"}`}
	afCfgs := []string{`{}`, `{"field":"a"}`, `{"field":"a.b"}`, `{"field":"a.0.c"}`, `{"field":"a\\.b.c"}`}
	for _, t := range append(append([]hx.Sx(nil), oneTrees...), small[:40]...) {
		for _, cf := range ahCfgs {
			one("add-host-exhaustive", 1, "add_host_do", cf, t, "src")
		}
		for _, cf := range afCfgs {
			one("add-file-name-exhaustive", 2, "add_file_name_do", cf, t, hx.Pick(r, []string{"", "/var/log/x.log", "src\"q\\"}))
		}
		one("discard-debug-exhaustive", 4, "discard_do", `{}`, t, "src")
		one("discard-debug-exhaustive", 5, "debug_do", hx.Pick(r, []string{`{}`, `{"interval":"1s","first":2,"thereafter":3,"message":"sample"}`}), t, "src")
	}
	cdVals := []hx.Sx{sxStr("2021-06-22T16:24:27Z"), sxStr("2021-06-22T16:24:27.123456789+03:00"), sxStr("1624379067"), sxNum("1624379067"), sxNum("1624379067123"),
		sxStr("2021-06-22"), sxStr("nope"), sxStr(""), hx.I(0), sxNum("1.5"), sxNum("-1"), sxObj(kv("x", vNum)), sxArr(vNum), hx.L(hx.I(1), hx.I(0)), sxStr("Mon Jan  2 15:04:05 2006")}
	var cdCfgs []string
	for _, f := range []string{"", "a.b", "a.0"} {
		for _, src := range [][]string{nil, {"rfc3339nano", "rfc3339", "unixtime"}, {"2006-01-02", "unixtimemilli", "ansic"}, {"unixtimemilli", "unixtime", "unixtimemicro", "unixtimenano"}, {}} {
			for _, tgt := range []string{"", "rfc3339", "unixtimenano", "2006/01/02 15:04:05", "unixtimemilli", "unixtimemicro"} {
				for _, rof := range []bool{false, true} {
					parts := []string{fmt.Sprintf(`"remove_on_fail":%v`, rof)}
					if f != "" {
						parts = append(parts, `"field":`+jq(f))
					}
					if src != nil {
						parts = append(parts, `"source_formats":`+cfgList(src))
					}
					if tgt != "" {
						parts = append(parts, `"target_format":`+jq(tgt))
					}
					cdCfgs = append(cdCfgs, "{"+strings.Join(parts, ",")+"}")
				}
			}
		}
	}
	for ci, cf := range cdCfgs {
		for vi, v := range cdVals {
			if (ci+vi)%2 != 0 && !thorough {
				continue
			}
			one("convert-date-exhaustive", 3, "convert_date_do", cf, sxObj(kv("x", vNum), kv("time", v), kv("a", sxObj(kv("b", v), kv("c", vNum)))), "src")
			one("convert-date-exhaustive", 3, "convert_date_do", cf, sxObj(kv("a", sxArr(v, vNum))), "src")
		}
	}
	for i := 0; i < 200*c.Scale; i++ {
		t := ag.tree()
		setTime("set-time-random", hx.Pick(r, stCfgs), t)
		one("add-host-random", 1, "add_host_do", hx.Pick(r, append(ahCfgs, `{"field":"w3"}`, `{"field":"level"}`)), t, "src")
		one("add-file-name-random", 2, "add_file_name_do", hx.Pick(r, append(afCfgs, `{"field":"w3.x"}`, `{"field":"items.0"}`, `{"field":"level"}`)), t, tg.str())
		if r.Chance(2, 3) {
			t = withField(t, hx.Pick(r, [][]string{{"time"}, {"a", "b"}}), hx.Pick(r, cdVals))
		}
		one("convert-date-random", 3, "convert_date_do", hx.Pick(r, cdCfgs), t, "src")
		one("discard-debug-random", 4+r.Intn(2), "discard_debug_do", `{}`, t, "src")
	}

	// ---- 49 sequences on ONE instance
	esEvents := []hx.Sx{hx.I(0), sxObj(kv("index", sxObj())), sxObj(kv("x", vNum), kv("create", vNum)), sxObj(kv("update", hx.I(0))), sxObj(kv("delete", sxObj())), sxObj(kv("x", vNum))}
	esLen := 4
	if thorough {
		esLen = 5
	}
	var esRec func(evs []hx.Sx)
	esRec = func(evs []hx.Sx) {
		if len(evs) > 0 {
			c.Do("parse-es-exhaustive", 49, hx.L(hx.I(0), hx.S(`{}`), hx.L(evs...)), len(evs) >= 2)
		}
		if len(evs) < esLen {
			for _, e := range esEvents {
				esRec(append(append([]hx.Sx(nil), evs...), e))
			}
		}
	}
	esRec(nil)
	for i := 0; i < 150*c.Scale; i++ {
		var evs []hx.Sx
		for n := r.Range(1, 8); n > 0; n-- {
			switch r.Intn(4) {
			case 0:
				evs = append(evs, hx.Pick(r, esEvents))
			case 1:
				evs = append(evs, sxObj(kv(hx.Pick(r, []string{"index", "create", "update", "delete", "Index", "index ", ""}), ag.value(1)), kv("update", vNum)))
			default:
				t := ag.tree()
				if hx.IsInt(t) { // a null root reads as a time-out in the case syntax
					t = sxArr()
				}
				evs = append(evs, t)
			}
		}
		c.Do("parse-es-random", 49, hx.L(hx.I(0), hx.S(`{}`), hx.L(evs...)), true)
	}
	cardCfgs := []string{
		`{"key":["service"],"fields":["level"],"limit":2,"action":"discard"}`,
		`{"key":["service"],"fields":["level"],"limit":1,"action":"remove_fields"}`,
		`{"key":["a.b","service"],"fields":["message","level"],"limit":1,"action":"remove_fields","metric_prefix":"x"}`,
		`{"key":["service"],"fields":["message"],"limit":0}`,
		`{"key":["service"],"fields":["level","a.b"],"limit":-1,"action":"discard"}`,
		`{"key":["a.b","a_b"],"fields":["level"],"limit":2,"action":"discard"}`,
		`{"key":["service",""],"fields":["level","","items.0"],"limit":1,"action":"remove_fields"}`,
		`{"key":["service"],"fields":["level"],"limit":1}`,
	}
	cardEv := func() hx.Sx {
		var fs []hx.Sx
		if r.Chance(5, 6) {
			fs = append(fs, kv("service", hx.Pick(r, []hx.Sx{sxStr("a"), sxStr("b"), sxStr("a][level:q"), sxNum("1"), sxObj(), hx.I(0)})))
		}
		if r.Chance(5, 6) {
			fs = append(fs, kv("level", hx.Pick(r, []hx.Sx{sxStr("x"), sxStr("y"), sxStr("z"), sxStr("q][level:x"), sxNum("3"), sxArr(vNum)})))
		}
		if r.Chance(1, 2) {
			fs = append(fs, kv("message", hx.Pick(r, []hx.Sx{sxStr("m"), sxStr("n"), sxStr("")})))
		}
		if r.Chance(1, 3) {
			fs = append(fs, kv("a", sxObj(kv("b", hx.Pick(r, []hx.Sx{sxStr("k"), sxStr("l")})))))
		}
		if r.Chance(1, 6) {
			fs = append(fs, kv("items", sxArr(vStr, vNum)), kv("a_b", sxStr("k")))
		}
		shuffle(r, fs)
		return sxObj(fs...)
	}
	for i := 0; i < 400*c.Scale; i++ {
		var evs []hx.Sx
		for n := r.Range(2, 7); n > 0; n-- {
			evs = append(evs, cardEv())
		}
		if r.Chance(1, 10) {
			evs = append(evs, sxArr(vObj), vStr)
		}
		c.Do("cardinality-seq", 49, hx.L(hx.I(1), hx.S(hx.Pick(r, cardCfgs)), hx.L(evs...)), true)
	}
}

// dedupe: the object without later occurrences of a key
func dedupe(t hx.Sx) hx.Sx {
	seen := map[string]bool{}
	out := []hx.Sx{hx.I(5)}
	for _, f := range hx.Items(t)[1:] {
		k := hx.Str(hx.Items(f)[0])
		if !seen[k] {
			seen[k] = true
			out = append(out, f)
		}
	}
	return hx.L(out...)
}
