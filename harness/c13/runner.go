package main

// The driver of the generic layer: a miniature of processor.doActions / Propagate / Spawn
// (pipeline/processor.go) over a chain of REAL plugin instances. It calls Do directly, exactly as
// the processor goroutine does (no recover there), and observes per Do:
//   * the ActionResult is one of the five defined values,
//   * no panic / no Fatal (which would exit the collector),
//   * an event that goes on (Pass / Break / Propagate / Spawn child) still encodes, the encoding is
//     valid JSON (encoding/json.Valid), insane-json re-parses it, and the re-parsed tree equals the
//     tree the plugin left (walked through the node arrays, not through the encoder's links),
//   * LATE: every event that reached the output is encoded again after the whole sequence and must
//     give the same bytes (a plugin that keeps an alias of a reused buffer in the event fails here).
// A time-out event is delivered only to the first busy action (Hold / Collapse before), as the
// repaired processor does.
//
// The event list of a case:
//   0                      time-out
//   (text size)            one input event; text = #bytes | (part ...), part = #bytes | (count #unit)
//                          (the repeat form keeps 5 KiB keys, 64 KiB values, 10001-deep nestings small on the case line)
//   (text size cap)        the same with the capacity of event.Buf the event arrives with: -1 = nil (a
//                          brand-new pooled event), else make([]byte, 0, cap); default 512
//   (1 capacity avg lag)   directive: the events of this case come from the REAL event pool
//                          (pipeline.VerifNewEventPool(capacity, avg)): get(size), Root.DecodeBytes into the
//                          recycled Root as pipeline.In does, back (= resetEvent: ReleaseBufMem above avg,
//                          Buf dropped above 4096, ReleasePoolMem above 64 nodes) on Discard / Collapse
//                          and when an event that reached the output is committed, `lag` input events later;
//                          avg = 0: the low-memory pool instead (one sync.Pool per size class, plain reset)
//   (2 ms)                 directive: the collector's coarse clock (xtime) jumps ms milliseconds ahead
//   (4 ms)                 directive: the case sleeps ms milliseconds (at most 1500)
//   (6 #key #value)        directive: a key of the in-process redis is set (throttle's redis back end reads its limits there)
//   (7 #content)           directive: the content of the limits file when the throttle action starts
//   (3)                    directive: TWO instances of every plugin of the chain, started from ONE config
//                          object (as the processors of one pipeline are), run the event list concurrently
//                          on two goroutines

import (
	"bytes"
	"encoding/json"
	"fmt"
	"os"
	"path/filepath"
	"runtime/debug"
	"sync"
	"sync/atomic"
	"time"
	"unsafe"

	"github.com/ozontech/file.d/pipeline"
	"github.com/ozontech/file.d/xtime"
	insaneJSON "github.com/ozontech/insane-json"

	"verif/harness/hx"
)

const (
	obsOK        = 1
	obsPanic     = 2 // run-time panic inside Do
	obsBadResult = 3 // ActionResult outside the defined five
	obsBadJSON   = 4 // the event no longer encodes to valid JSON / does not re-parse to the same tree
	obsLate      = 5 // an event already handed on changed afterwards
	obsFatal     = 6 // logger.Fatal inside Do: the collector would exit
	obsConfig    = 7 // configuration rejected (never generated on purpose; replay of an edited case)
)

type outEvent struct {
	ev  *pipeline.Event
	enc []byte // nil: the parent of spawned children (never encoded)
	at  int    // index of the input event during which it left
}

// poolRun: the state of a case whose events come from the real event pool
type poolRun struct {
	pool    pipeline.VerifPool
	lag     int
	avgSize int
	seen    map[*pipeline.Event]bool               // pool objects already handed out once
	kids    map[*pipeline.Event][]*insaneJSON.Root // roots of the children spawned from a pooled parent
}

type chainRun struct {
	acts  []pipeline.ActionPlugin
	types []string
	busy  []bool
	roots []*insaneJSON.Root
	outs  []outEvent
	cur   int
	viol  hx.Sx // first violation
	stats map[string]int
	pm    *poolRun // nil: a fresh Event + Root per input event
	// the per-processor streams (procs.go): light = the per-Do re-parse / buffer poisoning is left to the other
	// streams (thousands of Do calls per case); onOut receives every event that leaves the chain and its encoding
	light bool
	onOut func(e *pipeline.Event, enc []byte)
}

type chainCtl struct {
	r *chainRun
	k int
}

func (c *chainCtl) Propagate(e *pipeline.Event) {
	r := c.r
	r.stats["propagate"]++
	r.busy[c.k] = false
	if r.viol != nil {
		return
	}
	if !r.checkEvent(e, c.k, "propagated") {
		return
	}
	if r.doActions(e, c.k+1) {
		r.out(e)
	}
}

func (c *chainCtl) Spawn(parent *pipeline.Event, nodes []*insaneJSON.Node) {
	r := c.r
	r.stats["spawn"]++
	parent.SetChildParentKind()
	for _, node := range nodes {
		if r.viol != nil {
			return
		}
		root := insaneJSON.Spawn()
		if r.pm != nil {
			r.pm.kids[parent] = append(r.pm.kids[parent], root) // released when the parent goes back to the pool (Pipeline.finalize)
		} else {
			r.roots = append(r.roots, root)
		}
		child := &pipeline.Event{Root: root, SourceName: parent.SourceName}
		child.Root.MutateToNode(node)
		child.SetChildKind()
		if !r.checkEvent(child, c.k, "spawned child") {
			return
		}
		if r.doActions(child, c.k+1) {
			r.out(child)
		}
	}
	for i, b := range r.busy {
		if b && r.viol == nil {
			t := &pipeline.Event{SourceName: "timeout"}
			t.SetTimeoutKind()
			r.doActions(t, i)
		}
	}
}

func (c *chainCtl) IncMaxEventSizeExceeded(...string) { c.r.stats["inc_max_event_size"]++ }

func (r *chainRun) violate(code int, detail string) {
	if r.viol == nil {
		if len(detail) > 160 {
			detail = detail[:160]
		}
		r.viol = hx.L(hx.I(code), hx.S(detail))
	}
}

func (r *chainRun) out(e *pipeline.Event) {
	if e.Root == nil {
		return
	}
	if e.IsChildParentKind() {
		if r.pm != nil { // goes through the output like any event and is committed behind its children
			r.outs = append(r.outs, outEvent{ev: e, at: r.cur})
		}
		return
	}
	r.outs = append(r.outs, outEvent{ev: e, enc: e.Root.Encode(nil), at: r.cur})
	if r.onOut != nil {
		r.onOut(e, r.outs[len(r.outs)-1].enc)
	}
}

// commit: the first n events that reached the output are acknowledged. LATE observation: each is
// encoded once more and must give the bytes it had when it left the chain. In pool mode the event then
// goes back to the pool (Pipeline.finalize: children's roots released, eventPool.back = resetEvent).
func (r *chainRun) commit(n int) {
	for _, o := range r.outs[:n] {
		if r.viol == nil && o.enc != nil {
			var again []byte
			if msg := hx.Catch(func() { again = o.ev.Root.Encode(nil) }); msg != "" {
				r.violate(obsLate, fmt.Sprintf("event %d: late encoding: %s", o.at, msg))
			} else if !bytes.Equal(again, o.enc) {
				r.violate(obsLate, fmt.Sprintf("event %d was %s, later %s", o.at, clipStr(string(o.enc), 60), clipStr(string(again), 60)))
			}
		}
		r.back(o.ev)
	}
	r.outs = append(r.outs[:0], r.outs[n:]...)
}

// back mirrors Pipeline.finalize(event, _, backEvent = true): time-out and child events are not pooled
func (r *chainRun) back(e *pipeline.Event) {
	if r.pm == nil || e.Root == nil || e.IsTimeoutKind() || e.IsChildKind() {
		return
	}
	for _, root := range r.pm.kids[e] {
		insaneJSON.Release(root)
	}
	delete(r.pm.kids, e)
	r.stats["pool_back"]++
	if r.pm.avg() == 0 {
		r.stats["pool_back_low_memory_pool"]++
		r.pm.pool.Back(e)
		return
	}
	if e.Size > r.pm.avg() {
		r.stats["pool_back_ReleaseBufMem"]++
	}
	if cap(e.Buf) > 4096 {
		r.stats["pool_back_Buf_above_4096_dropped"]++
	}
	if e.Root.PoolSize() > pipeline.DefaultJSONNodePoolSize*4 {
		r.stats["pool_back_ReleasePoolMem"]++
	} else if e.Root.PoolSize() > pipeline.DefaultJSONNodePoolSize {
		r.stats[fmt.Sprintf("pool_back_node_pool_kept_%d", e.Root.PoolSize())]++
	}
	r.pm.pool.Back(e)
}

// checkEvent: the event still is a well-formed JSON document that encodes and re-parses.
func (r *chainRun) checkEvent(e *pipeline.Event, k int, when string) bool {
	if e.Root == nil || r.light {
		return true
	}
	if e.IsChildParentKind() {
		// the parent of spawned children is never encoded (pipeline.Batch.ForEach and, after
		// fixes/C13-stdout-split-parent.patch, the stdout output skip it): its tree went to the children
		r.stats["parent_of_spawned_children_not_encoded"]++
		return true
	}
	if !encodeTerminates(e.Root.Node, 5_000_000) {
		// (a cycle in the links the encoder follows: the real Encode would append for ever and could not be stopped)
		r.violate(obsBadJSON, r.types[k]+": encoding the "+when+" event does not terminate: the node links form a cycle")
		return false
	}
	var enc []byte
	var tree hx.Sx
	if msg := hx.Catch(func() { enc = e.Root.Encode(nil); tree = hx.JSON(e.Root.Node) }); msg != "" {
		r.violate(obsBadJSON, r.types[k]+": encoding the "+when+" event: "+msg)
		return false
	}
	if !json.Valid(enc) {
		// encoding/json refuses documents nested deeper than 10000 although the grammar has no such
		// limit: for those only the re-parse below judges
		if nestingDepth(enc) <= 9990 {
			r.violate(obsBadJSON, r.types[k]+": "+when+" event is not valid JSON: "+clipStr(string(enc), 80))
			return false
		}
		r.stats["event_deeper_than_encoding_json_accepts"]++
	}
	back := insaneJSON.Spawn()
	defer insaneJSON.Release(back)
	if err := back.DecodeBytes(enc); err != nil {
		r.violate(obsBadJSON, r.types[k]+": "+when+" event does not re-parse: "+clipStr(string(enc), 80))
		return false
	}
	// (equal trees are equal after normalisation: the normalisation only runs when they differ)
	if bt := hx.JSON(back.Node); hx.String(bt) != hx.String(tree) && normTree(bt) != normTree(tree) {
		r.violate(obsBadJSON, r.types[k]+": "+when+" event re-parses to another tree: "+clipStr(string(enc), 80))
		return false
	}
	return true
}

// nodeMirror has the layout of insaneJSON.Node (insane-json v0.1.9 insane.go:121): the encoder walks the
// unexported next / parent links, and a tree left inconsistent by an action (recorded finding
// C13-move-block-stale-index) can close them into a cycle, on which Encode appends for ever.
type nodeMirror struct {
	bits   uint64
	data   string
	next   *nodeMirror
	parent *nodeMirror
	nodes  []*nodeMirror
	fields *map[string]int
}

const (
	mirObject, mirEnd, mirArray, mirArrayEnd = 1 << 0, 1 << 1, 1 << 2, 1 << 3
	mirTypeFilter                            = 1<<11 - 1
)

// encodeTerminates replays the control flow of (*Node).Encode (insane.go:609-706) without producing
// output and gives up after `budget` nodes; a nil link ends the walk (the real Encode then panics, which
// hx.Catch reports).
func encodeTerminates(n *insaneJSON.Node, budget int) (ok bool) {
	defer func() {
		if recover() != nil {
			ok = true
		}
	}()
	cur := (*nodeMirror)(unsafe.Pointer(n))
	top := cur
	s := 0
	if len(cur.nodes) == 0 && cur.bits&(mirObject|mirArray) != 0 {
		return true
	}
	for ; budget > 0; budget-- {
		popSkip := false
		switch cur.bits & mirTypeFilter {
		case mirObject:
			if len(cur.nodes) == 0 {
				cur = cur.next
				popSkip = true
				break
			}
			top = cur
			cur = cur.nodes[0].next
			s++
			continue
		case mirArray:
			if len(cur.nodes) == 0 {
				cur = cur.next
				popSkip = true
				break
			}
			top = cur
			cur = cur.nodes[0]
			s++
			continue
		}
		if !popSkip {
			cur = cur.next
		}
		for { // popSkip: close every container that ends here
			var end uint64
			switch {
			case top.bits&mirArray != 0:
				end = mirArrayEnd
			case top.bits&mirObject != 0:
				end = mirEnd
			default:
				return true
			}
			if cur.bits&end == 0 {
				break
			}
			cur = top
			top = top.parent
			s--
			if s == 0 {
				return true
			}
			cur = cur.next
			if budget--; budget <= 0 {
				return false
			}
		}
		if top.bits&mirArray == 0 { // object: cur is the next field, its value follows
			cur = cur.next
		}
	}
	return false
}

// normTree: the tree up to the encoding. insane-json's encoder writes an invalid UTF-8 byte as
// \ufffd when the string needs escaping at all and verbatim otherwise; both read back as "some
// replacement of the bad byte", so bad bytes and U+FFFD are identified.
func normTree(v hx.Sx) string {
	var rec func(v hx.Sx) hx.Sx
	rec = func(v hx.Sx) hx.Sx {
		switch {
		case hx.IsBytes(v):
			return hx.S(string([]rune(hx.Str(v))))
		case hx.IsList(v):
			it := hx.Items(v)
			out := make([]hx.Sx, len(it))
			for i, x := range it {
				out[i] = rec(x)
			}
			return hx.L(out...)
		}
		return v
	}
	return hx.String(rec(v))
}

// checkBufAlias: the spare capacity of event.Buf belongs to whoever appends next (the next action
// of the chain). An event that changes when those bytes are overwritten holds a node whose data
// lies beyond len(event.Buf): the plugin appended to a copy of the slice header and did not store it.
func (r *chainRun) checkBufAlias(e *pipeline.Event, k int) bool {
	if r.light || e.Root == nil || e.IsChildParentKind() || cap(e.Buf) == len(e.Buf) {
		return true
	}
	before := e.Root.Encode(nil)
	spare := e.Buf[len(e.Buf):cap(e.Buf)]
	saved := append([]byte(nil), spare...)
	for i := range spare {
		spare[i] = '#'
	}
	after := e.Root.Encode(nil)
	copy(spare, saved)
	if !bytes.Equal(before, after) {
		r.violate(obsLate, fmt.Sprintf("%s: the event keeps data in the unclaimed capacity of event.Buf: %s becomes %s", r.types[k], clipStr(string(before), 50), clipStr(string(after), 50)))
		return false
	}
	return true
}

// nestingDepth: deepest [ / { nesting outside strings
func nestingDepth(b []byte) int {
	d, mx, inStr := 0, 0, false
	for i := 0; i < len(b); i++ {
		switch c := b[i]; {
		case inStr && c == '\\':
			i++
		case c == '"':
			inStr = !inStr
		case inStr:
		case c == '[' || c == '{':
			d++
			if d > mx {
				mx = d
			}
		case c == ']' || c == '}':
			d--
		}
	}
	return mx
}

func clipStr(s string, n int) string {
	if len(s) > n {
		return s[:n] + "..."
	}
	return s
}

// doActions mirrors processor.doActions (no match conditions); true = the event passed to the output.
func (r *chainRun) doActions(e *pipeline.Event, from int) bool {
	for k := from; k < len(r.acts); k++ {
		var res pipeline.ActionResult
		setFatal("")
		msg := hx.Catch(func() {
			if stackProbe != nil { // attribution run of main.go emit: where exactly did Do panic
				defer func() {
					if x := recover(); x != nil {
						stackProbe(fmt.Sprint(x) + "\n" + string(debug.Stack()))
						panic(x)
					}
				}()
			}
			res = r.acts[k].Do(e)
		})
		if fm := getFatal(); msg != "" && fm != "" {
			r.violate(obsFatal, r.types[k]+": Fatal: "+fm)
			return false
		}
		if msg != "" {
			r.violate(obsPanic, r.types[k]+": "+msg)
			return false
		}
		if r.viol != nil { // raised inside a nested Propagate / Spawn
			return false
		}
		r.stats[fmt.Sprintf("result_%d", int(res))]++
		switch res {
		case pipeline.ActionPass:
			r.busy[k] = false
			if !r.checkEvent(e, k, "passed") {
				return false
			}
			if !r.checkBufAlias(e, k) {
				return false
			}
		case pipeline.ActionBreak:
			r.busy[k] = false
			if !r.checkEvent(e, k, "broke") {
				return false
			}
			return true
		case pipeline.ActionDiscard:
			r.busy[k] = false
			r.back(e)
			return false
		case pipeline.ActionCollapse:
			r.busy[k] = true
			r.back(e)
			return false
		case pipeline.ActionHold:
			r.busy[k] = true
			return false
		default:
			r.violate(obsBadResult, fmt.Sprintf("%s: undefined ActionResult %d", r.types[k], int(res)))
			return false
		}
	}
	return true
}

func (r *chainRun) release() {
	for _, x := range r.roots {
		insaneJSON.Release(x)
	}
}

// the meta data the k8s input plugin attaches (pipeline.In: object -> fields, array -> fields of its
// object elements, anything else -> nothing)
func addK8sMeta(root *insaneJSON.Root) {
	kv := [][2]string{{"k8s_pod", string(k8sItem.PodName)}, {"k8s_namespace", string(k8sItem.Namespace)},
		{"k8s_container", string(k8sItem.ContainerName)}, {"k8s_container_id", string(k8sItem.ContainerID)}}
	if root.IsArray() {
		for _, el := range root.AsArray() {
			if el.IsObject() {
				for _, p := range kv {
					el.AddField(p[0]).MutateToString(p[1])
				}
			}
		}
		return
	}
	for _, p := range kv {
		pipeline.CreateNestedField(root, []string{p[0]}).MutateToString(p[1])
	}
}

// directive: (kind arg ...) with an integer head; 0 = not a directive
func directive(e hx.Sx) (int, []hx.Sx) {
	if !hx.IsList(e) {
		return 0, nil
	}
	it := hx.Items(e)
	if len(it) == 0 || !hx.IsInt(it[0]) {
		return 0, nil
	}
	return int(hx.Int(it[0])), it[1:]
}

// isInput: an input event (text size [cap])
func isInput(e hx.Sx) bool {
	if !hx.IsList(e) {
		return false
	}
	it := hx.Items(e)
	return len(it) >= 2 && !hx.IsInt(it[0])
}

// evText: the text of an input event; #bytes or a list of parts #bytes | (count #unit)
func evText(e hx.Sx) []byte {
	t := hx.Items(e)[0]
	if hx.IsBytes(t) {
		return hx.Bytes(t)
	}
	var out []byte
	for _, p := range hx.Items(t) {
		if hx.IsBytes(p) {
			out = append(out, hx.Bytes(p)...)
			continue
		}
		f := hx.Items(p)
		unit := hx.Bytes(f[1])
		for n := int(hx.Int(f[0])); n > 0; n-- {
			out = append(out, unit...)
		}
	}
	return out
}

// bigNodePool: attribution aid of main.go emit (never set while a case is recorded): every input Root
// gets a node pool of 512 before the event is decoded, so that no event of the generators comes near the
// end of its pool
var bigNodePool bool

// stackProbe: attribution aid of main.go emit: receives the panic value and the full stack of a panic inside Do
var stackProbe func(string)

var bigWarmDoc = wideObject(200, func(i int) string { return "0" })

// the virtual offset of the collector's coarse clock (xtime; its own ticker re-reads the wall clock
// once a second, which only moves a later expiry check inside a case and never the verdict)
var clockOffset atomic.Int64

func (pm *poolRun) avg() int { return pm.avgSize }

// poolGet: eventPool.get never waits here. When every pooled event is out, what the collector does next
// happens first: the output acknowledges what it has; if plugins still hold everything, the input stays
// silent and the stream's time-out is delivered to the busy action.
func (r *chainRun) poolGet(size int) *pipeline.Event {
	pm := r.pm
	full := func() bool { return pm.pool.InUse() >= int64(pm.pool.Capacity()) }
	if full() {
		r.commit(len(r.outs))
	}
	if full() && r.viol == nil {
		r.stats["pool_empty_timeout_to_busy_action"]++
		r.timeout()
		r.commit(len(r.outs))
	}
	if full() || r.viol != nil {
		return nil
	}
	e := pm.pool.Get(size)
	if bigNodePool {
		_ = e.Root.DecodeString(bigWarmDoc)
	} else if !pm.seen[e] {
		// a decoder born in a collector process has insaneJSON.StartNodePoolSize nodes; the ones this
		// harness process recycles through insane-json's own sync.Pool have whatever earlier cases grew
		pm.seen[e] = true
		e.Root.ReleasePoolMem()
	}
	return e
}

// timeout: the stream's time-out event goes to the first busy action only
func (r *chainRun) timeout() {
	first := -1
	for k, b := range r.busy {
		if b {
			first = k
			break
		}
	}
	if first < 0 {
		r.stats["timeout_skipped_nobody_busy"]++
		return
	}
	r.stats["timeout_delivered_"+r.types[first]]++
	r.doActions(timeoutEvent(), first)
}

// feed runs the event list through the chain
func (r *chainRun) feed(evs []hx.Sx, hasK8s bool) {
	for i, evx := range evs {
		if r.viol != nil {
			break
		}
		r.cur = i
		if hx.IsInt(evx) {
			r.timeout()
			continue
		}
		if kind, args := directive(evx); kind != 0 {
			if kind == 2 && len(args) == 1 {
				off := clockOffset.Add(hx.Int(args[0]) * int64(time.Millisecond))
				xtime.SetNowTime(time.Now().UnixNano() + off)
				r.stats["clock_advanced"]++
			}
			if kind == 6 && len(args) == 2 { // a key of the in-process redis (fakeredis.go)
				startFakeRedis().set(hx.Str(args[0]), hx.Str(args[1]))
				r.stats["redis_key_set"]++
			}
			if kind == 4 && len(args) == 1 { // the case really lasts that long (throttle reads the wall clock, not xtime)
				ms := hx.Int(args[0])
				if ms > 1500 {
					ms = 1500
				}
				time.Sleep(time.Duration(ms) * time.Millisecond)
				r.stats["slept"]++
			}
			continue
		}
		f := hx.Items(evx)
		text := evText(evx)
		var e *pipeline.Event
		if r.pm != nil {
			if e = r.poolGet(int(hx.Int(f[1]))); e == nil {
				r.stats["pool_empty_case_cut_short"]++
				break
			}
			if err := e.Root.DecodeBytes(text); err != nil {
				r.stats["event_not_decodable"]++
				r.pm.pool.Back(e) // pipeline.In: "Can't process event, return to pool"
				continue
			}
			e.SourceName, e.Offset = "k8s/x.log", int64(i)
		} else {
			root := insaneJSON.Spawn()
			r.roots = append(r.roots, root)
			if bigNodePool {
				_ = root.DecodeString(bigWarmDoc)
			} else {
				root.ReleasePoolMem() // as born in the collector: StartNodePoolSize nodes (see poolGet)
			}
			if err := root.DecodeBytes(text); err != nil {
				r.stats["event_not_decodable"]++
				continue
			}
			// a pooled event keeps the capacity of its Buf from its previous life (Event.reset: Buf[:0])
			bufCap := 512
			if len(f) > 2 {
				bufCap = int(hx.Int(f[2]))
			}
			var buf []byte
			if bufCap >= 0 {
				buf = make([]byte, 0, bufCap)
			}
			e = &pipeline.Event{Root: root, Buf: buf, Size: int(hx.Int(f[1])), SourceName: "k8s/x.log", SeqID: uint64(i + 1), Offset: int64(i)}
		}
		if hasK8s {
			addK8sMeta(e.Root)
		}
		if r.doActions(e, 0) {
			r.out(e)
		}
		if r.pm != nil && len(r.outs) > r.pm.lag {
			r.commit(len(r.outs) - r.pm.lag)
		}
	}
	r.commit(len(r.outs))
	if r.pm != nil {
		r.pm.pool.Stop()
	}
}

// execChain: case = ((plugin ...) (ev ...)); plugin = (#type #cfg-json (maxEventSize cutOff cutField));
// ev: see the head of this file
func execChain(cs hx.Sx, stats map[string]int) hx.Sx {
	it := hx.Items(cs)
	evs := hx.Items(it[1])
	var poolArgs []hx.Sx
	nRuns := 1
	for _, e := range evs {
		switch kind, args := directive(e); {
		case kind == 1 && len(args) == 3:
			poolArgs = args
		case kind == 3:
			nRuns = 2
		}
	}
	hasK8s := false
	var specs []*pluginSpec
	for k, pl := range hx.Items(it[0]) {
		f := hx.Items(pl)
		typ := hx.Str(f[0])
		st := &pipeline.Settings{AvgEventSize: 64, Capacity: 256}
		if len(f) > 2 {
			s := hx.Items(f[2])
			st.MaxEventSize = int(hx.Int(s[0]))
			st.CutOffEventByLimit = hx.Truth(s[1])
			if hx.Truth(s[2]) {
				st.CutOffEventByLimitField = "cutoff"
			}
			if len(s) > 3 && hx.Truth(s[3]) { // settings source_name_meta_field (the k8s multiline action reports a skipped line under it)
				st.SourceNameMetaField = []string{"", "k8s_pod", "log", "nope"}[int(hx.Int(s[3]))&3]
			}
		}
		sp, err := newSpec(typ, hx.Bytes(f[1]), st, k)
		if err != "" {
			return hx.L(hx.I(obsConfig), hx.S(typ+": "+err))
		}
		specs = append(specs, sp)
		if typ == "k8s-multiline" {
			hasK8s = true
		}
		if sp.limitsFile != "" {
			// (registered before the Stop of the instances: runs after them)
			defer func(file string) {
				os.Remove(file)
				if tmp, _ := filepath.Glob(file + ".*"); len(tmp) > 0 {
					for _, t := range tmp {
						os.Remove(t)
					}
				}
			}(sp.limitsFile)
			for _, e := range evs { // directive (7 #content): what the limits file holds when the action starts
				if kind, args := directive(e); kind == 7 && len(args) == 1 {
					_ = os.WriteFile(sp.limitsFile, hx.Bytes(args[0]), 0o600)
				}
			}
		}
	}
	if theFakeRedis != nil {
		theFakeRedis.reset()
	}
	clockOffset.Store(0)
	defer func() {
		if clockOffset.Load() != 0 {
			xtime.SetNowTime(time.Now().UnixNano())
		}
	}()
	runs := make([]*chainRun, nRuns)
	for i := range runs {
		r := &chainRun{stats: stats}
		if nRuns > 1 {
			r.stats = map[string]int{}
		}
		defer r.release()
		if poolArgs != nil {
			capacity, avg := int(hx.Int(poolArgs[0])), int(hx.Int(poolArgs[1]))
			pool := pipeline.VerifNewEventPool(capacity, avg, time.Hour)
			if avg == 0 { // the low-memory pool (settings pool: low_memory): one sync.Pool per size class bits.Len(size), plain reset on back
				pool = pipeline.VerifNewLowMemoryEventPool(capacity, time.Hour)
			}
			r.pm = &poolRun{pool: pool, avgSize: avg, lag: int(hx.Int(poolArgs[2])),
				seen: map[*pipeline.Event]bool{}, kids: map[*pipeline.Event][]*insaneJSON.Root{}}
		}
		for k, sp := range specs {
			p, err := sp.start(&chainCtl{r: r, k: k})
			if err != "" {
				return hx.L(hx.I(obsConfig), hx.S(sp.typ+": "+err))
			}
			defer p.Stop()
			r.acts = append(r.acts, p)
			r.types = append(r.types, sp.typ)
			r.busy = append(r.busy, false)
		}
		runs[i] = r
	}
	if nRuns == 1 {
		runs[0].feed(evs, hasK8s)
	} else {
		var wg sync.WaitGroup
		for _, r := range runs {
			wg.Add(1)
			go func(r *chainRun) {
				defer wg.Done()
				// a panic of the harness' own code (outside hx.Catch) must not be mistaken for a pass
				defer func() {
					if x := recover(); x != nil {
						r.violate(obsPanic, "twin goroutine: "+fmt.Sprint(x))
					}
				}()
				r.feed(evs, hasK8s)
			}(r)
		}
		wg.Wait()
		for _, r := range runs {
			for k, v := range r.stats {
				stats[k] += v
			}
		}
	}
	for _, r := range runs {
		if r.viol != nil {
			return r.viol
		}
	}
	return hx.L(hx.I(obsOK))
}

func settingsOf(s [3]int) *pipeline.Settings {
	st := &pipeline.Settings{AvgEventSize: 64, Capacity: 256, MaxEventSize: s[0], CutOffEventByLimit: s[1] != 0}
	if s[2] != 0 {
		st.CutOffEventByLimitField = "cutoff"
	}
	return st
}

func timeoutEvent() *pipeline.Event {
	t := &pipeline.Event{SourceName: "timeout"}
	t.SetTimeoutKind()
	return t
}
