package main

// The driver of the generic layer: a miniature of processor.doActions / Propagate / Spawn
// (pipeline/processor.go) over a chain of REAL plugin instances. It calls Do directly, exactly as
// the processor goroutine does (no recover there), and observes per Do:
//   * the ActionResult is one of the five defined values,
//   * no panic / no Fatal (which would exit the collector),
//   * an event that goes on (Pass / Break / Propagate / Spawn child) still encodes, the encoding is
//     valid JSON (encoding/json.Valid), insane-json re-parses it, and the re-parsed tree equals the
//     tree the plugin left (walked through the node arrays, not through the encoder's links),
//   * LATE: every event that reached the output is encoded again after the whole sequence and must
//     give the same bytes (a plugin that keeps an alias of a reused buffer in the event fails here).
// A time-out event is delivered only to the first busy action (Hold / Collapse before), as the
// repaired processor does.

import (
	"bytes"
	"encoding/json"
	"fmt"

	"github.com/ozontech/file.d/pipeline"
	insaneJSON "github.com/ozontech/insane-json"

	"verif/harness/hx"
)

const (
	obsOK        = 1
	obsPanic     = 2 // run-time panic inside Do
	obsBadResult = 3 // ActionResult outside the defined five
	obsBadJSON   = 4 // the event no longer encodes to valid JSON / does not re-parse to the same tree
	obsLate      = 5 // an event already handed on changed afterwards
	obsFatal     = 6 // logger.Fatal inside Do: the collector would exit
	obsConfig    = 7 // configuration rejected (never generated on purpose; replay of an edited case)
)

type outEvent struct {
	ev  *pipeline.Event
	enc []byte
	at  int // index of the input event during which it left
}

type chainRun struct {
	acts  []pipeline.ActionPlugin
	types []string
	busy  []bool
	roots []*insaneJSON.Root
	outs  []outEvent
	cur   int
	viol  hx.Sx // first violation
	stats map[string]int
}

type chainCtl struct {
	r *chainRun
	k int
}

func (c *chainCtl) Propagate(e *pipeline.Event) {
	r := c.r
	r.stats["propagate"]++
	r.busy[c.k] = false
	if r.viol != nil {
		return
	}
	if !r.checkEvent(e, c.k, "propagated") {
		return
	}
	if r.doActions(e, c.k+1) {
		r.out(e)
	}
}

func (c *chainCtl) Spawn(parent *pipeline.Event, nodes []*insaneJSON.Node) {
	r := c.r
	r.stats["spawn"]++
	parent.SetChildParentKind()
	for _, node := range nodes {
		if r.viol != nil {
			return
		}
		root := insaneJSON.Spawn()
		r.roots = append(r.roots, root)
		child := &pipeline.Event{Root: root, SourceName: parent.SourceName}
		child.Root.MutateToNode(node)
		child.SetChildKind()
		if !r.checkEvent(child, c.k, "spawned child") {
			return
		}
		if r.doActions(child, c.k+1) {
			r.out(child)
		}
	}
	for i, b := range r.busy {
		if b && r.viol == nil {
			t := &pipeline.Event{SourceName: "timeout"}
			t.SetTimeoutKind()
			r.doActions(t, i)
		}
	}
}

func (c *chainCtl) IncMaxEventSizeExceeded(...string) { c.r.stats["inc_max_event_size"]++ }

func (r *chainRun) violate(code int, detail string) {
	if r.viol == nil {
		if len(detail) > 160 {
			detail = detail[:160]
		}
		r.viol = hx.L(hx.I(code), hx.S(detail))
	}
}

func (r *chainRun) out(e *pipeline.Event) {
	if e.Root == nil || e.IsChildParentKind() {
		return
	}
	r.outs = append(r.outs, outEvent{ev: e, enc: e.Root.Encode(nil), at: r.cur})
}

// checkEvent: the event still is a well-formed JSON document that encodes and re-parses.
func (r *chainRun) checkEvent(e *pipeline.Event, k int, when string) bool {
	if e.Root == nil {
		return true
	}
	if e.IsChildParentKind() {
		// the parent of spawned children is never encoded (pipeline.Batch.ForEach and, after
		// fixes/C13-stdout-split-parent.patch, the stdout output skip it): its tree went to the children
		r.stats["parent_of_spawned_children_not_encoded"]++
		return true
	}
	var enc []byte
	var tree hx.Sx
	if msg := hx.Catch(func() { enc = e.Root.Encode(nil); tree = hx.JSON(e.Root.Node) }); msg != "" {
		r.violate(obsBadJSON, r.types[k]+": encoding the "+when+" event: "+msg)
		return false
	}
	if !json.Valid(enc) {
		r.violate(obsBadJSON, r.types[k]+": "+when+" event is not valid JSON: "+clipStr(string(enc), 80))
		return false
	}
	back := insaneJSON.Spawn()
	defer insaneJSON.Release(back)
	if err := back.DecodeBytes(enc); err != nil {
		r.violate(obsBadJSON, r.types[k]+": "+when+" event does not re-parse: "+clipStr(string(enc), 80))
		return false
	}
	if normTree(hx.JSON(back.Node)) != normTree(tree) {
		r.violate(obsBadJSON, r.types[k]+": "+when+" event re-parses to another tree: "+clipStr(string(enc), 80))
		return false
	}
	return true
}

// normTree: the tree up to the encoding. insane-json's encoder writes an invalid UTF-8 byte as
// \ufffd when the string needs escaping at all and verbatim otherwise; both read back as "some
// replacement of the bad byte", so bad bytes and U+FFFD are identified.
func normTree(v hx.Sx) string {
	var rec func(v hx.Sx) hx.Sx
	rec = func(v hx.Sx) hx.Sx {
		switch {
		case hx.IsBytes(v):
			return hx.S(string([]rune(hx.Str(v))))
		case hx.IsList(v):
			it := hx.Items(v)
			out := make([]hx.Sx, len(it))
			for i, x := range it {
				out[i] = rec(x)
			}
			return hx.L(out...)
		}
		return v
	}
	return hx.String(rec(v))
}

// checkBufAlias: the spare capacity of event.Buf belongs to whoever appends next (the next action
// of the chain). An event that changes when those bytes are overwritten holds a node whose data
// lies beyond len(event.Buf): the plugin appended to a copy of the slice header and did not store it.
func (r *chainRun) checkBufAlias(e *pipeline.Event, k int) bool {
	if e.Root == nil || e.IsChildParentKind() || cap(e.Buf) == len(e.Buf) {
		return true
	}
	before := e.Root.Encode(nil)
	spare := e.Buf[len(e.Buf):cap(e.Buf)]
	saved := append([]byte(nil), spare...)
	for i := range spare {
		spare[i] = '#'
	}
	after := e.Root.Encode(nil)
	copy(spare, saved)
	if !bytes.Equal(before, after) {
		r.violate(obsLate, fmt.Sprintf("%s: the event keeps data in the unclaimed capacity of event.Buf: %s becomes %s", r.types[k], clipStr(string(before), 50), clipStr(string(after), 50)))
		return false
	}
	return true
}

func clipStr(s string, n int) string {
	if len(s) > n {
		return s[:n] + "..."
	}
	return s
}

// doActions mirrors processor.doActions (no match conditions); true = the event passed to the output.
func (r *chainRun) doActions(e *pipeline.Event, from int) bool {
	for k := from; k < len(r.acts); k++ {
		var res pipeline.ActionResult
		fatalMsg = ""
		msg := hx.Catch(func() { res = r.acts[k].Do(e) })
		if msg != "" && fatalMsg != "" {
			r.violate(obsFatal, r.types[k]+": Fatal: "+fatalMsg)
			return false
		}
		if msg != "" {
			r.violate(obsPanic, r.types[k]+": "+msg)
			return false
		}
		if r.viol != nil { // raised inside a nested Propagate / Spawn
			return false
		}
		r.stats[fmt.Sprintf("result_%d", int(res))]++
		switch res {
		case pipeline.ActionPass:
			r.busy[k] = false
			if !r.checkEvent(e, k, "passed") {
				return false
			}
			if !r.checkBufAlias(e, k) {
				return false
			}
		case pipeline.ActionBreak:
			r.busy[k] = false
			if !r.checkEvent(e, k, "broke") {
				return false
			}
			return true
		case pipeline.ActionDiscard:
			r.busy[k] = false
			return false
		case pipeline.ActionCollapse:
			r.busy[k] = true
			return false
		case pipeline.ActionHold:
			r.busy[k] = true
			return false
		default:
			r.violate(obsBadResult, fmt.Sprintf("%s: undefined ActionResult %d", r.types[k], int(res)))
			return false
		}
	}
	return true
}

func (r *chainRun) release() {
	for _, x := range r.roots {
		insaneJSON.Release(x)
	}
}

// the meta data the k8s input plugin attaches (pipeline.In: object -> fields, array -> fields of its
// object elements, anything else -> nothing)
func addK8sMeta(root *insaneJSON.Root) {
	kv := [][2]string{{"k8s_pod", string(k8sItem.PodName)}, {"k8s_namespace", string(k8sItem.Namespace)},
		{"k8s_container", string(k8sItem.ContainerName)}, {"k8s_container_id", string(k8sItem.ContainerID)}}
	if root.IsArray() {
		for _, el := range root.AsArray() {
			if el.IsObject() {
				for _, p := range kv {
					el.AddField(p[0]).MutateToString(p[1])
				}
			}
		}
		return
	}
	for _, p := range kv {
		pipeline.CreateNestedField(root, []string{p[0]}).MutateToString(p[1])
	}
}

// execChain: case = ((plugin ...) (ev ...)); plugin = (#type #cfg-json (maxEventSize cutOff cutField));
// ev = 0 (time-out) | (#json-text size)
func execChain(cs hx.Sx, stats map[string]int) hx.Sx {
	it := hx.Items(cs)
	r := &chainRun{stats: stats}
	defer r.release()
	hasK8s := false
	for k, pl := range hx.Items(it[0]) {
		f := hx.Items(pl)
		typ := hx.Str(f[0])
		st := &pipeline.Settings{AvgEventSize: 64, Capacity: 256}
		if len(f) > 2 {
			s := hx.Items(f[2])
			st.MaxEventSize = int(hx.Int(s[0]))
			st.CutOffEventByLimit = hx.Truth(s[1])
			if hx.Truth(s[2]) {
				st.CutOffEventByLimitField = "cutoff"
			}
		}
		p, err := newInstance(typ, hx.Bytes(f[1]), st, &chainCtl{r: r, k: k}, k)
		if err != "" {
			return hx.L(hx.I(obsConfig), hx.S(typ+": "+err))
		}
		defer p.Stop()
		r.acts = append(r.acts, p)
		r.types = append(r.types, typ)
		r.busy = append(r.busy, false)
		if typ == "k8s-multiline" {
			hasK8s = true
		}
	}
	for i, evx := range hx.Items(it[1]) {
		if r.viol != nil {
			break
		}
		r.cur = i
		if hx.IsInt(evx) {
			first := -1
			for k, b := range r.busy {
				if b {
					first = k
					break
				}
			}
			if first < 0 {
				stats["timeout_skipped_nobody_busy"]++
				continue
			}
			stats["timeout_delivered_"+r.types[first]]++
			t := &pipeline.Event{SourceName: "timeout"}
			t.SetTimeoutKind()
			r.doActions(t, first)
			continue
		}
		f := hx.Items(evx)
		text := hx.Bytes(f[0])
		root := insaneJSON.Spawn()
		r.roots = append(r.roots, root)
		if err := root.DecodeBytes(text); err != nil {
			stats["event_not_decodable"]++
			continue
		}
		if hasK8s {
			addK8sMeta(root)
		}
		// a pooled event keeps the capacity of its Buf from its previous life (Event.reset: Buf[:0])
		e := &pipeline.Event{Root: root, Buf: make([]byte, 0, 512), Size: int(hx.Int(f[1])), SourceName: "k8s/x.log", SeqID: uint64(i + 1), Offset: int64(i)}
		if r.doActions(e, 0) {
			r.out(e)
		}
	}
	if r.viol == nil {
		for _, o := range r.outs {
			var again []byte
			if msg := hx.Catch(func() { again = o.ev.Root.Encode(nil) }); msg != "" {
				r.violate(obsLate, fmt.Sprintf("event %d: late encoding: %s", o.at, msg))
				break
			}
			if !bytes.Equal(again, o.enc) {
				r.violate(obsLate, fmt.Sprintf("event %d was %s, later %s", o.at, clipStr(string(o.enc), 60), clipStr(string(again), 60)))
				break
			}
		}
	}
	if r.viol != nil {
		return r.viol
	}
	return hx.L(hx.I(obsOK))
}

func settingsOf(s [3]int) *pipeline.Settings {
	st := &pipeline.Settings{AvgEventSize: 64, Capacity: 256, MaxEventSize: s[0], CutOffEventByLimit: s[1] != 0}
	if s[2] != 0 {
		st.CutOffEventByLimitField = "cutoff"
	}
	return st
}

func timeoutEvent() *pipeline.Event {
	t := &pipeline.Event{SourceName: "timeout"}
	t.SetTimeoutKind()
	return t
}
