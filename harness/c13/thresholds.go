package main

// Streams of the generic layer that cross the size / count / history thresholds hard-coded in the
// code under test (notes/threshold-audit.txt items 1, 2, 12 - 17). Every stream states which
// regression it is there to expose. All cases are judged by the generic sub-model (which = index of
// the first plugin, expected observation (1)); cases containing an input of a recorded finding run in
// that finding's stream (streamForChain), as in main.go.

import (
	"bytes"
	"fmt"
	"os"
	"path/filepath"
	"strings"
	"time"

	"verif/harness/hmain"
	"verif/harness/hx"
)

// the capacities event.Buf arrives with: nil (a brand-new pooled event, pipeline/event.go newEvent),
// empty, tiny, the old fixed 512 of this harness, and the largest resetEvent keeps (4096)
var bufCaps = []int{-1, 0, 1, 64, 512, 4096}

// knownListed: a violating family is only generated once its finding id is listed in
// known_findings.json (the check stays green until the coordinator records or repairs it)
func knownListed(id string) bool {
	if os.Getenv("C13_ASSUME_LISTED") != "" {
		return true
	}
	exe, _ := os.Executable()
	kf, err := os.ReadFile(filepath.Join(filepath.Dir(filepath.Dir(exe)), "known_findings.json"))
	return err == nil && bytes.Contains(kf, []byte(id))
}

func poolDirective(capacity, avg, lag int) hx.Sx {
	return hx.L(hx.I(1), hx.I(capacity), hx.I(avg), hx.I(lag))
}
func clockDirective(ms int) hx.Sx { return hx.L(hx.I(2), hx.I(ms)) }
func twinDirective() hx.Sx        { return hx.L(hx.I(3)) }

// inner: s as it stands inside a JSON string literal
func inner(s string) string { x := q(s); return x[1 : len(x)-1] }

func genThresholds(c *hmain.Ctx, g evGen) {
	r := c.R
	thorough := c.Tier == "thorough"
	type chainT struct {
		pl    []hx.Sx
		first int
	}
	single := func(pi int, cf string) chainT {
		return chainT{[]hx.Sx{plugSx(plugins[pi].typ, cf, settingsFor(nil, plugins[pi].typ))}, pi}
	}
	// a chain as main.go builds them: discard only last, the k8s multiline action only first
	randChain := func(n int) chainT {
		var ch chainT
		ch.first = -1
		for j := 0; j < n; j++ {
			pi := r.Intn(len(plugins))
			if plugins[pi].typ == "discard" && j < n-1 {
				pi = pluginIdx["decode"]
			}
			if plugins[pi].typ == "k8s-multiline" && j > 0 {
				pi = pluginIdx["json_decode"]
			}
			if ch.first < 0 {
				ch.first = pi
			}
			ch.pl = append(ch.pl, plugSx(plugins[pi].typ, hx.Pick(r, plugins[pi].cfgs), settingsFor(r, plugins[pi].typ)))
		}
		return ch
	}
	one := func(stream string, ch chainT, evs []hx.Sx) hx.Sx {
		st := streamForChain(stream, plugins[ch.first].typ == "k8s-multiline", moveBlockLater(ch.pl), evs)
		return emit(c, st, ch.first, hx.L(hx.L(ch.pl...), hx.L(evs...)), true)
	}
	t0 := time.Now()
	lap := func(name string) {
		if os.Getenv("C13_TIMES") != "" {
			fmt.Fprintf(os.Stderr, "stream-time %-20s %v\n", name, time.Since(t0))
		}
		t0 = time.Now()
	}
	small := func() hx.Sx {
		return evSx(`{"log":"b small","message":"m","level":"info","service":"s","a":{"b":"x"}}`)
	}

	// ---------------------------------------------------------------------------------------------
	// node-sweep (audit item 2, exhaustive over configurations x node counts): the event has EXACTLY n
	// insane-json nodes, n around every size the node pool of a production decoder passes through
	// (StartNodePoolSize = 16, doubled at 32 / 64 / 128), decoded into a pooled Root whose pool is fresh
	// (16) or was left at 32 / 64 by the previous event (resetEvent keeps up to 64). The action then adds
	// fields (getNode: nodeCount > len(pool)-16) or decodes an embedded document / a bare scalar on top
	// (DecodeBytesAdditional starts at nodeCount: nodes >= len(pool)-1).
	// Exposes: an expansion check off by one in either place = index out of range inside Do for events of
	// exactly 15 / 31 / 63 nodes; an action that keeps *Node pointers or the nodePool slice across a call that
	// expands the pool. With the library default of 128 nodes (what this harness ran with before) none of
	// the three small boundaries is ever walked.
	sweepNs := []int{}
	for _, p2 := range []int{16, 32, 64, 128} {
		for n := p2 - 4; n <= p2+2; n++ {
			sweepNs = append(sweepNs, n)
		}
	}
	embedded := []string{
		`7`, // a bare scalar: DecodeBytesAdditional takes one node and never looks at the pool size
		`{"a":1,"b":{"c":"x","d":[1,2]},"message":"inner","level":"warn"}`,
		`service=service-test-1 exec took 200ms`,
		`[{"x":1},{"y":2}]`,
		``, // replaced by a document of m nodes, n + m around the next boundary
	}
	warmDocs := map[int]string{32: nodeDoc([][2]string{{"log", `"b warm"`}}, 20, false), 64: nodeDoc([][2]string{{"log", `"b warm"`}}, 40, true)}
	idx := 0
	for pi, p := range plugins {
		for _, cf := range p.cfgs {
			for _, warm := range []int{16, 32, 64} {
				for _, n := range sweepNs {
					if n < warm-4 {
						continue // no boundary of a pool that already has `warm` nodes
					}
					idx++
					emb := embedded[idx%len(embedded)]
					if emb == "" {
						p2 := 16
						for p2 < n+2 {
							p2 *= 2
						}
						m := p2 - n - 2 + idx%5 // n + m in p2-2 .. p2+2
						if m < 3 {
							m = 3
						}
						emb = nodeDoc([][2]string{{"a", `{"b":1}`}}, m, idx%2 == 0)
					}
					v := q(emb)
					doc := nodeDoc([][2]string{{"log", v}, {"a", `{"b":` + v + `}`}, {"message", v}}, n, idx%2 == 1)
					if doc == "" {
						continue
					}
					evs := []hx.Sx{poolDirective(1, 1<<20, 0)}
					if warm > 16 {
						evs = append(evs, evSx(warmDocs[warm]))
					}
					evs = append(evs, evSx(doc), small(), hx.I(0))
					ch := single(pi, cf)
					if (p.typ == "json_decode" || p.typ == "decode") && idx%3 != 0 {
						// the embedded document is decoded on top of the event; the next action's first new field
						// takes the node after it
						ch.pl = append(ch.pl, plugSx("modify", plugins[pluginIdx["modify"]].cfgs[0], [3]int{}))
					}
					one("node-sweep", ch, evs)
					c.W.Count(fmt.Sprintf("node_sweep_pool_left_at_%d", warm))
				}
			}
		}
	}
	c.W.Count(fmt.Sprintf("node_sweep_node_counts_%d", len(sweepNs)))

	lap("node-sweep")
	// ---------------------------------------------------------------------------------------------
	// recycle (audit item 1): events come from the REAL event pool and are decoded into recycled Roots.
	// A wide event (> 64 nodes: ReleasePoolMem on back), a big one (Size > avg: ReleaseBufMem), one whose
	// actions grow event.Buf beyond 4096 (dropped on back) are followed by small ones in the same slot;
	// Discard / Collapse hand the event back at once, the output `lag` events later.
	// Exposes: a plugin that keeps a *Node, a string aliasing Root's buffer or a sub-slice of event.Buf
	// from one event and uses it while handling a later one (with a fresh Event + Root per input, as this
	// harness built them before, such a stale alias points into memory nobody reuses); a resetEvent
	// that frees memory a held / not yet committed event still uses; join-like actions that keep an alias of
	// a collapsed event instead of a copy (the late observation of the flushed event then shows the next
	// event's bytes).
	bigVal := func() []any {
		n := hx.Pick(r, []int{300, 700, 1200})
		return []any{`{"log":"a `, rep{"ab 1234 ", n}, `","message":"`, rep{"xy ", n / 2}, `","level":"error","a":{"b":"`, rep{"z", n}, `"}}`}
	}
	// the actions whose prefix loops append to event.Buf (with the long-key events: beyond 4096)
	appenders := []chainT{single(pluginIdx["flatten"], plugins[pluginIdx["flatten"]].cfgs[0]), single(pluginIdx["decode"], plugins[pluginIdx["decode"]].cfgs[1]),
		single(pluginIdx["json_decode"], `{"field":"log","prefix":"p_"}`)}
	for i := 0; i < 600*c.Scale; i++ {
		ch := randChain(r.Range(1, 2))
		if r.Chance(1, 4) {
			ch = hx.Pick(r, appenders)
			if oth := randChain(1); r.Chance(1, 2) && plugins[oth.first].typ != "k8s-multiline" {
				ch.pl = append(append([]hx.Sx{}, ch.pl...), oth.pl...)
			}
		}
		capacity := r.Range(1, 3)
		// (0 = the low-memory pool: events of one size class bits.Len(size) share a sync.Pool)
		evs := []hx.Sx{poolDirective(capacity, hx.Pick(r, []int{4, 64, 256, 4096, 0}), r.Intn(capacity+1))}
		for k := r.Range(4, 10); k > 0; k-- {
			kind := "small"
			switch x := r.Intn(20); {
			case x < 2:
				kind = "timeout"
				evs = append(evs, hx.I(0))
			case x < 5: // > 64 nodes
				kind = "wide"
				w := wideObject(r.Range(33, 90), func(int) string { return hx.Pick(r, rawScalars) })
				evs = append(evs, evSx(`{"log":`+q(hx.Pick(r, strMultiline))+`,"message":`+g.value(1)+`,"a":`+w+`,"items":[`+w+`,{}]}`))
			case x < 8: // far above avg; the value is long enough for the actions' own buffers to grow
				kind = "big"
				evs = append(evs, evParts(bigVal()...))
			case x < 10: // long keys: the prefix loops of flatten / json_decode / decode push event.Buf beyond 4096
				kind = "long_keys"
				n := hx.Pick(r, []int{600, 2100, 5000})
				evs = append(evs, evParts(`{"log":"{\"`, rep{"k", n}, `\":1,\"b\":2}","a":{"`, rep{"K", n}, `":1,"b":{"`, rep{"q", n}, `":"x"}},"message":"b m"}`))
			case x < 13 && plugins[ch.first].typ == "k8s-multiline":
				evs = append(evs, evSx(`{"log":`+q(hx.Pick(r, strMultiline)+hx.Pick(r, []string{"", "\n"}))+`,"stream":"stdout"}`))
			case x < 13:
				evs = append(evs, evSx(`{"log":`+q(hx.Pick(r, strMultiline))+`,"message":`+g.value(1)+`}`))
			default:
				evs = append(evs, evSx(g.event()))
			}
			c.W.Count("recycle_event_" + kind)
		}
		one("recycle", ch, evs)
	}

	lap("recycle")
	// ---------------------------------------------------------------------------------------------
	// buf-growth (audit item 12, exhaustive over configurations x capacities x documents): event.Buf
	// arrives nil / empty / 1 / 64 / 512 / 4096 and the document has 600-byte and 5000-byte keys or 70
	// fields where the prefix loops look (flatten.go:74, json_decode.go:109, decode.go:803 / 877 append
	// prefix+key per field and store an unsafe alias of the appended bytes in the field node).
	// Exposes: a loop that takes `event.Buf[l:]` of a stale slice header after append reallocated, or that
	// re-slices from the start of Buf (with 512 spare bytes and keys <= 8 bytes, as before, append never
	// reallocates inside such a loop); an action that resets event.Buf to [:0] while earlier fields alias it
	// (seen by the second action of the chain streams and the late observation).
	type bdoc struct {
		name  string
		parts []any
	}
	w70 := wideObject(70, func(i int) string { return `"v` + itoa(i) + `"` })
	bdocs := []bdoc{}
	for _, n := range []int{600, 5000} {
		bdocs = append(bdocs, bdoc{fmt.Sprintf("key_%d", n), []any{`{"log":"{\"`, rep{"k", n}, `\":1,\"b\":{\"c\":2},\"`, rep{"j", n}, `\":\"v\"}","message":"{\"`, rep{"m", n},
			`\":\"v\"}","a":{"`, rep{"K", n}, `":1,"b":{"`, rep{"q", n}, `":"x","c":1},"c":2},"level":"error","service":"s"}`}})
	}
	bdocs = append(bdocs, bdoc{"fields_70", []any{`{"log":"` + inner(w70) + `","message":"` + inner(w70) + `","a":` + w70[:len(w70)-1] + `,"b":` + w70 + `},"level":"error"}`}})
	for pi, p := range plugins {
		for _, cf := range p.cfgs {
			for ci, bc := range bufCaps {
				for di, d := range bdocs {
					if !thorough && di != (pi+ci)%len(bdocs) { // quick tier: every capacity, the documents in rotation
						continue
					}
					second := bdocs[(di+1)%len(bdocs)]
					evs := []hx.Sx{withCap(evParts(d.parts...), bc), withCap(evParts(second.parts...), bufCaps[(ci+1)%len(bufCaps)]), hx.I(0)}
					one("buf-growth", single(pi, cf), evs)
					c.W.Count("buf_growth_" + d.name)
				}
			}
		}
	}
	for i := 0; i < 300*c.Scale; i++ {
		var evs []hx.Sx
		for k := r.Range(1, 3); k > 0; k-- {
			evs = append(evs, withCap(evParts(hx.Pick(r, bdocs).parts...), hx.Pick(r, bufCaps)))
		}
		one("buf-growth-chain", randChain(r.Range(2, 3)), evs)
	}

	lap("buf-growth")
	// ---------------------------------------------------------------------------------------------
	// big-values (audit items 17 and 1, exhaustive over configurations): string values of 5000 / 9000
	// bytes (70000 in the thorough tier; the pools stop at 2100), long - short - long on one instance.
	// Exposes: Go's regexp switches from the bit-state backtracker to the NFA above ~4 KiB (256 Ki bits /
	// program size): an action relying on leftmost-first details that differ, or a submatch index beyond
	// what it sized its buffer for; per-instance buffers (mask, modify, convert_utf8_bytes, hash, join) that
	// are sized by the first event and indexed by a later, longer one, or shrunk and not regrown.
	sizes := []int{5000, 9000}
	if thorough {
		sizes = append(sizes, 70000)
	}
	units := []string{"ab 1234 5678 9012 3456 x@y.ru {q} ", "1", `\\u00e9\\x41`, "{[(\\\"'`", "a\\n", "\xff\xfe"}
	for pi, p := range plugins {
		for ci, cf := range p.cfgs {
			for si, size := range sizes {
				u := units[(pi+ci+si)%len(units)]
				n := size / len(u)
				big := func(bc int) hx.Sx {
					return withCap(evParts(`{"log":"a `, rep{u, n}, `","message":"`, rep{u, n}, `","level":"`, rep{u, n / 4}, `","a":{"b":"`, rep{u, n}, `"},"service":"s","time":"`, rep{u, 20}, `"}`), bc)
				}
				one("big-values", single(pi, cf), []hx.Sx{big(-1), small(), big(64), hx.I(0)})
				c.W.Count(fmt.Sprintf("big_values_%d", size))
			}
		}
	}

	lap("big-values")
	// ---------------------------------------------------------------------------------------------
	// cardinality-ttl (audit item 14): the collector's coarse clock jumps between the events, beyond the
	// ttl of the configuration (1s, 0s, the default 1h), so cache entries expire inside CountPrefix and the
	// asynchronous `go c.delete(...)` runs against the next Set.
	// Exposes: the expiry path itself (cache.go:33-66, never entered while the clock stood still): a
	// type assertion / nil value on an expired entry, deleting while walking the radix tree, a negative count
	// handed to the metric; the discard / remove_fields actions taken right after a limit falls back.
	cardPi := pluginIdx["cardinality"]
	for _, cf := range plugins[cardPi].cfgs {
		for i := 0; i < 40*c.Scale; i++ {
			ch := single(cardPi, cf)
			if oth := randChain(1); r.Chance(1, 4) && plugins[oth.first].typ != "k8s-multiline" {
				ch.pl = append(ch.pl, oth.pl...)
			}
			var evs []hx.Sx
			for k := r.Range(5, 14); k > 0; k-- {
				if r.Chance(1, 3) {
					evs = append(evs, clockDirective(hx.Pick(r, []int{1, 500, 1001, 2500, 3600001})))
					c.W.Count("cardinality_ttl_clock_jump")
					continue
				}
				evs = append(evs, evSx(`{"service":"s`+itoa(r.Intn(2))+`","level":"l`+itoa(r.Intn(4))+`","message":"m`+itoa(r.Intn(3))+`","a":{"b":"k`+itoa(r.Intn(2))+`"},"a_b":"z"}`))
			}
			one("cardinality-ttl", ch, evs)
		}
	}

	lap("cardinality-ttl")
	// ---------------------------------------------------------------------------------------------
	// hash-tokens (audit item 15, exhaustive over hash configurations x tokens x placements): the
	// fixed-length tokens of the built-in patterns (uuid 36, md5 32, sha1 40, sha256 64 bytes; ip, url,
	// host, e-mail, path, date-time, duration, hex, float, mac ...) alone, at the start, at the end of
	// the text and glued to word characters.
	// Exposes: the word-boundary test of token_normalizer.go:252-256 reading s.Text[m.TC-1] /
	// s.Text[m.TC+len] without its bound check for a token at offset 0 or ending the text; a placeholder
	// longer than the token written into a buffer sized by the input. The only all-pattern configuration had
	// max_size 40 and no pool string carried such a token in its first 40 bytes.
	hashPi := pluginIdx["hash"]
	for _, cf := range plugins[hashPi].cfgs {
		for ti, tok := range strTokens {
			for vi, text := range tokenTexts(tok) {
				other := tokenTexts(strTokens[(ti+vi+1)%len(strTokens)])[vi]
				evs := []hx.Sx{evSx(`{"message":` + q(text) + `,"log":` + q(other) + `,"a":{"b":` + q(text) + `}}`), evSx(`{"message":` + q(other) + `,"log":` + q(text) + `}`)}
				one("hash-tokens", single(hashPi, cf), evs)
			}
		}
	}
	c.W.Count(fmt.Sprintf("hash_tokens_%d_placements_%d", len(strTokens), len(tokenTexts("x"))))

	lap("hash-tokens")
	// ---------------------------------------------------------------------------------------------
	// split-fanout (audit item 16): the split field holds 0, 1, 2, 3, 17, 20, 64, 65, 200 objects (1000 in
	// the thorough tier; the pools stop at 5), and the action behind split discards, collapses, holds or
	// passes the children; a big parent is followed by a small one, with fresh events and from a pool of 2.
	// Exposes: Spawn's time-out tail (every busy action gets a time-out after the children) handing a
	// time-out to an action that a child left busy and that reads event.Root; a split that sizes something by
	// the first parent; children whose nodes live in the parent's Root being encoded after the parent went
	// back to the pool (the late observation of the children at commit).
	splitPi := pluginIdx["split"]
	fan := []int{0, 1, 2, 3, 17, 20, 64, 65, 200}
	if thorough {
		fan = append(fan, 1000)
	}
	type tailT struct{ typ, cf string }
	tails := []tailT{{"", ""}, {"discard", `{}`}}
	for _, t := range []string{"join", "join_template", "cardinality", "throttle", "json_decode", "debug", "split", "keep_fields", "mask", "flatten"} {
		for ci, cf := range plugins[pluginIdx[t]].cfgs {
			if ci < 2 {
				tails = append(tails, tailT{t, cf})
			}
		}
	}
	for ni, n := range fan {
		for ti, t := range tails {
			for _, pooled := range []bool{false, true} {
				ch := single(splitPi, plugins[splitPi].cfgs[(ni+ti)%2]) // items | a.b
				if t.typ != "" {
					ch.pl = append(ch.pl, plugSx(t.typ, t.cf, [3]int{}))
				}
				doc := func(n int) hx.Sx {
					return evSx(`{"items":` + objArray(r, n) + `,"message":"parent","a":{"b":` + objArray(r, n) + `},"log":"a parent"}`)
				}
				var evs []hx.Sx
				if pooled {
					evs = append(evs, poolDirective(2, 256, 1))
				}
				evs = append(evs, doc(n), doc(fan[(ni+1)%4]), hx.I(0), small())
				one("split-fanout", ch, evs)
				c.W.Count(fmt.Sprintf("split_fanout_children_%d", n))
			}
		}
	}

	lap("split-fanout")
	// ---------------------------------------------------------------------------------------------
	// deep-embedded (audit item 17): json_extract walks the embedded document with go-faster/jx, whose
	// Skip / Raw give up at nesting depth 10000 (dec_depth.go); the pools stop at depth 200.
	// Exposes: an error of Skip / Raw ignored after the decoder is left in the middle of the document
	// (fields extracted from garbage), a half-written field (AddFieldNoAlloc before the failing Raw) left as
	// an invalid node. Depths 9997 .. 10003 of arrays and of objects, in the extracted field, in a skipped
	// field before it, and unbalanced.
	exPi := pluginIdx["json_extract"]
	for _, cf := range plugins[exPi].cfgs {
		for d := 9997; d <= 10003; d++ {
			if !thorough && (d < 9999 || d > 10001) {
				continue
			}
			shapes := [][]any{
				{`{\"a\":{\"b\":`, rep{"[", d}, rep{"]", d}, `},\"level\":\"l\"}`},
				{`{\"zz\":`, rep{"[", d}, rep{"]", d}, `,\"a\":{\"b\":1},\"level\":\"l\",\"message\":\"m\"}`},
				{rep{`{\"a\":`, d}, `1`, rep{"}", d}},
				{`{\"level\":\"l\",\"a\":{\"b\":`, rep{"[", d}},
				{`{\"level\":`, rep{`[{\"a\":`, d / 2}, `1`, rep{"}]", d / 2}, `,\"a\":{\"e\":2}}`},
			}
			for _, sh := range shapes {
				parts := append(append(append([]any{`{"log":"`}, sh...), `","message":"`), sh...)
				parts = append(parts, `","level":"outer"}`)
				one("deep-embedded", single(exPi, cf), []hx.Sx{evParts(parts...), small()})
				c.W.Count(fmt.Sprintf("deep_embedded_depth_%d", d))
			}
		}
	}

	lap("deep-embedded")
	// ---------------------------------------------------------------------------------------------
	// twin (audit item 17): two instances of every plugin of the chain are started from ONE config object,
	// with one pipeline name, action index and metric controller (exactly what the processors of a pipeline
	// share), and run the same events concurrently on two goroutines.
	// Exposes: Start / Do writing into the shared config (set_time.go:60 p.config.Format_ = ...,
	// mask.go:207) or into per-pipeline globals (multiline_action.go:60 escapedStringBufPool, the throttle
	// limiter map, the hash normaliser cache, metric vectors) without synchronisation: torn buffers show as
	// events that no longer encode / re-parse, or as panics. (One instance per case, as before, never shares.)
	for pi, p := range plugins {
		for _, cf := range p.cfgs {
			for i := 0; i < 2*c.Scale; i++ {
				ch := single(pi, cf)
				if r.Chance(1, 3) {
					oth := randChain(1)
					if plugins[oth.first].typ != "k8s-multiline" {
						ch.pl = append(ch.pl, oth.pl...)
					}
				}
				evs := []hx.Sx{twinDirective()}
				if r.Chance(1, 3) {
					evs = append(evs, poolDirective(2, 64, 1))
					c.W.Count("twin_with_event_pool")
				} else {
					c.W.Count("twin_fresh_events")
				}
				for k := r.Range(3, 8); k > 0; k-- {
					switch {
					case p.typ == "k8s-multiline":
						evs = append(evs, evSx(`{"log":`+q(hx.Pick(r, strMultiline)+hx.Pick(r, []string{"", "\n"}))+`,"stream":"stdout"}`))
					case r.Chance(1, 3):
						evs = append(evs, evSx(`{"log":`+q(hx.Pick(r, strMultiline))+`,"message":`+q(hx.Pick(r, strTokens)+" "+hx.Pick(r, strPlain))+`,"level":"error","service":"s`+itoa(r.Intn(3))+`","time":"2021-06-22T16:24:27Z","a":{"b":"secret 1234"}}`))
					case r.Chance(1, 8):
						evs = append(evs, hx.I(0))
					default:
						evs = append(evs, evSx(g.event()))
					}
				}
				one("twin", ch, evs)
			}
		}
	}
	lap("twin")

	// ---------------------------------------------------------------------------------------------
	// k8s-cut (quick and thorough): the k8s multiline action with a SMALL max_event_size and cut_off_event_by_limit on; a
	// line of partial chunks whose escaped form is escape sequences (\u0000, \\, \", \u0001\t\ufffd). The first chunk
	// fills the buffer up to 9 bytes below the limit, the second one (0..8 bytes) sweeps the remainder, so the cut of the
	// third chunk lands on EVERY offset inside its first and second escape sequence. A chunk that would fit again and
	// the end of the line follow, then a second line. Every event's JSON text is shorter than max_event_size (a
	// reachable setting). Until now this action met max_event_size 16..400 with ordinary text only: the cut inside an
	// escape sequence (the passed event did not encode to valid JSON any more; repaired by /repo 66f8e5d) was found by
	// the thorough tier alone (stream k8s-bad-log, settings (28 1 0)).
	{
		k8sPi := pluginIdx["k8s-multiline"]
		for _, max := range []int{24, 28, 40, 64} {
			for pad := 0; pad <= 8; pad++ {
				for _, piece := range []string{"\x00\x00x", "\\\\\\\\\\x", "\"\"\"\"\"", "\x01\t\xff"} {
					for _, field := range []int{0, 1} {
						ch := chainT{[]hx.Sx{plugSx("k8s-multiline", plugins[k8sPi].cfgs[0], [3]int{max, 1, field})}, k8sPi}
						evs := []hx.Sx{
							evSx(`{"log":` + q(strings.Repeat("a", max-12)) + `}`),
							evSx(`{"log":` + q(strings.Repeat("b", pad)) + `}`),
							evSx(`{"log":` + q(piece) + `}`),
							evSx(`{"log":"z"}`),
							evSx(`{"log":"end\n"}`),
							evSx(`{"log":"next\n"}`),
						}
						c.W.Count("k8s_cut_small_max_with_escapes")
						one("k8s-cut", ch, evs)
					}
				}
			}
		}
	}
	lap("k8s-cut")

	// ---------------------------------------------------------------------------------------------
	// additional-scalar-full-pool: the directed family of finding C13-additional-scalar-full-node-pool,
	// generated only once the finding is listed (until then the check must stay green): the event takes
	// exactly P-1 slots of a node pool of P = 16 / 64, a decoding action decodes a string field that
	// holds a bare scalar on top of it, the next action adds a field.
	if scalarListed {
		adders := []chainT{single(pluginIdx["add_host"], `{}`), single(pluginIdx["modify"], plugins[pluginIdx["modify"]].cfgs[0]),
			single(pluginIdx["set_time"], `{}`), single(pluginIdx["add_file_name"], `{}`)}
		decoders := []chainT{single(pluginIdx["json_decode"], `{"field":"log"}`), single(pluginIdx["decode"], `{"field":"log"}`),
			single(pluginIdx["decode"], plugins[pluginIdx["decode"]].cfgs[1])}
		// (16 = a fresh decoder, 64 = the size resetEvent keeps; the adding action of these chains pushes a
		// pool of 32 to 64 with the warm-up event already: getNode doubles whenever fewer than 16 slots are left)
		for _, p2 := range []int{16, 64} {
			for _, sc := range []string{`1`, `true`, `null`, `"s"`, ` 7 `, `-1.5e3`} {
				for di, d := range decoders {
					for ai, a := range adders {
						doc := nodeDoc([][2]string{{"log", q(sc)}}, p2-1, (di+ai)%2 == 0)
						ch := chainT{append(append([]hx.Sx{}, d.pl...), a.pl...), d.first}
						evs := []hx.Sx{poolDirective(1, 1<<20, 0)}
						if p2 > 16 {
							evs = append(evs, evSx(warmDocs[p2]))
						}
						// (emit moves it to the finding's stream when, and only when, it ends in the finding's panic)
						one("additional-scalar-directed", ch, append(evs, evSx(doc), small()))
					}
				}
			}
		}
	}
	_ = strings.Join
}
