package main

// A minimal in-process redis (RESP2 over TCP on a loop-back port) for the throttle action's redis back end
// (coverage round): PING, INCRBY, EXPIRE, GET, SET, DEL answer as redis does; HELLO / CLIENT and anything else
// answer an error, which go-redis takes as "RESP2 server, no client info". The keys live in one map that a case
// resets (directive (5)) and sets (directive (6 #key #value)): the limit (and, with limiter_value_field /
// limiter_distribution_field, the JSON limit + distribution) the throttle action reads back on every sync.
//
// A case names the server and its limits file by place-holders in the action's config text
// ("endpoint":"fake-redis", "limits_file":"fake-limits"): the port and the file name differ per process / case,
// the case line stays replayable.

import (
	"bufio"
	"fmt"
	"io"
	"net"
	"os"
	"strconv"
	"strings"
	"sync"
)

type fakeRedis struct {
	mu   sync.Mutex
	keys map[string]string
	addr string
	cmds map[string]int
}

var (
	fakeRedisOnce sync.Once
	theFakeRedis  *fakeRedis
)

func startFakeRedis() *fakeRedis {
	fakeRedisOnce.Do(func() {
		ln, err := net.Listen("tcp", "127.0.0.1:0")
		if err != nil {
			panic("c13: fake redis cannot listen: " + err.Error())
		}
		f := &fakeRedis{keys: map[string]string{}, addr: ln.Addr().String(), cmds: map[string]int{}}
		theFakeRedis = f
		go func() {
			for {
				conn, err := ln.Accept()
				if err != nil {
					return
				}
				go f.serve(conn)
			}
		}()
	})
	return theFakeRedis
}

func (f *fakeRedis) reset() {
	f.mu.Lock()
	f.keys = map[string]string{}
	f.mu.Unlock()
}

func (f *fakeRedis) set(k, v string) {
	f.mu.Lock()
	f.keys[k] = v
	f.mu.Unlock()
}

func readCommand(r *bufio.Reader) ([]string, error) {
	line, err := r.ReadString('\n')
	if err != nil {
		return nil, err
	}
	line = strings.TrimRight(line, "\r\n")
	if len(line) == 0 || line[0] != '*' {
		return strings.Fields(line), nil // inline command
	}
	n, err := strconv.Atoi(line[1:])
	if err != nil || n < 0 || n > 64 {
		return nil, fmt.Errorf("bad array header %q", line)
	}
	args := make([]string, 0, n)
	for i := 0; i < n; i++ {
		h, err := r.ReadString('\n')
		if err != nil {
			return nil, err
		}
		h = strings.TrimRight(h, "\r\n")
		if len(h) == 0 || h[0] != '$' {
			return nil, fmt.Errorf("bad bulk header %q", h)
		}
		l, err := strconv.Atoi(h[1:])
		if err != nil || l < 0 || l > 1<<20 {
			return nil, fmt.Errorf("bad bulk length %q", h)
		}
		buf := make([]byte, l+2)
		if _, err := io.ReadFull(r, buf); err != nil {
			return nil, err
		}
		args = append(args, string(buf[:l]))
	}
	return args, nil
}

func (f *fakeRedis) serve(conn net.Conn) {
	defer conn.Close()
	r := bufio.NewReader(conn)
	w := bufio.NewWriter(conn)
	for {
		args, err := readCommand(r)
		if err != nil {
			return
		}
		if len(args) == 0 {
			continue
		}
		cmd := strings.ToUpper(args[0])
		f.mu.Lock()
		f.cmds[cmd]++
		switch {
		case cmd == "PING":
			w.WriteString("+PONG\r\n")
		case cmd == "INCRBY" && len(args) == 3:
			cur, _ := strconv.ParseInt(f.keys[args[1]], 10, 64)
			d, _ := strconv.ParseInt(args[2], 10, 64)
			f.keys[args[1]] = strconv.FormatInt(cur+d, 10)
			fmt.Fprintf(w, ":%d\r\n", cur+d)
		case cmd == "EXPIRE":
			w.WriteString(":1\r\n")
		case cmd == "GET" && len(args) == 2:
			if v, ok := f.keys[args[1]]; ok {
				fmt.Fprintf(w, "$%d\r\n%s\r\n", len(v), v)
			} else {
				w.WriteString("$-1\r\n")
			}
		case cmd == "SET" && len(args) >= 3:
			f.keys[args[1]] = args[2]
			w.WriteString("+OK\r\n")
		case cmd == "DEL":
			for _, k := range args[1:] {
				delete(f.keys, k)
			}
			w.WriteString(":1\r\n")
		default:
			fmt.Fprintf(w, "-ERR unknown command '%s'\r\n", args[0])
		}
		f.mu.Unlock()
		if r.Buffered() == 0 {
			if w.Flush() != nil {
				return
			}
		}
	}
}

var limitsFileSeq int

// withFakeBackends: the config text with the place-holders of the redis end point and the limits file replaced;
// file = the limits file the case owns ("" = none)
func withFakeBackends(cfgJSON []byte) (out []byte, file string) {
	s := string(cfgJSON)
	if strings.Contains(s, `"endpoint":"fake-redis"`) {
		s = strings.ReplaceAll(s, `"endpoint":"fake-redis"`, `"endpoint":"`+startFakeRedis().addr+`"`)
	}
	if strings.Contains(s, `"limits_file":"fake-limits"`) {
		limitsFileSeq++
		file = fmt.Sprintf("%s/verif_c13_limits_%d_%d.json", os.TempDir(), os.Getpid(), limitsFileSeq)
		s = strings.ReplaceAll(s, `"limits_file":"fake-limits"`, `"limits_file":"`+file+`"`)
	}
	return []byte(s), file
}
