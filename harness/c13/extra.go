package main

// Differential streams of the tree-level models of coq/Model/Actions/ExtraPlugins.v (which 42..49):
// rename, move, flatten, json_encode, json_decode, convert_log_level, set_time, add_host, add_file_name,
// convert_date, discard, debug, parse_es, cardinality.  The case carries the action's config JSON and
// the event tree(s); the observation carries what the collector's own helpers made of the config
// (parsed selectors, ...) and the answers of library code (oracle part) plus, per Do,
//
//	(0 (result tree)) | (2) panic | (4 #why) the event is no finite / re-parsing document any more
//
// Only public API of /repo is used; the instance is built through the collector's own path (newInstance).

import (
	"os"
	"strconv"
	"strings"
	"time"

	"github.com/ozontech/file.d/cfg"
	"github.com/ozontech/file.d/pipeline"
	"github.com/ozontech/file.d/plugin/action/add_file_name"
	"github.com/ozontech/file.d/plugin/action/add_host"
	"github.com/ozontech/file.d/plugin/action/cardinality"
	"github.com/ozontech/file.d/plugin/action/convert_date"
	"github.com/ozontech/file.d/plugin/action/convert_log_level"
	"github.com/ozontech/file.d/plugin/action/flatten"
	"github.com/ozontech/file.d/plugin/action/json_decode"
	"github.com/ozontech/file.d/plugin/action/json_encode"
	"github.com/ozontech/file.d/plugin/action/move"
	"github.com/ozontech/file.d/plugin/action/rename"
	"github.com/ozontech/file.d/plugin/action/set_time"
	"github.com/ozontech/file.d/xtime"
	insaneJSON "github.com/ozontech/insane-json"

	"verif/harness/hx"
)

func brokenObs(why string) hx.Sx { return hx.L(hx.I(4), hx.S(why)) }

// safeJSON: hx.JSON with a node budget (an action can leave the node arrays cyclic: rename with an
// empty path copies the root's field list into a field of the root)
func safeJSON(n *insaneJSON.Node, budget *int) (v hx.Sx, ok bool) {
	*budget--
	if *budget < 0 {
		return nil, false
	}
	switch {
	case n == nil || n.IsNil():
		return hx.L(hx.I(9)), true
	case n.IsArray():
		items := []hx.Sx{hx.I(4)}
		for _, x := range n.AsArray() {
			y, ok := safeJSON(x, budget)
			if !ok {
				return nil, false
			}
			items = append(items, y)
		}
		return hx.L(items...), true
	case n.IsObject():
		items := []hx.Sx{hx.I(5)}
		for _, f := range n.AsFields() {
			y, ok := safeJSON(f.AsFieldValue(), budget)
			if !ok {
				return nil, false
			}
			items = append(items, hx.L(hx.S(f.AsString()), y))
		}
		return hx.L(items...), true
	}
	return hx.JSON(n), true
}

// eventObs: the event after a Do: its tree through the node arrays, provided the encoder's walk
// over the node links terminates, the text re-parses, and re-parses to that same tree
func eventObs(root *insaneJSON.Root) (tree hx.Sx, broken string) {
	budget := 200000
	tree, ok := safeJSON(root.Node, &budget)
	if !ok {
		return nil, "the node arrays form a cycle"
	}
	if !encodeTerminates(root.Node, 1_000_000) {
		return nil, "encoding does not terminate: the node links form a cycle"
	}
	var enc []byte
	if msg := hx.Catch(func() { enc = root.Encode(nil) }); msg != "" {
		return nil, "encoding panics"
	}
	back := insaneJSON.Spawn()
	defer insaneJSON.Release(back)
	if err := back.DecodeBytes(enc); err != nil {
		return nil, "the encoded event does not re-parse"
	}
	if bt := hx.JSON(back.Node); hx.String(bt) != hx.String(tree) && normTree(bt) != normTree(tree) {
		return nil, "the encoded event re-parses to another tree"
	}
	return tree, ""
}

func doObs(p pipeline.ActionPlugin, ev *pipeline.Event) hx.Sx {
	var res pipeline.ActionResult
	setFatal("")
	if msg := hx.Catch(func() { res = p.Do(ev) }); msg != "" {
		return panicObs
	}
	if ev.Root == nil {
		return hx.L(hx.I(0), hx.L(hx.I(int(res)), hx.I(0)))
	}
	tree, broken := eventObs(ev.Root)
	if broken != "" {
		return brokenObs(broken)
	}
	return hx.L(hx.I(0), hx.L(hx.I(int(res)), tree))
}

func pathsSx(ps [][]string) hx.Sx { return hx.List(ps, pathSx) }

// renameParts: the pairs of the config without override (through the exported methods of rename.Config, as
// rename.Start takes them), whether fields are preserved, and cfg.ParseFieldSelector of every unescaped
// non-empty key (the oracle part: the model does the unescaping and the dropping of empty keys itself)
func renameParts(c *rename.Config) (preserve bool, pairs, table []hx.Sx, selOK bool) {
	conf := c.Clone()
	val, idx := conf.Find("override")
	preserve = idx == rename.NotFoundIdx || val == "false"
	conf.Remove("override")
	selOK = true
	seen := map[string]bool{}
	conf.ForEach(func(key, name string) {
		pairs = append(pairs, hx.L(hx.S(key), hx.S(name)))
		if key != "" && key[0] == '_' {
			key = key[1:]
		}
		if key == "" || seen[key] {
			return
		}
		seen[key] = true
		sel := cfg.ParseFieldSelector(key)
		if len(sel) == 0 {
			selOK = false
		}
		table = append(table, hx.L(hx.S(key), pathSx(sel)))
	})
	return preserve, pairs, table, selOK
}

// renameSelOK: the hypothesis of c13_rename_total_wf on the selector oracle held in the last rename case
var renameSelOK = true

func jsonOpt(n *insaneJSON.Node) hx.Sx {
	if n == nil {
		return hx.L(hx.I(0))
	}
	return hx.L(hx.I(1), hx.JSON(n))
}

func normLevel(s string) string { return strings.ToLower(strings.TrimSpace(s)) }

// dateValue: the node convert_date writes for a parsed time
func dateValue(target string, t time.Time) hx.Sx {
	switch target {
	case xtime.UnixTime:
		return hx.L(hx.I(2), hx.S(strconv.Itoa(int(t.Unix()))))
	case xtime.UnixTimeMilli:
		return hx.L(hx.I(2), hx.S(strconv.Itoa(int(t.UnixMilli()))))
	case xtime.UnixTimeMicro:
		return hx.L(hx.I(2), hx.S(strconv.Itoa(int(t.UnixMicro()))))
	case xtime.UnixTimeNano:
		return hx.L(hx.I(2), hx.S(strconv.Itoa(int(t.UnixNano()))))
	}
	return hx.L(hx.I(3), hx.S(t.Format(target)))
}

func formatOf(name string) string {
	f, err := xtime.ParseFormatName(name)
	if err != nil {
		return name
	}
	return f
}

var hostName, _ = os.Hostname()

// setTimeWindow: the clock readings around the last set_time Do (checked by the generator as an oracle)
var setTimeWindow [2]time.Time

func execExtra(which int, cs hx.Sx) hx.Sx {
	it := hx.Items(cs)
	switch which {
	case 42: // rename
		cfgJSON := hx.Bytes(it[0])
		conf, err := configOf("rename", cfgJSON)
		if err != "" {
			return badCfg(err)
		}
		preserve, pairs, table, selOK := renameParts(conf.(*rename.Config))
		renameSelOK = selOK
		p, e := newInstance("rename", cfgJSON, settingsOf([3]int{}), &nopCtl{}, 0)
		if e != "" {
			return badCfg(e)
		}
		root := rootOf(it[1])
		defer insaneJSON.Release(root)
		return hx.L(hx.Bool(preserve), hx.L(pairs...), hx.L(table...), doObs(p, &pipeline.Event{Root: root}))

	case 43: // move
		cfgJSON := hx.Bytes(it[0])
		conf, err := configOf("move", cfgJSON)
		if err != "" {
			return badCfg(err)
		}
		c := conf.(*move.Config)
		p, e := newInstance("move", cfgJSON, settingsOf([3]int{}), &nopCtl{}, 0)
		if e != "" {
			return badCfg(e)
		}
		var fields [][]string
		for _, fs := range c.Fields {
			f := cfg.ParseFieldSelector(string(fs))
			if c.Mode == "allow" && fs != "" {
				fields = append(fields, f)
			}
			if c.Mode == "block" && len(f) == 1 {
				fields = append(fields, f)
			}
		}
		root := rootOf(it[1])
		defer insaneJSON.Release(root)
		return hx.L(hx.Bool(c.Mode == "block"), pathSx(c.Target_), pathsSx(fields), doObs(p, &pipeline.Event{Root: root}))

	case 44: // flatten
		cfgJSON := hx.Bytes(it[0])
		conf, err := configOf("flatten", cfgJSON)
		if err != "" {
			return badCfg(err)
		}
		c := conf.(*flatten.Config)
		p, e := newInstance("flatten", cfgJSON, settingsOf([3]int{}), &nopCtl{}, 0)
		if e != "" {
			return badCfg(e)
		}
		root := rootOf(it[1])
		defer insaneJSON.Release(root)
		return hx.L(pathSx(c.Field_), hx.S(c.Prefix), doObs(p, &pipeline.Event{Root: root}))

	case 45: // json_encode
		cfgJSON := hx.Bytes(it[0])
		conf, err := configOf("json_encode", cfgJSON)
		if err != "" {
			return badCfg(err)
		}
		c := conf.(*json_encode.Config)
		p, e := newInstance("json_encode", cfgJSON, settingsOf([3]int{}), &nopCtl{}, 0)
		if e != "" {
			return badCfg(e)
		}
		root := rootOf(it[1])
		defer insaneJSON.Release(root)
		var enc []byte
		if n := root.Dig(c.Field_...); n != nil {
			enc = n.Encode(nil) // the library's encoder is the oracle
		}
		return hx.L(pathSx(c.Field_), hx.B(enc), doObs(p, &pipeline.Event{Root: root}))

	case 46: // json_decode
		cfgJSON := hx.Bytes(it[0])
		conf, err := configOf("json_decode", cfgJSON)
		if err != "" {
			return badCfg(err)
		}
		c := conf.(*json_decode.Config)
		p, e := newInstance("json_decode", cfgJSON, settingsOf([3]int{}), &nopCtl{}, 0)
		if e != "" {
			return badCfg(e)
		}
		root := rootOf(it[1])
		defer insaneJSON.Release(root)
		doc := hx.L(hx.I(0))
		if n := root.Dig(c.Field_...); n != nil {
			d := insaneJSON.Spawn()
			defer insaneJSON.Release(d)
			if err := d.DecodeString(strings.Clone(n.AsString())); err == nil {
				doc = jsonOpt(d.Node)
			}
		}
		return hx.L(pathSx(c.Field_), hx.S(c.Prefix), doc, doObs(p, &pipeline.Event{Root: root}))

	case 47: // convert_log_level
		cfgJSON := hx.Bytes(it[0])
		conf, err := configOf("convert_log_level", cfgJSON)
		if err != "" {
			return badCfg(err)
		}
		c := conf.(*convert_log_level.Config)
		p, e := newInstance("convert_log_level", cfgJSON, settingsOf([3]int{}), &nopCtl{}, 0)
		if e != "" {
			return badCfg(e)
		}
		root := rootOf(it[1])
		defer insaneJSON.Release(root)
		// strings.ToLower(strings.TrimSpace(.)) of the two texts ParseLevelAsNumber may see
		cand := []string{c.DefaultLevel}
		if n := root.Dig(c.Field_...); n != nil {
			cand = append(cand, strings.Clone(n.AsString()))
		}
		var norm []hx.Sx
		for _, s := range cand {
			norm = append(norm, hx.L(hx.S(s), hx.S(normLevel(s))))
		}
		return hx.L(pathSx(c.Field_), hx.Bool(normLevel(c.Style) == "string"), hx.S(c.DefaultLevel), hx.Bool(c.RemoveOnFail),
			hx.L(norm...), doObs(p, &pipeline.Event{Root: root}))

	case 48: // one-step plugins, (tag #cfg tree #extra)
		tag, cfgJSON := hx.Int(it[0]), hx.Bytes(it[1])
		typ := []string{"set_time", "add_host", "add_file_name", "convert_date", "discard", "debug"}[tag]
		conf, err := configOf(typ, cfgJSON)
		if err != "" {
			return badCfg(err)
		}
		p, e := newInstance(typ, cfgJSON, settingsOf([3]int{}), &nopCtl{}, 0)
		if e != "" {
			return badCfg(e)
		}
		root := rootOf(it[2])
		defer insaneJSON.Release(root)
		ev := &pipeline.Event{Root: root, SourceName: hx.Str(it[3])}
		switch tag {
		case 0:
			c := conf.(*set_time.Config)
			existed := root.Dig(c.Field) != nil
			setTimeWindow[0] = time.Now()
			out := doObs(p, ev)
			setTimeWindow[1] = time.Now()
			// the clock reading is the oracle part: what stands at the field now; where the action must not
			// write (the field exists, override is off) the reading is a text no event holds
			value := jsonOpt(root.Dig(c.Field))
			if existed && !c.Override {
				value = hx.L(hx.I(1), hx.L(hx.I(3), hx.S("<the clock reading>")))
			}
			return hx.L(hx.S(c.Field), hx.Bool(c.Override), hx.S(formatOf(c.Format)), value, out)
		case 1:
			c := conf.(*add_host.Config)
			return hx.L(hx.S(c.Field), hx.S(hostName), doObs(p, ev))
		case 2:
			c := conf.(*add_file_name.Config)
			return hx.L(pathSx(c.Field_), doObs(p, ev))
		case 3:
			c := conf.(*convert_date.Config)
			target := formatOf(c.TargetFormat)
			var table []hx.Sx
			if n := root.Dig(c.Field_...); n != nil && (n.IsString() || n.IsNumber()) {
				date := strings.Clone(n.AsString())
				for _, name := range c.SourceFormats {
					if t, err := xtime.ParseTime(formatOf(name), date); err == nil {
						table = append(table, hx.L(hx.I(1), dateValue(target, t)))
					} else {
						table = append(table, hx.L(hx.I(0)))
					}
				}
			}
			return hx.L(pathSx(c.Field_), hx.Bool(c.RemoveOnFail), hx.L(table...), doObs(p, ev))
		default:
			return hx.L(doObs(p, ev))
		}

	case 49: // ONE instance over a sequence of events, (tag #cfg (ev ...)), ev = 0 time-out | tree
		tag, cfgJSON := hx.Int(it[0]), hx.Bytes(it[1])
		typ := []string{"parse_es", "cardinality"}[tag]
		conf, err := configOf(typ, cfgJSON)
		if err != "" {
			return badCfg(err)
		}
		p, e := newInstance(typ, cfgJSON, settingsOf([3]int{}), &nopCtl{}, 0)
		if e != "" {
			return badCfg(e)
		}
		var outs []hx.Sx
		for _, t := range hx.Items(it[2]) {
			if hx.IsInt(t) {
				outs = append(outs, doObs(p, timeoutEvent()))
				continue
			}
			root := rootOf(t)
			outs = append(outs, doObs(p, &pipeline.Event{Root: root}))
			insaneJSON.Release(root)
		}
		if tag == 0 {
			return hx.L(hx.L(outs...))
		}
		c := conf.(*cardinality.Config)
		pf := func(fs []cfg.FieldSelector) hx.Sx {
			var l []hx.Sx
			for _, f := range fs {
				if f == "" {
					continue
				}
				parsed := cfg.ParseFieldSelector(string(f))
				l = append(l, hx.L(hx.S(strings.Join(parsed, "_")), pathSx(parsed)))
			}
			return hx.L(l...)
		}
		action := map[string]int{"nothing": 0, "discard": 1, "remove_fields": 2}[c.Action]
		return hx.L(pf(c.KeyFields), pf(c.Fields), hx.I(c.Limit), hx.I(action), hx.L(outs...))
	}
	panic("c13: unknown which")
}
