package main

// Exact differential streams of coq/Model/Actions/Templates.v (coverage round):
//
//	51 template check   case (tmpl continue #line)   tmpl 0 go_panic | 1 cs_exception | 2 go_data_race; continue 0 StartCheck | 1 ContinueCheck
//	                    obs  (0 b) | (2) panic        the functions join_template.Do calls for every event (through the exported
//	                                                  template.InitTemplate(name).StartCheck / ContinueCheck)
//	52 field selector   case (#selector)              obs (0 (#segment ...)) | (2) panic    cfg.ParseFieldSelector
//
// Both are pure functions of their argument: the extracted model must give the same answer (exact_verdict;
// a panic is a violation whatever the model says).

import (
	"strings"

	"github.com/ozontech/file.d/cfg"
	"github.com/ozontech/file.d/plugin/action/join_template/template"

	"verif/harness/hmain"
	"verif/harness/hx"
)

const (
	templateWhich = 51
	selectorWhich = 52
)

var templateNames = []string{"go_panic", "cs_exception", "go_data_race"}

func execCov(which int, cs hx.Sx) hx.Sx {
	it := hx.Items(cs)
	switch which {
	case templateWhich:
		t, err := template.InitTemplate(templateNames[int(hx.Int(it[0]))])
		if err != nil {
			return badCfg(err.Error())
		}
		f := t.StartCheck
		if hx.Truth(it[1]) {
			f = t.ContinueCheck
		}
		line := hx.Str(it[2])
		var b bool
		if msg := hx.Catch(func() { b = f(line) }); msg != "" {
			return panicObs
		}
		return hx.L(hx.I(0), hx.Bool(b))
	case selectorWhich:
		var segs []string
		if msg := hx.Catch(func() { segs = cfg.ParseFieldSelector(hx.Str(it[0])) }); msg != "" {
			return panicObs
		}
		return hx.L(hx.I(0), hx.Ss(segs))
	}
	panic("c13: unknown which")
}

// tokenStrings: every concatenation of up to maxLen tokens
func tokenStrings(tokens []string, maxLen int, f func(s string)) {
	allStrings(tokens, maxLen, func(s string, _ int) { f(s) })
}

func genCovModels(c *hmain.Ctx) {
	r := c.R
	long := c.Tier == "thorough"
	pick := func(a, b int) int {
		if long {
			return b
		}
		return a
	}
	tmpl := func(stream string, t int, cont bool, line string) {
		c.Do(stream, templateWhich, hx.L(hx.I(t), hx.Bool(cont), hx.S(line)), line != "")
	}

	// ---- 51, exhaustive small scope
	// the call shape of go_panic's containsCall / endsWithIdentifier: every string over a letter, a digit, '.', '(', ')', '_'
	allStrings([]string{"a", "1", ".", "(", ")"}, pick(5, 6), func(s string, _ int) { tmpl("template-call-exhaustive", 0, true, s) })
	allStrings([]string{"_", "9", ".", "(", ")", " "}, pick(4, 5), func(s string, _ int) { tmpl("template-call-exhaustive", 0, true, s) })
	// the word shapes of go_panic: goroutine id, line number, created by, panic address
	tokenStrings([]string{"goroutine ", "1", " ", " [", "x", ".go:", "created by ", ".", "panic", "0x", "f", "g", "panic:", "[signal", "http: panic serving", "fatal error:"}, pick(3, 4), func(s string) {
		tmpl("template-words-exhaustive", 0, true, s)
		tmpl("template-words-exhaustive", 0, false, s)
	})
	// cs_exception: leading blanks, at, --->, --- End of (any case), Exception: behind '.', a word character, nothing
	tokenStrings([]string{" ", "\t", "\n", "at", "--->", "--- End of", "--- end OF", "--- End o", "Exception:", ".", "a", "_", "unhandled exception", "UNHANDLED EXCEPTIO", "N", "\xff"}, pick(3, 4), func(s string) {
		tmpl("template-sharp-exhaustive", 1, true, s)
		tmpl("template-sharp-exhaustive", 1, false, s)
	})
	tokenStrings([]string{"WARNING: DATA RACE", "WARNING: DATA RAC", "==================", "=", " ", "x"}, pick(3, 4), func(s string) {
		tmpl("template-race-exhaustive", 2, true, s)
		tmpl("template-race-exhaustive", 2, false, s)
	})
	// the catalogue of coverage.go under every check
	for _, l := range append(append([]string(nil), tmplLines...), tmplStarts...) {
		for t := 0; t < 3; t++ {
			tmpl("template-catalogue", t, false, l)
			tmpl("template-catalogue", t, true, l)
		}
	}
	// ---- 51, random: catalogue lines cut, glued and with one byte changed
	g := treeGen{r}
	for i := 0; i < 1500*c.Scale; i++ {
		var s string
		switch r.Intn(5) {
		case 0:
			s = hx.Pick(r, tmplLines) + hx.Pick(r, tmplLines)
		case 1:
			s = hx.Pick(r, tmplLines)
			if len(s) > 0 {
				s = s[:r.Intn(len(s)+1)]
			}
		case 2:
			s = hx.Pick(r, strMultiline) + hx.Pick(r, []string{"", "\n", " ", ")", "(", "."})
		case 3:
			b := []byte(hx.Pick(r, append(tmplLines, tmplStarts...)))
			if len(b) > 0 {
				const alt = "a1.() _\t\xff:-xE"
				b[r.Intn(len(b))] = alt[r.Intn(len(alt))]
			}
			s = string(b)
		default:
			s = g.str()
		}
		tmpl("template-random", r.Intn(3), r.Bool(), s)
	}

	// ---- 52 cfg.ParseFieldSelector: every selector over a letter, the dot and the escaping back-slash
	sel := func(stream, s string) {
		c.Do(stream, selectorWhich, hx.L(hx.S(s)), strings.Contains(s, "."))
	}
	allStrings([]string{"a", ".", "\\"}, pick(7, 9), func(s string, _ int) { sel("selector-exhaustive", s) })
	allStrings([]string{"a", "b", ".", "\\", "_"}, pick(4, 5), func(s string, _ int) { sel("selector-exhaustive", s) })
	for i := 0; i < 500*c.Scale; i++ {
		var parts []string
		for n := r.Range(0, 5); n > 0; n-- {
			parts = append(parts, hx.Pick(r, []string{"a", "b", "log", "k8s_pod", "", ".", "..", "\\.", "\\", "\\\\.", "x y", "\xff", "0", "a.b", "_", "items.0"}))
		}
		sel("selector-random", strings.Join(parts, hx.Pick(r, []string{".", "", "\\."})))
	}
}
