package main

// Adversarial but DECODABLE events: JSON text built by hand so that strings may carry invalid UTF-8,
// control characters, lone surrogate escapes, embedded (valid and broken) JSON, the decoder
// witnesses of corpus/C12, huge numbers, duplicate keys, wide objects (> insane-json's
// MapUseThreshold), deep nesting, and non-object roots.

import (
	"encoding/json"
	"strconv"
	"strings"

	insaneJSON "github.com/ozontech/insane-json"

	"verif/harness/hx"
)

const hexd = "0123456789abcdef"

// q: JSON string literal of raw bytes; bytes >= 0x80 pass through (invalid UTF-8 on purpose)
func q(s string) string {
	out := []byte{'"'}
	for i := 0; i < len(s); i++ {
		c := s[i]
		switch {
		case c == '"' || c == '\\':
			out = append(out, '\\', c)
		case c == '\n':
			out = append(out, '\\', 'n')
		case c == '\r':
			out = append(out, '\\', 'r')
		case c == '\t':
			out = append(out, '\\', 't')
		case c < 0x20:
			out = append(out, '\\', 'u', '0', '0', hexd[c>>4], hexd[c&15])
		default:
			out = append(out, c)
		}
	}
	return string(append(out, '"'))
}

// string contents (unescaped) ------------------------------------------------------------------
var strPlain = []string{
	"", " ", "x", "error", "info", "WARN", "Warning", "3", "7", "-1", "  ", "null", "true",
	"line one\nline two", "tab\there", "quote\"inside", "back\\slash", "ends with backslash\\", "\\", "\\\\",
	"\x00", "a\x00b", "\x01\x1f", "\u2028\u2029", "\ufeffbom", "héllo wörld", "日本語", "😀",
	"\xff", "\xff\xfe\xfd", "abc\xc3", "\xed\xa0\x80", "\xf0\x9f\x98", "\xc0\xaf", "ok\x80ok",
	strings.Repeat("a", 300), strings.Repeat("ab ", 700), strings.Repeat("\xff", 40),
	"1234-5678-9012-3456", "card 4111 1111 1111 1111 end", "test", "secret token", "ab", "a", "abab", "xxxyxx",
	"2021-06-22T16:24:27Z", "2021-06-22T16:24:27.123456789+03:00", "2021-13-45T99:99:99Z", "1624379067", "1624379067123", "2021-06-22",
	"Mon Jan  2 15:04:05 2006", "0001-01-01T00:00:00Z", "9999-12-31T23:59:59.999999999Z", "-62135596801",
	"info: something happened", "re1 re2 re3 re4", "service=service-test-1 exec took 200ms", "message without matching re",
	"some data {\"service\":\"service-test-1\",\"took\":\"200ms\"} some data", "}{", "{", "}", "}}}{{{",
}

var strEmbedded = []string{
	// two adjacent documents whose extracted strings need unescaping (a decoder that hands out its
	// scratch buffer instead of a copy shows up in the late observation)
	`{"message":"line\nbreak \"q\" one","level":"w\u0041rn","a":"\tfirst","b":{"c":"c\\1","d":"d\/1"}}`,
	`{"message":"SECOND\nSECOND \"Q\"","level":"E\u0052ROR","a":"\tsecond!","b":{"c":"C\\2","d":"D\/2"}}`,
	`{"a":1}`, `{"a":{"b":"x"},"b":{"c":1,"d":[1,2]},"message":"m","level":"warn"}`, `{"a":`, `{"a":"x`, `[1,`, `{"a":1}}`,
	`{"a":1} trailing`, `{"a":1e999}`, `{"a":"\ud800"}`, `{"a":tru`, `{"\u0061":1,"a":2}`, `{}`, `[]`, `null`, `"str"`, `123`, `-`, `1e`,
	`{"a":{"b":{"c":{"d":{"e":{"f":{}}}}}}}`, `[[[[[[[[[[1]]]]]]]]]]`, `{"a":{"b":[{"c":1},{"d":{"e":null}}]},"level":"error"}`,
	`{"a":{"b":{"c":"C","d":"D"},"e":"E"},"level":"L"}`, `{"level":1,"level":2}`, `{"a":{"b":1},"a":{"b":2}}`, `{"a":12345678901234567890,"b":{"c":1.5e3,"d":-0}}`,
	`{"a":{"b":"unterminated}}`, `{"a":{"b":"x"}`, `{"a"}`, `{"a":}`, `{,}`, `{"a":1,}`, `[1 2]`, `{"a":"\x"}`, `{"a":"\u12"}`, `{"a":01}`, `{"a":.5}`, `{"a":+1}`,
	`{"a":NaN}`, `{"a":Infinity}`, ` {"a" : 1 , "message" : "spaced" } `, "{\"a\":\"\xff\"}", "{\"a\x00\":1}", `{"":1}`, `{"a.b":1,"a":{"b":2}}`,
	`{"message":"inner","a":[1,{"b":2}],"b":{"c":[],"d":{}}}`, `{"a":"1","a":"2","a":"3"}`, strings.Repeat(`{"a":`, 40) + `1` + strings.Repeat(`}`, 40),
	strings.Repeat(`[`, 200) + strings.Repeat(`]`, 200), `{"a":"` + strings.Repeat("z", 500) + `"}`,
}

// the decoder witnesses of corpus/C12 and valid lines of each format
var strDecoders = []string{
	" stdout P ", "2016-10-06T00:17:09.669794202Z stdout P ", "2016-10-06T00:17:09.669794202Z stdout F log content", "t stdout",
	"   ]", "a b c ]", "a b c [1] [2] ,=", "a b c [1] [2] a=b,,=x", "a b c [1] [2] a=b,c=d, =", "a b c [1] [2] a=b,c=d,e=f L ",
	"2021-06-22 16:24:27 GMT [7291] => [3-1] client=test_client,db=test_db,user=test_user LOG:  listening on IPv4 address \"0.0.0.0\", port 5432",
	"<34>Oct 11 22:14:15 h a[]", "<34>Oct 11 22:14:15 h a[1]\n", "<34>Oct  5 22:14:15 mymachine.example.com myproc[10]: 'myproc' failed on /dev/pts/8",
	"<1>1 - - - - - [id ]", "<1>1 - - - - - [id \"", "<165>1 2003-10-11T22:14:15.003Z mymachine.example.com myproc - ID47 [exampleSDID@32473 iut=\"3\" eventSource=\"Application\" eventID=\"1011\"] An event",
	"<165>1 2003-10-11T22:14:15.003Z h a - - [a b=\"\\\"\"][c]", "<999>1", "<>", "<1", "<34>",
	"a,", ",", "\"a\"", "a;\"b\"", "a,b,c", "a,\"b \"\" ,c\",d ", "a,b", "\"unterminated", "a,b,c,d,e", "a;b", "\"\"", "a,\"b\"x",
	"2022/08/17 10:49:27 [error] 2725122#2725122: *792412315 lua udp socket read timed out, context: ngx.timer",
	"2022/08/18 09:29:37 [error] 844935#844935: *44934601 upstream timed out (110: Operation timed out), while connecting to upstream, client: 10.125.172.251, server: , request: \"POST /download HTTP/1.1\", upstream: \"http://10.117.246.15:84/download\", host: \"mpm-youtube-downloader-38.name.tldn:84\"\n",
	"2022/08/17 10:49:27 [error] 1#", "2022/08/17 10:49:27 [", "2022/08/17 10:49:27 [error] 1#1: *", "2022/08/17 10:49:27 [error] 1#1: m, k: v, k2:",
	"\n\r\tmy_string\x10{\x12\x0e\n\x04str1\n\x04str2\x10\x01\x18\n", "\n\r\n\tmy_st", "\x08\x96\x01", "\xff\xff\xff\xff\xff\xff\xff\xff\xff\xff\x01",
}

// back-slash sequences for convert_utf8_bytes
var strBackslash = []string{
	`\u00e9`, `\xff\x`, `\u12`, `\U0001F600`, `\ud83d\ude00`, `\ud83d`, `\ud83d\u12`, `\ud83dxx\ude00`, `\777`, `\101`, `\18`, `\0`, `\00`, `a\`,
	`\x4`, `\xzz`, `\x41\x42\x`, `\x41\x4`, `\xc3\xa9`, `\Uffffffff`, `\U00110000`, `\u0000`, `\u0007\u001b`, `\ud800\udc00`, `\udc00\ud800`, `\ud83d\ude0`,
	`pre \u043f\u0440\u0438\u0432\u0435\u0442 post`, `\\u00e9`, `\q\w\e`, `\u00zz`, `\U0001F60`, `\3`, `\377\400`, `\x00`, `\u+123`, `\u-123`, `\u 123`, `\x+1`,
}

var strMultiline = []string{
	"panic: runtime error: index out of range", "goroutine 1 [running]:", "main.main()", "\t/app/main.go:12 +0x1d", "http: panic serving 1.2.3.4", "[signal SIGSEGV]",
	"Unhandled exception. System.NullReferenceException: Object reference", "   at Program.Main() in /app/Program.cs:line 5", "   --- End of stack trace ---",
	"WARNING: DATA RACE", "==================", "Write at 0x00c000 by goroutine 7:", "Previous read at 0x00c000 by goroutine 6:", "Goroutine 7 (running) created at:",
	"abc\n", "abc", "\\n", "a\\\\n", "n", "a\\", "b line", "s line", "starts",
}

// raw JSON values that are not strings
var rawScalars = []string{
	"null", "true", "false", "0", "-0", "1", "-1", "1.5", "1e400", "-1e-400", "12345678901234567890123", "9223372036854775808", "-9223372036854775809",
	"0.1e+5", "1E5", "18446744073709551616", "1624379067", "3", "0.0000000000000000000000001",
}

var rawContainers = []string{
	`{}`, `[]`, `{"b":"x"}`, `{"b":{"c":1,"d":"z"},"e":[1],"c":"cc"}`, `[1,"a",null]`, `[{"x":1},{"y":[2]},3,"s",{}]`, `[{"a":{"b":"q"}},{"message":"m1"},{"message":"m2","level":"error"}]`,
	`[[],[[]],{}]`, `{"b":[{"c":1}],"":0,"a.b":1,"b":2}`, `{"b":null,"c":{"d":{"e":{"f":{"g":[1,[2,[3]]]}}}}}`, `{"b":"\ud83d\ude00","c":"\ud800"}`,
	`{"k0":0,"k1":1,"k2":2,"k3":3,"k4":4,"k5":5,"k6":6,"k7":7,"k8":8,"k9":9,"k10":10,"k11":11,"k12":12,"k13":13,"k14":14,"k15":15,"k16":16,"k17":17,"b":"wide","k17":"dup"}`,
	`{"b":{"c":"C","d":"D"},"e":"E"}`, `[{}]`, `[{"k8s_pod":"p"}]`, `{"index":{}}`,
}

// every notable value as raw JSON text
var catalogue = func() []string {
	var out []string
	for _, l := range [][]string{strPlain, strEmbedded, strDecoders, strBackslash, strMultiline} {
		for _, s := range l {
			out = append(out, q(s))
		}
	}
	// escape sequences the decoder must unescape itself
	out = append(out, `"\ud800"`, `"\udc00x"`, `"\ud83d\ude00"`, `"\u0000"`, `"\/\b\f"`, `"\u00e9\u00E9"`, `"{\"a\":\"\\u0041\"}"`, `"\\u00e9"`, `"\\\\"`, `"a\\"`)
	out = append(out, rawScalars...)
	out = append(out, rawContainers...)
	return out
}()

var vocab = []string{"log", "message", "level", "time", "ts", "service", "items", "hash", "t", "b", "msg", "masked", "cutoff", "new", "k8s_pod"}

// catDoc: the document in which every field the configurations name carries the value v
func catDoc(v string, shape int) string {
	switch shape {
	case 1: // "a" itself is the value
		return `{"log":` + v + `,"message":` + v + `,"a":` + v + `,"level":` + v + `,"items":` + v + `}`
	case 2: // value only in the nested places, the rest missing
		return `{"a":{"b":` + v + `,"c":{"d":` + v + `}}}`
	case 3: // the root is the value
		return v
	}
	return `{"log":` + v + `,"message":` + v + `,"level":` + v + `,"time":` + v + `,"ts":` + v + `,"service":` + v + `,"a":{"b":` + v + `,"c":` + v + `,"e":` + v + `},"items":` + v + `}`
}

type evGen struct{ r *hx.Rng }

func (g evGen) str() string {
	r := g.r
	switch r.Intn(13) {
	case 12: // a token of the hash normaliser's built-in patterns, in one of its placements
		return hx.Pick(r, tokenTexts(hx.Pick(r, strTokens)))
	case 0, 1, 2:
		return hx.Pick(r, strPlain)
	case 3, 4:
		return hx.Pick(r, strEmbedded)
	case 5:
		return hx.Pick(r, strDecoders)
	case 6:
		return hx.Pick(r, strBackslash)
	case 7, 8:
		return hx.Pick(r, strMultiline)
	case 9: // concatenation of two pool strings
		return hx.Pick(r, strPlain) + hx.Pick(r, strBackslash)
	case 10: // random bytes
		n := r.Intn(12)
		b := make([]byte, n)
		for i := range b {
			b[i] = "ab\\\"{}[]()'`,: \n\xff\xc3x19u"[r.Intn(22)]
		}
		return string(b)
	default: // a valid embedded document built by the generator itself
		return g.value(2)
	}
}

func (g evGen) value(depth int) string {
	r := g.r
	switch k := r.Intn(20); {
	case k < 9:
		return q(g.str())
	case k < 12:
		return hx.Pick(r, rawScalars)
	case k < 14:
		return hx.Pick(r, rawContainers)
	case k < 17 && depth > 0:
		return g.object(depth-1, r.Intn(5))
	case k < 19 && depth > 0:
		n := r.Intn(4)
		parts := make([]string, n)
		for i := range parts {
			if r.Chance(1, 2) {
				parts[i] = g.object(depth-1, r.Intn(3))
			} else {
				parts[i] = g.value(depth - 1)
			}
		}
		return "[" + strings.Join(parts, ",") + "]"
	default:
		return hx.Pick(r, catalogue)
	}
}

func (g evGen) key() string {
	r := g.r
	switch r.Intn(10) {
	case 0:
		// (the 600-byte key: the prefix loops of flatten / json_decode / decode append prefix + key to event.Buf)
		return hx.Pick(r, []string{"", "a.b", "a b", "k\"q", "\xff", "k\\", "ключ", "0", "1", strings.Repeat("K", 600)})
	case 1, 2, 3:
		return hx.Pick(r, []string{"a", "b", "c", "d", "e"})
	default:
		return hx.Pick(r, vocab)
	}
}

func (g evGen) object(depth, n int) string {
	parts := make([]string, 0, n)
	for i := 0; i < n; i++ {
		parts = append(parts, q(g.key())+":"+g.value(depth))
	}
	return "{" + strings.Join(parts, ",") + "}"
}

// event: one decodable document
func (g evGen) event() string {
	r := g.r
	switch k := r.Intn(40); {
	case k == 0:
		return hx.Pick(r, catalogue) // any root
	case k == 1:
		n := r.Intn(4)
		parts := make([]string, n)
		for i := range parts {
			parts[i] = g.event()
		}
		return "[" + strings.Join(parts, ",") + "]"
	case k == 2:
		return hx.Pick(r, []string{`{"index":{"_index":"x"}}`, `{"delete":{}}`, `{"update":1}`, `{"create":null}`, `{"index":null,"delete":1}`})
	case k < 6:
		return catDoc(g.value(2), r.Intn(4))
	}
	// an object over the vocabulary the configurations use
	var parts []string
	add := func(k, v string) { parts = append(parts, q(k)+":"+v) }
	for _, f := range []string{"log", "message", "level", "time", "service"} {
		if r.Chance(3, 5) {
			add(f, g.value(2))
		}
	}
	if r.Chance(1, 2) {
		switch r.Intn(4) {
		case 0:
			add("a", g.value(2))
		default:
			var sub []string
			for _, f := range []string{"b", "c", "e"} {
				if r.Chance(2, 3) {
					sub = append(sub, q(f)+":"+g.value(2))
				}
			}
			add("a", "{"+strings.Join(sub, ",")+"}")
		}
	}
	if r.Chance(1, 4) {
		add("items", g.value(2))
	}
	if r.Chance(1, 4) {
		add("ts", hx.Pick(r, []string{"1624379067", `"1624379067"`, "1e10", `"x"`, "null"}))
	}
	for n := r.Intn(3); n > 0; n-- {
		add(g.key(), g.value(1))
	}
	if r.Chance(1, 12) { // wide object: insane-json switches to its field map
		for i := 0; i < 18; i++ {
			add("w"+string(rune('a'+i)), hx.Pick(r, rawScalars))
		}
	}
	shuffle(r, parts)
	return "{" + strings.Join(parts, ",") + "}"
}

// lenientJSON: some string inside the event (at any embedding depth <= 3) is a document that
// insane-json accepts although it is not JSON (bad escapes such as \x or \u12, numbers such as .5):
// a decoding action then splices it into the event verbatim. Recorded finding (third-party parser);
// such events run in their own stream so the finding masks nothing else.
func lenientJSON(text []byte) bool {
	root := insaneJSON.Spawn()
	defer insaneJSON.Release(root)
	if err := root.DecodeBytes(text); err != nil {
		return false
	}
	return lenientNode(root.Node, 3)
}

func lenientText(s string, depth int) bool {
	root := insaneJSON.Spawn()
	defer insaneJSON.Release(root)
	if err := root.DecodeString(s); err != nil {
		return false
	}
	if !json.Valid([]byte(s)) {
		// encoding/json gives up beyond depth 10000, which is no leniency of insane-json
		return nestingDepth([]byte(s)) <= 9990
	}
	if depth == 0 {
		return false
	}
	return lenientNode(root.Node, depth-1)
}

func lenientNode(n *insaneJSON.Node, depth int) bool {
	switch {
	case n.IsString():
		return lenientText(n.AsString(), depth)
	case n.IsArray():
		for _, x := range n.AsArray() {
			if lenientNode(x, depth) {
				return true
			}
		}
	case n.IsObject():
		for _, f := range n.AsFields() {
			if lenientNode(f.AsFieldValue(), depth) {
				return true
			}
		}
	}
	return false
}

// k8sBad: an event the k8s multiline action answers with Fatal (no meta fields because the root
// is not an object; `log` missing or not a string) or with a slice panic (one-character literal).
func k8sBad(text []byte) bool {
	root := insaneJSON.Spawn()
	defer insaneJSON.Release(root)
	if err := root.DecodeBytes(text); err != nil {
		return false
	}
	return !root.IsObject() || !root.Dig("log").IsString()
}

// ---------------------------------------------------------------------------------------------
// inputs that cross size / count thresholds hard-coded in the code under test

// tokens the hash normaliser's built-in patterns look for (fixed-length ones: uuid 36, md5 32,
// sha1 40, sha256 64 bytes) - none of the other pools has one inside the first 40 bytes
var strTokens = []string{
	"7c1811ed-e98f-4c9c-a9f9-58c757ff494f",                             // uuid
	"7C1811ED-E98F-4C9C-A9F9-58C757FF494F",                             // uuid, upper case
	"098f6bcd4621d373cade4e832627b4f6",                                 // md5
	"a94a8fe5ccb19ba61c4c0873d391e987982fbbd3",                         // sha1
	"9f86d081884c7d659a2feaa0c55ad015a3bf4f1b2b0b822cd15d6c15b0f00a08", // sha256
	"9f86d081884c7d659a2feaa0c55ad015a3bf4f1b2b0b822cd15d6c15b0f00a0",  // 63 hex digits
	"1.2.3.4", "255.255.255.255", "2001:db8::ff00:42:8329", "::1", "fe80::1%eth0",
	"https://some.host.name/some/path?query=1&x=%20#frag", "ftp://u:p@h:21/", "wss://x",
	"www.example.com", "a.b.ru", "user@example.com", "/var/log/app/app.log", "/x",
	"2025-01-13T10:20:40.999999999Z", "2025-01-13 10:20:40", "10:20:40", "2025-01-13",
	"2025-01-13 10:20:40.999999999 +0300 MSK m=+0.000123456", "1ms", "2h45m30.5s", "0x1F", "-1.5e-7", "12345678901234567890123",
	"01:23:45:67:89:ab", "true", "null", "Mon, 02 Jan 2006 15:04:05 MST",
}

// tokenTexts: the token alone (the word-boundary test at both ends of the text), at the start, at
// the end, glued to word characters on either side, and two tokens back to back
func tokenTexts(tok string) []string {
	return []string{tok, tok + " tail", "head " + tok, "x" + tok, tok + "x", "_" + tok + "_", "a " + tok + " b", tok + tok, tok + " " + tok,
		"[" + tok + "]", "\"" + tok + "\"", tok + ".", "=" + tok}
}

// rep: one repeated part of an event text (printed as (count #unit) on the case line)
type rep struct {
	unit string
	n    int
}

// evParts: an input event whose text is the concatenation of strings and rep parts
func evParts(parts ...any) hx.Sx {
	var ps []hx.Sx
	size := 0
	for _, p := range parts {
		switch v := p.(type) {
		case string:
			ps = append(ps, hx.S(v))
			size += len(v)
		case rep:
			ps = append(ps, hx.L(hx.I(v.n), hx.S(v.unit)))
			size += v.n * len(v.unit)
		}
	}
	return hx.L(hx.L(ps...), hx.I(size))
}

// withCap: the input event with the capacity its Buf arrives with (-1 = nil)
func withCap(ev hx.Sx, bufCap int) hx.Sx {
	it := hx.Items(ev)
	return hx.L(it[0], it[1], hx.I(bufCap))
}

// nodeCount: how many slots of the decoder's node pool the document takes: one per value, one per
// field name, and one more per object / array for its end marker
func nodeCount(n *insaneJSON.Node) int {
	c := 1
	switch {
	case n.IsObject():
		c++
		for _, f := range n.AsFields() {
			c += 1 + nodeCount(f.AsFieldValue())
		}
	case n.IsArray():
		c++
		for _, x := range n.AsArray() {
			c += nodeCount(x)
		}
	}
	return c
}

func nodesOfText(text string) int {
	root := insaneJSON.Spawn()
	defer insaneJSON.Release(root)
	if err := root.DecodeString(text); err != nil {
		return -1
	}
	return nodeCount(root.Node)
}

// nodeDoc: an object with the given fields (raw JSON values) padded to EXACTLY n insane-json nodes;
// nested = the padding goes into one object field instead of the root. "" when n is out of reach.
func nodeDoc(fields [][2]string, n int, nested bool) string {
	var parts []string
	for _, f := range fields {
		parts = append(parts, q(f[0])+":"+f[1])
	}
	base := nodesOfText("{" + strings.Join(parts, ",") + "}")
	need := n - base
	if nested {
		need -= 3 // "pad":{} = field, object, end marker
	}
	if base < 0 || need < 0 || need == 1 {
		return ""
	}
	var pad []string
	if need%2 == 1 { // a field holding [] takes three slots, a scalar field two
		pad = append(pad, `"q":[]`)
		need -= 3
	}
	for i := 0; need > 0; i++ {
		pad = append(pad, `"p`+itoa(i)+`":`+itoa(i))
		need -= 2
	}
	if nested {
		parts = append(parts, `"pad":{`+strings.Join(pad, ",")+`}`)
	} else {
		parts = append(parts, pad...)
	}
	return "{" + strings.Join(parts, ",") + "}"
}

func itoa(i int) string { return strconv.Itoa(i) }

// objArray: a JSON array of n objects over the fields the holding / discarding actions look at
func objArray(r *hx.Rng, n int) string {
	els := make([]string, n)
	for i := range els {
		switch r.Intn(6) {
		case 0:
			els[i] = `{"log":` + q(hx.Pick(r, strMultiline)) + `,"service":"s` + itoa(r.Intn(3)) + `","level":"error"}`
		case 1:
			els[i] = `{"log":"a start","message":` + q(hx.Pick(r, strPlain)) + `,"level":` + q(hx.Pick(r, []string{"error", "warn", "info"})) + `}`
		case 2:
			els[i] = `{"log":"b cont","a":{"b":"s` + itoa(i) + `"},"service":"x","level":"l` + itoa(i%7) + `"}`
		case 3:
			els[i] = `{"message":"m` + itoa(i) + `","items":[{"x":1}],"time":"2021-06-22T16:24:27Z"}`
		case 4:
			els[i] = `{}`
		default:
			els[i] = `{"log":"panic: x","level":"v` + itoa(i) + `","service":"s","k` + itoa(i) + `":` + itoa(i) + `}`
		}
	}
	return "[" + strings.Join(els, ",") + "]"
}

// wideObject: an object of n fields k0..k(n-1) (above insane-json's MapUseThreshold when n > 16)
func wideObject(n int, val func(i int) string) string {
	parts := make([]string, n)
	for i := range parts {
		parts[i] = `"k` + itoa(i) + `":` + val(i)
	}
	return "{" + strings.Join(parts, ",") + "}"
}
