package main

// C02 — per-stream commits in read order, once per event; conservation at quiescence.
// Real pipeline (streamer, streams, processors, pools, router, batchers) driven by harness/pipedrv.

import (
	"verif/harness/hmain"
	"verif/harness/hx"
	"verif/harness/pipedrv"
)

func gen(c *hmain.Ctx) {
	var jobs []*pipedrv.Job
	add := func(stream string, o pipedrv.Opts, n int) {
		for i := 0; i < n*c.Scale; i++ {
			jobs = append(jobs, &pipedrv.Job{Stream: stream, Case: pipedrv.GenCase(c.R, o)})
		}
	}
	for i := 0; i < 16*c.Scale; i++ {
		jobs = append(jobs, &pipedrv.Job{Stream: "timeout-vs-put", Case: pipedrv.TimeoutVsPut(2+2*(i%2), i%4 < 2, i%8 < 4)})
	}
	add("basic", pipedrv.FamBasic, 60)
	add("hold", pipedrv.FamHold, 80)
	add("split", pipedrv.FamSplit, 30)
	add("two-holders", pipedrv.FamTwoHolders, 60)
	add("retry", pipedrv.FamRetry, 30)
	add("deadqueue", pipedrv.FamDeadQ, 30)
	// two committers on one stream (batch worker vs. the owning processor's discard): a commit number that moves
	// backwards leaves the stream detaching for ever - later events are accepted and never committed (seed C02 round 4)
	add("commit-race", pipedrv.FamCommitRace, 6)
	add("discard-before-hold", pipedrv.FamDiscardBeforeHold, 20)
	for i := 0; i < 4; i++ {
		jobs = append(jobs, &pipedrv.Job{Stream: "deadqueue", Case: pipedrv.DeadQOvertake(1+i%2, 120+20*i, 50+10*i)})
	}
	// families / directed schedules that cross the scale / history thresholds of /repo/pipeline (what each would expose:
	// pipedrv/gen.go, pipedrv/directed.go)
	add("capacity-1", pipedrv.FamCap1, 10)
	add("slow-flush", pipedrv.FamSlowFlush, 10)
	add("hold-slow", pipedrv.FamHoldSlow, 8)
	add("recycle", pipedrv.FamRecycle, 12)
	add("split-fan", pipedrv.FamSplitFan, 15)
	add("retry-backoff", pipedrv.FamRetryBackoff, 10)
	add("maintenance", pipedrv.FamMaint, 6)
	// both causes of a retry give-up (attempts used up / backoff.Stop on the first failure), without and with a
	// (blocking) dead queue - built for C01 round 4; a batch kept after the give-up is committed twice
	add("retry-stop", pipedrv.FamRetryStop, 8)
	add("deadqueue", pipedrv.FamDeadQStop, 8)
	for i, retry := range []int{3, -1} {
		for _, dq := range []bool{false, true} {
			st := "retry-stop"
			if dq {
				st = "deadqueue"
			}
			for k := 0; k < c.Scale; k++ {
				jobs = append(jobs, &pipedrv.Job{Stream: st, Case: pipedrv.StopGiveUp(1+(i+k)%2, 1+(i+k)%3, retry, dq, 120*((i+k+1)%2), pipedrv.StopRetentions[(i+k)%3])})
			}
		}
	}
	for i := 0; i < 2*c.Scale; i++ {
		jobs = append(jobs, &pipedrv.Job{Stream: "expand-procs", Case: pipedrv.ExpandProcs(2500, 1600, 2+i%3, i%2 == 1)})
	}
	// families that reach code of the anchored files no older family executes (notes/coverage/C02-triage.md; what each
	// would expose: pipedrv/gen.go): In() variety, match / metric options, commits handed to the real file-input provider
	// (plugin/input/file/provider.go commit: monitor 16), shutdown with events in flight, batches sealed by byte size
	for _, f := range pipedrv.CoverageFamilies(16, 10, 20, 24, 8) {
		add(f.Stream, f.Opts, f.N)
	}
	jobs = append(jobs, pipedrv.DirectedStops(c.Scale)...)
	// REAL holding plugins (join, join_template, the k8s multiline action) as one action of the chain: every older family
	// drives scripted actions that follow the hold / propagate protocol by construction, so a real plugin that breaks it - e.g.
	// answers Discard while it still holds the first event of a run: the processor clears the busy mark, stops waiting on the
	// stream, the held event is never flushed and later events overtake it (seed C02 round 5) - was invisible here.  Monitor 17
	// (the hold ledger of Model/PipeGlue.v) and the processor LTS judge the processors' own labels of these runs (generated
	// last: the draws of the older families do not move)
	jobs = append(jobs, pipedrv.RealJobs(c.R, c.Scale, 36, 14, 10)...)
	pipedrv.RunJobs(jobs, 40)
	for _, j := range jobs {
		pipedrv.Stats(c.W.Count, j)
		pipedrv.RealStats(c.W.Count, j)
		c.W.Case(j.Stream, 0, j.Case, j.Obs, true)
	}
}

func main() {
	pipedrv.UseProductionNodePool()
	hmain.Run(&hmain.Prop{ID: "C02",
		Rule: "each case = (pipeline config: processors, pool kind/capacity, event time-out, action count, output kind/workers/batch size/retry/dead queue; per-source feeder scripts of JSON events whose 'ops' field scripts every action: pass/discard/hold/continue/break/split; send delay/failure plan) run on the real pipeline; observable = label trace of streams, processors, finalize, batchers. Threshold-crossing families: capacity-1, slow-flush (flush >= 100 ms), hold-slow (event time-out > 200 ms), recycle (feeder op 6: pads up to 64 KiB / > 64 JSON nodes; op 'g' grows Buf; 4th case element = (avgEventSize retentionMs multiplierPercent maintenanceMs)), split-fan (0-14 children with their own ops), retry-backoff, maintenance; directed expand-procs / stale-unblock-slow. Coverage families (notes/coverage): in-variety (ext's 6th element = ((key value) ...) options of pipedrv.xopts: decoder raw / cri / auto / suggested, MaxEventSize drop / cut-off, antispam threshold, meta data, source-name meta field, saved stream offsets; empty records, non-CRI lines), match-variety (match modes or / and_prefix / or_prefix / do_if / invert, metric options), file-commit (InputPlugin.Commit handed to the real file-input jobProvider.commit: labels 118 / 119), early-stop (Pipeline.Stop with events in flight, random and directed stop-while-held; feeder op 7 asks for the stop; labels 116 / 120), batch-bytes (BatchSizeBytes). Real holding actions (pipedrv/real.go, options 12-15: one action of the chain is the REAL join / join_template / k8s multiline plugin, created by its registered factory and run by the real processor; the other actions stay scripted): real-join, real-join-template, real-k8s-multiline with option variety (max_event_size small enough to be reached, negate, regexp pairs / templates, Settings.MaxEventSize and split_event_size for k8s), 1-8 processors, several sources and streams, pauses longer than event time-out + streamer heartbeat; directed real-join-overlimit (a continuation line past max_event_size, then a pause, then more lines). Every case is non-trivial (>= 3 events); distinct = distinct case text.",
		Gen:  gen, Exec: func(which int, cs hx.Sx) hx.Sx { return pipedrv.RunCase(cs) }})
}
