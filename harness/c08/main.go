package main

// C08 — Batcher. Case/observable format: see harness/batchdrv. Cases are executed concurrently
// (each needs 100-300 ms of real time because of the 100 ms heartbeat), labels are demultiplexed
// per batcher.

import (
	"fmt"
	"sync"
	"time"

	"verif/harness/batchdrv"
	"verif/harness/hmain"
	"verif/harness/hx"
)

// base tolerance (ms) the model grants per scheduling hop in a clocked case; the measured scheduling latency of the run is added
const clockSlackMs = 250

func exec(which int, cs hx.Sx) hx.Sx { return batchdrv.RunCase(cs) }

type job struct {
	stream string
	cs     hx.Sx
	obs    hx.Sx
	tm     batchdrv.Timing
}

func gen(c *hmain.Ctx) {
	r := c.R
	var jobs []*job
	add := func(stream string, cs hx.Sx) { jobs = append(jobs, &job{stream: stream, cs: cs}) }
	nextID := 0
	// sizeMode of one adder script: 0 = every event has Size >= 1 (events taken from the event pool: Size = len(bytes)),
	// 1 = every event has Size 0 (children built by processor.Spawn for `split`, time-out events: Size is never set),
	// 2 = mixed, 3 = a run of zero-size events first, then sized ones
	sizeOf := func(mode, i, n, maxSize int) int {
		switch mode {
		case 1:
			return 0
		case 2:
			if r.Chance(1, 2) {
				return 0
			}
		case 3:
			if 2*i < n+1 {
				return 0
			}
		}
		return r.Range(1, maxSize)
	}
	pickSizeMode := func() int {
		switch r.Intn(8) {
		case 0, 1:
			return 1
		case 2, 3:
			return 2
		case 4:
			return 3
		}
		return 0
	}
	mkAdder := func(n int, maxSize int, sleeps bool, parents bool) hx.Sx {
		var ops []hx.Sx
		mode := pickSizeMode()
		c.W.Count(fmt.Sprintf("adder size mode %d (0 sized, 1 all zero-size, 2 mixed, 3 zero-size head)", mode))
		for i := 0; i < n; i++ {
			nextID++
			kind := 0
			if parents && r.Chance(1, 6) {
				kind = 2 // child-parent
			} else if parents && r.Chance(1, 6) {
				kind = 1 // child
			}
			sz := sizeOf(mode, i, n, maxSize)
			if sz == 0 && kind == 0 && r.Chance(1, 2) {
				kind = 1 // what Spawn builds: a child without a Size
			}
			ops = append(ops, hx.L(hx.I(0), hx.I(nextID), hx.I(sz), hx.I(kind)))
			if sleeps && r.Chance(1, 5) {
				ops = append(ops, hx.L(hx.I(1), hx.I(r.Range(1, 40))))
			}
		}
		return hx.L(ops...)
	}
	mkPlan := func(n int, maxDelay int, fails func() int) hx.Sx {
		var p []hx.Sx
		for i := 0; i < n; i++ {
			p = append(p, hx.L(hx.I(r.Intn(maxDelay+1)), hx.I(fails())))
		}
		return hx.L(p...)
	}
	nofail := func() int { return 0 }
	// every generated case is CLOCKED: stop tuple (mode (arg 0 0 maintenanceMs clockSlackMs)), see batchdrv
	stopSx := func(mode, arg, maintMs int) hx.Sx {
		return hx.L(hx.I(mode), hx.L(hx.I(arg), hx.I(0), hx.I(0), hx.I(maintMs), hx.I(clockSlackMs)))
	}
	cfgSx := func(w, cnt, bytes, flush int, retriable bool, retry int, dq bool, dqw, dqc int) hx.Sx {
		return hx.L(hx.I(w), hx.I(cnt), hx.I(bytes), hx.I(flush), hx.Bool(retriable), hx.I(retry), hx.Bool(dq), hx.I(dqw), hx.I(dqc))
	}
	// 1. directed: later batch finishes first (W = 2..3), formation order must be restored
	for i := 0; i < 20*c.Scale; i++ {
		nextID = 0
		w := r.Range(2, 4)
		cnt := r.Range(1, 4)
		plan := hx.L(hx.L(hx.I(r.Range(30, 80)), hx.I(0)), hx.L(hx.I(0), hx.I(0)), hx.L(hx.I(r.Range(0, 30)), hx.I(0)))
		add("later-first", hx.L(cfgSx(w, cnt, 0, 30, false, 0, false, 0, 0), hx.L(mkAdder(cnt*r.Range(3, 6), 10, false, false)), plan, stopSx(0, 0, 0)))
	}
	// 2. random: workers 1..4, count/byte limits, several concurrent adders, idle gaps, child/parent kinds
	for i := 0; i < 120*c.Scale; i++ {
		nextID = 0
		w := r.Range(1, 4)
		cnt, bytes := r.Range(0, 5), 0
		if cnt == 0 || r.Chance(1, 3) {
			bytes = r.Range(5, 60)
		}
		na := r.Range(1, 4)
		var adders []hx.Sx
		for a := 0; a < na; a++ {
			adders = append(adders, mkAdder(r.Range(1, 25), 30, r.Bool(), r.Chance(1, 3)))
		}
		add("random", hx.L(cfgSx(w, cnt, bytes, r.Range(5, 60), false, 0, false, 0, 0), hx.L(adders...), mkPlan(40, 25, nofail), stopSx(0, 0, 0)))
	}
	// 3. idle flush: fewer events than the count limit, no further arrivals
	for i := 0; i < 30*c.Scale; i++ {
		nextID = 0
		add("idle-flush", hx.L(cfgSx(r.Range(1, 3), r.Range(5, 9), 0, r.Range(5, 80), false, 0, false, 0, 0), hx.L(mkAdder(r.Range(1, 4), 10, false, false)), hx.L(), stopSx(0, 0, 0)))
	}
	// 4. Stop concurrent with adders
	for i := 0; i < 60*c.Scale; i++ {
		nextID = 0
		na := r.Range(1, 4)
		var adders []hx.Sx
		for a := 0; a < na; a++ {
			adders = append(adders, mkAdder(r.Range(5, 40), 10, r.Chance(1, 3), false))
		}
		add("stop-race", hx.L(cfgSx(r.Range(1, 3), r.Range(1, 3), 0, 20, false, 0, false, 0, 0), hx.L(adders...), mkPlan(20, 3, nofail), stopSx(1, r.Intn(6), 0)))
	}
	// 5. directed: Stop placed between mu.Unlock and the channel send of a sealing Add (gate)
	for i := 0; i < 10*c.Scale; i++ {
		nextID = 0
		add("stop-in-window", hx.L(cfgSx(r.Range(1, 3), 1, 0, 20, false, 0, false, 0, 0), hx.L(mkAdder(r.Range(1, 3), 10, false, false)), hx.L(), stopSx(2, r.Intn(3), 0)))
	}
	// 6. flush time-out at or above the 100 ms heartbeat (production defaults: 200 ms .. 1 s; the older streams stay below
	//    80 ms, where the very first tick after the Add already finds the batch due).  Here a partly filled batch is looked at
	//    by 2..4 ticks (label NotReady with n > 0 and elapsed <= timeout) before the tick that seals it with status 2.
	//    A regression that restarts batch.startTime on every tick / every getBatch of a batch in progress, or compares against
	//    the heartbeat period instead of the time-out, passes the older streams and fails here: NotReady with elapsed > timeout
	//    (LTS guard) or never a Seal (LStuck 3, monitor m_not_stuck); oracle 'idle-flush-lag' bounds the wait from above
	for i := 0; i < 14*c.Scale; i++ {
		nextID = 0
		add("idle-flush-slow", hx.L(cfgSx(r.Range(1, 3), r.Range(5, 9), 0, r.Range(100, 400), false, 0, false, 0, 0), hx.L(mkAdder(r.Range(1, 4), 10, false, false)), hx.L(), stopSx(0, 0, 0)))
	}
	//    directed "two ticks": one or two events added 0 / 30 / 60 / 120 ms after the start, time-outs 150 / 250 / 350 ms
	for _, flush := range []int{150, 250, 350} {
		for _, wait := range []int{0, 30, 60, 120} {
			for _, sz := range [][2]int{{3, 4}, {0, 0}, {0, 4}} { // sized; zero-size children (kind 1); zero-size head
				nextID = 0
				kind := 0
				if sz[0] == 0 {
					kind = 1
				}
				adder := hx.L(hx.L(hx.I(1), hx.I(wait)), hx.L(hx.I(0), hx.I(1), hx.I(sz[0]), hx.I(kind)), hx.L(hx.I(1), hx.I(wait/2)), hx.L(hx.I(0), hx.I(2), hx.I(sz[1]), hx.I(0)))
				add("two-ticks", hx.L(cfgSx(1+wait%2, 5, 0, flush, false, 0, false, 0, 0), hx.L(adder), hx.L(), stopSx(0, 0, 0)))
			}
		}
	}
	// 7. the MaintenanceFn hook (batch.go work(): after commitBatch, once MaintenanceInterval has passed; elasticsearch,
	//    clickhouse, ... set it) on random multi-worker cases: it runs in the worker between two batches and sleeps 1 ms.
	//    A regression that calls it inside the commit section or before commitBatch shows as a label order the LTS rejects
	//    only if it reorders commits; the stream mainly keeps the hook path executed (it was never set by any driver)
	for i := 0; i < 20*c.Scale; i++ {
		nextID = 0
		na := r.Range(1, 3)
		var adders []hx.Sx
		for a := 0; a < na; a++ {
			adders = append(adders, mkAdder(r.Range(3, 20), 30, true, r.Chance(1, 3)))
		}
		add("maintenance", hx.L(cfgSx(r.Range(1, 4), r.Range(1, 4), 0, r.Range(5, 40), false, 0, false, 0, 0), hx.L(adders...), mkPlan(30, 10, nofail),
			stopSx(0, 0, r.Range(1, 20))))
	}
	// 8. PACED arrivals: events keep arriving every g ms (g well below the flush time-out) for ~2.2 s = dozens of flush time-outs,
	//    and neither limit of the batch is ever reached (count limit 1000, or only a byte limit the sizes never add up to): the
	//    time-out is the ONLY thing that flushes, and it must count from the FIRST Add into the empty batch, whatever arrives
	//    later and whatever the sizes are (zero-size events: children of `split` built by processor.Spawn, time-out events).
	//    A regression that restarts batch.startTime on a later Add (every Add, every Add while eventsSize == 0, every tick that
	//    finds the batch not due, ...) never seals while the traffic lasts: the first event waits the whole 2.2 s.  Judged by the
	//    model from the driver's clock: monitor m_handoff (every event: Add label -> OutBegin label of its batch) and the
	//    timed LTS of Model/BatcherAge.v (a NotReady decision on a batch whose OLDEST event is older than the time-out is refused).
	//    The cases are put first: they run next to all the others.
	var paced []*job
	pacedCase := func(w, cnt, bytes, flush, gap, total, sizeMode, nAdders, kindMode int) {
		nextID = 0
		scripts := make([][]hx.Sx, nAdders)
		n := total / gap
		for i := 0; i < n; i++ {
			nextID++
			kind := 0
			sz := sizeOf(sizeMode, i, n, 30)
			if kindMode == 1 || (kindMode == 2 && sz == 0) {
				kind = 1
			}
			a := i % nAdders
			scripts[a] = append(scripts[a], hx.L(hx.I(0), hx.I(nextID), hx.I(sz), hx.I(kind)), hx.L(hx.I(1), hx.I(gap*nAdders)))
		}
		var adders []hx.Sx
		for a := range scripts {
			if a > 0 { // the adders take turns: adder a starts a*gap later
				scripts[a] = append([]hx.Sx{hx.L(hx.I(1), hx.I(a*gap))}, scripts[a]...)
			}
			adders = append(adders, hx.L(scripts[a]...))
		}
		c.W.Count(fmt.Sprintf("paced: size mode %d", sizeMode))
		paced = append(paced, &job{stream: "paced", cs: hx.L(cfgSx(w, cnt, bytes, flush, false, 0, false, 0, 0), hx.L(adders...), hx.L(), stopSx(0, 0, 0))})
	}
	// directed: the shape of an output behind `split` (zero-size children every 30 ms, time-out 150 ms, count limit far away);
	// all-zero sizes with only a byte limit; a zero-size head followed by sized events
	pacedCase(2, 1000, 0, 150, 30, 2200, 1, 1, 1)
	pacedCase(1, 0, 4096, 40, 10, 2200, 1, 1, 2)
	pacedCase(2, 1000, 0, 50, 12, 2200, 3, 2, 2)
	pacedCase(1, 1000, 1<<20, 60, 20, 2200, 0, 1, 0)
	for i := 0; i < 8*c.Scale; i++ {
		cnt, bytes := 1000, 0
		switch r.Intn(3) {
		case 0:
			cnt, bytes = 0, 1<<20
		case 1:
			bytes = 1 << 20
		}
		flush := r.Range(30, 70)
		if r.Chance(1, 4) {
			flush = r.Range(100, 160)
		}
		pacedCase(r.Range(1, 3), cnt, bytes, flush, r.Range(flush/6+2, flush/2), 2200, []int{1, 1, 1, 2, 2, 3, 3, 0}[r.Intn(8)], r.Range(1, 2), r.Intn(3))
	}
	runJobs(c, append(paced, jobs...))
}

// stats + the timing oracle of "bounded staleness": a batch sealed by time-out was sealed within FlushTimeout + one heartbeat
// period (100 ms) + 2 s of scheduling slack after its first Add (startTime is set no later than the first Add)
func timing(c *hmain.Ctx, j *job) {
	flush := time.Duration(j.tm.Cfg.FlushMs) * time.Millisecond
	for _, d := range j.tm.FlushLag {
		c.W.Oracle("idle-flush-lag", d <= flush+100*time.Millisecond+2*time.Second, fmt.Sprintf("sealed by time-out %v after the first Add, flush time-out %v; case %s", d, flush, hx.String(j.cs)))
	}
	if j.tm.Cfg.FlushMs >= 100 {
		c.W.Count("flush time-out >= 100 ms heartbeat")
	}
	seen, tick, pendingTimeoutSeal := 0, false, false
	for _, l := range hx.Items(j.obs) {
		o := hx.Items(l)
		if hx.Int(o[0]) != 0 {
			continue
		}
		switch k := hx.Int(o[1]); {
		case k == 11:
			tick = true
			continue
		case k == 2 || k == batchdrv.LClock || k == batchdrv.LJitter:
			continue
		case k == 15 && hx.Int(o[2]) > 0 && tick: // a heartbeat tick found a non-empty batch not yet due
			seen++
		case k == 1: // Add
			if pendingTimeoutSeal {
				c.W.Count("batch sealed by time-out while arrivals continue (an Add follows)")
				pendingTimeoutSeal = false
			}
			if hx.Int(o[4]) == 0 {
				c.W.Count("Add of a zero-size event")
			}
		case k == 3: // Seal
			if hx.Int(o[4]) == 2 && seen >= 2 {
				c.W.Count("batch sealed by time-out after >= 2 ticks had found it not yet due")
			}
			if hx.Int(o[4]) == 2 && hx.Int(o[5]) == 0 && hx.Int(o[3]) >= 2 {
				c.W.Count("batch of >= 2 zero-size events (eventsSize 0) sealed by time-out")
			}
			pendingTimeoutSeal = hx.Int(o[4]) == 2
			seen = 0
		case k == batchdrv.LMaint && hx.Int(o[2]) == 1:
			c.W.Count("maintenance hook ran")
		}
		tick = false
	}
}

func runJobs(c *hmain.Ctx, jobs []*job) {
	sem := make(chan struct{}, 48)
	var wg sync.WaitGroup
	for _, j := range jobs {
		j := j
		wg.Add(1)
		sem <- struct{}{}
		go func() {
			defer wg.Done()
			defer func() { <-sem }()
			j.obs, j.tm = batchdrv.RunCaseT(j.cs)
		}()
	}
	wg.Wait()
	for _, j := range jobs {
		timing(c, j)
		c.W.Case(j.stream, 0, j.cs, j.obs, true)
	}
}

func main() {
	hmain.Run(&hmain.Prop{ID: "C08",
		Rule: "each case = (batcher config, per-goroutine Add/sleep scripts, OutFn delay plan, Stop placement) run on the real Batcher; observable = the full label trace (verifTrace sites inside the critical sections + Controller.Commit calls + recovered panics) + the driver's clock: entry (0 108 us) = scheduling latency measured by an independent 1 ms sleeper during the case, entries (0 107 us) = time at which the following Add / Seal / Take / OutBegin / NotReady label was logged; the stop tuple is (mode (arg 0 0 maintenanceMs clockSlackMs)). Event sizes: every adder script is all-sized, all zero-size (Size 0: children of split, time-out events), mixed, or zero-size head. Stream paced: arrivals every g ms (g < flush time-out) for 2.2 s with limits never reached. Streams idle-flush-slow / two-ticks: flush time-out 100..400 ms (>= the 100 ms heartbeat); maintenance: the stop tuple's arg is (arg 0 0 maintenanceMs). Every case is non-trivial (>= 1 Add); distinct = distinct case text.",
		Gen: gen, Exec: exec})
}
