package main

// which = 11 — error paths of the loaders and of the generic saver that no table-driven stream reaches
// (stream "load-save-errors"), and the stream "parse-dup" (which 1): files that list a source id / a stream twice.
//
//	case = (0 mode)            offset.LoadYAML where the path cannot be read: mode 0 = it is a directory (os.Open works,
//	                           the callback's io.ReadAll fails: simple_offset.go:15), 1 = a component of the path is a
//	                           regular file (os.Open fails with ENOTDIR, not "not exist": offset.go:29)
//	       obs = (code nkeys)  code 0 = nil error, 1 = error, 2 = panic; nkeys = entries in the map handed to LoadYAML afterwards
//	case = (1 ((#key v) ...))  offset.SaveYAML(old) undisturbed, then offset.SaveYAML of a value the encoder rejects
//	                           (yamlValue.Save returns the error before it writes: simple_offset.go:23) over it
//	       obs = (code #before #after loaded)   code as above (of the second save); before / after = bytes of the offsets
//	                           file; loaded = 1 when LoadYAML afterwards yields old again, 0 otherwise
//	case = (2)                 the file input's offsetDB.load of a path that exists, is no directory and cannot be read
//	                           (/proc/self/mem: open works, read fails with EIO; offset.go:64: "can't read offset file" panic)
//	       obs = loadres
//	case = (3 op0 #pre #post nfiles)   a provider STARTS on an offsets file it did not write (damaged, torn, hand-edited):
//	                           content = pre ++ <source id of the one watched file, or 0 when nfiles = 0> ++ post; the real
//	                           NewJobProvider + start() with offsets_op op0, then - when start returned - the real stop()
//	       obs = (code loadres)  code 0 started and stopped / 7 start panicked ("can't load offsets", "no streams in
//	                           source"); loadres = the real load of the offsets file afterwards (source id of the watched
//	                           file -> 0, file names without directory)

import (
	"fmt"
	"os"
	"path/filepath"
	"reflect"
	"strconv"
	"strings"
	"time"

	"github.com/ozontech/file.d/offset"
	filein "github.com/ozontech/file.d/plugin/input/file"

	"verif/harness/hmain"
	"verif/harness/hx"
)

func execErrors(cs hx.Sx) hx.Sx {
	it := hx.Items(cs)
	d := scratch()
	defer os.RemoveAll(d)
	code := func(err error, pn string) int {
		switch {
		case pn != "":
			return 2
		case err != nil:
			return 1
		}
		return 0
	}
	switch hx.Int(it[0]) {
	case 0:
		path := filepath.Join(d, "offsets.yaml")
		if hx.Int(it[1]) == 0 {
			_ = os.MkdirAll(path, 0o755)
		} else {
			_ = os.WriteFile(path, []byte("a: 1\n"), 0o600)
			path = filepath.Join(path, "offsets.yaml")
		}
		got := map[string]int64{}
		var err error
		pn := hx.Catch(func() { err = offset.LoadYAML(path, &got) })
		return hx.L(hx.I(code(err, pn)), hx.I(len(got)))
	case 1:
		old := map[string]int64{}
		for _, kv := range hx.Items(it[1]) {
			a := hx.Items(kv)
			old[fmt.Sprintf("%x", hx.Bytes(a[0]))] = hx.Int(a[1])
		}
		path := filepath.Join(d, "offsets.yaml")
		if err := offset.SaveYAML(path, old); err != nil {
			return badObs("old save: " + err.Error())
		}
		before, _ := os.ReadFile(path)
		var err error
		pn := hx.Catch(func() { err = offset.SaveYAML(path, map[string]any{"k": func() {}}) })
		after, _ := os.ReadFile(path)
		got := map[string]int64{}
		lerr := offset.LoadYAML(path, &got)
		return hx.L(hx.I(code(err, pn)), hx.B(before), hx.B(after), hx.Bool(lerr == nil && reflect.DeepEqual(got, old)))
	case 2:
		var rows []filein.VerifC07Job
		var err error
		pn := hx.Catch(func() { rows, err = filein.VerifC07Load("/proc/self/mem") })
		return loadres(rows, err, pn)
	case 3:
		op0 := int(hx.Int(it[1]))
		logs := filepath.Join(d, "logs")
		state := filepath.Join(d, "state")
		_ = os.MkdirAll(logs, 0o755)
		_ = os.MkdirAll(state, 0o755)
		cur := filepath.Join(state, "offsets.yaml")
		sid := uint64(0)
		if hx.Int(it[4]) == 1 {
			path := filepath.Join(logs, "a.log")
			_ = os.WriteFile(path, []byte("0123456789"), 0o600)
			sid = c07SourceID(path)
		}
		content := hx.Str(it[2]) + strconv.FormatUint(sid, 10) + hx.Str(it[3])
		if err := os.WriteFile(cur, []byte(content), 0o600); err != nil {
			return badObs(err.Error())
		}
		res := 0
		m, to := within(func() {
			p := c07NewProv(cur, []string{filepath.Join(logs, "*")}, false, op0, time.Hour)
			p.start(false)
			c07Stop(p.jp)
		})
		if to {
			return hx.L(hx.I(9), hx.L(hx.I(1)))
		}
		if m != "" {
			res = 7
		}
		var rows []filein.VerifC07Job
		var err error
		pn := hx.Catch(func() { rows, err = filein.VerifC07Load(cur) })
		for i := range rows {
			rows[i].Filename = strings.TrimPrefix(rows[i].Filename, logs+"/")
			if rows[i].SourceID == sid {
				rows[i].SourceID = 0
			}
		}
		return hx.L(hx.I(res), loadres(rows, err, pn))
	}
	return badObs("kind")
}

func genErrors(c *hmain.Ctx) {
	r := c.R
	c.Do("load-save-errors", 11, hx.L(hx.I(0), hx.I(0)), true)
	c.Do("load-save-errors", 11, hx.L(hx.I(0), hx.I(1)), true)
	c.Do("load-save-errors", 11, hx.L(hx.I(2)), true)
	for i := 0; i < 6*c.Scale; i++ {
		var kvs []hx.Sx
		for n := r.Range(0, 4); n > 0; n-- {
			kvs = append(kvs, hx.L(hx.S(genName(r, nastyStreams)), hx.Z(genOffset(r))))
		}
		c.Do("load-save-errors", 11, hx.L(hx.I(1), hx.L(kvs...)), true)
	}

	// ---- a provider starts on a file it did not write: intact, torn at every kind of place, a block without streams, a
	//      source listed twice; with and without the watched file; every offsets_op
	for i := 0; i < 120*c.Scale; i++ {
		pre := "- file: " + genName(r, nastyFiles) + "\n  inode: 5\n  source_id: "
		post := "\n"
		if r.Chance(3, 4) {
			post += "  last_read_timestamp: " + strconv.Itoa(r.Intn(100000)) + "\n"
		}
		post += "  streams:\n"
		if !r.Chance(1, 6) { // else: a block without streams
			for n := r.Range(1, 3); n > 0; n-- {
				post += "    " + hx.Pick(r, []string{"stdout", "", "a: 5", "stderr", "ж"}) + strconv.Itoa(n) + ": " + strconv.FormatInt(genOffset(r), 10) + "\n"
			}
		}
		if r.Chance(1, 3) { // another source, not in the directory
			other := "- file: /gone.log\n  inode: 6\n  source_id: 999\n  streams:\n    stdout: 5\n"
			if r.Bool() {
				post += other
			} else {
				pre = other + pre
			}
		}
		kind := "intact"
		switch r.Intn(4) {
		case 0:
			post = post[:r.Intn(len(post))]
			kind = "torn"
		case 1:
			b := []byte(post)
			b[r.Intn(len(b))] = hx.Pick(r, []byte{' ', ':', '-', '\n', '0', 'x'})
			post = string(b)
			kind = "edited"
		}
		nf := r.Intn(2)
		op0 := 0
		if r.Chance(1, 4) {
			op0 = r.Range(1, 2)
		}
		c.W.Count(fmt.Sprintf("load-save-errors: start on a foreign file: %s, offsets_op=%d, watched files=%d", kind, op0, nf))
		c.Do("start-foreign-file", 11, hx.L(hx.I(3), hx.I(op0), hx.S(pre), hx.S(post), hx.I(nf)), true)
	}

	// ---- parse-dup (which 1): the writer never lists a source id or a stream twice (jobs is a map, offsets a SliceMap);
	//      the parser refuses such files instead of merging the blocks (offset.go:127, :176)
	block := func(sid uint64, streams []filein.VerifC07Stream) string {
		var b strings.Builder
		b.WriteString("- file: " + genName(r, nastyFiles) + "\n  inode: " + strconv.Itoa(r.Intn(100)) + "\n  source_id: " + strconv.FormatUint(sid, 10) + "\n")
		if r.Chance(2, 3) {
			b.WriteString("  last_read_timestamp: " + strconv.Itoa(r.Intn(1000)) + "\n")
		}
		b.WriteString("  streams:\n")
		for _, s := range streams {
			b.WriteString("    " + s.Name + ": " + strconv.FormatInt(s.Offset, 10) + "\n")
		}
		return b.String()
	}
	someStreams := func() []filein.VerifC07Stream {
		var ss []filein.VerifC07Stream
		seen := map[string]bool{}
		for n := r.Range(1, 3); n > 0; n-- {
			name := hx.Pick(r, nastyStreams)
			if seen[name] || strings.Contains(name, "\n") {
				continue
			}
			seen[name] = true
			ss = append(ss, filein.VerifC07Stream{Name: name, Offset: genOffset(r)})
		}
		return ss
	}
	for i := 0; i < 200*c.Scale; i++ {
		sids := []uint64{uint64(r.Intn(3)), genU64(r), 1<<64 - 1}
		var b strings.Builder
		dupSid, dupStream := false, false
		used := map[uint64]bool{}
		for n := r.Range(2, 4); n > 0; n-- {
			sid := hx.Pick(r, sids)
			ss := someStreams()
			if len(ss) > 0 && r.Chance(1, 3) { // a stream listed twice (same or another offset), not always adjacent
				dup := ss[r.Intn(len(ss))]
				if r.Bool() {
					dup.Offset = genOffset(r)
				}
				ss = append(ss, dup)
				dupStream = true
			}
			dupSid = dupSid || used[sid]
			used[sid] = true
			b.WriteString(block(sid, ss))
		}
		c.W.Count(fmt.Sprintf("parse-dup: duplicate source id=%v duplicate stream=%v", dupSid, dupStream))
		c.Do("parse-dup", 1, hx.S(b.String()), true)
	}
}
