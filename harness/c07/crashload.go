package main

// which=6 — what a restarted process LOADS after a save crashed (stream family "crash-load-*").
//
//	case = (target old new cp override names)
//	  target   0 file input's offsetDB (real save / load through verif_export_c07.go)
//	           1 offset.Offset with a raw callback: the snapshot is the byte string, Load reports the bytes it was handed
//	           2 offset.SaveYAML / offset.LoadYAML of a map[string]int64 (the real yamlValue callback)
//	  old      () no offsets file yet: the crash hits the very FIRST save | (x) committed by a real, undisturbed save
//	  new      x = table | #bytes | ((#key value) ...)
//	  cp       (0) before the first call | (1 cut) the write is interrupted after cut bytes | (2) everything before the
//	           rename was done | (3) the save ran to its end
//	  override () | (0) the leftover temp files are gone | (1 #bytes) every leftover temp file — and every name
//	           cur+suffix of `names` ("/x" = the sibling file x) — holds these bytes: torn at another length, garbage
//	           after a power loss, a complete foreign snapshot left by an older interrupted save
//	obs  = (oldb #newb dir1 dir2 load)
//	  oldb     () | (#bytes of the offsets file after the save of old);  newb = the complete new snapshot
//	  dir      (cur (#other ...)): the offsets file and every other file of the directory (sorted by name), after the
//	           crash (dir1) and after the override (dir2)
//	  load     target 0: loadres | target 1: (0) callback not invoked, (1 #bytes), (2) error, (3) panic
//	           target 2: (0 ((#key value) ...)) sorted, (1) error, (2) panic
//
// Targets 1 and 2 drive the REAL Offset.Save up to the crash: the callback writes the first cut bytes of the
// snapshot into the writer Save hands it and then the "process dies" (a panic the harness recovers; the file
// system keeps what the real code did until then — which temp name, which content). cp (2) = the callback dies
// after the complete write: on disk that is the state between write and rename (the fsync in between changes
// durability only). The real offsetDB.save writes its own buffer and cannot be stopped in the middle without a
// hook: for target 0 the crash state is produced by the harness — a prefix of the bytes a real save of the new
// table produced, under the temp name(s) a real save was seen to create (inotify, see learnFiled) — and the
// REAL load runs on it. The real save of target 0 killed at every system call is stream fault-filed (which 2).

import (
	"io"
	"os"
	"path/filepath"
	"sort"
	"strings"
	"syscall"

	"github.com/ozontech/file.d/offset"
	filein "github.com/ozontech/file.d/plugin/input/file"

	"verif/harness/hmain"
	"verif/harness/hx"
)

type crashMark struct{}

// rawCB: LoadSaver whose snapshot is a byte string
type rawCB struct {
	data    []byte
	die     bool // Save: write data[:cut], then the process dies
	cut     int
	fed     []byte
	invoked bool
}

func (c *rawCB) Save(w io.Writer) error {
	if !c.die {
		_, err := w.Write(c.data)
		return err
	}
	n := c.cut
	if n > len(c.data) {
		n = len(c.data)
	}
	if n > 0 {
		if _, err := w.Write(c.data[:n]); err != nil {
			return err
		}
	}
	panic(crashMark{})
}

func (c *rawCB) Load(r io.Reader) error {
	c.invoked = true
	b, err := io.ReadAll(r)
	c.fed = b
	return err
}

// crashSave runs the real Offset.Save; the process "dies" inside the callback after cut bytes
func crashSave(path string, data []byte, cut int) (died bool) {
	defer func() {
		if r := recover(); r != nil {
			if _, ok := r.(crashMark); ok {
				died = true
				return
			}
			panic(r)
		}
	}()
	o := offset.NewOffset(path)
	o.Callback = &rawCB{data: data, die: true, cut: cut}
	_ = o.Save()
	return false
}

func kvMap(v hx.Sx) map[string]int64 {
	m := map[string]int64{}
	for _, e := range hx.Items(v) {
		kv := hx.Items(e)
		m[hx.Str(kv[0])] = hx.Int(kv[1])
	}
	return m
}

func kvSx(m map[string]int64) hx.Sx {
	keys := make([]string, 0, len(m))
	for k := range m {
		keys = append(keys, k)
	}
	sort.Strings(keys)
	return hx.List(keys, func(k string) hx.Sx { return hx.L(hx.S(k), hx.Z(m[k])) })
}

// cleanSave: one real, undisturbed save of the value x
func cleanSave(target int, cur string, x hx.Sx) error {
	switch target {
	case 0:
		filein.VerifC07Save(cur, cur+".atomic", decodeTable(x))
		return nil
	case 1:
		o := offset.NewOffset(cur)
		o.Callback = &rawCB{data: hx.Bytes(x)}
		return o.Save()
	default:
		return offset.SaveYAML(cur, kvMap(x))
	}
}

func optBytes(path string) hx.Sx {
	b, err := os.ReadFile(path)
	if err != nil {
		return hx.L()
	}
	return hx.L(hx.B(b))
}

func otherFiles(d, cur string) []string {
	es, _ := os.ReadDir(d)
	var out []string
	for _, e := range es {
		p := filepath.Join(d, e.Name())
		if p != cur {
			out = append(out, p)
		}
	}
	sort.Strings(out)
	return out
}

func dirSx(d, cur string) hx.Sx {
	return hx.L(optBytes(cur), hx.List(otherFiles(d, cur), func(p string) hx.Sx {
		b, _ := os.ReadFile(p)
		return hx.B(b)
	}))
}

// leftoverPath: "/x" = the sibling file x, anything else = a suffix of the offsets file's name
func leftoverPath(d, cur, name string) string {
	if strings.HasPrefix(name, "/") {
		name = name[1:]
		if name == "" || strings.Contains(name, "/") || filepath.Join(d, name) == cur {
			return ""
		}
		return filepath.Join(d, name)
	}
	if name == "" || strings.Contains(name, "/") {
		return ""
	}
	return cur + name
}

func execCrashLoad(cs hx.Sx) hx.Sx {
	it := hx.Items(cs)
	if len(it) != 6 {
		return badObs("crash-load case")
	}
	target := int(hx.Int(it[0]))
	oldx, newx, cp, ov, names := hx.Items(it[1]), it[2], hx.Items(it[3]), hx.Items(it[4]), hx.Items(it[5])
	if target < 0 || target > 2 || len(cp) == 0 {
		return badObs("crash-load case")
	}
	d := scratch()
	defer os.RemoveAll(d)
	cur := filepath.Join(d, "offsets.yaml")

	var out hx.Sx
	pn := hx.Catch(func() {
		// 1. the committed state: one real, undisturbed save (or no offsets file at all)
		if len(oldx) == 1 {
			if err := cleanSave(target, cur, oldx[0]); err != nil {
				out = badObs("old save: " + err.Error())
				return
			}
		}
		oldb := optBytes(cur)

		// the complete new snapshot
		phase := int(hx.Int(cp[0]))
		var newb []byte
		if target == 1 {
			newb = hx.Bytes(newx)
		} else if phase != 3 {
			side := scratch()
			scur := filepath.Join(side, "offsets.yaml")
			err := cleanSave(target, scur, newx)
			newb, _ = os.ReadFile(scur)
			os.RemoveAll(side)
			if err != nil {
				out = badObs("side save: " + err.Error())
				return
			}
		}

		// 2. the save of new, up to the crash
		switch phase {
		case 0:
		case 1, 2:
			cut := len(newb)
			if phase == 1 {
				if len(cp) < 2 {
					out = badObs("crash-load case: cut")
					return
				}
				if c := int(hx.Int(cp[1])); c < cut {
					cut = c
				}
				if cut < 0 {
					cut = 0
				}
			}
			if target == 0 {
				name := ".atomic.0"
				if len(names) > 0 {
					name = hx.Str(names[0])
				}
				p := leftoverPath(d, cur, name)
				if p == "" {
					out = badObs("crash-load case: temp name")
					return
				}
				if err := os.WriteFile(p, newb[:cut], 0o600); err != nil {
					out = badObs("temp file: " + err.Error())
					return
				}
			} else if !crashSave(cur, newb, cut) {
				out = badObs("the save returned without calling the callback")
				return
			}
		case 3:
			if err := cleanSave(target, cur, newx); err != nil {
				out = badObs("new save: " + err.Error())
				return
			}
			if target != 1 {
				newb, _ = os.ReadFile(cur)
			}
		default:
			out = badObs("crash-load case: cp")
			return
		}
		dir1 := dirSx(d, cur)

		// 3. what the file system / an older interrupted save left under the temp names
		if len(ov) > 0 {
			if hx.Int(ov[0]) == 0 {
				for _, p := range otherFiles(d, cur) {
					_ = os.Remove(p)
				}
			} else if len(ov) > 1 {
				b := hx.Bytes(ov[1])
				for _, p := range otherFiles(d, cur) {
					_ = os.WriteFile(p, b, 0o600)
				}
				for _, n := range names {
					if p := leftoverPath(d, cur, hx.Str(n)); p != "" {
						_ = os.WriteFile(p, b, 0o600)
					}
				}
			}
		}
		dir2 := dirSx(d, cur)

		// 4. the restart: the real load
		var load hx.Sx
		switch target {
		case 0:
			load = realLoad(cur)
		case 1:
			cb := &rawCB{}
			var err error
			lp := hx.Catch(func() {
				o := offset.NewOffset(cur)
				o.Callback = cb
				err = o.Load()
			})
			switch {
			case lp != "":
				load = hx.L(hx.I(3))
			case err != nil:
				load = hx.L(hx.I(2))
			case !cb.invoked:
				load = hx.L(hx.I(0))
			default:
				load = hx.L(hx.I(1), hx.B(cb.fed))
			}
		default:
			got := map[string]int64{}
			var err error
			lp := hx.Catch(func() { err = offset.LoadYAML(cur, &got) })
			switch {
			case lp != "":
				load = hx.L(hx.I(2))
			case err != nil:
				load = hx.L(hx.I(1))
			default:
				load = hx.L(hx.I(0), kvSx(got))
			}
		}
		out = hx.L(oldb, hx.B(newb), dir1, dir2, load)
	})
	if pn != "" {
		return badObs("panic: " + pn)
	}
	return out
}

// ---- the temp names the real savers create ------------------------------------------------------------------
// learnCreated runs save(cur) in a fresh directory under an inotify watch and returns the names (as accepted by
// leftoverPath) of every file other than cur that was created there — whether or not it still exists.
func learnCreated(save func(cur string)) []string {
	d := scratch()
	defer os.RemoveAll(d)
	cur := filepath.Join(d, "offsets.yaml")
	fd, err := syscall.InotifyInit1(syscall.IN_NONBLOCK | syscall.IN_CLOEXEC)
	if err != nil {
		return nil
	}
	defer syscall.Close(fd)
	if _, err := syscall.InotifyAddWatch(fd, d, syscall.IN_CREATE); err != nil {
		return nil
	}
	_ = hx.Catch(func() { save(cur) })
	var names []string
	buf := make([]byte, 1<<16)
	for {
		n, err := syscall.Read(fd, buf)
		if n <= 0 || err != nil {
			break
		}
		for off := 0; off+16 <= n; {
			l := int(uint32(buf[off+12]) | uint32(buf[off+13])<<8 | uint32(buf[off+14])<<16 | uint32(buf[off+15])<<24)
			name := strings.TrimRight(string(buf[off+16:off+16+l]), "\x00")
			off += 16 + l
			switch {
			case name == "" || name == "offsets.yaml":
			case strings.HasPrefix(name, "offsets.yaml"):
				names = append(names, strings.TrimPrefix(name, "offsets.yaml"))
			default:
				names = append(names, "/"+name)
			}
		}
	}
	return names
}

func uniq(xs []string) []string {
	seen := map[string]bool{}
	var out []string
	for _, x := range xs {
		if !seen[x] {
			seen[x] = true
			out = append(out, x)
		}
	}
	return out
}

// ---- generators -----------------------------------------------------------------------------------------------
var crashStreams = []string{"crash-load-filed", "crash-load-generic", "crash-load-yaml"}

func kvOf(pairs ...any) hx.Sx {
	var items []hx.Sx
	for i := 0; i+1 < len(pairs); i += 2 {
		items = append(items, hx.L(hx.S(pairs[i].(string)), hx.Z(int64(pairs[i+1].(int)))))
	}
	return hx.L(items...)
}

func genCrashLoad(c *hmain.Ctx) {
	r := c.R
	tbl := func(t []filein.VerifC07Job) hx.Sx { return encodeTable(t) }
	// temp names: what the real savers were SEEN to create, plus names a changed saver / loader might use
	learned := [3][]string{}
	sampleT := []filein.VerifC07Job{{Filename: "f", Inode: 1, SourceID: 1, Timestamp: 5, Streams: []filein.VerifC07Stream{{Name: "s", Offset: 3}}}}
	learned[0] = uniq(append(learnCreated(func(cur string) { filein.VerifC07Save(cur, cur+".atomic", sampleT) }),
		learnCreated(func(cur string) { filein.VerifC07Save(cur, cur+".atomic", sampleT) })...))
	learned[1] = uniq(learnCreated(func(cur string) { _ = cleanSave(1, cur, hx.S("snapshot")) }))
	learned[2] = uniq(learnCreated(func(cur string) { _ = offset.SaveYAML(cur, map[string]int64{"a": 1}) }))
	for t := 0; t < 3; t++ {
		c.W.Oracle("crash-load: the real save of target "+[]string{"offsetDB", "offset.Offset", "offset.SaveYAML"}[t]+" creates exactly one temp file next to the offsets file (inotify)",
			len(learned[t]) >= 1 && len(learned[t]) <= 2, strings.Join(learned[t], " "))
	}
	plausible := []string{".tmp", ".atomic", ".atomic.0", ".atomic.tmp", ".new", ".bak", "~", ".atomic.1777777777777777777777", "/.offsets.yaml.tmp", "/offsets.tmp"}
	namesFor := func(t int, k int) hx.Sx { // the learned names first, then k plausible ones
		ns := append([]string{}, learned[t]...)
		for i := 0; i < k; i++ {
			ns = append(ns, hx.Pick(r, plausible))
		}
		if len(ns) == 0 {
			ns = []string{".atomic.0"}
		}
		return hx.Ss(uniq(ns))
	}
	allNames := func(t int) hx.Sx { return hx.Ss(uniq(append(append([]string{}, learned[t]...), plausible...))) }

	// ---- exhaustive small scope: one fixed old and new value per target; old absent / present; EVERY crash point the
	//      harness can realise — before the save, the write torn after every number of bytes 0..len(new), before the
	//      rename, done — x every override of a fixed set (none, temp files gone, empty, one byte, new torn in the middle,
	//      the complete new snapshot, a complete FOREIGN snapshot, garbage) under every learned and plausible temp name
	oldV := []hx.Sx{
		tbl([]filein.VerifC07Job{{Filename: "/var/log/a.log", Inode: 5, SourceID: 7, Timestamp: 1234, Streams: []filein.VerifC07Stream{{Name: "stdout", Offset: 100}, {Name: "", Offset: 7}}}}),
		hx.S("cursor: s=aaaa;i=1\noffset: 1\n"),
		kvOf("cursor_a", 1, "offs", 17),
	}
	newV := []hx.Sx{
		tbl([]filein.VerifC07Job{{Filename: "/var/log/a.log", Inode: 5, SourceID: 7, Timestamp: 5678, Streams: []filein.VerifC07Stream{{Name: "stdout", Offset: 250}, {Name: "", Offset: 90}, {Name: "a: 5", Offset: 1<<63 - 1}}}}),
		hx.S("cursor: s=bbbbbbbbbbbb;i=2\noffset: 1234567\n"),
		kvOf("cursor_a", 1234567, "offs", 890, "zz", 42),
	}
	foreignV := []hx.Sx{
		tbl([]filein.VerifC07Job{{Filename: "/var/log/zzz.log", Inode: 9, SourceID: 99, Timestamp: 1, Streams: []filein.VerifC07Stream{{Name: "stderr", Offset: 424242}}}}),
		hx.S("cursor: s=ffff;i=9\noffset: 99999\n"),
		kvOf("foreign", 424242),
	}
	snapshotBytes := func(t int, x hx.Sx) []byte {
		if t == 1 {
			return hx.Bytes(x)
		}
		side := scratch()
		defer os.RemoveAll(side)
		scur := filepath.Join(side, "offsets.yaml")
		_ = cleanSave(t, scur, x)
		b, _ := os.ReadFile(scur)
		return b
	}
	for t := 0; t < 3; t++ {
		nb := snapshotBytes(t, newV[t])
		fb := snapshotBytes(t, foreignV[t])
		overrides := []hx.Sx{hx.L(), hx.L(hx.I(0)), hx.L(hx.I(1), hx.B(nil)), hx.L(hx.I(1), hx.S("x")), hx.L(hx.I(1), hx.B(nb[:len(nb)/2])),
			hx.L(hx.I(1), hx.B(nb)), hx.L(hx.I(1), hx.B(fb)), hx.L(hx.I(1), hx.B([]byte{0, 0xff, '\n', ':', ' ', 0x80, '-', ' '}))}
		var cps []hx.Sx
		cps = append(cps, hx.L(hx.I(0)))
		for cut := 0; cut <= len(nb); cut++ {
			cps = append(cps, hx.L(hx.I(1), hx.I(cut)))
		}
		cps = append(cps, hx.L(hx.I(2)), hx.L(hx.I(3)))
		for _, old := range []hx.Sx{hx.L(), hx.L(oldV[t])} {
			for _, cp := range cps {
				for oi, ov := range overrides {
					if c.Scale == 1 && hx.Int(hx.Items(cp)[0]) == 1 && oi >= 2 && (int(hx.Int(hx.Items(cp)[1]))+oi)%3 != 0 {
						continue // quick: a torn write x the content overrides is thinned out to every third cut (all of them: thorough)
					}
					names := namesFor(t, 0)
					if oi >= 2 {
						names = allNames(t)
					}
					c.W.Count("crash-load: " + []string{"first save (no offsets file)", "later save"}[len(hx.Items(old))] + ", " +
						[]string{"before the save", "write torn", "before the rename", "save done"}[hx.Int(hx.Items(cp)[0])] + ", " +
						[]string{"leftovers as the crash left them", "leftovers gone", "leftovers overwritten"}[min(oi, 2)])
					c.Do(crashStreams[t]+"-exhaustive", 6, hx.L(hx.I(t), old, newV[t], cp, ov, names), true)
				}
			}
		}
	}

	// ---- random values, random crash points, random leftovers
	randBytes := func(n int) []byte {
		b := make([]byte, n)
		for i := range b {
			b[i] = byte(r.Intn(256))
		}
		return b
	}
	keyPool := []string{"cursor", "offset", "a", "b", "s=6a1c;i=1fb", "boot_id", "x.y", "k-1", "Z", "_", "ts", "long_key_name_0123456789"}
	genKV := func() hx.Sx {
		m := map[string]int64{}
		for n := r.Range(0, 4); n > 0; n-- {
			m[hx.Pick(r, keyPool)] = genOffset(r)
		}
		return kvSx(m)
	}
	genValue := func(t int) hx.Sx {
		switch t {
		case 0:
			return tbl(genTable(r, 3, true))
		case 1:
			switch r.Intn(4) {
			case 0:
				return hx.B(randBytes(r.Range(0, 40)))
			case 1:
				return hx.B(nil)
			}
			return hx.S("cursor: " + randBytesNoNL(r, r.Range(0, 30)) + "\noffset: " + hx.String(hx.Z(genOffset(r))) + "\n")
		}
		return genKV()
	}
	for i := 0; i < 1500*c.Scale; i++ {
		t := r.Intn(3)
		old := hx.L()
		if r.Bool() {
			old = hx.L(genValue(t))
		}
		nv := genValue(t)
		var cp hx.Sx
		switch r.Intn(6) {
		case 0:
			cp = hx.L(hx.I(0))
		case 1:
			cp = hx.L(hx.I(2))
		case 2:
			cp = hx.L(hx.I(3))
		default:
			cp = hx.L(hx.I(1), hx.I(r.Range(0, 120)))
		}
		ov := hx.L()
		switch r.Intn(6) {
		case 0:
			ov = hx.L(hx.I(0))
		case 1:
			ov = hx.L(hx.I(1), hx.B(randBytes(r.Range(0, 30))))
		case 2, 3: // a complete foreign snapshot / a torn one
			b := snapshotBytes(t, genValue(t))
			if r.Bool() && len(b) > 0 {
				b = b[:r.Intn(len(b))]
			}
			ov = hx.L(hx.I(1), hx.B(b))
		}
		c.W.Count("crash-load random: target " + []string{"offsetDB", "offset.Offset raw", "offset yaml"}[t])
		c.Do(crashStreams[t], 6, hx.L(hx.I(t), old, nv, cp, ov, namesFor(t, r.Range(0, 3))), true)
	}
}
